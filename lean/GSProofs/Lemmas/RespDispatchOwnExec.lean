import GSProofs.Lemmas.RespDispatchOwnDef
/-!
`Inv` is preserved by the task worker: finishTask, checkForUpdates, stepExec, startTask, startExec.
-/
namespace GS.C10
open GS.RespMgr GS.Generated

theorem dropExec_sublist (l : List Exec) (t : Peer × ReqId) : (dropExec l t).Sublist l := by
  induction l with
  | nil => exact List.Sublist.slnil
  | cons y rest ih =>
    unfold dropExec
    split
    · exact List.sublist_cons_self y rest
    · exact List.Sublist.cons_cons y ih

theorem dropExec_ne {l : List Exec} {t : Peer × ReqId} (hn : (l.map (·.task)).Nodup) :
    ∀ e' ∈ dropExec l t, e'.task ≠ t := by
  induction l with
  | nil => intro e' h; cases h
  | cons y rest ih =>
    rw [List.map_cons, List.nodup_cons] at hn
    unfold dropExec
    split
    · rename_i hy
      intro e' he' h
      apply hn.1
      rw [hy, ← h]
      exact List.mem_map_of_mem he'
    · rename_i hy
      intro e' he'
      rcases List.mem_cons.mp he' with h | h
      · rw [h]; exact hy
      · exact ih hn.2 e' h

theorem finishTask_inv {s : State} (t : Peer × ReqId) (e : Exec) (hi : Inv (some t) s)
    (hf : findExec s.execs t = some e) (err : Option ErrK) (paused : Bool)
    (hp : paused = true → ∀ o, s.obj e.k = some o → o.finCode = none) :
    Inv none (finishTask s t err paused).1 := by
  have het : e.task = t := findExec_task hf
  obtain ⟨o0, hl0, hp0, hs0, _⟩ := hi.exec e (findExec_mem hf)
  rw [het] at hl0 hp0
  have hsub := dropExec_sublist s.execs t
  have hne := dropExec_ne (t := t) hi.enodup
  have hiA : Inv (some t) ({ s with active := eraseFirst s.active t, execs := dropExec s.execs t } : State) :=
    { ids := fun id k o h => hi.ids id k o h
      pend := fun t' h => hi.pend t' h
      pnodup := hi.pnodup
      fin := fun id k o h => hi.fin id k o h
      exec := fun e' h => hi.exec e' (hsub.subset h)
      enodup := List.Nodup.sublist (hsub.map _) hi.enodup }
  have hi1 : Inv none ({ s with active := eraseFirst s.active t, execs := dropExec s.execs t } : State) :=
    inv_drop_ex hiA hne
  have hl1 : ({ s with active := eraseFirst s.active t, execs := dropExec s.execs t } : State).lookup t.2 = some (e.k, o0) := hl0
  have hq : Quiet ({ s with active := eraseFirst s.active t, execs := dropExec s.execs t } : State) t.2 := by
    refine ⟨no_pending_of_state hi1 hl1 (by rw [hs0]; decide), ?_⟩
    intro e' he' h2
    obtain ⟨o', hl', hp', _, _⟩ := hi1.exec e' he'
    rw [h2, hl1] at hl'
    have ho : o0 = o' := (Prod.mk.inj (Option.some.inj hl')).2
    apply hne e' he'
    exact Prod.ext (by rw [← hp', ← ho, hp0]) h2
  unfold finishTask
  simp only
  split
  · exact hi1
  · rename_i k o hlk
    have hko : (k, o) = (e.k, o0) := Option.some.inj (hlk.symm.trans hl1)
    cases hko
    split
    · split
      · rename_i _ hq'
        rw [hs0] at hq'; cases hq'
      · exact hi1
    · split
      · exact inv_terminate hi1 t.2 hq
      · split
        · rename_i hpa
          refine inv_setObj_quiet hi1 t.2 e.k o0 _ hlk hq rfl rfl ?_
          intro h
          exact absurd (hp hpa o0 (lookup_some hl0).2) h
        · split
          · exact inv_terminate hi1 t.2 hq
          · split
            · exact inv_terminate hi1 t.2 hq
            · exact inv_setObj_quiet hi1 t.2 e.k o0 _ hlk hq rfl rfl (fun _ => Or.inl rfl)

theorem getUpdates_inv {ex : Option (Peer × ReqId)} {s : State} (hi : Inv ex s) (id : ReqId) :
    Inv ex (getUpdates s id).2 ∧ (getUpdates s id).2.execs = s.execs := by
  unfold getUpdates
  split
  · exact ⟨hi, rfl⟩
  · rename_i k2 o2 hl
    exact ⟨inv_setObj hi k2 o2 _ (lookup_some hl).2 rfl rfl rfl (Or.inl rfl), rfl⟩

theorem checkForUpdates_inv (fuel : Nat) {s : State} (e : Exec) (hi : Inv none s) (he : e ∈ s.execs) :
    Inv none (checkForUpdates fuel s e).1 ∧ (checkForUpdates fuel s e).1.execs = s.execs := by
  induction fuel generalizing s with
  | zero => exact ⟨hi, rfl⟩
  | succ fuel ih =>
    unfold checkForUpdates
    split
    · exact ⟨hi, rfl⟩
    · rename_i o ho
      split
      · exact ⟨inv_setObj hi e.k o _ ho rfl rfl rfl (Or.inl rfl), rfl⟩
      · split
        · exact ⟨inv_setObj hi e.k o _ ho rfl rfl rfl (Or.inl rfl), rfl⟩
        · split
          · have hi1 : Inv none (s.setObj e.k { o with sigUpdate := false }) :=
              inv_setObj hi e.k o _ ho rfl rfl rfl (Or.inl rfl)
            obtain ⟨hi2, he2⟩ := getUpdates_inv hi1 e.task.2
            simp only
            generalize getUpdates (s.setObj e.k { o with sigUpdate := false }) e.task.2 = ups at hi2 he2 ⊢
            obtain ⟨us, st⟩ := ups
            have he2' : st.execs = s.execs := he2
            split
            · exact ⟨hi2, he2'⟩
            · obtain ⟨hi3, he3⟩ := ih (s := st) hi2 (by rw [he2']; exact he)
              exact ⟨hi3, he3.trans he2'⟩
          · exact ⟨hi, rfl⟩

theorem abortTail_inv {s1 : State} (e : Exec) (o : Obj) (err : ErrK) (hi : Inv none s1) (he : e ∈ s1.execs)
    (hk : s1.obj e.k = some o) :
    Inv (some e.task) (abortTail s1 e o err).1 ∧ (abortTail s1 e o err).1.execs = s1.execs := by
  unfold abortTail
  cases err with
  | network => exact ⟨inv_weaken hi, rfl⟩
  | ctxCancel => exact ⟨inv_weaken hi, rfl⟩
  | byCommand => exact ⟨inv_setObj_fin hi e he o hk _, rfl⟩
  | hook => exact ⟨inv_setObj_fin hi e he o hk _, rfl⟩

theorem sendBlock_inv {s1 : State} (e : Exec) (o : Obj) (t : Peer × ReqId) (evs0 : List Ev) (b : Bool)
    (hi : Inv none s1) (hf : findExec s1.execs t = some e) (hk : s1.obj e.k = some o) :
    Inv none (sendBlock s1 e o t evs0 b).1 := by
  have he : e ∈ s1.execs := findExec_mem hf
  have het : e.task = t := findExec_task hf
  have hi2 : Inv none (s1.setObj e.k { o with sent := o.sent + 1 }) :=
    inv_setObj hi e.k o _ hk rfl rfl rfl (Or.inl rfl)
  have hk2 : (s1.setObj e.k { o with sent := o.sent + 1 }).obj e.k = some { o with sent := o.sent + 1 } :=
    obj_setObj_self s1 e.k o _ hk
  have he2 : e ∈ (s1.setObj e.k { o with sent := o.sent + 1 }).execs := he
  have hf2 : findExec (s1.setObj e.k { o with sent := o.sent + 1 }).execs t = some e := hf
  unfold sendBlock
  simp only
  split
  · have hi3 := inv_setObj_fin hi2 e he2 _ hk2 (some StatusCodes.RequestFailedUnknown)
    rw [het] at hi3
    exact finishTask_inv t e hi3 hf (some .hook) false (by intro h; cases h)
  · split
    · refine finishTask_inv t e (inv_weaken hi2) hf2 none true ?_
      intro _ o' ho'
      obtain ⟨o'', hl'', _, _, hfin⟩ := hi2.exec e he2
      have := (lookup_some hl'').2
      rw [ho'] at this
      cases this
      exact hfin (by simp)
    · split
      · have hi3 := inv_setObj_fin hi2 e he2 _ hk2 (some StatusCodes.RequestCompletedFull)
        rw [het] at hi3
        exact finishTask_inv t e hi3 hf none false (by intro h; cases h)
      · exact hi2

theorem stepExec_inv {s : State} (hi : Inv none s) (t : Peer × ReqId) : Inv none (stepExec s t).1 := by
  unfold stepExec
  split
  · exact hi
  · rename_i e hf
    have he := findExec_mem hf
    split
    · exact hi
    · rename_i o0 _
      obtain ⟨hic, hec⟩ := checkForUpdates_inv (o0.updates.length + 4) e hi he
      have hfc : findExec (checkForUpdates (o0.updates.length + 4) s e).1.execs t = some e := by
        rw [hec]; exact hf
      simp only
      split
      · exact hi
      · rename_i o ho
        split
        · rename_i err _
          obtain ⟨hia, hea⟩ := abortTail_inv e o err hic (findExec_mem hfc) ho
          rw [findExec_task hf] at hia
          exact finishTask_inv t e hia (by rw [hea]; exact hfc) (some err) false (by intro h; cases h)
        · exact sendBlock_inv e o t _ _ hic hfc ho

theorem startTask_inv {s : State} (hi : Inv none s) (t : Peer × ReqId) : Inv none (startTask s t).1 := by
  unfold startTask
  split
  · exact hi
  · rename_i hc
    have hmem : t ∈ s.pending := by simpa using hc
    obtain ⟨k0, o0, hl0, hp0, hs0⟩ := hi.pend t hmem
    have hi1 : Inv none ({ s with pending := eraseFirst s.pending t } : State) :=
      inv_pending_sub hi _ (eraseFirst_sublist _ _)
    have hl1 : ({ s with pending := eraseFirst s.pending t } : State).lookup t.2 = some (k0, o0) := hl0
    simp only
    split
    · exact hi1
    · rename_i k o hlk
      have hko : (k, o) = (k0, o0) := Option.some.inj (hlk.symm.trans hl1)
      have hk_eq : k = k0 := (Prod.mk.inj hko).1
      have ho_eq : o = o0 := (Prod.mk.inj hko).2
      subst hk_eq; subst ho_eq
      split
      · exact hi1
      · have hq : Quiet ({ s with pending := eraseFirst s.pending t } : State) t.2 := by
          refine ⟨?_, no_exec_of_state hi1 hl1 (by rw [hs0]; decide)⟩
          intro t' ht' h2
          obtain ⟨k', o', hl', hp', _⟩ := hi1.pend t' ht'
          rw [h2, hl1] at hl'
          have ho : o = o' := (Prod.mk.inj (Option.some.inj hl')).2
          have htt : t' = t := Prod.ext (by rw [← hp', ← ho, hp0]) h2
          rw [htt] at ht'
          exact not_mem_eraseFirst hi.pnodup t ht'
        have hfin0 : o.finCode = none := by
          cases hfc : o.finCode with
          | none => rfl
          | some c =>
            have := hi.fin t.2 k o hl0 (by rw [hfc]; simp)
            rw [hs0] at this
            rcases this with h | h <;> cases h
        have hk : ({ s with pending := eraseFirst s.pending t } : State).obj k = some o := (lookup_some hl1).2
        have hiS := inv_setObj_quiet hi1 t.2 k o
          { o with started := true, state := .running, task := some s.nextTid } hlk hq rfl rfl (fun _ => Or.inr rfl)
        have hlS := lookup_setObj ({ s with pending := eraseFirst s.pending t } : State) k o
          { o with started := true, state := .running, task := some s.nextTid } hk t.2
        rw [hl1] at hlS
        simp only [if_true] at hlS
        exact
          { ids := fun id k' o' h => hiS.ids id k' o' h
            pend := fun t' h => hiS.pend t' h
            pnodup := hiS.pnodup
            fin := fun id k' o' h => hiS.fin id k' o' h
            exec := by
              intro e' he'
              rcases List.mem_append.mp he' with h | h
              · exact hiS.exec e' h
              · have : e' = { task := t, k := k, tid := s.nextTid } := by simpa using h
                subst this
                exact ⟨_, hlS, hp0, rfl, fun _ => hfin0⟩
            enodup := by
              show ((s.execs ++ [({ task := t, k := k, tid := s.nextTid } : Exec)]).map (·.task)).Nodup
              rw [List.map_append, List.nodup_append]
              refine ⟨hi.enodup, by simp, ?_⟩
              intro a ha b hb
              have hb' : b = t := by simpa using hb
              obtain ⟨e', he', hea⟩ := List.mem_map.mp ha
              intro hab
              apply hq.2 e' he'
              rw [hea, hab, hb'] }

theorem startExec_inv {s : State} (hi : Inv none s) (t : Peer × ReqId) : Inv none (startExec s t).1 := by
  have hir := startTask_inv hi t
  unfold startExec
  simp only
  split
  · exact hir
  · split
    · exact hir
    · rename_i e hf
      split
      · exact hir
      · rename_i o hk
        split
        · have hi3 := inv_setObj_fin hir e (findExec_mem hf) o hk (some StatusCodes.RequestCompletedFull)
          rw [findExec_task hf] at hi3
          exact finishTask_inv t e hi3 hf none false (by intro h; cases h)
        · exact hir

end GS.C10
