package main

import (
	_ "verifharness/linktrack"
	"verifharness/reg"
)

func main() { reg.Main("linktrack") }
