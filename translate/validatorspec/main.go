// Command validatorspec regenerates lean/GS/Generated/ValidatorSpec.lean (property C08) from
//
//	selectorvalidator/selectorvalidator.go   the builder-DSL expression assigned to maxDepthSelector in
//	                                          init(), the decision logic of the visit callback in
//	                                          ValidateMaxRecursionDepth, the SelectorValidator hook
//	impl/graphsync.go                         maxRecursionDepth, default registration of the validator
//	responsemanager/preparequery.go           the status chain of prepareQuery (unvalidated => RequestRejected)
//
// usage: go run ./validatorspec <repo>      (prints the Lean file; exits non-zero on syntax it does not know)
package main

import (
	"fmt"
	"go/ast"
	"go/parser"
	"go/token"
	"os"
	"os/exec"
	"path/filepath"
	"strconv"
	"strings"
)

var fset = token.NewFileSet()

func die(pos token.Pos, format string, a ...interface{}) {
	where := ""
	if pos.IsValid() {
		where = fset.Position(pos).String() + ": "
	}
	fmt.Fprintf(os.Stderr, "validatorspec: %s%s\n", where, fmt.Sprintf(format, a...))
	os.Exit(1)
}

func parseFile(path string) *ast.File {
	f, err := parser.ParseFile(fset, path, nil, parser.SkipObjectResolution)
	if err != nil {
		die(token.NoPos, "parse %s: %v", path, err)
	}
	return f
}

func findFunc(f *ast.File, name string) *ast.FuncDecl {
	for _, d := range f.Decls {
		if fd, ok := d.(*ast.FuncDecl); ok && fd.Recv == nil && fd.Name.Name == name {
			return fd
		}
	}
	die(f.Pos(), "function %s not found", name)
	return nil
}

func src(n ast.Node) string {
	var sb strings.Builder
	b, _ := os.ReadFile(fset.Position(n.Pos()).Filename)
	sb.Write(b[fset.Position(n.Pos()).Offset:fset.Position(n.End()).Offset])
	return sb.String()
}

// ------------------------------------------------------------------ selector keys of go-ipld-prime

var selectorKeys = map[string]string{}

func loadSelectorKeys(repo string) {
	cmd := exec.Command("go", "list", "-m", "-f", "{{.Dir}}", "github.com/ipld/go-ipld-prime")
	cmd.Dir = repo
	cmd.Stderr = os.Stderr
	out, err := cmd.Output()
	if err != nil {
		die(token.NoPos, "cannot locate go-ipld-prime: %v", err)
	}
	lines := strings.Split(strings.TrimSpace(string(out)), "\n")
	dir := strings.TrimSpace(lines[len(lines)-1])
	f := parseFile(filepath.Join(dir, "traversal", "selector", "fieldKeys.go"))
	for _, d := range f.Decls {
		gd, ok := d.(*ast.GenDecl)
		if !ok || gd.Tok != token.CONST {
			continue
		}
		for _, sp := range gd.Specs {
			vs := sp.(*ast.ValueSpec)
			for i, n := range vs.Names {
				if i < len(vs.Values) {
					if bl, ok := vs.Values[i].(*ast.BasicLit); ok && bl.Kind == token.STRING {
						s, _ := strconv.Unquote(bl.Value)
						selectorKeys[n.Name] = s
					}
				}
			}
		}
	}
	if len(selectorKeys) < 10 {
		die(token.NoPos, "fieldKeys.go: only %d selector key constants found", len(selectorKeys))
	}
}

func leanStr(s string) string {
	for _, c := range s {
		if c < 0x20 || c > 0x7e {
			die(token.NoPos, "string %q: only printable ASCII is supported", s)
		}
	}
	return strconv.Quote(s)
}

func leanInt(v int64) string {
	if v < 0 {
		return fmt.Sprintf("(%d)", v)
	}
	return fmt.Sprintf("%d", v)
}

// stringExpr: selector.SelectorKey_X or a string literal
func stringExpr(e ast.Expr) string {
	switch x := e.(type) {
	case *ast.BasicLit:
		if x.Kind == token.STRING {
			s, err := strconv.Unquote(x.Value)
			if err == nil {
				return s
			}
		}
	case *ast.SelectorExpr:
		if id, ok := x.X.(*ast.Ident); ok && id.Name == "selector" {
			if v, ok := selectorKeys[x.Sel.Name]; ok {
				return v
			}
		}
	}
	die(e.Pos(), "expected a string literal or selector.SelectorKey_* constant, got %s", src(e))
	return ""
}

func intExpr(e ast.Expr, consts map[string]int64) int64 {
	switch x := e.(type) {
	case *ast.BasicLit:
		if x.Kind == token.INT {
			v, err := strconv.ParseInt(x.Value, 0, 64)
			if err == nil {
				return v
			}
		}
	case *ast.UnaryExpr:
		if x.Op == token.SUB {
			return -intExpr(x.X, consts)
		}
	case *ast.ParenExpr:
		return intExpr(x.X, consts)
	case *ast.Ident:
		if v, ok := consts[x.Name]; ok {
			return v
		}
	case *ast.CallExpr: // int64(5)
		if id, ok := x.Fun.(*ast.Ident); ok && (id.Name == "int64" || id.Name == "int") && len(x.Args) == 1 {
			return intExpr(x.Args[0], consts)
		}
	}
	die(e.Pos(), "expected an integer constant, got %s", src(e))
	return 0
}

// ------------------------------------------------------------------ builder DSL -> Lean `Sel`

type dsl struct {
	ssb    string              // name of the SelectorSpecBuilder variable
	vars   map[string]ast.Expr // local `x := <spec expression>` definitions
	consts map[string]int64    // package-level integer constants of the file
}

// package-level `const name = <int>` declarations
func intConsts(f *ast.File) map[string]int64 {
	out := map[string]int64{}
	for _, d := range f.Decls {
		gd, ok := d.(*ast.GenDecl)
		if !ok || gd.Tok != token.CONST {
			continue
		}
		for _, sp := range gd.Specs {
			vs := sp.(*ast.ValueSpec)
			for i, n := range vs.Names {
				if i < len(vs.Values) {
					if bl, ok := vs.Values[i].(*ast.BasicLit); ok && bl.Kind == token.INT {
						if v, err := strconv.ParseInt(bl.Value, 0, 64); err == nil {
							out[n.Name] = v
						}
					}
				}
			}
		}
	}
	return out
}

func (d *dsl) limit(e ast.Expr) string {
	c, ok := e.(*ast.CallExpr)
	if ok {
		if se, ok := c.Fun.(*ast.SelectorExpr); ok {
			if id, ok := se.X.(*ast.Ident); ok && id.Name == "selector" {
				switch se.Sel.Name {
				case "RecursionLimitNone":
					if len(c.Args) == 0 {
						return "Limit.none"
					}
				case "RecursionLimitDepth":
					if len(c.Args) == 1 {
						return "(Limit.depth " + leanInt(intExpr(c.Args[0], d.consts)) + ")"
					}
				}
			}
		}
	}
	die(e.Pos(), "unknown recursion limit expression %s", src(e))
	return ""
}

func (d *dsl) spec(e ast.Expr) string {
	switch x := e.(type) {
	case *ast.ParenExpr:
		return d.spec(x.X)
	case *ast.Ident:
		if v, ok := d.vars[x.Name]; ok {
			return d.spec(v)
		}
		die(e.Pos(), "unknown identifier %s in selector expression", x.Name)
	case *ast.CallExpr:
		se, ok := x.Fun.(*ast.SelectorExpr)
		if !ok {
			break
		}
		id, ok := se.X.(*ast.Ident)
		if !ok || id.Name != d.ssb {
			break
		}
		args := x.Args
		need := func(n int) {
			if len(args) != n || x.Ellipsis.IsValid() {
				die(e.Pos(), "%s: expected %d arguments", se.Sel.Name, n)
			}
		}
		switch se.Sel.Name {
		case "Matcher":
			need(0)
			return "(Sel.matcher none)"
		case "MatcherSubset":
			need(2)
			return fmt.Sprintf("(Sel.matcher (some (%s, %s)))", leanInt(intExpr(args[0], nil)), leanInt(intExpr(args[1], nil)))
		case "ExploreRecursiveEdge":
			need(0)
			return "Sel.edge"
		case "ExploreAll":
			need(1)
			return "(Sel.all " + d.spec(args[0]) + ")"
		case "ExploreIndex":
			need(2)
			return fmt.Sprintf("(Sel.index %s %s)", leanInt(intExpr(args[0], nil)), d.spec(args[1]))
		case "ExploreRange":
			need(3)
			return fmt.Sprintf("(Sel.range %s %s %s)", leanInt(intExpr(args[0], nil)), leanInt(intExpr(args[1], nil)), d.spec(args[2]))
		case "ExploreInterpretAs":
			need(2)
			return fmt.Sprintf("(Sel.interpretAs %s %s)", leanStr(stringExpr(args[0])), d.spec(args[1]))
		case "ExploreRecursive":
			need(2)
			return fmt.Sprintf("(Sel.recursive %s %s none)", d.limit(args[0]), d.spec(args[1]))
		case "ExploreUnion":
			if x.Ellipsis.IsValid() {
				die(e.Pos(), "ExploreUnion with a spread argument is not supported")
			}
			var ms []string
			for _, a := range args {
				ms = append(ms, d.spec(a))
			}
			return "(Sel.union [" + strings.Join(ms, ", ") + "])"
		case "ExploreFields":
			need(1)
			fl, ok := args[0].(*ast.FuncLit)
			if !ok || len(fl.Type.Params.List) != 1 || len(fl.Type.Params.List[0].Names) != 1 {
				die(args[0].Pos(), "ExploreFields: expected a func(efsb builder.ExploreFieldsSpecBuilder) literal")
			}
			efsb := fl.Type.Params.List[0].Names[0].Name
			var fs []string
			seen := map[string]bool{}
			for _, st := range fl.Body.List {
				es, ok := st.(*ast.ExprStmt)
				var call *ast.CallExpr
				if ok {
					call, ok = es.X.(*ast.CallExpr)
				}
				if ok {
					cse, ok2 := call.Fun.(*ast.SelectorExpr)
					cid, ok3 := (ast.Expr)(nil), false
					if ok2 {
						cid, ok3 = cse.X, true
					}
					recv, ok4 := cid.(*ast.Ident)
					ok = ok2 && ok3 && ok4 && recv.Name == efsb && cse.Sel.Name == "Insert" && len(call.Args) == 2
				}
				if !ok {
					die(st.Pos(), "ExploreFields closure: only `%s.Insert(key, spec)` statements are supported, got %s", efsb, src(st))
				}
				k := stringExpr(call.Args[0])
				if seen[k] {
					die(st.Pos(), "field %q inserted twice (the map assembler would panic)", k)
				}
				if k == "" || strings.ContainsAny(k[:1], "+-0123456789") {
					die(st.Pos(), "field key %q could be read as a list index; not supported by the model", k)
				}
				seen[k] = true
				fs = append(fs, fmt.Sprintf("(%s, %s)", leanStr(k), d.spec(call.Args[1])))
			}
			return "(Sel.fields [\n    " + strings.Join(fs, ",\n    ") + "])"
		}
	}
	die(e.Pos(), "unknown selector builder expression %s", src(e))
	return ""
}

// maxDepthSelector in init()
func extractSpec(f *ast.File) string {
	fd := findFunc(f, "init")
	d := &dsl{vars: map[string]ast.Expr{}, consts: intConsts(f)}
	result := ""
	for _, st := range fd.Body.List {
		as, ok := st.(*ast.AssignStmt)
		if !ok {
			die(st.Pos(), "init(): unsupported statement %s", src(st))
		}
		lhs0, ok := as.Lhs[0].(*ast.Ident)
		if !ok || len(as.Rhs) != 1 {
			die(st.Pos(), "init(): unsupported assignment %s", src(st))
		}
		// ssb := builder.NewSelectorSpecBuilder(...)
		if c, ok := as.Rhs[0].(*ast.CallExpr); ok {
			if se, ok := c.Fun.(*ast.SelectorExpr); ok && se.Sel.Name == "NewSelectorSpecBuilder" && as.Tok == token.DEFINE && len(as.Lhs) == 1 {
				d.ssb = lhs0.Name
				continue
			}
		}
		if lhs0.Name == "maxDepthSelector" {
			// maxDepthSelector, _ = <spec>.Selector()
			c, ok := as.Rhs[0].(*ast.CallExpr)
			var se *ast.SelectorExpr
			if ok {
				se, ok = c.Fun.(*ast.SelectorExpr)
			}
			if !ok || se.Sel.Name != "Selector" || len(c.Args) != 0 || as.Tok != token.ASSIGN {
				die(st.Pos(), "expected `maxDepthSelector, _ = <spec>.Selector()`")
			}
			if d.ssb == "" {
				die(st.Pos(), "no SelectorSpecBuilder variable seen before maxDepthSelector is assigned")
			}
			if result != "" {
				die(st.Pos(), "maxDepthSelector assigned twice")
			}
			result = d.spec(se.X)
			continue
		}
		if as.Tok == token.DEFINE && len(as.Lhs) == 1 {
			d.vars[lhs0.Name] = as.Rhs[0] // translated (and checked) at the point of use
			continue
		}
		die(st.Pos(), "init(): unsupported statement %s", src(st))
	}
	if result == "" {
		die(fd.Pos(), "init() does not assign maxDepthSelector")
	}
	return result
}

// ------------------------------------------------------------------ the visit callback

type callback struct {
	guardKindMap, guardLen1 bool
	cases                   []string // Lean pairs
	deflt                   string
}

func isRejectReturn(st ast.Stmt) bool {
	r, ok := st.(*ast.ReturnStmt)
	if !ok || len(r.Results) != 1 {
		return false
	}
	id, ok := r.Results[0].(*ast.Ident)
	return ok && id.Name == "ErrInvalidLimit"
}

func isNilReturn(st ast.Stmt) bool {
	r, ok := st.(*ast.ReturnStmt)
	if !ok || len(r.Results) != 1 {
		return false
	}
	id, ok := r.Results[0].(*ast.Ident)
	return ok && id.Name == "nil"
}

func isCall(e ast.Expr, recv, method string, nargs int) bool {
	c, ok := e.(*ast.CallExpr)
	if !ok || len(c.Args) != nargs {
		return false
	}
	se, ok := c.Fun.(*ast.SelectorExpr)
	if !ok || se.Sel.Name != method {
		return false
	}
	id, ok := se.X.(*ast.Ident)
	return ok && id.Name == recv
}

var cmpNames = map[token.Token]string{token.GTR: "gt", token.GEQ: "ge", token.LSS: "lt", token.LEQ: "le", token.EQL: "eq", token.NEQ: "ne"}
var cmpFlip = map[token.Token]token.Token{token.GTR: token.LSS, token.GEQ: token.LEQ, token.LSS: token.GTR, token.LEQ: token.GEQ, token.EQL: token.EQL, token.NEQ: token.NEQ}

// body of one case clause -> Lean Action
func caseAction(body []ast.Stmt, valueVar, maxParam string, pos token.Pos) string {
	if len(body) == 1 && isRejectReturn(body[0]) {
		return "Action.reject"
	}
	if len(body) == 1 && isNilReturn(body[0]) {
		return "Action.accept"
	}
	// x, err := v.AsInt(); if err != nil { return ErrInvalidLimit }; if x CMP max { return ErrInvalidLimit }; return nil
	if len(body) == 4 {
		as, ok := body[0].(*ast.AssignStmt)
		if ok && as.Tok == token.DEFINE && len(as.Lhs) == 2 && len(as.Rhs) == 1 && isCall(as.Rhs[0], valueVar, "AsInt", 0) {
			x, ok1 := as.Lhs[0].(*ast.Ident)
			errv, ok2 := as.Lhs[1].(*ast.Ident)
			if1, ok3 := body[1].(*ast.IfStmt)
			if2, ok4 := body[2].(*ast.IfStmt)
			if ok1 && ok2 && ok3 && ok4 && if1.Init == nil && if1.Else == nil && if2.Init == nil && if2.Else == nil &&
				len(if1.Body.List) == 1 && isRejectReturn(if1.Body.List[0]) &&
				len(if2.Body.List) == 1 && isRejectReturn(if2.Body.List[0]) && isNilReturn(body[3]) {
				c1, ok := if1.Cond.(*ast.BinaryExpr)
				if ok && c1.Op == token.NEQ {
					l, okl := c1.X.(*ast.Ident)
					r, okr := c1.Y.(*ast.Ident)
					ok = okl && okr && l.Name == errv.Name && r.Name == "nil"
				}
				c2, ok5 := if2.Cond.(*ast.BinaryExpr)
				if ok && ok5 {
					l, okl := c2.X.(*ast.Ident)
					r, okr := c2.Y.(*ast.Ident)
					if okl && okr {
						op := c2.Op
						if l.Name == maxParam && r.Name == x.Name {
							op, l, r = cmpFlip[op], r, l
						}
						if name, known := cmpNames[op]; known && l.Name == x.Name && r.Name == maxParam {
							return "(Action.intCheck Cmp." + name + ")"
						}
					}
				}
			}
		}
	}
	die(pos, "visit callback: unsupported case body (known forms: `return ErrInvalidLimit`, `return nil`, the AsInt/compare/return-nil form)")
	return ""
}

func extractCallback(f *ast.File) callback {
	fd := findFunc(f, "ValidateMaxRecursionDepth")
	if len(fd.Type.Params.List) != 2 || len(fd.Type.Params.List[0].Names) != 1 || len(fd.Type.Params.List[1].Names) != 1 {
		die(fd.Pos(), "ValidateMaxRecursionDepth: expected (node, maxAcceptedDepth)")
	}
	nodeParam := fd.Type.Params.List[0].Names[0].Name
	maxParam := fd.Type.Params.List[1].Names[0].Name
	if len(fd.Body.List) != 1 {
		die(fd.Pos(), "ValidateMaxRecursionDepth: expected a single return statement")
	}
	ret, ok := fd.Body.List[0].(*ast.ReturnStmt)
	if !ok || len(ret.Results) != 1 || !isCall(ret.Results[0], "traversal", "WalkMatching", 3) {
		die(fd.Pos(), "ValidateMaxRecursionDepth: expected `return traversal.WalkMatching(node, maxDepthSelector, func...)`")
	}
	call := ret.Results[0].(*ast.CallExpr)
	a0, ok0 := call.Args[0].(*ast.Ident)
	a1, ok1 := call.Args[1].(*ast.Ident)
	fl, ok2 := call.Args[2].(*ast.FuncLit)
	if !ok0 || !ok1 || !ok2 || a0.Name != nodeParam || a1.Name != "maxDepthSelector" {
		die(call.Pos(), "WalkMatching: expected arguments (%s, maxDepthSelector, func literal)", nodeParam)
	}
	if len(fl.Type.Params.List) != 2 || len(fl.Type.Params.List[1].Names) != 1 {
		die(fl.Pos(), "visit callback: expected (progress, visited)")
	}
	visited := fl.Type.Params.List[1].Names[0].Name
	var cb callback
	stmts := fl.Body.List
	i := 0
	// leading guards
	var atoms func(e ast.Expr)
	atoms = func(e ast.Expr) {
		if p, ok := e.(*ast.ParenExpr); ok {
			atoms(p.X)
			return
		}
		b, ok := e.(*ast.BinaryExpr)
		if ok && b.Op == token.LOR {
			atoms(b.X)
			atoms(b.Y)
			return
		}
		if ok && b.Op == token.NEQ {
			if isCall(b.X, visited, "Kind", 0) {
				if se, ok := b.Y.(*ast.SelectorExpr); ok && se.Sel.Name == "Kind_Map" {
					cb.guardKindMap = true
					return
				}
			}
			if isCall(b.X, visited, "Length", 0) {
				if bl, ok := b.Y.(*ast.BasicLit); ok && bl.Value == "1" {
					cb.guardLen1 = true
					return
				}
			}
		}
		die(e.Pos(), "visit callback: unknown guard condition %s", src(e))
	}
	for ; i < len(stmts); i++ {
		ifs, ok := stmts[i].(*ast.IfStmt)
		if !ok {
			break
		}
		if ifs.Init != nil || ifs.Else != nil || len(ifs.Body.List) != 1 || !isRejectReturn(ifs.Body.List[0]) {
			die(ifs.Pos(), "visit callback: unsupported guard %s", src(ifs))
		}
		atoms(ifs.Cond)
	}
	// kn, v, _ := visited.MapIterator().Next()
	if i+2 >= len(stmts) {
		die(fl.Pos(), "visit callback: too short")
	}
	as, ok := stmts[i].(*ast.AssignStmt)
	okShape := ok && as.Tok == token.DEFINE && len(as.Lhs) == 3 && len(as.Rhs) == 1
	var keyVar, valueVar string
	if okShape {
		c, ok := as.Rhs[0].(*ast.CallExpr)
		okShape = ok && len(c.Args) == 0
		if okShape {
			se, ok := c.Fun.(*ast.SelectorExpr)
			okShape = ok && se.Sel.Name == "Next" && isCall(se.X, visited, "MapIterator", 0)
		}
		k, okk := as.Lhs[0].(*ast.Ident)
		v, okv := as.Lhs[1].(*ast.Ident)
		okShape = okShape && okk && okv
		if okShape {
			keyVar, valueVar = k.Name, v.Name
		}
	}
	if !okShape {
		die(stmts[i].Pos(), "visit callback: expected `kn, v, _ := %s.MapIterator().Next()`", visited)
	}
	i++
	as, ok = stmts[i].(*ast.AssignStmt)
	if !ok || as.Tok != token.DEFINE || len(as.Lhs) != 2 || len(as.Rhs) != 1 || !isCall(as.Rhs[0], keyVar, "AsString", 0) {
		die(stmts[i].Pos(), "visit callback: expected `kstr, _ := %s.AsString()`", keyVar)
	}
	kstr := as.Lhs[0].(*ast.Ident).Name
	i++
	sw, ok := stmts[i].(*ast.SwitchStmt)
	if !ok || sw.Init != nil {
		die(stmts[i].Pos(), "visit callback: expected `switch %s {…}`", kstr)
	}
	if tag, ok := sw.Tag.(*ast.Ident); !ok || tag.Name != kstr {
		die(sw.Pos(), "visit callback: expected `switch %s`", kstr)
	}
	seen := map[string]bool{}
	for _, cs := range sw.Body.List {
		cc := cs.(*ast.CaseClause)
		act := caseAction(cc.Body, valueVar, maxParam, cc.Pos())
		if cc.List == nil {
			cb.deflt = act
			continue
		}
		for _, ke := range cc.List {
			k := stringExpr(ke)
			if seen[k] {
				die(ke.Pos(), "duplicate case %q", k)
			}
			seen[k] = true
			cb.cases = append(cb.cases, fmt.Sprintf("(%s, %s)", leanStr(k), act))
		}
	}
	i++
	if cb.deflt == "" {
		// no default clause: the statements after the switch decide
		cb.deflt = caseAction(stmts[i:], valueVar, maxParam, sw.End())
	} else if i != len(stmts) {
		die(stmts[i].Pos(), "visit callback: statements after a switch with a default clause")
	}
	return cb
}

// SelectorValidator: err := ValidateMaxRecursionDepth(request.Selector(), max); if err == nil { hookActions.ValidateRequest() }
func extractHook(f *ast.File) {
	fd := findFunc(f, "SelectorValidator")
	if len(fd.Type.Params.List) != 1 || len(fd.Type.Params.List[0].Names) != 1 || len(fd.Body.List) != 1 {
		die(fd.Pos(), "SelectorValidator: unexpected shape")
	}
	maxParam := fd.Type.Params.List[0].Names[0].Name
	ret, ok := fd.Body.List[0].(*ast.ReturnStmt)
	var fl *ast.FuncLit
	if ok && len(ret.Results) == 1 {
		fl, ok = ret.Results[0].(*ast.FuncLit)
	}
	if !ok || fl == nil || len(fl.Body.List) != 2 {
		die(fd.Pos(), "SelectorValidator: expected `return func(p, request, hookActions) { err := …; if err == nil {…} }`")
	}
	var names []string
	for _, p := range fl.Type.Params.List {
		for _, n := range p.Names {
			names = append(names, n.Name)
		}
	}
	if len(names) != 3 {
		die(fl.Pos(), "SelectorValidator: hook must take (p, request, hookActions)")
	}
	req, actions := names[1], names[2]
	as, ok := fl.Body.List[0].(*ast.AssignStmt)
	okShape := ok && as.Tok == token.DEFINE && len(as.Lhs) == 1 && len(as.Rhs) == 1
	errVar := ""
	if okShape {
		c, ok := as.Rhs[0].(*ast.CallExpr)
		okShape = ok && len(c.Args) == 2
		if okShape {
			fn, ok := c.Fun.(*ast.Ident)
			mx, ok2 := c.Args[1].(*ast.Ident)
			okShape = ok && ok2 && fn.Name == "ValidateMaxRecursionDepth" && isCall(c.Args[0], req, "Selector", 0) && mx.Name == maxParam
		}
		errVar = as.Lhs[0].(*ast.Ident).Name
	}
	if !okShape {
		die(fl.Pos(), "SelectorValidator: expected `err := ValidateMaxRecursionDepth(%s.Selector(), %s)`", req, maxParam)
	}
	ifs, ok := fl.Body.List[1].(*ast.IfStmt)
	okShape = ok && ifs.Init == nil && ifs.Else == nil && len(ifs.Body.List) == 1
	if okShape {
		c, ok := ifs.Cond.(*ast.BinaryExpr)
		okShape = ok && c.Op == token.EQL
		if okShape {
			l, okl := c.X.(*ast.Ident)
			r, okr := c.Y.(*ast.Ident)
			okShape = okl && okr && l.Name == errVar && r.Name == "nil"
		}
		es, ok := ifs.Body.List[0].(*ast.ExprStmt)
		okShape = okShape && ok && isCall(es.X, actions, "ValidateRequest", 0)
	}
	if !okShape {
		die(fl.Body.List[1].Pos(), "SelectorValidator: expected `if %s == nil { %s.ValidateRequest() }`", errVar, actions)
	}
}

// ------------------------------------------------------------------ impl/graphsync.go

type wiring struct {
	maxRecursionDepth    int64
	registerByDefault    bool
	registeredDepth      int64
	hooksReachResponder  bool
	optionCanDisable     bool
}

func extractWiring(f *ast.File) wiring {
	var w wiring
	consts := map[string]int64{}
	found := false
	for _, d := range f.Decls {
		gd, ok := d.(*ast.GenDecl)
		if !ok || gd.Tok != token.CONST {
			continue
		}
		for _, sp := range gd.Specs {
			vs := sp.(*ast.ValueSpec)
			for i, n := range vs.Names {
				if n.Name == "maxRecursionDepth" && i < len(vs.Values) {
					w.maxRecursionDepth = intExpr(vs.Values[i], nil)
					consts[n.Name] = w.maxRecursionDepth
					found = true
				}
			}
		}
	}
	if !found {
		die(f.Pos(), "const maxRecursionDepth not found in impl/graphsync.go")
	}
	fd := findFunc(f, "New")
	cfgVar, hooksVar := "", ""
	regSeen := false
	ast.Inspect(fd.Body, func(n ast.Node) bool {
		switch x := n.(type) {
		case *ast.AssignStmt:
			if len(x.Lhs) == 1 && len(x.Rhs) == 1 {
				if u, ok := x.Rhs[0].(*ast.UnaryExpr); ok && u.Op == token.AND {
					if cl, ok := u.X.(*ast.CompositeLit); ok {
						if t, ok := cl.Type.(*ast.Ident); ok && t.Name == "graphsyncConfigOptions" {
							cfgVar = x.Lhs[0].(*ast.Ident).Name
							for _, el := range cl.Elts {
								kv, ok := el.(*ast.KeyValueExpr)
								if !ok {
									continue
								}
								if k, ok := kv.Key.(*ast.Ident); ok && k.Name == "registerDefaultValidator" {
									v, ok := kv.Value.(*ast.Ident)
									if !ok || (v.Name != "true" && v.Name != "false") {
										die(kv.Pos(), "registerDefaultValidator: expected true/false")
									}
									w.registerByDefault = v.Name == "true"
								}
							}
						}
					}
				}
			}
		case *ast.IfStmt:
			se, ok := x.Cond.(*ast.SelectorExpr)
			if !ok || se.Sel.Name != "registerDefaultValidator" {
				return true
			}
			if id, ok := se.X.(*ast.Ident); !ok || id.Name != cfgVar || x.Init != nil || x.Else != nil || len(x.Body.List) != 1 {
				die(x.Pos(), "unsupported shape of the default validator registration")
			}
			es, ok := x.Body.List[0].(*ast.ExprStmt)
			var call *ast.CallExpr
			if ok {
				call, ok = es.X.(*ast.CallExpr)
			}
			if !ok || len(call.Args) != 1 {
				die(x.Pos(), "unsupported shape of the default validator registration")
			}
			fse, ok := call.Fun.(*ast.SelectorExpr)
			if !ok || fse.Sel.Name != "Register" {
				die(x.Pos(), "expected <hooks>.Register(selectorvalidator.SelectorValidator(depth))")
			}
			hooksVar = fse.X.(*ast.Ident).Name
			if !isCall(call.Args[0], "selectorvalidator", "SelectorValidator", 1) {
				die(x.Pos(), "expected <hooks>.Register(selectorvalidator.SelectorValidator(depth))")
			}
			w.registeredDepth = intExpr(call.Args[0].(*ast.CallExpr).Args[0], consts)
			regSeen = true
			return false
		case *ast.CallExpr:
			if isCall(x, "responsemanager", "New", len(x.Args)) {
				for _, a := range x.Args {
					if id, ok := a.(*ast.Ident); ok && hooksVar != "" && id.Name == hooksVar {
						w.hooksReachResponder = true
					}
				}
			}
		}
		return true
	})
	if cfgVar == "" {
		die(fd.Pos(), "New: graphsyncConfigOptions literal not found")
	}
	if !regSeen {
		// the registration disappeared: the fact is `not registered`
		w.registerByDefault = false
	}
	return w
}

// ------------------------------------------------------------------ responsemanager/preparequery.go

// the if / else-if chain inside the first Transaction of prepareQuery
func extractPrepareQuery(f *ast.File) []string {
	fd := findFunc(f, "prepareQuery")
	resultParam := ""
	for _, p := range fd.Type.Params.List {
		if se, ok := p.Type.(*ast.SelectorExpr); ok && se.Sel.Name == "RequestResult" && len(p.Names) == 1 {
			resultParam = p.Names[0].Name
		}
	}
	if resultParam == "" {
		die(fd.Pos(), "prepareQuery: no hooks.RequestResult parameter")
	}
	var chain *ast.IfStmt
	var rb string
	ast.Inspect(fd.Body, func(n ast.Node) bool {
		if chain != nil {
			return false
		}
		c, ok := n.(*ast.CallExpr)
		if !ok || len(c.Args) != 1 {
			return true
		}
		se, ok := c.Fun.(*ast.SelectorExpr)
		fl, ok2 := c.Args[0].(*ast.FuncLit)
		if !ok || !ok2 || se.Sel.Name != "Transaction" {
			return true
		}
		rb = fl.Type.Params.List[0].Names[0].Name
		for _, st := range fl.Body.List {
			switch x := st.(type) {
			case *ast.IfStmt:
				if chain != nil {
					die(x.Pos(), "prepareQuery: more than one if-chain in the first transaction")
				}
				chain = x
			case *ast.RangeStmt: // sending hook extensions; no status involved
			case *ast.ReturnStmt:
				if !isNilReturn(x) {
					die(x.Pos(), "prepareQuery: unexpected return")
				}
			default:
				die(st.Pos(), "prepareQuery: unsupported statement %s", src(st))
			}
		}
		return false
	})
	if chain == nil {
		die(fd.Pos(), "prepareQuery: status chain not found")
	}
	cond := func(e ast.Expr) string {
		neg := false
		if u, ok := e.(*ast.UnaryExpr); ok && u.Op == token.NOT {
			neg = true
			e = u.X
		}
		if b, ok := e.(*ast.BinaryExpr); ok && b.Op == token.NEQ {
			if se, ok := b.X.(*ast.SelectorExpr); ok && se.Sel.Name == "Err" {
				if id, ok := b.Y.(*ast.Ident); ok && id.Name == "nil" && !neg {
					return "PQCond.hookError"
				}
			}
		}
		if se, ok := e.(*ast.SelectorExpr); ok {
			if id, ok := se.X.(*ast.Ident); ok && id.Name == resultParam {
				switch {
				case se.Sel.Name == "IsValidated" && neg:
					return "PQCond.notValidated"
				case se.Sel.Name == "IsValidated" && !neg:
					return "PQCond.validated"
				case se.Sel.Name == "IsPaused" && !neg:
					return "PQCond.paused"
				}
			}
		}
		die(e.Pos(), "prepareQuery: unknown condition %s", src(e))
		return ""
	}
	action := func(b *ast.BlockStmt) string {
		if len(b.List) == 0 {
			die(b.Pos(), "prepareQuery: empty branch")
		}
		es, ok := b.List[0].(*ast.ExprStmt)
		if ok && isCall(es.X, rb, "FinishWithError", 1) && len(b.List) == 2 {
			if _, ok := b.List[1].(*ast.ReturnStmt); ok {
				se, ok := es.X.(*ast.CallExpr).Args[0].(*ast.SelectorExpr)
				if ok {
					return "(PQAct.finishWithError " + leanStr(se.Sel.Name) + ")"
				}
			}
		}
		if ok && isCall(es.X, rb, "PauseRequest", 0) && len(b.List) == 1 {
			return "PQAct.pause"
		}
		die(b.Pos(), "prepareQuery: unknown branch body %s", src(b))
		return ""
	}
	var out []string
	for cur := chain; cur != nil; {
		if cur.Init != nil {
			die(cur.Pos(), "prepareQuery: if with init statement")
		}
		out = append(out, fmt.Sprintf("(%s, %s)", cond(cur.Cond), action(cur.Body)))
		switch e := cur.Else.(type) {
		case nil:
			cur = nil
		case *ast.IfStmt:
			cur = e
		default:
			die(cur.Else.Pos(), "prepareQuery: final else branch not supported")
		}
	}
	return out
}

func main() {
	if len(os.Args) != 2 {
		fmt.Fprintln(os.Stderr, "usage: validatorspec <repo>")
		os.Exit(2)
	}
	repo := os.Args[1]
	loadSelectorKeys(repo)
	sv := parseFile(filepath.Join(repo, "selectorvalidator", "selectorvalidator.go"))
	spec := extractSpec(sv)
	cb := extractCallback(sv)
	extractHook(sv)
	w := extractWiring(parseFile(filepath.Join(repo, "impl", "graphsync.go")))
	pq := extractPrepareQuery(parseFile(filepath.Join(repo, "responsemanager", "preparequery.go")))

	b := func(v bool) string {
		if v {
			return "true"
		}
		return "false"
	}
	var o strings.Builder
	o.WriteString("/-\nGENERATED by /verif/translate/validatorspec from the go-graphsync sources — do not edit.\n")
	o.WriteString("  selectorvalidator/selectorvalidator.go : maxDepthSelector (init), visit callback of\n")
	o.WriteString("      ValidateMaxRecursionDepth, SelectorValidator hook (shape checked)\n")
	o.WriteString("  impl/graphsync.go                      : maxRecursionDepth, default registration\n")
	o.WriteString("  responsemanager/preparequery.go        : status chain of prepareQuery\n-/\n")
	o.WriteString("import GS.Model.Selector\nnamespace GS.Generated.ValidatorSpec\nopen GS.Sel\n\n")
	o.WriteString("/-- the builder expression assigned to `maxDepthSelector` -/\n")
	o.WriteString("def maxDepthSelectorSpec : Sel :=\n  " + spec + "\n\n")
	o.WriteString("/-- guards at the top of the visit callback (`… { return ErrInvalidLimit }`) -/\n")
	o.WriteString("def guardKindMap : Bool := " + b(cb.guardKindMap) + "\n")
	o.WriteString("def guardLen1 : Bool := " + b(cb.guardLen1) + "\n\n")
	o.WriteString("/-- `switch kstr` of the visit callback -/\n")
	o.WriteString("def callbackCases : List (String × Action) := [" + strings.Join(cb.cases, ", ") + "]\n")
	o.WriteString("def callbackDefault : Action := " + cb.deflt + "\n\n")
	o.WriteString("/-- `SelectorValidator` calls `hookActions.ValidateRequest()` exactly when\n    `ValidateMaxRecursionDepth(request.Selector(), maxAcceptedDepth)` returns nil (shape checked by the translator) -/\n")
	o.WriteString("def hookValidatesIffNil : Bool := true\n\n")
	o.WriteString("/-- impl/graphsync.go -/\n")
	o.WriteString("def maxRecursionDepth : Int := " + leanInt(w.maxRecursionDepth) + "\n")
	o.WriteString("def registerDefaultValidator : Bool := " + b(w.registerByDefault) + "\n")
	o.WriteString("def registeredDepth : Int := " + leanInt(w.registeredDepth) + "\n")
	o.WriteString("def hooksReachResponder : Bool := " + b(w.hooksReachResponder) + "\n\n")
	o.WriteString("/-- responsemanager/preparequery.go: the if / else-if chain over the hook result -/\n")
	o.WriteString("def prepareQueryChain : List (PQCond × PQAct) := [\n  " + strings.Join(pq, ",\n  ") + "]\n\n")
	o.WriteString("end GS.Generated.ValidatorSpec\n")
	fmt.Print(o.String())
}
