import GS.Model.ReqMgr
import GS.Driver.Proto
/-! line-protocol driver for the request-manager model (component `reqmgr`, property C09).

ops:   new <r> <p> | start <r> | release <r> ok|paused|err | cancel <r> | pause <r> | unpause <r> | update <r>
       resp <q> <id>:<status>:<first>:<count>:<ext 0|1>:<hook n|x|e|xe> …
output (one line per op):
       <res> rh=[p.r.status,…] out=[p.k.r,…] cm=[±p.r,…] q=[±p.r,…] ch=[r:err/…/c,…] cr=[r:ok|nf,…]
       st=[p{r=s,…} … pend=[p.r,…] act=[p.r,…] last=[r:status[x],…]]
-/
namespace GS.Driver.ReqMgr
open GS.Proto GS.ReqMgr

def npeers : Nat := 3

def resStr : Res → String
  | .ok => "ok" | .notFound => "notfound" | .notPaused => "notpaused" | .alreadyPaused => "alreadypaused"
  | .noTask => "notask" | .emptyTask => "empty" | .running => "run" | .noExec => "noexec"

def kindStr : MsgKind → String
  | .new => "n" | .cancel => "c" | .update => "u"

def errStr : Err → String
  | .hook => "hook" | .clientCancelled => "cc" | .status c => s!"s{c}" | .exec => "exec"

def stateStr : RState → String
  | .queued => "q" | .running => "r" | .paused => "p"

def sortPairs (xs : List (Nat × String)) : List (Nat × String) :=
  xs.foldl (fun acc x =>
    let (a, b) := acc.span (fun y => y.1 ≤ x.1)
    a ++ x :: b) []

def dedupNat (xs : List Nat) : List Nat :=
  xs.foldl (fun acc x => if acc.contains x then acc else acc ++ [x]) []

def render (s : State) (evs : List Ev) (res : Res) : String :=
  let rh := evs.filterMap fun | .hook p r st => some s!"{p}.{r}.{st}" | _ => none
  let out := evs.filterMap fun | .out p k r => some s!"{p}.{kindStr k}.{r}" | _ => none
  let cm := evs.filterMap fun | .protect p r => some s!"+{p}.{r}" | .unprotect p r => some s!"-{p}.{r}" | _ => none
  let q := evs.filterMap fun | .push p r => some s!"+{p}.{r}" | .taskDone p r => some s!"-{p}.{r}" | _ => none
  let chReqs := sortNat (dedupNat (evs.filterMap fun | .errSent r _ => some r | .closed r => some r | _ => none))
  let ch := chReqs.map fun r =>
    let parts := evs.filterMap fun
      | .errSent r' e => if r' = r then some (errStr e) else none
      | .closed r' => if r' = r then some "c" else none
      | _ => none
    s!"{r}:{joinWith "/" parts}"
  let cr := sortPairs (evs.filterMap fun | .cancelRet r f => some (r, if f then "ok" else "nf") | _ => none)
  let crs := cr.map fun x => s!"{x.1}:{x.2}"
  let peers := (List.range npeers).map fun p =>
    let rs := sortPairs ((peerState s p).map fun x => (x.1, stateStr x.2))
    s!"{p}\{{joinWith "," (rs.map fun x => s!"{x.1}={x.2}")}}"
  let pend := s.pending.map fun x => s!"{x.1}.{x.2}"
  let act := s.active.map fun x => s!"{x.1}.{x.2}"
  let last := sortPairs ((s.table.filter fun x => x.2.started).map fun x =>
    (x.1, s!"{x.2.lastStatus}{if x.2.lastExt then "x" else ""}"))
  let lasts := last.map fun x => s!"{x.1}:{x.2}"
  s!"{resStr res} rh=[{joinWith "," rh}] out=[{joinWith "," out}] cm=[{joinWith "," cm}] q=[{joinWith "," q}] ch=[{joinWith "," ch}] cr=[{joinWith "," crs}] st=[{joinWith " " peers} pend=[{joinWith "," pend}] act=[{joinWith "," act}] last=[{joinWith "," lasts}]]"

def parseResp (tok : String) : Option Resp :=
  match tok.splitOn ":" with
  | [id, st, first, count, ext, hook] =>
    match id.toNat?, st.toNat?, first.toNat?, count.toNat?, ext.toNat? with
    | some id, some st, some first, some count, some ext =>
      let hx := hook == "x" || hook == "xe"
      let he := hook == "e" || hook == "xe"
      if hook == "n" || hx || he then
        some { id, status := st, first, count, ext := ext != 0, hookExt := hx, hookErr := he }
      else none
    | _, _, _, _, _ => none
  | _ => none

def parseResps : List String → Option (List Resp)
  | [] => some []
  | t :: ts =>
    match parseResp t, parseResps ts with
    | some r, some rs => some (r :: rs)
    | _, _ => none

def parseOp (t : Toks) : Option Op :=
  match t with
  | ["new", r, p] => match r.toNat?, p.toNat? with
    | some r, some p => some (.newRequest r p) | _, _ => none
  | ["start", r] => r.toNat?.map .start
  | ["release", r, how] =>
    match r.toNat?, how with
    | some r, "ok" => some (.release r .ok)
    | some r, "paused" => some (.release r .paused)
    | some r, "err" => some (.release r .err)
    | _, _ => none
  | "resp" :: q :: rest =>
    match q.toNat?, parseResps rest with
    | some q, some rs => some (.resp q rs)
    | _, _ => none
  | ["cancel", r] => r.toNat?.map .cancel
  | ["pause", r] => r.toNat?.map .pause
  | ["unpause", r] => r.toNat?.map .unpause
  | ["update", r] => r.toNat?.map .update
  | _ => none

def handler (ops : List Toks) : List String :=
  let (_, _, outs) := ops.foldl (fun (acc : State × List Nat × List String) t =>
    let (s, created, outs) := acc
    match parseOp t with
    | none => (s, created, "bad-op" :: outs)
    | some op =>
      let bad := match op with
        | .newRequest r p => created.contains r || p ≥ npeers    -- request IDs are never reused; peers 0..2
        | _ => false
      if bad then (s, created, "bad-op" :: outs)
      else
        let created' := match op with | .newRequest r _ => r :: created | _ => created
        let r := step s op
        (r.1, created', render r.1 r.2.1 r.2.2 :: outs)) (({} : State), [], [])
  outs.reverse

end GS.Driver.ReqMgr

def main : IO Unit := GS.Proto.runModel GS.Driver.ReqMgr.handler
