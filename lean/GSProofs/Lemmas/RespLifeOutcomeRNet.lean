import GSProofs.Lemmas.RespLifeOutcomeRQuiet
/-!
Outcome accounting, part 3: `Core3` over a resolved message (`net`).
-/
namespace GS.RespLife

theorem isClose_neutral {r : Id} {st : PStep} (h : neutral r st = true) : isClose r st = false := by
  cases st <;> simp_all [neutral, isClose]

theorem hasClose_flat_sent (r : Id) (l : List Entry) : hasClose r (l.map sentSteps).flatten = false := by
  unfold hasClose
  rw [List.any_eq_false]
  intro st hst
  rw [isClose_neutral (neutral_flat_sent r l st hst)]
  simp

theorem stepId_of_isDone {r : Id} {st : PStep} (h : isDone r st = true) : stepId st = r := by
  cases st <;> simp_all [isDone, stepId]

theorem stepId_of_isClose {r : Id} {st : PStep} (h : isClose r st = true) : stepId st = r := by
  cases st <;> simp_all [isClose, stepId]

theorem noDone_flat_sent (r : Id) (l : List Entry) (h : ∀ e ∈ l, e.id ≠ r) :
    ∀ st ∈ (l.map sentSteps).flatten, isDone r st = false := by
  intro st hst
  simp only [List.mem_flatten, List.mem_map] at hst
  obtain ⟨ys, ⟨e, he, rfl⟩, hst⟩ := hst
  cases hd : isDone r st with
  | false => rfl
  | true =>
    have := (step_of_sentSteps hst).1
    rw [stepId_of_isDone hd] at this
    exact absurd this.symm (h e he)

theorem tokQ_zero_of_noDone (r : Id) (q : List PStep) (h : ∀ st ∈ q, isDone r st = false) : tokQ r q = 0 := by
  unfold tokQ
  rw [List.countP_eq_zero]
  intro st hst hd
  have := h st hst
  cases st <;> simp_all [isDone, doneStep]

theorem hasClose_flat_err {r : Id} {l : List Entry} (h : hasClose r (l.map errSteps).flatten = true) :
    ∃ e ∈ l, e.id = r := by
  unfold hasClose at h
  rw [List.any_eq_true] at h
  obtain ⟨st, hst, hc⟩ := h
  simp only [List.mem_flatten, List.mem_map] at hst
  obtain ⟨ys, ⟨e, he, rfl⟩, hst⟩ := hst
  exact ⟨e, he, by rw [← (step_of_errSteps hst).1]; exact stepId_of_isClose hc⟩

theorem isClosed_closeStreams (s : State) (ids : List Id) (r : Id) :
    isClosed (closeStreams s ids) r = (isClosed s r || ids.contains r) := by
  unfold isClosed closeStreams
  simp only [List.contains_eq_mem, List.mem_append, List.mem_filter, decide_eq_true_eq, Bool.not_eq_true',
    decide_eq_false_iff_not]
  by_cases h1 : r ∈ s.closed <;> by_cases h2 : r ∈ ids <;> simp [h1, h2]

def sentRec (q : PeerMQ) (X : List PStep) : PeerMQ := { q with inflight := none, pubQ := q.pubQ ++ X }

section
variable {r : Id} {s : State} {p : Peer} {b : Builder}

/-- the message was sent -/
theorem core3_resolve_ok (hi : Core3 r s) (h2 : Inv2 r s) (hb : (getMQ s p).inflight = some b) :
    Core3 r (setMQ s (sentRec (getMQ s p) ((b.entries.filter (fun x => x.sub)).map sentSteps).flatten)) := by
  have hps := pstep_appendPub r s p
    (fun q => sentRec q ((b.entries.filter (fun x => x.sub)).map sentSteps).flatten)
    _ h2 (fun _ => rfl) (fun _ => rfl) (fun _ => rfl)
    (wfQ_neutral_list r _ (neutral_flat_sent r _)).1 (wfQ_neutral_list r _ (neutral_flat_sent r _)).2
  generalize hX : ((b.entries.filter (fun x => x.sub)).map sentSteps).flatten = X at hps ⊢
  have hXk : ∀ t, kOK r t X = true := by rw [← hX]; exact kOK_flat_sent r _
  have hXc : hasClose r X = false := by rw [← hX]; exact hasClose_flat_sent r _
  have hXd : noR r s → ∀ st ∈ X, isDone r st = false := by
    intro hn
    rw [← hX]
    apply noDone_flat_sent
    intro e he
    exact hn p e (Or.inl (by rw [hb]; exact mem_bents_filter he))
  generalize hmid : setMQ s (sentRec (getMQ s p) X) = mid at hps ⊢
  have hg : ∀ p', getMQ mid p' = if p' = p then sentRec (getMQ s p) X else getMQ s p' := by
    intro p'; rw [← hmid, getMQ_setMQ]
    show (if p' = (getMQ s p).peer then _ else _) = _
    rw [getMQ_peer]
  have hmail : mid.mailbox = s.mailbox := by rw [← hmid]; rfl
  have hcl : isClosed mid r = isClosed s r := by rw [← hmid]; rfl
  have hdone : doneC r mid = doneC r s := by rw [← hmid]; rfl
  have hlive : live r mid = live r s := by rw [← hmid]; rfl
  have hpubq : ∀ p', (getMQ mid p').pubQ = if p' = p then (getMQ s p).pubQ ++ X else (getMQ s p').pubQ := by
    intro p'; rw [hg]; split <;> rfl
  refine ⟨?_, ?_, ?_, ?_, ?_, ?_⟩
  · intro p' hp'
    rw [hmail, hpubq] at hp'
    rw [hcl]
    split at hp'
    · rename_i hpp; subst hpp
      rw [hasClose_append, hXc, Bool.or_false] at hp'
      exact hi.h1 p' hp'
    · exact hi.h1 p' hp'
  · intro hc
    rw [hcl] at hc
    have hn := hi.j2 hc
    intro p' e he
    rw [hg] at he
    split at he
    · rename_i hpp; subst hpp
      rcases he with he | he
      · cases he
      · exact hn p' e (Or.inr he)
    · exact hn p' e he
  · intro p'
    rw [hmail, hpubq]
    split
    · rename_i hpp; subst hpp
      rw [wf3_append, hi.j3 p', Bool.true_and]
      cases hflag : (pend r p' s.mailbox || hasClose r (getMQ s p').pubQ) with
      | false => exact wf3_noClose r X hXc
      | true =>
        have hc := hi.h1 p' (by simpa [Bool.or_eq_true] using hflag)
        exact wf3_noDone r X true (hXd (hi.j2 hc))
    · exact hi.j3 p'
  · intro p'
    rw [hmail, hpubq, hlive]
    split
    · rename_i hpp; subst hpp
      exact kOK_append r X hXk _ _ (hi.k p')
    · exact hi.k p'
  · intro hd
    rw [hdone] at hd
    rw [hlive]; exact hi.d1 hd
  · intro hn
    have hn' := (NF_of_pstep hps).1 hn
    obtain ⟨a, c, d⟩ := hi.d2 hn'
    refine ⟨by rw [hdone]; exact a, by rw [hcl]; exact c, ?_⟩
    intro p'
    rw [hpubq]
    split
    · rename_i hpp; subst hpp
      rw [tokQ_append, d p', tokQ_zero_of_noDone r X (hXd (hi.j2 c))]
    · exact d p'

end

def failRec (q : PeerMQ) (N : Option Builder) (Y : List PStep) : PeerMQ :=
  { q with inflight := none, next := N, pubQ := q.pubQ ++ Y }

theorem bents_scrubNext {nb : Option Builder} {ids : List Id} {e : Entry} (h : e ∈ bents (scrubNext nb ids).1) :
    e ∈ bents nb ∧ ids.contains e.id = false := by
  unfold scrubNext at h
  cases nb with
  | none => cases h
  | some b =>
    simp only at h
    split at h
    · cases h
    · have := List.mem_filter.1 h
      exact ⟨this.1, by simpa using this.2⟩

/-- the message failed: streams closed, queued builder scrubbed, `errSteps` queued -/
theorem core3_resolve_fail {r : Id} {s : State} {p : Peer} {b : Builder} {p0 : Peer} {i0 : Nat}
    (hi : Core3 r s) (h2 : Inv2 r s) (hpi : Places r (· = p0) (· = i0) s)
    (hb : (getMQ s p).inflight = some b) :
    Core3 r (setMQ (closeStreams s ((b.entries.filter (fun x => x.sub)).map (fun x => x.id)))
      (failRec (getMQ s p)
        (scrubNext (getMQ s p).next ((b.entries.filter (fun x => x.sub)).map (fun x => x.id))).1
        ((b.entries.filter (fun x => x.sub)).map errSteps).flatten)) := by
  generalize hids : (b.entries.filter (fun x => x.sub)).map (fun x => x.id) = ids
  have hc2 : Inv2 r (closeStreams s ids) := h2.mstep (mstep_field rfl rfl rfl rfl rfl)
  have hps := pstep_appendPub r (closeStreams s ids) p
    (fun q => failRec q (scrubNext (getMQ s p).next ids).1 ((b.entries.filter (fun x => x.sub)).map errSteps).flatten)
    _ hc2 (fun _ => rfl) (fun _ => rfl) (fun _ => rfl) (wfQ_flat_err r _).1 (wfQ_flat_err r _).2
  rw [getMQ_closeStreams] at hps
  have hYc : hasClose r ((b.entries.filter (fun x => x.sub)).map errSteps).flatten = true → ids.contains r = true := by
    intro h
    obtain ⟨e, he, hid⟩ := hasClose_flat_err h
    rw [← hids]
    simp only [List.contains_eq_mem, List.mem_map, decide_eq_true_eq]
    exact ⟨e, he, hid⟩
  have hYd := isDone_flat_err r (b.entries.filter (fun x => x.sub))
  generalize ((b.entries.filter (fun x => x.sub)).map errSteps).flatten = Y at hps hYc hYd ⊢
  have hsub : ids.contains r = true → ∃ e, e ∈ bents (getMQ s p).inflight ∧ e.id = r := by
    intro h
    rw [← hids] at h
    simp only [List.contains_eq_mem, List.mem_map, decide_eq_true_eq] at h
    obtain ⟨e, he, hid⟩ := h
    exact ⟨e, by rw [hb]; exact mem_bents_filter he, hid⟩
  generalize hN : (scrubNext (getMQ s p).next ids).1 = N at hps ⊢
  have hNsub : ∀ e, e ∈ bents N → e ∈ bents (getMQ s p).next ∧ ids.contains e.id = false := by
    intro e he; rw [← hN] at he; exact bents_scrubNext he
  generalize hmid : setMQ (closeStreams s ids) (failRec (getMQ s p) N Y) = mid at hps ⊢
  have hg : ∀ p', getMQ mid p' = if p' = p then failRec (getMQ s p) N Y else getMQ s p' := by
    intro p'; rw [← hmid, getMQ_setMQ]
    show (if p' = (getMQ s p).peer then _ else _) = _
    rw [getMQ_peer]; rfl
  have hmail : mid.mailbox = s.mailbox := by rw [← hmid]; rfl
  have hcl : isClosed mid r = (isClosed s r || ids.contains r) := by
    rw [← hmid]; exact isClosed_closeStreams s ids r
  have hdone : doneC r mid = doneC r s := by rw [← hmid]; rfl
  have hlive : live r mid = live r s := by rw [← hmid]; rfl
  have hpubq : ∀ p', (getMQ mid p').pubQ = if p' = p then (getMQ s p).pubQ ++ Y else (getMQ s p').pubQ := by
    intro p'; rw [hg]; split <;> rfl
  have hnf : NF r mid ↔ NF r s := by
    rw [NF_of_pstep hps]
    exact NF_of_mstep (mstep_field (s' := closeStreams s ids) rfl rfl rfl rfl rfl)
  refine ⟨?_, ?_, ?_, ?_, ?_, ?_⟩
  · intro p' hp'
    rw [hmail, hpubq] at hp'
    rw [hcl, Bool.or_eq_true]
    split at hp'
    · rename_i hpp; subst hpp
      rw [hasClose_append, Bool.or_eq_true] at hp'
      rcases hp' with hp' | hp' | hp'
      · exact Or.inl (hi.h1 p' (Or.inl hp'))
      · exact Or.inl (hi.h1 p' (Or.inr hp'))
      · exact Or.inr (hYc hp')
    · exact Or.inl (hi.h1 p' hp')
  · intro hc
    rw [hcl, Bool.or_eq_true] at hc
    intro p' e he hid
    rw [hg] at he
    by_cases hpp : p' = p
    · subst hpp
      simp only [if_true] at he
      rcases he with he | he
      · cases he
      · have he' : e ∈ bents N := he
        obtain ⟨h1, h2'⟩ := hNsub e he'
        rcases hc with hc | hc
        · exact hi.j2 hc p' e (Or.inr h1) hid
        · rw [hid, hc] at h2'; cases h2'
    · simp only [hpp, if_false] at he
      rcases hc with hc | hc
      · exact hi.j2 hc p' e he hid
      · obtain ⟨e0, he0, hid0⟩ := hsub hc
        have e1 := (hpi.bld p e0 (Or.inl he0) hid0).1
        have e2 := (hpi.bld p' e he hid).1
        exact hpp (e2.trans e1.symm)
  · intro p'
    rw [hmail, hpubq]
    split
    · rename_i hpp; subst hpp
      rw [wf3_append, hi.j3 p', Bool.true_and]
      exact wf3_noDone r Y _ hYd
    · exact hi.j3 p'
  · intro p'
    rw [hmail, hpubq, hlive]
    split
    · rename_i hpp; subst hpp
      exact kOK_append r Y (fun t => kOK_noDone r Y t hYd) _ _ (hi.k p')
    · exact hi.k p'
  · intro hd
    rw [hdone] at hd
    rw [hlive]; exact hi.d1 hd
  · intro hn
    obtain ⟨a, c, d⟩ := hi.d2 (hnf.1 hn)
    refine ⟨by rw [hdone]; exact a, by rw [hcl, c]; rfl, ?_⟩
    intro p'
    rw [hpubq]
    split
    · rename_i hpp; subst hpp
      rw [tokQ_append, d p', tokQ_zero_of_noDone r Y hYd]
    · exact d p'

end GS.RespLife

namespace GS.RespLife

theorem core3_release {r : Id} {s : State} (hi : Core3 r s) (p : Peer) (n : Nat) : Core3 r (release s p n) := by
  refine hi.quiet (mstep_release r s p n) (qs0_release r s p n) ?_ ?_
  · intro p'
    have : (release s p n).mailbox = s.mailbox := congrArg Prod.fst (mbk_release s p n)
    rw [this]
  · intro hl
    rw [live_of_pi (pi_release s p n)] at hl
    exact hl

theorem core3_netResolve {r : Id} {s s' : State} {p : Peer} {ok : Bool} {p0 : Peer} {i0 : Nat}
    (hi : Core3 r s) (h2 : Inv2 r s) (hpi : Places r (· = p0) (· = i0) s)
    (h : netResolve s p ok = some s') : Core3 r s' := by
  unfold netResolve at h
  simp only at h
  split at h
  · cases h
  · rename_i b hb
    split at h
    · cases h
      exact core3_release (core3_resolve_ok hi h2 hb) p b.size
    · cases h
      have hm := core3_resolve_fail hi h2 hpi hb
      split
      · exact core3_release (core3_release hm p _) p _
      · exact core3_release hm p _

end GS.RespLife
