/-
Helper lemmas for C07: the budgeted DFS `travB`/`travBL` of GS/Model/Budget.lean, for any per-link
check that behaves like go-ipld-prime's `checkLinkBudget` ("fail if the counter is <= 0, else
decrement"), loads exactly the first `n` loads of the unbudgeted DFS.
-/
import GS.Model.Budget
namespace GS.Budget

/-- "test <= 0, then decrement" on a non-negative counter -/
def IsCharge (steps : List Step) : Prop :=
  ∀ n : Nat, runSteps steps (n : Int) = if n = 0 then none else some ((n - 1 : Nat) : Int)

/-- the result the budgeted DFS must produce from counter `n` when the unbudgeted loads are `L` -/
def expect (L : List Cid) (n : Nat) : St :=
  if L.length ≤ n then ⟨L, ((n - L.length : Nat) : Int), false⟩ else ⟨L.take n, 0, true⟩

theorem expect_nil (n : Nat) : expect [] n = ⟨[], (n : Int), false⟩ := by
  simp [expect]

mutual
theorem travB_eq (lc : List Step) (h : IsCharge lc) (avail : Cid → Bool) :
    ∀ (t : LT) (n : Nat), travB lc avail t (n : Int) = expect (trav avail t) n
  | .node c kids, n => by
    rw [travB, h n]
    cases n with
    | zero => simp [expect, trav]
    | succ k =>
      simp only [Nat.add_one_ne_zero, if_false, Nat.add_sub_cancel]
      by_cases ha : avail c = true
      · have ih := travBL_eq lc h avail kids k
        simp only [ha, if_true, ih, trav]
        unfold expect
        by_cases hl : (travL avail kids).length ≤ k
        · simp [hl, Nat.succ_le_succ_iff]
        · simp [hl, Nat.succ_le_succ_iff]
      · simp [ha, trav, expect]
theorem travBL_eq (lc : List Step) (h : IsCharge lc) (avail : Cid → Bool) :
    ∀ (ts : List LT) (n : Nat), travBL lc avail ts (n : Int) = expect (travL avail ts) n
  | [], n => by simp [travBL, travL, expect_nil]
  | t :: ts, n => by
    rw [travBL, travB_eq lc h avail t n]
    unfold expect
    by_cases h1 : (trav avail t).length ≤ n
    · simp only [h1, if_true, Bool.false_eq_true, if_false]
      have ih := travBL_eq lc h avail ts (n - (trav avail t).length)
      rw [ih]
      unfold expect
      simp only [travL, List.length_append]
      by_cases h2 : (travL avail ts).length ≤ n - (trav avail t).length
      · have : (trav avail t).length + (travL avail ts).length ≤ n := by omega
        simp only [h2, this, if_true]
        congr 1
        · congr 1; omega
      · have : ¬ (trav avail t).length + (travL avail ts).length ≤ n := by omega
        simp only [h2, this, if_false]
        rw [List.take_append]
        simp [List.take_of_length_le h1]
    · have : ¬ (trav avail t ++ travL avail ts).length ≤ n := by
        simp only [List.length_append]; omega
      simp only [h1, if_false, if_true, travL, this]
      rw [List.take_append_of_le_length (by omega)]
end

end GS.Budget
