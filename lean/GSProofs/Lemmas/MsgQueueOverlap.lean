import GSProofs.Lemmas.MsgQueueReach
/-!
# Message queue: the ledger while ANOTHER queue of the same peer uses the peer's allocator entry

`LInv` (MsgQueueLedger2) says `AllocatedForPeer p = held`, which is false as soon as a second queue of
the same peer holds a reservation.  Here the invariant is stated *modulo the other queue's bytes*:

  `OInv B s o` :  `AllocatedForPeer p = held s + o`,  the coupling between the allocator's waiting list
                  and this queue's waiting callers restricted to this queue's tickets.

Ticket ownership.  In Go a ticket is the response channel of one `AllocateBlockMemory` call, so the two
queues' tickets are disjoint by construction.  In the model tickets are numbers; this queue draws
`0, 1, 2, …` (`nextTicket`), and an `Act.env (.alloc p n t)` of the other queue must use `t ≥ B` for a
bound `B ≥ nextTicket` (`CoupledO.bound`).  `ownT B` / `forT B` split a list of (ticket, amount) pairs.

The ghost `o` ("bytes currently held on p's entry by the other queue") is replayed from the events:
`+ amount` for every `granted p t amount` with `t ≥ B` (whoever's call triggered the grant),
`- actual` for every `released p actual` of an `Act.env` release on `p`.
-/
namespace GS.MQ
open GS.Alloc

def ownT (B : Nat) (l : List (Nat × Nat)) : List (Nat × Nat) := l.filter fun x => decide (x.1 < B)
def forT (B : Nat) (l : List (Nat × Nat)) : List (Nat × Nat) := l.filter fun x => !decide (x.1 < B)

theorem ownT_append (B : Nat) (a b : List (Nat × Nat)) : ownT B (a ++ b) = ownT B a ++ ownT B b :=
  List.filter_append ..

theorem amounts_cons (x : Nat × Nat) (l : List (Nat × Nat)) : amounts (x :: l) = x.2 + amounts l := rfl

theorem amounts_split (B : Nat) (l : List (Nat × Nat)) :
    amounts l = amounts (ownT B l) + amounts (forT B l) := by
  induction l with
  | nil => rfl
  | cons x r ih =>
    unfold ownT forT at ih ⊢
    by_cases h : x.1 < B
    · rw [List.filter_cons_of_pos (by simpa using h), List.filter_cons_of_neg (by simpa using h),
        amounts_cons, amounts_cons, ih]; omega
    · rw [List.filter_cons_of_neg (by simpa using h), List.filter_cons_of_pos (by simpa using h),
        amounts_cons, amounts_cons, ih]; omega

theorem ownT_self {B : Nat} {l : List (Nat × Nat)} (h : ∀ x ∈ l, x.1 < B) : ownT B l = l :=
  List.filter_eq_self.mpr (fun x hx => by simpa using h x hx)

/-- the events minus the grants of the other queue's tickets -/
def dropF (B p : Nat) : List Alloc.Event → List Alloc.Event
  | [] => []
  | e :: es =>
    match e with
    | .granted q t _ => if q = p ∧ B ≤ t then dropF B p es else e :: dropF B p es
    | _ => e :: dropF B p es

theorem dropF_granted (B p q t a : Nat) (es : List Alloc.Event) :
    dropF B p (.granted q t a :: es) = if q = p ∧ B ≤ t then dropF B p es else .granted q t a :: dropF B p es := rfl

/-- answers on the other queue's tickets do not reach this queue's waiting callers -/
theorem answerWaiters_dropF (B p : Nat) : ∀ (evs : List Alloc.Event) (ws : List Waiter),
    (∀ t ∈ ws.map (·.ticket), t < B) → answerWaiters p ws evs = answerWaiters p ws (dropF B p evs)
  | [], _, _ => rfl
  | e :: es, ws, h => by
    cases e with
    | granted q t a =>
      rw [dropF_granted]
      by_cases hc : q = p ∧ B ≤ t
      · rw [if_pos hc, answerWaiters_cons]
        have hm : mark t true ws = ws := mark_absent t true ws (fun hm => by have := h t hm; omega)
        have hq : (q == p) = true := by simp [hc.1]
        simp only [hq, if_true, hm]
        exact answerWaiters_dropF B p es ws h
      · rw [if_neg hc, answerWaiters_cons, answerWaiters_cons]
        apply answerWaiters_dropF
        simp only
        split
        · rw [mark_tickets]; exact h
        · exact h
    | failed q t =>
      have hd : dropF B p (.failed q t :: es) = .failed q t :: dropF B p es := rfl
      rw [hd, answerWaiters_cons, answerWaiters_cons]
      apply answerWaiters_dropF
      simp only
      split
      · rw [mark_tickets]; exact h
      · exact h
    | released q a =>
      have hd : dropF B p (.released q a :: es) = .released q a :: dropF B p es := rfl
      rw [hd, answerWaiters_cons, answerWaiters_cons]
      exact answerWaiters_dropF B p es ws h
    | errNoPeer =>
      have hd : dropF B p (.errNoPeer :: es) = .errNoPeer :: dropF B p es := rfl
      rw [hd, answerWaiters_cons, answerWaiters_cons]
      exact answerWaiters_dropF B p es ws h

theorem grantsOf_dropF (B p : Nat) : ∀ (evs : List Alloc.Event),
    grantsOf p (dropF B p evs) = ownT B (grantsOf p evs) ∧ failsOf p (dropF B p evs) = failsOf p evs
  | [] => ⟨rfl, rfl⟩
  | e :: es => by
    obtain ⟨i1, i2⟩ := grantsOf_dropF B p es
    cases e with
    | granted q t a =>
      rw [dropF_granted]
      by_cases hq : q = p
      · by_cases ht : B ≤ t
        · rw [if_pos ⟨hq, ht⟩]
          simp only [grantsOf, hq, if_true, failsOf]
          refine ⟨?_, i2⟩
          unfold ownT
          rw [List.filter_cons_of_neg (by simp; omega)]
          exact i1
        · rw [if_neg (fun h => ht h.2)]
          simp only [grantsOf, hq, if_true, failsOf]
          refine ⟨?_, i2⟩
          unfold ownT
          rw [List.filter_cons_of_pos (by simp; omega)]
          unfold ownT at i1
          rw [i1]
      · rw [if_neg (fun h => hq h.1)]
        simp only [grantsOf, hq, if_false, failsOf]
        exact ⟨i1, i2⟩
    | failed q t =>
      have hd : dropF B p (.failed q t :: es) = .failed q t :: dropF B p es := rfl
      rw [hd]
      simp only [grantsOf, failsOf]
      refine ⟨i1, ?_⟩
      split
      · rw [i2]
      · exact i2
    | released q a => exact ⟨i1, i2⟩
    | errNoPeer => exact ⟨i1, i2⟩

/-! ## the coupling invariant, restricted to this queue's tickets -/

structure CoupledO (B : Nat) (s : State) : Prop where
  ainv : Alloc.Inv s.alloc
  /-- this queue's part of the peer's waiting list = this queue's unanswered callers (in order) -/
  pend : ownT B (pendTA s.alloc s.peer) = unanswered s.waiters
  nodupW : (s.waiters.map (·.ticket)).Nodup
  fresh : ∀ w ∈ s.waiters, w.ticket < s.nextTicket
  wsize : ∀ w ∈ s.waiters, w.tx.who = .response ∧ w.size = itemsSize w.tx.items
  /-- this queue's tickets stay below the other queue's -/
  bound : s.nextTicket ≤ B

theorem CoupledO.tickets {B : Nat} {s : State} (h : CoupledO B s) : ∀ t ∈ s.waiters.map (·.ticket), t < B := by
  intro t ht
  obtain ⟨w, hw, rfl⟩ := List.mem_map.mp ht
  have := h.fresh w hw
  have := h.bound
  omega

/-- with no second queue the restricted coupling is the solo one -/
theorem Coupled.toO {B : Nat} {s : State} (h : Coupled s) (hb : s.nextTicket ≤ B) : CoupledO B s := by
  refine ⟨h.ainv, ?_, h.nodupW, h.fresh, h.wsize, hb⟩
  rw [ownT_self, h.pend]
  intro x hx
  rw [h.pend] at hx
  have ht := unanswered_ticket_mem (t := x.1) (a := x.2) hx
  obtain ⟨w, hw, he⟩ := List.mem_map.mp ht
  have := h.fresh w hw
  rw [he] at this
  omega

/-- … and back, once the other queue has nothing waiting -/
theorem CoupledO.toSolo {B : Nat} {s : State} (h : CoupledO B s) (hf : forT B (pendTA s.alloc s.peer) = []) :
    Coupled s := by
  refine ⟨h.ainv, ?_, h.nodupW, h.fresh, h.wsize⟩
  rw [← h.pend]
  symm
  apply ownT_self
  intro x hx
  by_cases hlt : x.1 < B
  · exact hlt
  · have : x ∈ forT B (pendTA s.alloc s.peer) := List.mem_filter.mpr ⟨hx, by simpa using hlt⟩
    rw [hf] at this
    cases this

/-- one allocator call that refuses none of this peer's tickets and, as far as THIS queue's tickets are
    concerned, only grants from the head of the waiting list.  Conservation: the change of
    `AllocatedForPeer p` = this queue's new grants + the other queue's new grants − what was released. -/
theorem allocStep_coupledO {pick : Pick} (hp : Admissible pick) {B : Nat} {s : State} (hc : CoupledO B s)
    (op : Alloc.Op)
    (hview : ownT B (grantsOf s.peer (Alloc.step pick s.alloc op).2) ++ ownT B (pendTA (Alloc.step pick s.alloc op).1 s.peer)
        = ownT B (pendTA s.alloc s.peer) ∧ failsOf s.peer (Alloc.step pick s.alloc op).2 = []) :
    CoupledO B (s.allocStep pick op).1 ∧
    tot (s.allocStep pick op).1.alloc s.peer + releasedSum s.peer (Alloc.step pick s.alloc op).2
        + grantedBytes s.waiters
      = tot s.alloc s.peer + grantedBytes (s.allocStep pick op).1.waiters
        + amounts (forT B (grantsOf s.peer (Alloc.step pick s.alloc op).2)) := by
  have hv := view hp hc.ainv op s.peer
  have hw : (s.allocStep pick op).1.waiters
      = answerWaiters s.peer s.waiters (dropF B s.peer (Alloc.step pick s.alloc op).2) :=
    answerWaiters_dropF B s.peer _ s.waiters hc.tickets
  obtain ⟨d1, d2⟩ := grantsOf_dropF B s.peer (Alloc.step pick s.alloc op).2
  obtain ⟨a1, a2, a3⟩ := answer_grants s.peer (dropF B s.peer (Alloc.step pick s.alloc op).2) s.waiters
    (ownT B (pendTA (Alloc.step pick s.alloc op).1 s.peer)) hc.nodupW (by rw [d2]; exact hview.2)
    (by rw [← hc.pend, d1, hview.1])
  have hcore := answerWaiters_core s.peer (Alloc.step pick s.alloc op).2 s.waiters
  refine ⟨⟨hv.inv, ?_, ?_, ?_, ?_, hc.bound⟩, ?_⟩
  · show ownT B (pendTA (Alloc.step pick s.alloc op).1 s.peer) = unanswered (s.allocStep pick op).1.waiters
    rw [hw, a1]
  · rw [hw, a3]; exact hc.nodupW
  · intro w hw'
    obtain ⟨w0, h0, e1, _, _⟩ := core_mem hcore w hw'
    show w.ticket < s.nextTicket
    rw [e1]; exact hc.fresh w0 h0
  · intro w hw'
    obtain ⟨w0, h0, _, e2, e3⟩ := core_mem hcore w hw'
    rw [e2, e3]; exact hc.wsize w0 h0
  · rw [hw, a2, d1]
    have h1 := hv.ledger
    have h2 := amounts_split B (grantsOf s.peer (Alloc.step pick s.alloc op).2)
    show tot (Alloc.step pick s.alloc op).1 s.peer + _ + _ = _
    omega

/-! ## the ledger modulo the other queue's bytes -/

/-- `AllocatedForPeer p = (queued builders + in flight + granted, not yet built) + o` -/
structure OInv (B : Nat) (s : State) (o : Nat) : Prop where
  cpl : CoupledO B s
  ledger : tot s.alloc s.peer = hb s.builders + heldInFlight s + grantedBytes s.waiters + o
  binv : ∀ b ∈ s.builders, BInv b

theorem OInv.ledger_held {B : Nat} {s : State} {o : Nat} (h : OInv B s o) :
    allocatedFor s.alloc s.peer = held s + o := h.ledger

/-- the solo invariant is the case `o = 0` -/
theorem LInv.toO {B : Nat} {s : State} (h : LInv s) (hb : s.nextTicket ≤ B) : OInv B s 0 :=
  ⟨h.led.1.toO hb, by have := h.led.2; omega, h.binv⟩

/-- when the other queue holds nothing and waits for nothing, the solo invariant holds again (and
    with it every theorem proved from `I`) -/
theorem OInv.toSolo {B : Nat} {s : State} (h : OInv B s 0) (hf : forT B (pendTA s.alloc s.peer) = []) :
    LInv s :=
  ⟨⟨h.cpl.toSolo hf, by have := h.ledger; omega⟩, h.binv⟩

/-- what an allocator call by somebody else may be while a second queue of the peer is alive:
    anything on other peers; on this peer an allocation with one of the other queue's tickets, or a
    release of not more than the other queue holds — but not `ReleasePeerMemory(p)` -/
def overlapOp (B : Nat) (s : State) (o : Nat) : Alloc.Op → Bool
  | .alloc q _ t => q != s.peer || decide (B ≤ t)
  | .release q n => q != s.peer || decide (n ≤ o)
  | .releasePeer q => q != s.peer

/-- the ghost after an allocator call by somebody else: grants to the other queue's tickets are
    added, what the call released from `p`'s entry is subtracted -/
def otherEnv (B : Nat) (pick : Pick) (s : State) (o : Nat) (op : Alloc.Op) : Nat :=
  o + amounts (forT B (grantsOf s.peer (Alloc.step pick s.alloc op).2))
    - releasedSum s.peer (Alloc.step pick s.alloc op).2

section
variable {pick : Pick} (hp : Admissible pick)
include hp

/-- what the call looks like from `p`, for every call allowed by `overlapOp` -/
theorem overlap_view {B : Nat} {s : State} {o : Nat} (hc : CoupledO B s) (op : Alloc.Op)
    (hop : overlapOp B s o op = true) (ho : o ≤ tot s.alloc s.peer) :
    (ownT B (grantsOf s.peer (Alloc.step pick s.alloc op).2) ++ ownT B (pendTA (Alloc.step pick s.alloc op).1 s.peer)
        = ownT B (pendTA s.alloc s.peer) ∧ failsOf s.peer (Alloc.step pick s.alloc op).2 = []) ∧
    releasedSum s.peer (Alloc.step pick s.alloc op).2 ≤ o ∧
    releasedSum s.peer (Alloc.step pick s.alloc op).2 =
      (match op with | .release q n => if q = s.peer then n else 0 | _ => 0) := by
  cases op with
  | alloc q n t =>
    by_cases hq : q = s.peer
    · subst hq
      have ht : B ≤ t := by simpa [overlapOp] using hop
      rcases alloc_own (pick := pick) hc.ainv s.peer n t with ⟨he, hpd⟩ | ⟨he, hpd⟩
      · rw [he, hpd]
        have : ownT B [(t, n)] = [] := by unfold ownT; rw [List.filter_cons_of_neg (by simp; omega)]; rfl
        simp only [grantsOf, if_true, this, List.nil_append, failsOf, releasedSum]
        exact ⟨⟨trivial, trivial⟩, Nat.zero_le _, trivial⟩
      · rw [he, hpd, ownT_append]
        have : ownT B [(t, n)] = [] := by unfold ownT; rw [List.filter_cons_of_neg (by simp; omega)]; rfl
        simp only [grantsOf, this, List.append_nil, failsOf, releasedSum]
        exact ⟨⟨rfl, trivial⟩, Nat.zero_le _, trivial⟩
    · obtain ⟨a1, a2, a3⟩ := alloc_other (pick := pick) hc.ainv hq n t
      have hr : releasedSum s.peer (Alloc.step pick s.alloc (.alloc q n t)).2 = 0 := by
        show releasedSum s.peer (alloc s.alloc q n t).2 = 0
        have hs := alloc_spec hc.ainv.wf q n t
        by_cases hcd : pendingIn s.alloc.peers q = [] ∧ s.alloc.total + n ≤ s.alloc.maxTotal ∧ totalIn s.alloc.peers q + n ≤ s.alloc.maxPeer
        · rw [(hs.1 hcd).1]; rfl
        · rw [(hs.2 hcd).1]; rfl
      rw [a1, a3, hr]
      exact ⟨⟨rfl, a2⟩, Nat.zero_le _, rfl⟩
  | release q n =>
    obtain ⟨a1, a2, a3⟩ := release_view hp hc.ainv s.peer q n
    refine ⟨⟨by rw [← ownT_append, a1], a2⟩, ?_, ?_⟩
    · rw [a3]
      by_cases hq : q = s.peer
      · have hn : n ≤ o := by simpa [overlapOp, hq] using hop
        simp only [hq, if_true]
        exact Nat.le_trans (Nat.min_le_left _ _) hn
      · simp [hq]
    · rw [a3]
      by_cases hq : q = s.peer
      · have hn : n ≤ o := by simpa [overlapOp, hq] using hop
        simp only [hq, if_true]
        exact Nat.min_eq_left (Nat.le_trans hn ho)
      · simp [hq]
  | releasePeer q =>
    have hq : q ≠ s.peer := by simpa [overlapOp] using hop
    obtain ⟨a1, a2, a3⟩ := releasePeer_other hp hc.ainv hq
    refine ⟨⟨by rw [← ownT_append, a1], a2⟩, by rw [a3]; exact Nat.zero_le _, a3⟩

/-- **One step of the other queue (or of another peer).**  An `Act.env` allowed by `overlapOp` keeps
    the ledger modulo `o`, with the ghost updated by `otherEnv`; it does not touch this queue's
    builders or the message in flight (the bytes this queue holds change only by the reservations of
    its own waiting callers that the call granted). -/
theorem env_oinv {B : Nat} {s : State} {o : Nat} (h : OInv B s o) (op : Alloc.Op)
    (hop : overlapOp B s o op = true) :
    OInv B (step pick s (.env op)) (otherEnv B pick s o op) ∧
    (step pick s (.env op)).builders = s.builders ∧ (step pick s (.env op)).pc = s.pc ∧
    (step pick s (.env op)).peer = s.peer := by
  have ho : o ≤ tot s.alloc s.peer := by have := h.ledger; omega
  obtain ⟨hview, hle, _⟩ := overlap_view hp h.cpl op hop ho
  obtain ⟨c1, c2⟩ := allocStep_coupledO hp h.cpl op hview
  refine ⟨⟨c1, ?_, h.binv⟩, rfl, rfl, rfl⟩
  show tot (s.allocStep pick op).1.alloc s.peer
    = hb s.builders + heldInFlight s + grantedBytes (s.allocStep pick op).1.waiters + otherEnv B pick s o op
  have := h.ledger
  unfold otherEnv
  omega

end

/-! ## a whole episode of the other queue -/

/-- every call of the list is allowed, the ghost being replayed along the way -/
def overlapOps (B : Nat) (pick : Pick) : State → Nat → List Alloc.Op → Bool
  | _, _, [] => true
  | s, o, op :: r => overlapOp B s o op && overlapOps B pick (step pick s (.env op)) (otherEnv B pick s o op) r

/-- the ghost after the whole list -/
def otherOps (B : Nat) (pick : Pick) : State → Nat → List Alloc.Op → Nat
  | _, o, [] => o
  | s, o, op :: r => otherOps B pick (step pick s (.env op)) (otherEnv B pick s o op) r

theorem envs_oinv {pick : Pick} (hp : Admissible pick) {B : Nat} : ∀ (ops : List Alloc.Op) {s : State} {o : Nat},
    OInv B s o → overlapOps B pick s o ops = true →
    OInv B (runActs pick s (ops.map Act.env)) (otherOps B pick s o ops) ∧
    (runActs pick s (ops.map Act.env)).builders = s.builders ∧ (runActs pick s (ops.map Act.env)).pc = s.pc ∧
    (runActs pick s (ops.map Act.env)).peer = s.peer
  | [], _, _, h, _ => ⟨h, rfl, rfl, rfl⟩
  | op :: r, s, o, h, hops => by
    simp only [overlapOps, Bool.and_eq_true] at hops
    obtain ⟨e1, e2, e3, e4⟩ := env_oinv hp h op hops.1
    obtain ⟨i1, i2, i3, i4⟩ := envs_oinv hp r e1 hops.2
    exact ⟨i1, i2.trans e2, i3.trans e3, i4.trans e4⟩

end GS.MQ
