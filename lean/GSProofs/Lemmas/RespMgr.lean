import GS.Model.RespMgr
/-!
Helper lemmas about the response-manager model (GS/Model/RespMgr.lean) used by GSProofs/C10.lean:
the *frame* of what a message from peer `q` can touch.
-/
namespace GS.RespMgr

/-! ### the table -/

theorem Table.del_cons (k' : ReqId) (v : Serial) (rest : Table) (k : ReqId) :
    Table.del ((k', v) :: rest) k = if k' = k then Table.del rest k else (k', v) :: Table.del rest k := by
  by_cases h : k' = k <;> simp [Table.del, List.filter_cons, h]

theorem Table.get_cons (k' : ReqId) (v : Serial) (rest : Table) (r : ReqId) :
    Table.get ((k', v) :: rest) r = if k' = r then some v else Table.get rest r := rfl

theorem Table.get_del_ne (t : Table) {r k : ReqId} (h : k ≠ r) : (t.del k).get r = t.get r := by
  induction t with
  | nil => rfl
  | cons a rest ih =>
    obtain ⟨k', e⟩ := a
    rw [Table.del_cons, Table.get_cons]
    by_cases hk : k' = k
    · have hr : k' ≠ r := by rw [hk]; exact h
      simp [hk, h, ih]
    · by_cases hr : k' = r
      · subst hr
        simp [hk, Table.get_cons]
      · simp [hk, hr, Table.get_cons, ih]

theorem Table.get_set_ne (t : Table) {r k : ReqId} (v : Serial) (h : k ≠ r) : (t.set k v).get r = t.get r := by
  unfold Table.set
  rw [Table.get_cons]
  simp [h, Table.get_del_ne t h]

/-! ### what a message from `q` may change -/

/-- `Frame q s s'`: going from `s` to `s'` left alone every response object served to a peer other
    than `q`, every table entry pointing to such an object, every task of another peer, and all
    running executors. -/
structure Frame (q : Peer) (s s' : State) : Prop where
  objs : ∀ k o, s.obj k = some o → o.peer ≠ q → s'.obj k = some o
  table : ∀ id k o, s.table.get id = some k → s.obj k = some o → o.peer ≠ q → s'.table.get id = some k
  pending : s'.pending.filter (fun t => t.1 != q) = s.pending.filter (fun t => t.1 != q)
  active : s'.active = s.active
  execs : s'.execs = s.execs

theorem Frame.refl (q : Peer) (s : State) : Frame q s s :=
  ⟨fun _ _ h _ => h, fun _ _ _ h _ _ => h, rfl, rfl, rfl⟩

theorem Frame.trans {q : Peer} {s s' s'' : State} (h1 : Frame q s s') (h2 : Frame q s' s'') : Frame q s s'' where
  objs := fun k o hk hp => h2.objs k o (h1.objs k o hk hp) hp
  table := fun id k o ht hk hp => h2.table id k o (h1.table id k o ht hk hp) (h1.objs k o hk hp) hp
  pending := by rw [h2.pending, h1.pending]
  active := by rw [h2.active, h1.active]
  execs := by rw [h2.execs, h1.execs]

theorem obj_setObj_ne (s : State) (k j : Serial) (o : Obj) (h : k ≠ j) : (s.setObj k o).obj j = s.obj j := by
  simp [State.setObj, State.obj, List.getElem?_set_ne h]

/-- overwriting an object that is served to `q` -/
theorem frame_setObj (q : Peer) (s : State) (k : Serial) (o o' : Obj) (hk : s.obj k = some o) (hp : o.peer = q) :
    Frame q s (s.setObj k o') where
  objs := by
    intro j o2 hj hp2
    have hne : k ≠ j := by
      intro h; subst h
      rw [hk] at hj; cases hj
      exact hp2 hp
    rw [obj_setObj_ne s k j o' hne]; exact hj
  table := fun _ _ _ ht _ _ => ht
  pending := rfl
  active := rfl
  execs := rfl

theorem filter_eraseFirst (q : Peer) (l : List (Peer × ReqId)) (id : ReqId) :
    (eraseFirst l (q, id)).filter (fun t => t.1 != q) = l.filter (fun t => t.1 != q) := by
  induction l with
  | nil => rfl
  | cons y rest ih =>
    unfold eraseFirst
    by_cases hy : y = (q, id)
    · simp [hy]
    · simp only [hy, if_false, List.filter_cons, ih]

theorem frame_erasePending (q : Peer) (s : State) (id : ReqId) :
    Frame q s { s with pending := eraseFirst s.pending (q, id) } where
  objs := fun _ _ h _ => h
  table := fun _ _ _ h _ _ => h
  pending := filter_eraseFirst q s.pending id
  active := rfl
  execs := rfl

theorem frame_pushPending (q : Peer) (s : State) (id : ReqId) :
    Frame q s { s with pending := s.pending ++ [(q, id)] } where
  objs := fun _ _ h _ => h
  table := fun _ _ _ h _ _ => h
  pending := by simp [List.filter_append]
  active := rfl
  execs := rfl

theorem lookup_some {s : State} {id : ReqId} {k : Serial} {o : Obj} (h : s.lookup id = some (k, o)) :
    s.table.get id = some k ∧ s.obj k = some o := by
  unfold State.lookup at h
  split at h
  · cases h
  · rename_i k' hk'
    split at h
    · rename_i o' ho'
      cases h
      exact ⟨hk', ho'⟩
    · cases h

/-- deleting the table entry of a response served to `q` -/
theorem frame_delTable (q : Peer) (s : State) (id : ReqId) (k : Serial) (o : Obj)
    (hl : s.lookup id = some (k, o)) (hp : o.peer = q) :
    Frame q s { s with table := s.table.del id } where
  objs := fun _ _ h _ => h
  table := by
    intro id' k' o' ht hk' hp'
    obtain ⟨ht0, hk0⟩ := lookup_some hl
    have hne : id ≠ id' := by
      intro h; subst h
      rw [ht0] at ht; cases ht
      rw [hk0] at hk'; cases hk'
      exact hp' hp
    show (s.table.del id).get id' = some k'
    rw [Table.get_del_ne _ hne]; exact ht
  pending := rfl
  active := rfl
  execs := rfl

/-- the guard compares the entry's peer with the sender (in either order) -/
def GoodGuard (g : PeerGuard) : Bool :=
  (g.lhs == .entryPeer && g.rhs == .sender) || (g.lhs == .sender && g.rhs == .entryPeer)

/-- a guard that compares the entry's peer with the sender skips exactly the requests whose ID is in
    the table for another peer -/
theorem guardSkips_good (g : PeerGuard) (hg : GoodGuard g = true) (s : State) (q : Peer) (x : Request) :
    guardSkips g s q x = foreign s q x := by
  obtain ⟨key, l, r⟩ := g
  unfold guardSkips foreign
  cases l <;> cases r <;> simp [GoodGuard] at hg <;>
    (split <;> simp [evalPeer, bne_comm])

theorem foreign_false {s : State} {q : Peer} {x : Request} {k : Serial} {o : Obj}
    (hf : foreign s q x = false) (hl : s.lookup x.id = some (k, o)) : o.peer = q := by
  unfold foreign at hf
  rw [hl] at hf
  simpa using hf

/-- all events concern peer `q` -/
def AllPeer (q : Peer) (l : List Ev) : Prop := ∀ ev ∈ l, ev.peer = q

theorem allPeer_nil (q : Peer) : AllPeer q [] := by intro ev h; cases h
theorem allPeer_cons {q : Peer} {ev : Ev} {l : List Ev} (h : ev.peer = q) (t : AllPeer q l) : AllPeer q (ev :: l) := by
  intro e he
  rcases List.mem_cons.mp he with h' | h'
  · subst h'; exact h
  · exact t e h'
theorem allPeer_append {q : Peer} {a b : List Ev} (ha : AllPeer q a) (hb : AllPeer q b) : AllPeer q (a ++ b) := by
  intro e he
  rcases List.mem_append.mp he with h | h
  · exact ha e h
  · exact hb e h

/-! ### the handlers, for a request that is not foreign -/

theorem terminate_frame (q : Peer) (s : State) (id : ReqId)
    (hown : ∀ k o, s.lookup id = some (k, o) → o.peer = q) :
    Frame q s (terminate s id).1 ∧ AllPeer q (terminate s id).2 := by
  unfold terminate
  split
  · exact ⟨Frame.refl q s, allPeer_nil q⟩
  · rename_i k o hl
    have hp := hown k o hl
    obtain ⟨_, hk⟩ := lookup_some hl
    refine ⟨?_, ?_⟩
    · have f1 := frame_setObj q s k o { o with ctxCancelled := true } hk hp
      -- then delete the table entry (the table of the intermediate state is s.table)
      refine Frame.trans f1 ?_
      have hl' : (s.setObj k { o with ctxCancelled := true }).lookup id = some (k, { o with ctxCancelled := true }) := by
        obtain ⟨ht, _⟩ := lookup_some hl
        have hlt : k < s.objs.length := by
          have := hk; simp only [State.obj] at this
          exact (List.getElem?_eq_some_iff.mp this).1
        simp [State.lookup, State.setObj, State.obj, ht, hlt]
      exact frame_delTable q _ id k _ hl' hp
    · exact allPeer_cons hp (allPeer_nil q)

theorem unpause_frame (q : Peer) (s : State) (id : ReqId)
    (hown : ∀ k o, s.lookup id = some (k, o) → o.peer = q) :
    Frame q s (unpauseRequest s id).1 ∧ AllPeer q (unpauseRequest s id).2.1 := by
  unfold unpauseRequest
  split
  · exact ⟨Frame.refl q s, allPeer_nil q⟩
  · rename_i k o hl
    have hp := hown k o hl
    obtain ⟨_, hk⟩ := lookup_some hl
    split
    · exact ⟨Frame.refl q s, allPeer_nil q⟩
    · refine ⟨?_, allPeer_cons hp (allPeer_nil q)⟩
      have f1 := frame_setObj q s k o { o with state := .queued, sigPause := false } hk hp
      refine Frame.trans f1 ?_
      have := frame_pushPending q (s.setObj k { o with state := .queued, sigPause := false }) id
      simpa [hp, State.setObj] using this

theorem abort_frame (q : Peer) (s : State) (id : ReqId) (err : ErrK)
    (hown : ∀ k o, s.lookup id = some (k, o) → o.peer = q) :
    Frame q s (abortRequest s id err).1 ∧ AllPeer q (abortRequest s id err).2.1 := by
  unfold abortRequest
  split
  · exact ⟨Frame.refl q s, allPeer_nil q⟩
  · rename_i k o hl
    have hp := hown k o hl
    obtain ⟨ht, hk⟩ := lookup_some hl
    -- the state after responseQueue.Remove
    have f0 : Frame q s { s with pending := eraseFirst s.pending (o.peer, id) } := by
      rw [hp]; exact frame_erasePending q s id
    have hl1 : ({ s with pending := eraseFirst s.pending (o.peer, id) } : State).lookup id = some (k, o) := by
      simpa [State.lookup, State.obj] using hl
    have hown1 : ∀ k' o', ({ s with pending := eraseFirst s.pending (o.peer, id) } : State).lookup id = some (k', o') → o'.peer = q := by
      intro k' o' h; rw [hl1] at h; cases h; exact hp
    have hk1 : ({ s with pending := eraseFirst s.pending (o.peer, id) } : State).obj k = some o := by
      simpa [State.obj] using hk
    have hrem : AllPeer q [Ev.remove o.peer id] := allPeer_cons hp (allPeer_nil q)
    simp only
    split
    · exact ⟨f0, hrem⟩
    · split
      · -- not running
        split
        · -- ctxCancel
          obtain ⟨ft, et⟩ := terminate_frame q _ id hown1
          exact ⟨Frame.trans f0 ft,
            allPeer_append (allPeer_append (allPeer_append hrem (allPeer_cons hp (allPeer_nil q))) et)
              (allPeer_cons hp (allPeer_nil q))⟩
        · -- network
          obtain ⟨ft, et⟩ := terminate_frame q _ id hown1
          exact ⟨Frame.trans f0 ft,
            allPeer_append (allPeer_append hrem (allPeer_cons hp (allPeer_nil q))) et⟩
        · -- by command / hook: FinishWithError(RequestCancelled)
          exact ⟨Frame.trans f0 (frame_setObj q _ k o _ hk1 hp),
            allPeer_append hrem (allPeer_cons hp (allPeer_nil q))⟩
      · -- running: signal
        exact ⟨Frame.trans f0 (frame_setObj q _ k o _ hk1 hp), hrem⟩

theorem update_frame (q : Peer) (s : State) (id : ReqId) (uh : UpdHook)
    (hown : ∀ k o, s.lookup id = some (k, o) → o.peer = q) :
    Frame q s (processUpdate s id uh).1 ∧ AllPeer q (processUpdate s id uh).2 := by
  unfold processUpdate
  split
  · exact ⟨Frame.refl q s, allPeer_nil q⟩
  · rename_i k o hl
    have hp := hown k o hl
    obtain ⟨_, hk⟩ := lookup_some hl
    have hhk : AllPeer q [Ev.hookUpd o.peer id] := allPeer_cons hp (allPeer_nil q)
    split
    · exact ⟨Frame.refl q s, allPeer_nil q⟩
    · split
      · exact ⟨frame_setObj q s k o _ hk hp, allPeer_nil q⟩
      · cases uh with
        | none => exact ⟨Frame.refl q s, hhk⟩
        | ext => exact ⟨Frame.refl q s, allPeer_append hhk (allPeer_cons hp (allPeer_nil q))⟩
        | err => exact ⟨frame_setObj q s k o _ hk hp, allPeer_append hhk (allPeer_cons hp (allPeer_nil q))⟩
        | unpause =>
          obtain ⟨fu, eu⟩ := unpause_frame q s id hown
          exact ⟨fu, allPeer_append hhk eu⟩

theorem new_frame (q : Peer) (s : State) (x : Request)
    (hown : ∀ k o, s.lookup x.id = some (k, o) → o.peer = q) :
    Frame q s (newRequest s q x).1 ∧ AllPeer q (newRequest s q x).2 := by
  unfold newRequest
  refine ⟨?_, ?_⟩
  · refine ⟨?_, ?_, ?_, rfl, rfl⟩
    · -- existing objects keep their index
      intro k o hk _
      simp only [State.obj] at hk ⊢
      have hlt : k < s.objs.length := (List.getElem?_eq_some_iff.mp hk).1
      rw [List.getElem?_append_left hlt]; exact hk
    · intro id k o ht hk hp
      have hne : x.id ≠ id := by
        intro h; subst h
        have : s.lookup x.id = some (k, o) := by simp [State.lookup, ht, hk]
        exact hp (hown k o this)
      show (s.table.set x.id s.objs.length).get id = some k
      rw [Table.get_set_ne _ _ hne]; exact ht
    · cases x.rh <;> simp [List.filter_append]
  · cases x.rh <;>
      exact allPeer_append (allPeer_cons rfl (allPeer_cons rfl (allPeer_nil q))) (allPeer_cons rfl (allPeer_nil q))

/-! ### objects never change the peer they are served to -/

/-- every object of `s'` already existed in `s` with the same peer -/
def PeersKept (s s' : State) : Prop := ∀ j o1, s'.obj j = some o1 → ∃ o0, s.obj j = some o0 ∧ o0.peer = o1.peer

theorem PeersKept.refl (s : State) : PeersKept s s := fun _ o h => ⟨o, h, rfl⟩
theorem PeersKept.trans {s s' s'' : State} (h1 : PeersKept s s') (h2 : PeersKept s' s'') : PeersKept s s'' := by
  intro j o2 h
  obtain ⟨o1, ho1, hp1⟩ := h2 j o2 h
  obtain ⟨o0, ho0, hp0⟩ := h1 j o1 ho1
  exact ⟨o0, ho0, hp0.trans hp1⟩

theorem peersKept_setObj (s : State) (k : Serial) (o o' : Obj) (hk : s.obj k = some o) (hp : o'.peer = o.peer) :
    PeersKept s (s.setObj k o') := by
  intro j o1 h
  by_cases hj : k = j
  · subst hj
    have hlt : k < s.objs.length := (List.getElem?_eq_some_iff.mp (by simpa [State.obj] using hk)).1
    simp [State.setObj, State.obj, hlt] at h
    subst h
    exact ⟨o, hk, hp.symm⟩
  · rw [obj_setObj_ne s k j o' hj] at h
    exact ⟨o1, h, rfl⟩

theorem peersKept_of_objs_eq {s s' : State} (h : s'.objs = s.objs) : PeersKept s s' := by
  intro j o1 hj
  exact ⟨o1, by simpa [State.obj, h] using hj, rfl⟩

theorem terminate_peersKept (s : State) (id : ReqId) : PeersKept s (terminate s id).1 := by
  unfold terminate
  split
  · exact PeersKept.refl s
  · rename_i k o hl
    obtain ⟨_, hk⟩ := lookup_some hl
    refine PeersKept.trans (peersKept_setObj s k o { o with ctxCancelled := true } hk rfl) ?_
    exact peersKept_of_objs_eq rfl

theorem abort_peersKept (s : State) (id : ReqId) (err : ErrK) : PeersKept s (abortRequest s id err).1 := by
  unfold abortRequest
  split
  · exact PeersKept.refl s
  · rename_i k o hl
    obtain ⟨_, hk⟩ := lookup_some hl
    have h0 : PeersKept s { s with pending := eraseFirst s.pending (o.peer, id) } := peersKept_of_objs_eq rfl
    have hk1 : ({ s with pending := eraseFirst s.pending (o.peer, id) } : State).obj k = some o := by
      simpa [State.obj] using hk
    simp only
    split
    · exact h0
    · split
      · split
        · exact PeersKept.trans h0 (terminate_peersKept _ id)
        · exact PeersKept.trans h0 (terminate_peersKept _ id)
        · exact PeersKept.trans h0 (peersKept_setObj _ k o _ hk1 rfl)
      · refine PeersKept.trans h0 (peersKept_setObj _ k o _ hk1 ?_)
        split <;> rfl

/-! ### the message subscriber's notification (no other message in between) -/

theorem closer_hown (s : State) (k : Serial) (id : ReqId) (p : Peer)
    (hpeer : ∀ o', s.obj k = some o' → o'.peer = p) (h : closerApplies .ownResponse s k id = true) :
    ∀ k' o', s.lookup id = some (k', o') → o'.peer = p := by
  intro k' o' hl
  obtain ⟨ht, hk'⟩ := lookup_some hl
  have : s.table.get id = some k := by simpa [closerApplies] using h
  rw [this] at ht
  cases ht
  exact hpeer o' hk'

theorem closeTerm_frame (p : Peer) (s : State) (k : Serial) (id : ReqId) (b : Bool)
    (hpeer : ∀ o', s.obj k = some o' → o'.peer = p) :
    Frame p s (closeTerm .ownResponse s k id b).1 ∧ AllPeer p (closeTerm .ownResponse s k id b).2 := by
  unfold closeTerm
  split
  · rename_i h
    have h2 : closerApplies .ownResponse s k id = true := by
      cases b <;> simp_all
    exact terminate_frame p s id (closer_hown s k id p hpeer h2)
  · exact ⟨Frame.refl p s, allPeer_nil p⟩

theorem peer_of_kept {s s' : State} (hk : PeersKept s s') (k : Serial) (p : Peer)
    (hpeer : ∀ o', s.obj k = some o' → o'.peer = p) : ∀ o', s'.obj k = some o' → o'.peer = p := by
  intro o' h
  obtain ⟨o0, h0, hp0⟩ := hk k o' h
  rw [← hp0]; exact hpeer o0 h0

theorem closeNetErr_frame (p : Peer) (s : State) (k : Serial) (id : ReqId)
    (hpeer : ∀ o', s.obj k = some o' → o'.peer = p) :
    Frame p s (closeNetErr .ownResponse s k id).1 ∧ AllPeer p (closeNetErr .ownResponse s k id).2.1
    ∧ PeersKept s (closeNetErr .ownResponse s k id).1 := by
  unfold closeNetErr
  split
  · rename_i h
    obtain ⟨fa, ea⟩ := abort_frame p s id .network (closer_hown s k id p hpeer h)
    exact ⟨fa, ea, abort_peersKept _ _ _⟩
  · exact ⟨Frame.refl _ _, allPeer_nil _, PeersKept.refl _⟩

theorem notifyErr_frame (d : List DispatchCase) (s0 : State) (k : Serial) (o : Obj) (term : Bool)
    (hp0 : ∀ o', s0.obj k = some o' → o'.peer = o.peer) :
    Frame o.peer s0 (notifyErr d .ownResponse s0 k o term none).1
    ∧ AllPeer o.peer (notifyErr d .ownResponse s0 k o term none).2.1 := by
  unfold notifyErr
  obtain ⟨fa, ea, pka⟩ := closeNetErr_frame o.peer s0 k o.id hp0
  have hpa := peer_of_kept pka k o.peer hp0
  have hnev : AllPeer o.peer (if (closeNetErr .ownResponse s0 k o.id).2.2 = .ok then [Ev.lNetErr o.peer o.id] else []) := by
    split
    · exact allPeer_cons (ev := Ev.lNetErr o.peer o.id) rfl (allPeer_nil _)
    · exact allPeer_nil _
  simp only [injectMsg]
  split
  · obtain ⟨ft, et⟩ := closeTerm_frame o.peer _ k o.id term hpa
    exact ⟨Frame.trans fa ft,
      allPeer_append (allPeer_append (allPeer_append ea (allPeer_nil _)) et) hnev⟩
  · obtain ⟨ft, et⟩ := closeTerm_frame o.peer _ k o.id term hpa
    exact ⟨Frame.trans fa ft,
      allPeer_append (allPeer_append (allPeer_append ea et) hnev) (allPeer_nil _)⟩

theorem notifySent_frame (s0 : State) (k : Serial) (o : Obj) (code : Option Nat) (term : Bool)
    (hp0 : ∀ o', s0.obj k = some o' → o'.peer = o.peer) :
    Frame o.peer s0 (notifySent .ownResponse s0 k o code term).1
    ∧ AllPeer o.peer (notifySent .ownResponse s0 k o code term).2.1 := by
  unfold notifySent
  split
  · obtain ⟨ft, et⟩ := closeTerm_frame o.peer s0 k o.id true hp0
    exact ⟨ft, allPeer_append et (allPeer_cons (ev := Ev.lCompleted o.peer o.id _) rfl (allPeer_nil _))⟩
  · exact ⟨Frame.refl _ _, allPeer_nil _⟩

/-- A notification of the message that carried response object `k`'s operations — with the closer
    calls restricted to the subscriber's own response — stays within the peer that response is
    served to: objects, table entries and queued tasks of every other peer are untouched and every
    event concerns that peer. -/
theorem notify_frame (d : List DispatchCase) (s : State) (k : Serial) (o : Obj) (isErr : Bool)
    (hk : s.obj k = some o) :
    Frame o.peer s (notify d .ownResponse s k isErr none).1
    ∧ AllPeer o.peer (notify d .ownResponse s k isErr none).2.1 := by
  have f0 := frame_setObj o.peer s k o { o with finCode := none } hk rfl
  have pk0 := peersKept_setObj s k o { o with finCode := none } hk rfl
  have hp0 : ∀ o', (s.setObj k { o with finCode := none }).obj k = some o' → o'.peer = o.peer :=
    peer_of_kept pk0 k o.peer (fun o' h => by rw [hk] at h; cases h; rfl)
  unfold notify
  simp only [hk]
  cases isErr with
  | true =>
    obtain ⟨f, e⟩ := notifyErr_frame d _ k o (match o.finCode with | some c => Generated.StatusCodes.isTerminal c | none => false) hp0
    exact ⟨Frame.trans f0 f, e⟩
  | false =>
    obtain ⟨f, e⟩ := notifySent_frame _ k o o.finCode (match o.finCode with | some c => Generated.StatusCodes.isTerminal c | none => false) hp0
    exact ⟨Frame.trans f0 f, e⟩

/-! ### the executor's calls into the manager (StartTask / GetUpdates / FinishTask are all by request ID) -/

/-- like `Frame` without the executor bookkeeping (an executor step ends executors) -/
structure FrameW (q : Peer) (s s' : State) : Prop where
  objs : ∀ k o, s.obj k = some o → o.peer ≠ q → s'.obj k = some o
  table : ∀ id k o, s.table.get id = some k → s.obj k = some o → o.peer ≠ q → s'.table.get id = some k
  pending : s'.pending.filter (fun t => t.1 != q) = s.pending.filter (fun t => t.1 != q)

theorem Frame.toW {q : Peer} {s s' : State} (h : Frame q s s') : FrameW q s s' := ⟨h.objs, h.table, h.pending⟩
theorem FrameW.refl (q : Peer) (s : State) : FrameW q s s := (Frame.refl q s).toW
theorem FrameW.trans {q : Peer} {s s' s'' : State} (h1 : FrameW q s s') (h2 : FrameW q s' s'') : FrameW q s s'' where
  objs := fun k o hk hp => h2.objs k o (h1.objs k o hk hp) hp
  table := fun id k o ht hk hp => h2.table id k o (h1.table id k o ht hk hp) (h1.objs k o hk hp) hp
  pending := by rw [h2.pending, h1.pending]

/-- the executor `e` works for peer `p` on an object served to `p`, and the table entry under its
    request ID (if any) is served to `p` as well -/
structure OwnExec (s : State) (e : Exec) (p : Peer) : Prop where
  task : e.task.1 = p
  obj : ∀ o, s.obj e.k = some o → o.peer = p
  entry : ∀ k o, s.lookup e.task.2 = some (k, o) → o.peer = p

theorem ownExec_of_kept {s s' : State} {e : Exec} {p : Peer} (h : OwnExec s e p) (hk : PeersKept s s')
    (ht : s'.table = s.table) : OwnExec s' e p where
  task := h.task
  obj := peer_of_kept hk e.k p h.obj
  entry := by
    intro k o hl
    obtain ⟨htk, hko⟩ := lookup_some hl
    obtain ⟨o0, ho0, hp0⟩ := hk k o hko
    rw [ht] at htk
    have : s.lookup e.task.2 = some (k, o0) := by simp [State.lookup, htk, ho0]
    rw [← hp0]; exact h.entry k o0 this

theorem runUpdateHooks_allPeer (p : Peer) (k : Serial) (o : Obj) (hp : o.peer = p) (us : List UpdHook) (acc : List Ev)
    (ha : AllPeer p acc) : AllPeer p (runUpdateHooks p k o us acc).1 := by
  induction us generalizing acc with
  | nil => simpa [runUpdateHooks] using ha
  | cons u rest ih =>
    have h1 : AllPeer p (acc ++ [Ev.hookUpd p o.id]) := allPeer_append ha (allPeer_cons rfl (allPeer_nil p))
    cases u with
    | ext => simp only [runUpdateHooks]; exact ih _ (allPeer_append h1 (allPeer_cons hp (allPeer_nil p)))
    | err => simpa [runUpdateHooks] using h1
    | none => simp only [runUpdateHooks]; exact ih _ h1
    | unpause => simp only [runUpdateHooks]; exact ih _ h1

/-- what `s.setObj k o'` keeps when `o'` is served to the same peer as the object it replaces -/
theorem setObj_steps (p : Peer) (s : State) (k : Serial) (o o' : Obj) (hk : s.obj k = some o) (hp : o.peer = p)
    (hp' : o'.peer = o.peer) :
    Frame p s (s.setObj k o') ∧ PeersKept s (s.setObj k o') ∧ (s.setObj k o').table = s.table :=
  ⟨frame_setObj p s k o o' hk hp, peersKept_setObj s k o o' hk hp', rfl⟩

theorem getUpdates_frame (p : Peer) (s : State) (id : ReqId)
    (hown : ∀ k o, s.lookup id = some (k, o) → o.peer = p) :
    Frame p s (getUpdates s id).2 ∧ PeersKept s (getUpdates s id).2 ∧ (getUpdates s id).2.table = s.table := by
  unfold getUpdates
  split
  · exact ⟨Frame.refl p s, PeersKept.refl s, rfl⟩
  · rename_i k2 o2 hl2
    obtain ⟨_, hk2⟩ := lookup_some hl2
    exact setObj_steps p s k2 o2 { o2 with updates := [] } hk2 (hown k2 o2 hl2) rfl

theorem checkForUpdates_frame (p : Peer) (fuel : Nat) (s : State) (e : Exec) (h : OwnExec s e p) :
    Frame p s (checkForUpdates fuel s e).1 ∧ AllPeer p (checkForUpdates fuel s e).2.1
    ∧ PeersKept s (checkForUpdates fuel s e).1 ∧ (checkForUpdates fuel s e).1.table = s.table := by
  induction fuel generalizing s with
  | zero => exact ⟨Frame.refl p s, allPeer_nil p, PeersKept.refl s, rfl⟩
  | succ fuel ih =>
    unfold checkForUpdates
    split
    · exact ⟨Frame.refl p s, allPeer_nil p, PeersKept.refl s, rfl⟩
    · rename_i o ho
      have hpo := h.obj o ho
      split
      · obtain ⟨f, k, t⟩ := setObj_steps p s e.k o { o with sigPause := false } ho hpo rfl
        exact ⟨f, allPeer_cons hpo (allPeer_nil p), k, t⟩
      · split
        · obtain ⟨f, k, t⟩ := setObj_steps p s e.k o { o with sigErr := none } ho hpo rfl
          exact ⟨f, allPeer_nil p, k, t⟩
        · split
          · -- an update signal: GetUpdates by ID
            obtain ⟨f1, k1, t1⟩ := setObj_steps p s e.k o { o with sigUpdate := false } ho hpo rfl
            have h1 : OwnExec (s.setObj e.k { o with sigUpdate := false }) e p := ownExec_of_kept h k1 t1
            obtain ⟨f2, k2, t2⟩ := getUpdates_frame p _ e.task.2 h1.entry
            simp only
            generalize getUpdates (s.setObj e.k { o with sigUpdate := false }) e.task.2 = ups at f2 k2 t2 ⊢
            obtain ⟨us, st⟩ := ups
            have hrun : AllPeer p (runUpdateHooks e.task.1 e.k o us []).1 := by
              rw [h.task]; exact runUpdateHooks_allPeer p e.k o hpo us [] (allPeer_nil p)
            split
            · exact ⟨Frame.trans f1 f2, hrun, PeersKept.trans k1 k2, by rw [t2, t1]⟩
            · have h2 : OwnExec st e p := ownExec_of_kept h1 k2 t2
              obtain ⟨f3, e3, k3, t3⟩ := ih st h2
              exact ⟨Frame.trans f1 (Frame.trans f2 f3), allPeer_append hrun e3,
                PeersKept.trans k1 (PeersKept.trans k2 k3), by rw [t3, t2, t1]⟩
          · exact ⟨Frame.refl p s, allPeer_nil p, PeersKept.refl s, rfl⟩

theorem finishTask_frame (p : Peer) (s : State) (t : Peer × ReqId) (err : Option ErrK) (paused : Bool)
    (ht : t.1 = p) (hown : ∀ k o, s.lookup t.2 = some (k, o) → o.peer = p) :
    FrameW p s (finishTask s t err paused).1 ∧ AllPeer p (finishTask s t err paused).2 := by
  unfold finishTask
  -- dropping the task / the executor changes neither objects, table nor queued tasks
  have hl : ∀ id, ({ s with active := eraseFirst s.active t, execs := dropExec s.execs t } : State).lookup id = s.lookup id := by
    intro id; simp [State.lookup, State.obj]
  have f0 : FrameW p s { s with active := eraseFirst s.active t, execs := dropExec s.execs t } :=
    ⟨fun _ _ h _ => h, fun _ _ _ h _ _ => h, rfl⟩
  have hown1 : ∀ k o, ({ s with active := eraseFirst s.active t, execs := dropExec s.execs t } : State).lookup t.2 = some (k, o) → o.peer = p := by
    intro k o h; rw [hl] at h; exact hown k o h
  have hdone : AllPeer p [Ev.taskDone t.1 t.2] := allPeer_cons ht (allPeer_nil p)
  simp only
  split
  · exact ⟨f0, hdone⟩
  · rename_i k o hlk
    have hp := hown1 k o hlk
    obtain ⟨_, hk⟩ := lookup_some hlk
    split
    · split
      · refine ⟨FrameW.trans f0 ?_, allPeer_append hdone (allPeer_cons hp (allPeer_nil p))⟩
        have := frame_pushPending p { s with active := eraseFirst s.active t, execs := dropExec s.execs t } t.2
        rw [hp]; exact this.toW
      · exact ⟨f0, hdone⟩
    · split
      · obtain ⟨ft, et⟩ := terminate_frame p _ t.2 hown1
        exact ⟨FrameW.trans f0 ft.toW, allPeer_append hdone et⟩
      · split
        · exact ⟨FrameW.trans f0 (frame_setObj p _ k o _ hk hp).toW, hdone⟩
        · split
          · obtain ⟨ft, et⟩ := terminate_frame p _ t.2 hown1
            exact ⟨FrameW.trans f0 ft.toW, allPeer_append (allPeer_append hdone (allPeer_cons ht (allPeer_nil p))) et⟩
          · split
            · obtain ⟨ft, et⟩ := terminate_frame p _ t.2 hown1
              exact ⟨FrameW.trans f0 ft.toW, allPeer_append hdone et⟩
            · exact ⟨FrameW.trans f0 (frame_setObj p _ k o _ hk hp).toW, hdone⟩

theorem findExec_task {l : List Exec} {t : Peer × ReqId} {e : Exec} (h : findExec l t = some e) : e.task = t := by
  unfold findExec at h
  have := List.find?_some h
  simpa using this

theorem hookOutcome_allPeer (p : Peer) (e : Exec) (o : Obj) (i : Nat) (hp : o.peer = p) :
    AllPeer p (hookOutcome e o i).1 := by
  unfold hookOutcome
  split <;> (try split) <;> first | exact allPeer_cons hp (allPeer_nil p) | exact allPeer_nil p

/-- after overwriting the executor's own object with one served to the same peer -/
theorem ownExec_setObj {s : State} {e : Exec} {p : Peer} (h : OwnExec s e p) (o o' : Obj)
    (hk : s.obj e.k = some o) (hp' : o'.peer = o.peer) :
    OwnExec (s.setObj e.k o') e p ∧ Frame p s (s.setObj e.k o') ∧ (s.setObj e.k o').obj e.k = some o' := by
  obtain ⟨f, k, t⟩ := setObj_steps p s e.k o o' hk (h.obj o hk) hp'
  refine ⟨ownExec_of_kept h k t, f, ?_⟩
  have hlt : e.k < s.objs.length := (List.getElem?_eq_some_iff.mp (by simpa [State.obj] using hk)).1
  simp [State.setObj, State.obj, hlt]

theorem sendBlock_frame (p : Peer) (s1 : State) (e : Exec) (o : Obj) (t : Peer × ReqId) (evs0 : List Ev) (b : Bool)
    (h : OwnExec s1 e p) (het : e.task = t) (hk : s1.obj e.k = some o) (he0 : AllPeer p evs0) :
    FrameW p s1 (sendBlock s1 e o t evs0 b).1 ∧ AllPeer p (sendBlock s1 e o t evs0 b).2.1 := by
  have hp : o.peer = p := h.obj o hk
  have htp : t.1 = p := by rw [← het]; exact h.task
  unfold sendBlock
  obtain ⟨h2, f2, hk2⟩ := ownExec_setObj h o { o with sent := o.sent + 1 } hk rfl
  have hevs : AllPeer p (evs0 ++ [Ev.tx e.k o.peer o.id (.blk o.sent), Ev.hookBlk t.1 o.id o.sent] ++ (hookOutcome e o o.sent).1) :=
    allPeer_append (allPeer_append he0 (allPeer_cons hp (allPeer_cons htp (allPeer_nil p)))) (hookOutcome_allPeer p e o _ hp)
  have hent : ∀ {st : State}, OwnExec st e p → ∀ k o, st.lookup t.2 = some (k, o) → o.peer = p := by
    intro st hst k o hl; rw [← het] at hl; exact hst.entry k o hl
  simp only
  split
  · obtain ⟨h3, f3, _⟩ := ownExec_setObj h2 { o with sent := o.sent + 1 }
      { o with sent := o.sent + 1, finCode := some Generated.StatusCodes.RequestFailedUnknown } hk2 rfl
    obtain ⟨ff, ef⟩ := finishTask_frame p _ t (some .hook) false htp (hent h3)
    exact ⟨FrameW.trans f2.toW (FrameW.trans f3.toW ff),
      allPeer_append (allPeer_append hevs (allPeer_cons hp (allPeer_nil p))) ef⟩
  · split
    · obtain ⟨ff, ef⟩ := finishTask_frame p _ t none true htp (hent h2)
      exact ⟨FrameW.trans f2.toW ff, allPeer_append hevs ef⟩
    · split
      · obtain ⟨h3, f3, _⟩ := ownExec_setObj h2 { o with sent := o.sent + 1 }
          { o with sent := o.sent + 1, finCode := some Generated.StatusCodes.RequestCompletedFull } hk2 rfl
        obtain ⟨ff, ef⟩ := finishTask_frame p _ t none false htp (hent h3)
        exact ⟨FrameW.trans f2.toW (FrameW.trans f3.toW ff),
          allPeer_append (allPeer_append hevs (allPeer_cons hp (allPeer_nil p))) ef⟩
      · exact ⟨f2.toW, hevs⟩

theorem abortTail_frame (p : Peer) (s1 : State) (e : Exec) (o : Obj) (err : ErrK)
    (h : OwnExec s1 e p) (hk : s1.obj e.k = some o) :
    OwnExec (abortTail s1 e o err).1 e p ∧ Frame p s1 (abortTail s1 e o err).1 ∧ AllPeer p (abortTail s1 e o err).2 := by
  have hp : o.peer = p := h.obj o hk
  unfold abortTail
  split
  · exact ⟨h, Frame.refl p s1, allPeer_cons hp (allPeer_nil p)⟩
  · exact ⟨h, Frame.refl p s1, allPeer_cons hp (allPeer_nil p)⟩
  · obtain ⟨h3, f3, _⟩ := ownExec_setObj h o { o with finCode := some Generated.StatusCodes.RequestCancelled } hk rfl
    exact ⟨h3, f3, allPeer_cons hp (allPeer_nil p)⟩
  · obtain ⟨h3, f3, _⟩ := ownExec_setObj h o { o with finCode := some Generated.StatusCodes.RequestFailedUnknown } hk rfl
    exact ⟨h3, f3, allPeer_cons hp (allPeer_nil p)⟩

/-- One executor step (the by-ID calls GetUpdates and FinishTask included) of an executor that works
    for `p`, on an object served to `p`, while the table entry under its request ID — if there is
    one — is served to `p`: objects, table entries and queued tasks of every other peer are
    untouched and every event concerns `p`. -/
theorem stepExec_frame (p : Peer) (s : State) (t : Peer × ReqId)
    (hown : ∀ e, findExec s.execs t = some e → OwnExec s e p) :
    FrameW p s (stepExec s t).1 ∧ AllPeer p (stepExec s t).2.1 := by
  unfold stepExec
  split
  · exact ⟨FrameW.refl p s, allPeer_nil p⟩
  · rename_i e he
    have h := hown e he
    have het := findExec_task he
    split
    · exact ⟨FrameW.refl p s, allPeer_nil p⟩
    · rename_i o0 _
      obtain ⟨fc, ec, kc, tc⟩ := checkForUpdates_frame p (o0.updates.length + 4) s e h
      have hc : OwnExec (checkForUpdates (o0.updates.length + 4) s e).1 e p := ownExec_of_kept h kc tc
      simp only
      split
      · exact ⟨FrameW.refl p s, allPeer_nil p⟩
      · rename_i o ho
        split
        · rename_i err _
          obtain ⟨ha, fa, ea⟩ := abortTail_frame p _ e o err hc ho
          have hent : ∀ k o', (abortTail (checkForUpdates (o0.updates.length + 4) s e).1 e o err).1.lookup t.2 = some (k, o') → o'.peer = p := by
            intro k o' hl; rw [← het] at hl; exact ha.entry k o' hl
          have htp : t.1 = p := by rw [← het]; exact h.task
          obtain ⟨ff, ef⟩ := finishTask_frame p _ t (some err) false htp hent
          exact ⟨FrameW.trans fc.toW (FrameW.trans fa.toW ff), allPeer_append (allPeer_append ec ea) ef⟩
        · obtain ⟨fs, es⟩ := sendBlock_frame p _ e o t _ _ hc het ho ec
          exact ⟨FrameW.trans fc.toW fs, es⟩

theorem startTask_frame (p : Peer) (s : State) (t : Peer × ReqId) (ht : t.1 = p)
    (hown : ∀ k o, s.lookup t.2 = some (k, o) → o.peer = p) :
    FrameW p s (startTask s t).1 ∧ AllPeer p (startTask s t).2.1 ∧ PeersKept s (startTask s t).1
    ∧ (startTask s t).1.table = s.table := by
  unfold startTask
  split
  · exact ⟨FrameW.refl p s, allPeer_nil p, PeersKept.refl s, rfl⟩
  · have f0 : Frame p s { s with pending := eraseFirst s.pending t } := by
      have := frame_erasePending p s t.2
      rw [← ht] at this ⊢
      simpa using this
    have hl : ∀ id, ({ s with pending := eraseFirst s.pending t } : State).lookup id = s.lookup id := by
      intro id; simp [State.lookup, State.obj]
    have hdone : AllPeer p [Ev.taskDone t.1 t.2] := allPeer_cons ht (allPeer_nil p)
    simp only
    split
    · exact ⟨f0.toW, hdone, peersKept_of_objs_eq rfl, rfl⟩
    · rename_i k o hlk
      rw [hl] at hlk
      have hp := hown k o hlk
      obtain ⟨_, hk⟩ := lookup_some hlk
      have hk1 : ({ s with pending := eraseFirst s.pending t } : State).obj k = some o := by simpa [State.obj] using hk
      split
      · exact ⟨f0.toW, hdone, peersKept_of_objs_eq rfl, rfl⟩
      · obtain ⟨f1, k1, _⟩ := setObj_steps p _ k o { o with started := true, state := .running, task := some s.nextTid } hk1 hp rfl
        refine ⟨FrameW.trans f0.toW ⟨f1.objs, f1.table, f1.pending⟩, ?_, PeersKept.trans (peersKept_of_objs_eq rfl) (PeersKept.trans k1 (peersKept_of_objs_eq rfl)), rfl⟩
        split
        · exact allPeer_nil p
        · exact allPeer_cons hp (allPeer_nil p)

theorem processRequests_append (d : List DispatchCase) (q : Peer) (s : State) (a b : List Request) :
    processRequests d q s (a ++ b) =
      ((processRequests d q (processRequests d q s a).1 b).1,
       (processRequests d q s a).2 ++ (processRequests d q (processRequests d q s a).1 b).2) := by
  induction a generalizing s with
  | nil => simp [processRequests]
  | cons x xs ih => simp [processRequests, ih, List.append_assoc]

end GS.RespMgr
