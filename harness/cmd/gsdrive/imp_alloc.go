package main

import _ "verifharness/alloc"
