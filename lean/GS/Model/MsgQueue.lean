import GS.Model.Allocator
/-
Model of one per-peer outgoing message queue (core Lean only):

  /repo/messagequeue/messagequeue.go   MessageQueue: AllocateAndBuildMessage, buildMessage,
                                       shouldBeginNewResponse, runQueue, extractOutgoingMessage,
                                       sendMessage, attemptSendAndRecovery, scrubResponseStreams,
                                       scrubResponses, publishQueued/Sent/Error
  /repo/messagequeue/builder.go        Builder (metadata maps), ScrubResponses, build, accountedSize
  /repo/message/builder.go             Builder: AddBlock, AddLink, AddExtensionData, AddResponseCode,
                                       AddRequest, Empty, ScrubResponses, BlockSize, ExtensionSize
  /repo/responsemanager/responseassembler/{responseassembler.go execute, responseBuilder.go op sizes}
  /repo/allocator/allocator.go         through GS.Alloc (the C13/C14 model), used as a component
  /repo/notifications/publisher.go     abstracted: per topic, events reach the topic's current
                                       subscriber set in publication order; Close(topic) gives each
                                       subscriber one OnClose and forgets the topic; after Shutdown
                                       every call is dropped (C18 is the property about the real one)

Goroutines and schedules.  The state is shared by
  * the queue goroutine (`runQueue`), whose position is `State.pc`.  It blocks only inside the
    network (`ConnectTo`/`NewMessageSender` = `opening`, `SendMsg` = `sending`, `Reset` =
    `resetting`), in `ReleasePeerMemory` on its way out (`exiting`), or in the `select` of
    `runQueue` (`idle`);
  * any number of caller goroutines inside `AllocateAndBuildMessage` (`Act.build`; a caller whose
    reservation is not granted at once is a `Waiter`, continued by `Act.wake` after the allocator
    has answered its channel);
  * whoever calls `Shutdown` (`Act.shutdown`), other peers using the same allocator (`Act.env`).
A schedule is a list of `Act`s; `Act.run` is one iteration of the `for { select … }` loop up to the
next blocking point, `Act.ack` is the network (or allocator) answering the call the queue goroutine
is blocked in.  Atomicity of one `Act` is justified by `buildersLk` (builders list), the allocator's
`allocLk`, and the fact that `sender`, `pc` are touched by the queue goroutine only; the pieces of
one `Act` that touch different locks commute with the other goroutines' acts.
Not modelled: the `ctx.Done()` branches (instance shutdown), uint64 wrap-around of sizes.
-/
namespace GS.MQ

abbrev Req := Nat
abbrev Cid := Nat
abbrev Sub := Nat
abbrev Topic := Nat

/-- Go: `const maxBlockSize uint64 = 512 * 1024` -/
def maxBlockSize : Nat := 512 * 1024

/-! ## Go maps as association lists -/

def ahas (m : List (Nat × α)) (k : Nat) : Bool := m.any (·.1 == k)

def aget (m : List (Nat × α)) (k : Nat) : Option α :=
  match m with
  | [] => none
  | (k', v) :: r => if k' == k then some v else aget r k

/-- `m[k] = v` -/
def aset (m : List (Nat × α)) (k : Nat) (v : α) : List (Nat × α) :=
  match m with
  | [] => [(k, v)]
  | (k', v') :: r => if k' == k then (k, v) :: r else (k', v') :: aset r k v

/-- `delete(m, k)` for every `k ∈ ks` -/
def adel (m : List (Nat × α)) (ks : List Nat) : List (Nat × α) := m.filter fun e => !ks.contains e.1

def sumNat (l : List Nat) : Nat := l.foldr (· + ·) 0

/-! ## operations of a transaction (`responseOperation`) -/

inductive Item where
  /-- `blockOperation` with data; `send` = the link tracker's decision (`sendBlock`) -/
  | block (cid size : Nat) (send : Bool)
  /-- `blockOperation` with `data == nil` -/
  | missing (cid : Nat)
  /-- `extensionOperation`; `size` = `dagcbor.EncodedLength(extension.Data)` (0 for nil data) -/
  | ext (size : Nat)
  /-- `statusOperation` -/
  | status (code : Nat)
deriving Repr, DecidableEq

/-- `responseOperation.size()` -/
def Item.size : Item → Nat
  | .block _ sz true => sz
  | .block _ _ false => 0
  | .missing _ => 0
  | .ext sz => sz
  | .status _ => 0

def itemsSize (items : List Item) : Nat := sumNat (items.map Item.size)

/-! ## builders -/

structure Builder where
  topic : Topic
  requests : List Nat := []                          -- gsmsg.Builder.requests (ids)
  blocks : List (Cid × Nat) := []                    -- outgoingBlocks: cid ↦ len(RawData)
  blkSize : Nat := 0
  responses : List (Req × List (Cid × Bool)) := []   -- outgoingResponses: (link, action==Present)
  completed : List (Req × Nat) := []                 -- completedResponses
  exts : List (Req × List Nat) := []                 -- extensions (encoded sizes) ; extensionSizes = sums
  streams : List (Req × Unit) := []                  -- responseStreams (the stream of request r is r)
  subs : List (Req × Sub) := []                      -- subscribers
deriving Repr, DecidableEq

/-- `ExtensionSize()` -/
def Builder.extSize (b : Builder) : Nat := sumNat (b.exts.map fun e => sumNat e.2)

/-- `accountedSize()` = `BlockSize() + ExtensionSize()` -/
def Builder.accounted (b : Builder) : Nat := b.blkSize + b.extSize

/-- `Empty()` -/
def Builder.empty (b : Builder) : Bool := b.requests.isEmpty && b.blocks.isEmpty && b.responses.isEmpty

/-- `ResponseStatusCode.IsTerminal()`: IsSuccess (20, 21) or IsFailure (30..35) -/
def isTerminal (c : Nat) : Bool := c == 20 || c == 21 || (decide (30 ≤ c) && decide (c ≤ 35))

/-- make sure `outgoingResponses[r]` exists (`if !ok { … = nil }`) -/
def touchResponse (rs : List (Req × List (Cid × Bool))) (r : Req) : List (Req × List (Cid × Bool)) :=
  if ahas rs r then rs else rs ++ [(r, [])]

/-- `op.build(builder)` for one operation of request `r` -/
def Builder.apply (b : Builder) (r : Req) : Item → Builder
  | .block c sz send =>
    let b := if send then { b with blocks := aset b.blocks c sz, blkSize := b.blkSize + sz } else b
    { b with responses := aset b.responses r ((aget b.responses r).getD [] ++ [(c, true)]) }
  | .missing c =>
    { b with responses := aset b.responses r ((aget b.responses r).getD [] ++ [(c, false)]) }
  | .ext sz =>
    { b with exts := aset b.exts r ((aget b.exts r).getD [] ++ [sz]), responses := touchResponse b.responses r }
  | .status code =>
    -- AddResponseCode: a terminal status already queued is not replaced by a non-terminal one
    let keep := match aget b.completed r with
      | some cur => isTerminal cur && !isTerminal code
      | none => false
    { b with completed := if keep then b.completed else aset b.completed r code,
             responses := touchResponse b.responses r }

def Builder.applyAll (b : Builder) (r : Req) (items : List Item) : Builder := items.foldl (·.apply r) b

/-- the blocks kept by `gsmsg.Builder.ScrubResponses`: first occurrence of every block that some
    remaining response links to with action Present and that is in `outgoingBlocks` -/
def savedBlocks (blocks : List (Cid × Nat)) (links : List (Cid × Bool)) : List (Cid × Nat) :=
  links.foldl (fun saved l =>
    match l.2, aget blocks l.1 with
    | true, some sz => if ahas saved l.1 then saved else saved ++ [(l.1, sz)]
    | _, _ => saved) []

/-- `messagequeue.Builder.ScrubResponses` (returns the freed byte count) -/
def Builder.scrub (b : Builder) (reqs : List Req) : Builder × Nat :=
  let freedExt := sumNat ((b.exts.filter fun e => reqs.contains e.1).map fun e => sumNat e.2)
  let responses := adel b.responses reqs
  let saved := savedBlocks b.blocks (responses.flatMap (·.2))
  let newSize := sumNat (saved.map (·.2))
  ({ b with streams := adel b.streams reqs, subs := adel b.subs reqs,
            completed := adel b.completed reqs, exts := adel b.exts reqs,
            responses := responses, blocks := saved, blkSize := newSize },
   b.blkSize - newSize + freedExt)

/-! ## the queue -/

/-- `internalMetadata` of the message the queue goroutine is working on -/
structure InFlight where
  topic : Topic
  size : Nat                 -- msgSize
  streams : List Req         -- keys of responseStreams
  wire : Builder             -- content handed to SendMsg (for the wire observation)
deriving Repr, DecidableEq

inductive Pc where
  | idle                                    -- in runQueue's select
  | opening (m : InFlight) (retry : Option Nat)   -- initializeSender: none = in sendMessage, some i = recovery of attempt i
  | sending (m : InFlight) (i : Nat)        -- sender.SendMsg, attempt i (0-based)
  | resetting (m : InFlight) (i : Nat)      -- sender.Reset() after a failed SendMsg
  | exiting                                 -- the deferred ReleasePeerMemory of runQueue
  | exited
deriving Repr, DecidableEq

inductive Kind where | queued | sent | error | close
deriving Repr, DecidableEq

inductive Event where
  | notify (sub : Sub) (topic : Topic) (k : Kind)   -- Subscriber.OnNext / OnClose
  | wire (topic : Topic) (attempt : Nat)            -- SendMsg called
  | streamClosed (r : Req)                          -- responseStream.Close()
  | mem (e : GS.Alloc.Event)                        -- what the allocator did
  | built (ticket : Nat) (topic : Topic) (size : Nat) (used : Nat)  -- buildMessageFn ran on builder `topic`
  | dropped (ticket : Nat)                          -- allocation refused: nothing built
  | senderClosed
  | exitCallback                                    -- onShutdown(p)
deriving Repr, DecidableEq

/-- who builds: the response assembler's `execute` for request `req`, or the request manager's
    `SendRequest` (`AddRequest` + `SetSubscriber`, size 0) -/
inductive Who where | response | request
deriving Repr, DecidableEq

structure Tx where
  who : Who
  req : Req
  sub : Sub
  items : List Item
deriving Repr, DecidableEq

structure Waiter where
  ticket : Nat
  tx : Tx
  size : Nat
  answer : Option Bool := none    -- value on the allocation channel: some true = nil, some false = error
deriving Repr, DecidableEq

structure State where
  peer : Nat
  maxRetries : Nat
  builders : List Builder := []
  nextTopic : Nat := 0
  token : Bool := false            -- outgoingWork (capacity 1)
  done : Bool := false
  sender : Bool := false           -- mq.sender != nil
  pc : Pc := .idle
  closedStreams : List Req := []
  waiters : List Waiter := []
  nextTicket : Nat := 0
  topics : List (Topic × List Sub) := []   -- publisher: topic ↦ subscribers
  pubClosed : Bool := false
  alloc : GS.Alloc.State
  log : List Event := []
deriving Repr

def init (peer maxRetries maxTotal maxPeer : Nat) : State :=
  { peer, maxRetries, alloc := GS.Alloc.init maxTotal maxPeer }

def State.emit (s : State) (evs : List Event) : State := { s with log := s.log ++ evs }

/-! ### publisher (abstract) -/

def insertSub (l : List Sub) (u : Sub) : List Sub := if l.contains u then l else l ++ [u]

/-- `builder.build`: `publisher.Subscribe(topic, subscriber)` for every subscriber -/
def State.subscribe (s : State) (t : Topic) (subs : List Sub) : State :=
  if s.pubClosed then s
  else { s with topics := aset s.topics t (subs.foldl insertSub ((aget s.topics t).getD [])) }

def State.publish (s : State) (t : Topic) (k : Kind) : State :=
  if s.pubClosed then s
  else s.emit (((aget s.topics t).getD []).map fun u => Event.notify u t k)

/-- `eventPublisher.Close(topic)` -/
def State.closeTopic (s : State) (t : Topic) : State :=
  if s.pubClosed then s
  else { s.emit (((aget s.topics t).getD []).map fun u => Event.notify u t .close) with
         topics := adel s.topics [t] }

/-- `eventPublisher.Shutdown()`: the final sweep closes whatever is still subscribed -/
def State.pubShutdown (s : State) : State :=
  if s.pubClosed then s
  else { s.emit (s.topics.flatMap fun e => e.2.map fun u => Event.notify u e.1 .close) with
         topics := [], pubClosed := true }

/-! ### allocator calls -/

/-- record the answers the allocator put on waiting callers' channels -/
def answerWaiters (p : Nat) (ws : List Waiter) (evs : List GS.Alloc.Event) : List Waiter :=
  evs.foldl (fun ws e =>
    match e with
    | .granted q t _ => if q == p then ws.map fun w => if w.ticket == t then { w with answer := some true } else w else ws
    | .failed q t => if q == p then ws.map fun w => if w.ticket == t then { w with answer := some false } else w else ws
    | _ => ws) ws

/-- one call into the allocator (under `allocLk`) -/
def State.allocStep (pick : GS.Alloc.Pick) (s : State) (op : GS.Alloc.Op) : State × List GS.Alloc.Event :=
  let r := GS.Alloc.step pick s.alloc op
  ({ s with alloc := r.1, waiters := answerWaiters s.peer s.waiters r.2, log := s.log ++ r.2.map Event.mem }, r.2)

def State.release (pick : GS.Alloc.Pick) (s : State) (n : Nat) : State :=
  (s.allocStep pick (.release s.peer n)).1

/-! ### buildMessage -/

/-- `shouldBeginNewResponse` -/
def shouldBegin (builders : List Builder) (size : Nat) : Bool :=
  match builders.getLast? with
  | none => true
  | some b => if size == 0 then false else decide (b.blkSize + size > maxBlockSize)

/-- the `buildMessageFn` of `execute` / `SendRequest` -/
def runFn (closed : List Req) (b : Builder) (tx : Tx) : Builder :=
  match tx.who with
  | .response =>
    if closed.contains tx.req then b
    else
      let b := b.applyAll tx.req tx.items
      { b with streams := aset b.streams tx.req (), subs := aset b.subs tx.req tx.sub }
  | .request =>
    { b with requests := if b.requests.contains tx.req then b.requests else b.requests ++ [tx.req],
             subs := aset b.subs tx.req tx.sub }

def setLast (l : List Builder) (b : Builder) : List Builder :=
  match l with
  | [] => []
  | [_] => [b]
  | x :: y :: r => x :: setLast (y :: r) b

/-- `buildMessage(size, fn)` on a queue that is not closed, followed by `signalWork()` if it returned true -/
def State.buildMessage (pick : GS.Alloc.Pick) (s : State) (ticket : Nat) (tx : Tx) (size : Nat) : State :=
  let s := if shouldBegin s.builders size
    then { s with builders := s.builders ++ [{ topic := s.nextTopic }], nextTopic := s.nextTopic + 1 }
    else s
  match s.builders.getLast? with
  | none => s      -- unreachable: shouldBegin [] = true
  | some b =>
    let b' := runFn s.closedStreams b tx
    let used := b'.accounted - b.accounted
    let s := { s with builders := setLast s.builders b' }
    let s := s.emit [Event.built ticket b.topic size used]
    -- return the unused part of the reservation
    let s := if b'.accounted ≥ b.accounted ∧ used < size then s.release pick (size - used) else s
    if !b'.empty then { s with token := true } else s

/-! ### the queue goroutine -/

def dropEmpty : List Builder → List Builder
  | [] => []
  | b :: r => if b.empty then dropEmpty r else b :: r

def dedupSubs (subs : List (Req × Sub)) : List Sub := subs.foldl (fun acc e => insertSub acc e.2) []

/-- `extractOutgoingMessage` + `builder.build(publisher)` -/
def State.extract (s : State) : State × Option InFlight :=
  match dropEmpty s.builders with
  | [] => ({ s with builders := [] }, none)
  | b :: rest =>
    let s := { s with builders := rest, token := s.token || !rest.isEmpty }
    let s := s.subscribe b.topic (dedupSubs b.subs)
    (s, some { topic := b.topic, size := b.accounted, streams := b.streams.map (·.1), wire := b })

/-- `scrubResponses` over the queued builders: (remaining builders, total freed) -/
def scrubAll (reqs : List Req) : List Builder → List Builder × Nat
  | [] => ([], 0)
  | b :: r =>
    let (b', f) := b.scrub reqs
    let (r', fr) := scrubAll reqs r
    (if b'.empty then r' else b' :: r', f + fr)

/-- `publishError(metadata, err)` -/
def State.publishError (pick : GS.Alloc.Pick) (s : State) (m : InFlight) : State :=
  -- scrubResponseStreams
  let s := { s with closedStreams := m.streams.foldl (fun acc r => if acc.contains r then acc else acc ++ [r]) s.closedStreams }
  let s := s.emit (m.streams.map Event.streamClosed)
  let (bs, freed) := scrubAll m.streams s.builders
  let s := { s with builders := bs }
  let s := if freed > 0 then s.release pick freed else s
  let s := s.publish m.topic .error
  s.release pick m.size

/-- `publishSent(metadata)` -/
def State.publishSent (pick : GS.Alloc.Pick) (s : State) (m : InFlight) : State :=
  (s.publish m.topic .sent).release pick m.size

/-- message finished (`defer mq.eventPublisher.Close(metadata.topic)`), back to the select -/
def State.finish (s : State) (m : InFlight) : State := { s.closeTopic m.topic with pc := .idle }

/-- enter the retry loop `for i := 0; i < maxRetries; i++` at index `i` -/
def State.attempt (pick : GS.Alloc.Pick) (s : State) (m : InFlight) (i : Nat) : State :=
  if i < s.maxRetries then { s.emit [Event.wire m.topic i] with pc := .sending m i }
  else (s.publishError pick m).finish m

/-- the drain loop of the `done` branch -/
def State.drain (pick : GS.Alloc.Pick) : Nat → State → State
  | 0, s => s
  | fuel + 1, s =>
    match s.extract with
    | (s, none) => s
    | (s, some m) => State.drain pick fuel ((s.publishError pick m).closeTopic m.topic)

/-- the queue will not send any more messages: `mq.closed`, set (under `buildersLk`) by the queue
    goroutine when it takes the `done` branch -/
def State.closed (s : State) : Bool := s.pc == .exiting || s.pc == .exited

/-- `buildMessage` as seen by callers.  On a closed queue (`rejectMessage`) the build function runs on
    a builder of its own, whose subscribers are told `Error` + close at once, whose response streams
    are closed and whose reservation is returned — exactly what the shutdown drain does to a queued
    builder, so it is modelled as "build, then drain that one builder" (the queue of a closed queue is
    empty).  Go uses a publisher of its own for this (the queue's may be shut down); the model reuses
    the queue's publisher state, which is empty (`topics = []`) whenever the queue is closed, and for
    that reason does not model `eventPublisher.Shutdown()` at exit (it would close no topic). -/
def State.buildMsg (pick : GS.Alloc.Pick) (s : State) (ticket : Nat) (tx : Tx) (size : Nat) : State :=
  if s.closed then State.drain pick 1 (s.buildMessage pick ticket tx size)
  else s.buildMessage pick ticket tx size

/-- `AllocateAndBuildMessage` as called by `execute` (which first checks `isClosed`) or `SendRequest` -/
def State.build (pick : GS.Alloc.Pick) (s : State) (tx : Tx) : State :=
  if tx.who == .response && s.closedStreams.contains tx.req then s
  else
    let size := match tx.who with | .response => itemsSize tx.items | .request => 0
    let ticket := s.nextTicket
    let s := { s with nextTicket := ticket + 1 }
    if size == 0 then s.buildMsg pick ticket tx 0
    else
      let (s, evs) := s.allocStep pick (.alloc s.peer size ticket)
      if evs.contains (.granted s.peer ticket size) then s.buildMsg pick ticket tx size
      else { s with waiters := s.waiters ++ [{ ticket, tx, size }] }

/-- the waiting caller with ticket `t` continues, if its channel has a value -/
def State.wake (pick : GS.Alloc.Pick) (s : State) (t : Nat) : State :=
  match s.waiters.find? (fun w => w.ticket == t && w.answer.isSome) with
  | none => s
  | some w =>
    let s := { s with waiters := s.waiters.filter (·.ticket != w.ticket) }
    if w.answer == some true then s.buildMsg pick w.ticket w.tx w.size
    else s.emit [Event.dropped w.ticket]

/-- one iteration of `for { select { … } }` in `runQueue`; `preferWork` resolves the select when
    both `outgoingWork` and `done` are ready -/
def State.run (pick : GS.Alloc.Pick) (s : State) (preferWork : Bool) : State :=
  match s.pc with
  | .idle =>
    if s.token && (!s.done || preferWork) then
      -- case <-mq.outgoingWork: mq.sendMessage()
      match { s with token := false }.extract with
      | (s, none) => s
      | (s, some m) =>
        let s := s.publish m.topic .queued
        if s.sender then s.attempt pick m 0 else { s with pc := .opening m none }
    else if s.done then
      -- case <-mq.done
      -- mq.closed = true (pc := exiting below); every queued builder is failed
      let s := State.drain pick s.builders.length s
      let s := if s.sender then s.emit [Event.senderClosed] else s
      { s with pc := .exiting }
    else s
  | _ => s

/-- the call the queue goroutine is blocked in returns (`ok` = without error) -/
def State.ack (pick : GS.Alloc.Pick) (s : State) (ok : Bool) : State :=
  match s.pc with
  | .opening m none =>
    if ok then { s with sender := true }.attempt pick m 0
    else
      let s := s.publishError pick m
      ({ s with done := true }).finish m        -- select { case <-mq.done: default: mq.Shutdown() }
  | .sending m i =>
    if ok then (s.publishSent pick m).finish m
    else { s with sender := false, pc := .resetting m i }
  | .resetting m i =>
    if s.done then (s.publishError pick m).finish m
    else { s with pc := .opening m (some i) }   -- after the 100ms wait: initializeSender
  | .opening m (some i) =>
    if ok then { s with sender := true }.attempt pick m (i + 1)
    else (s.publishError pick m).finish m
  | .exiting =>
    let s := (s.allocStep pick (.releasePeer s.peer)).1
    -- eventPublisher.Shutdown(): no topic is open (see `buildMsg`)
    { s.emit [Event.exitCallback] with pc := .exited }
  | .idle => s
  | .exited => s

inductive Act where
  | build (tx : Tx)
  | wake (ticket : Nat)
  | run (preferWork : Bool)
  | ack (ok : Bool)
  | shutdown
  /-- somebody else calls the shared allocator: another peer's queue, or -- while two queues of the
      SAME peer overlap (C17 finding `overlap-shutting-down`) -- the other queue of this peer
      (`opPeer op = s.peer`; in particular its exit does `ReleasePeerMemory(peer)`) -/
  | env (op : GS.Alloc.Op)
deriving Repr

def opPeer : GS.Alloc.Op → Nat
  | .alloc p _ _ => p
  | .release p _ => p
  | .releasePeer p => p

def step (pick : GS.Alloc.Pick) (s : State) : Act → State
  | .build tx => s.build pick tx
  | .wake t => s.wake pick t
  | .run pw => s.run pick pw
  | .ack ok => s.ack pick ok
  | .shutdown => { s with done := true }
  | .env op => (s.allocStep pick op).1

def runActs (pick : GS.Alloc.Pick) (s : State) (acts : List Act) : State := acts.foldl (step pick) s

/-! ### bytes the queue holds (the right-hand side of the C15 ledger) -/

def heldBuilders (s : State) : Nat := sumNat (s.builders.map Builder.accounted)

def Pc.inflight : Pc → Option InFlight
  | .opening m _ => some m
  | .sending m _ => some m
  | .resetting m _ => some m
  | _ => none

def heldInFlight (s : State) : Nat := match s.pc.inflight with | some m => m.size | none => 0

/-- reservations granted to callers that have not yet reached `buildMessage` -/
def heldGranted (s : State) : Nat :=
  sumNat ((s.waiters.filter (·.answer == some true)).map (·.size))

def held (s : State) : Nat := heldBuilders s + heldInFlight s + heldGranted s

/-! ## the response assembler's link tracker, as far as block sizes depend on it
(`peerLinkTracker.RecordLinkTraversal` / `FinishTracking` with the default dedup key, no skips) -/

structure Tracker where
  inProgress : List (Req × Cid) := []    -- traversals with block present of unfinished requests
  missing : List Req := []               -- requests that met a missing block
deriving Repr

inductive RawItem where
  | block (cid size : Nat)
  | missing (cid : Nat)
  | ext (size : Nat)
  | pause                       -- PauseRequest: status RequestPaused (15)
  | finish                      -- FinishRequest: 20 (full) or 21 (partial)
  | finishErr (code : Nat)      -- FinishWithError
deriving Repr

def Tracker.prepare (t : Tracker) (r : Req) : List RawItem → Tracker × List Item
  | [] => (t, [])
  | it :: rest =>
    let (t1, out) : Tracker × Item := match it with
      | .block c sz =>
        let unique := !(t.inProgress.any (·.2 == c))
        ({ t with inProgress := t.inProgress ++ [(r, c)] }, Item.block c sz unique)
      | .missing c => ({ t with missing := if t.missing.contains r then t.missing else t.missing ++ [r] }, Item.missing c)
      | .ext sz => (t, Item.ext sz)
      | .pause => (t, Item.status 15)
      | .finish =>
        let code := if t.missing.contains r then 21 else 20
        ({ inProgress := t.inProgress.filter (·.1 != r), missing := t.missing.filter (· != r) }, Item.status code)
      | .finishErr code =>
        ({ inProgress := t.inProgress.filter (·.1 != r), missing := t.missing.filter (· != r) }, Item.status code)
    let (t2, outs) := Tracker.prepare t1 r rest
    (t2, out :: outs)

end GS.MQ
