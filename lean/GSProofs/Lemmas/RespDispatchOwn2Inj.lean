import GSProofs.Lemmas.RespDispatchOwn2Def
/-!
The error notification with another connection's message in between the subscriber's two calls
leaves every third peer alone.
-/
namespace GS.C10
open GS.RespMgr GS.Generated

/-- every object of `s` still exists in `s'` at the same index, served to the same peer -/
def Fwd (s s' : State) : Prop := ∀ j o0, s.obj j = some o0 → ∃ o1, s'.obj j = some o1 ∧ o1.peer = o0.peer

theorem Fwd.refl (s : State) : Fwd s s := fun _ o h => ⟨o, h, rfl⟩
theorem Fwd.trans {s s' s'' : State} (h1 : Fwd s s') (h2 : Fwd s' s'') : Fwd s s'' := by
  intro j o0 h
  obtain ⟨o1, ho1, hp1⟩ := h1 j o0 h
  obtain ⟨o2, ho2, hp2⟩ := h2 j o1 ho1
  exact ⟨o2, ho2, hp2.trans hp1⟩

theorem fwd_setObj (s : State) (k : Serial) (o o' : Obj) (hk : s.obj k = some o) (hp : o'.peer = o.peer) :
    Fwd s (s.setObj k o') := by
  intro j o0 h
  by_cases hj : k = j
  · subst hj
    have hlt : k < s.objs.length := (List.getElem?_eq_some_iff.mp (by simpa [State.obj] using hk)).1
    rw [hk] at h; cases h
    exact ⟨o', by simp [State.setObj, State.obj, hlt], hp⟩
  · exact ⟨o0, by rw [obj_setObj_ne s k j o' hj]; exact h, rfl⟩

theorem fwd_of_objs_eq {s s' : State} (h : s'.objs = s.objs) : Fwd s s' := by
  intro j o0 hj
  exact ⟨o0, by simpa [State.obj, h] using hj, rfl⟩

theorem terminate_fwd (s : State) (id : ReqId) : Fwd s (terminate s id).1 := by
  unfold terminate
  split
  · exact Fwd.refl s
  · rename_i k o hl
    obtain ⟨_, hk⟩ := lookup_some hl
    refine Fwd.trans (fwd_setObj s k o { o with ctxCancelled := true } hk rfl) ?_
    exact fwd_of_objs_eq rfl

theorem abort_fwd (s : State) (id : ReqId) (err : ErrK) : Fwd s (abortRequest s id err).1 := by
  unfold abortRequest
  split
  · exact Fwd.refl s
  · rename_i k o hl
    obtain ⟨_, hk⟩ := lookup_some hl
    have h0 : Fwd s { s with pending := eraseFirst s.pending (o.peer, id) } := fwd_of_objs_eq rfl
    have hk1 : ({ s with pending := eraseFirst s.pending (o.peer, id) } : State).obj k = some o := by
      simpa [State.obj] using hk
    simp only
    split
    · exact h0
    · split
      · split
        · exact Fwd.trans h0 (terminate_fwd _ id)
        · exact Fwd.trans h0 (terminate_fwd _ id)
        · exact Fwd.trans h0 (fwd_setObj _ k o _ hk1 rfl)
      · refine Fwd.trans h0 (fwd_setObj _ k o _ hk1 ?_)
        split <;> rfl

theorem unpause_fwd (s : State) (id : ReqId) : Fwd s (unpauseRequest s id).1 := by
  unfold unpauseRequest
  split
  · exact Fwd.refl s
  · rename_i k o hl
    obtain ⟨_, hk⟩ := lookup_some hl
    split
    · exact Fwd.refl s
    · exact Fwd.trans (s' := s.setObj k { o with state := .queued, sigPause := false })
        (fwd_setObj s k o _ hk rfl) (fwd_of_objs_eq rfl)

theorem update_fwd (s : State) (id : ReqId) (uh : UpdHook) : Fwd s (processUpdate s id uh).1 := by
  unfold processUpdate
  split
  · exact Fwd.refl s
  · rename_i k o hl
    obtain ⟨_, hk⟩ := lookup_some hl
    split
    · exact Fwd.refl s
    · split
      · exact fwd_setObj s k o _ hk rfl
      · simp only
        split
        · exact Fwd.refl s
        · exact Fwd.refl s
        · exact fwd_setObj s k o _ hk rfl
        · exact unpause_fwd s id

theorem new_fwd (s : State) (q : Peer) (x : Request) : Fwd s (newRequest s q x).1 := by
  intro j o0 h
  have hlt : j < s.objs.length := (List.getElem?_eq_some_iff.mp (by simpa [State.obj] using h)).1
  refine ⟨o0, ?_, rfl⟩
  simp only [newRequest, State.obj]
  rw [List.getElem?_append_left hlt]
  exact h

theorem handleOne_fwd (d : List DispatchCase) (q : Peer) (s : State) (x : Request) :
    Fwd s (handleOne d q s x).1 := by
  have key : ∀ h : Handler, Fwd s (match h with
      | .new => newRequest s q x
      | .abort => let r := abortRequest s x.id .ctxCancel; (r.1, r.2.1)
      | .update => processUpdate s x.id x.uh).1 := by
    intro h
    cases h
    · exact new_fwd s q x
    · exact abort_fwd s x.id .ctxCancel
    · exact update_fwd s x.id x.uh
  unfold handleOne
  split
  · exact Fwd.refl s
  · rename_i c hc
    cases hg : c.guard with
    | none => simp only [Bool.false_eq_true, if_false]; exact key c.handler
    | some g =>
      by_cases hb : guardSkips g s q x = true
      · simp only [hb, if_true]; exact Fwd.refl s
      · have hb' : guardSkips g s q x = false := by simpa using hb
        simp only [hb', Bool.false_eq_true, if_false]; exact key c.handler

theorem processRequests_fwd (d : List DispatchCase) (q : Peer) (s : State) (reqs : List Request) :
    Fwd s (processRequests d q s reqs).1 := by
  induction reqs generalizing s with
  | nil => exact Fwd.refl s
  | cons x xs ih => exact Fwd.trans (handleOne_fwd d q s x) (ih _)

theorem closeNetErr_fwd (s : State) (k : Serial) (id : ReqId) :
    Fwd s (closeNetErr .ownResponse s k id).1 := by
  unfold closeNetErr
  split
  · exact abort_fwd _ _ _
  · exact Fwd.refl _

theorem notifyErr_inj_untouched (s0 : State) (k : Serial) (o ob : Obj) (term : Bool) (p q' : Peer)
    (reqs : List Request) (hq : o.peer ≠ p) (hq' : q' ≠ p)
    (hk0 : s0.obj k = some ob) (hpb : ob.peer = o.peer) :
    Untouched p s0 (notifyErr RespDispatch.dispatch .ownResponse s0 k o term (some (q', reqs))).1
    ∧ NoEv p (notifyErr RespDispatch.dispatch .ownResponse s0 k o term (some (q', reqs))).2.1 := by
  have hp0 : ∀ o', s0.obj k = some o' → o'.peer = o.peer := by
    intro o' h; rw [hk0] at h; cases h; exact hpb
  unfold notifyErr
  obtain ⟨fa, ea, pka⟩ := closeNetErr_frame o.peer s0 k o.id hp0
  have hpa := peer_of_kept pka k o.peer hp0
  have fwda := closeNetErr_fwd s0 k o.id
  have hnev : NoEv p (if (closeNetErr .ownResponse s0 k o.id).2.2 = .ok then [Ev.lNetErr o.peer o.id] else []) := by
    split
    · intro ev hev
      simp at hev
      subst hev
      exact hq
    · exact noEv_nil _
  have ua := untouched_of_frame hq fa
  have na := noEv_of_allPeer hq ea
  simp only [injectMsg]
  split
  · obtain ⟨fi, ei⟩ := processRequests_frame RespDispatch.dispatch dispatch_guarded q'
      (closeNetErr .ownResponse s0 k o.id).1 reqs
    have fwdi := Fwd.trans fwda (processRequests_fwd RespDispatch.dispatch q'
      (closeNetErr .ownResponse s0 k o.id).1 reqs)
    have hpi : ∀ o', (processRequests RespDispatch.dispatch q'
        (closeNetErr .ownResponse s0 k o.id).1 reqs).1.obj k = some o' → o'.peer = o.peer := by
      intro o' h
      obtain ⟨o1, h1, hp1⟩ := fwdi k ob hk0
      rw [h1] at h; cases h; rw [hp1, hpb]
    obtain ⟨ft, et⟩ := closeTerm_frame o.peer _ k o.id term hpi
    exact ⟨Untouched.trans (Untouched.trans ua (untouched_of_frame hq' fi)) (untouched_of_frame hq ft),
      noEv_append (noEv_append (noEv_append na (noEv_of_allPeer hq' ei)) (noEv_of_allPeer hq et)) hnev⟩
  · obtain ⟨ft, et⟩ := closeTerm_frame o.peer _ k o.id term hpa
    obtain ⟨fi, ei⟩ := processRequests_frame RespDispatch.dispatch dispatch_guarded q'
      (closeTerm .ownResponse (closeNetErr .ownResponse s0 k o.id).1 k o.id term).1 reqs
    exact ⟨Untouched.trans (Untouched.trans ua (untouched_of_frame hq ft)) (untouched_of_frame hq' fi),
      noEv_append (noEv_append (noEv_append na (noEv_of_allPeer hq et)) hnev) (noEv_of_allPeer hq' ei)⟩

/-- An error notification for a stream of `q`, with a message of `q'` arriving between the
    subscriber's two calls, leaves every third peer `p` alone. -/
theorem notifyAt_inj_untouched (s : State) (p q q' : Peer) (j : Nat) (reqs : List Request)
    (hq : q ≠ p) (hq' : q' ≠ p) :
    Untouched p s (notifyAt RespDispatch.dispatch .ownResponse s q j true (some (q', reqs))).1
    ∧ NoEv p (notifyAt RespDispatch.dispatch .ownResponse s q j true (some (q', reqs))).2.1 := by
  unfold notifyAt
  split
  · rename_i k hk
    obtain ⟨o, ho, hpo⟩ := streamsOf_peer s q j k hk
    subst hpo
    have f0 := frame_setObj o.peer s k o { o with finCode := none } ho rfl
    have hlt : k < s.objs.length := (List.getElem?_eq_some_iff.mp (by simpa [State.obj] using ho)).1
    have hk0 : (s.setObj k { o with finCode := none }).obj k = some { o with finCode := none } := by
      simp [State.setObj, State.obj, hlt]
    unfold notify
    simp only [ho]
    obtain ⟨u, e⟩ := notifyErr_inj_untouched (s.setObj k { o with finCode := none }) k o
      { o with finCode := none }
      (match o.finCode with | some c => Generated.StatusCodes.isTerminal c | none => false) p q' reqs hq hq' hk0 rfl
    exact ⟨Untouched.trans (untouched_of_frame hq f0) u, e⟩
  · exact ⟨Untouched.refl p s, noEv_nil p⟩

end GS.C10
