package main

import (
	"verifharness/reg"
	_ "verifharness/responder"
)

func main() { reg.Main("responder") }
