import GS.Model.RespLifecycle
/-!
Frame lemmas for the responder lifecycle model: which functions leave the "registry" projection
`pi` (table keys, protected tags, Protect/Unprotect log, ids seen, `new` messages still in the
mailbox, a parked `newRequest`) unchanged.  Everything except `recv`, `newRequest`/`newReqFinish`
and `terminate` does.
-/
namespace GS.RespLife

def isProtEv : Event → Bool
  | .protect _ _ => true
  | .unprotect _ _ => true
  | _ => false

/-- ids of the `new` requests still waiting in a mailbox -/
def newIds (mb : List Msg) : List Id :=
  mb.filterMap fun
    | .processRequests _ (.new id _) => some id
    | _ => none

/-- the (peer, id) of a `newRequest` whose manager step is parked -/
def parkNew (pk : Option MgrPark) : Option (Peer × Id) :=
  match pk with
  | some k => (match k.cont with
    | .newReq p id _ => some (p, id)
    | _ => none)
  | none => none

def keys (s : State) : List (Peer × Id) := s.table.map fun r => (r.peer, r.id)

structure Pi where
  keys : List (Peer × Id)
  prot : List (Peer × Id)
  plog : List Event
  seen : List Id
  news : List Id
  pnew : Option (Peer × Id)

def pi (s : State) : Pi :=
  ⟨keys s, s.prot, s.events.filter isProtEv, s.seenIds, newIds s.mailbox, parkNew s.park⟩

theorem pi_eq {s s' : State} (h1 : keys s' = keys s) (h2 : s'.prot = s.prot)
    (h3 : s'.events.filter isProtEv = s.events.filter isProtEv) (h4 : s'.seenIds = s.seenIds)
    (h5 : newIds s'.mailbox = newIds s.mailbox) (h6 : parkNew s'.park = parkNew s.park) :
    pi s' = pi s := by
  simp [pi, h1, h2, h3, h4, h5, h6]

-- ------------------------------------------------------------------ primitives
@[simp] theorem keys_modAux (s : State) (id : Id) (f : Aux → Aux) : keys (modAux s id f) = keys s := by
  simp only [keys, modAux, List.map_map]
  apply List.map_congr_left
  intro r _
  simp only [Function.comp]
  split <;> rfl

@[simp] theorem keys_setState (s : State) (id : Id) (st : RState) : keys (setState s id st) = keys s := by
  simp only [keys, setState, List.map_map]
  apply List.map_congr_left
  intro r _
  simp only [Function.comp]
  split <;> rfl

@[simp] theorem pi_modAux (s : State) (id : Id) (f : Aux → Aux) : pi (modAux s id f) = pi s :=
  pi_eq (keys_modAux s id f) rfl rfl rfl rfl rfl

@[simp] theorem pi_setState (s : State) (id : Id) (st : RState) : pi (setState s id st) = pi s :=
  pi_eq (keys_setState s id st) rfl rfl rfl rfl rfl

theorem pi_emit (s : State) (e : Event) (h : isProtEv e = false) : pi (emit s e) = pi s := by
  refine pi_eq (s := s) (s' := emit s e) rfl rfl ?_ rfl rfl rfl
  simp [emit, List.filter_append, h]

@[simp] theorem pi_emit_canc (s : State) (id : Id) : pi (emit s (.canc id)) = pi s := pi_emit s _ rfl
@[simp] theorem pi_emit_done (s : State) (id : Id) (c : Nat) : pi (emit s (.done id c)) = pi s := pi_emit s _ rfl
@[simp] theorem pi_emit_nerr (s : State) (id : Id) : pi (emit s (.nerr id)) = pi s := pi_emit s _ rfl
@[simp] theorem pi_emit_proc (s : State) (id : Id) : pi (emit s (.proc id)) = pi s := pi_emit s _ rfl
@[simp] theorem pi_emit_api (s : State) (c : ApiCall) (r : ApiRes) : pi (emit s (.apiRes c r)) = pi s := pi_emit s _ rfl

@[simp] theorem pi_setQ (s : State) (q : PeerQ) : pi (setQ s q) = pi s := rfl
@[simp] theorem pi_setMQ (s : State) (q : PeerMQ) : pi (setMQ s q) = pi s := rfl
@[simp] theorem pi_setWorker (s : State) (w : Nat) (f : Worker → Worker) : pi (setWorker s w f) = pi s := rfl
@[simp] theorem pi_setPhase (s : State) (w : Nat) (ph : WPhase) : pi (setPhase s w ph) = pi s := rfl

@[simp] theorem pi_pushTask (s : State) (p : Peer) (id : Id) (pri : Nat) : pi (pushTask s p id pri) = pi s := by
  unfold pushTask
  simp only
  split
  · rfl
  · split <;> rfl

@[simp] theorem pi_removeTask (s : State) (p : Peer) (id : Id) : pi (removeTask s p id) = pi s := by
  unfold removeTask
  simp only
  split <;> rfl

@[simp] theorem pi_taskDone (s : State) (p : Peer) (id : Id) : pi (taskDone s p id) = pi s := by
  unfold taskDone
  split <;> rfl

@[simp] theorem pi_thawAll (s : State) : pi (thawAll s) = pi s := rfl

@[simp] theorem pi_addAlloc (s : State) (p : Peer) (n : Nat) : pi (addAlloc s p n) = pi s := rfl

@[simp] theorem parkNew_grant (pk : Option MgrPark) :
    parkNew (pk.map fun k => { k with granted := true }) = parkNew pk := by
  cases pk <;> rfl

@[simp] theorem pi_grantTo (s : State) (party : Party) : pi (grantTo s party) = pi s := by
  cases party with
  | mgr => exact pi_eq rfl rfl rfl rfl rfl (parkNew_grant s.park)
  | worker w => rfl

@[simp] theorem pi_grantLoop (fuel : Nat) (s : State) (p : Peer) : pi (grantLoop fuel s p) = pi s := by
  induction fuel generalizing s with
  | zero => rfl
  | succ n ih =>
    unfold grantLoop
    split
    · rfl
    · split
      · rw [ih]; simp; rfl
      · rfl

@[simp] theorem pi_release (s : State) (p : Peer) (n : Nat) : pi (release s p n) = pi s := by
  unfold release
  simp

@[simp] theorem pi_tryAlloc (s : State) (party : Party) (p : Peer) (n : Nat) :
    pi (tryAlloc s party p n).1 = pi s := by
  unfold tryAlloc
  split
  · simp
  · rfl

@[simp] theorem pi_buildNow (s : State) (p : Peer) (id : Id) (ops : List TxOp) :
    pi (buildNow s p id ops) = pi s := by
  unfold buildNow
  simp only
  split
  · split
    · simp
    · rfl
  · rfl

@[simp] theorem pi_execTx (s : State) (party : Party) (p : Peer) (id : Id) (ops : List TxOp) :
    pi (execTx s party p id ops).1 = pi s := by
  unfold execTx
  split
  · rfl
  · simp only
    split
    · simp
    · cases h : tryAlloc s party p (txSize s.extLen ops) with
      | mk s1 ok =>
        have h1 : pi s1 = pi s := by
          have := pi_tryAlloc s party p (txSize s.extLen ops)
          rw [h] at this; exact this
        simp only
        split
        · simp [h1]
        · exact h1

-- ------------------------------------------------------------------ mailbox appends
def isNewMsg : Msg → Bool
  | .processRequests _ (.new _ _) => true
  | _ => false

theorem newIds_append (mb : List Msg) (m : Msg) (h : isNewMsg m = false) : newIds (mb ++ [m]) = newIds mb := by
  unfold newIds
  rw [List.filterMap_append]
  cases m with
  | processRequests p r => cases r <;> simp_all [isNewMsg]
  | _ => simp

theorem pi_mail (s : State) (m : Msg) (h : isNewMsg m = false) : pi (sendMsg s m) = pi s :=
  pi_eq (s := s) (s' := sendMsg s m) rfl rfl rfl rfl (newIds_append _ _ h) rfl

-- ------------------------------------------------------------------ worker
@[simp] theorem pi_sendFinish (s : State) (w : Nat) (err : Option WErr) : pi (sendFinish s w err) = pi s := by
  unfold sendFinish
  rw [pi_setPhase]
  exact pi_mail s _ rfl

@[simp] theorem pi_executeQuery (s : State) (w : Nat) (wk : Worker) (err : Option WErr) :
    pi (executeQuery s w wk err) = pi s := by
  unfold executeQuery
  split
  · simp
  · simp
  · simp
  · simp only
    cases h : execTx s (.worker w) wk.peer wk.id [TxOp.status (finalStatus (lookup s wk.id) err)] with
    | mk s1 ok =>
      have h1 : pi s1 = pi s := by
        have := pi_execTx s (.worker w) wk.peer wk.id [TxOp.status (finalStatus (lookup s wk.id) err)]
        rw [h] at this; exact this
      simp only
      split <;> simp [h1]

@[simp] theorem pi_loopTop (s : State) (w : Nat) (wk : Worker) : pi (loopTop s w wk) = pi s := by
  unfold loopTop
  split
  · simp
  · split <;> simp

@[simp] theorem pi_afterBlock (s : State) (w : Nat) (wk : Worker) (err : Option WErr) :
    pi (afterBlock s w wk err) = pi s := by
  unfold afterBlock
  split <;> simp

@[simp] theorem pi_runTx (s : State) (w : Nat) (wk : Worker) (ops : List TxOp) (k : AfterTx) :
    pi (runTx s w wk ops k) = pi s := by
  unfold runTx
  cases h : execTx s (.worker w) wk.peer wk.id ops with
  | mk s1 ok =>
    have h1 : pi s1 = pi s := by
      have := pi_execTx s (.worker w) wk.peer wk.id ops
      rw [h] at this; exact this
    simp only
    split
    · split <;> simp [h1]
    · simp [h1]

@[simp] theorem pi_blockPart (s : State) (w : Nat) (wk : Worker) (ops : List TxOp) (cfu : Option WErr)
    (present : Bool) : pi (blockPart s w wk ops cfu present) = pi s := by
  unfold blockPart
  split
  · simp
  · simp only
    split
    · simp
    · split <;> simp

theorem pi_checkForUpdates (s : State) (w : Nat) (wk : Worker) (ops : List TxOp) (present : Bool) (pick : Nat) :
    pi (checkForUpdates s w wk ops present pick) = pi s := by
  unfold checkForUpdates
  split
  · simp
  · simp only
    split
    · simp
    · simp
    · simp
    · rw [pi_setPhase, pi_mail _ _ rfl]
      simp

attribute [simp] pi_checkForUpdates

@[simp] theorem pi_applyUpdates (s : State) (w : Nat) (wk : Worker) (ups : List UP) (ops : List TxOp)
    (present : Bool) (pick : Nat) : pi (applyUpdates s w wk ups ops present pick) = pi s := by
  induction ups generalizing ops with
  | nil => simp [applyUpdates]
  | cons u us ih =>
    unfold applyUpdates
    simp only
    split
    · simp
    · exact ih _

theorem pi_wstep {s s' : State} {w pick : Nat} (h : wstep s w pick = some s') : pi s' = pi s := by
  unfold wstep at h
  split at h
  · cases h
  · split at h
    · cases h; simp
    · split at h
      · cases h; simp
      · cases h; simp
    · cases h; simp
    · cases h; simp
    · simp only at h
      split at h
      · cases h; simp
      · cases h; simp
    · cases h

-- ------------------------------------------------------------------ message queue, publisher, task queue
theorem pi_netResolve {s s' : State} {p : Peer} {ok : Bool} (h : netResolve s p ok = some s') : pi s' = pi s := by
  unfold netResolve at h
  simp only at h
  split at h
  · cases h
  · split at h
    · cases h; simp
    · cases h
      simp only
      rw [pi_release]
      split
      · rw [pi_release, pi_setMQ]; rfl
      · rw [pi_setMQ]; rfl

theorem pi_extract {s s' : State} {p : Peer} (h : extract s p = some s') : pi s' = pi s := by
  unfold extract at h
  simp only at h
  split at h
  · split at h
    · cases h
    · cases h; simp
  · cases h

@[simp] theorem pi_primer (s : State) (p : Peer) : pi (primer s p) = pi s := by
  unfold primer; simp

theorem pi_pubStep {s s' : State} {p : Peer} (h : pubStep s p = some s') : pi s' = pi s := by
  unfold pubStep at h
  simp only at h
  split at h
  · cases h
  · split at h
    · cases h
    · split at h
      · cases h
        refine pi_eq (s := s) rfl rfl ?_ rfl rfl rfl
        show List.filter isProtEv (s.events ++ List.replicate _ (Event.bs _)) = _
        rw [List.filter_append]
        have : ∀ n id, List.filter isProtEv (List.replicate n (Event.bs id)) = [] := by
          intro n id
          induction n with
          | zero => rfl
          | succ n ih => simp [List.replicate_succ, isProtEv]
        rw [this]; simp
      · cases h; simp
      · cases h; simp
      · cases h; rw [pi_mail _ _ rfl]; simp
      · cases h; rw [pi_mail _ _ rfl]; simp

theorem pi_popTask {s s' : State} {p : Peer} {id : Id} (h : popTask s p id = some s') : pi s' = pi s := by
  unfold popTask at h
  simp only at h
  split at h
  · cases h; rw [pi_mail _ _ rfl]; rfl
  · cases h

theorem pi_reap {s s' : State} {p : Peer} (h : reap s p = some s') : pi s' = pi s := by
  unfold reap at h
  split at h
  · split at h
    · cases h; rfl
    · cases h
  · cases h

-- ------------------------------------------------------------------ manager handlers that do not register / retire
theorem pi_parkMgr (s : State) (cont : MgrCont) (p : Peer) (id : Id) (ops : List TxOp)
    (h : ∀ p' id' cfg, cont ≠ .newReq p' id' cfg) (hp : s.park = none) :
    pi (parkMgr s cont p id ops) = pi s := by
  refine pi_eq (s := s) rfl rfl rfl rfl rfl ?_
  simp only [parkMgr, parkNew, hp]
  cases cont with
  | newReq p' id' cfg => exact absurd rfl (h p' id' cfg)
  | _ => rfl

@[simp] theorem pi_pauseRequest (s : State) (id : Id) : pi (pauseRequest s id).1 = pi s := by
  unfold pauseRequest
  split
  · rfl
  · split
    · rfl
    · split
      · rfl
      · simp

@[simp] theorem pi_unpauseFinish (s : State) (id : Id) : pi (unpauseFinish s id) = pi s := by
  unfold unpauseFinish
  split
  · rfl
  · simp

theorem park_execTx (s : State) (party : Party) (p : Peer) (id : Id) (ops : List TxOp) :
    parkNew (execTx s party p id ops).1.park = parkNew s.park := by
  have := pi_execTx s party p id ops
  exact congrArg Pi.pnew this

end GS.RespLife
