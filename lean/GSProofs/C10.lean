import GS.Model.RespMgr
/-!
# C10 — Messages from one peer cannot alter a response served to another  (work in progress)
-/
namespace GS.C10
open GS.RespMgr GS.Generated

/-- every request type is dispatched behind a peer guard -/
def AllGuarded (d : List DispatchCase) : Bool := d.all (·.peerGuard)

theorem dispatch_guarded : AllGuarded RespDispatch.dispatch = true := by decide

end GS.C10
