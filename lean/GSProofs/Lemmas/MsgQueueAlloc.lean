import GSProofs.Lemmas.AllocatorReach
import GS.Model.MsgQueue
/-!
# The allocator as seen by one peer's message queue

Per-operation facts about `GS.Alloc.step`, phrased through the views of one peer `p`:
its accounted total `tot`, its waiting list as (ticket, amount) pairs `pendTA`, and, for the events of
a step, the (ticket, amount) pairs granted to `p` (`grantsOf`), the tickets of `p` that failed
(`failsOf`) and the bytes released by `p` (`releasedSum`).
-/
namespace GS.MQ
open GS.Alloc

abbrev tot (a : Alloc.State) (p : Nat) : Nat := allocatedFor a p

def pendTA (a : Alloc.State) (p : Nat) : List (Nat × Nat) :=
  (pendingOf a p).map fun x => (x.ticket, x.amount)

def grantsOf (p : Nat) : List Alloc.Event → List (Nat × Nat)
  | [] => []
  | .granted q t a :: es => if q = p then (t, a) :: grantsOf p es else grantsOf p es
  | _ :: es => grantsOf p es

def failsOf (p : Nat) : List Alloc.Event → List Nat
  | [] => []
  | .failed q t :: es => if q = p then t :: failsOf p es else failsOf p es
  | _ :: es => failsOf p es

def amounts (l : List (Nat × Nat)) : Nat := sumNat (l.map (·.2))

theorem grantsOf_append (p : Nat) (e1 e2 : List Alloc.Event) :
    grantsOf p (e1 ++ e2) = grantsOf p e1 ++ grantsOf p e2 := by
  induction e1 with
  | nil => rfl
  | cons e es ih =>
    cases e <;> simp only [List.cons_append, grantsOf, ih]
    split <;> simp

theorem failsOf_append (p : Nat) (e1 e2 : List Alloc.Event) :
    failsOf p (e1 ++ e2) = failsOf p e1 ++ failsOf p e2 := by
  induction e1 with
  | nil => rfl
  | cons e es ih =>
    cases e <;> simp only [List.cons_append, failsOf, ih]
    split <;> simp

theorem amounts_append (a b : List (Nat × Nat)) : amounts (a ++ b) = amounts a + amounts b := by
  unfold amounts
  induction a with
  | nil => simp [sumNat]
  | cons x r ih => simp only [List.cons_append, List.map_cons, sumNat, List.foldr_cons] at ih ⊢; omega

theorem grantedSum_eq (p : Nat) (evs : List Alloc.Event) : grantedSum p evs = amounts (grantsOf p evs) := by
  induction evs with
  | nil => rfl
  | cons e es ih =>
    cases e with
    | granted q t a =>
      simp only [grantedSum, grantsOf, ih]
      split
      · simp [amounts, sumNat]
      · simp
    | failed q t => simpa [grantedSum, grantsOf] using ih
    | released q a => simpa [grantedSum, grantsOf] using ih
    | errNoPeer => simpa [grantedSum, grantsOf] using ih

theorem failsOf_map_failed (p q : Nat) (l : List Pending) :
    failsOf p (l.map fun pa => Alloc.Event.failed q pa.ticket) = if q = p then l.map (·.ticket) else [] := by
  induction l with
  | nil => simp [failsOf]
  | cons x r ih =>
    simp only [List.map_cons, failsOf, ih]
    split <;> simp

theorem grantsOf_map_failed (p q : Nat) (l : List Pending) :
    grantsOf p (l.map fun pa => Alloc.Event.failed q pa.ticket) = [] := by
  induction l with
  | nil => rfl
  | cons x r ih => simpa [grantsOf] using ih

section loop
variable {pick : Pick} (hp : Admissible pick)
include hp

/-- the wake-up loop grants a prefix of every peer's waiting list, with the waiting amounts -/
theorem processPending_grants {s : Alloc.State} (hw : WF s) (p : Nat) :
    grantsOf p (processPending pick s).2 ++
        (pendingIn (processPending pick s).1.peers p).map (fun x => (x.ticket, x.amount))
      = (pendingIn s.peers p).map (fun x => (x.ticket, x.amount)) ∧
    failsOf p (processPending pick s).2 = [] := by
  refine processPending_rec hp
    (motive := fun s r => grantsOf p r.2 ++ (pendingIn r.1.peers p).map (fun x => (x.ticket, x.amount))
        = (pendingIn s.peers p).map (fun x => (x.ticket, x.amount)) ∧ failsOf p r.2 = [])
    (fun _ _ _ => ⟨rfl, rfl⟩) ?_ s hw
  intro s s1 e r hw _ hl ih
  rcases loopStep_views hp hw hl with ⟨np, hd, rest, _, hpe, he, _, hpn⟩ | ⟨he, _, hpn⟩
  · rw [he]
    simp only [List.cons_append, List.nil_append, grantsOf, failsOf]
    rw [hpn p] at ih
    by_cases hq : np.id = p
    · subst hq
      simp only [if_true] at ih ⊢
      rw [hpe, List.map_cons, List.cons_append, ih.1]
      exact ⟨rfl, ih.2⟩
    · have : ¬ p = np.id := fun e => hq e.symm
      simp only [hq, this, if_false] at ih ⊢
      exact ih
  · rw [he, hpn p] at *; exact ih

end loop

/-- what one allocator call does, as seen by peer `p` -/
structure View (pick : Pick) (a : Alloc.State) (op : Alloc.Op) (p : Nat) : Prop where
  inv : Alloc.Inv (Alloc.step pick a op).1
  /-- conservation: new total + released = old total + granted -/
  ledger : tot (Alloc.step pick a op).1 p + releasedSum p (Alloc.step pick a op).2
      = tot a p + amounts (grantsOf p (Alloc.step pick a op).2)

theorem view {pick : Pick} (hp : Admissible pick) {a : Alloc.State} (h : Alloc.Inv a) (op : Alloc.Op) (p : Nat) :
    View pick a op p := by
  refine ⟨step_Inv hp h op, ?_⟩
  have h1 := run_ledger hp h [op] p
  have h2 := replayFrom_sums h1
  have e1 : (Alloc.run pick a [op]).1 = (Alloc.step pick a op).1 := rfl
  have e2 : (Alloc.run pick a [op]).2 = (Alloc.step pick a op).2 := by simp [Alloc.run]
  rw [e1, e2, grantedSum_eq] at h2
  show allocatedFor _ p + _ = allocatedFor a p + _
  omega

theorem releasedSum_grants_failed (p q : Nat) (l : List Pending) :
    releasedSum p (l.map fun pa => Alloc.Event.failed q pa.ticket) = 0 := by
  induction l with
  | nil => rfl
  | cons x r ih => simpa [releasedSum] using ih

theorem pendTA_eq (a : Alloc.State) (p : Nat) :
    pendTA a p = (pendingIn a.peers p).map (fun x => (x.ticket, x.amount)) := rfl

theorem releasedSum_grants {p : Nat} {evs : List Alloc.Event}
    (h : ∀ e ∈ evs, ∃ q t a, e = Alloc.Event.granted q t a) : releasedSum p evs = 0 := by
  induction evs with
  | nil => rfl
  | cons e es ih =>
    obtain ⟨q, t, a, rfl⟩ := h e (by simp)
    simp only [releasedSum]
    exact ih (fun e he => h e (List.mem_cons_of_mem _ he))

/-- `AllocateBlockMemory(p, n)` with ticket `t`, seen by `p` itself -/
theorem alloc_own {pick : Pick} {a : Alloc.State} (h : Alloc.Inv a) (p n t : Nat) :
    ((Alloc.step pick a (.alloc p n t)).2 = [Alloc.Event.granted p t n] ∧
      pendTA (Alloc.step pick a (.alloc p n t)).1 p = pendTA a p) ∨
    ((Alloc.step pick a (.alloc p n t)).2 = [] ∧
      pendTA (Alloc.step pick a (.alloc p n t)).1 p = pendTA a p ++ [(t, n)]) := by
  show ((alloc a p n t).2 = _ ∧ _) ∨ ((alloc a p n t).2 = _ ∧ _)
  have hs := alloc_spec h.wf p n t
  by_cases hc : pendingIn a.peers p = [] ∧ a.total + n ≤ a.maxTotal ∧ totalIn a.peers p + n ≤ a.maxPeer
  · obtain ⟨he, _, _, hpn⟩ := hs.1 hc
    left; refine ⟨he, ?_⟩
    show pendTA (alloc a p n t).1 p = _
    rw [pendTA_eq, pendTA_eq, hpn p]
  · obtain ⟨he, _, _, hpn⟩ := hs.2 hc
    right; refine ⟨he, ?_⟩
    show pendTA (alloc a p n t).1 p = _
    rw [pendTA_eq, pendTA_eq, hpn p]
    simp

/-- an allocation by another peer -/
theorem alloc_other {pick : Pick} {a : Alloc.State} (h : Alloc.Inv a) {p q : Nat} (hq : q ≠ p) (n t : Nat) :
    grantsOf p (Alloc.step pick a (.alloc q n t)).2 = [] ∧ failsOf p (Alloc.step pick a (.alloc q n t)).2 = [] ∧
    pendTA (Alloc.step pick a (.alloc q n t)).1 p = pendTA a p := by
  show grantsOf p (alloc a q n t).2 = [] ∧ failsOf p (alloc a q n t).2 = [] ∧ pendTA (alloc a q n t).1 p = _
  have hs := alloc_spec h.wf q n t
  have hpq : ¬ p = q := fun e => hq e.symm
  by_cases hc : pendingIn a.peers q = [] ∧ a.total + n ≤ a.maxTotal ∧ totalIn a.peers q + n ≤ a.maxPeer
  · obtain ⟨he, _, _, hpn⟩ := hs.1 hc
    rw [he, pendTA_eq, pendTA_eq, hpn p]
    simp [grantsOf, failsOf, hq]
  · obtain ⟨he, _, _, hpn⟩ := hs.2 hc
    rw [he, pendTA_eq, pendTA_eq, hpn p]
    simp [grantsOf, failsOf, hpq]

/-- `ReleaseBlockMemory(q, n)` -/
theorem release_view {pick : Pick} (hp : Admissible pick) {a : Alloc.State} (h : Alloc.Inv a) (p q n : Nat) :
    grantsOf p (Alloc.step pick a (.release q n)).2 ++ pendTA (Alloc.step pick a (.release q n)).1 p = pendTA a p ∧
    failsOf p (Alloc.step pick a (.release q n)).2 = [] ∧
    releasedSum p (Alloc.step pick a (.release q n)).2 = (if q = p then min n (tot a p) else 0) := by
  show grantsOf p (release pick a q n).2 ++ pendTA (release pick a q n).1 p = _ ∧
    failsOf p (release pick a q n).2 = [] ∧ releasedSum p (release pick a q n).2 = _
  rcases release_spec pick h.wf q n with ⟨hf, hr⟩ | ⟨st, s1, hf, hw1, hr, _, _, _, hpn⟩
  · rw [hr]
    refine ⟨by simp [grantsOf], by simp [failsOf], ?_⟩
    simp only [releasedSum]
    split
    · next hqp =>
      subst hqp
      have : tot a q = 0 := by show allocatedFor a q = 0; unfold allocatedFor; rw [hf]
      rw [this]; simp
    · rfl
  · rw [hr]
    have hg := processPending_grants hp hw1 p
    rw [hpn p] at hg
    refine ⟨?_, ?_, ?_⟩
    · simp only [grantsOf]; rw [pendTA_eq, pendTA_eq]; exact hg.1
    · simp only [failsOf]; exact hg.2
    · simp only [releasedSum]
      rw [releasedSum_grants (processPending_events hp hw1), Nat.add_zero]
      by_cases hqp : q = p
      · subst hqp; simp [tot, allocatedFor_eq]
      · simp [hqp]

/-- `ReleasePeerMemory(q)` of another peer -/
theorem releasePeer_other {pick : Pick} (hp : Admissible pick) {a : Alloc.State} (h : Alloc.Inv a)
    {p q : Nat} (hq : q ≠ p) :
    grantsOf p (Alloc.step pick a (.releasePeer q)).2 ++ pendTA (Alloc.step pick a (.releasePeer q)).1 p = pendTA a p ∧
    failsOf p (Alloc.step pick a (.releasePeer q)).2 = [] ∧
    releasedSum p (Alloc.step pick a (.releasePeer q)).2 = 0 := by
  show grantsOf p (releasePeer pick a q).2 ++ pendTA (releasePeer pick a q).1 p = _ ∧
    failsOf p (releasePeer pick a q).2 = [] ∧ releasedSum p (releasePeer pick a q).2 = _
  have hpq : ¬ p = q := fun e => hq e.symm
  rcases releasePeer_spec pick h.wf q with ⟨hf, hr⟩ | ⟨st, s1, hf, hw1, hr, _, _, _, _, hpn⟩
  · rw [hr]; simp [grantsOf, failsOf, releasedSum]
  · rw [hr]
    have hg := processPending_grants hp hw1 p
    rw [hpn p] at hg
    simp only [hpq, if_false] at hg
    dsimp only
    refine ⟨?_, ?_, ?_⟩
    · simp only [grantsOf, grantsOf_append, grantsOf_map_failed, List.nil_append]
      rw [pendTA_eq, pendTA_eq]; exact hg.1
    · simp only [failsOf, failsOf_append, failsOf_map_failed, hq, if_false, List.nil_append]; exact hg.2
    · simp only [releasedSum, releasedSum_append, hq, if_false, Nat.zero_add]
      rw [releasedSum_grants (processPending_events hp hw1), Nat.add_zero]
      apply releasedSum_grants_failed

/-- `ReleasePeerMemory(p)` seen by `p` -/
theorem releasePeer_own {pick : Pick} (hp : Admissible pick) {a : Alloc.State} (h : Alloc.Inv a) (p : Nat) :
    grantsOf p (Alloc.step pick a (.releasePeer p)).2 = [] ∧
    pendTA (Alloc.step pick a (.releasePeer p)).1 p = [] ∧
    failsOf p (Alloc.step pick a (.releasePeer p)).2 = (pendTA a p).map (·.1) ∧
    tot (Alloc.step pick a (.releasePeer p)).1 p = 0 := by
  show grantsOf p (releasePeer pick a p).2 = [] ∧ pendTA (releasePeer pick a p).1 p = [] ∧
    failsOf p (releasePeer pick a p).2 = _ ∧ allocatedFor (releasePeer pick a p).1 p = 0
  rcases releasePeer_spec pick h.wf p with ⟨hf, hr⟩ | ⟨st, s1, hf, hw1, hr, _, _, hnone, _, hpn⟩
  · rw [hr]
    have h1 : pendTA a p = [] := by unfold pendTA pendingOf; rw [hf]; rfl
    have h2 : allocatedFor a p = 0 := by unfold allocatedFor; rw [hf]
    simp [grantsOf, failsOf, h1, h2]
  · rw [hr]
    have hg := processPending_grants hp hw1 p
    rw [hpn p] at hg
    simp only [if_true] at hg
    have habs := processPending_absent hp hw1 hnone
    have hpend : pendingIn (processPending pick s1).1.peers p = [] := by unfold pendingIn; rw [habs.1]
    have hgr : grantsOf p (processPending pick s1).2 = [] := by
      have := hg.1; rw [hpend] at this; simpa using this
    dsimp only
    refine ⟨?_, ?_, ?_, ?_⟩
    · simp only [grantsOf, grantsOf_append, grantsOf_map_failed, List.nil_append]; exact hgr
    · rw [pendTA_eq, hpend]; rfl
    · simp only [failsOf, failsOf_append, failsOf_map_failed, if_true, hg.2, List.append_nil]
      rw [pendTA_eq, List.map_map]; rfl
    · unfold allocatedFor; rw [habs.1]

end GS.MQ
