import GS.Model.TaskQueue
/-!
# C21 — Work limits are respected and every queued request eventually runs
-/
namespace GS.C21
open GS.TQ

theorem step_workers_length {s s' : Sys} {a : Act} (h : step s a = some s') :
    s'.workers.length = s.workers.length := by
  cases a <;> simp only [step] at h
  all_goals (try split at h) <;> (try split at h) <;> simp_all [Sys.popFor] <;> (try (subst h; simp))

end GS.C21
