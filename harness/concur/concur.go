// Package concur: component "concur" (property C20 — concurrent requests between two peers each
// retrieve completely).
//
// 2–3 requests in flight at once from one real requestor node to one real responder node (package
// twonode) over overlapping DAGs: every request is a (root block, selector) pair over ONE generated
// DAG, so sub-DAGs are shared, one request's DAG can be contained in another's, and the same root
// can be asked for with different selectors.  The relative speed of the requests is controlled by
// gates: the requestor's block hook per request, the responder's store read per request, and the
// requestor's store-write commit of one chosen block.  The scheduler (seeded, weighted) picks one
// enabled action at every globally quiescent point.
//
//	case <id> dag=<seed>:<maxblocks> q=<root>:<sel>,<root>:<sel>[,<root>:<sel>] start=<step>,<step>[,<step>]
//	          sched=<seed> w=<dq>,<dr>,<ww> wr=<r0>,<r1>[,<r2>] ws=<s0>,<s1>[,<s2>] qg=<bits> sg=<bits>
//	          wg=<block|-> dedup=none|same|distinct [keys=<k|->,…] [ign=<c+c|->,…] [skip=<n>,…] [cancel=<k>,…] [peers=<bits>]
//	          (keys: dedup-by-key per request, overrides dedup=; ign: do-not-send-cids per request; skip: user
//	          do-not-send-first-blocks per request; cancel k>0: the requestor fails request i from its block hook
//	          at block k; start value 9999 = when every earlier request has ended and the network is drained)
//	            (bit i = 1: request i is issued by a SECOND requestor peer)
//	          [shape=twin]  the DAG is dag.GenTwin(<seed>): two sub-DAGs without a common CID that overlap in one
//	          leaf's BYTES, linked as CIDv1/raw on one side and as CIDv1/dag-cbor (same multihash) on the other
//	remote <cids|->      responder's store
//	put <cid> …          requestor's store
//	run                  -> one summary line
//
// Oracle (from the property text): every request delivers the same nodes, reports the same
// missing-block errors and the requestor ends up storing the same blocks as when each request is run
// alone between two fresh nodes with the same stores (the solo runs happen in the same process).
package concur

import (
	"bufio"
	"bytes"
	"errors"
	"fmt"
	"io"
	"math/rand"
	"os"
	"os/exec"
	"runtime"
	"sort"
	"strconv"
	"strings"
	"time"

	"github.com/ipfs/go-cid"
	"github.com/ipfs/go-graphsync"
	"github.com/ipfs/go-graphsync/cidset"
	"github.com/ipfs/go-graphsync/dedupkey"
	"github.com/ipfs/go-graphsync/donotsendfirstblocks"

	"verifharness/dag"
	"verifharness/quiesce"
	"verifharness/reg"
	tn "verifharness/twonode"
)

func init() {
	reg.Register(&reg.Component{Name: "concur", Gen: Gen, Run: Run})
}

type QSpec struct {
	Root int
	Sel  string
}

type Params struct {
	Seed   int64
	MB     int
	Q      []QSpec
	Start  []int
	Sched  int64
	W      [3]int // dq, dr, write-gate release
	WR, WS []int
	QG, SG []bool
	WG     int // block whose first store write parks (-1 none)
	Dedup  string
	Keys   []string // dedup-by-key value per request ("" = none); nil = derive from Dedup
	Ign    [][]int  // do-not-send-cids per request
	Skip   []int    // user do-not-send-first-blocks per request
	Cancel []int    // 0<k<100: the requestor's block hook terminates request i with an error at block k; 100+k: the hook PAUSES
	// request i at block k (PauseRequest), it is never resumed: the harness cancels it once everything else has ended
	Peers []int  // issuing requestor of each request: 0 = node A, 1 = node B (a second requestor peer)
	Shape string // "" = dag.Gen(seed, mb); "twin" = dag.GenTwin(seed)
}

// worldOf: the case's DAG
func worldOf(p Params) *tn.World {
	if p.Shape == "twin" {
		d, _, _ := dag.GenTwin(rand.New(rand.NewSource(p.Seed)))
		return tn.NewWorldOf(d)
	}
	w, _ := tn.NewWorld(p.Seed, p.MB)
	return w
}

func bits(s string, n int) ([]bool, bool) {
	if len(s) != n {
		return nil, false
	}
	out := make([]bool, n)
	for i, c := range s {
		if c != '0' && c != '1' {
			return nil, false
		}
		out[i] = c == '1'
	}
	return out, true
}

func parseHeader(h string) (Params, bool) {
	p := Params{W: [3]int{1, 1, 1}, WG: -1, Dedup: "none"}
	okDag := false
	f := strings.Fields(h)
	if len(f) < 3 {
		return p, false
	}
	kvs := map[string]string{}
	for _, t := range f[2:] {
		kv := strings.SplitN(t, "=", 2)
		if len(kv) != 2 {
			return p, false
		}
		kvs[kv[0]] = kv[1]
	}
	if v, ok := kvs["dag"]; ok {
		g := strings.Split(v, ":")
		if len(g) == 2 {
			s, e1 := strconv.ParseInt(g[0], 10, 64)
			m, e2 := strconv.Atoi(g[1])
			if e1 == nil && e2 == nil && m >= 1 && m <= 30 {
				p.Seed, p.MB, okDag = s, m, true
			}
		}
	}
	for _, t := range strings.Split(kvs["q"], ",") {
		g := strings.SplitN(t, ":", 2)
		if len(g) != 2 {
			return p, false
		}
		r, err := strconv.Atoi(g[0])
		if err != nil || r < 0 {
			return p, false
		}
		p.Q = append(p.Q, QSpec{r, g[1]})
	}
	n := len(p.Q)
	if n < 1 || n > 3 {
		return p, false
	}
	ints := func(key string, def int) ([]int, bool) {
		v, ok := kvs[key]
		if !ok {
			out := make([]int, n)
			for i := range out {
				out[i] = def
			}
			return out, true
		}
		l, ok := tn.ParseInts(v)
		return l, ok && len(l) == n
	}
	var ok bool
	if p.Start, ok = ints("start", 0); !ok {
		return p, false
	}
	if p.WR, ok = ints("wr", 1); !ok {
		return p, false
	}
	if p.WS, ok = ints("ws", 1); !ok {
		return p, false
	}
	if v, has := kvs["w"]; has {
		l, ok := tn.ParseInts(v)
		if !ok || len(l) != 3 {
			return p, false
		}
		copy(p.W[:], l)
	}
	z := strings.Repeat("0", n)
	get := func(k string) string {
		if v, has := kvs[k]; has {
			return v
		}
		return z
	}
	if p.QG, ok = bits(get("qg"), n); !ok {
		return p, false
	}
	if p.SG, ok = bits(get("sg"), n); !ok {
		return p, false
	}
	if v, has := kvs["wg"]; has && v != "-" {
		x, err := strconv.Atoi(v)
		if err != nil || x < 0 {
			return p, false
		}
		p.WG = x
	}
	if v, has := kvs["sched"]; has {
		x, err := strconv.ParseInt(v, 10, 64)
		if err != nil {
			return p, false
		}
		p.Sched = x
	}
	p.Ign = make([][]int, n)
	p.Skip = make([]int, n)
	p.Cancel = make([]int, n)
	if v, has := kvs["keys"]; has {
		f := strings.Split(v, ",")
		if len(f) != n {
			return p, false
		}
		p.Keys = make([]string, n)
		for i, x := range f {
			if x != "-" {
				p.Keys[i] = x
			}
		}
	}
	if v, has := kvs["ign"]; has {
		f := strings.Split(v, ",")
		if len(f) != n {
			return p, false
		}
		for i, x := range f {
			if x == "-" {
				continue
			}
			for _, t := range strings.Split(x, "+") {
				c, err := strconv.Atoi(t)
				if err != nil || c < 0 {
					return p, false
				}
				p.Ign[i] = append(p.Ign[i], c)
			}
		}
	}
	if _, has := kvs["skip"]; has {
		if p.Skip, ok = ints("skip", 0); !ok {
			return p, false
		}
	}
	if _, has := kvs["cancel"]; has {
		if p.Cancel, ok = ints("cancel", 0); !ok {
			return p, false
		}
	}
	p.Peers = make([]int, n)
	if v, has := kvs["peers"]; has {
		b, ok := bits(v, n)
		if !ok {
			return p, false
		}
		for i, x := range b {
			if x {
				p.Peers[i] = 1
			}
		}
	}
	if v, has := kvs["shape"]; has {
		if v != "twin" {
			return p, false
		}
		p.Shape = v
	}
	if v, has := kvs["dedup"]; has {
		if v != "none" && v != "same" && v != "distinct" {
			return p, false
		}
		p.Dedup = v
	}
	return p, okDag
}

// ---------------------------------------------------------------- runs

type runOut struct {
	res        []tn.Result
	store      []int // requestor A's store afterwards
	storeB     []int // requestor B's store afterwards
	hang       string
	sim        *tn.Sim
	steps      int
	startStore map[int][]int // requestor store (of the issuing node) at the moment request i was started
}

func dedupExt(key string) graphsync.ExtensionData {
	d, err := dedupkey.EncodeDedupKey(key)
	if err != nil {
		panic(err)
	}
	return graphsync.ExtensionData{Name: graphsync.ExtensionDeDupByKey, Data: d}
}

// run the requests `which` (indices into qs) concurrently under the case's schedule (solo = free run)
func runSet(w *tn.World, qs []*tn.Query, which []int, loc, rem []int, p Params, solo bool) *runOut {
	return runSetAt(w, qs, which, loc, loc, rem, p, solo)
}

// runSetAt: locA / locB = initial stores of the two requestor nodes
func runSetAt(w *tn.World, qs []*tn.Query, which []int, locA, locB, rem []int, p Params, solo bool) *runOut {
	loc := locA
	withB := false
	for _, qi := range which {
		if p.Peers[qi] == 1 {
			withB = true
		}
	}
	s := tn.NewSimB(w, loc, rem, locB, withB, len(which))
	ro := &runOut{sim: s}
	var rr []*tn.ReqRun
	for k, qi := range which {
		var exts []graphsync.ExtensionData
		key := ""
		if p.Keys != nil {
			key = p.Keys[qi]
		} else {
			switch p.Dedup {
			case "same":
				key = "shared"
			case "distinct":
				key = fmt.Sprintf("key-%d", qi)
			}
		}
		if key != "" {
			exts = append(exts, dedupExt(key))
		}
		if len(p.Ign[qi]) > 0 {
			set := cid.NewSet()
			for _, c := range p.Ign[qi] {
				if c < len(w.D.Cids) {
					set.Add(w.D.Cids[c])
				}
			}
			exts = append(exts, graphsync.ExtensionData{Name: graphsync.ExtensionDoNotSendCIDs, Data: cidset.EncodeCidSet(set)})
		}
		if p.Skip[qi] > 0 {
			exts = append(exts, graphsync.ExtensionData{Name: graphsync.ExtensionsDoNotSendFirstBlocks, Data: donotsendfirstblocks.EncodeDoNotSendFirstBlocks(int64(p.Skip[qi]))})
		}
		node := tn.NodeA
		if p.Peers[qi] == 1 {
			node = tn.NodeB
		}
		r := s.AddRequestAt(node, qs[qi], exts...)
		if len(p.Ign[qi]) > 0 || p.Skip[qi] > 0 {
			// the request vouches for blocks (do-not-send-cids / do-not-send-first-blocks): it holds them in
			// a store of its own (persistence option; its dedup key is then the option's name)
			var held []int
			held = append(held, p.Ign[qi]...)
			// do-not-send-first-blocks k: the request vouches for the first k blocks the RESPONDER would
			// send (its own traversal over its own store), not for the first k links of the full DAG — a
			// locally held prefix the responder cannot follow is C02's skip-prefix-mismatch, in the solo
			// run as well
			remS := map[int]bool{}
			for _, b := range rem {
				remS[b] = true
			}
			nodes, present := qs[qi].ResponderStream(remS)
			succ := 0
			for i, nd := range nodes {
				if succ >= p.Skip[qi] {
					break
				}
				if present[i] {
					held = append(held, qs[qi].LT[nd].Block)
					succ++
				}
			}
			name := fmt.Sprintf("alt%d", qi)
			if err := s.AddAltStore(node, name, held); err == nil {
				r.PO = name
			}
		}
		rr = append(rr, r)
		if !solo {
			s.ReqHookGate[k].Enable(p.QG[qi])
			s.RespReadGate[k].Enable(p.SG[qi])
		}
	}
	if !solo && p.WG >= 0 {
		g := &tn.Gate{Name: "w"}
		g.Enable(true)
		s.WriteGate[p.WG] = g
	}
	s.OnReqBlock = func(r *tn.ReqRun, nth int, bd graphsync.BlockData, ha graphsync.IncomingBlockHookActions) {
		if k := p.Cancel[which[r.Idx]]; k > 0 && k < 100 && nth == k {
			ha.TerminateWithError(errors.New("stopped by the requestor's block hook"))
		} else if k >= 100 && nth == k-100 {
			ha.PauseRequest()
		}
	}
	ro.startStore = map[int][]int{}
	pausedCancelled := map[int]bool{}
	rng := rand.New(rand.NewSource(p.Sched))
	for step := 0; ; step++ {
		for k, r := range rr {
			if r.Started {
				continue
			}
			ok := solo || step >= p.Start[which[k]]
			if !solo && p.Start[which[k]] == 9999 {
				// after every earlier request has ended and nothing is in flight any more
				ok = s.InFlight(0)+s.InFlight(1)+s.InFlight(2)+s.InFlight(3) == 0
				s.Locked(func() {
					for j := 0; j < k; j++ {
						if !rr[j].Started || !rr[j].Closed() {
							ok = false
						}
					}
				})
			}
			if ok {
				ro.startStore[which[k]] = s.StoreKeys(r.Node)
				s.Start(r)
				s.Quiesce()
			}
		}
		s.Quiesce()
		ro.steps = step
		allDone, allStarted := true, true
		s.Locked(func() {
			for _, r := range rr {
				if !r.Started {
					allStarted = false
				}
				if !r.Closed() {
					allDone = false
				}
			}
		})
		type act struct {
			w int
			f func()
		}
		var en []act
		for _, d := range []int{0, 2} {
			d := d
			if s.InFlight(d) > 0 {
				en = append(en, act{p.W[0], func() { s.Deliver(d) }})
			}
		}
		for _, d := range []int{1, 3} {
			d := d
			if s.InFlight(d) > 0 {
				en = append(en, act{p.W[1], func() { s.Deliver(d) }})
			}
		}
		for k := range rr {
			k := k
			if s.ReqHookGate[k].Waiting() > 0 {
				en = append(en, act{p.WR[which[k]], func() { s.ReqHookGate[k].Release() }})
			}
			if s.RespReadGate[k].Waiting() > 0 {
				en = append(en, act{p.WS[which[k]], func() { s.RespReadGate[k].Release() }})
			}
		}
		for _, g := range s.WriteGate {
			g := g
			if g.Waiting() > 0 {
				// the gate holds the FIRST write of the block only
				en = append(en, act{p.W[2], func() { g.Enable(false) }})
			}
		}
		if len(en) == 0 {
			if !allStarted {
				continue
			}
			if !allDone {
				// requests paused on purpose by the requestor's hook are ended by their caller now
				cancelled := false
				s.Locked(func() {
					for _, r := range rr {
						if !r.Closed() && p.Cancel[which[r.Idx]] >= 100 && !pausedCancelled[r.Idx] {
							pausedCancelled[r.Idx] = true
							cancelled = true
							r.CancelByCaller()
						}
					}
				})
				if cancelled {
					s.Quiesce()
					continue
				}
				var open []string
				s.Locked(func() {
					for _, r := range rr {
						if !r.Closed() {
							open = append(open, fmt.Sprintf("r%d(state %d)", which[r.Idx], s.RequestorState(r)))
						}
					}
				})
				ro.hang = fmt.Sprintf("nothing left to do at step %d but the channels of %s are still open", step, strings.Join(open, ","))
			}
			break
		}
		if allDone && allStarted && s.InFlight(0)+s.InFlight(1)+s.InFlight(2)+s.InFlight(3) == 0 {
			break
		}
		total := 0
		for _, a := range en {
			total += a.w
		}
		var pick act
		if total == 0 {
			pick = en[rng.Intn(len(en))]
		} else {
			x := rng.Intn(total)
			for _, a := range en {
				if x < a.w {
					pick = a
					break
				}
				x -= a.w
			}
		}
		pick.f()
		if step > 20000 {
			ro.hang = "more than 20000 scheduler steps"
			break
		}
	}
	for _, r := range rr {
		ro.res = append(ro.res, s.ResultOf(r))
	}
	ro.store = s.StoreKeys(tn.NodeA)
	ro.storeB = s.StoreKeys(tn.NodeB)
	s.Close()
	return ro
}

// ---------------------------------------------------------------- oracle

// sharedRace: the known-finding input class of C20, decided from the harness's own event log:
// some block X was transmitted by the responder under request A (outgoing-block hook of A for X with
// bytes on the wire), afterwards reported to another request B as present WITHOUT bytes (outgoing-block
// hook of B for X, nothing on the wire: cross-request deduplication), and after that a load of X on
// the requestor was answered from the local store — which did not hold X — before the first store
// write of X was committed (A had not stored its copy yet).  Returns a description or "".
// raceHit: block X went on the wire under request A only, request B was told present-without-bytes, and
// a load of X at traversal path Path was answered from the local store, which did not hold X yet.  The
// requestor's store reads do not carry a request ID (the request manager builds its own contexts), so
// the read is attributed to B through the path: B must report exactly `missing:X:Path` (raceExplains);
// another request's ordinary first miss of X fetches the block and reports nothing.
type raceHit struct {
	X, A, B int
	Path    string
	Desc    string
}

func sharedRace(s *tn.Sim, nodeOf func(req int) int) []raceHit {
	var hits []raceHit
	var log []tn.Event
	s.Locked(func() { log = append(log, s.Log...) })
	type hk struct{ req, seq int }
	wire := map[int][]hk{}         // block -> (request, seq) of hooks with bytes on the wire
	nowire := map[int][]hk{}       // block -> (request, seq) of hooks without
	firstWrite := map[[2]int]int{} // (node, block) -> seq of the first committed write
	for _, e := range log {
		switch e.Kind {
		case tn.EvRespHook:
			if e.OnWire {
				wire[e.Cid] = append(wire[e.Cid], hk{e.Req, e.Seq})
			} else {
				nowire[e.Cid] = append(nowire[e.Cid], hk{e.Req, e.Seq})
			}
		case tn.EvWrite:
			if e.Side != tn.NodeResp {
				if _, ok := firstWrite[[2]int{e.Side, e.Cid}]; !ok {
					firstWrite[[2]int{e.Side, e.Cid}] = e.Seq
				}
			}
		}
	}
	// the moment each request ended on the responder: its terminal status handed to the network, or
	// the last thing its executor did after the requestor's cancel arrived
	endSeq := map[int]int{}
	for _, e := range log {
		if e.Pkt == nil {
			continue
		}
		if e.Kind == tn.EvSend && e.Side == tn.NodeResp {
			for _, r := range e.Pkt.Resps {
				if r.Status.IsTerminal() {
					if _, ok := endSeq[r.Req]; !ok {
						endSeq[r.Req] = e.Seq
					}
				}
			}
		}
		if e.Kind == tn.EvDeliver && (e.Pkt.Dir == 0 || e.Pkt.Dir == 2) {
			for _, q := range e.Pkt.Reqs {
				if q.Type == graphsync.RequestTypeCancel {
					if _, ok := endSeq[q.Req]; !ok {
						end := e.Seq
						for _, f := range log {
							if f.Seq > e.Seq && f.Side == tn.NodeResp && f.Req == q.Req && (f.Kind == tn.EvRead || f.Kind == tn.EvRespHook) {
								end = f.Seq
							}
						}
						endSeq[q.Req] = end
					}
				}
			}
		}
	}
	for _, e := range log {
		if e.Kind != tn.EvRead || e.Side == tn.NodeResp || e.OK {
			continue
		}
		x := e.Cid
		if fw, ok := firstWrite[[2]int{e.Side, x}]; ok && fw < e.Seq {
			continue
		}
		for _, b := range nowire[x] {
			if b.seq > e.Seq {
				continue
			}
			for _, a := range wire[x] {
				live := true
				if es, ok := endSeq[a.req]; ok && es < b.seq {
					live = false // A had already ended on the responder: withholding is not the known de-duplication
				}
				if a.req != b.req && a.seq < b.seq && live && nodeOf(a.req) == e.Side && nodeOf(b.req) == e.Side {
					hits = append(hits, raceHit{X: x, A: a.req, B: b.req, Path: e.Note, Desc: fmt.Sprintf("block %d went on the wire under r%d (seq %d), r%d was then told present-without-bytes (seq %d) and a load of it at path %q hit the local store (seq %d) before r%d's copy was stored", x, a.req, a.seq, b.req, b.seq, e.Note, e.Seq, a.req)})
				}
			}
		}
	}
	return hits
}

// raceExplains: request i's deviation from its solo run is the documented effect of a race on block X:
// it reports X missing (its subtree is skipped; a RemoteIncorrectResponseError may follow because the
// responder did follow the link), it delivers a sub-sequence of its solo nodes and nothing else.
func raceExplains(hits []raceHit, i int, solo, conc tn.Result) string {
	j := 0
	for _, n := range conc.Nodes {
		for j < len(solo.Nodes) && solo.Nodes[j] != n {
			j++
		}
		if j == len(solo.Nodes) {
			return ""
		}
		j++
	}
	have := map[string]bool{}
	for _, e := range solo.Missing {
		have[e] = true
	}
	for _, h := range hits {
		if h.B != i {
			continue
		}
		for _, e := range conc.Missing {
			if !have[e] && e == fmt.Sprintf("missing:%d:%s", h.X, h.Path) {
				return h.Desc
			}
		}
	}
	return ""
}

func c02Class(q *tn.Query, locS, remS map[int]bool) string {
	ref := q.RefTrav(locS, remS)
	pos, n := -1, 0
	for i, st := range ref {
		if !locS[q.LT[st.Node].Block] {
			pos = i
			break
		}
		n++
	}
	if pos < 0 || n == 0 {
		return ""
	}
	if !remS[q.LT[0].Block] {
		return "concurrent-root-not-found-abort"
	}
	lacks := false
	for i := 0; i < pos; i++ {
		if !remS[q.LT[ref[i].Node].Block] {
			lacks = true
		}
	}
	if !lacks {
		return ""
	}
	nodes, _ := q.ResponderStream(remS)
	for i, nd := range nodes {
		if i >= n {
			break
		}
		if nd >= ref[pos].Node {
			return "concurrent-skip-prefix-mismatch"
		}
	}
	return ""
}

func union(a, b []int) []int {
	m := map[int]bool{}
	for _, x := range a {
		m[x] = true
	}
	for _, x := range b {
		m[x] = true
	}
	var out []int
	for x := range m {
		out = append(out, x)
	}
	sort.Ints(out)
	return out
}

// ---------------------------------------------------------------- run

// Run: the cases are executed in a supervised child process (`gs-concur child`), one at a time: a panic
// that escapes the real code's recover frames (and kills the process) becomes an oracle failure of the
// case that caused it instead of taking the whole stream down.
func Run(cases []reg.Case, out *reg.Out) {
	var ch *child
	defer func() {
		if ch != nil {
			ch.stop()
		}
	}()
	for _, c := range cases {
		if ch == nil {
			var err error
			ch, err = startChild()
			if err != nil {
				// no supervision possible: run in-process
				runtime.GOMAXPROCS(1)
				tn.QuietLogs()
				out.BeginCase(c)
				runCase(c, out)
				continue
			}
		}
		ok, sawHeader, sawFail := ch.runOne(c, out)
		if !ok {
			if !sawHeader {
				fmt.Fprintln(out.W, c.Header)
			}
			if !sawFail {
				fmt.Fprintf(out.W, "#oracle case=%s FAIL class=crash the process running the two nodes died while executing this case: %s\n", c.ID, ch.lastStderr())
			}
			ch.stop()
			ch = nil
		}
		out.W.Flush()
	}
}

type child struct {
	cmd    *exec.Cmd
	in     io.WriteCloser
	out    *bufio.Reader
	errBuf *bytes.Buffer
}

func startChild() (*child, error) {
	cmd := exec.Command(os.Args[0], "child")
	in, err := cmd.StdinPipe()
	if err != nil {
		return nil, err
	}
	op, err := cmd.StdoutPipe()
	if err != nil {
		return nil, err
	}
	eb := &bytes.Buffer{}
	cmd.Stderr = eb
	if err := cmd.Start(); err != nil {
		return nil, err
	}
	return &child{cmd: cmd, in: in, out: bufio.NewReaderSize(op, 1<<20), errBuf: eb}, nil
}

func (c *child) stop() {
	c.in.Close()
	_ = c.cmd.Process.Kill()
	_ = c.cmd.Wait()
}

func (c *child) lastStderr() string {
	t := c.errBuf.String()
	for _, l := range strings.Split(t, "\n") {
		if strings.HasPrefix(l, "panic:") || strings.HasPrefix(l, "fatal error:") {
			return strings.TrimSpace(l)
		}
	}
	if len(t) > 200 {
		t = t[len(t)-200:]
	}
	return strings.ReplaceAll(strings.TrimSpace(t), "\n", " | ")
}

// runOne feeds one case to the child and relays its output; ok=false if the child died
func (c *child) runOne(cs reg.Case, out *reg.Out) (ok, sawHeader, sawFail bool) {
	var sb strings.Builder
	sb.WriteString(cs.Header + "\n")
	for _, op := range cs.Ops {
		sb.WriteString(strings.Join(op, " ") + "\n")
	}
	sb.WriteString("#end\n")
	if _, err := io.WriteString(c.in, sb.String()); err != nil {
		return false, false, false
	}
	for {
		line, err := c.out.ReadString('\n')
		if strings.HasSuffix(line, "\n") {
			l := strings.TrimRight(line, "\n")
			if l == "#done" {
				return true, sawHeader, sawFail
			}
			if strings.HasPrefix(l, "case ") {
				sawHeader = true
			}
			if strings.HasPrefix(l, "#oracle ") {
				sawFail = true
			}
			if l != "" {
				fmt.Fprintln(out.W, l)
			}
		}
		if err != nil {
			return false, sawHeader, sawFail
		}
	}
}

// Child is the supervised worker: cases arrive on stdin, each terminated by a line `#end`; the output
// of a case (its lines, oracle verdicts and coverage counters) is followed by a line `#done`.
func Child() {
	runtime.GOMAXPROCS(1)
	tn.QuietLogs()
	in := bufio.NewReaderSize(os.Stdin, 1<<20)
	w := bufio.NewWriterSize(os.Stdout, 1<<20)
	var buf strings.Builder
	for {
		line, err := in.ReadString('\n')
		if strings.TrimSpace(line) == "#end" {
			cases, _ := reg.ReadCases(strings.NewReader(buf.String()))
			buf.Reset()
			for _, c := range cases {
				o := reg.NewOut(w)
				o.BeginCase(c)
				wd := quiesce.NewWatch(5*time.Minute, 30*time.Second, time.Hour,
					func(d string) {
						fmt.Fprintf(os.Stdout, "\n#oracle case=%s FAIL class=hang watchdog: %s\n", c.ID, d)
						os.Exit(3)
					},
					func(d string) {
						fmt.Fprintf(os.Stdout, "\n#oracle case=%s FAIL class=harness-timeout watchdog: %s\n", c.ID, d)
						os.Exit(3)
					})
				runCase(c, o)
				wd.Stop()
				o.Finish()
			}
			fmt.Fprintln(w, "#done")
			w.Flush()
		} else {
			buf.WriteString(line)
		}
		if err != nil {
			return
		}
	}
}

func runCase(c reg.Case, out *reg.Out) {
	p, ok := parseHeader(c.Header)
	var w *tn.World
	var qs []*tn.Query
	if ok {
		w = worldOf(p)
		for _, qsx := range p.Q {
			sel, sok := tn.SelectorByName(qsx.Sel)
			if !sok || qsx.Root >= len(w.D.Cids) {
				ok = false
				break
			}
			q, err := w.NewQuery(qsx.Root, qsx.Sel, sel)
			if err != nil {
				ok = false
				break
			}
			qs = append(qs, q)
		}
		if p.WG >= len(w.D.Cids) {
			ok = false
		}
	}
	if !ok {
		for range c.Ops {
			out.Line("bad-case")
		}
		return
	}
	var loc, rem []int
	ran := false
	nLT := 0
	for _, op := range c.Ops {
		switch op[0] {
		case "lt":
			// link tree of one request: input of the composed model (gsm-concur) only
			if ran || len(op) < 4 {
				out.Line("bad-op")
				continue
			}
			nLT++
			out.Line("-")
		case "put", "remote":
			var l []int
			good := !ran
			if op[0] == "put" {
				for _, t := range op[1:] {
					n, err := strconv.Atoi(t)
					if err != nil {
						good = false
					}
					l = append(l, n)
				}
			} else if len(op) == 2 {
				var g bool
				l, g = tn.ParseInts(op[1])
				good = good && g
			} else {
				good = false
			}
			for _, n := range l {
				if n < 0 || n >= len(w.D.Cids) {
					good = false
				}
			}
			if !good {
				out.Line("bad-op")
				continue
			}
			if op[0] == "put" {
				loc = append(loc, l...)
			} else {
				rem = append(rem, l...)
			}
			out.Line("ok")
		case "run":
			if ran || len(op) != 1 {
				out.Line("bad-op")
				continue
			}
			ran = true
			judgeCase(out, w, qs, loc, rem, p, nLT > 0)
		default:
			out.Line("bad-op")
		}
	}
}

// comparable: the case profile in which the composed model GS.Concurrent predicts the result whatever the
// schedule (GS.C20.shared_store_result_reference): every request with a dedup key of its own over the shared
// default store, all issued at once over the initial store, requestor store ⊆ responder store, no other
// extension, no requestor-side failure, one requestor.
func comparable(p Params, loc, rem []int) bool {
	if p.Dedup != "distinct" || p.Keys != nil {
		return false
	}
	for i := range p.Q {
		if len(p.Ign[i]) > 0 || p.Skip[i] != 0 || p.Cancel[i] != 0 || p.Peers[i] != 0 || p.Start[i] != 0 {
			return false
		}
	}
	remS := tn.SetOf(rem)
	for _, b := range loc {
		if !remS[b] {
			return false
		}
	}
	return true
}

func judgeCase(out *reg.Out, w *tn.World, qs []*tn.Query, loc, rem []int, p Params, haveLT bool) {
	n := len(qs)
	all := make([]int, n)
	for i := range all {
		all[i] = i
	}
	conc := runSet(w, qs, all, loc, rem, p, false)
	var solo []*runOut
	soloStore := append([]int{}, loc...)
	sort.Ints(soloStore)
	soloStoreB := append([]int{}, soloStore...)
	anyB := false
	anyCancel, anyAfter := false, false
	for i := 0; i < n; i++ {
		if len(p.Ign[i]) > 0 || p.Skip[i] > 0 {
			anyAfter = true // own store: the default store's content is not comparable
		}
	}
	for i := 0; i < n; i++ {
		la, lb := loc, loc
		if p.Start[i] == 9999 {
			anyAfter = true
			if st, ok := conc.startStore[i]; ok {
				// the request was issued after the earlier ones had ended: alone, it starts from the
				// store they left behind
				if p.Peers[i] == 1 {
					lb = st
				} else {
					la = st
				}
			}
		}
		if p.Cancel[i] != 0 {
			anyCancel = true
		}
		so := runSetAt(w, qs, []int{i}, la, lb, rem, p, true)
		solo = append(solo, so)
		if p.Peers[i] == 1 {
			anyB = true
			soloStoreB = union(soloStoreB, so.storeB)
		} else {
			soloStore = union(soloStore, so.store)
		}
	}
	if anyB {
		out.Cov("two-requestors")
	}
	if os.Getenv("GS_TRACE") != "" {
		for _, l := range conc.sim.Dump() {
			fmt.Fprintln(out.W, "#trace conc", l)
		}
	}
	locS, remS := tn.SetOf(loc), tn.SetOf(rem)
	sub := true
	for k := range locS {
		if !remS[k] {
			sub = false
		}
	}
	out.Cov("dedup." + p.Dedup)
	if p.Shape != "" {
		out.Cov("shape." + p.Shape)
		twinCov(out, conc.sim, w, p)
	}
	out.Cov(fmt.Sprintf("requests.%d", n))
	race := sharedRace(conc.sim, func(req int) int {
		if req >= 0 && req < n && p.Peers[req] == 1 {
			return tn.NodeB
		}
		return tn.NodeA
	})
	if len(race) > 0 {
		out.Cov("shared-race")
		out.Cov("shared-race." + p.Dedup)
	}
	// C02's input classes (a request's own local prefix is not held by the responder): the SOLO run of
	// such a request is itself the subject of C02's finding, no verdict about concurrency
	c02 := ""
	for _, q := range qs {
		if c := c02Class(q, locS, remS); c != "" && c02 == "" {
			c02 = c
		}
	}
	summary := func() {
		var parts []string
		for i := 0; i < n; i++ {
			parts = append(parts, fmt.Sprintf("r%d nodes=%d/%d miss=%d/%d", i, len(conc.res[i].Nodes), len(solo[i].res[0].Nodes), len(conc.res[i].Missing), len(solo[i].res[0].Missing)))
		}
		fmt.Fprintf(out.W, "#summary %s store=%s solo-store=%s steps=%d\n", strings.Join(parts, " "), tn.FmtInts(conc.store), tn.FmtInts(soloStore), conc.steps)
		// the line compared with the composed model (gsm-concur)
		if !haveLT || !comparable(p, loc, rem) {
			out.Line("skip")
			return
		}
		out.Cov("model-compared")
		var mp []string
		for i := 0; i < n; i++ {
			mp = append(mp, fmt.Sprintf("r%d nodes=%d miss=%d", i, len(conc.res[i].Nodes), len(conc.res[i].Missing)))
		}
		st := tn.FmtInts(conc.store)
		if st == "" {
			st = "-"
		}
		out.Line("%s store=%s", strings.Join(mp, " "), st)
	}
	// ---- the solo runs: a failure here is never a known finding of C20 (impossible on the unchanged
	// tree outside C02's input classes)
	for i, so := range solo {
		if p.Cancel[i] != 0 {
			continue
		}
		if so.hang != "" {
			out.Fail("harness-baseline-hang", "request %d alone: %s", i, so.hang)
			summary()
			return
		}
	}
	for i, so := range solo {
		if p.Cancel[i] != 0 {
			continue
		}
		if len(so.res[0].Hard) > 0 && qs[i].RefTrav(locS, remS)[0].Avail {
			if c02 != "" {
				out.Cov("verdict.withheld.c02-input-class")
				summary()
				return
			}
			out.Fail("harness-baseline-rejected", "request %d alone failed verification: %s", i, strings.Join(so.res[0].Hard, " "))
			summary()
			return
		}
	}
	if conc.hang != "" {
		// a hang is never a known finding: `shared-block-not-yet-stored` documents a request that ENDS
		// with a missing-block error
		out.Fail("hang", "concurrent run: %s", conc.hang)
		summary()
		return
	}
	if !sub {
		// the requestor holds blocks the responder lacks: what a request retrieves may then
		// legitimately depend on what the other requests have stored meanwhile; a verdict is
		// given only if the solo result does not depend on it
		final := union(loc, soloStore)
		for i := 0; i < n; i++ {
			so2 := runSet(w, qs, []int{i}, final, rem, p, true)
			if so2.res[0].Diff(solo[i].res[0]) != "" || so2.hang != "" {
				out.Cov("verdict.store-sensitive")
				summary()
				return
			}
		}
	}
	out.Cov("verdict.given")
	for i := 0; i < n; i++ {
		if p.Cancel[i] != 0 {
			continue // failed on purpose by the requestor's hook: nothing to compare
		}
		a, b := solo[i].res[0], conc.res[i]
		if !qs[i].RefTrav(locS, remS)[0].Avail {
			a.Missing, b.Missing, a.Hard, b.Hard = nil, nil, nil, nil
		}
		if d := a.Diff(b); d != "" {
			// known only for the request B and the block X of a race, and only if B's deviation is X
			// reported missing (subtree skipped, possibly followed by the mismatch error)
			c, why := "result-differs", ""
			if c02 != "" {
				c = c02
			} else if w := raceExplains(race, i, a, b); w != "" {
				c, why = "shared-block-not-yet-stored", " ["+w+"]"
			}
			out.Fail(c, "request %d (root %d, %s) alone vs concurrently: %s%s", i, qs[i].Root, qs[i].SelName, d, why)
			summary()
			return
		}
	}
	if anyCancel || anyAfter {
		summary()
		return
	}
	if tn.FmtInts(conc.store) != tn.FmtInts(soloStore) {
		out.Fail("store-differs", "requestor store after the concurrent run [%s], union of the solo runs' stores [%s]", tn.FmtInts(conc.store), tn.FmtInts(soloStore))
	} else if anyB && tn.FmtInts(conc.storeB) != tn.FmtInts(soloStoreB) {
		out.Fail("store-differs", "second requestor's store after the concurrent run [%s], union of its solo runs' stores [%s]", tn.FmtInts(conc.storeB), tn.FmtInts(soloStoreB))
	}
	summary()
}

func ifs(b bool, s string) string {
	if b {
		return s
	}
	return ""
}

// ---------------------------------------------------------------- generator

func fmtBits(b []bool) string {
	var sb strings.Builder
	for _, x := range b {
		if x {
			sb.WriteByte('1')
		} else {
			sb.WriteByte('0')
		}
	}
	return sb.String()
}

func emit(wr *bufio.Writer, id string, p Params, loc, rem []int) {
	var qs []string
	for _, q := range p.Q {
		qs = append(qs, fmt.Sprintf("%d:%s", q.Root, q.Sel))
	}
	wg := "-"
	if p.WG >= 0 {
		wg = strconv.Itoa(p.WG)
	}
	pb := make([]bool, len(p.Q))
	for i := range pb {
		pb[i] = i < len(p.Peers) && p.Peers[i] == 1
	}
	extra := ""
	if p.Keys != nil {
		ks := make([]string, len(p.Keys))
		for i, k := range p.Keys {
			ks[i] = k
			if k == "" {
				ks[i] = "-"
			}
		}
		extra += " keys=" + strings.Join(ks, ",")
	}
	anyIgn := false
	igs := make([]string, len(p.Q))
	for i := range igs {
		igs[i] = "-"
		if i < len(p.Ign) && len(p.Ign[i]) > 0 {
			anyIgn = true
			ss := make([]string, len(p.Ign[i]))
			for j, c := range p.Ign[i] {
				ss[j] = strconv.Itoa(c)
			}
			igs[i] = strings.Join(ss, "+")
		}
	}
	if anyIgn {
		extra += " ign=" + strings.Join(igs, ",")
	}
	nz := func(l []int) bool {
		for _, x := range l {
			if x != 0 {
				return true
			}
		}
		return false
	}
	if nz(p.Skip) {
		extra += " skip=" + tn.FmtInts(p.Skip)
	}
	if nz(p.Cancel) {
		extra += " cancel=" + tn.FmtInts(p.Cancel)
	}
	if p.Shape != "" {
		extra += " shape=" + p.Shape
	}
	hdr := fmt.Sprintf("dag=%d:%d q=%s start=%s sched=%d w=%d,%d,%d wr=%s ws=%s qg=%s sg=%s wg=%s dedup=%s peers=%s%s",
		p.Seed, p.MB, strings.Join(qs, ","), tn.FmtInts(p.Start), p.Sched, p.W[0], p.W[1], p.W[2], tn.FmtInts(p.WR), tn.FmtInts(p.WS), fmtBits(p.QG), fmtBits(p.SG), wg, p.Dedup, fmtBits(pb), extra)
	// a generated case that the harness itself would reject as `bad-case` silently loses coverage
	if _, ok := parseHeader("case " + id + " " + hdr); !ok {
		panic("concur generator: emitted a header that does not parse: " + hdr)
	}
	fmt.Fprintf(wr, "case %s %s\n", id, hdr)
	fmt.Fprintln(wr, "remote", tn.FmtInts(rem))
	if len(loc) > 0 {
		ss := make([]string, len(loc))
		for i, x := range loc {
			ss[i] = strconv.Itoa(x)
		}
		fmt.Fprintln(wr, "put", strings.Join(ss, " "))
	}
	if comparable(p, loc, rem) {
		w := worldOf(p)
		var lines []string
		for i, q := range p.Q {
			sel, _ := tn.SelectorByName(q.Sel)
			qq, err := w.NewQuery(q.Root, q.Sel, sel)
			if err != nil {
				lines = nil
				break
			}
			l, err := qq.LTLine()
			if err != nil {
				lines = nil
				break
			}
			lines = append(lines, fmt.Sprintf("lt %d %s", i, l))
		}
		for _, l := range lines {
			fmt.Fprintln(wr, l)
		}
	}
	fmt.Fprintln(wr, "run")
}

// genCase: an overlapping set of queries over one DAG + a schedule profile.
func genCase(r *rand.Rand, i int) (Params, []int, []int) {
	for {
		seed := r.Int63n(1 << 40)
		mb := 3 + r.Intn(7)
		w, _ := tn.NewWorld(seed, mb)
		nb := len(w.D.Cids)
		if nb < 3 {
			continue
		}
		n := 2
		if r.Intn(4) == 0 {
			n = 3
		}
		p := Params{Seed: seed, MB: mb, W: [3]int{1, 1, 1}, WG: -1, Dedup: "none"}
		rootBlk := nb - 1
		var qs []*tn.Query
		okq := true
		for k := 0; k < n; k++ {
			var q QSpec
			switch r.Intn(4) {
			case 0, 1: // same root, (possibly) another selector
				q = QSpec{rootBlk, tn.SelNames[r.Intn(len(tn.SelNames))]}
			case 2: // a sub-DAG: some other block as root
				q = QSpec{r.Intn(nb), "all"}
			default:
				q = QSpec{r.Intn(nb), tn.SelNames[r.Intn(len(tn.SelNames))]}
			}
			if k == 0 {
				q = QSpec{rootBlk, "all"}
			}
			sel, _ := tn.SelectorByName(q.Sel)
			qq, err := w.NewQuery(q.Root, q.Sel, sel)
			if err != nil || len(qq.LT) > 30 {
				okq = false
				break
			}
			p.Q = append(p.Q, q)
			qs = append(qs, qq)
		}
		if !okq {
			continue
		}
		// blocks reached by more than one request
		cnt := map[int]int{}
		for _, q := range qs {
			seen := map[int]bool{}
			for _, l := range q.LT {
				if !seen[l.Block] {
					seen[l.Block] = true
					cnt[l.Block]++
				}
			}
		}
		var shared []int
		for b, c := range cnt {
			if c > 1 {
				shared = append(shared, b)
			}
		}
		sort.Ints(shared)
		if len(shared) == 0 && r.Intn(10) != 0 {
			continue
		}
		// stores
		var loc, rem []int
		switch r.Intn(6) {
		case 0, 1, 2: // requestor empty, responder complete
			for k := 0; k < nb; k++ {
				rem = append(rem, k)
			}
		case 3: // responder misses a block
			drop := r.Intn(nb)
			for k := 0; k < nb; k++ {
				if k != drop {
					rem = append(rem, k)
				}
			}
		case 4: // requestor holds part of what the responder holds
			for k := 0; k < nb; k++ {
				if r.Intn(8) != 0 {
					rem = append(rem, k)
					if r.Intn(3) == 0 {
						loc = append(loc, k)
					}
				}
			}
		default: // arbitrary split
			for k := 0; k < nb; k++ {
				if r.Intn(3) == 0 {
					loc = append(loc, k)
				}
				if r.Intn(5) != 0 {
					rem = append(rem, k)
				}
			}
		}
		// schedule profile
		p.Sched = r.Int63n(1 << 30)
		p.Start = make([]int, n)
		p.WR, p.WS = make([]int, n), make([]int, n)
		p.QG, p.SG = make([]bool, n), make([]bool, n)
		for k := 0; k < n; k++ {
			p.WR[k], p.WS[k] = 1, 1
			p.QG[k], p.SG[k] = true, r.Intn(2) == 0
		}
		switch i % 6 {
		case 0: // lock-step
		case 1: // request 0 far ahead on the requestor
			p.WR[0] = 8
		case 2: // request 1 far ahead on the requestor
			p.WR[1] = 8
		case 3: // request 0's first shared block is held before it is stored while the others run on
			if len(shared) > 0 {
				p.WG = shared[r.Intn(len(shared))]
				p.W[2] = 0
			}
		case 4: // staggered start
			for k := 1; k < n; k++ {
				p.Start[k] = r.Intn(12)
			}
		default: // free run (no gates)
			for k := 0; k < n; k++ {
				p.QG[k], p.SG[k] = false, false
			}
		}
		if r.Intn(3) == 0 {
			p.W = [3]int{1 + r.Intn(4), 1 + r.Intn(4), p.W[2]}
		}
		switch r.Intn(5) {
		case 0:
			p.Dedup = "distinct"
		case 1:
			p.Dedup = "same"
		}
		p.Peers = make([]int, n)
		if i%7 == 6 { // one of the requests comes from a second requestor peer
			p.Peers[1+r.Intn(n-1)] = 1
		}
		p.Ign = make([][]int, n)
		p.Skip = make([]int, n)
		p.Cancel = make([]int, n)
		switch i % 11 {
		case 7:
			// request 0 is PAUSED by the requestor's block hook after its first block(s) and never resumed,
			// while the responder has already sent more of it (its late messages, blocks included, are
			// dropped by the offline loader); the other requests run meanwhile over a responder that lacks
			// some of their blocks (missing entries in their metadata)
			p.Cancel[0] = 100 + 1 + r.Intn(2)
			// every other time the responder's executor for request 0 is gated too, so that its late
			// block messages interleave with the other requests' messages on the wire
			p.QG[0], p.SG[0] = true, r.Intn(2) == 0
			p.WR[0] = 1 + r.Intn(3)
			for k := 1; k < n; k++ {
				p.Start[k] = r.Intn(4)
				p.QG[k], p.SG[k] = r.Intn(2) == 0, true
			}
			loc = nil
			{
				// the responder lacks one or two of the FIRST links below the root of another request: their
				// metadata entries say `missing` early in that request's response, right after request 0's
				// late messages have been dropped
				drop := map[int]bool{}
				other := qs[1+r.Intn(n-1)]
				for d := 0; d < 1+r.Intn(2) && len(other.LT) > 1; d++ {
					drop[other.LT[1+r.Intn(min(3, len(other.LT)-1))].Block] = true
				}
				// apart from those the responder holds everything (request 0's response is long), and the
				// requests have their own dedup scopes (no cross-request de-duplication: the known finding
				// stays out of the way)
				var rem2 []int
				for b := 0; b < nb; b++ {
					isRoot := false
					for _, q := range qs {
						if q.LT[0].Block == b {
							isRoot = true
						}
					}
					if !drop[b] || isRoot {
						rem2 = append(rem2, b)
					}
				}
				rem = rem2
				p.Dedup = "distinct"
			}
			p.WG = -1
			p.Peers = make([]int, n)
		case 8:
			// request 0 carries a dedup key AND a do-not-send-cids list (blocks it keeps elsewhere: they are
			// not in the store the other requests use); the others use the default scope or other keys.
			// Request 0 is held on the responder while the others run (or runs first, every other time).
			p.Keys = make([]string, n)
			p.Keys[0] = "5"
			for k := 1; k < n; k++ {
				if r.Intn(2) == 0 {
					p.Keys[k] = strconv.Itoa(6 + k)
				}
			}
			seen := map[int]bool{}
			for _, l := range qs[0].LT[1:] {
				if !seen[l.Block] && (cnt[l.Block] > 1 || r.Intn(3) == 0) && r.Intn(4) != 0 {
					seen[l.Block] = true
					p.Ign[0] = append(p.Ign[0], l.Block)
				}
			}
			sort.Ints(p.Ign[0])
			loc = nil
			for k := range p.SG {
				p.SG[k], p.QG[k] = true, true
			}
			if r.Intn(2) == 0 {
				p.WS[0] = 0
			}
			p.Peers = make([]int, n)
		case 9:
			// same dedup key; the later requests have been received but are held before their first block
			// until the first one has completed
			p.Keys = make([]string, n)
			for k := range p.Keys {
				p.Keys[k] = "5"
				p.SG[k], p.QG[k] = true, r.Intn(2) == 0
				p.WS[k] = 0
				p.Start[k] = 0
			}
			p.WS[0] = 1
			p.Peers = make([]int, n)
		case 10:
			// same dedup key; request 0 is failed by the requestor after its first block(s) while the responder
			// has already sent all of it; the others are issued afterwards
			p.Keys = make([]string, n)
			for k := range p.Keys {
				p.Keys[k] = "5"
				p.Start[k] = 9999
				p.SG[k], p.QG[k] = false, r.Intn(2) == 0
			}
			p.Start[0] = 0
			p.QG[0], p.WR[0] = true, 0
			p.Cancel[0] = 1 + r.Intn(2)
			loc = nil
			p.WG = -1
			p.Peers = make([]int, n)
		}
		if r.Intn(9) == 0 {
			// an arbitrary mix of the extensions
			k := r.Intn(n)
			p.Skip[k] = r.Intn(4)
			if r.Intn(2) == 0 && len(shared) > 0 {
				p.Ign[(k+1)%n] = []int{shared[r.Intn(len(shared))]}
			}
		}
		return p, loc, rem
	}
}

// genTwinCase: two requests of one requestor whose DAGs have no CID in common but overlap in one leaf's
// bytes (dag.GenTwin: raw link on one side, dag-cbor link on the other, same multihash); the responder
// holds everything, the requestor (store keyed by CID) nothing.  Alone, each request is sent the block
// for its own link; concurrently it must be, too — whatever the other request has been sent.
func genTwinCase(r *rand.Rand, i int) (Params, []int, []int) {
	seed := r.Int63n(1 << 40)
	d, sides, _ := dag.GenTwin(rand.New(rand.NewSource(seed)))
	nb := len(d.Cids)
	n := 2
	if r.Intn(5) == 0 {
		n = 3
	}
	p := Params{Seed: seed, MB: 9, W: [3]int{1, 1, 1}, WG: -1, Dedup: "none", Shape: "twin"}
	p.Q = []QSpec{{sides[0], "all"}, {sides[1], "all"}}
	if n == 3 {
		// the whole DAG as well: ONE request that reaches the bytes through both CIDs
		p.Q = append(p.Q, QSpec{nb - 1, "all"})
	}
	var rem []int
	for k := 0; k < nb; k++ {
		rem = append(rem, k)
	}
	p.Sched = r.Int63n(1 << 30)
	p.Start = make([]int, n)
	p.WR, p.WS = make([]int, n), make([]int, n)
	p.QG, p.SG = make([]bool, n), make([]bool, n)
	for k := 0; k < n; k++ {
		p.WR[k], p.WS[k] = 1, 1
		p.QG[k], p.SG[k] = true, r.Intn(2) == 0
	}
	// the responder's executors are what matters: a request is "in progress" for the link tracker until
	// its executor has finished, so (except in the free run) every request's store reads are gated and
	// the scheduler interleaves them
	for k := 0; k < n; k++ {
		p.SG[k] = true
	}
	switch r.Intn(8) {
	case 0, 1: // lock-step on the responder
	case 2: // request 1 ahead on the responder: it reaches the bytes while request 0 is in progress
		p.WS[1] = 1 + r.Intn(4)
	case 3: // request 0 ahead on the responder
		p.WS[0] = 1 + r.Intn(4)
	case 4, 5, 6: // staggered start: request 1 is issued when request 0 is some blocks into its response, and
		// then catches up on the responder
		p.Start[1] = 2 + r.Intn(14)
		p.WS[1] = 2 + r.Intn(7)
	default: // free run
		for k := 0; k < n; k++ {
			p.QG[k], p.SG[k] = false, false
		}
	}
	if r.Intn(3) == 0 {
		p.W = [3]int{1 + r.Intn(4), 1 + r.Intn(4), 1}
	}
	switch r.Intn(6) {
	case 0:
		p.Dedup = "distinct"
	case 1:
		p.Dedup = "same"
	}
	p.Peers = make([]int, n)
	if r.Intn(8) == 0 {
		p.Peers[1] = 1
	}
	p.Ign = make([][]int, n)
	p.Skip = make([]int, n)
	p.Cancel = make([]int, n)
	return p, nil, rem
}

// twinCov: how often the interesting interleaving is reached — the second of the two side requests was
// told about its twin link while the other one, which had already been told about its own, was still
// in progress on the responder (no terminal status of it handed to the network yet).
func twinCov(out *reg.Out, s *tn.Sim, w *tn.World, p Params) {
	var log []tn.Event
	s.Locked(func() { log = append(log, s.Log...) })
	first := map[int]int{} // request -> seq of the first outgoing-block hook for block 0 or 1
	end := map[int]int{}
	for _, e := range log {
		if e.Kind == tn.EvRespHook && (e.Cid == 0 || e.Cid == 1) && e.Req >= 0 && e.Req < 2 {
			if _, ok := first[e.Req]; !ok {
				first[e.Req] = e.Seq
			}
		}
		if e.Kind == tn.EvSend && e.Side == tn.NodeResp && e.Pkt != nil {
			for _, r := range e.Pkt.Resps {
				if r.Status.IsTerminal() {
					if _, ok := end[r.Req]; !ok {
						end[r.Req] = e.Seq
					}
				}
			}
		}
	}
	a, okA := first[0]
	b, okB := first[1]
	if !okA || !okB {
		return
	}
	fst, snd := 0, 1
	if b < a {
		fst, snd = 1, 0
	}
	if es, ok := end[fst]; !ok || es > first[snd] {
		out.Cov("twin.overlap-in-progress")
		out.Cov("twin.overlap-in-progress." + p.Dedup)
	}
}

func Gen(seed int64, n int, tier string, wr *bufio.Writer) {
	runtime.GOMAXPROCS(1)
	r := rand.New(rand.NewSource(seed))
	for i := 0; i < n; i++ {
		if i%13 == 5 {
			p, loc, rem := genTwinCase(r, i)
			emit(wr, fmt.Sprintf("c%d", i), p, loc, rem)
			continue
		}
		p, loc, rem := genCase(r, i)
		emit(wr, fmt.Sprintf("c%d", i), p, loc, rem)
	}
}
