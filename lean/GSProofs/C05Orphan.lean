import GSProofs.C05Reserve
/-!
# Orphan pending topics, unconditionally (all ids, every `ReachableDrained` state, no `TermStep` hypothesis)

The all-ids statement "every pending task-queue topic has a response" (`no_orphan_pending_topic_partial`, C23
`agree_orphans` for pending topics) is proved only for runs satisfying `TermStep`.  What holds with NO side condition
is the accounting form (`q_reachable`): a pending topic of `k` without a response can only exist if one registration
of `k` has lost its outcome for good — `Pot k s + 1 ≤ regs k s`, in particular
`completed(k) + cancelled(k) + 1 ≤ registrations(k)` — i.e. only together with an `outcome-none` defect of that id.
-/
namespace GS.C05
open GS.RespLife

/-- **C05.orphan_pending_topic_costs_an_outcome**: an orphan pending topic of `k` (no response with that id in the
    table) implies that the outcome accounting of `k` has slack: some registration of `k` will never be reported
    completed or cancelled. -/
theorem orphan_pending_topic_costs_an_outcome {c : Cfg} {s : State} (h : ReachableDrained c s) (p : Peer) (k : Id)
    (hp : k ∈ pendOf s p) (hl : lookup s k = none) :
    completedCount s k + cancelledCount s k + entW k s + parkW k s.park + wkSum k s.workers +
      mbSum k s.workers s.mailbox + mqSum k s.mqs + 1 ≤ registrations s k := by
  rcases q_reachable h k with hq | hq
  · have := hq p hp
    unfold entOf at this
    rw [hl] at this; cases this
  · unfold Pot at hq
    rw [evW_split, regs_eq] at hq
    exact hq

/-- **C05.pending_topic_has_response_or_lost_outcome** (C23 `agree_orphans`, pending topics, unconditional form):
    every pending topic has a response in the table, or its id has a registration without outcome. -/
theorem pending_topic_has_response_or_lost_outcome {c : Cfg} {s : State} (h : ReachableDrained c s) (p : Peer)
    (k : Id) (hp : k ∈ pendOf s p) :
    (lookup s k).isSome = true ∨ completedCount s k + cancelledCount s k + 1 ≤ registrations s k := by
  cases hl : lookup s k with
  | some _ => exact Or.inl rfl
  | none =>
    right
    have := orphan_pending_topic_costs_an_outcome h p k hp hl
    omega

end GS.C05
