import GS.Model.Responder
import GS.Driver.Proto
/-! line-protocol driver for the responder model (component `responder`, property C03).
The protocol is described at the top of `harness/responder/responder.go`. -/
namespace GS.Driver.Responder
open GS.Proto GS.Responder GS.LinkTrack

structure D where
  dagSeen : Bool := false
  lt      : Option LT := none
  store   : Option Store := none
  mqReal  : Bool := false
  script  : List Nat := [1]
  pos     : Nat := 0
  p       : PeerTracker := {}
  reqs    : List (Nat × Stop × Phase) := []
  started : Bool := false

/-! ### parsing -/

def parseNatList (s : String) : Option (List Nat) :=
  if s == "-" || s == "" || s == "e" then some []
  else (s.splitOn ",").mapM String.toNat?

def kvGet (toks : Toks) (k : String) : String :=
  match toks.find? (fun t => t.startsWith (k ++ "=")) with
  | some t => (t.drop (k.length + 1)).toString
  | none => ""

/-- link tree from the pre-order list `block:parent:path` (parent index < own index). -/
def buildLT (nodes : Array (Nat × Int)) : Option LT :=
  let n := nodes.size
  let kids0 : Array (List LT) := Array.replicate n []
  let rec go (j : Nat) (kids : Array (List LT)) (root : Option LT) : Option LT :=
    match j with
    | 0 => root
    | j' + 1 =>
      let (blk, par) := nodes[j']!
      let t := LT.node blk (kids[j']!)
      if par < 0 then
        if j' == 0 then go j' kids (some t) else none
      else
        let pi := par.toNat
        if pi < j' then go j' (kids.modify pi (fun l => t :: l)) root else none
  go n kids0 none

def parseLT (toks : Toks) : Option LT :=
  match toks with
  | [] => none
  | n :: rest =>
    match n.toNat? with
    | none => none
    | some cnt =>
      if cnt != rest.length || cnt == 0 then none
      else
        let parsed := rest.mapM fun tok =>
          match tok.splitOn ":" with
          | b :: par :: _ =>
            match b.toNat?, par.toInt? with
            | some b, some par => some (b, par)
            | _, _ => none
          | _ => none
        match parsed with
        | none => none
        | some l => buildLT l.toArray

def parseExt {α : Type} (s : String) (f : String → Option α) : Option (ExtVal α) :=
  if s == "-" || s == "" then some .absent
  else if s == "bad" then some .bad
  else (f s).map .ok

structure ReqSpec where
  id   : Nat
  ext  : Ext
  hook : Hook
  stop : Stop

def parseStop (s : String) : Option Stop :=
  if s == "" || s == "none" then some .never
  else
    match s.splitOn ":" with
    | [kind, k] =>
      match k.toNat? with
      | some k =>
        if k < 1 then none
        else if kind == "hookpause" then some (.hookPause k)
        else if kind == "sigpause" then some (.sigPause k)
        else if kind == "cancel" then some (.cancel k)
        else none
      | none => none
    | _ => none

def parseHook (s : String) : Option Hook :=
  if s == "" || s == "ok" then some {}
  else if s == "reject" then some { validated := false }
  else if s == "err" then some { err := true }
  else if s == "pause" then some { paused := true }
  else none

def parseReq (t : Toks) : Option ReqSpec :=
  match t with
  | _ :: id :: rest =>
    match id.toNat? with
    | none => none
    | some id =>
      match parseExt (kvGet rest "key") String.toNat?,
            parseExt (kvGet rest "ign") parseNatList,
            parseExt (kvGet rest "skip") String.toInt?,
            parseHook (kvGet rest "hook"),
            parseStop (kvGet rest "stop") with
      | some key, some ign, some skip, some hook, some stop =>
        some { id := id, ext := { key := key, ignore := ign, skip := skip }, hook := hook, stop := stop }
      | _, _, _, _, _ => none
  | _ => none

/-! ### rendering -/

def statusName : Status → String
  | .partialResponse => "part" | .paused => "paused" | .completedFull => "full"
  | .completedPartial => "partial" | .rejected => "rejected" | .failedUnknown => "unknown"
  | .contentNotFound => "notfound" | .cancelled => "cancelled" | .other c => s!"code{c}"

def itemStr (s : Store) (it : Item) : String :=
  s!"{it.cid}{if it.present then "p" else "m"}{if it.block && !s.isCorrupt it.cid then "+" else ""}"

def dashIfEmpty (xs : List String) : String := if xs.isEmpty then "-" else joinWith " " xs

/-- the three output lines of a req / resume op. -/
def render (d : D) (s : Store) (msgs : List Msg) : List String :=
  let md := msgs.flatMap fun m =>
    m.annotate.map (itemStr s)
      ++ (sortNat (m.stray.filter (fun c => !s.isCorrupt c))).map (fun c => s!"!{c}")
      ++ (m.blocks.filter s.isCorrupt).map (fun _ => "!x")
  let st := msgs.filterMap fun m =>
    if m.wireStatus == .partialResponse then none else some (statusName m.wireStatus)
  let det := msgs.map fun m =>
    let items := (m.annotate.zip m.indices).map fun (it, i) => s!"{i}:{itemStr s it}"
    let good := (sortNat (m.blocks.filter (fun c => !s.isCorrupt c))).map toString
    let bad := (m.blocks.filter s.isCorrupt).map (fun _ => "x")
    let bl := if (good ++ bad).isEmpty then "-" else joinWith "," (good ++ bad)
    "[" ++ joinWith " " ([statusName m.wireStatus] ++ items ++ [s!"b={bl}"]) ++ "]"
  [ "md " ++ dashIfEmpty md,
    "st " ++ dashIfEmpty (if d.mqReal then st.drop (st.length - 1) else st),
    "msgs " ++ (if d.mqReal || det.isEmpty then "-" else joinWith " " det) ]

/-- batch the transactions of one phase into messages and render them. -/
def emit (d : D) (s : Store) (txns : List Txn) : D × List String :=
  let groups := if d.mqReal then batch [1] 0 txns else batch d.script d.pos txns
  let msgs := groups.map buildMsg
  ({ d with pos := d.pos + groups.length }, render d s msgs)

def bad3 : List String := ["bad-op", "bad-op", "bad-op"]

def setPhase (reqs : List (Nat × Stop × Phase)) (id : Nat) (ph : Phase) : List (Nat × Stop × Phase) :=
  reqs.map fun (i, st, p) => if i == id then (i, st, ph) else (i, st, p)

def stepLine (d : D) (t : Toks) : D × List String :=
  match t with
  | ["dag", seed, mb, _] =>
    match seed.toInt?, mb.toNat? with
    | some _, some mb =>
      if mb < 1 || d.dagSeen then (d, ["bad-op"]) else ({ d with dagSeen := true }, ["ok"])
    | _, _ => (d, ["bad-op"])
  | "lt" :: rest =>
    if !d.dagSeen then (d, ["bad-op"])
    else match parseLT rest with
      | some lt => ({ d with lt := some lt }, ["lt ok"])
      | none => (d, ["lt MISMATCH"])
  | "store" :: rest =>
    if !d.dagSeen || d.started then (d, ["bad-op"])
    else
      match parseNatList (kvGet rest "h"), parseNatList (kvGet rest "c"), parseNatList (kvGet rest "e") with
      | some h, some c, some e => ({ d with store := some { held := h, corrupt := c, empty := e } }, ["ok"])
      | _, _, _ => (d, ["bad-op"])
  | "mq" :: rest =>
    if d.started then (d, ["bad-op"])
    else match rest with
      | ["real"] => ({ d with mqReal := true }, ["ok"])
      | ["fake"] => ({ d with mqReal := false, script := [1] }, ["ok"])
      | ["fake", sc] =>
        match parseNatList sc with
        | some l => if l.isEmpty || l.any (· < 1) then (d, ["bad-op"]) else ({ d with mqReal := false, script := l }, ["ok"])
        | none => (d, ["bad-op"])
      | _ => (d, ["bad-op"])
  | "req" :: _ =>
    match parseReq t, d.lt, d.store with
    | some spec, some lt, some s =>
      -- the same request id again is accepted once the previous response under it has ended
      let busy := d.reqs.any fun e => e.1 == spec.id && (match e.2.2 with | .paused _ => true | .done => false)
      if busy then (d, bad3)
      else
        let (p', txns, ph) := startRequest s lt d.p spec.id spec.hook spec.ext spec.stop
        let others := d.reqs.filter (fun e => e.1 != spec.id)
        let d1 := { d with p := p', started := true, reqs := others ++ [(spec.id, spec.stop, ph)] }
        emit d1 s txns
    | _, _, _ => (d, bad3)
  | ["resume", id] =>
    match id.toNat?, d.store with
    | some id, some s =>
      if !d.started then (d, bad3)
      else match d.reqs.find? (fun e => e.1 == id) with
        | none => (d, bad3)
        | some (_, stop, .paused run) =>
          let (p', txns, ph) := resumeRequest s d.p id stop run
          emit { d with p := p', reqs := setPhase d.reqs id ph } s txns
        | some (_, _, .done) => emit d s []
    | _, _ => (d, bad3)
  | "resume" :: _ => (d, bad3)
  | ["rcancel", id] =>
    -- a cancel request for a paused response: `ClearRequest` (FinishTracking), nothing on the wire
    match id.toNat?, d.store with
    | some id, some s =>
      if !d.started then (d, bad3)
      else match d.reqs.find? (fun e => e.1 == id) with
        | none => (d, bad3)
        | some (_, _, .paused _) =>
          emit { d with p := (d.p.finishTracking id).1, reqs := setPhase d.reqs id .done } s []
        | some (_, _, .done) => emit d s []
    | _, _ => (d, bad3)
  | "rcancel" :: _ => (d, bad3)
  | _ => (d, ["bad-op"])

def handler (ops : List Toks) : List String :=
  let (_, outs) := ops.foldl (fun (acc : D × List String) t =>
    let (d', o) := stepLine acc.1 t
    (d', acc.2 ++ o)) ({}, [])
  outs

end GS.Driver.Responder

def main : IO Unit := GS.Proto.runModel GS.Driver.Responder.handler
