import GSProofs.Lemmas.AllocatorTrace
/-!
# Allocator: reachable states, states inside the wake-up loop, run-level lemmas
-/
namespace GS.Alloc

/-- `s` is the state after some history `ops` started from `NewAllocator(mt, mp)`. -/
def Reachable (pick : Pick) (mt mp : Nat) (s : State) : Prop :=
  ∃ ops : List Op, s = (run pick (init mt mp) ops).1

theorem alloc_cfg (s : State) (p a t : Nat) :
    (alloc s p a t).1.maxTotal = s.maxTotal ∧ (alloc s p a t).1.maxPeer = s.maxPeer := by
  unfold alloc; simp only []; split <;> exact ⟨rfl, rfl⟩

theorem step_cfg {pick : Pick} (hp : Admissible pick) {s : State} (hw : WF s) (op : Op) :
    (step pick s op).1.maxTotal = s.maxTotal ∧ (step pick s op).1.maxPeer = s.maxPeer := by
  cases op with
  | alloc p a t => exact alloc_cfg s p a t
  | release p a =>
    show (release pick s p a).1.maxTotal = _ ∧ (release pick s p a).1.maxPeer = _
    rcases release_spec pick hw p a with ⟨_, h⟩ | ⟨st, s1, hf, hw1, h, _, hc1, _⟩
    · rw [h]; exact ⟨rfl, rfl⟩
    · rw [h]
      have hc := processPending_cfg hp hw1
      exact ⟨hc.1.trans hc1.1, hc.2.1.trans hc1.2.1⟩
  | releasePeer p =>
    show (releasePeer pick s p).1.maxTotal = _ ∧ (releasePeer pick s p).1.maxPeer = _
    rcases releasePeer_spec pick hw p with ⟨_, h⟩ | ⟨st, s1, hf, hw1, h, _, hc1, _⟩
    · rw [h]; exact ⟨rfl, rfl⟩
    · rw [h]
      have hc := processPending_cfg hp hw1
      exact ⟨hc.1.trans hc1.1, hc.2.1.trans hc1.2.1⟩

theorem run_cfg {pick : Pick} (hp : Admissible pick) {s : State} (h : Inv s) (ops : List Op) :
    (run pick s ops).1.maxTotal = s.maxTotal ∧ (run pick s ops).1.maxPeer = s.maxPeer := by
  induction ops generalizing s with
  | nil => exact ⟨rfl, rfl⟩
  | cons op ops ih =>
    have h1 := step_cfg hp h.wf op
    have h2 := ih (step_Inv hp h op)
    exact ⟨h2.1.trans h1.1, h2.2.trans h1.2⟩

theorem Reachable.inv {pick : Pick} (hp : Admissible pick) {mt mp : Nat} (ht : mt < W) (hm : mp < W)
    {s : State} (h : Reachable pick mt mp s) : Inv s ∧ s.maxTotal = mt ∧ s.maxPeer = mp := by
  obtain ⟨ops, rfl⟩ := h
  have hi := Inv.init ht hm
  exact ⟨run_Inv hp hi ops, run_cfg hp hi ops⟩

theorem Reachable.next {pick : Pick} {mt mp : Nat} {s : State} (h : Reachable pick mt mp s) (op : Op) :
    Reachable pick mt mp (step pick s op).1 := by
  obtain ⟨ops, rfl⟩ := h
  refine ⟨ops ++ [op], ?_⟩
  have : ∀ (s0 : State) (ops : List Op),
      (run pick s0 (ops ++ [op])).1 = (step pick (run pick s0 ops).1 op).1 := by
    intro s0 ops
    induction ops generalizing s0 with
    | nil => rfl
    | cons o os ih => exact ih _
  exact (this _ _).symm

/-! ## states at the top of the `for` loop of processPendingAllocations -/

inductive LoopState (pick : Pick) (mt mp : Nat) : State → Prop
  | release {s s1 : State} {p a : Nat} {ev : Event} :
      Reachable pick mt mp s → releaseCore s p a = some (s1, ev) → LoopState pick mt mp s1
  | releasePeer {s s1 : State} {p : Nat} {evs : List Event} :
      Reachable pick mt mp s → releasePeerCore s p = some (s1, evs) → LoopState pick mt mp s1
  | iter {s s1 : State} {e : List Event} :
      LoopState pick mt mp s → loopStep pick s = some (s1, e) → LoopState pick mt mp s1

theorem LoopState.wf {pick : Pick} (hp : Admissible pick) {mt mp : Nat} (ht : mt < W) (hm : mp < W)
    {s : State} (h : LoopState pick mt mp s) : WF s ∧ s.maxTotal = mt ∧ s.maxPeer = mp := by
  induction h with
  | @release s s1 p a ev hr hc =>
    have hi := hr.inv hp ht hm
    cases hf : findPeer s.peers p with
    | none => unfold releaseCore at hc; simp [hf] at hc
    | some st =>
      have e := (releaseCore_some hi.1.wf (a := a) hf).1
      rw [hc] at e
      injection e with e; rw [Prod.mk.injEq] at e
      rw [e.1]
      exact ⟨releaseCore_WF hi.1.wf hf, hi.2⟩
  | @releasePeer s s1 p evs hr hc =>
    have hi := hr.inv hp ht hm
    cases hf : findPeer s.peers p with
    | none => unfold releasePeerCore at hc; simp [hf] at hc
    | some st =>
      have e := releasePeerCore_some hi.1.wf hf
      rw [hc] at e
      injection e with e; rw [Prod.mk.injEq] at e
      rw [e.1]
      exact ⟨releasePeerCore_WF hi.1.wf hf, hi.2⟩
  | iter _ hl ih =>
    have hc := loopStep_cfg hl
    exact ⟨loopStep_WF hp ih.1 hl, hc.1.trans ih.2.1, hc.2.1.trans ih.2.2⟩

/-- `LoopRun s s' es`: iterating `loopStep` from `s` stops (with `loopStep = none`) in `s'`,
    having emitted `es`. -/
inductive LoopRun (pick : Pick) : State → State → List Event → Prop
  | stop {s : State} : loopStep pick s = none → LoopRun pick s s []
  | iter {s s1 s2 : State} {e es : List Event} :
      loopStep pick s = some (s1, e) → LoopRun pick s1 s2 es → LoopRun pick s s2 (e ++ es)

/-- The fuelled loop of the model is exactly the iteration of `loopStep` up to its stopping
    condition (the fuel never runs out). -/
theorem processPending_loopRun {pick : Pick} (hp : Admissible pick) {s : State} (hw : WF s) :
    LoopRun pick s (processPending pick s).1 (processPending pick s).2 :=
  processPending_rec hp (motive := fun s r => LoopRun pick s r.1 r.2)
    (fun _ _ h => .stop h) (fun _ _ _ _ _ _ hl ih => .iter hl ih) s hw

theorem processPending_stops {pick : Pick} (hp : Admissible pick) {s : State} (hw : WF s) :
    loopStep pick (processPending pick s).1 = none :=
  processPending_rec hp (motive := fun _ r => loopStep pick r.1 = none)
    (fun _ _ h => h) (fun _ _ _ _ _ _ _ ih => ih) s hw

/-! ## run-level lemmas -/

theorem step_ledger {pick : Pick} (hp : Admissible pick) {s : State} (hw : WF s) (op : Op) (p : Nat) :
    replayFrom p (allocatedFor s p) (step pick s op).2 = some (allocatedFor (step pick s op).1 p) := by
  simp only [allocatedFor_eq]
  cases op with
  | alloc q a t =>
    show replayFrom p _ (alloc s q a t).2 = some (totalIn (alloc s q a t).1.peers p)
    have hs := alloc_spec hw q a t
    by_cases hc : pendingIn s.peers q = [] ∧ s.total + a ≤ s.maxTotal ∧ totalIn s.peers q + a ≤ s.maxPeer
    · obtain ⟨he, _, ht, _⟩ := hs.1 hc
      rw [he, ht p]
      simp only [replayFrom]
      by_cases hq : q = p
      · subst hq; simp
      · have : ¬ p = q := fun e => hq e.symm
        simp [hq, this]
    · obtain ⟨he, _, ht, _⟩ := hs.2 hc
      rw [he, ht p]; rfl
  | release q a =>
    show replayFrom p _ (release pick s q a).2 = some (totalIn (release pick s q a).1.peers p)
    rcases release_spec pick hw q a with ⟨_, h⟩ | ⟨st, s1, hf, hw1, h, _, _, ht, _⟩
    · rw [h]; rfl
    · rw [h]
      have hl := processPending_ledger hp hw1 p
      rw [ht p] at hl
      simp only [replayFrom]
      by_cases hq : q = p
      · subst hq
        simp only [if_true] at hl ⊢
        rw [if_pos (Nat.min_le_right _ _)]; exact hl
      · have : ¬ p = q := fun e => hq e.symm
        simp only [hq, this, if_false] at hl ⊢; exact hl
  | releasePeer q =>
    show replayFrom p _ (releasePeer pick s q).2 = some (totalIn (releasePeer pick s q).1.peers p)
    rcases releasePeer_spec pick hw q with ⟨_, h⟩ | ⟨st, s1, hf, hw1, h, _, _, _, ht, _⟩
    · rw [h]; rfl
    · rw [h]
      have hl := processPending_ledger hp hw1 p
      rw [ht p] at hl
      simp only [List.cons_append, replayFrom]
      by_cases hq : q = p
      · subst hq
        simp only [if_true, Nat.le_refl, Nat.sub_self] at hl ⊢
        rw [replayFrom_append, replayFrom_failed]; exact hl
      · have : ¬ p = q := fun e => hq e.symm
        simp only [hq, this, if_false] at hl ⊢
        rw [replayFrom_append, replayFrom_failed]; exact hl

theorem run_ledger {pick : Pick} (hp : Admissible pick) {s : State} (h : Inv s) (ops : List Op) (p : Nat) :
    replayFrom p (allocatedFor s p) (run pick s ops).2 = some (allocatedFor (run pick s ops).1 p) := by
  induction ops generalizing s with
  | nil => rfl
  | cons op ops ih =>
    show replayFrom p _ ((step pick s op).2 ++ (run pick (step pick s op).1 ops).2) = _
    rw [replayFrom_append, step_ledger hp h.wf op p]
    exact ih (step_Inv hp h op)

theorem step_fifo {pick : Pick} (hp : Admissible pick) {s : State} (hw : WF s) (op : Op) (p : Nat) :
    resolved p (step pick s op).2 ++ waiting (step pick s op).1 p = waiting s p ++ requests p [op] := by
  simp only [waiting, pendingOf_eq]
  cases op with
  | alloc q a t =>
    show resolved p (alloc s q a t).2 ++ (pendingIn (alloc s q a t).1.peers p).map (·.ticket) = _
    have hs := alloc_spec hw q a t
    by_cases hc : pendingIn s.peers q = [] ∧ s.total + a ≤ s.maxTotal ∧ totalIn s.peers q + a ≤ s.maxPeer
    · obtain ⟨he, _, _, hpn⟩ := hs.1 hc
      rw [he, hpn p]
      simp only [resolved, requests]
      by_cases hq : q = p
      · subst hq; simp [hc.1]
      · simp [hq]
    · obtain ⟨he, _, _, hpn⟩ := hs.2 hc
      rw [he, hpn p]
      simp only [resolved, requests]
      by_cases hq : q = p
      · subst hq; simp
      · have : ¬ p = q := fun e => hq e.symm
        simp [hq, this]
  | release q a =>
    show resolved p (release pick s q a).2 ++ (pendingIn (release pick s q a).1.peers p).map (·.ticket) = _
    rcases release_spec pick hw q a with ⟨_, h⟩ | ⟨st, s1, hf, hw1, h, _, _, _, hpn⟩
    · rw [h]; simp [resolved, requests]
    · rw [h]
      have hl := processPending_fifo hp hw1 p
      rw [hpn p] at hl
      simp only [resolved, requests, List.append_nil]; exact hl
  | releasePeer q =>
    show resolved p (releasePeer pick s q).2 ++ (pendingIn (releasePeer pick s q).1.peers p).map (·.ticket) = _
    rcases releasePeer_spec pick hw q with ⟨_, h⟩ | ⟨st, s1, hf, hw1, h, _, _, _, _, hpn⟩
    · rw [h]; simp [resolved, requests]
    · rw [h]
      have hl := processPending_fifo hp hw1 p
      rw [hpn p] at hl
      simp only [List.cons_append, resolved, requests, List.append_nil]
      rw [resolved_append, resolved_failed, List.append_assoc, hl]
      by_cases hq : q = p
      · subst hq; simp
      · have : ¬ p = q := fun e => hq e.symm
        simp [hq, this]

theorem run_fifo {pick : Pick} (hp : Admissible pick) {s : State} (h : Inv s) (ops : List Op) (p : Nat) :
    resolved p (run pick s ops).2 ++ waiting (run pick s ops).1 p = waiting s p ++ requests p ops := by
  induction ops generalizing s with
  | nil => simp [run, resolved, requests]
  | cons op ops ih =>
    show resolved p ((step pick s op).2 ++ (run pick (step pick s op).1 ops).2)
        ++ waiting (run pick (step pick s op).1 ops).1 p = _
    rw [resolved_append, List.append_assoc, ih (step_Inv hp h op), ← List.append_assoc,
      step_fifo hp h.wf op p, List.append_assoc, ← requests_append]
    rfl

theorem Reachable.run {pick : Pick} {mt mp : Nat} {s : State} (h : Reachable pick mt mp s)
    (ops : List Op) : Reachable pick mt mp (GS.Alloc.run pick s ops).1 := by
  induction ops generalizing s with
  | nil => exact h
  | cons op ops ih => exact ih (h.next op)

/-- `ReleasePeerMemory(p)` leaves no entry for `p`, and creates no entry for anybody. -/
theorem releasePeer_absent {pick : Pick} (hp : Admissible pick) {s : State} (hw : WF s) (p q : Nat)
    (h : q = p ∨ findPeer s.peers q = none) : findPeer (releasePeer pick s p).1.peers q = none := by
  cases hf : findPeer s.peers p with
  | none =>
    have : releasePeer pick s p = (s, [Event.errNoPeer]) := by
      unfold releasePeer releasePeerCore; simp [hf]
    rw [this]
    rcases h with h | h
    · rw [h]; exact hf
    · exact h
  | some st =>
    unfold releasePeer
    rw [releasePeerCore_some hw hf]
    apply (processPending_absent hp (releasePeerCore_WF hw hf) _).1
    show findPeer (erasePeer s.peers p) q = none
    rw [findPeer_erasePeer]
    rcases h with h | h
    · simp [h]
    · split
      · rfl
      · exact h

theorem peers_nil_of_all_absent {ps : List PeerSt} (h : ∀ q, findPeer ps q = none) : ps = [] := by
  cases ps with
  | nil => rfl
  | cons a r => have := h a.id; rw [findPeer_cons] at this; simp at this

theorem sum_eq_zero_of_forall {l : List PeerSt} (f : PeerSt → Nat) (h : ∀ x ∈ l, f x = 0) :
    (l.map f).sum = 0 := by
  induction l with
  | nil => rfl
  | cons a r ih =>
    simp only [List.map_cons, List.sum_cons]
    rw [h a (by simp), ih (fun x hx => h x (List.mem_cons_of_mem _ hx))]

/-- the per-peer totals, listed through `allocatedFor` -/
theorem map_total_eq {s : State} (hw : WF s) :
    s.peers.map (·.total) = (ids s.peers).map (allocatedFor s) := by
  simp only [ids, List.map_map]
  apply List.map_congr_left
  intro st hst
  simp only [Function.comp, allocatedFor_eq]
  exact (totalIn_of_mem hw.nodup hst).symm

/-! ## the model with plain `+`

`add64` (Go's wrapping `uint64` addition) occurs in exactly two functions of the model: `alloc` and
`loopStep`; everything else is built from these two.  `allocPlain` / `loopStepPlain` are verbatim
copies with `add64` replaced by `+`.  For every state whose limits are `uint64` values the copies
coincide with the originals — i.e. no addition of the model can ever wrap. -/

def allocPlain (s : State) (p amount ticket : Nat) : State × List Event :=
  let r := getOrNew s.peers p
  let st := r.1
  let peers := r.2
  if fits s.total amount s.maxTotal && fits st.total amount s.maxPeer && st.pending.isEmpty then
    let st' := { st with total := st.total + amount }
    ({ s with total := s.total + amount, peers := setPeer peers st' },
     [Event.granted p ticket amount])
  else
    let st' := { st with pending := st.pending ++ [{ amount, idx := s.nextIdx, ticket }] }
    ({ s with nextIdx := s.nextIdx + 1, peers := setPeer peers st' }, [])

def loopStepPlain (pick : Pick) (s : State) : Option (State × List Event) :=
  match pick s.maxPeer s.peers with
  | none => none
  | some np =>
    match np.pending with
    | h :: rest =>
      if !fits s.total h.amount s.maxTotal then none
      else if !fits np.total h.amount s.maxPeer then none
      else
        let np' := { np with total := np.total + h.amount, pending := rest }
        some ({ s with total := s.total + h.amount, peers := setPeer s.peers np' },
              [Event.granted np.id h.ticket h.amount])
    | [] =>
      if np.total > 0 then none
      else some ({ s with peers := erasePeer s.peers np.id }, [])

theorem alloc_eq_plain {s : State} (hT : s.maxTotal < W) (hP : s.maxPeer < W) (p a t : Nat) :
    alloc s p a t = allocPlain s p a t := by
  unfold alloc allocPlain
  simp only []
  split
  · next hc =>
    simp only [Bool.and_eq_true, fits_iff] at hc
    rw [add64_eq_add (Nat.lt_of_le_of_lt hc.1.1 hT), add64_eq_add (Nat.lt_of_le_of_lt hc.1.2 hP)]
  · rfl

theorem loopStep_eq_plain {s : State} (hT : s.maxTotal < W) (hP : s.maxPeer < W) (pick : Pick) :
    loopStep pick s = loopStepPlain pick s := by
  unfold loopStep loopStepPlain
  cases hpk : pick s.maxPeer s.peers with
  | none => rfl
  | some np =>
    simp only []
    rcases hpe : np.pending with _ | ⟨h, rest⟩
    · rfl
    · simp only []
      cases h1 : fits s.total h.amount s.maxTotal with
      | false => rfl
      | true =>
        cases h2 : fits np.total h.amount s.maxPeer with
        | false => rfl
        | true =>
          simp only [Bool.not_true, Bool.false_eq_true, if_false]
          rw [add64_eq_add (Nat.lt_of_le_of_lt ((fits_iff _ _ _).mp h1) hT),
            add64_eq_add (Nat.lt_of_le_of_lt ((fits_iff _ _ _).mp h2) hP)]

end GS.Alloc
