/-
C07 — Link budgets cap loaded blocks exactly.

  "When a link budget N applies to a request (the smaller non-zero of the global and per-request
   limits, on either peer), the peer enforcing it loads at most N blocks for that request.  If the
   selector traversal needs at most N blocks the budget never causes a failure, and if it needs
   more the request fails with a budget-exceeded error after exactly N blocks."

"needs k blocks" = the unbudgeted traversal performs k link loads (root included, loads that are
answered "missing" included) = `need avail t`, for the link tree `t` of the DAG + selector and the
store `avail` of the peer (quantified over all finite link trees and all stores).

The root check of ipldutil/traverser.go, go-ipld-prime's checkLinkBudget, and the selection /
conversion of the limit in requestmanager/server.go and responsemanager/server.go are the
*generated* definitions of GS/Generated/Budget.lean; `root_is_charge`, `link_is_charge`,
`pick_eq` are the facts about them everything else rests on.
-/
import GS.Model.BudgetRun
import GSProofs.Lemmas.Budget
namespace GS.C07
open GS.Budget GS.Generated.Budget

/-! ### facts about the generated shapes -/

/-- evaluates a generated step list on a symbolic counter and closes the arithmetic with omega,
    whatever comparison (`<= 0`, `< 1`, `== 0` …) the Go code spells the test with -/
macro "charge_tac" : tactic => `(tactic| (
  simp only [runSteps, Cmp.eval, decide_eq_true_eq, beq_iff_eq, bne_iff_ne]
  repeat' split
  all_goals (first | omega | (simp only [Option.some.injEq]; omega) | (exfalso; omega) | simp_all)))

/-- traverser.start lets every budget N = k+1 >= 1 through and charges exactly one link for the
    root — true after fix 408e52a; before it the steps were `[dec 1, failIf le 0]`, for which this
    is false at k = 0 (budget 1).  (Budgets <= 0 are outside the property and not constrained here.) -/
theorem root_is_charge : ∀ k : Nat, runSteps rootCheck ((k + 1 : Nat) : Int) = some (k : Int) := by
  intro k; unfold rootCheck; charge_tac

/-- go-ipld-prime's checkLinkBudget: fail on an exhausted counter, else charge one link -/
theorem link_is_charge : IsCharge linkCheck := by
  intro n
  cases n with
  | zero => unfold linkCheck; charge_tac
  | succ k =>
    have : runSteps linkCheck ((k + 1 : Nat) : Int) = some (k : Int) := by unfold linkCheck; charge_tac
    rw [this]; simp

/-- the root is charged before it is loaded, and WalkAdv continues on the same counter; `run`
    branches on both flags, and every theorem below rewrites with these two facts -/
theorem wiring : rootCheckBeforeLoad = true ∧ sharedCounter = true := ⟨rfl, rfl⟩

/-! ### the traversal under a budget handed to the TraversalBuilder -/

theorem unbudgeted_loads (avail : Cid → Bool) (t : LT) :
    (traverse avail none t).loads = trav avail t := by
  cases t with
  | node c kids => by_cases h : avail c = true <;> simp [traverse, run, trav, h]

theorem unbudgeted_never_budget_error (avail : Cid → Bool) (t : LT) :
    (traverse avail none t).outcome ≠ .budgetExceeded := by
  cases t with
  | node c kids => by_cases h : avail c = true <;> simp [traverse, run, h]

/-- closed form of a budgeted run, N ≥ 1 -/
theorem traverse_budget (avail : Cid → Bool) (c : Cid) (kids : List LT) (k : Nat) :
    traverse avail (some ((k + 1 : Nat) : Int)) (.node c kids) =
      if avail c then
        (if (travL avail kids).length ≤ k then ⟨c :: travL avail kids, .ok⟩
         else ⟨c :: (travL avail kids).take k, .budgetExceeded⟩)
      else ⟨[c], .rootMissing⟩ := by
  unfold traverse run walkKids
  simp only [wiring.1, wiring.2, if_true, root_is_charge k]
  rw [travBL_eq linkCheck link_is_charge avail kids k]
  unfold expect
  by_cases ha : avail c = true
  · by_cases hl : (travL avail kids).length ≤ k <;> simp [ha, hl]
  · simp [ha]

/-- **cap**: under a budget N ≥ 1 at most N blocks are loaded -/
theorem cap (avail : Cid → Bool) (t : LT) (N : Nat) (hN : 1 ≤ N) :
    (traverse avail (some (N : Int)) t).loads.length ≤ N := by
  obtain ⟨k, rfl⟩ : ∃ k, N = k + 1 := ⟨N - 1, by omega⟩
  cases t with
  | node c kids =>
    rw [traverse_budget]
    by_cases ha : avail c = true
    · by_cases hl : (travL avail kids).length ≤ k
      · simp [ha, hl]
      · simp [ha, hl]; omega
    · simp [ha]

/-- **enough**: if the traversal needs at most N blocks, the budgeted run *is* the unbudgeted run
    (same loads, same outcome — in particular never a budget error) -/
theorem enough (avail : Cid → Bool) (t : LT) (N : Nat) (hN : 1 ≤ N) (h : need avail t ≤ N) :
    traverse avail (some (N : Int)) t = traverse avail none t := by
  obtain ⟨k, rfl⟩ : ∃ k, N = k + 1 := ⟨N - 1, by omega⟩
  cases t with
  | node c kids =>
    rw [traverse_budget]
    by_cases ha : avail c = true
    · have hl : (travL avail kids).length ≤ k := by
        simp [need, trav, ha] at h; omega
      simp [traverse, run, ha, hl]
    · simp [traverse, run, ha]

theorem enough_no_failure (avail : Cid → Bool) (t : LT) (N : Nat) (hN : 1 ≤ N)
    (h : need avail t ≤ N) :
    (traverse avail (some (N : Int)) t).outcome ≠ .budgetExceeded := by
  rw [enough avail t N hN h]; exact unbudgeted_never_budget_error avail t

/-- **exact**: if the traversal needs more than N blocks, the run fails with the budget error
    after loading exactly N blocks, and they are the first N loads of the unbudgeted run -/
theorem exact (avail : Cid → Bool) (t : LT) (N : Nat) (hN : 1 ≤ N) (h : need avail t > N) :
    (traverse avail (some (N : Int)) t).outcome = .budgetExceeded ∧
    (traverse avail (some (N : Int)) t).loads = (trav avail t).take N ∧
    (traverse avail (some (N : Int)) t).loads.length = N := by
  obtain ⟨k, rfl⟩ : ∃ k, N = k + 1 := ⟨N - 1, by omega⟩
  cases t with
  | node c kids =>
    rw [traverse_budget]
    by_cases ha : avail c = true
    · have hl : ¬ (travL avail kids).length ≤ k := by
        simp [need, trav, ha] at h; omega
      simp [ha, hl, trav]; omega
    · simp [need, trav, ha] at h

/-! ### "blocks": load attempts vs. successful loads

go-ipld-prime charges the counter in `loadLink` *before* the load is attempted (checkLinkBudget, then
`LinkSystem.Load`), and graphsync answers a block it does not have with `traversal.SkipMe`: the charge
stays.  So the budget counts load **attempts** (`loads`, `need`), which is how `cap` / `enough` / `exact`
above read "blocks".  Under the other reading (blocks actually loaded = attempts whose block is
available) `cap` still holds, `exact` becomes "at most N", and `enough` is false of the code. -/

/-- blocks actually loaded among the attempts -/
def successes (avail : Cid → Bool) (loads : List Cid) : Nat := (loads.filter avail).length

/-- cap, successful-loads reading -/
theorem cap_success (avail : Cid → Bool) (t : LT) (N : Nat) (hN : 1 ≤ N) :
    successes avail (traverse avail (some (N : Int)) t).loads ≤ N :=
  Nat.le_trans (List.length_filter_le _ _) (cap avail t N hN)

/-- exact, successful-loads reading: the budget error comes after N attempts, of which at most N
    (possibly fewer, see `exact_success_strict`) loaded a block -/
theorem exact_success (avail : Cid → Bool) (t : LT) (N : Nat) (hN : 1 ≤ N) (h : need avail t > N) :
    (traverse avail (some (N : Int)) t).outcome = .budgetExceeded ∧
    successes avail (traverse avail (some (N : Int)) t).loads ≤ N :=
  ⟨(exact avail t N hN h).1, cap_success avail t N hN⟩

/-- root 0 present, children 1 and 2 missing, child 3 present -/
def exMissing : LT := .node 0 [.node 1 [], .node 2 [], .node 3 []]
def exAvail : Cid → Bool := fun c => c == 0 || c == 3

/-- with misses the failure can come after fewer than N *successful* loads (here 1 of N = 3) -/
theorem exact_success_strict :
    need exAvail exMissing > 3 ∧ (traverse exAvail (some 3) exMissing).outcome = .budgetExceeded ∧
    successes exAvail (traverse exAvail (some 3) exMissing).loads = 1 := by decide

/-- `enough` is false under the successful-loads reading: this traversal loads only 2 blocks
    (root and child 3) when unbudgeted, yet fails under budget 3 because the two misses are charged.
    The property is therefore stated (and holds) for load attempts. -/
theorem enough_success_counterexample :
    successes exAvail (trav exAvail exMissing) ≤ 3 ∧
    (traverse exAvail (some 3) exMissing).outcome = .budgetExceeded := by decide

/-! ### which budget applies: the smaller non-zero of the global and the per-request limit -/

/-- the property's "smaller non-zero of the two, 0 = none" -/
def effective (g p : Nat) : Nat := if g = 0 then p else if p = 0 then g else min g p

/-- any Boolean condition equivalent to "global is 0, or per-request is non-zero and smaller"
    selects the effective limit (keeps `pick_eq` independent of how the Go condition is spelled) -/
theorem pick_of_cond (g p : Nat) (c : Bool) (hc : c = true ↔ (g = 0 ∨ (p ≠ 0 ∧ p < g))) :
    (if c then p else g) = effective g p := by
  unfold effective
  have cfalse : ¬ (g = 0 ∨ (p ≠ 0 ∧ p < g)) → c = false := by
    intro hn
    cases hcc : c
    · rfl
    · exact absurd (hc.1 hcc) hn
  by_cases hg : g = 0
  · have hct : c = true := hc.2 (Or.inl hg)
    simp [hct, hg]
  · by_cases hp : p = 0
    · have hcf : c = false := cfalse (by omega)
      simp [hcf, hg, hp]
    · by_cases hlt : p < g
      · have hct : c = true := hc.2 (Or.inr ⟨hp, hlt⟩)
        simp [hct, hg, hp, Nat.min_eq_right (Nat.le_of_lt hlt)]
      · have hcf : c = false := cfalse (by omega)
        simp [hcf, hg, hp, Nat.min_eq_left (Nat.le_of_not_gt hlt)]

/-- turns a Boolean condition over `g p` into a linear-arithmetic proposition and decides the
    equivalence with omega, whatever the spelling of the Go condition (operand order, `!`, parentheses) -/
macro "cond_iff" : tactic => `(tactic| (
  simp only [Bool.or_eq_true, Bool.and_eq_true, beq_iff_eq, bne_iff_ne, ne_eq, decide_eq_true_eq,
    Bool.not_eq_true', Bool.not_eq_false', decide_eq_false_iff_not, beq_eq_false_iff_ne,
    Bool.or_eq_false_iff, Bool.and_eq_false_imp, Nat.not_lt, Nat.not_le, gt_iff_lt, ge_iff_le]
  <;> try omega))

/-- **select** (both peers): the generated selection expression is `effective` -/
theorem pick_eq (side : Side) (g p : Nat) : pick side g p = effective g p := by
  cases side
  · exact pick_of_cond g p _ (by cond_iff)
  · exact pick_of_cond g p _ (by cond_iff)

theorem guard_eq (side : Side) (m : Nat) : guard side m = decide (m > 0) := by
  cases side <;> rfl

theorem clamp_on (side : Side) : clamp side = true := by cases side <;> rfl

/-- **select**, as a budget: no limit configured = nil budget; otherwise the effective limit,
    clamped to int64 (fix 93d1464; before it, limits >= 2^63 became negative budgets) -/
theorem linkBudget_eq (side : Side) (g p : Nat) (hg : g < 2 ^ 64) (hp : p < 2 ^ 64) :
    linkBudget side g p =
      if effective g p = 0 then none else some ((min (effective g p) (2 ^ 63 - 1) : Nat) : Int) := by
  have he : effective g p < 2 ^ 64 := by
    unfold effective; split
    · exact hp
    · split
      · exact hg
      · exact Nat.lt_of_le_of_lt (Nat.min_le_left _ _) hg
  unfold linkBudget
  simp only [pick_eq, guard_eq, clamp_on, Bool.true_and]
  generalize effective g p = m at he ⊢
  by_cases h0 : m = 0
  · simp [h0]
  · have hpos : m > 0 := Nat.pos_of_ne_zero h0
    simp only [h0, if_false, hpos, decide_true, if_true]
    congr 1
    by_cases hbig : (m : Int) > maxInt64
    · have : min m (2 ^ 63 - 1) = 2 ^ 63 - 1 := by
        unfold maxInt64 at hbig; omega
      have hb' : (9223372036854775807 : Int) < (m : Int) := by unfold maxInt64 at hbig; exact hbig
      simp [this, castInt64, maxInt64, hb']
    · have hm : min m (2 ^ 63 - 1) = m := by
        unfold maxInt64 at hbig; omega
      have h64 : m % 18446744073709551616 = m := Nat.mod_eq_of_lt (by simpa using he)
      have hlt : m < 9223372036854775808 := by unfold maxInt64 at hbig; omega
      simp [hbig, hm, castInt64, h64, hlt]

/-! ### the three parts of the property on either peer, for uint64 limits -/

/-- at most N blocks, N = the effective limit (any uint64 values) -/
theorem serve_cap (side : Side) (avail : Cid → Bool) (g p : Nat) (hg : g < 2 ^ 64) (hp : p < 2 ^ 64)
    (t : LT) (hN : 1 ≤ effective g p) :
    (serve side avail g p t).loads.length ≤ effective g p := by
  unfold serve
  rw [linkBudget_eq side g p hg hp]
  have : effective g p ≠ 0 := by omega
  simp only [this, if_false]
  have hm : 1 ≤ min (effective g p) (2 ^ 63 - 1) := by omega
  exact Nat.le_trans (cap avail t _ hm) (Nat.min_le_left _ _)

/-- no limit configured: the traversal runs without a budget -/
theorem serve_unlimited (side : Side) (avail : Cid → Bool) (t : LT) :
    serve side avail 0 0 t = traverse avail none t := by
  unfold serve
  rw [linkBudget_eq side 0 0 (by decide) (by decide)]
  simp [effective]

/-- enough: needs ≤ N blocks ⇒ same result as without a budget.
    (`need < 2^63`: the counter is an int64; no traversal performs 2^63 link loads.) -/
theorem serve_enough (side : Side) (avail : Cid → Bool) (g p : Nat) (hg : g < 2 ^ 64) (hp : p < 2 ^ 64)
    (t : LT) (hN : 1 ≤ effective g p) (h : need avail t ≤ effective g p) (hphys : need avail t < 2 ^ 63) :
    serve side avail g p t = traverse avail none t := by
  unfold serve
  rw [linkBudget_eq side g p hg hp]
  have : effective g p ≠ 0 := by omega
  simp only [this, if_false]
  exact enough avail t _ (by omega) (by omega)

/-- exact: needs more than N blocks ⇒ budget error after exactly the first N loads -/
theorem serve_exact (side : Side) (avail : Cid → Bool) (g p : Nat) (hg : g < 2 ^ 64) (hp : p < 2 ^ 64)
    (t : LT) (hN : 1 ≤ effective g p) (h : need avail t > effective g p) (hphys : need avail t < 2 ^ 63) :
    (serve side avail g p t).outcome = .budgetExceeded ∧
    (serve side avail g p t).loads = (trav avail t).take (effective g p) ∧
    (serve side avail g p t).loads.length = effective g p := by
  unfold serve
  rw [linkBudget_eq side g p hg hp]
  have : effective g p ≠ 0 := by omega
  simp only [this, if_false]
  have hm : min (effective g p) (2 ^ 63 - 1) = effective g p := by omega
  rw [hm]
  exact exact avail t _ hN h

/-! ### non-vacuity / boundary (tests of the statements on concrete trees) -/

def exTree : LT := .node 9 [.node 3 [.node 1 [], .node 1 []], .node 4 [.node 1 []], .node 5 []]

example : need (fun _ => true) exTree = 7 := by decide
example : need (fun c => c != 3) exTree = 5 := by decide
/-- N = 1 on a single block (the case that failed before fix 408e52a) -/
example : traverse (fun _ => true) (some 1) (.node 0 []) = ⟨[0], .ok⟩ := by decide
example : traverse (fun _ => true) (some 1) exTree = ⟨[9], .budgetExceeded⟩ := by decide
example : traverse (fun _ => true) (some 7) exTree = traverse (fun _ => true) none exTree := by decide
example : (traverse (fun _ => true) (some 6) exTree).outcome = .budgetExceeded := by decide
example : effective 0 5 = 5 ∧ effective 5 0 = 5 ∧ effective 3 5 = 3 ∧ effective 5 3 = 3 ∧ effective 0 0 = 0 := by decide

end GS.C07
