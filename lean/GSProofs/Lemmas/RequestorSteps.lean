import GS.Model.Requestor
import GSProofs.Lemmas.LoaderInv
import GSProofs.Lemmas.LoaderFrame
/-!
The requestor's event stream is a depth-first walk of the link tree (`Steps`), whatever messages
arrive: every step either delivers the node the cursor points at (optionally after writing that
node's block, with that node's content), or skips its subtree with a missing-block error naming it,
or is a control event that does not move the cursor.
-/
namespace GS.Requestor
open GS.Loader

/-- events that do not move the traversal cursor and touch neither the store nor the caller's nodes -/
def Ev.isCtl : Ev → Bool
  | .sentNew _ | .sentCancel | .err _ => true
  | _ => false

/-- `Steps t evs t'`: the events `evs` are a walk of the pre-order link tree from cursor `t` to `t'` -/
inductive Steps : LT → List Ev → LT → Prop where
  | done (t : LT) : Steps t [] t
  | ctl {t t' : LT} {evs : List Ev} (ev : Ev) (h : ev.isCtl = true) :
      Steps t evs t' → Steps t (ev :: evs) t'
  | data {rest t' : LT} {evs : List Ev} (n : LNode) (wrote : Bool) (loc : Bool) (i : Nat) :
      Steps rest evs t' →
      Steps (n :: rest)
        ((if wrote then [Ev.write n.cid n.cid] else []) ++
          Ev.block n.cid n.path loc i :: Ev.prog n.vData :: evs) t'
  | skip {rest t' : LT} {evs : List Ev} (n : LNode) :
      Steps (rest.dropWhile (fun m => m.depth > n.depth)) evs t' →
      Steps (n :: rest) (Ev.err (.load (.missing n.cid n.path)) :: Ev.prog n.vSkip :: evs) t'

theorem Steps.append {a b c : LT} {e1 e2 : List Ev} (h1 : Steps a e1 b) (h2 : Steps b e2 c) :
    Steps a (e1 ++ e2) c := by
  induction h1 with
  | done t => simpa using h2
  | ctl ev h _ ih => exact Steps.ctl ev h (ih h2)
  | data n w l i _ ih =>
    have := Steps.data n w l i (ih h2)
    simpa [List.append_assoc] using this
  | skip n _ ih => exact Steps.skip n (ih h2)

theorem Steps.ctls {t : LT} (evs : List Ev) (h : ∀ e ∈ evs, e.isCtl = true) : Steps t evs t := by
  induction evs with
  | nil => exact Steps.done t
  | cons e rest ih =>
    exact Steps.ctl e (h e (List.mem_cons_self ..)) (ih (fun e' he' => h e' (List.mem_cons_of_mem _ he')))

/-- what the requestor needs to know about the result of loading node `n` -/
structure LoadFact (n : LNode) (r : Result) : Prop where
  write : r.write = none ∨ r.write = some (n.cid, n.cid)
  werr  : r.write ≠ none → r.err = none
  miss  : ∀ c p, r.err = some (.missing c p) → c = n.cid ∧ p = n.path

theorem LoadFact.ofShape {n : LNode} {r : Result} {st st' : List (Cid × Blk)}
    (h : RunShape st n.cid st' r)
    (hm : ∀ c p, r.err = some (.missing c p) → c = n.cid ∧ p = n.path) : LoadFact n r := by
  cases h with
  | noWrite hw _ _ => exact ⟨Or.inl hw, fun h => absurd hw h, hm⟩
  | remote b hw hb _ _ he _ => subst hb; exact ⟨Or.inr hw, fun _ => he, hm⟩

theorem finish_spec (s : State) :
    (∀ e ∈ (finish s).2, e.isCtl = true) ∧ (finish s).1.todo = s.todo ∧
    (finish s).1.L = Loader.cleanup s.L ∧ (finish s).1.phase = .finished := by
  unfold finish
  dsimp only
  refine ⟨?_, rfl, rfl, rfl⟩
  intro e he
  split at he
  · simp at he; subst he; rfl
  · simp at he

theorem failWith_spec (s : State) (e : RErr) :
    (∀ ev ∈ (failWith s e).2, ev.isCtl = true) ∧ (failWith s e).1.todo = s.todo ∧
    (failWith s e).1.L = Loader.cleanup (Loader.setOnline s.L false) ∧
    (failWith s e).1.phase = .finished := by
  unfold failWith
  dsimp only
  have := finish_spec { s with L := Loader.setOnline s.L false }
  refine ⟨?_, this.2.1, this.2.2.1, this.2.2.2⟩
  intro ev hev
  simp only [List.cons_append, List.nil_append, List.mem_cons] at hev
  rcases hev with rfl | rfl | hev
  · rfl
  · rfl
  · exact this.1 ev hev

/-- the loader of the state after `handle` is the old one, possibly switched offline and cleaned up -/
inductive LAfter (l : Loader.State) : Loader.State → Prop where
  | same : LAfter l l
  | fin : LAfter l (Loader.cleanup l)
  | fail : LAfter l (Loader.cleanup (Loader.setOnline l false))

theorem LAfter.inv {l l' : Loader.State} (h : LAfter l l') (hi : Inv l) : Inv l' := by
  cases h with
  | same => exact hi
  | fin => exact hi.cleanup
  | fail => exact (hi.setOnline false).cleanup

theorem LAfter.pending {l l' : Loader.State} (h : LAfter l l') : l'.pending = l.pending := by
  cases h with
  | same => rfl
  | fin => rfl
  | fail => exact (setOnline_frame l false).1

theorem handle_steps (s : State) (n : LNode) (rest : LT) (r : Result) (hf : LoadFact n r)
    (htodo : s.todo = n :: rest) :
    Steps (n :: rest) (handle s n rest r).2.1 (handle s n rest r).1.todo ∧
    LAfter s.L (handle s n rest r).1.L ∧
    ((handle s n rest r).2.2 = false → (handle s n rest r).1.phase = .finished) ∧
    ((handle s n rest r).2.2 = true → (handle s n rest r).1.phase = s.phase) := by
  have hwev : writeEvs r = [] ∨ writeEvs r = [Ev.write n.cid n.cid] := by
    unfold writeEvs
    rcases hf.write with h | h <;> simp [h]
  have hwerr : r.err ≠ none → writeEvs r = [] := by
    intro he
    unfold writeEvs
    cases hw : r.write with
    | none => rfl
    | some cb => exact absurd (hf.werr (by simp [hw])) he
  unfold handle
  split
  · -- data
    dsimp only
    refine ⟨?_, LAfter.same, (fun h => by cases h), fun _ => rfl⟩
    rcases hwev with h | h
    · rw [h]; exact Steps.data n false r.loc _ (Steps.done rest)
    · rw [h]; exact Steps.data n true r.loc _ (Steps.done rest)
  · rename_i e he
    have hw0 := hwerr (by simp [he])
    split
    · -- context cancelled
      have hfin := finish_spec s
      dsimp only
      refine ⟨?_, ?_, fun _ => hfin.2.2.2, (fun h => by cases h)⟩
      · rw [hw0, hfin.2.1, htodo]
        exact Steps.ctls _ hfin.1
      · rw [hfin.2.2.1]; exact LAfter.fin
    · split
      · rename_i c p
        split
        · -- missing root
          have hfw := failWith_spec s .other
          dsimp only
          refine ⟨?_, ?_, fun _ => hfw.2.2.2, (fun h => by cases h)⟩
          · rw [hw0, hfw.2.1, htodo]
            apply Steps.ctls
            intro ev hev
            simp only [List.nil_append, List.cons_append, List.mem_cons] at hev
            rcases hev with rfl | hev
            · rfl
            · exact hfw.1 ev hev
          · rw [hfw.2.2.1]; exact LAfter.fail
        · -- missing below the root: skip the subtree
          dsimp only
          refine ⟨?_, LAfter.same, (fun h => by cases h), fun _ => rfl⟩
          obtain ⟨hc, hp⟩ := hf.miss c p he
          subst hc; subst hp
          rw [hw0]
          exact Steps.skip n (Steps.done _)
      · -- any other load error ends the traversal
        rename_i hnm
        have hfw := failWith_spec s (.load e)
        dsimp only
        refine ⟨?_, ?_, fun _ => hfw.2.2.2, (fun h => by cases h)⟩
        · rw [hw0, hfw.2.1, htodo]
          apply Steps.ctls
          intro ev hev
          simp only [List.nil_append, List.cons_append, List.mem_cons] at hev
          rcases hev with rfl | hev
          · rfl
          · exact hfw.1 ev hev
        · rw [hfw.2.2.1]; exact LAfter.fail


theorem loadNode_spec (s : State) (n : LNode) (hi : Inv s.L) :
    Inv (loadNode s n).1.L ∧ (loadNode s n).1.todo = s.todo ∧ (loadNode s n).1.phase = s.phase ∧
    (∀ e ∈ (loadNode s n).2.1, e.isCtl = true) ∧
    ((loadNode s n).2.2 = none → (loadNode s n).1.L.pending = some (n.path, n.cid)) ∧
    (∀ r, (loadNode s n).2.2 = some r → (loadNode s n).1.L.pending = none ∧ LoadFact n r) := by
  have hl := load_spec s.L n.path n.cid hi
  have hp := load_pending s.L n.path n.cid
  have hm := load_missing s.L n.path n.cid
  unfold loadNode
  generalize Loader.load s.L n.path n.cid = ld at hl hp hm
  obtain ⟨l1, out⟩ := ld
  cases out with
  | blocked =>
    dsimp only
    exact ⟨hl.1, rfl, rfl, by simp, fun _ => hp.1 rfl, (fun r h => by cases h)⟩
  | done r =>
    dsimp only
    by_cases hc : (isMiss r && !s.requestSent) = true
    · -- first local miss: go online, send the request, retry
      rw [if_pos hc]
      have hi2 : Inv (Loader.setOnline l1 true) := hl.1.setOnline true
      obtain ⟨hpn, u, hmra⟩ := hp.2 r rfl
      have hmra2 : (Loader.setOnline l1 true).mra = some ⟨n.cid, n.path, r.err.isNone, u⟩ := by
        rw [(setOnline_frame l1 true).2.1]; exact hmra
      have hpn2 : (Loader.setOnline l1 true).pending = none := by
        rw [(setOnline_frame l1 true).1]; exact hpn
      have hr := retry_spec (Loader.setOnline l1 true) hi2
      obtain ⟨s2, hre, _, _, hs2p⟩ := retry_eq (Loader.setOnline l1 true) _ hmra2
      have hp2 := load_pending s2 n.path n.cid
      have hm2 := load_missing s2 n.path n.cid
      dsimp only at hre
      rw [← hre] at hp2 hm2
      generalize Loader.retry (Loader.setOnline l1 true) = rt at hr hp2 hm2
      obtain ⟨l3, out2⟩ := rt
      cases out2 with
      | blocked =>
        dsimp only
        refine ⟨hr.1, rfl, rfl, ?_, fun _ => hp2.1 rfl, (fun r h => by cases h)⟩
        intro e he; simp at he; subst he; rfl
      | done r2 =>
        dsimp only
        refine ⟨hr.1, rfl, rfl, ?_, (fun h => by cases h), ?_⟩
        · intro e he; simp at he; subst he; rfl
        · intro r' hr'
          simp only [Option.some.injEq] at hr'
          subst hr'
          refine ⟨(hp2.2 r2 rfl).1, ?_⟩
          rcases hr.2 with ⟨hnone, _⟩ | ⟨a, ha, hsh⟩
          · rw [hmra2] at hnone; cases hnone
          · rw [hmra2] at ha
            simp only [Option.some.injEq] at ha
            subst ha
            exact LoadFact.ofShape hsh (hm2 r2 rfl)
    · rw [if_neg hc]
      dsimp only
      refine ⟨hl.1, rfl, rfl, by simp, (fun h => by cases h), ?_⟩
      intro r' hr'
      simp only [Option.some.injEq] at hr'
      subst hr'
      exact ⟨(hp.2 r rfl).1, LoadFact.ofShape hl.2 (hm r rfl)⟩

structure RInv (s : State) : Prop where
  linv : Inv s.L
  pend : ∀ p c, s.L.pending = some (p, c) → ∃ n rest, s.todo = n :: rest ∧ n.cid = c ∧ n.path = p

theorem drive_steps (fuel : Nat) (s : State) (hi : Inv s.L) (hp : s.L.pending = none) :
    Steps s.todo (drive fuel s).2 (drive fuel s).1.todo ∧ RInv (drive fuel s).1 := by
  induction fuel generalizing s with
  | zero =>
    exact ⟨Steps.done _, hi, fun p c h => by simp [drive] at h; rw [hp] at h; cases h⟩
  | succ k ih =>
    unfold drive
    split
    · exact ⟨Steps.done _, hi, fun p c h => by rw [hp] at h; cases h⟩
    · split
      · -- traversal complete
        have hf := finish_spec s
        refine ⟨?_, ?_, ?_⟩
        · rw [hf.2.1]; exact Steps.ctls _ hf.1
        · rw [hf.2.2.1]; exact hi.cleanup
        · intro p c h; rw [hf.2.2.1] at h; change s.L.pending = _ at h; rw [hp] at h; cases h
      · rename_i n rest htodo
        have hn := loadNode_spec s n hi
        generalize loadNode s n = ln at hn
        obtain ⟨s1, ev1, res⟩ := ln
        obtain ⟨hi1, htd1, _, hctl1, hnone, hsome⟩ := hn
        simp only at hi1 htd1 hctl1 hnone hsome
        cases res with
        | none =>
          dsimp only
          refine ⟨?_, hi1, ?_⟩
          · rw [htd1, htodo]; rw [htodo] at htd1; exact Steps.ctls _ hctl1
          · intro p c h
            rw [hnone rfl] at h
            simp only [Option.some.injEq, Prod.mk.injEq] at h
            exact ⟨n, rest, by rw [htd1, htodo], h.2, h.1⟩
        | some r =>
          dsimp only
          obtain ⟨hp1, hfact⟩ := hsome r rfl
          have hh := handle_steps s1 n rest r hfact (by rw [htd1, htodo])
          generalize handle s1 n rest r = hd at hh
          obtain ⟨s2, evs, go⟩ := hd
          obtain ⟨hst, hla, hfalse, _⟩ := hh
          simp only at hst hla hfalse
          have hi2 : Inv s2.L := hla.inv hi1
          have hp2 : s2.L.pending = none := by rw [hla.pending]; exact hp1
          have hpre : Steps (n :: rest) (ev1 ++ evs) s2.todo :=
            Steps.append (Steps.ctls _ hctl1) hst
          cases go with
          | true =>
            dsimp only
            have := ih s2 hi2 hp2
            refine ⟨?_, this.2⟩
            rw [htodo]
            exact Steps.append hpre this.1
          | false =>
            dsimp only
            rw [htodo]
            exact ⟨hpre, hi2, fun p c h => by rw [hp2] at h; cases h⟩


theorem resume_steps (s : State) (h : RInv s) :
    Steps s.todo (resume s).2 (resume s).1.todo ∧ RInv (resume s).1 := by
  obtain ⟨L, todo, phase, rs, nb, us, cc, te⟩ := s
  have hw := wake_spec L h.linv
  unfold resume
  dsimp only
  cases hpd : L.pending with
  | none =>
    rw [wake_none L hpd]
    exact ⟨Steps.done _, h.linv, fun p c hh => by simp only at hh; rw [hpd] at hh; cases hh⟩
  | some pc =>
    obtain ⟨p, c⟩ := pc
    obtain ⟨n, rest, htodo, hc, hpth⟩ := h.pend p c hpd
    simp only at htodo
    subst htodo; subst hc; subst hpth
    have hws := wake_some L n.path n.cid hpd
    have hrp := run_pending L n.path n.cid
    have hrm := run_missing L n.path n.cid
    cases hrun : Loader.run L n.path n.cid with
    | mk l1 out =>
      rw [hrun] at hrp hrm
      cases out with
      | blocked =>
        rw [hws.2 l1 hrun] at hw ⊢
        refine ⟨Steps.done _, hw.1, ?_⟩
        intro p c hh
        simp only at hh
        rw [hrp.1 rfl] at hh
        simp only [Option.some.injEq, Prod.mk.injEq] at hh
        exact ⟨n, rest, rfl, hh.2, hh.1⟩
      | done r =>
        rw [hws.1 r l1 hrun] at hw ⊢
        obtain ⟨hi1, p', c', hpc, hsh⟩ := hw
        rw [hpd] at hpc
        simp only [Option.some.injEq, Prod.mk.injEq] at hpc
        obtain ⟨rfl, rfl⟩ := hpc
        simp only at hi1 hsh
        have hfact : LoadFact n r := LoadFact.ofShape hsh (hrm r rfl)
        dsimp only
        have hh := handle_steps ⟨l1, n :: rest, phase, rs, nb, us, cc, te⟩ n rest r hfact rfl
        generalize handle ⟨l1, n :: rest, phase, rs, nb, us, cc, te⟩ n rest r = hd at hh
        obtain ⟨s2, evs, go⟩ := hd
        obtain ⟨hst, hla, _, _⟩ := hh
        simp only at hst hla
        have hi2 : Inv s2.L := hla.inv hi1
        have hp2 : s2.L.pending = none := by rw [hla.pending]; exact (hrp.2 r rfl).1
        cases go with
        | true =>
          dsimp only
          have := drive_steps (fuelFor s2) s2 hi2 hp2
          exact ⟨Steps.append hst this.1, this.2⟩
        | false =>
          dsimp only
          exact ⟨hst, hi2, fun p c hh => by rw [hp2] at hh; cases hh⟩

theorem applyStatus_spec (s : State) (status : Nat) :
    (applyStatus s status).todo = s.todo ∧
    ((applyStatus s status).L = s.L ∨ (applyStatus s status).L = Loader.setOnline s.L false) := by
  unfold applyStatus
  split
  · split <;> exact ⟨rfl, Or.inr rfl⟩
  · exact ⟨rfl, Or.inl rfl⟩

theorem message_steps (s : State) (h : RInv s) (f k : Bool) (status : Nat)
    (md : List (Cid × Action)) (bl : List (Cid × Blk)) (hwk : WellKeyed bl) :
    Steps s.todo (message s f k status md bl).2 (message s f k status md bl).1.todo ∧
    RInv (message s f k status md bl).1 := by
  unfold message
  split
  · exact ⟨Steps.done _, h⟩
  · have hing : Inv (Loader.ingest s.L md bl) := h.linv.ingest md bl hwk
    have hpi : (Loader.ingest s.L md bl).pending = s.L.pending := (ingest_frame s.L md bl).1
    have hs := applyStatus_spec { s with L := Loader.ingest s.L md bl } status
    have hrinv : RInv (applyStatus { s with L := Loader.ingest s.L md bl } status) := by
      rcases hs.2 with hL | hL
      · refine ⟨by rw [hL]; exact hing, ?_⟩
        intro p c hh
        rw [hL] at hh
        rw [hs.1]
        exact h.pend p c (by rw [← hpi]; exact hh)
      · refine ⟨by rw [hL]; exact hing.setOnline false, ?_⟩
        intro p c hh
        rw [hL, (setOnline_frame _ false).1] at hh
        rw [hs.1]
        exact h.pend p c (by rw [← hpi]; exact hh)
    have := resume_steps _ hrinv
    rw [hs.1] at this
    exact this

theorem request_steps (s : State) (lt : LT) (u : Nat) (hi : Inv s.L) (hp : s.L.pending = none) :
    Steps lt (request s lt u).2 (request s lt u).1.todo ∧ RInv (request s lt u).1 := by
  unfold request
  exact drive_steps _ { s with todo := lt, phase := .running, userSkip := u } hi hp

/-- a response message as the request manager sees it -/
structure Msg where
  fromPeer0 : Bool          -- sent by the peer the request went to
  known     : Bool          -- carries this request's id
  status    : Nat
  md        : List (Cid × Action)
  blocks    : List (Cid × Blk)

def Msg.wk (m : Msg) : Prop := WellKeyed m.blocks

/-- feed a list of messages, collecting the events -/
def feed (s : State) : List Msg → State × List Ev
  | [] => (s, [])
  | m :: rest =>
    let (s1, e1) := message s m.fromPeer0 m.known m.status m.md m.blocks
    let (s2, e2) := feed s1 rest
    (s2, e1 ++ e2)

theorem feed_steps (msgs : List Msg) (hwk : ∀ m ∈ msgs, m.wk) (s : State) (h : RInv s) :
    Steps s.todo (feed s msgs).2 (feed s msgs).1.todo ∧ RInv (feed s msgs).1 := by
  induction msgs generalizing s with
  | nil => exact ⟨Steps.done _, h⟩
  | cons m rest ih =>
    unfold feed
    have hm := message_steps s h m.fromPeer0 m.known m.status m.md m.blocks (hwk m (List.mem_cons_self ..))
    generalize message s m.fromPeer0 m.known m.status m.md m.blocks = mm at hm
    obtain ⟨s1, e1⟩ := mm
    have := ih (fun m' hm' => hwk m' (List.mem_cons_of_mem _ hm')) s1 hm.2
    dsimp only
    generalize feed s1 rest = ff at this
    obtain ⟨s2, e2⟩ := ff
    exact ⟨Steps.append hm.1 this.1, this.2⟩

/-- one whole request: fresh requestor with local store `st`, request for the link tree `lt` with
    user skip value `u`, then the messages `msgs` -/
def exchange (st : List (Cid × Blk)) (lt : LT) (u : Nat) (msgs : List Msg) : State × List Ev :=
  let (s1, e1) := request { L := { store := st } } lt u
  let (s2, e2) := feed s1 msgs
  (s2, e1 ++ e2)

/-- the local store is honest: it holds content `c` under CID `c` -/
def HonestStore (st : List (Cid × Blk)) : Prop := ∀ c b, (c, b) ∈ st → b = c

theorem exchange_steps (st : List (Cid × Blk)) (hst : HonestStore st) (lt : LT) (u : Nat)
    (msgs : List Msg) (hwk : ∀ m ∈ msgs, m.wk) :
    Steps lt (exchange st lt u msgs).2 (exchange st lt u msgs).1.todo := by
  unfold exchange
  have hi : Inv ({ store := st } : Loader.State) := ⟨by simp, by simp, hst⟩
  have hr := request_steps { L := { store := st } } lt u hi rfl
  generalize request { L := { store := st } } lt u = rq at hr
  obtain ⟨s1, e1⟩ := rq
  have hf := feed_steps msgs hwk s1 hr.2
  dsimp only
  generalize feed s1 msgs = ff at hf
  obtain ⟨s2, e2⟩ := ff
  exact Steps.append hr.1 hf.1

end GS.Requestor
