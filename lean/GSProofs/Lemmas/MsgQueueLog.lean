import GSProofs.Lemmas.MsgQueueNotes5
/-!
# Message queue: the allocator events in the log are exactly the allocator's history; every build
with a reservation follows its grant
-/
namespace GS.MQ
open GS.Alloc

/-- the allocator events recorded in the log -/
def memOf : List Event → List Alloc.Event
  | [] => []
  | .mem e :: r => e :: memOf r
  | _ :: r => memOf r

def isMem : Event → Bool
  | .mem _ => true
  | _ => false

def isBuilt : Event → Bool
  | .built _ _ _ _ => true
  | _ => false

theorem memOf_append (a b : List Event) : memOf (a ++ b) = memOf a ++ memOf b := by
  induction a with
  | nil => rfl
  | cons e r ih => cases e <;> simp [memOf, ih]

theorem memOf_map_mem (l : List Alloc.Event) : memOf (l.map Event.mem) = l := by
  induction l with
  | nil => rfl
  | cons e r ih => simp [memOf, ih]

theorem memOf_nomem (l : List Event) (h : ∀ e ∈ l, isMem e = false) : memOf l = [] := by
  induction l with
  | nil => rfl
  | cons e r ih =>
    have hr := ih (fun x hx => h x (List.mem_cons_of_mem _ hx))
    cases e with
    | mem a => have := h _ (List.mem_cons_self); simp [isMem] at this
    | _ => simpa [memOf] using hr

theorem run_append (pick : Pick) (a : Alloc.State) (o1 o2 : List Alloc.Op) :
    (Alloc.run pick a (o1 ++ o2)).1 = (Alloc.run pick (Alloc.run pick a o1).1 o2).1 ∧
    (Alloc.run pick a (o1 ++ o2)).2 = (Alloc.run pick a o1).2 ++ (Alloc.run pick (Alloc.run pick a o1).1 o2).2 := by
  induction o1 generalizing a with
  | nil => simp [Alloc.run]
  | cons o r ih =>
    simp only [List.cons_append, Alloc.run]
    obtain ⟨i1, i2⟩ := ih (Alloc.step pick a o).1
    exact ⟨i1, by rw [i2, List.append_assoc]⟩

/-- reservations precede builds: the state invariant -/
structure RFW (s : State) : Prop where
  built : ∀ t topic size used, Event.built t topic size used ∈ s.log → size > 0 →
    ∃ a, Event.mem (.granted s.peer t a) ∈ s.log
  answered : ∀ w ∈ s.waiters, w.answer = some true → ∃ a, Event.mem (.granted s.peer w.ticket a) ∈ s.log

/-- how a function extends the allocator history -/
structure Hist (pick : Pick) (s s' : State) : Prop where
  peer : s'.peer = s.peer
  ops : ∃ ops, s'.alloc = (Alloc.run pick s.alloc ops).1 ∧ memOf s'.log = memOf s.log ++ (Alloc.run pick s.alloc ops).2
  mono : ∃ X, s'.log = s.log ++ X

/-- … and keeps "reserved before built" -/
structure Ext (pick : Pick) (s s' : State) : Prop extends Hist pick s s' where
  rfw : RFW s → RFW s'

theorem Hist.refl (pick : Pick) (s : State) : Hist pick s s :=
  ⟨rfl, ⟨[], rfl, by simp [Alloc.run]⟩, ⟨[], by simp⟩⟩

theorem Hist.trans {pick : Pick} {a b c : State} (h1 : Hist pick a b) (h2 : Hist pick b c) : Hist pick a c := by
  obtain ⟨o1, a1, l1⟩ := h1.ops
  obtain ⟨o2, a2, l2⟩ := h2.ops
  obtain ⟨X, x⟩ := h1.mono
  obtain ⟨Y, y⟩ := h2.mono
  refine ⟨h2.peer.trans h1.peer, ⟨o1 ++ o2, ?_, ?_⟩, ⟨X ++ Y, by rw [y, x, List.append_assoc]⟩⟩
  · rw [(run_append pick a.alloc o1 o2).1, ← a1]; exact a2
  · rw [(run_append pick a.alloc o1 o2).2, ← a1, ← List.append_assoc, ← l1]; exact l2

theorem Ext.refl (pick : Pick) (s : State) : Ext pick s s := ⟨Hist.refl pick s, id⟩

theorem Ext.trans {pick : Pick} {a b c : State} (h1 : Ext pick a b) (h2 : Ext pick b c) : Ext pick a c :=
  ⟨h1.toHist.trans h2.toHist, fun r => h2.rfw (h1.rfw r)⟩

/-- a change that touches neither allocator nor waiters and appends events that are neither
    allocator events nor builds -/
theorem Ext.plain (pick : Pick) {s s' : State} (X : List Event) (hl : s'.log = s.log ++ X)
    (h1 : ∀ e ∈ X, isMem e = false) (h2 : ∀ e ∈ X, isBuilt e = false)
    (ha : s'.alloc = s.alloc) (hw : s'.waiters = s.waiters) (hp : s'.peer = s.peer) : Ext pick s s' := by
  refine ⟨⟨hp, ⟨[], ha, ?_⟩, ⟨X, hl⟩⟩, ?_⟩
  · rw [hl, memOf_append, memOf_nomem X h1]; simp [Alloc.run]
  · intro r
    refine ⟨?_, ?_⟩
    · intro t topic size used hm hs
      rw [hl] at hm
      rcases List.mem_append.mp hm with hm | hm
      · obtain ⟨a, ha'⟩ := r.built t topic size used hm hs
        exact ⟨a, by rw [hl, hp]; exact List.mem_append_left _ ha'⟩
      · have := h2 _ hm; simp [isBuilt] at this
    · intro w hw' hans
      rw [hw] at hw'
      obtain ⟨a, ha'⟩ := r.answered w hw' hans
      exact ⟨a, by rw [hl, hp]; exact List.mem_append_left _ ha'⟩

theorem mark_true_answer {t : Nat} {ws : List Waiter} {w : Waiter} (h : w ∈ mark t true ws) :
    (∃ w0 ∈ ws, w0.ticket = w.ticket ∧ w0.answer = w.answer) ∨ w.ticket = t := by
  unfold mark at h
  obtain ⟨w0, h0, rfl⟩ := List.mem_map.mp h
  by_cases hc : (w0.ticket == t) = true
  · right; rw [if_pos hc]; simpa using hc
  · left; rw [if_neg hc]; exact ⟨w0, h0, rfl, rfl⟩

theorem mark_false_answer {t : Nat} {ws : List Waiter} {w : Waiter} (h : w ∈ mark t false ws)
    (ha : w.answer = some true) : ∃ w0 ∈ ws, w0.ticket = w.ticket ∧ w0.answer = some true := by
  unfold mark at h
  obtain ⟨w0, h0, rfl⟩ := List.mem_map.mp h
  by_cases hc : (w0.ticket == t) = true
  · rw [if_pos hc] at ha; cases ha
  · rw [if_neg hc] at ha ⊢; exact ⟨w0, h0, rfl, ha⟩

/-- whoever is answered "granted" by a list of allocator events was either answered before or has a
    grant among these events -/
theorem answerWaiters_answered (p : Nat) : ∀ (evs : List Alloc.Event) (ws : List Waiter) (w : Waiter),
    w ∈ answerWaiters p ws evs → w.answer = some true →
    (∃ w0 ∈ ws, w0.ticket = w.ticket ∧ w0.answer = some true) ∨ (∃ a, Alloc.Event.granted p w.ticket a ∈ evs)
  | [], ws, w, hw, ha => Or.inl ⟨w, hw, rfl, ha⟩
  | e :: es, ws, w, hw, ha => by
    rw [answerWaiters_cons] at hw
    rcases answerWaiters_answered p es _ w hw ha with ⟨w1, hw1, ht1, ha1⟩ | ⟨a, hmem⟩
    · cases e with
      | granted q t a =>
        simp only at hw1
        by_cases hq : (q == p) = true
        · rw [if_pos hq] at hw1
          have hqp : q = p := by simpa using hq
          rcases mark_true_answer hw1 with ⟨w0, h0, e1, e2⟩ | ht
          · exact Or.inl ⟨w0, h0, e1.trans ht1, e2.trans ha1⟩
          · right; exact ⟨a, by rw [← ht1, ht, hqp]; simp⟩
        · rw [if_neg hq] at hw1; exact Or.inl ⟨w1, hw1, ht1, ha1⟩
      | failed q t =>
        simp only at hw1
        by_cases hq : (q == p) = true
        · rw [if_pos hq] at hw1
          obtain ⟨w0, h0, e1, e2⟩ := mark_false_answer hw1 ha1
          exact Or.inl ⟨w0, h0, e1.trans ht1, e2⟩
        · rw [if_neg hq] at hw1; exact Or.inl ⟨w1, hw1, ht1, ha1⟩
      | released q a => exact Or.inl ⟨w1, hw1, ht1, ha1⟩
      | errNoPeer => exact Or.inl ⟨w1, hw1, ht1, ha1⟩
    · exact Or.inr ⟨a, List.mem_cons_of_mem _ hmem⟩

theorem allocStep_ext (pick : Pick) (s : State) (op : Alloc.Op) : Ext pick s (s.allocStep pick op).1 := by
  refine ⟨⟨rfl, ⟨[op], rfl, ?_⟩, ⟨_, rfl⟩⟩, ?_⟩
  · show memOf (s.log ++ (Alloc.step pick s.alloc op).2.map Event.mem) = _
    rw [memOf_append, memOf_map_mem]; simp [Alloc.run]
  · intro r
    refine ⟨?_, ?_⟩
    · intro t topic size used hm hs
      have hm' : Event.built t topic size used ∈ s.log ++ (Alloc.step pick s.alloc op).2.map Event.mem := hm
      rcases List.mem_append.mp hm' with hm' | hm'
      · obtain ⟨a, ha⟩ := r.built t topic size used hm' hs
        exact ⟨a, List.mem_append_left _ ha⟩
      · obtain ⟨x, _, hx⟩ := List.mem_map.mp hm'; cases hx
    · intro w hw hans
      have hw' : w ∈ answerWaiters s.peer s.waiters (Alloc.step pick s.alloc op).2 := hw
      rcases answerWaiters_answered s.peer _ _ w hw' hans with ⟨w0, h0, e1, e2⟩ | ⟨a, ha⟩
      · obtain ⟨a, ha⟩ := r.answered w0 h0 e2
        exact ⟨a, by rw [← e1]; exact List.mem_append_left _ ha⟩
      · exact ⟨a, List.mem_append_right _ (List.mem_map.mpr ⟨_, ha, rfl⟩)⟩

theorem release_ext (pick : Pick) (s : State) (n : Nat) : Ext pick s (s.release pick n) := allocStep_ext pick s _

theorem emit_ext (pick : Pick) (s : State) (X : List Event) (h1 : ∀ e ∈ X, isMem e = false) (h2 : ∀ e ∈ X, isBuilt e = false) :
    Ext pick s (s.emit X) := Ext.plain pick X rfl h1 h2 rfl rfl rfl

theorem publish_ext (pick : Pick) (s : State) (t : Topic) (k : Kind) : Ext pick s (s.publish t k) := by
  unfold State.publish; split
  · exact Ext.refl pick s
  · apply emit_ext
    · intro e he; obtain ⟨x, _, rfl⟩ := List.mem_map.mp he; rfl
    · intro e he; obtain ⟨x, _, rfl⟩ := List.mem_map.mp he; rfl

theorem closeTopic_ext (pick : Pick) (s : State) (t : Topic) : Ext pick s (s.closeTopic t) := by
  unfold State.closeTopic; split
  · exact Ext.refl pick s
  · refine Ext.plain pick _ rfl ?_ ?_ rfl rfl rfl
    · intro e he; obtain ⟨x, _, rfl⟩ := List.mem_map.mp he; rfl
    · intro e he; obtain ⟨x, _, rfl⟩ := List.mem_map.mp he; rfl

theorem subscribe_ext (pick : Pick) (s : State) (t : Topic) (subs : List Sub) : Ext pick s (s.subscribe t subs) := by
  unfold State.subscribe; split
  · exact Ext.refl pick s
  · exact Ext.plain pick [] (by simp) (by simp) (by simp) rfl rfl rfl

/-- updates of fields other than allocator, waiters, peer and log -/
theorem Ext.fields (pick : Pick) {s s' : State} (hl : s'.log = s.log) (ha : s'.alloc = s.alloc)
    (hw : s'.waiters = s.waiters) (hp : s'.peer = s.peer) : Ext pick s s' :=
  Ext.plain pick [] (by simp [hl]) (by simp) (by simp) ha hw hp

end GS.MQ
