import GSProofs.C06
import GSProofs.C02
import GSProofs.Lemmas.PauseReach
/-!
# C06 — a requestor-side pause after the request went online, resumed by a RE-OPENING executor

`GSProofs/C06.lean` ends with the open case (c): the resumed executor misses locally, goes online
again (`SetRemoteOnline(true)`: queue emptied, fresh verifier over the traversal record of everything
loaded so far), re-sends the request with do-not-send-first-blocks and verifies the new response
against that record.  `requestor_reopen_partial` there is STATE-conditional: it assumes facts about the
loader at the moment the second response arrives.  This file removes those assumptions: the facts are
invariants of the executor (`GSProofs/Lemmas/PauseReach.lean`: record = the loads made so far, their
blocks in the store, the parked load is the load under the cursor), so the theorems below are about
`PauseResume.exchange` from the initial state.
-/
namespace GS.C06
open GS.Loader GS.Requestor GS.PauseResume

theorem pexchange_snoc (st : List (Cid × Blk)) (lt : LT) (u : Nat) (hs : List Nat) (ops : List PauseResume.Op)
    (o : PauseResume.Op) :
    PauseResume.exchange st lt u hs (ops ++ [o]) =
      ((PauseResume.step (PauseResume.exchange st lt u hs ops).1 o).1,
        (PauseResume.exchange st lt u hs ops).2 ++ (PauseResume.step (PauseResume.exchange st lt u hs ops).1 o).2) := by
  unfold PauseResume.exchange
  simp only
  rw [prun_append]
  simp [PauseResume.run]

/-- the loader of the parked, re-opened request after the whole honest response has been ingested and
    its final status has taken the loader offline -/
theorem parked_after_response (rem : Cid → Bool) (l : Loader.State) (lt : LT) (w : Nat) (hlt : lt ≠ [])
    (hopen : l.isOpen = true) (hrq : l.rq = {}) :
    Loader.setOnline (Loader.ingest l (mdOf (respItemsW rem lt [] w)) (blocksOfItems (respItemsW rem lt [] w))) false =
      { l with rq := { q := respItemsW rem lt [] w }, isOpen := false } := by
  have hmd : (mdOf (respItemsW rem lt [] w)).isEmpty = false := by
    cases lt with
    | nil => exact absurd rfl hlt
    | cons n rest => rw [respItemsW]; split <;> simp [mdOf]
  have hq : RQ.queue ({} : RQ) (respItemsW rem lt [] w) = { q := respItemsW rem lt [] w } := by
    rw [queue_tailOn _ _ rfl]; rfl
  unfold Loader.ingest Loader.setOnline
  simp [hmd, hopen, hrq, honest_items_rebuiltW, hq]

theorem blocksOf_resultsOf (evs : List Ev) :
    PauseResume.blocksOf evs = (resultsOf evs).filterMap (fun x => if x.2.2 then some (x.1, x.2.1) else none) := by
  induction evs with
  | nil => rfl
  | cons e rest ih =>
    cases e with
    | err r =>
      cases r with
      | load le => cases le <;> simp [PauseResume.blocksOf, resultsOf] at ih ⊢ <;> exact ih
      | status c => simp [PauseResume.blocksOf, resultsOf] at ih ⊢; exact ih
      | other => simp [PauseResume.blocksOf, resultsOf] at ih ⊢; exact ih
    | block c p l i => simp [PauseResume.blocksOf, resultsOf] at ih ⊢; exact ih
    | _ => simp [PauseResume.blocksOf, resultsOf] at ih ⊢ <;> exact ih

theorem missingOf_resultsOf (evs : List Ev) :
    missingOf evs = (resultsOf evs).filterMap (fun x => if x.2.2 then none else some (x.1, x.2.1)) := by
  induction evs with
  | nil => rfl
  | cons e rest ih =>
    cases e with
    | err r =>
      cases r with
      | load le => cases le <;> simp [missingOf, resultsOf] at ih ⊢ <;> exact ih
      | status c => simp [missingOf, resultsOf] at ih ⊢; exact ih
      | other => simp [missingOf, resultsOf] at ih ⊢; exact ih
    | block c p l i => simp [missingOf, resultsOf] at ih ⊢; exact ih
    | _ => simp [missingOf, resultsOf] at ih ⊢ <;> exact ih

theorem delivered_count (ld : LT) :
    (((ld.map (fun m => (m, true))).map keyOf).filterMap
      (fun x => if x.2.2 then some (x.1, x.2.1) else none)).length = ld.length := by
  induction ld with
  | nil => rfl
  | cons n rest ih => simp [keyOf]

/-- **C06.reopen_reached** (reachability: the invariants (i)–(iii) at the re-opening, from the initial
    state).  Any messages `m1` during which block `k` is not loaded, a message `M` (no failure status)
    during which the block hook pauses the request at block `k`, every load up to the pause answered with
    data (`hnm`: no missing-block report), `Unpause`, and the resumed executor sends a request again (`hre`, with
    do-not-send-first-blocks `w`).  Then the exchange stands in a state `rP` that is parked in the
    retried load of the node `n` under the cursor (iii), right after going online: empty queue, fresh
    verifier over the traversal record, which is the record of the `K = |root :: pre'| ≥ k` links
    loaded so far (i), all of them delivered — the reported answers are exactly these — and their
    blocks are in the store (ii); `w = max u K`; the store has grown, relative to the initial one,
    only by blocks of the link tree (`QE`). -/
theorem reopen_reached (loc : List (Cid × Blk)) (hloc : HonestStore loc)
    (root : LNode) (tl : LT) (u k : Nat) (m1 : List Requestor.Msg) (M : Requestor.Msg) (w : Nat)
    (hwk : ∀ m, PauseResume.Op.msg m ∈ m1.map toOp ++ [toOp M] → WellKeyed m.blocks)
    (hpre : (Requestor.exchange loc (root :: tl) u m1).1.nBlocks < k)
    (hctx : (Requestor.exchange loc (root :: tl) u m1).1.ctxCancelled = false)
    (hfail : isFailure M.status = false) :
    let lt := root :: tl
    let pausedX := PauseResume.exchange loc lt u [k] (m1.map toOp ++ [toOp M])
    let parkedX := PauseResume.exchange loc lt u [k] (m1.map toOp ++ [toOp M, PauseResume.Op.unpause])
    pausedX.1.paused = true →
    missingOf pausedX.2 = [] →
    sentNews parkedX.2 = sentNews pausedX.2 ++ [w] →
    ∃ (rP : Requestor.State) (pre' : LT) (n : LNode) (rest : LT),
      parkedX.1 = hooked [k] rP ∧ lt = root :: pre' ++ n :: rest ∧ Parked rP (root :: pre') n rest ∧
      k ≤ pre'.length + 1 ∧ w = max u (pre'.length + 1) ∧
      resultsOf parkedX.2 = ((root :: pre').map (fun m => (m, true))).map keyOf ∧ QE lt loc rP ∧
      ((∀ m ∈ m1 ++ [M], ∀ e ∈ m.md, e.2.didFollow = true) → rP.L.unfollowed = []) := by
  intro lt pausedX parkedX hpaused hnm hre
  obtain ⟨r', e0, hX, hk, hP, hcnt, hFr'⟩ := pause_point loc lt u k m1 M
    (fun r => (∀ m ∈ m1 ++ [M], ∀ e ∈ m.md, e.2.didFollow = true) → Fol r.L) (Fol_pres _) (Fol_wake _)
    (fun hm => ingestStatus_Fol _ (exchange_Fol loc lt u m1 (fun m h => hm m (List.mem_append_left _ h))) _ _ _
      (hm M (by simp)))
    hpre hctx hfail hpaused
  have hX' : pausedX = ((stopForPause (hooked [k] r')).1, e0 ++ [Ev.sentCancel]) := hX
  -- the delivered prefix at the pause
  have hsteps : Steps lt pausedX.2 pausedX.1.R.todo := pause_resume_walk loc hloc lt u [k] _ hwk
  obtain ⟨ld, hld1, hld2⟩ := steps_results hsteps hnm
  have htodo' : pausedX.1.R.todo = r'.todo := by rw [hX']; rfl
  obtain ⟨loaded, hq⟩ := hP.1.1
  have hll : loaded = ld := hq.unique (by rw [← htodo']; exact hld1)
  subst hll
  have hlen : loaded.length = k := by
    have h1 : cnt pausedX.2 = k := by
      rw [hX']
      simp only [cnt_append, hcnt]
      rfl
    unfold cnt at h1
    rw [blocksOf_resultsOf, hld2, delivered_count] at h1
    exact h1
  -- the Unpause
  have hops1 : m1.map toOp ++ [toOp M, PauseResume.Op.unpause] = (m1.map toOp ++ [toOp M]) ++ [PauseResume.Op.unpause] := by simp
  have hpk : parkedX = ((PauseResume.unpause pausedX.1).1, pausedX.2 ++ (PauseResume.unpause pausedX.1).2) := by
    show PauseResume.exchange loc lt u [k] (m1.map toOp ++ [toOp M, PauseResume.Op.unpause]) = _
    rw [hops1, pexchange_snoc]
    rfl
  have hU := unpause_reopen lt loc u k r' loaded hP hq hk hlen
  have hX1 : pausedX.1 = (stopForPause (hooked [k] r')).1 := by rw [hX']
  rw [← hX1] at hU
  rcases hU with hno | ⟨extra, n, rest, evs, rP, h1, h2, h3, h4, h5, hqe⟩
  · exfalso
    rw [hpk] at hre
    simp only [sentNews_append, hno, List.append_nil] at hre
    have := congrArg List.length hre
    simp at this
  · rw [h1] at hpk
    simp only at hpk
    -- the skip value of the re-sent request
    have hw : w = max u (loaded ++ extra).length := by
      rw [hpk] at hre
      simp only [sentNews_append, h2, List.nil_append] at hre
      have := List.append_cancel_left hre
      simp only [sentNews, List.cons.injEq, and_true] at this
      exact this.symm
    -- the split of the link tree at the re-opening
    have hk0 : 0 < k := by omega
    cases hle : loaded ++ extra with
    | nil =>
      exfalso
      have := congrArg List.length hle
      simp only [List.length_append, List.length_nil] at this
      omega
    | cons root' pre' =>
      have hlenK : loaded.length + extra.length = pre'.length + 1 := by
        have := congrArg List.length hle
        simpa using this
      rw [hle] at h4 h5 hw
      have h4' : root :: tl = root' :: (pre' ++ n :: rest) := by
        have : lt = root :: tl := rfl
        rw [← this, h4]; simp
      simp only [List.cons.injEq] at h4'
      obtain ⟨hroot, htl⟩ := h4'
      subst hroot
      refine ⟨rP, pre', n, rest, by rw [hpk], ?_, h5, by omega, by rw [hw]; simp, ?_, hqe, ?_⟩
      · show root :: tl = _
        rw [htl]; simp
      · rw [hpk]
        simp only [resultsOf_append, hld2, h3]
        have hs0 : resultsOf [Ev.sentNew (max u (loaded ++ extra).length)] = [] := rfl
        rw [hs0, List.append_nil, ← hle]
        simp
      · intro hm
        have hf := unpause_Fol k r' hP.1.2.2 hk (hFr' hm)
        rw [← hX1, h1] at hf
        exact hf.unf

/-- **C06.requestor_reopen_online** (case (c) end to end, from the initial state).
    Link tree `root :: tl` (well formed, paths in depth-first order), any local store, any user skip
    value `u`, hook pause at block `k`.  Any messages `m1` during which block `k` is not loaded, then
    a message `M` (any content, no failure status) during which the block hook pauses the request at
    block `k` (`hpaused`); every load up to the pause was answered with data (`hnm`: no
    missing-block report).  The request is resumed
    (`Unpause`) and the resumed executor — after consuming what the cancelled response left in the
    queue and what the local store holds — misses locally and goes ONLINE AGAIN, re-sending the request
    with do-not-send-first-blocks `w` (`hre`: that is the one request message sent after the pause;
    the first response's unconsumed items are discarded at that moment, /repo b4f998f).  Nothing of the
    cancelled response arrives any more (the negation of the known finding
    `stale-response-after-resume`); the honest response to the RESUMED request (`respItemsW rem lt [] w`
    = `Responder.respondSpec` with skip `w`) arrives as one message with its final status 20 / 21.
    Under the negation of C02's two finding classes on resume (`hremroot`: not `root-not-found-abort`;
    `hwin`: not `resume-skip-prefix-mismatch`) and with no stale path-tracker value (`hunf`), the answers
    reported by the whole exchange — before the pause, after the resume, after the re-opening — are
    exactly the reference traversal `refTrav` of the link tree over the responder's store and the
    requestor's store at the re-opening, and the final store holds exactly what `refTrav` says.
    Restriction (stated in `hnm` and implied for the loads after `Unpause`): every load
    before the re-opening was delivered; records with failed loads are not covered. -/
theorem requestor_reopen_online (rem : Cid → Bool) (loc : List (Cid × Blk)) (hloc : HonestStore loc)
    (root : LNode) (tl : LT) (u k : Nat) (m1 : List Requestor.Msg) (M : Requestor.Msg) (w st : Nat)
    (hst : st = 20 ∨ st = 21)
    (hwf : Loader.WF (root :: tl)) (hroot0 : root.path = []) (hne : ∀ m ∈ tl, m.path ≠ [])
    (hdep : ∀ m ∈ tl, m.depth ≠ 0) (hdfs : PathsDFS ((root :: tl).map (·.path)))
    (hwk : ∀ m, PauseResume.Op.msg m ∈ m1.map toOp ++ [toOp M] → WellKeyed m.blocks)
    (hpre : (Requestor.exchange loc (root :: tl) u m1).1.nBlocks < k)
    (hctx : (Requestor.exchange loc (root :: tl) u m1).1.ctxCancelled = false)
    (hfail : isFailure M.status = false) :
    let lt := root :: tl
    let pausedX := PauseResume.exchange loc lt u [k] (m1.map toOp ++ [toOp M])
    let parkedX := PauseResume.exchange loc lt u [k] (m1.map toOp ++ [toOp M, PauseResume.Op.unpause])
    let items := respItemsW rem lt [] w
    let res := PauseResume.exchange loc lt u [k]
      (m1.map toOp ++ [toOp M, PauseResume.Op.unpause, toOp ⟨true, true, st, mdOf items, blocksOfItems items⟩])
    pausedX.1.paused = true →
    missingOf pausedX.2 = [] →
    sentNews parkedX.2 = sentNews pausedX.2 ++ [w] →
    parkedX.1.R.L.unfollowed = [] →
    rem root.cid = true →
    (∀ it ∈ items.take w, it.action = .present → holds parkedX.1.R.L.store it.link = true) →
    resultsOf res.2 = (refTrav rem lt parkedX.1.R.L.store none).1.map keyOf ∧
    (∀ c, holds res.1.R.L.store c = holds (refTrav rem lt parkedX.1.R.L.store none).2 c) ∧
    res.1.paused = false := by
  intro lt pausedX parkedX items res hpaused hnm hre hunf hremroot hwin
  obtain ⟨rP, pre', n, rest, hpk1, hlt', h5, hkK, hw, hresP, _, _⟩ :=
    reopen_reached loc hloc root tl u k m1 M w hwk hpre hctx hfail hpaused hnm hre
  have hpk1' : parkedX.1 = hooked [k] rP := hpk1
  have hlt'' : lt = root :: pre' ++ n :: rest := hlt'
  have htl : tl = pre' ++ n :: rest := by
    have : root :: tl = root :: pre' ++ n :: rest := hlt'
    simpa using this
  -- the second response
  have hops2 : m1.map toOp ++ [toOp M, PauseResume.Op.unpause, toOp ⟨true, true, st, mdOf items, blocksOfItems items⟩] =
      (m1.map toOp ++ [toOp M, PauseResume.Op.unpause]) ++ [toOp ⟨true, true, st, mdOf items, blocksOfItems items⟩] := by simp
  have hres : res = ((PauseResume.deliver parkedX.1 true true st (mdOf items) (blocksOfItems items)).1,
      parkedX.2 ++ (PauseResume.deliver parkedX.1 true true st (mdOf items) (blocksOfItems items)).2) := by
    show PauseResume.exchange loc lt u [k] _ = _
    rw [hops2, pexchange_snoc]
    rfl
  have hd : DeadAt [k] rP := by
    intro j hj
    simp only [List.mem_singleton] at hj
    rw [h5.nb]
    simp only [List.length_cons]
    omega
  have hL2 := parked_after_response rem rP.L lt w (by simp [lt]) h5.isOpen h5.rq
  have hitems : items = respItemsW rem (root :: pre' ++ n :: rest) [] w := by
    show respItemsW rem lt [] w = _
    rw [hlt'']
  have hstore : parkedX.1.R.L.store = rP.L.store := by rw [hpk1']; rfl
  have hrp := requestor_reopen_partial rem rP [k] hd root pre' n rest w st hst h5.run h5.sent h5.ctx h5.todo
    (fun m hm => hdep m (by rw [htl]; exact List.mem_append_right _ hm))
    (by rw [← hlt'']; exact hwf) hroot0 (by rw [← htl]; exact hne)
    (by
      have : (lt.map (·.path)) = (root :: pre').map (·.path) ++ (n :: rest).map (·.path) := by
        rw [hlt'']; simp
      exact PathsDFS.prefix _ (this ▸ hdfs))
    { rP.L with rq := { q := respItemsW rem lt [] w }, isOpen := false }
    (by rw [← hlt'']; exact hL2.symm)
    h5.pend h5.mra h5.recd h5.ver rfl (by rw [← hlt'']) (Or.inl (by
      have : parkedX.1.R.L.unfollowed = rP.L.unfollowed := by rw [hpk1']; rfl
      rw [← this]; exact hunf))
    h5.held hremroot
    (by
      intro it hit hp
      rw [← hstore]
      exact hwin it hit hp)
  simp only at hrp
  rw [← hitems, ← hlt''] at hrp
  obtain ⟨c1, c2, c3⟩ := hrp
  rw [hres]
  simp only
  rw [hstore, hpk1']
  refine ⟨?_, c2, c3⟩
  rw [resultsOf_append, hresP, ← c1]

/-! ### the comparison with the uninterrupted exchange, when the responder holds the whole DAG -/

theorem holds_cons_eq (st : List (Cid × Blk)) (a : Cid) (b : Blk) (c : Cid) :
    holds ((a, b) :: st) c = ((a == c) || holds st c) := by
  unfold holds storeGet
  simp only [List.find?_cons]
  by_cases h : (a == c) = true
  · simp [h]
  · simp [h]

/-- the reference traversal when the responder holds every block: everything is delivered, and the
    final store is the initial one plus the blocks of the link tree -/
theorem refTrav_full (rem : Cid → Bool) : ∀ (lt : LT) (st : List (Cid × Blk)), (∀ m ∈ lt, rem m.cid = true) →
    (refTrav rem lt st none).1 = lt.map (fun m => (m, true)) ∧
    ∀ c, holds (refTrav rem lt st none).2 c = (holds st c || lt.any (fun m => m.cid == c))
  | [], st, _ => by rw [refTrav]; simp
  | n :: rest, st, h => by
    have hr : rem n.cid = true := h n (by simp)
    have hd : dead1 none n = none := rfl
    cases hh : holds st n.cid with
    | true =>
      rw [refTrav_holds rem n rest st none hh]
      have hdd : (if (dead1 none n).isNone && !rem n.cid then some n.depth else dead1 none n) = none := by
        simp [hd, hr]
      rw [hdd]
      obtain ⟨i1, i2⟩ := refTrav_full rem rest st (fun m hm => h m (by simp [hm]))
      refine ⟨by simp [i1], fun c => ?_⟩
      rw [i2 c]
      simp only [List.any_cons]
      by_cases hc : (n.cid == c) = true
      · have : n.cid = c := eq_of_beq hc
        subst this
        simp [hh]
      · simp [hc]
    | false =>
      rw [refTrav_remote rem n rest st none hh (by simp [hd, hr]), hd]
      obtain ⟨i1, i2⟩ := refTrav_full rem rest ((n.cid, n.cid) :: st) (fun m hm => h m (by simp [hm]))
      refine ⟨by simp [i1], fun c => ?_⟩
      rw [i2 c, holds_cons_eq]
      simp only [List.any_cons]
      cases (n.cid == c) <;> cases holds st c <;> simp

/-- **C06.requestor_pause_resume_online** — a requestor-side pause after the request went online,
    followed by a resume that goes online again, gives the result of the uninterrupted exchange.

    Region: the responder holds every block of the DAG (`hrem`: no block is missing on either side, so
    C02's classes `root-not-found-abort` / `skip-prefix-mismatch` — on the first request and on resume —
    cannot occur), no user skip value, well-formed link tree with depth-first paths.  The requestor holds
    the first `N = |root :: pre0'| ≥ 1` blocks and misses `n0` (as in `C02.exchange_complete_prefix`).

    `base` — the UNINTERRUPTED exchange: the honest response to the request (skip `N`) arrives as one
    message with its final status.

    `res` — the PAUSED AND RESUMED exchange, hook pause at block `k`: any messages `m1` during which
    block `k` is not loaded, then a message `M` (any content, e.g. the first part of the honest
    response; no failure status) during which the hook pauses the request at block `k` — after the
    request went online, `M` being a response message — with every load so far delivered (`hnm`);
    `Unpause`; the resumed executor consumes what is left in the queue / held locally, misses locally,
    goes online again discarding the unconsumed items of the cancelled response (/repo b4f998f) and
    re-sends the request with do-not-send-first-blocks `w` (`hre`); nothing of the cancelled response
    arrives any more (negation of the known finding `stale-response-after-resume`); the honest response
    to the resumed request arrives as one message.  `hfol`: every entry of `m1`, `M` is one the responder
    followed ("present" / "duplicate not sent" — all an honest responder holding the DAG sends): the path
    tracker then holds no stale value at the re-opening (invariant `Fol`).

    Then the paused and resumed exchange reports exactly the same answers in the same order — the same
    delivered blocks, the same (no) missing-block errors — and ends with the same stored blocks as the
    uninterrupted exchange: every link of the tree delivered, the store = the initial one plus the
    blocks of the DAG. -/
theorem requestor_pause_resume_online (rem : Cid → Bool) (loc : List (Cid × Blk)) (hloc : HonestStore loc)
    (root : LNode) (pre0' : LT) (n0 : LNode) (post0 : LT) (k : Nat) (m1 : List Requestor.Msg) (M : Requestor.Msg)
    (w st1 st2 : Nat) (hst1 : st1 = 20 ∨ st1 = 21) (hst2 : st2 = 20 ∨ st2 = 21)
    (hrem : ∀ m ∈ root :: pre0' ++ n0 :: post0, rem m.cid = true)
    (hwf : Loader.WF (root :: pre0' ++ n0 :: post0)) (hroot0 : root.path = [])
    (hne : ∀ m ∈ pre0' ++ n0 :: post0, m.path ≠ []) (hdep : ∀ m ∈ pre0' ++ n0 :: post0, m.depth ≠ 0)
    (hdfs : PathsDFS ((root :: pre0' ++ n0 :: post0).map (·.path)))
    (hheld0 : ∀ m ∈ root :: pre0', holds loc m.cid = true) (hmiss0 : holds loc n0.cid = false)
    (hwk : ∀ m, PauseResume.Op.msg m ∈ m1.map toOp ++ [toOp M] → WellKeyed m.blocks)
    (hpre : (Requestor.exchange loc (root :: pre0' ++ n0 :: post0) 0 m1).1.nBlocks < k)
    (hctx : (Requestor.exchange loc (root :: pre0' ++ n0 :: post0) 0 m1).1.ctxCancelled = false)
    (hfail : isFailure M.status = false)
    (hfol : ∀ m ∈ m1 ++ [M], ∀ e ∈ m.md, e.2.didFollow = true) :
    let lt := root :: pre0' ++ n0 :: post0
    let items0 := respItemsW rem lt [] (pre0'.length + 1)
    let base := Requestor.exchange loc lt 0 [⟨true, true, st1, mdOf items0, blocksOfItems items0⟩]
    let pausedX := PauseResume.exchange loc lt 0 [k] (m1.map toOp ++ [toOp M])
    let parkedX := PauseResume.exchange loc lt 0 [k] (m1.map toOp ++ [toOp M, PauseResume.Op.unpause])
    let items := respItemsW rem lt [] w
    let res := PauseResume.exchange loc lt 0 [k]
      (m1.map toOp ++ [toOp M, PauseResume.Op.unpause, toOp ⟨true, true, st2, mdOf items, blocksOfItems items⟩])
    pausedX.1.paused = true →
    missingOf pausedX.2 = [] →
    sentNews parkedX.2 = sentNews pausedX.2 ++ [w] →
    resultsOf res.2 = resultsOf base.2 ∧
    PauseResume.blocksOf res.2 = PauseResume.blocksOf base.2 ∧ missingOf res.2 = missingOf base.2 ∧
    (∀ c, holds res.1.R.L.store c = holds base.1.L.store c) ∧
    res.1.paused = false ∧
    resultsOf res.2 = lt.map (fun m => (m.cid, m.path, true)) ∧
    (∀ c, holds res.1.R.L.store c = (holds loc c || lt.any (fun m => m.cid == c))) := by
  intro lt items0 base pausedX parkedX items res hpaused hnm hre
  have hremroot : rem root.cid = true := hrem root (by simp)
  -- the uninterrupted exchange is the reference traversal over the initial store
  have hbase := GS.C02.exchange_complete_prefix rem loc root pre0' n0 post0 st1 hst1 hwf hroot0 hne
    (fun m hm => hdep m (List.mem_append_right _ hm))
    (by
      have : (root :: pre0' ++ n0 :: post0).map (·.path) = (root :: pre0').map (·.path) ++ (n0 :: post0).map (·.path) := by simp
      exact PathsDFS.prefix _ (this ▸ hdfs))
    hheld0 hmiss0 hremroot
    (fun it hit _ => win_of_prefix_held rem loc (root :: pre0') (n0 :: post0) []
      (fun m hm => hrem m (by
        simp only [List.mem_cons] at hm
        rcases hm with rfl | hm
        · simp
        · simp [hm])) hheld0 it hit)
  simp only at hbase
  obtain ⟨b1, _, b3⟩ := hbase
  have b1' : resultsOf base.2 = (refTrav rem lt loc none).1.map keyOf := b1
  have b3' : ∀ c, holds base.1.L.store c = holds (refTrav rem lt loc none).2 c := b3
  -- the state at the re-opening
  obtain ⟨rP, pre', n, rest, hpk1, hlt', h5, hkK, hw, hresP, ⟨ldq, hqq⟩, hunf0⟩ :=
    reopen_reached loc hloc root (pre0' ++ n0 :: post0) 0 k m1 M w hwk hpre hctx hfail hpaused hnm hre
  have hpk1' : parkedX.1 = hooked [k] rP := hpk1
  have hunf : parkedX.1.R.L.unfollowed = [] := by rw [hpk1']; exact hunf0 hfol
  have hlt'' : lt = root :: pre' ++ n :: rest := hlt'
  have hstore : parkedX.1.R.L.store = rP.L.store := by rw [hpk1']; rfl
  have hw' : w = (root :: pre').length := by rw [hw]; simp
  have hwin : ∀ it ∈ items.take w, it.action = .present → holds parkedX.1.R.L.store it.link = true := by
    intro it hit _
    rw [hstore]
    have hitems : items = respItemsW rem ((root :: pre') ++ n :: rest) [] (root :: pre').length := by
      show respItemsW rem lt [] w = _
      rw [hlt'', hw']
    rw [hitems, hw'] at hit
    exact win_of_prefix_held rem rP.L.store (root :: pre') (n :: rest) []
      (fun m hm => hrem m (by
        have : m ∈ lt := by rw [hlt'']; simp only [List.mem_cons, List.mem_append] at hm ⊢; rcases hm with h | h <;> simp [h]
        exact this)) h5.held it hit
  obtain ⟨a1, a2, a3⟩ := requestor_reopen_online rem loc hloc root (pre0' ++ n0 :: post0) 0 k m1 M w st2 hst2
    hwf hroot0 hne hdep hdfs hwk hpre hctx hfail hpaused hnm hre hunf hremroot hwin
  have a1' : resultsOf res.2 = (refTrav rem lt parkedX.1.R.L.store none).1.map keyOf := a1
  have a2' : ∀ c, holds res.1.R.L.store c = holds (refTrav rem lt parkedX.1.R.L.store none).2 c := a2
  have fS := refTrav_full rem lt parkedX.1.R.L.store hrem
  have fL := refTrav_full rem lt loc hrem
  have hres_eq : resultsOf res.2 = resultsOf base.2 := by rw [a1', b1', fS.1, fL.1]
  have hstS : ∀ c, (holds parkedX.1.R.L.store c || lt.any (fun m => m.cid == c)) =
      (holds loc c || lt.any (fun m => m.cid == c)) := by
    intro c
    rw [hstore]
    cases hl : holds loc c with
    | true => rw [hqq.mono c hl]
    | false =>
      cases hs : holds rP.L.store c with
      | false => rfl
      | true =>
        rcases hqq.orig c hs with h | ⟨m, hm, hmc⟩
        · rw [hl] at h; cases h
        · have : lt.any (fun m => m.cid == c) = true := List.any_eq_true.mpr ⟨m, hm, by simp [hmc]⟩
          rw [this]; rfl
  refine ⟨hres_eq, ?_, ?_, ?_, a3, ?_, ?_⟩
  · rw [blocksOf_resultsOf, blocksOf_resultsOf, hres_eq]
  · rw [missingOf_resultsOf, missingOf_resultsOf, hres_eq]
  · intro c
    rw [a2' c, b3' c, fS.2 c, fL.2 c, hstS c]
  · rw [a1', fS.1]
    simp [keyOf]
  · intro c
    rw [a2' c, fS.2 c, hstS c]

/-- non-vacuity of `reopen_reached` / `requestor_reopen_online` / `requestor_pause_resume_online`
    (concrete values): root 9 with children 2, 3, 4; the requestor holds the root only, the responder
    everything.  The request goes online at block 2 (skip 1); the first message of the response brings
    the entries of 9 and 2 with block 2 (status PartialResponse); the hook pauses after block 2 — one
    local and one REMOTE load are in the traversal record; `Unpause`; the executor misses block 3
    locally, goes online again and re-sends the request with do-not-send-first-blocks 2.  Every
    hypothesis of the theorems holds, and the honest second response (entries 9, 2 without blocks, 3 and
    4 with blocks) delivers 3 and 4: the exchange reports 9, 2, 3, 4 like the uninterrupted one. -/
example :
    let root : LNode := ⟨9, [], 0, 1, 0⟩
    let n2 : LNode := ⟨2, [0], 1, 1, 0⟩
    let n3 : LNode := ⟨3, [1], 1, 1, 0⟩
    let n4 : LNode := ⟨4, [2], 1, 1, 0⟩
    let lt : LT := [root, n2, n3, n4]
    let rem : Cid → Bool := fun c => [9, 2, 3, 4].contains c
    let loc : List (Cid × Blk) := [(9, 9)]
    let M : Requestor.Msg := ⟨true, true, 14, [(9, .present), (2, .present)], [(2, 2)]⟩
    let pausedX := PauseResume.exchange loc lt 0 [2] (([] : List Requestor.Msg).map toOp ++ [toOp M])
    let parkedX := PauseResume.exchange loc lt 0 [2] (([] : List Requestor.Msg).map toOp ++ [toOp M, PauseResume.Op.unpause])
    let items : List Item := [⟨9, .present, none⟩, ⟨2, .present, none⟩, ⟨3, .present, some 3⟩, ⟨4, .present, some 4⟩]
    let items0 : List Item := [⟨9, .present, none⟩, ⟨2, .present, some 2⟩, ⟨3, .present, some 3⟩, ⟨4, .present, some 4⟩]
    let res := PauseResume.exchange loc lt 0 [2]
      (([] : List Requestor.Msg).map toOp ++ [toOp M, PauseResume.Op.unpause, toOp ⟨true, true, 20, mdOf items, blocksOfItems items⟩])
    let base := Requestor.exchange loc lt 0 [⟨true, true, 20, mdOf items0, blocksOfItems items0⟩]
    (∀ m ∈ lt, rem m.cid = true) ∧ Loader.WF lt ∧ PathsDFS (lt.map (·.path)) ∧
    holds loc 9 = true ∧ holds loc 2 = false ∧ HonestStore loc ∧
    (Requestor.exchange loc lt 0 []).1.nBlocks < 2 ∧ (Requestor.exchange loc lt 0 []).1.ctxCancelled = false ∧
    isFailure M.status = false ∧ (∀ m ∈ ([] : List Requestor.Msg) ++ [M], ∀ e ∈ m.md, e.2.didFollow = true) ∧
    pausedX.1.paused = true ∧ missingOf pausedX.2 = [] ∧
    sentNews parkedX.2 = sentNews pausedX.2 ++ [2] ∧ parkedX.1.R.L.unfollowed = [] ∧
    respItemsW rem lt [] 2 = items ∧ respItemsW rem lt [] 1 = items0 ∧
    parkedX.2 = [.block 9 [] true 1, .prog 1, .sentNew 1, .write 2 2, .block 2 [0] false 2, .prog 1,
      .sentCancel, .sentNew 2] ∧
    resultsOf res.2 = [(9, [], true), (2, [0], true), (3, [1], true), (4, [2], true)] ∧
    resultsOf base.2 = [(9, [], true), (2, [0], true), (3, [1], true), (4, [2], true)] := by
  refine ⟨by decide, ?_, by decide, by decide, by decide, ?_, by decide, by decide, by decide, by decide, by decide, by decide,
    by decide, by decide, ?_, ?_, by decide, by decide, by decide⟩
  · simp [Loader.WF, subOf, skipSub, below]
  · intro c b h; simp at h; rw [h.1, h.2]
  · simp [respItemsW]
  · simp [respItemsW]

/-- `requestor_pause_resume_online` APPLIED to the exchange of the example above: all its hypotheses are
    discharged by evaluation, so the theorem is not vacuous (and `res` / `base` are the exchanges named
    there). -/
example :
    let root : LNode := ⟨9, [], 0, 1, 0⟩
    let n2 : LNode := ⟨2, [0], 1, 1, 0⟩
    let n3 : LNode := ⟨3, [1], 1, 1, 0⟩
    let n4 : LNode := ⟨4, [2], 1, 1, 0⟩
    let lt : LT := root :: [] ++ n2 :: [n3, n4]
    let rem : Cid → Bool := fun c => [9, 2, 3, 4].contains c
    let loc : List (Cid × Blk) := [(9, 9)]
    let M : Requestor.Msg := ⟨true, true, 14, [(9, .present), (2, .present)], [(2, 2)]⟩
    let items := respItemsW rem lt [] 2
    let items0 := respItemsW rem lt [] ([] : LT).length.succ
    let res := PauseResume.exchange loc lt 0 [2]
      (([] : List Requestor.Msg).map toOp ++ [toOp M, PauseResume.Op.unpause, toOp ⟨true, true, 20, mdOf items, blocksOfItems items⟩])
    let base := Requestor.exchange loc lt 0 [⟨true, true, 20, mdOf items0, blocksOfItems items0⟩]
    resultsOf res.2 = resultsOf base.2 ∧ (∀ c, holds res.1.R.L.store c = holds base.1.L.store c) := by
  intro root n2 n3 n4 lt rem loc M items items0 res base
  have h := requestor_pause_resume_online rem loc (by intro c b h; simp [loc] at h; rw [h.1, h.2])
    root [] n2 [n3, n4] 2 [] M 2 20 20 (Or.inl rfl) (Or.inl rfl)
    (by decide) (by simp [Loader.WF, subOf, skipSub, below, root, n2, n3, n4]) rfl (by decide) (by decide) (by decide)
    (by decide) (by decide)
    (by intro m hm; simp [toOp, M] at hm; subst hm; intro k b h; simp at h; rw [h.1, h.2])
    (by decide) (by decide) (by decide) (by decide) (by decide) (by decide) (by decide)
  exact ⟨h.1, h.2.2.2.1⟩

/-! ### the comparison with the uninterrupted exchange when the responder holds (at least) the blocks
loaded before the re-opening; blocks may be missing on either side after that point -/

/-- the reference traversal does not change when the store already holds the blocks of a prefix whose
    links the responder holds too (they would be fetched at their first visit anyway) -/
theorem refTrav_prefix_rem (rem : Cid → Bool) : ∀ (pre tl : LT) (st st' : List (Cid × Blk)),
    (∀ m ∈ pre, rem m.cid = true) →
    (∀ c, holds st' c = (holds st c || pre.any (fun m => m.cid == c))) →
    (refTrav rem (pre ++ tl) st' none).1 = (refTrav rem (pre ++ tl) st none).1 ∧
    ∀ c, holds (refTrav rem (pre ++ tl) st' none).2 c = holds (refTrav rem (pre ++ tl) st none).2 c
  | [], tl, st, st', _, h => by
    simp only [List.nil_append]
    exact refTrav_congr rem tl.length tl (Nat.le_refl _) st st' none (by intro c; rw [h c]; simp)
  | n :: pre, tl, st, st', hr, h => by
    have hrn : rem n.cid = true := hr n (by simp)
    have hd : dead1 none n = none := rfl
    have hdd : (if (dead1 none n).isNone && !rem n.cid then some n.depth else dead1 none n) = none := by
      simp [hd, hrn]
    have hst' : holds st' n.cid = true := by rw [h n.cid]; simp
    simp only [List.cons_append]
    rw [refTrav_holds rem n (pre ++ tl) st' none hst', hdd]
    cases hh : holds st n.cid with
    | true =>
      rw [refTrav_holds rem n (pre ++ tl) st none hh, hdd]
      have ih := refTrav_prefix_rem rem pre tl st st' (fun m hm => hr m (by simp [hm])) (by
        intro c
        rw [h c]
        simp only [List.any_cons]
        by_cases hc : (n.cid == c) = true
        · have : n.cid = c := eq_of_beq hc
          subst this
          simp [hh]
        · simp [hc])
      exact ⟨by simp [ih.1], ih.2⟩
    | false =>
      rw [refTrav_remote rem n (pre ++ tl) st none hh (by simp [hd, hrn]), hd]
      have ih := refTrav_prefix_rem rem pre tl ((n.cid, n.cid) :: st) st' (fun m hm => hr m (by simp [hm])) (by
        intro c
        rw [h c, holds_cons_eq]
        simp only [List.any_cons]
        cases (n.cid == c) <;> cases holds st c <;> simp)
      exact ⟨by simp [ih.1], ih.2⟩

/-- the uninterrupted request has loaded its local prefix before any message arrives -/
theorem exchange_nBlocks_prefix (loc : List (Cid × Blk)) (pre : LT) (n : LNode) (post : LT) (u : Nat)
    (msgs : List Requestor.Msg) (hheld : ∀ m ∈ pre, holds loc m.cid = true) (hmiss : holds loc n.cid = false) :
    pre.length ≤ (Requestor.exchange loc (pre ++ n :: post) u msgs).1.nBlocks := by
  obtain ⟨a, _, _, hreq⟩ := request_prefix loc pre n post u hheld hmiss
  have hex : (Requestor.exchange loc (pre ++ n :: post) u msgs).1 =
      (feed (Requestor.request { L := { store := loc } } (pre ++ n :: post) u).1 msgs).1 := rfl
  rw [hex, hreq]
  have := feed_nBlocks msgs
    ({ L := { Loader.setOnline (Loader.load (walk ({ store := loc } : Loader.State) pre).2 n.path n.cid).1 true with
                  mra := none, pending := some (a.path, a.link) },
         todo := n :: post, phase := .running, requestSent := true, nBlocks := pre.length, userSkip := u } : Requestor.State)
  exact this

/-- **C06.requestor_pause_resume_online_prefix** — `requestor_pause_resume_online` without the assumption
    that the responder holds the whole DAG: it is enough that the responder holds the blocks of the `w`
    links loaded BEFORE THE RE-OPENING (`hremw`; `w` = the do-not-send-first-blocks value of the re-sent
    request = the number of blocks loaded so far — this is the negation of `resume-skip-prefix-mismatch` and,
    for the first request, of `skip-prefix-mismatch` / `root-not-found-abort`).  After that point blocks may be
    missing on either side: the paused and resumed exchange reports the same delivered blocks AND the
    same missing-block errors, in the same order, and ends with the same stored blocks as the
    uninterrupted exchange (both are the reference traversal `refTrav rem lt loc`).  Other hypotheses as in
    `requestor_pause_resume_online`. -/
theorem requestor_pause_resume_online_prefix (rem : Cid → Bool) (loc : List (Cid × Blk)) (hloc : HonestStore loc)
    (root : LNode) (pre0' : LT) (n0 : LNode) (post0 : LT) (k : Nat) (m1 : List Requestor.Msg) (M : Requestor.Msg)
    (w st1 st2 : Nat) (hst1 : st1 = 20 ∨ st1 = 21) (hst2 : st2 = 20 ∨ st2 = 21)
    (hremw : ∀ m ∈ (root :: pre0' ++ n0 :: post0).take w, rem m.cid = true)
    (hwf : Loader.WF (root :: pre0' ++ n0 :: post0)) (hroot0 : root.path = [])
    (hne : ∀ m ∈ pre0' ++ n0 :: post0, m.path ≠ []) (hdep : ∀ m ∈ pre0' ++ n0 :: post0, m.depth ≠ 0)
    (hdfs : PathsDFS ((root :: pre0' ++ n0 :: post0).map (·.path)))
    (hheld0 : ∀ m ∈ root :: pre0', holds loc m.cid = true) (hmiss0 : holds loc n0.cid = false)
    (hwk : ∀ m, PauseResume.Op.msg m ∈ m1.map toOp ++ [toOp M] → WellKeyed m.blocks)
    (hpre : (Requestor.exchange loc (root :: pre0' ++ n0 :: post0) 0 m1).1.nBlocks < k)
    (hctx : (Requestor.exchange loc (root :: pre0' ++ n0 :: post0) 0 m1).1.ctxCancelled = false)
    (hfail : isFailure M.status = false)
    (hfol : ∀ m ∈ m1 ++ [M], ∀ e ∈ m.md, e.2.didFollow = true) :
    let lt := root :: pre0' ++ n0 :: post0
    let items0 := respItemsW rem lt [] (pre0'.length + 1)
    let base := Requestor.exchange loc lt 0 [⟨true, true, st1, mdOf items0, blocksOfItems items0⟩]
    let pausedX := PauseResume.exchange loc lt 0 [k] (m1.map toOp ++ [toOp M])
    let parkedX := PauseResume.exchange loc lt 0 [k] (m1.map toOp ++ [toOp M, PauseResume.Op.unpause])
    let items := respItemsW rem lt [] w
    let res := PauseResume.exchange loc lt 0 [k]
      (m1.map toOp ++ [toOp M, PauseResume.Op.unpause, toOp ⟨true, true, st2, mdOf items, blocksOfItems items⟩])
    pausedX.1.paused = true →
    missingOf pausedX.2 = [] →
    sentNews parkedX.2 = sentNews pausedX.2 ++ [w] →
    resultsOf res.2 = resultsOf base.2 ∧
    PauseResume.blocksOf res.2 = PauseResume.blocksOf base.2 ∧ missingOf res.2 = missingOf base.2 ∧
    (∀ c, holds res.1.R.L.store c = holds base.1.L.store c) ∧
    res.1.paused = false ∧
    resultsOf res.2 = (refTrav rem lt loc none).1.map keyOf := by
  intro lt items0 base pausedX parkedX items res hpaused hnm hre
  -- the state at the re-opening
  obtain ⟨rP, pre', n, rest, hpk1, hlt', h5, hkK, hw, hresP, ⟨ldq, hqq⟩, hunf0⟩ :=
    reopen_reached loc hloc root (pre0' ++ n0 :: post0) 0 k m1 M w hwk hpre hctx hfail hpaused hnm hre
  have hpk1' : parkedX.1 = hooked [k] rP := hpk1
  have hlt'' : lt = root :: pre' ++ n :: rest := hlt'
  have hunf : parkedX.1.R.L.unfollowed = [] := by rw [hpk1']; exact hunf0 hfol
  have hstore : parkedX.1.R.L.store = rP.L.store := by rw [hpk1']; rfl
  have hw' : w = (root :: pre').length := by rw [hw]; simp
  have htake : lt.take w = root :: pre' := by rw [hlt'', hw']; simp
  have hremP : ∀ m ∈ root :: pre', rem m.cid = true := fun m hm => hremw m (by
    show m ∈ lt.take w
    rw [htake]; exact hm)
  have hremroot : rem root.cid = true := hremP root (by simp)
  -- the local prefix of the first request lies inside the blocks loaded before the re-opening
  have hN0 : pre0'.length + 1 ≤ w := by
    have h1 := exchange_nBlocks_prefix loc (root :: pre0') n0 post0 0 m1 hheld0 hmiss0
    have h2 : (root :: pre0').length ≤ (Requestor.exchange loc lt 0 m1).1.nBlocks := h1
    have h3 : (Requestor.exchange loc lt 0 m1).1.nBlocks < k := hpre
    simp only [List.length_cons] at h2
    rw [hw']
    simp only [List.length_cons]
    omega
  have hrem0 : ∀ m ∈ root :: pre0', rem m.cid = true := fun m hm => hremw m (by
    have h1 : (root :: pre0' ++ n0 :: post0).take (pre0'.length + 1) = root :: pre0' := by simp
    have h2 : ((root :: pre0' ++ n0 :: post0).take w).take (pre0'.length + 1) = root :: pre0' := by
      rw [List.take_take, Nat.min_eq_left hN0, h1]
    rw [← h2] at hm
    exact List.mem_of_mem_take hm)
  -- the uninterrupted exchange is the reference traversal over the initial store
  have hbase := GS.C02.exchange_complete_prefix rem loc root pre0' n0 post0 st1 hst1 hwf hroot0 hne
    (fun m hm => hdep m (List.mem_append_right _ hm))
    (by
      have : (root :: pre0' ++ n0 :: post0).map (·.path) = (root :: pre0').map (·.path) ++ (n0 :: post0).map (·.path) := by simp
      exact PathsDFS.prefix _ (this ▸ hdfs))
    hheld0 hmiss0 hremroot
    (fun it hit _ => win_of_prefix_held rem loc (root :: pre0') (n0 :: post0) [] hrem0 hheld0 it hit)
  simp only at hbase
  obtain ⟨b1, _, b3⟩ := hbase
  have b1' : resultsOf base.2 = (refTrav rem lt loc none).1.map keyOf := b1
  have b3' : ∀ c, holds base.1.L.store c = holds (refTrav rem lt loc none).2 c := b3
  -- the resumed request
  have hwin : ∀ it ∈ items.take w, it.action = .present → holds parkedX.1.R.L.store it.link = true := by
    intro it hit _
    rw [hstore]
    have hitems : items = respItemsW rem ((root :: pre') ++ n :: rest) [] (root :: pre').length := by
      show respItemsW rem lt [] w = _
      rw [hlt'', hw']
    rw [hitems, hw'] at hit
    exact win_of_prefix_held rem rP.L.store (root :: pre') (n :: rest) [] hremP h5.held it hit
  obtain ⟨a1, a2, a3⟩ := requestor_reopen_online rem loc hloc root (pre0' ++ n0 :: post0) 0 k m1 M w st2 hst2
    hwf hroot0 hne hdep hdfs hwk hpre hctx hfail hpaused hnm hre hunf hremroot hwin
  have a1' : resultsOf res.2 = (refTrav rem lt parkedX.1.R.L.store none).1.map keyOf := a1
  have a2' : ∀ c, holds res.1.R.L.store c = holds (refTrav rem lt parkedX.1.R.L.store none).2 c := a2
  -- the store at the re-opening = the initial store + the blocks of the links loaded so far
  have hld : ldq = root :: pre' := hqq.unique (by rw [h5.todo]; exact hlt'')
  subst hld
  have hS : ∀ c, holds parkedX.1.R.L.store c = (holds loc c || (root :: pre').any (fun m => m.cid == c)) := by
    intro c
    rw [hstore]
    cases hl : holds loc c with
    | true => rw [hqq.mono c hl]; rfl
    | false =>
      cases ha : (root :: pre').any (fun m => m.cid == c) with
      | true =>
        obtain ⟨m, hm, hmc⟩ := List.any_eq_true.mp ha
        have : m.cid = c := eq_of_beq hmc
        rw [← this]
        exact h5.held m hm
      | false =>
        cases hs : holds rP.L.store c with
        | false => rfl
        | true =>
          exfalso
          rcases hqq.origL h5.run c hs with h | ⟨m, hm, hmc⟩
          · rw [hl] at h; cases h
          · have : (root :: pre').any (fun m => m.cid == c) = true := List.any_eq_true.mpr ⟨m, hm, by simp [hmc]⟩
            rw [ha] at this; cases this
  have hpr := refTrav_prefix_rem rem (root :: pre') (n :: rest) loc parkedX.1.R.L.store hremP hS
  have hltE : (root :: pre') ++ n :: rest = lt := by rw [hlt'']
  rw [hltE] at hpr
  have hres_eq : resultsOf res.2 = resultsOf base.2 := by rw [a1', b1', hpr.1]
  refine ⟨hres_eq, ?_, ?_, ?_, a3, ?_⟩
  · rw [blocksOf_resultsOf, blocksOf_resultsOf, hres_eq]
  · rw [missingOf_resultsOf, missingOf_resultsOf, hres_eq]
  · intro c
    rw [a2' c, b3' c, hpr.2 c]
  · rw [hres_eq, b1']

/-- non-vacuity of `requestor_pause_resume_online_prefix`, with a block missing on both sides AFTER the
    re-opening point (concrete values): the exchange of the examples above, but the responder lacks
    block 4.  The theorem applies (hypotheses discharged by evaluation); both exchanges deliver 9, 2, 3 and
    report link 4 missing. -/
example :
    let root : LNode := ⟨9, [], 0, 1, 0⟩
    let n2 : LNode := ⟨2, [0], 1, 1, 0⟩
    let n3 : LNode := ⟨3, [1], 1, 1, 0⟩
    let n4 : LNode := ⟨4, [2], 1, 1, 0⟩
    let lt : LT := root :: [] ++ n2 :: [n3, n4]
    let rem : Cid → Bool := fun c => [9, 2, 3].contains c
    let loc : List (Cid × Blk) := [(9, 9)]
    let M : Requestor.Msg := ⟨true, true, 14, [(9, .present), (2, .present)], [(2, 2)]⟩
    let items := respItemsW rem lt [] 2
    let items0 := respItemsW rem lt [] ([] : LT).length.succ
    let res := PauseResume.exchange loc lt 0 [2]
      (([] : List Requestor.Msg).map toOp ++ [toOp M, PauseResume.Op.unpause, toOp ⟨true, true, 21, mdOf items, blocksOfItems items⟩])
    let base := Requestor.exchange loc lt 0 [⟨true, true, 21, mdOf items0, blocksOfItems items0⟩]
    (resultsOf res.2 = resultsOf base.2 ∧ missingOf res.2 = missingOf base.2 ∧
      (∀ c, holds res.1.R.L.store c = holds base.1.L.store c)) ∧
    PauseResume.blocksOf res.2 = [(9, []), (2, [0]), (3, [1])] ∧ missingOf res.2 = [(4, [2])] := by
  intro root n2 n3 n4 lt rem loc M items items0 res base
  have h := requestor_pause_resume_online_prefix rem loc (by intro c b h; simp [loc] at h; rw [h.1, h.2])
    root [] n2 [n3, n4] 2 [] M 2 21 21 (Or.inr rfl) (Or.inr rfl)
    (by decide) (by simp [Loader.WF, subOf, skipSub, below, root, n2, n3, n4]) rfl (by decide) (by decide) (by decide)
    (by decide) (by decide)
    (by intro m hm; simp [toOp, M] at hm; subst hm; intro k b h; simp at h; rw [h.1, h.2])
    (by decide) (by decide) (by decide) (by decide) (by decide) (by decide) (by decide)
  refine ⟨⟨h.1, h.2.2.1, h.2.2.2.1⟩, ?_, ?_⟩
  · have : items = [⟨9, .present, none⟩, ⟨2, .present, none⟩, ⟨3, .present, some 3⟩, ⟨4, .missing, none⟩] := by
      simp [items, respItemsW, rem, lt, root, n2, n3, n4, skipSub]
    simp only [res, this]
    decide
  · have : items = [⟨9, .present, none⟩, ⟨2, .present, none⟩, ⟨3, .present, some 3⟩, ⟨4, .missing, none⟩] := by
      simp [items, respItemsW, rem, lt, root, n2, n3, n4, skipSub]
    simp only [res, this]
    decide

end GS.C06
