import GSProofs.C04Cancel
import GSProofs.Lemmas.ReqLifeCancel2
import GSProofs.Lemmas.ReqLifeCancelCtx
/-!
# C04 follow-up: trigger from the records, first cause wins, context cancel at state level

1. `recorded_triggered`: every record of a handled CancelRequest implies `apiCancelled` (hence `Triggered`);
   `cancel_api_eventually'` = `cancel_api_eventually` without the `Triggered` hypothesis.
2. `ctx_cancel_not_state_expressible_counterexample`: two reachable states that agree on EVERY field except the
   outbox, in both the caller's context is cancelled, the collector has sent its cancel message, the manager has
   consumed it, the request is gone, no terminal error; in one the manager handled the context cancel while it
   tracked the request (cancel message sent), in the other after the request had ended (no cancel message).
   So no predicate over the other fields of the current model characterises "context cancel handled while
   tracked".  `ctx_cancel_live_partial` is what CAN be said from the state: while the request is still tracked.
3. `first_cause_wins`: `termErr` = the error of the FIRST terminal cause the manager handled in the history.
-/
namespace GS.C04
open GS.ReqLife GS.Generated GS.Generated.StatusCodes

/-! ## 1. the records imply the trigger -/

/-- a CancelRequest message in the mailbox was put there by `CancelRequest`. -/
theorem cancel_msg_apiCancelled {s : State} (h : Reachable s) (hm : Msg.cancel true ∈ s.mbox) :
    s.apiCancelled = true := (invApi_reachable h).1 hm

/-- **recorded_triggered** (invariant over `Reachable`): each of the model's records of a handled
    CancelRequest implies that `CancelRequest` was called, so the liveness trigger holds. -/
theorem recorded_triggered {s : State} (h : Reachable s)
    (hc : s.termErr = some Err.cc ∨ 0 < s.waiters ∨ ApiRes.cancelOk ∈ s.apiLog) :
    s.apiCancelled = true ∧ Triggered s :=
  ⟨(invApi_reachable h).2 hc, Or.inr (Or.inl ((invApi_reachable h).2 hc))⟩

/-- **cancel_api_eventually'** -- `cancel_api_eventually` with the trigger derived.  On every weakly fair
    execution from an initial state: from any position where the request's terminal error is
    `RequestClientCancelledErr`, a position is reached where both returned channels are closed, the cancel
    message to the own peer is in the outbox and a `RequestClientCancelledErr` has been delivered. -/
theorem cancel_api_eventually' (σ : Nat → State) (h0 : ∃ p e t, σ 0 = init p e t)
    (hex : GS.Temporal.Exec sys σ) (hfair : GroupFair σ) (i : Nat) (ht : (σ i).termErr = some Err.cc) :
    ∃ j, i ≤ j ∧ bothClosed (σ j) = true ∧ cancelTo (σ j).peer ∈ (σ j).outbox ∧ Err.cc ∈ sends (σ j).retE :=
  cancel_api_eventually σ h0 hex hfair i (recorded_triggered (exec_reachable h0 hex i) (Or.inl ht)).2 ht

/-! ## 3. first cause wins -/

/-- the errors of the terminal causes handled by the manager along a history, in order -/
def termCauses (s : State) : List Action → List Err
  | [] => []
  | a :: as =>
    match step s a with
    | none => []
    | some s' => (termCause s a).toList ++ termCauses s' as

theorem run_termErr {s s' : State} {acts : List Action} (h : run s acts = some s') :
    s'.termErr = if s.termErr.isNone then (termCauses s acts).head? else s.termErr := by
  induction acts generalizing s with
  | nil => simp [run] at h; subst h; cases s.termErr <;> simp [termCauses]
  | cons a as ih =>
    simp only [run] at h
    cases hs : step s a with
    | none => simp [hs] at h
    | some s1 =>
      simp [hs] at h
      have h1 := step_termErr_first hs
      have h2 := ih h
      rw [h2, h1]
      cases hte : s.termErr with
      | some x => simp
      | none =>
        cases htc : termCause s a with
        | none => simp [termCauses, hs, htc]
        | some e => simp [termCauses, hs, htc]

/-- **first_cause_wins** (all histories).  After any history from an initial state, the request's terminal
    error is the error of the FIRST terminal cause the manager handled (`none` iff it handled none). -/
theorem first_cause_wins {p e t : Nat} {as : List Action} {s : State} (h : run (init p e t) as = some s) :
    s.termErr = (termCauses (init p e t) as).head? := by
  simpa [init] using run_termErr h

/-- what a terminal cause is, exactly: the manager (idle) handles, for a request it tracks, a CancelRequest
    message (error: client-cancelled), or a response whose hook fails (error: hook), or a response of the
    request's own peer with a failure status `st` (error: `asError st`, the generated table).
    (An executor error is NOT among them: the executor delivers its error itself on `inProgressErr` --
    `finErr` -- and the manager's `terminalError` is untouched; a context cancel proposes no error.) -/
theorem termCause_spec {s : State} {a : Action} {x : Err} (h : termCause s a = some x) :
    a = .mgr ∧ s.mphase = .idle ∧ s.reg = .live ∧ ∃ m rest, s.mbox = m :: rest ∧
      ((m = .cancel true ∧ x = Err.cc) ∨
       (∃ q st items, m = .responses q st items true ∧ hookRunsFor s q = true ∧ x = Err.hook) ∨
       (∃ st items hk k, m = .responses s.peer st items hk ∧ isFailure st = true ∧ asError st = some k ∧
          x = Err.status k)) := by
  cases a <;> simp only [termCause] at h <;> try (cases h; done)
  split at h
  next m rest hm hb =>
    cases m <;> simp only [msgTerm] at h <;> try (cases h; done)
    · split at h
      next hl => cases h; obtain ⟨h1, h2⟩ := hl; subst h2; exact ⟨rfl, hm, h1, _, _, hb, Or.inl ⟨rfl, rfl⟩⟩
      next => cases h
    · split at h
      next hh =>
        split at h
        next hl =>
          cases h
          simp at hh
          obtain ⟨h3, h4⟩ := hh
          subst h4
          exact ⟨rfl, hm, hl, _, _, hb, Or.inr (Or.inl ⟨_, _, _, rfl, h3, rfl⟩)⟩
        next => cases h
      next hh =>
        split at h
        next hl =>
          obtain ⟨h1, h2, h3⟩ := hl
          simp at h1
          obtain ⟨h4, h5⟩ := h1
          subst h5
          obtain ⟨k, hk, hx⟩ := Option.map_eq_some_iff.mp h
          exact ⟨rfl, hm, h4, _, _, hb, Or.inr (Or.inr ⟨_, _, _, k, rfl, h3, hk, hx.symm⟩)⟩
        next => cases h
  next => cases h

/-- the error the manager hands over on the error channel in `terminateRequest` is the first cause's. -/
theorem terminal_error_sent_is_first_cause {p e t : Nat} {as : List Action} {s : State}
    (h : run (init p e t) as = some s) {x : Err} {r : Bool} (hm : s.mphase = .termSend x r) :
    (termCauses (init p e t) as).head? = some x := by
  rw [← first_cause_wins h]
  exact (reachable_inv (reachable_run (Reachable.init p e t) h)).2.2.e4 x r hm

/-- **first cause = failure status ⇒ that status' error is the terminal error on the error channel**: if the
    first terminal cause of the history is a failure status with error `k` (= `asError` of the status, which
    identifies it: `asError_identifies`), then `Err.status k` is delivered at most once, and exactly once by
    the time the error channel is closed unless the caller's context was cancelled as well. -/
theorem first_cause_status_delivered {p e t : Nat} {as : List Action} {s : State}
    (h : run (init p e t) as = some s) {k : ErrKind}
    (hf : (termCauses (init p e t) as).head? = some (Err.status k)) :
    (sends s.retE).count (Err.status k) ≤ 1 ∧
    (s.ce = .done → s.callerCtx = false → (sends s.retE).count (Err.status k) = 1) :=
  failure_outcome (reachable_run (Reachable.init p e t) h) (by rw [first_cause_wins h, hf])

/-- **first cause = CancelRequest ⇒ client-cancelled error delivered and cancel message sent.** -/
theorem first_cause_cc_delivered {p e t : Nat} {as : List Action} {s : State}
    (h : run (init p e t) as = some s) (hf : (termCauses (init p e t) as).head? = some Err.cc) :
    cancelTo p ∈ s.outbox ∧ (s.ce = .done → Err.cc ∈ sends s.retE) := by
  have hr := reachable_run (Reachable.init p e t) h
  have ht : s.termErr = some Err.cc := by rw [first_cause_wins h, hf]
  have hp := (cancel_count_eq_causes h).1
  exact ⟨hp ▸ (cancel_sent_of_recorded hr (Or.inl ht)).1, cancel_outcome_api hr ht⟩

/-- non-vacuity (tests): failure status handled first, CancelRequest second -- and the other way round. -/
def failThenCancel : List Action :=
  [.envNew, .mgr, .wPop, .wGet, .mgr, .envResp 0 31 0 false, .envCancelApi, .mgr, .mgr]
def cancelThenFail : List Action :=
  [.envNew, .mgr, .wPop, .wGet, .mgr, .envCancelApi, .envResp 0 31 0 false, .mgr, .mgr]

example : termCauses (init 0 10 10) failThenCancel = [Err.status .RequestFailedBusyErr, Err.cc] ∧
    (run (init 0 10 10) failThenCancel).map (·.termErr) = some (some (Err.status .RequestFailedBusyErr)) := by
  decide
example : termCauses (init 0 10 10) cancelThenFail = [Err.cc, Err.status .RequestFailedBusyErr] ∧
    (run (init 0 10 10) cancelThenFail).map (·.termErr) = some (some Err.cc) := by decide
example : termCauses (init 0 10 10) [.envNew, .mgr, .envResp 0 14 0 true, .mgr] = [Err.hook] := by decide

/-! ## 2. context cancel at state level -/

theorem invCtx_reachable {s : State} (h : Reachable s) : InvCtx s := by
  induction h with
  | init p e t => exact invCtx_init p e t
  | step hr hs ih => exact invCtx_step (reachable_inv hr).1 ih hs

/-- **ctx_cancel_sent_state** (invariant over `Reachable`, history-free).  Once the collector has sent its
    cancel message after the caller's context ended (`cp = cancelling true ..`): the message is still in the
    manager's mailbox, or the request is gone, or the cancel message to the request's own peer is in the outbox. -/
theorem ctx_cancel_sent_state {s : State} (h : Reachable s) (hc : cpCancelSent s.cp = true) :
    s.callerCtx = true ∧
    (Msg.cancel false ∈ s.mbox ∨ s.reg = .gone ∨ cancelTo s.peer ∈ s.outbox) :=
  ⟨(reachable_inv h).1.n3c (by cases hcp : s.cp <;> simp_all [cpCancelSent, cpNeedsCtx]), invCtx_reachable h hc⟩

/-- **ctx_cancel_live_partial**: the state-level form of "context cancel ⇒ cancel sent" that the current model
    can express -- while the manager STILL tracks the request: context cancelled, collector's cancel message
    sent and consumed by the manager, request still tracked ⇒ the cancel message to the own peer is in the
    outbox.  (FULL statement wanted: the same with `reg = gone` and "the manager consumed the message while it
    tracked the request"; that last clause is not a function of the state, see the counterexample below.) -/
theorem ctx_cancel_live_partial {s : State} (h : Reachable s) (hc : cpCancelSent s.cp = true)
    (hm : Msg.cancel false ∉ s.mbox) (hl : s.reg = .live) : cancelTo s.peer ∈ s.outbox := by
  rcases (ctx_cancel_sent_state h hc).2 with h1 | h1 | h1
  · exact absurd h1 hm
  · simp [hl] at h1
  · exact h1

/-- non-vacuity (test): `cancelCtxTrace` after 15 actions: running request, context cancel consumed, still
    tracked. -/
example : ((run (init 3 10 10) (cancelCtxTrace.take 15)).map fun s =>
    (cpCancelSent s.cp, s.mbox, s.reg, s.outbox)) = some (true, [], .live, [reqTo 3, cancelTo 3]) := by decide

deriving instance DecidableEq for GS.ReqLife.State

/-- the manager handles the context cancel WHILE it tracks the (running) request; the executor then finishes. -/
def ctxHandledLiveTrace : List Action :=
  [.envNew, .mgr, .wPop, .wGet, .mgr, .envCtxCancel, .cpSeeCtx, .cpSendCancel, .mgr, .xTop, .xWaitLocal,
   .xRead true 0 false, .xHook .ok, .xTop, .mgr]
/-- the request completes first; the context is cancelled afterwards (before the collector saw the close),
    the manager gets the collector's cancel message for a request it no longer tracks. -/
def ctxHandledGoneTrace : List Action :=
  [.envNew, .mgr, .wPop, .wGet, .mgr, .xTop, .xWaitLocal, .xRead true 0 false, .xHook .ok, .xTop, .mgr,
   .envCtxCancel, .cpSeeCtx, .cpSendCancel, .mgr]

/-- **no state predicate of the current model expresses "context cancel handled while tracked".**  The two
    histories above end in states that are EQUAL in every field except the outbox (`[cancel]` vs `[]`):
    context cancelled, `ctxWhileOpen`, collector's cancel sent and consumed (mailbox empty), request gone,
    no terminal error.  Hence for `reg = gone` no hypothesis over the remaining fields (callerCtx, reg, mbox,
    termErr, cp, ...) can imply `cancelTo s.peer ∈ s.outbox`; both behaviours are correct (in the second the
    request had ended before the cancel arrived: `no_cancel_after_clean_end`).  A ghost flag would be needed,
    e.g. `ctxCancelLive : Bool`, set by `cancelLive _ false` (next to the existing `apiCancelled` /
    `ctxWhileOpen`); the history form `cancel_sent_of_cancelled` (api = false) needs no such flag. -/
theorem ctx_cancel_not_state_expressible_counterexample :
    ((run (init 0 10 10) ctxHandledLiveTrace).map fun s1 => { s1 with outbox := [] }) =
      run (init 0 10 10) ctxHandledGoneTrace ∧
    ((run (init 0 10 10) ctxHandledLiveTrace).map fun s1 =>
      (s1.outbox, s1.callerCtx, cpCancelSent s1.cp, s1.mbox, s1.reg)) =
      some ([cancelTo 0], true, true, [], Reg.gone) ∧
    (run (init 0 10 10) ctxHandledLiveTrace).map (·.termErr) = some none ∧
    (run (init 0 10 10) ctxHandledGoneTrace).map (·.outbox) = some [] := by
  decide

end GS.C04
