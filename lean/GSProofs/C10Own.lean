import GSProofs.Lemmas.RespDispatchOwnNotify
import GSProofs.Lemmas.RespDispatchOwnExec
import GSProofs.Lemmas.RespDispatchOwnExecTab
/-!
# C10, executor steps: `hown` of `executor_noninterference` is an invariant of reuse-free histories

`executor_noninterference` (GSProofs/C10.lean) assumes that the executor released by `.step p id`
satisfies `OwnExec`.  Here that hypothesis is discharged for every state reachable from the initial
state by a history in which no peer re-uses one of its *own* live request IDs:

* `ReuseFree s op` / `NoOwnReuse s ops` (GSProofs/Lemmas/RespDispatchOwnDef.lean): a message from
  `q` never reaches, in the dispatch loop, a `new` request whose ID is at that moment live for `q`
  itself — `liveFor s q id`: the table has an entry under `id` served to `q`, or an executor for
  the task `(q, id)` exists.  Nothing else is restricted: IDs live for other peers, cancel / update
  requests, worker steps, the local API and the notifications are arbitrary.
* `Inv` (same file) is the strengthened invariant; `inv_step` shows that every reuse-free step
  preserves it (together with `TableOk`: table entries point to allocated objects), `inv_reachable`
  is the induction over the history, `ownExec_reachable` extracts `OwnExec` for every executor,
  and `executor_noninterference_reachable` is `executor_noninterference` without `hown`.
* The condition is needed in the sense of `executor_by_id_counterexample`: the history of
  `sDetached` is rejected by `NoOwnReuse`, and in `sDetached` the executor violates `OwnExec`.
-/
namespace GS.C10
open GS.RespMgr GS.Generated

theorem tableOk_init : TableOk {} := by
  intro id k h
  simp [Table.get] at h

/-- **One step.**  Every step that satisfies the reuse-free guard preserves the invariant: messages
    (`msg`), task start and executor steps, the local API, the sent / network-error notifications,
    and a network-error notification with a message injected between its two closer calls. -/
theorem inv_step (s : State) (op : Op) (hi : Inv none s) (ht : TableOk s) (hr : ReuseFree s op = true) :
    Inv none (step s op).1 ∧ TableOk (step s op).1 := by
  cases op with
  | msg q reqs => exact processRequests_inv' hi ht q reqs hr
  | start p id => exact ⟨startExec_inv hi (p, id), startExec_tableOk ht (p, id)⟩
  | step p id => exact ⟨stepExec_inv hi (p, id), stepExec_tableOk ht (p, id)⟩
  | pauseResp id => exact ⟨pauseResp_inv hi id, pauseResp_tableOk ht id⟩
  | unpauseResp id => exact ⟨unpauseRequest_inv hi id, tableOk_unpause ht id⟩
  | cancelResp id => exact ⟨abortRequest_inv hi id .byCommand, tableOk_abort ht id .byCommand⟩
  | updateResp id => exact ⟨updateResp_inv hi id, updateResp_tableOk ht id⟩
  | sent p j => exact ⟨notifyAt_inv _ hi p j false, notifyAt_tableOk _ ht p j false⟩
  | neterr p j => exact ⟨notifyAt_inv _ hi p j true, notifyAt_tableOk _ ht p j true⟩
  | neterrInj p j q reqs => exact notifyAt_inj_inv hi ht p j q reqs hr

/-- **Histories.**  Induction over the op list, from any state satisfying the invariant. -/
theorem inv_run (s : State) (ops : List Op) (hi : Inv none s) (ht : TableOk s) (hr : NoOwnReuse s ops = true) :
    Inv none (runD RespDispatch.dispatch RespDispatch.closerKey s ops).1
    ∧ TableOk (runD RespDispatch.dispatch RespDispatch.closerKey s ops).1 := by
  induction ops generalizing s with
  | nil => exact ⟨hi, ht⟩
  | cons op ops ih =>
    simp only [NoOwnReuse, Bool.and_eq_true] at hr
    obtain ⟨h1, h2⟩ := inv_step s op hi ht hr.1
    exact ih (step s op).1 h1 h2 hr.2

/-- the invariant holds in every state reachable from the initial state by a reuse-free history -/
theorem inv_reachable (ops : List Op) (hr : NoOwnReuse {} ops = true) :
    Inv none (runD RespDispatch.dispatch RespDispatch.closerKey {} ops).1 :=
  (inv_run {} ops inv_init tableOk_init hr).1

/-- the invariant gives `OwnExec` for every executor -/
theorem ownExec_of_inv (s : State) (hi : Inv none s) (p : Peer) (id : ReqId) (e : Exec)
    (hf : findExec s.execs (p, id) = some e) : OwnExec s e p := by
  have het : e.task = (p, id) := findExec_task hf
  obtain ⟨o, hl, hp, _, _⟩ := hi.exec e (findExec_mem hf)
  have hp' : o.peer = p := by rw [hp, het]
  obtain ⟨_, hk⟩ := lookup_some hl
  refine ⟨by rw [het], ?_, ?_⟩
  · intro o' ho'
    rw [hk] at ho'; cases ho'; exact hp'
  · intro k' o' hl'
    rw [hl] at hl'; cases hl'; exact hp'

/-- **`hown` is an invariant.**  For every history `ops` from the initial state in which no peer
    re-uses one of its own live request IDs, every executor of the reached state works for its
    peer on a response served to that peer, and the table entry under its request ID is served to
    that peer too. -/
theorem ownExec_reachable (ops : List Op) (hr : NoOwnReuse {} ops = true) (p : Peer) (id : ReqId) (e : Exec)
    (hf : findExec (runD RespDispatch.dispatch RespDispatch.closerKey {} ops).1.execs (p, id) = some e) :
    OwnExec (runD RespDispatch.dispatch RespDispatch.closerKey {} ops).1 e p :=
  ownExec_of_inv _ (inv_reachable ops hr) p id e hf

/-- **C10, executor steps, reachable states.**  `executor_noninterference` without the `hown`
    hypothesis: in every state reached by a reuse-free history, releasing any executor `(p, id)`
    for a block touches only `p`'s responses and all its events concern `p`. -/
theorem executor_noninterference_reachable (ops : List Op) (hr : NoOwnReuse {} ops = true) (p : Peer) (id : ReqId) :
    let s := (runD RespDispatch.dispatch RespDispatch.closerKey {} ops).1
    FrameW p s (step s (.step p id)).1 ∧ AllPeer p (step s (.step p id)).2.1 :=
  executor_noninterference _ p id (fun e he => ownExec_reachable ops hr p id e he)

/-! ## Boolean form of the executor clause, for concrete states -/

/-- `OwnExec`'s content, decidable: the executor's object and the entry under its ID are served to
    the task's peer, and both exist -/
def ownExecB (s : State) (e : Exec) : Bool :=
  match s.lookup e.task.2 with
  | some (k, o) => k == e.k && o.peer == e.task.1
  | none => false

theorem ownExec_of_ownExecB (s : State) (e : Exec) (h : ownExecB s e = true) : OwnExec s e e.task.1 := by
  unfold ownExecB at h
  split at h
  · rename_i k o hl
    have hk : k = e.k := by simp at h; exact h.1
    have hp : o.peer = e.task.1 := by simp at h; exact h.2
    obtain ⟨_, hko⟩ := lookup_some hl
    refine ⟨rfl, ?_, ?_⟩
    · intro o' ho'
      rw [← hk, hko] at ho'; cases ho'; exact hp
    · intro k' o' hl'
      rw [hl] at hl'; cases hl'; exact hp
  · cases h

/-! ## tests on concrete histories (`decide`; samples, not theorems about all histories) -/

/-- two peers share request ID 1: peer 0's response 1 is being executed (one block sent), peer 1's
    `new 1` was dropped by the guard, peer 0 cancels and — once the executor has finished — asks
    for 1 again and is started again; peer 1 meanwhile has a response 2 -/
def hShared : List Op :=
  [.msg 0 [{ typ := .new, id := 1, total := 3 }], .start 0 1, .step 0 1,
   .msg 1 [{ typ := .new, id := 1, total := 2 }, { typ := .new, id := 2, total := 2 }],
   .msg 0 [{ typ := .cancel, id := 1 }], .step 0 1,
   .msg 0 [{ typ := .new, id := 1, total := 2 }], .start 0 1, .start 1 2,
   .msg 1 [{ typ := .update, id := 1, uh := .ext }]]

def sShared : State := (runD RespDispatch.dispatch RespDispatch.closerKey {} hShared).1

/-- non-vacuity (test): the history is reuse-free, reaches a state with live executors for `(0, 1)`
    and `(1, 2)`, and every executor there satisfies (the Boolean form of) `OwnExec` -/
example : NoOwnReuse {} hShared = true
    ∧ (findExec sShared.execs (0, 1)).isSome = true ∧ (findExec sShared.execs (1, 2)).isSome = true
    ∧ sShared.execs.all (ownExecB sShared) = true := by
  decide

/-- non-vacuity of `executor_noninterference_reachable` -/
example : FrameW 0 sShared (step sShared (.step 0 1)).1 ∧ AllPeer 0 (step sShared (.step 0 1)).2.1 :=
  executor_noninterference_reachable hShared (by decide) 0 1

/-- the same directly from `executor_noninterference` (its hypothesis is met non-trivially) -/
example : FrameW 0 sShared (step sShared (.step 0 1)).1 ∧ AllPeer 0 (step sShared (.step 0 1)).2.1 := by
  apply executor_noninterference
  intro e he
  have hm : e ∈ sShared.execs := findExec_mem he
  have hall : sShared.execs.all (ownExecB sShared) = true := by decide
  have hb := List.all_eq_true.mp hall e hm
  have := ownExec_of_ownExecB sShared e hb
  rw [findExec_task he] at this
  exact this

/-- the history behind `sDetached` is rejected: its fifth step is peer 0's `new 1` while its own
    response 1 is live (necessity of the condition in the sense of `executor_by_id_counterexample`) -/
example : NoOwnReuse {}
    [.msg 0 [{ typ := .new, id := 1, total := 3 }], .start 0 1, .step 0 1,
     .msg 0 [{ typ := .update, id := 1, uh := .ext }],
     .msg 0 [{ typ := .new, id := 1, total := 2 }], .msg 0 [{ typ := .cancel, id := 1 }],
     .msg 1 [{ typ := .new, id := 1, total := 2 }, { typ := .update, id := 1, uh := .none }]] = false := by
  decide

/-- … and in `sDetached` the executor of `(0, 1)` indeed violates `OwnExec` (the entry under its ID
    is served to peer 1), so `Inv none sDetached` fails -/
theorem sDetached_not_own : ∃ e, findExec sDetached.execs (0, 1) = some e ∧ ¬ OwnExec sDetached e 0 := by
  refine ⟨{ task := (0, 1), k := 0, tid := 0 }, by decide, ?_⟩
  intro h
  have := h.entry 2 { peer := 1, id := 1, total := 2, bh := .none, state := .queued, updates := [.none], sigUpdate := true }
    (by decide)
  exact absurd this (by decide)

theorem sDetached_not_inv : ¬ Inv none sDetached := by
  intro hi
  obtain ⟨e, he, hn⟩ := sDetached_not_own
  exact hn (ownExec_of_inv _ hi 0 1 e he)

end GS.C10
