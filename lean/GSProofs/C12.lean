import GS.Model.Wire
import GSProofs.Lemmas.WireBasic
import GSProofs.Lemmas.WireFuel
/-!
# C12 — Hostile bytes never crash a node or yield unverified blocks

Property sentence: "Whatever bytes a remote peer sends on a GraphSync stream, the node neither
crashes nor stops serving other streams: a malformed message is reported as a receive error and its
stream is reset. A message that decodes is delivered with every block keyed by the CID computed from
that block's own bytes and with every request ID a valid 16-byte identifier."

What is proved here is about the model `GS.Wire` (tied to message/v2, ipldbind, network by the
correspondence streams `wire`, `wiremut`, `netstream` and the regenerated schema tables):

* `keys`            every message the decoder accepts, for ALL byte strings and ALL hash functions,
                    has each block keyed by `Prefix.Sum` of the prefix and data that were on the wire,
                    and each request / response ID 16 bytes long;
* fuel             `decodeVal_fuel_indep`, `decodeOne_consumes`, `decodeStream_unfold`,
                    `decodeStream_fuel_indep`: for ARBITRARY input the fuel-bounded decoders are the
                    fuel-free ones -- more fuel never changes a result, a successful `decodeOne`
                    strictly consumes input, and `decodeStream` satisfies its fixpoint equation. So a
                    `none` / `err` of the model is always a decode failure, never exhausted fuel.
                    (That the model is a total function is true of every Lean function and is NOT
                    listed as an obligation; it says nothing about panics or allocation in the Go
                    code, the codec libraries or the runtime: that part of the property is only
                    evidenced by the no-panic/no-hang oracles of the harness.)
* `stream_fails_iff`, `bytes_to_events`  what "malformed" means for a whole byte stream and what the
                    read loop does with it: every frame `decodeOne` accepts is delivered, in order;
                    exactly one reset + one ReceiveError iff some frame fails to decode (anything
                    but a clean end of input at a frame boundary); none otherwise.
* `stream_machine_*` the read loop of handleNewStream: messages are delivered in order up to the
                    first failure; a failure (decode error, decoder panic, receiver panic) produces
                    exactly one reset and one ReceiveError and nothing is delivered afterwards; a
                    clean EOF produces neither; the stream is closed exactly once at the end.
-/
namespace GS.C12
open GS.Cbor GS.Wire

/-! ## what a delivered block's key is -/

/-- number of digest bytes that go into the key: the whole hash output for the identity "hash"
(`Prefix.Sum` passes -1), otherwise the length written in the prefix -/
def digestLen (p : Prefix) (full : Bytes) : Nat := if p.mhType = 0 then full.length else p.mhLen

/-- the size hint handed to the hash function -/
def sizeHint (p : Prefix) : Option Nat := if p.mhType = 0 then none else some p.mhLen

/-- binary CID from a prefix and a digest -/
def cidBytes (p : Prefix) (digest : Bytes) : Bytes :=
  if p.version = 0 then mhBytes p.mhType digest
  else 1 :: (putUvarint p.codec ++ mhBytes p.mhType digest)

/-- `Prefix.Sum` spelled out: the key is `Cid(prefix, multihash(prefix.mhType, first digestLen bytes of
hash(data)))`. -/
theorem sumCid_spec {hash : Hash} {p : Prefix} {data c : Bytes} (h : sumCid hash p data = some c) :
    ∃ full, hash p.mhType (sizeHint p) data = some full ∧ digestLen p full ≤ full.length ∧
      (p.version = 0 ∨ p.version = 1) ∧ c = cidBytes p (full.take (digestLen p full)) := by
  unfold sumCid at h
  simp only at h
  split at h
  · cases h
  · cases hh : hash p.mhType (if p.mhType = 0 then none else some p.mhLen) data with
    | none => rw [hh] at h; cases h
    | some full =>
      rw [hh] at h
      simp only at h
      have hlen : (if p.mhType = 0 then (none : Option Nat) else some p.mhLen).getD full.length = digestLen p full := by
        unfold digestLen; split <;> rfl
      rw [hlen] at h
      split at h
      · cases h
      · rename_i hle
        refine ⟨full, hh, by omega, ?_⟩
        split at h
        · rename_i hv
          simp only [Option.some.injEq] at h
          exact ⟨Or.inl hv, by rw [← h]; simp [cidBytes, hv]⟩
        · split at h
          · rename_i hv0 hv
            simp only [Option.some.injEq] at h
            exact ⟨Or.inr hv, by rw [← h]; simp [cidBytes, hv]⟩
          · cases h

/-- block `blk` of a decoded message comes from wire block `wb`: same data, and its key is built
from the prefix PARSED FROM `wb`'s prefix bytes and the hash of that data -/
def BlockKeyed (hash : Hash) (wb : BBlk) (blk : Block) : Prop :=
  wb.data = blk.data ∧ ∃ p full, parsePrefix wb.pfx = some p ∧
    hash p.mhType (sizeHint p) blk.data = some full ∧ digestLen p full ≤ full.length ∧
    blk.cid = cidBytes p (full.take (digestLen p full))

/-- what is guaranteed about a delivered message, relative to the wire message `b` it came from -/
def Verified (hash : Hash) (b : BMsg) (m : Msg) : Prop :=
  (∀ blk ∈ m.blocks, ∃ wb ∈ b.blk.getD [], BlockKeyed hash wb blk) ∧
  (∀ r ∈ m.requests, r.id.length = 16) ∧ (∀ r ∈ m.responses, r.id.length = 16)

theorem blkFromB_keyed {hash : Hash} {b : BBlk} {blk : Block} (h : blkFromB hash b = some blk) :
    BlockKeyed hash b blk := by
  unfold blkFromB at h
  split at h
  · cases h
  · rename_i p hp
    split at h
    · cases h
    · rename_i c hc
      cases h
      obtain ⟨full, h1, h2, _, h4⟩ := sumCid_spec hc
      exact ⟨rfl, p, full, hp, h1, h2, h4⟩

theorem reqFromB_id {r : BReq} {q : Request} (h : reqFromB r = some q) : q.id.length = 16 := by
  unfold reqFromB at h
  split at h
  · cases h
  · rename_i hlen
    have hl : r.id.length = 16 := by simpa using hlen
    split at h <;> (cases h; exact hl)

theorem rspFromB_id {r : BRsp} {q : Response} (h : rspFromB r = some q) : q.id.length = 16 := by
  unfold rspFromB at h
  split at h
  · cases h
  · rename_i hlen
    cases h
    simpa using hlen

theorem fromIPLD_verified {hash : Hash} {b : BMsg} {m : Msg} (h : fromIPLD hash b = some m) :
    Verified hash b m := by
  unfold fromIPLD at h
  split at h
  · rename_i rq rs bl hrq hrs hbl
    cases h
    refine ⟨?_, ?_, ?_⟩
    · intro blk hb
      obtain ⟨x, hx, hfx⟩ := mem_of_allSome hbl (mem_dedupLast _ hb)
      exact ⟨x, hx, blkFromB_keyed hfx⟩
    · intro r hr
      obtain ⟨x, _, hx⟩ := mem_of_allSome hrq (mem_dedupLast _ hr)
      exact reqFromB_id hx
    · intro r hr
      obtain ⟨x, _, hx⟩ := mem_of_allSome hrs (mem_dedupLast _ hr)
      exact rspFromB_id hx
  · cases h

theorem decodeOne_verified {hash : Hash} {bs : Bytes} {m : Msg} {rest : Bytes}
    (h : decodeOne hash bs = .ok m rest) :
    ∃ payload b, readFrame bs = .ok payload rest ∧ (decodeBlock payload).bind valToBMsg = some b ∧
      Verified hash b m := by
  unfold decodeOne at h
  split at h
  · cases h
  · cases h
  · rename_i p rest' hf
    split at h
    · rename_i m' hp
      simp only [DecodeResult.ok.injEq] at h
      obtain ⟨rfl, rfl⟩ := h
      unfold decodePayload at hp
      cases hv : decodeBlock p with
      | none => rw [hv] at hp; cases hp
      | some v =>
        rw [hv] at hp
        simp only at hp
        cases hb : valToBMsg v with
        | none => rw [hb] at hp; cases hp
        | some b =>
          rw [hb] at hp
          exact ⟨p, b, hf, by simp [hv, hb], fromIPLD_verified hp⟩
    · cases h

/-- **C12.keys** — "A message that decodes is delivered with every block keyed by the CID computed
from that block's own bytes and with every request ID a valid 16-byte identifier": for every byte
string `bs` and every hash function, if `FromNet` accepts `bs` as message `m`, then `bs` starts with a
frame whose payload decodes (codec + schema) to a wire message `b` such that every delivered block
has the data of one of `b`'s blocks and the key
`Cid(p, multihash(p.mhType, first digestLen bytes of hash(p.mhType, data)))` where `p` is the prefix
parsed from THAT wire block's prefix bytes; and all request / response IDs have 16 bytes. -/
theorem keys (hash : Hash) (bs : Bytes) (m : Msg) (h : decodeMsg hash bs = some m) :
    ∃ payload rest b, readFrame bs = .ok payload rest ∧
      (decodeBlock payload).bind valToBMsg = some b ∧ Verified hash b m := by
  unfold decodeMsg at h
  cases hd : decodeOne hash bs with
  | eof => rw [hd] at h; cases h
  | err => rw [hd] at h; cases h
  | ok m' rest =>
    rw [hd] at h
    simp only [Option.some.injEq] at h
    subst h
    obtain ⟨p, b, h1, h2, h3⟩ := decodeOne_verified hd
    exact ⟨p, rest, b, h1, h2, h3⟩

/-- the weaker, prefix-free reading (what `keys` was before the audit): the key is `Prefix.Sum` of the
data for SOME prefix -/
theorem keys_sum (hash : Hash) (bs : Bytes) (m : Msg) (h : decodeMsg hash bs = some m) :
    (∀ blk ∈ m.blocks, ∃ p, sumCid hash p blk.data = some blk.cid) ∧
    (∀ r ∈ m.requests, r.id.length = 16) ∧ (∀ r ∈ m.responses, r.id.length = 16) := by
  unfold decodeMsg at h
  cases hd : decodeOne hash bs with
  | eof => rw [hd] at h; cases h
  | err => rw [hd] at h; cases h
  | ok m' rest =>
    rw [hd] at h
    simp only [Option.some.injEq] at h
    subst h
    unfold decodeOne at hd
    split at hd
    · cases hd
    · cases hd
    · split at hd
      · rename_i m'' hp
        simp only [DecodeResult.ok.injEq] at hd
        obtain ⟨rfl, _⟩ := hd
        unfold decodePayload at hp
        split at hp
        · cases hp
        · split at hp
          · cases hp
          · rename_i b _
            unfold fromIPLD at hp
            split at hp
            · rename_i rq rs bl hrq hrs hbl
              cases hp
              refine ⟨?_, ?_, ?_⟩
              · intro blk hb
                obtain ⟨x, _, hfx⟩ := mem_of_allSome hbl (mem_dedupLast _ hb)
                unfold blkFromB at hfx
                split at hfx
                · cases hfx
                · rename_i p _
                  split at hfx
                  · cases hfx
                  · rename_i c hc
                    cases hfx
                    exact ⟨p, hc⟩
              · intro r hr
                obtain ⟨x, _, hx⟩ := mem_of_allSome hrq (mem_dedupLast _ hr)
                exact reqFromB_id hx
              · intro r hr
                obtain ⟨x, _, hx⟩ := mem_of_allSome hrs (mem_dedupLast _ hr)
                exact rspFromB_id hx
            · cases hp
      · cases hd

/-- **degenerate keys** (audit item): `Prefix.Sum` truncates the digest to the length written in the
prefix, and go-multihash accepts any length up to the hash size INCLUDING 0 (confirmed on the real
code: corpus `blk-sha256-len-0`, `blk-sha256-trunc-20`). With length 0 the key does not depend on
the data at all: any two blocks sent under such a prefix get the same key. The key is still "computed
from the block's own bytes" (by a constant function), so `keys` holds; what such a key is worth is a
matter of the CIDs a requester asks for, not of the decoder. Recorded in checks/C12.json
`assumptions`. -/
theorem zero_length_digest_key_ignores_data (hash : Hash) (p : Prefix) (d1 d2 c1 c2 : Bytes)
    (ht : p.mhType ≠ 0) (hl : p.mhLen = 0)
    (h1 : sumCid hash p d1 = some c1) (h2 : sumCid hash p d2 = some c2) : c1 = c2 := by
  obtain ⟨f1, _, _, _, e1⟩ := sumCid_spec h1
  obtain ⟨f2, _, _, _, e2⟩ := sumCid_spec h2
  have z1 : digestLen p f1 = 0 := by simp [digestLen, ht, hl]
  have z2 : digestLen p f2 = 0 := by simp [digestLen, ht, hl]
  rw [e1, e2, z1, z2]
  simp

/-- non-vacuity of `keys`: some byte string decodes to a message with a block and a request -/
example : ((encodeMsg { requests := [{ id := [0, 1, 2, 3, 4, 5, 6, 7, 8, 9, 10, 11, 12, 13, 14, 15], type := .cancel }],
                        blocks := [{ cid := [1, 0x55, 0, 3, 0x61, 0x62, 0x63], data := [0x61, 0x62, 0x63] }] }).bind
    (fun bs => (decodeMsg (fun code _ data => if code = 0 then some data else none) bs).map
      (fun m => (m.blocks.length, m.requests.length)))) = some (1, 1) := by decide +kernel

/-- the same for every message of a stream: each comes from a wire message it is `Verified` against -/
theorem keys_stream (hash : Hash) : ∀ (fuel : Nat) (bs : Bytes) (m : Msg),
    m ∈ (decodeStreamFuel hash fuel bs).1 → ∃ b, Verified hash b m
  | 0, _, _, h => by simp [decodeStreamFuel] at h
  | fuel + 1, bs, m, h => by
    rw [decodeStreamFuel_succ] at h
    cases hd : decodeOne hash bs with
    | eof => rw [hd] at h; simp at h
    | err => rw [hd] at h; simp at h
    | ok m' rest =>
      rw [hd] at h
      simp only [List.mem_cons] at h
      rcases h with h | h
      · subst h
        obtain ⟨_, b, _, _, hv⟩ := decodeOne_verified hd
        exact ⟨b, hv⟩
      · exact keys_stream hash fuel rest m h

/-! ## fuel: a failure of the model is a decode failure, never exhausted fuel -/

/-- the CBOR item decoder with any larger fuel gives the same result on EVERY input -/
theorem decodeVal_fuel_indep (bs : Bytes) (F : Nat) (hF : 2 * bs.length + 2 ≤ F) :
    decVal F 0 none bs = decodeVal bs := GS.Cbor.decodeVal_fuel_indep bs F hF

/-- a successful `FromMsgReader` strictly consumes input -/
theorem decodeOne_consumes (hash : Hash) (bs : Bytes) (m : Msg) (rest : Bytes)
    (h : decodeOne hash bs = .ok m rest) : rest.length < bs.length := GS.Wire.decodeOne_consumes h

/-- `decodeStream` satisfies its defining recursion without any fuel -/
theorem decodeStream_unfold (hash : Hash) (bs : Bytes) :
    decodeStream hash bs =
      match decodeOne hash bs with
      | .eof => ([], true)
      | .err => ([], false)
      | .ok m rest => (m :: (decodeStream hash rest).1, (decodeStream hash rest).2) :=
  GS.Wire.decodeStream_unfold hash bs

/-- more fuel never changes `decodeStream` -/
theorem decodeStream_fuel_indep (hash : Hash) (bs : Bytes) (k : Nat) :
    decodeStreamFuel hash (bs.length + 1 + k) bs = decodeStream hash bs :=
  GS.Wire.decodeStream_fuel_indep hash bs k

/-- "some frame of the stream fails to decode": the failure is either here or after a good frame.
(A clean end of input at a frame boundary is `decodeOne = .eof`, which is NOT a failure.) -/
inductive StreamFails (hash : Hash) : Bytes → Prop where
  | here {bs : Bytes} : decodeOne hash bs = .err → StreamFails hash bs
  | later {bs rest : Bytes} {m : Msg} : decodeOne hash bs = .ok m rest → StreamFails hash rest →
      StreamFails hash bs

/-- `decodeStream` reports "error" exactly for the streams in which some frame fails to decode -/
theorem stream_fails_iff (hash : Hash) : ∀ (n : Nat) (bs : Bytes), bs.length ≤ n →
    ((decodeStream hash bs).2 = false ↔ StreamFails hash bs) := by
  intro n
  induction n with
  | zero =>
    intro bs hn
    have : bs = [] := List.eq_nil_of_length_eq_zero (by omega)
    subst this
    rw [decodeStream_unfold]
    have he : decodeOne hash [] = .eof := by simp [decodeOne, readFrame]
    rw [he]
    constructor
    · intro h; cases h
    · intro h
      cases h with
      | here h' => rw [he] at h'; cases h'
      | later h' _ => rw [he] at h'; cases h'
  | succ n ih =>
    intro bs hn
    rw [decodeStream_unfold]
    cases hd : decodeOne hash bs with
    | eof =>
      constructor
      · intro h; cases h
      · intro h
        cases h with
        | here h' => rw [hd] at h'; cases h'
        | later h' _ => rw [hd] at h'; cases h'
    | err => exact ⟨fun _ => .here hd, fun _ => rfl⟩
    | ok m rest =>
      have hc := GS.Wire.decodeOne_consumes hd
      have := ih rest (by omega)
      simp only
      constructor
      · intro h; exact .later hd (this.1 h)
      · intro h
        cases h with
        | here h' => rw [hd] at h'; cases h'
        | later h' hr =>
          rw [hd] at h'
          simp only [DecodeResult.ok.injEq] at h'
          obtain ⟨_, rfl⟩ := h'
          exact this.2 hr

/-! ## the read loop

`handleStream` interprets the tables of GS/Generated/StreamLoop.lean (regenerated from
handleNewStream). The next five equations evaluate it on the current tables; everything below is
proved from them, so a change of the loop (no Reset, no ReceiveError, another order, something done on
EOF, no Close) makes them -- and with them every `stream_machine` theorem -- fail. -/

theorem hs_nil : handleStream [] = [] := rfl
theorem hs_msg (m : Msg) (rest : List Outcome) :
    handleStream (.msg m :: rest) = .deliver m :: handleStream rest := rfl
theorem hs_msgPanic (m : Msg) (rest : List Outcome) :
    handleStream (.msgPanic m :: rest) = [.deliver m, .reset, .receiveError, .close] := rfl
theorem hs_eof (rest : List Outcome) : handleStream (.eof :: rest) = [.close] := rfl
theorem hs_error (rest : List Outcome) :
    handleStream (.error :: rest) = [.reset, .receiveError, .close] := rfl
theorem hs_panic (rest : List Outcome) :
    handleStream (.panic :: rest) = [.reset, .receiveError, .close] := rfl

/-- "nor stops serving other streams", as far as the decode path is concerned: the one MessageHandler
that decodes the frames of all streams of a node has no fields (no lock, no buffer, no reader shared
between streams), and FromNet / FromMsgReader / fromIPLD touch no package-level variable, no sync
primitive and start no goroutine (the translator exits non-zero otherwise). In the model this is the
fact that what a stream delivers is a function of that stream's bytes alone (`bytes_to_events`).
Whether a stalled stream delays another one at run time is checked on the real code by the `stall`
cases of the netstream stream (oracle class other-stream-blocked). -/
theorem no_shared_decode_state : GS.Generated.StreamLoop.handlerStateFields = [] := rfl

/-- the end-of-stream test of the loop is the identity comparison with io.EOF (the translator accepts
nothing else): only the decoder's bare `eof` outcome ends a stream silently -/
theorem eof_test_is_identity : GS.Generated.StreamLoop.eofTestIsIdentity = true := rfl

def isDeliver : Event → Bool
  | .deliver _ => true
  | _ => false

def failed : Outcome → Bool
  | .error => true
  | .panic => true
  | .msgPanic _ => true
  | _ => false

def stops : Outcome → Bool
  | .msg _ => false
  | _ => true

/-- the messages of the leading `.msg` outcomes -/
def goodPrefix : List Outcome → List Msg
  | .msg m :: rest => m :: goodPrefix rest
  | _ => []

/-- the first outcome that ends the loop, if any -/
def firstStop : List Outcome → Option Outcome
  | [] => none
  | .msg _ :: rest => firstStop rest
  | o :: _ => some o

/-- **C12.stream_machine** — closed form of the event sequence of handleNewStream: the good prefix is
delivered in order; then, depending on what ended the loop: nothing more (still reading), `close`
(clean EOF), or exactly `reset, receiveError, close` (decode error / decoder panic), preceded by the
delivery attempt if it was the receiver that panicked. -/
theorem stream_machine (os : List Outcome) :
    handleStream os = (goodPrefix os).map Event.deliver ++
      (match firstStop os with
       | none => []
       | some .eof => [.close]
       | some (.msgPanic m) => [.deliver m, .reset, .receiveError, .close]
       | some _ => [.reset, .receiveError, .close]) := by
  induction os with
  | nil => rfl
  | cons o rest ih =>
    cases o <;> simp [hs_msg, hs_msgPanic, hs_eof, hs_error, hs_panic, goodPrefix, firstStop, ih]

/-- after a reset / ReceiveError nothing is delivered -/
theorem stream_machine_nothing_after_error (os : List Outcome) (pre post : List Event)
    (h : handleStream os = pre ++ Event.receiveError :: post) : post = [.close] ∧
    (∀ e ∈ post, isDeliver e = false) := by
  induction os generalizing pre with
  | nil => cases pre <;> simp [hs_nil] at h
  | cons o rest ih =>
    cases o with
    | msg m =>
      cases pre with
      | nil => simp [hs_msg] at h
      | cons e pre' =>
        simp only [hs_msg, List.cons_append, List.cons.injEq] at h
        exact ih pre' h.2
    | msgPanic m =>
      simp only [hs_msgPanic] at h
      match pre, h with
      | [_, _], h => simp at h; obtain ⟨_, _, h3⟩ := h; subst h3; simp [isDeliver]
      | [], h => simp at h
      | [_], h => simp at h
      | [_, _, _], h => simp at h
      | _ :: _ :: _ :: _ :: _, h => simp at h
    | eof =>
      simp only [hs_eof] at h
      match pre, h with
      | [], h => simp at h
      | [_], h => simp at h
      | _ :: _ :: _, h => simp at h
    | error =>
      simp only [hs_error] at h
      match pre, h with
      | [_], h => simp at h; obtain ⟨_, h3⟩ := h; subst h3; simp [isDeliver]
      | [], h => simp at h
      | [_, _], h => simp at h
      | _ :: _ :: _ :: _, h => simp at h
    | panic =>
      simp only [hs_panic] at h
      match pre, h with
      | [_], h => simp at h; obtain ⟨_, h3⟩ := h; subst h3; simp [isDeliver]
      | [], h => simp at h
      | [_, _], h => simp at h
      | _ :: _ :: _ :: _, h => simp at h

/-- exactly one ReceiveError and one reset iff the loop was ended by a failure; none otherwise -/
theorem stream_machine_error_count (os : List Outcome) :
    ((handleStream os).filter (fun e => match e with | .receiveError => true | _ => false)).length =
      (match firstStop os with | some o => if failed o then 1 else 0 | none => 0) ∧
    ((handleStream os).filter (fun e => match e with | .reset => true | _ => false)).length =
      (match firstStop os with | some o => if failed o then 1 else 0 | none => 0) := by
  induction os with
  | nil => simp [hs_nil, firstStop]
  | cons o rest ih =>
    cases o <;> simp [hs_msg, hs_msgPanic, hs_eof, hs_error, hs_panic, firstStop, failed, ih]

/-- a complete byte stream (no panics): the delivered messages are exactly the ones `decodeStream`
yields, each satisfying `keys`, and the stream is reset with one ReceiveError iff it did not end
cleanly. -/
theorem stream_machine_bytes (hash : Hash) (bs : Bytes) :
    handleStream (outcomesOf hash bs) =
      (decodeStream hash bs).1.map Event.deliver ++
      (if (decodeStream hash bs).2 then [.close] else [.reset, .receiveError, .close]) := by
  unfold outcomesOf
  generalize decodeStream hash bs = r
  obtain ⟨ms, e⟩ := r
  simp only
  induction ms with
  | nil => cases e <;> simp [hs_eof, hs_error]
  | cons m ms ih => simp [hs_msg, ih]

/-- **hostile bytes → events**: for every byte string written on a stream (and no panic), the handler
delivers exactly the frames `decodeOne` accepts, in order; it resets the stream and reports exactly
one ReceiveError iff some frame fails to decode (`StreamFails`), and does neither otherwise; in both
cases it finally closes the stream. -/
theorem bytes_to_events (hash : Hash) (bs : Bytes) :
    (StreamFails hash bs →
      handleStream (outcomesOf hash bs) =
        (decodeStream hash bs).1.map Event.deliver ++ [.reset, .receiveError, .close]) ∧
    (¬ StreamFails hash bs →
      handleStream (outcomesOf hash bs) = (decodeStream hash bs).1.map Event.deliver ++ [.close]) := by
  have hb := stream_machine_bytes hash bs
  have hi := stream_fails_iff hash bs.length bs (Nat.le_refl _)
  constructor
  · intro hf
    have : (decodeStream hash bs).2 = false := hi.2 hf
    rw [hb, this]; rfl
  · intro hf
    have : (decodeStream hash bs).2 = true := by
      cases h : (decodeStream hash bs).2 with
      | true => rfl
      | false => exact absurd (hi.1 h) hf
    rw [hb, this]; rfl

/-! non-vacuity: a concrete stream -/
example : handleStream [.msg {}, .msg {}, .error, .msg {}] =
    [.deliver {}, .deliver {}, .reset, .receiveError, .close] := rfl

end GS.C12
