package main

import (
	_ "verifharness/peermgr"
	"verifharness/reg"
)

func main() { reg.Main("peermgr") }
