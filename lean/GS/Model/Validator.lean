/-
Model of /repo/selectorvalidator/selectorvalidator.go (property C08), core Lean only.

  maxDepthSelector          = the *generated* builder expression `maxDepthSelectorSpec`
                              (GS/Generated/ValidatorSpec.lean, regenerated from the Go source on
                              every check), parsed like `….Selector()` does
  ValidateMaxRecursionDepth = `validate`: go-ipld-prime's WalkMatching (GS.Sel.walk) of that
                              selector over the request's selector node, calling the visit callback
                              on every matched node; the callback's guards / switch / comparison are
                              the generated decision table
  default wiring            = `defaultResponse`: the validator hook registered by impl.New with the
                              generated depth, then prepareQuery's generated status chain
-/
import GS.Model.Selector
import GS.Generated.ValidatorSpec
namespace GS.Validator
open GS.Sel GS.Generated.ValidatorSpec

/-- outcome of one call of the visit callback -/
inductive CbRes where
  | ok | reject | panic
deriving Repr, DecidableEq, Inhabited

/-- result of `ValidateMaxRecursionDepth` -/
inductive Verdict where
  | ok             -- nil
  | invalidLimit   -- ErrInvalidLimit
  | error          -- an error of the walk itself (a link inside the selector node)
  | panic          -- nil selector / nil map iterator dereference
  | unsupported    -- the generated selector uses a combinator this model does not cover
deriving Repr, DecidableEq, Inhabited

def runAction (max : Int) : Action → Node → CbRes
  | .reject, _ => .reject
  | .accept, _ => .ok
  | .intCheck c, .int i => if c.eval i max then .reject else .ok
  | .intCheck _, _ => .reject        -- `v.AsInt()` fails on every other kind

/-- the visit callback of ValidateMaxRecursionDepth -/
def callback (max : Int) : Node → CbRes
  | .map kvs =>
    if guardLen1 && kvs.length != 1 then .reject else
    match kvs with
    | [] => .panic         -- `MapIterator().Next()` on an empty map yields nil nodes; `kn.AsString()` panics
    | (k, v) :: _ => runAction max ((lookupAction k callbackCases).getD callbackDefault) v
  | .list xs =>
    if guardKindMap then .reject
    else if guardLen1 && xs.length != 1 then .reject
    else .panic            -- `MapIterator()` of a non-map is nil
  | _ =>
    if guardKindMap then .reject
    else if guardLen1 then .reject   -- `Length()` of a scalar is -1
    else .panic

/-- `maxDepthSelector, _ = <spec>.Selector()`: nil when ParseSelector rejects the spec -/
def validatorSel : Except Verdict RSel :=
  if !wf maxDepthSelectorSpec then .error .panic
  else match compile maxDepthSelectorSpec with
    | some s => .ok s
    | none => .error .unsupported

def verdictOf (max : Int) (aborted : Bool) : List Node → Verdict
  | [] => if aborted then .error else .ok
  | n :: rest =>
    match callback max n with
    | .ok => verdictOf max aborted rest
    | .reject => .invalidLimit
    | .panic => .panic

/-- `ValidateMaxRecursionDepth(node, max)` -/
def validate (max : Int) (n : Node) : Verdict :=
  match validatorSel with
  | .error v => v
  | .ok s => let r := walk s n; verdictOf max r.aborted r.matched

/-! ## default wiring of the responder -/

structure HookResult where
  validated : Bool
  err : Bool := false
  paused : Bool := false
deriving Repr

def condHolds : PQCond → HookResult → Bool
  | .hookError, r => r.err
  | .notValidated, r => !r.validated
  | .validated, r => r.validated
  | .paused, r => r.paused

/-- prepareQuery's chain: the action of the first condition that holds -/
def firstAction (r : HookResult) : List (PQCond × PQAct) → Option PQAct
  | [] => none
  | (c, a) :: rest => if condHolds c r then some a else firstAction r rest

/-- hook result for a request under the default configuration (only the default validator hook) -/
def defaultHookResult (selectorNode : Node) : HookResult :=
  { validated := registerDefaultValidator && hooksReachResponder && hookValidatesIffNil &&
      validate registeredDepth selectorNode == .ok }

/-- what prepareQuery does with a request under the default configuration:
    `some (finishWithError s)` = terminal status `s` on the wire, `none` = the request is served -/
def defaultResponse (selectorNode : Node) : Option PQAct :=
  firstAction (defaultHookResult selectorNode) prepareQueryChain

end GS.Validator
