import GSProofs.Lemmas.RespLifeOutcomeMgr
/-!
Outcome accounting: newRequest (the only step that logs a registration), StartTask / FinishTask /
GetUpdates, the publisher's notifications, the whole `handle`, `resumeMgr`, `mgrStep`.
-/
namespace GS.RespLife

/-- like `Chg`, but registrations may be logged: they pay for a rise of the potential -/
def ChgR (r : Id) (s s' : State) (up down : Nat) : Prop :=
  MQN s → (Pot r s' + down + regs r s ≤ Pot r s + up + regs r s' ∧ MQN s')

theorem Chg.toR {r : Id} {s s' : State} {u d : Nat} (h : Chg r s s' u d) : ChgR r s s' u d := by
  intro h0
  obtain ⟨h1, h2, h3⟩ := h h0
  exact ⟨by omega, h3⟩

theorem Chg.transR {r : Id} {a b c : State} {u1 d1 u2 d2 : Nat} (h1 : Chg r a b u1 d1) (h2 : ChgR r b c u2 d2) :
    ChgR r a c (u1 + u2) (d1 + d2) := by
  intro h0
  obtain ⟨x1, y1, z1⟩ := h1 h0
  obtain ⟨x2, z2⟩ := h2 z1
  exact ⟨by omega, z2⟩

theorem ChgR.weaken {r : Id} {a b : State} {u d u' d' : Nat} (h : ChgR r a b u d) (hu : u + d' ≤ u' + d) :
    ChgR r a b u' d' := by
  intro h0
  obtain ⟨x, z⟩ := h h0
  exact ⟨by omega, z⟩

-- ------------------------------------------------------------------ newRequest
theorem chg_newReqFinish (r : Id) (s : State) (p : Peer) (id : Id) (cfg : ReqCfg) (hp : s.park = none) :
    Chg r s (newReqFinish s p id cfg)
      (if id == r then (if (cfg.hook.kind == .accept || cfg.hook.kind == .pause) = true then 1 else 0) else 0) 0 := by
  unfold newReqFinish
  split
  · rename_i hk
    refine (chg_insertResp r s _ hp).weaken ?_
    simp [stW]
  · rename_i hk
    refine (chg_insertResp r s _ hp).weaken ?_
    simp [stW]
  · rename_i hk
    refine (chg_insertResp r s _ hp).weaken ?_
    simp [stW, hk]
  · rename_i hk
    have hpp : (pushTask s p id cfg.pri).park = none := by rw [park_pushTask]; exact hp
    refine ((chg_pushTask r s p id cfg.pri).trans (chg_insertResp r _ _ hpp)).weaken ?_
    simp [stW, hk]

theorem pot_protect (r : Id) (s : State) (p : Peer) (id : Id) :
    Pot r (openStream (protect s p id) id) = Pot r s ∧
    regs r (openStream (protect s p id) id) = regs r s + (if id == r then 1 else 0) ∧
    (MQN s → MQN (openStream (protect s p id) id)) := by
  refine ⟨?_, ?_, fun h => h⟩
  · have e : evW r (openStream (protect s p id) id).events = evW r s.events := by
      simp [openStream, protect, emit, evW, List.countP_append, outEv]
    show evW r (openStream (protect s p id) id).events + entW r s + parkW r s.park + wkSum r s.workers +
      mbSum r s.workers s.mailbox + mqSum r s.mqs = _
    rw [e]; rfl
  · simp only [regs, openStream, protect, emit, List.countP_append, List.countP_cons, List.countP_nil, regEv]
    by_cases h : (id == r) = true <;> simp [h]

theorem chgR_newRequest (r : Id) (s : State) (p : Peer) (id : Id) (cfg : ReqCfg) (hp : s.park = none) :
    ChgR r s (newRequest s p id cfg) 0 0 := by
  have hb := prepareOps_budget cfg.hook
  obtain ⟨e1, e2, e3⟩ := pot_protect r s p id
  have hp2 : (openStream (protect s p id) id).park = none := hp
  have hrest : Chg r (openStream (protect s p id) id) (newRequest s p id cfg) (if id == r then 1 else 0) 0 := by
    unfold newRequest
    simp only
    have hx := chg_execTx' r (openStream (protect s p id) id) .mgr p id (prepareOps cfg.hook)
    have hpx := park_execTx_none hp2 .mgr p id (prepareOps cfg.hook)
    generalize execTx (openStream (protect s p id) id) .mgr p id (prepareOps cfg.hook) = pr at hx hpx
    obtain ⟨s3, ok⟩ := pr
    simp only at hx hpx ⊢
    split
    · rename_i hok
      simp only [hok, if_true] at hx
      refine (hx.trans (chg_newReqFinish r s3 p id cfg hpx)).weaken ?_
      split <;> omega
    · rename_i hok
      simp only [hok, Bool.false_eq_true, if_false] at hx
      refine (hx.trans (chg_parkMgr r s3 (.newReq p id cfg) p id (prepareOps cfg.hook) hpx)).weaken ?_
      simp only [parkW, parkErr, contW]
      by_cases hid : (id == r) = true
      · simp only [hid, if_true, Bool.true_and, Bool.false_eq_true, if_false]
        omega
      · have hid' : (id == r) = false := by simpa using hid
        simp only [hid', Bool.false_and, Bool.false_eq_true, if_false]
        omega
  intro h0
  obtain ⟨x, y, z⟩ := hrest (e3 h0)
  exact ⟨by omega, z⟩

-- ------------------------------------------------------------------ StartTask / FinishTask / GetUpdates
theorem workerOf_taskDone (s : State) (p : Peer) (id : Id) (w : Nat) : workerOf (taskDone s p id) w = workerOf s w := by
  unfold workerOf; rw [workers_taskDone]

theorem chg_retireWorker (r : Id) (s : State) (w : Nat) {wk : Worker} (hw : workerOf s w = some wk) :
    Chg r s (setPhase (taskDone s wk.peer wk.id) w .done) 0 0 := by
  have h1 := chg_taskDone r s wk.peer wk.id
  have h2 := chg_setPhase r (taskDone s wk.peer wk.id) w .done (wk := wk) (by rw [workerOf_taskDone]; exact hw)
  refine (h1.trans h2).weaken ?_
  simp [phW]

theorem wsig_of_worker {s : State} {w : Nat} {wk : Worker} (hw : workerOf s w = some wk) :
    wsig s w = some (wk.id, phW wk.phase) := by
  unfold workerOf at hw
  simp [wsig, hw]

theorem chg_startTask (r : Id) (s : State) (w : Nat) (hp : s.park = none)
    (hrun : ∀ wk x, workerOf s w = some wk → lookup s wk.id = some x → x.state ≠ .running) :
    Chg r s (startTask s w) 0 0 := by
  unfold startTask
  split
  · exact Chg.refl r s
  · rename_i wk hw
    split
    · exact chg_retireWorker r s w hw
    · rename_i x hl
      have hxid : x.id = wk.id := (lookup_some hl).2
      split
      · exact chg_retireWorker r s w hw
      · rename_i hcomp
        have hst : stW x.state = 1 := by
          have h1 := hrun wk x hw hl
          cases hs : x.state with
          | queued => rfl
          | paused => rfl
          | running => exact absurd hs h1
          | completing => simp [hs] at hcomp
        simp only
        generalize hs1 : (if x.aux.started = true then s else emit s (.proc x.id)) = s1
        have hc1 : Chg r s s1 0 0 := by
          rw [← hs1]; split
          · exact Chg.refl r s
          · exact chg_emit_other r s _ rfl rfl
        have hp1 : s1.park = none := by rw [← hs1]; split <;> exact hp
        have ht1 : s1.table = s.table := by rw [← hs1]; split <;> rfl
        have hw1 : wsig s1 w = some (wk.id, phW wk.phase) := by
          rw [← hs1]; split
          · exact wsig_of_worker hw
          · exact wsig_of_worker hw
        have h2 := chg_modAux r s1 x.id fun a => { a with started := true, task := some w }
        have h3 := chg_setState r (modAux s1 x.id fun a => { a with started := true, task := some w }) x.id .running hp1
        have h4 := chg_setWorker_sig r
          (setState (modAux s1 x.id fun a => { a with started := true, task := some w }) x.id .running) w
          (fun y => { y with phase := .started, parkF := x.cfg.parkFinish, inc := x.inc }) (fun _ => rfl)
          (i := wk.id) (n := phW wk.phase) (m := 1) hw1 (fun _ => rfl)
        refine (((hc1.trans h2).trans h3).trans h4).weaken ?_
        rw [stOf_modAux, stOf_of_table ht1, hxid]
        simp only [stW, wt]
        by_cases hid : wk.id = r
        · subst hid
          rw [stOf_lookup hl, hst]
          simp
        · have : (wk.id == r) = false := by simpa using hid
          simp [this]

theorem chg_finishTask (r : Id) (s : State) (w : Nat) (err : Option WErr) (hp : s.park = none) :
    Chg r s (finishTask s w err) (msgW r s.workers (.finishTask w err)) 0 := by
  unfold finishTask
  split
  · exact (Chg.refl r s).weaken (by omega)
  · rename_i wk hw
    have hm : msgW r s.workers (.finishTask w err) = wt r wk.id (budErr err) := msgW_fin_sig r s w err (wsig_of_worker hw)
    rw [hm]
    have h1 := chg_retireWorker r s w hw
    have hp1 : (setPhase (taskDone s wk.peer wk.id) w .done).park = none := by
      show (taskDone s wk.peer wk.id).park = none
      rw [park_taskDone]; exact hp
    simp only
    generalize setPhase (taskDone s wk.peer wk.id) w .done = s1 at h1 hp1
    split
    · exact h1.weaken (by omega)
    · rename_i x hl
      have hxid : x.id = wk.id := (lookup_some hl).2
      split
      · split
        · exact (h1.trans (chg_pushTask r s1 _ _ _)).weaken (by omega)
        · exact h1.weaken (by omega)
      · split
        · exact (h1.trans (chg_terminate r s1 x.id (pe_none hp1))).weaken (by omega)
        · split
          · rename_i he
            have he' : err = some .paused := by simpa using he
            subst he'
            refine (h1.trans (chg_setState r s1 x.id .paused hp1)).weaken ?_
            rw [hxid]
            simp only [budErr, stW, wt]
            split <;> omega
          · split
            · rename_i he
              have he' : err = some .ctxCancel := by simpa using he
              subst he'
              have h2 := chg_emit r s1 (.canc x.id) rfl
              have h3 := chg_terminate r (emit s1 (.canc x.id)) x.id (pe_none (s := emit s1 (.canc x.id)) hp1)
              refine ((h1.trans h2).trans h3).weaken ?_
              rw [hxid]
              by_cases hid : (wk.id == r) = true
              · simp [hid, wt, budErr, outEv]
              · simp [hid, wt, budErr, outEv]
            · split
              · exact (h1.trans (chg_terminate r s1 x.id (pe_none hp1))).weaken (by omega)
              · refine (h1.trans (chg_setState r s1 x.id .completing hp1)).weaken ?_
                simp only [stW]
                split <;> omega

theorem chg_getUpdates (r : Id) (s : State) (w : Nat) : Chg r s (getUpdates s w) 0 0 := by
  unfold getUpdates
  split
  · exact Chg.refl r s
  · rename_i wk hw
    split
    · rename_i ops present hph
      have hs := wsig_of_worker hw
      rw [hph] at hs
      split
      · exact (chg_setPhase_sig r s w (.gotUpdates [] ops present) hs).weaken (by simp only [phW]; omega)
      · rename_i x hl
        refine ((chg_modAux r s x.id _).trans
          (chg_setPhase_sig r (modAux s x.id _) w (.gotUpdates x.aux.updates ops present) hs)).weaken ?_
        simp only [phW]; omega
    · exact Chg.refl r s

-- ------------------------------------------------------------------ publisher notifications
theorem chg_clearPubWait (r : Id) (s : State) (p : Peer) : Chg r s (clearPubWait s p) 0 0 := by
  unfold clearPubWait
  simp only
  refine (chg_updMQ r s p (fun q => { q with pubWait := false }) (fun _ => rfl) (fun h => h)).weaken ?_
  simp only [mqW]; omega

theorem tokQ_erase_nerr (r : Id) (q : List PStep) (id : Id) : tokQ r (q.erase (.emitNerr id)) = tokQ r q := by
  induction q with
  | nil => rfl
  | cons a q ih =>
    rw [List.erase_cons]
    split
    · rename_i h
      have : a = .emitNerr id := by simpa using h
      subst this
      simp [tokQ, List.countP_cons, doneStep]
    · simp only [tokQ, List.countP_cons] at ih ⊢
      rw [ih]

theorem chg_dropNerr (r : Id) (s : State) (p : Peer) (id : Id) : Chg r s (dropNerr s p id) 0 0 := by
  unfold dropNerr
  simp only
  refine (chg_updMQ r s p (fun q => { q with pubQ := q.pubQ.erase (.emitNerr id) }) (fun _ => rfl) (fun h => h)).weaken ?_
  simp only [mqW, tokQ_erase_nerr]; omega

theorem park_clearPubWait (s : State) (p : Peer) : (clearPubWait s p).park = s.park := rfl

-- ------------------------------------------------------------------ one mailbox message
/-- no StartTask for a response that is already Running (from the lifecycle invariant `LInv`) -/
def NoRunStart (s : State) : Prop :=
  ∀ w wk x, workerOf s w = some wk → (acc s).kindAt w = some .waitStart → lookup s wk.id = some x → x.state ≠ .running

theorem chgR_handle (r : Id) (s : State) (m : Msg) (hp : s.park = none)
    (hrun : ∀ w, m = .startTask w → ∀ wk x, workerOf s w = some wk → lookup s wk.id = some x → x.state ≠ .running) :
    ChgR r s (handle s m) (msgW r s.workers m) 0 := by
  cases m with
  | processRequests p q =>
    show ChgR r s (if foreign s p q.id = true then s else processRequest s p q) 0 0
    split
    · exact (Chg.refl r s).toR
    · cases q with
      | new id cfg => exact chgR_newRequest r s p id cfg hp
      | cancel id => exact (chg_abortRequest r s id .ctxCancel hp).toR
      | update id plan => exact (chg_processUpdate r s id plan hp).toR
  | api c =>
    cases c with
    | pause id =>
      show ChgR r s (emit (pauseRequest s id).1 _) 0 0
      exact ((chg_pauseRequest r s id).trans (chg_emit_other r _ _ rfl rfl)).toR
    | unpause id ext =>
      show ChgR r s (if (unpauseRequest s id ext).2.2 = true then (unpauseRequest s id ext).1
        else emit (unpauseRequest s id ext).1 _) 0 0
      split
      · exact (chg_unpauseRequest r s id ext hp).toR
      · exact ((chg_unpauseRequest r s id ext hp).trans (chg_emit_other r _ _ rfl rfl)).toR
    | cancel id =>
      show ChgR r s (emit (abortRequest s id .cancelCmd).1 _) 0 0
      exact ((chg_abortRequest r s id .cancelCmd hp).trans (chg_emit_other r _ _ rfl rfl)).toR
    | update id ext =>
      show ChgR r s (if (updateRequest s id ext).2.2 = true then (updateRequest s id ext).1
        else emit (updateRequest s id ext).1 _) 0 0
      split
      · exact (chg_updateRequest r s id ext hp).toR
      · exact ((chg_updateRequest r s id ext hp).trans (chg_emit_other r _ _ rfl rfl)).toR
  | startTask w =>
    show ChgR r s (startTask s w) 0 0
    exact (chg_startTask r s w hp (hrun w rfl)).toR
  | getUpdates w =>
    show ChgR r s (getUpdates s w) 0 0
    exact (chg_getUpdates r s w).toR
  | finishTask w err =>
    show ChgR r s (finishTask s w err) _ 0
    exact (chg_finishTask r s w err hp).toR
  | closeNetErr id inc pub =>
    rw [handle_closeNetErr]
    show ChgR r s _ 0 0
    have ha := chg_abortRequest r s id .network hp
    split
    · split
      · exact (ha.trans (chg_clearPubWait r _ pub)).toR
      · exact ((ha.trans (chg_clearPubWait r _ pub)).trans (chg_dropNerr r _ pub id)).toR
    · exact ((chg_clearPubWait r s pub).trans (chg_dropNerr r _ pub id)).toR
  | terminate id inc pub =>
    rw [handle_terminate]
    show ChgR r s _ 0 0
    split
    · exact (((chg_terminate r s id (pe_none hp)).weaken (Nat.zero_le _)).trans (chg_clearPubWait r _ pub)).toR
    · exact (chg_clearPubWait r s pub).toR

-- ------------------------------------------------------------------ the parked manager continues
theorem chg_resumeMgr (r : Id) (s : State) (pk : MgrPark) (hpk : s.park = some pk) :
    Chg r s (resumeMgr s pk) 0 0 := by
  unfold resumeMgr
  simp only
  have h1 := chg_unpark r s pk hpk
  have h2 := chg_buildNow r { s with park := none } .mgr pk.peer pk.id pk.ops
  have hp1 : (buildNow { s with park := none } .mgr pk.peer pk.id pk.ops).park = none :=
    pcore_none_of_pi_eq (pi_buildNow _ _ _ _ _) rfl
  have ht1 : (buildNow { s with park := none } .mgr pk.peer pk.id pk.ops).table = s.table := table_buildNow _ _ _ _ _
  generalize buildNow { s with park := none } .mgr pk.peer pk.id pk.ops = s1 at h2 hp1 ht1
  have h12 := h1.trans h2
  obtain ⟨cont, peer, pid, ops, g⟩ := pk
  cases cont with
  | newReq p id cfg =>
    simp only
    refine (h12.trans (chg_newReqFinish r s1 p id cfg hp1)).weaken ?_
    simp only [parkW, parkErr, contW]
    by_cases hid : (id == r) = true
    · simp only [hid, if_true, Bool.true_and, Bool.false_eq_true, if_false]; omega
    · have hid' : (id == r) = false := by simpa using hid
      simp only [hid', Bool.false_and, Bool.false_eq_true, if_false]; omega
  | procUpdate id plan =>
    simp only
    refine (h12.trans (chg_procUpdateFinish r s1 id plan hp1)).weaken ?_
    rw [stOf_of_table ht1]
    simp only [parkW, parkErr, contW]
    by_cases hc : (id == r && plan == UP.err) = true
    · simp only [hc, if_true]; omega
    · simp only [hc, Bool.false_eq_true, if_false]; omega
  | unpause id ext =>
    simp only
    refine ((h12.trans (chg_unpauseFinish r s1 id)).trans (chg_emit_other r _ _ rfl rfl)).weaken ?_
    simp only [parkW, parkErr, contW, Bool.false_eq_true, if_false]; omega
  | update id ext =>
    simp only
    refine (h12.trans (chg_emit_other r _ _ rfl rfl)).weaken ?_
    simp only [parkW, parkErr, contW, Bool.false_eq_true, if_false]; omega

theorem chg_popMsg (r : Id) (s : State) (m : Msg) (rest : List Msg) (hm : s.mailbox = m :: rest) :
    Chg r s { s with mailbox := rest, handled := s.handled + 1 } 0 (msgW r s.workers m) := by
  intro h0
  refine ⟨?_, rfl, h0⟩
  simp only [Pot, hm, mbSum, List.map_cons, List.sum_cons]
  show _ + entW r s + _ + _ + _ + _ + _ ≤ _
  omega

theorem chgR_mgrStep (r : Id) {s s' : State} (hns : NoRunStart s) (hsi : ∀ w, w ∈ (acc s).starts ↔ (acc s).kindAt w = some .waitStart)
    (h : mgrStep s = some s') : ChgR r s s' 0 0 := by
  unfold mgrStep at h
  split at h
  · rename_i pk hpk
    split at h
    · cases h; exact (chg_resumeMgr r s pk hpk).toR
    · cases h
  · rename_i hpk
    split at h
    · cases h
    · rename_i m rest hm
      cases h
      have h1 := chg_popMsg r s m rest hm
      have h2 := chgR_handle r { s with mailbox := rest, handled := s.handled + 1 } m hpk (by
        intro w hmw wk x hw hl
        subst hmw
        refine hns w wk x hw ?_ hl
        apply (hsi w).1
        show w ∈ starts s.mailbox
        rw [hm]
        simp [starts])
      exact (h1.transR h2).weaken (by show 0 + msgW r s.workers m + 0 ≤ 0 + (msgW r s.workers m + 0); omega)

/-- **every step**: the potential of `r` rises at most by the registrations logged in the step -/
theorem chgR_step (r : Id) {s s' : State} {a : Action} (hns : NoRunStart s)
    (hsi : ∀ w, w ∈ (acc s).starts ↔ (acc s).kindAt w = some .waitStart) (h : step s a = some s') :
    ChgR r s s' 0 0 := by
  cases a with
  | recv p q =>
    simp only [step, Option.some.injEq] at h
    subst h
    exact (chg_recv r s p q _).toR
  | api c =>
    simp only [step, Option.some.injEq] at h
    subst h
    exact (chg_api r s c).toR
  | mgr => exact chgR_mgrStep r hns hsi h
  | pop p id => exact (chg_popTask r h).toR
  | reap p => exact (chg_reap r h).toR
  | wstep w pick => exact (chg_wstep r h).toR
  | extract p => exact (chg_extract r h).toR
  | net p ok => exact (chg_netResolve r h).toR
  | pub p => exact (chg_pubStep r h).toR
  | primer p =>
    simp only [step, Option.some.injEq] at h
    subst h
    exact (chg_primer r s p).toR
  | thaw =>
    simp only [step, Option.some.injEq] at h
    subst h
    exact (chg_thawAll r s).toR

end GS.RespLife
