import GS.Model.Requestor
import GSProofs.Lemmas.LoaderFrame
import GSProofs.Lemmas.RequestorSteps
/-!
The local phase of a request (before the first miss) and the request message:
lemmas for C24 (`silent`, `skip`) and for the local part of C02.
-/
namespace GS.Requestor
open GS.Loader

/-- the do-not-send-first-blocks values of the new-request messages sent, in order -/
def sentNews : List Ev → List Nat
  | [] => []
  | .sentNew k :: rest => k :: sentNews rest
  | _ :: rest => sentNews rest

/-- number of cancel messages sent -/
def sentCancels : List Ev → Nat
  | [] => 0
  | .sentCancel :: rest => sentCancels rest + 1
  | _ :: rest => sentCancels rest

theorem sentNews_append (a b : List Ev) : sentNews (a ++ b) = sentNews a ++ sentNews b := by
  induction a with
  | nil => rfl
  | cons e rest ih => cases e <;> simp [sentNews, ih]

theorem sentCancels_append (a b : List Ev) : sentCancels (a ++ b) = sentCancels a + sentCancels b := by
  induction a with
  | nil => simp [sentCancels]
  | cons e rest ih => cases e <;> simp [sentCancels, ih] <;> omega

/-- the block held locally -/
def has (st : List (Cid × Blk)) (n : LNode) : Bool := (storeGet st n.cid).isSome

/-! ### once the request has been sent no second one is sent -/

theorem finish_sent (s : State) : sentNews (finish s).2 = [] ∧ (finish s).1.requestSent = s.requestSent := by
  unfold finish
  dsimp only
  refine ⟨?_, rfl⟩
  split <;> rfl

theorem failWith_sent (s : State) (e : RErr) :
    sentNews (failWith s e).2 = [] ∧ (failWith s e).1.requestSent = s.requestSent := by
  unfold failWith
  dsimp only
  have := finish_sent { s with L := Loader.setOnline s.L false }
  exact ⟨by simp [sentNews, this.1], this.2⟩

theorem writeEvs_sent (r : Result) : sentNews (writeEvs r) = [] := by
  unfold writeEvs; split <;> rfl

theorem handle_sent (s : State) (n : LNode) (rest : LT) (r : Result) :
    sentNews (handle s n rest r).2.1 = [] ∧ (handle s n rest r).1.requestSent = s.requestSent := by
  unfold handle
  split
  · exact ⟨by simp [sentNews_append, writeEvs_sent, sentNews], rfl⟩
  · split
    · have := finish_sent s
      exact ⟨by simp [sentNews_append, writeEvs_sent, this.1], this.2⟩
    · split
      · split
        · have := failWith_sent s .other
          exact ⟨by simp [sentNews_append, writeEvs_sent, sentNews, this.1], this.2⟩
        · exact ⟨by simp [sentNews_append, writeEvs_sent, sentNews], rfl⟩
      · rename_i e _ _ _ _
        have := failWith_sent s (.load e)
        exact ⟨by simp [sentNews_append, writeEvs_sent, sentNews, this.1], this.2⟩

theorem loadNode_sent (s : State) (n : LNode) (h : s.requestSent = true) :
    (loadNode s n).2.1 = [] ∧ (loadNode s n).1.requestSent = true := by
  unfold loadNode
  generalize Loader.load s.L n.path n.cid = ld
  obtain ⟨l1, out⟩ := ld
  cases out with
  | blocked => exact ⟨rfl, h⟩
  | done r =>
    dsimp only
    rw [if_neg (by simp [h])]
    exact ⟨rfl, h⟩

theorem drive_sent (fuel : Nat) (s : State) (h : s.requestSent = true) :
    sentNews (drive fuel s).2 = [] ∧ (drive fuel s).1.requestSent = true := by
  induction fuel generalizing s with
  | zero => exact ⟨rfl, h⟩
  | succ k ih =>
    unfold drive
    split
    · exact ⟨rfl, h⟩
    · split
      · have := finish_sent s; exact ⟨this.1, by rw [this.2]; exact h⟩
      · rename_i n rest _
        have hn := loadNode_sent s n h
        generalize loadNode s n = ln at hn
        obtain ⟨s1, ev1, res⟩ := ln
        simp only at hn
        obtain ⟨rfl, h1⟩ := hn
        cases res with
        | none => exact ⟨rfl, h1⟩
        | some r =>
          dsimp only
          have hh := handle_sent s1 n rest r
          generalize handle s1 n rest r = hd at hh
          obtain ⟨s2, evs, go⟩ := hd
          simp only at hh
          cases go with
          | true =>
            dsimp only
            have := ih s2 (by rw [hh.2]; exact h1)
            exact ⟨by simp [sentNews_append, hh.1, this.1], this.2⟩
          | false =>
            dsimp only
            exact ⟨by simp [hh.1], by rw [hh.2]; exact h1⟩

theorem resume_sent (s : State) (h : s.requestSent = true) :
    sentNews (resume s).2 = [] ∧ (resume s).1.requestSent = true := by
  unfold resume
  generalize Loader.wake s.L = wk
  obtain ⟨l1, res⟩ := wk
  cases res with
  | none => exact ⟨rfl, h⟩
  | some r =>
    dsimp only
    split
    · rename_i n rest _
      have hh := handle_sent { s with L := l1 } n rest r
      generalize handle { s with L := l1 } n rest r = hd at hh
      obtain ⟨s2, evs, go⟩ := hd
      simp only at hh
      cases go with
      | true =>
        dsimp only
        have := drive_sent (fuelFor s2) s2 (by rw [hh.2]; exact h)
        exact ⟨by simp [sentNews_append, hh.1, this.1], this.2⟩
      | false =>
        dsimp only
        exact ⟨hh.1, by rw [hh.2]; exact h⟩
    · exact ⟨rfl, h⟩

theorem applyStatus_sent (s : State) (status : Nat) :
    (applyStatus s status).requestSent = s.requestSent := by
  unfold applyStatus; split <;> (try split) <;> rfl

theorem message_sent (s : State) (f k : Bool) (status : Nat) (md : List (Cid × Action))
    (bl : List (Cid × Blk)) (h : s.requestSent = true) :
    sentNews (message s f k status md bl).2 = [] ∧ (message s f k status md bl).1.requestSent = true := by
  unfold message
  split
  · exact ⟨rfl, h⟩
  · exact resume_sent _ (by rw [applyStatus_sent]; exact h)

theorem feed_sent (msgs : List Msg) (s : State) (h : s.requestSent = true) :
    sentNews (feed s msgs).2 = [] ∧ (feed s msgs).1.requestSent = true := by
  induction msgs generalizing s with
  | nil => exact ⟨rfl, h⟩
  | cons m rest ih =>
    unfold feed
    have hm := message_sent s m.fromPeer0 m.known m.status m.md m.blocks h
    generalize message s m.fromPeer0 m.known m.status m.md m.blocks = mm at hm
    obtain ⟨s1, e1⟩ := mm
    have := ih s1 hm.2
    dsimp only
    generalize feed s1 rest = ff at this
    obtain ⟨s2, e2⟩ := ff
    exact ⟨by simp [sentNews_append, hm.1, this.1], this.2⟩

/-! ### a finished request ignores everything -/

theorem feed_finished (msgs : List Msg) (s : State) (h : s.phase = .finished) :
    feed s msgs = (s, []) := by
  induction msgs generalizing s with
  | nil => rfl
  | cons m rest ih =>
    unfold feed
    have : message s m.fromPeer0 m.known m.status m.md m.blocks = (s, []) := by
      unfold message; simp [h]
    rw [this]
    dsimp only
    rw [ih s h]
    rfl


/-! ### the local phase -/

theorem drive_succ (k : Nat) (s : State) :
    drive (k + 1) s =
      if s.phase != .running then (s, []) else
      match s.todo with
      | [] => finish s
      | n :: rest =>
        match loadNode s n with
        | (s1, ev1, none) => (s1, ev1)
        | (s1, ev1, some r) =>
          match handle s1 n rest r with
          | (s2, evs, true) =>
            match drive k s2 with
            | (s3, evs') => (s3, ev1 ++ evs ++ evs')
          | (s2, evs, false) => (s2, ev1 ++ evs) := by
  rw [drive]
  rfl

theorem loadLocal_has (l : Loader.State) (n : LNode) (h : has l.store n = true) :
    ∃ b, loadLocal l n.path n.cid = { data := some b, err := none, loc := true } := by
  unfold has at h
  unfold loadLocal
  cases hg : storeGet l.store n.cid with
  | none => rw [hg] at h; cases h
  | some b => exact ⟨b, rfl⟩

theorem loadLocal_hasnt (l : Loader.State) (n : LNode) (h : has l.store n = false) :
    loadLocal l n.path n.cid = { data := none, err := some (.missing n.cid n.path), loc := true } := by
  unfold has at h
  unfold loadLocal
  cases hg : storeGet l.store n.cid with
  | none => rfl
  | some b => rw [hg] at h; cases h

theorem loadNode_local (s : State) (n : LNode) (h : Offline s.L) (hh : has s.L.store n = true) :
    ∃ l1 b, loadNode s n = ({ s with L := l1 }, [], some { data := some b, err := none, loc := true }) ∧
      Offline l1 ∧ l1.store = s.L.store := by
  obtain ⟨s1, hs1, hres, hoff, hst⟩ := load_offline s.L n.path n.cid h
  obtain ⟨b, hb⟩ := loadLocal_has s1 n (by rw [hs1]; exact hh)
  rw [hb] at hres
  refine ⟨(Loader.load s.L n.path n.cid).1, b, ?_, hoff, hst⟩
  unfold loadNode
  generalize Loader.load s.L n.path n.cid = ld at hres
  obtain ⟨l1, out⟩ := ld
  simp only at hres
  subst hres
  simp [isMiss]

theorem loadNode_firstMiss (s : State) (n : LNode) (h : Offline s.L) (hh : has s.L.store n = false)
    (hs : s.requestSent = false) :
    (loadNode s n).2.1 = [Ev.sentNew (max s.userSkip s.nBlocks)] ∧
    (loadNode s n).1.requestSent = true := by
  obtain ⟨s1, hs1, hres, _, _⟩ := load_offline s.L n.path n.cid h
  rw [loadLocal_hasnt s1 n (by rw [hs1]; exact hh)] at hres
  unfold loadNode
  generalize Loader.load s.L n.path n.cid = ld at hres
  obtain ⟨l1, out⟩ := ld
  simp only at hres
  subst hres
  dsimp only
  rw [if_pos (by simp [isMiss, hs])]
  generalize Loader.retry (Loader.setOnline l1 true) = rt
  obtain ⟨l3, out2⟩ := rt
  cases out2 <;> exact ⟨rfl, rfl⟩

/-- events of loading the nodes `pre` locally, starting after `k` blocks -/
def localEvs : List LNode → Nat → List Ev
  | [], _ => []
  | n :: rest, k => Ev.block n.cid n.path true (k + 1) :: Ev.prog n.vData :: localEvs rest (k + 1)

theorem sentNews_localEvs (pre : List LNode) (k : Nat) : sentNews (localEvs pre k) = [] := by
  induction pre generalizing k with
  | nil => rfl
  | cons n rest ih => simp [localEvs, sentNews, ih]

theorem sentCancels_localEvs (pre : List LNode) (k : Nat) : sentCancels (localEvs pre k) = 0 := by
  induction pre generalizing k with
  | nil => rfl
  | cons n rest ih => simp [localEvs, sentCancels, ih]

structure LocalSt (s : State) : Prop where
  off     : Offline s.L
  running : s.phase = .running
  notSent : s.requestSent = false
  noTerm  : s.terminalErr = none

/-- running through a locally held prefix `pre` of the cursor: only local deliveries happen, and the
    traversal arrives, still offline, at the rest of the cursor with `pre.length` more blocks -/
theorem drive_local (pre : List LNode) (post : LT) (f : Nat) (s : State) (h : LocalSt s)
    (htodo : s.todo = pre ++ post) (hhas : ∀ n ∈ pre, has s.L.store n = true) :
    ∃ s' : State, LocalSt s' ∧ s'.todo = post ∧ s'.nBlocks = s.nBlocks + pre.length ∧
      s'.userSkip = s.userSkip ∧ s'.L.store = s.L.store ∧
      drive (pre.length + f) s =
        ((drive f s').1, localEvs pre s.nBlocks ++ (drive f s').2) := by
  induction pre generalizing s with
  | nil =>
    refine ⟨s, h, by simpa using htodo, by simp, rfl, rfl, ?_⟩
    simp [localEvs]
  | cons n pre' ih =>
    obtain ⟨l1, b, hln, hoff1, hst1⟩ := loadNode_local s n h.off (hhas n (List.mem_cons_self ..))
    let s2 : State := { s with L := l1, todo := pre' ++ post, nBlocks := s.nBlocks + 1 }
    have h2 : LocalSt s2 := ⟨hoff1, h.running, h.notSent, h.noTerm⟩
    obtain ⟨s', hl', htd', hnb', hus', hst', hdr'⟩ := ih s2 h2 rfl
      (fun m hm => by
        have := hhas m (List.mem_cons_of_mem _ hm)
        simpa [s2, hst1] using this)
    refine ⟨s', hl', htd', ?_, hus', ?_, ?_⟩
    · rw [hnb']; simp [s2]; omega
    · rw [hst']; exact hst1
    · have hlen : (n :: pre').length + f = (pre'.length + f) + 1 := by simp; omega
      rw [hlen]
      rw [drive_succ]
      rw [if_neg (by simp [h.running])]
      rw [htodo]
      simp only [List.cons_append]
      rw [hln]
      simp only [handle, writeEvs, List.nil_append]
      rw [hdr']
      simp [localEvs, s2]

/-- the cursor reaches a link that is not held locally: exactly one request message goes out, with
    do-not-send-first-blocks = max(user value, blocks loaded so far) -/
theorem drive_firstMiss (pre : List LNode) (n : LNode) (post : LT) (f : Nat) (s : State)
    (h : LocalSt s) (htodo : s.todo = pre ++ n :: post) (hhas : ∀ m ∈ pre, has s.L.store m = true)
    (hn : has s.L.store n = false) :
    sentNews (drive (pre.length + (f + 1)) s).2 = [max s.userSkip (s.nBlocks + pre.length)] ∧
    (drive (pre.length + (f + 1)) s).1.requestSent = true := by
  obtain ⟨s', hl', htd', hnb', hus', hst', hdr⟩ := drive_local pre (n :: post) (f + 1) s h htodo hhas
  rw [hdr]
  simp only [sentNews_append, sentNews_localEvs, List.nil_append]
  have hfm := loadNode_firstMiss s' n hl'.off (by rw [hst']; exact hn) hl'.notSent
  rw [drive_succ]
  rw [if_neg (by simp [hl'.running]), htd']
  dsimp only
  generalize loadNode s' n = ln at hfm
  obtain ⟨s1, ev1, res⟩ := ln
  simp only at hfm
  obtain ⟨rfl, hs1⟩ := hfm
  rw [hus', hnb']
  cases res with
  | none => exact ⟨by simp [sentNews], hs1⟩
  | some r =>
    dsimp only
    have hh := handle_sent s1 n post r
    generalize handle s1 n post r = hd at hh
    obtain ⟨s2, evs, go⟩ := hd
    simp only at hh
    cases go with
    | true =>
      dsimp only
      have := drive_sent f s2 (by rw [hh.2]; exact hs1)
      exact ⟨by simp [sentNews, sentNews_append, hh.1, this.1], this.2⟩
    | false =>
      dsimp only
      exact ⟨by simp [sentNews, sentNews_append, hh.1], by rw [hh.2]; exact hs1⟩

end GS.Requestor
