import GSProofs.Lemmas.RespLifeOutcomeTx
/-!
Outcome accounting: a worker segment (`wstep`) never raises the potential.  A worker that has not yet
sent its final status carries one unit; the final status, a pausing / cancelling FinishTask or the next
phase of the traversal takes it over.
-/
namespace GS.RespLife

/-- what the accounting sees of worker `w`: its request id and the weight of its phase -/
def wsig (s : State) (w : Nat) : Option (Id × Nat) := (s.workers[w]?).map fun x => (x.id, phW x.phase)

def wt (r i : Id) (n : Nat) : Nat := if i == r then n else 0

theorem wsig_setWorker_same (s : State) (w' : Nat) (f : Worker → Worker) (hf : ∀ x, (f x).id = x.id)
    (hw : ∀ x, phW (f x).phase = phW x.phase) (w : Nat) : wsig (setWorker s w' f) w = wsig s w := by
  unfold wsig setWorker
  simp only [List.getElem?_mapIdx]
  cases s.workers[w]? with
  | none => rfl
  | some x =>
    simp only [Option.map_some]
    split
    · rw [hf, hw]
    · rfl

theorem wsig_grantTo (s : State) (party : Party) (w : Nat) : wsig (grantTo s party) w = wsig s w := by
  cases party with
  | mgr => rfl
  | worker w' =>
    apply wsig_setWorker_same
    · intro x; split <;> rfl
    · intro x
      split
      · rename_i ops k g h
        rw [h]
        cases k <;> rfl
      · rfl

theorem wsig_grantLoop (fuel : Nat) (s : State) (p : Peer) (w : Nat) : wsig (grantLoop fuel s p) w = wsig s w := by
  induction fuel generalizing s with
  | zero => rfl
  | succ n ih =>
    unfold grantLoop
    split
    · rfl
    · split
      · rw [ih, wsig_grantTo]; rfl
      · rfl

theorem wsig_release (s : State) (p : Peer) (n : Nat) (w : Nat) : wsig (release s p n) w = wsig s w := by
  unfold release
  simp only
  rw [wsig_grantLoop]
  rfl

theorem wsig_tryAlloc (s : State) (party : Party) (p : Peer) (n : Nat) (w : Nat) :
    wsig (tryAlloc s party p n).1 w = wsig s w := by
  unfold tryAlloc
  split <;> rfl

theorem wsig_buildNow (s : State) (party : Party) (p : Peer) (id : Id) (ops : List TxOp) (w : Nat) :
    wsig (buildNow s party p id ops) w = wsig s w := by
  unfold buildNow
  simp only
  split
  · split
    · exact wsig_release s p _ w
    · rfl
  · rfl

theorem wsig_execTx (s : State) (party : Party) (p : Peer) (id : Id) (ops : List TxOp) (w : Nat) :
    wsig (execTx s party p id ops).1 w = wsig s w := by
  unfold execTx
  split
  · rfl
  · simp only
    split
    · exact wsig_buildNow s party p id ops w
    · have h1 := wsig_tryAlloc s party p (txSize s.extLen ops) w
      generalize tryAlloc s party p (txSize s.extLen ops) = pr at h1
      obtain ⟨s1, ok⟩ := pr
      simp only
      split
      · rw [wsig_buildNow]; exact h1
      · exact h1

theorem chg_setWorker_sig (r : Id) (s : State) (w : Nat) (f : Worker → Worker) (hf : ∀ x, (f x).id = x.id)
    {i : Id} {n m : Nat} (hs : wsig s w = some (i, n)) (hph : ∀ x, phW (f x).phase = m) :
    Chg r s (setWorker s w f) (wt r i m) (wt r i n) := by
  have := chg_setWorker r s w f hf
  unfold wsig at hs
  cases hx : s.workers[w]? with
  | none => rw [hx] at hs; cases hs
  | some x =>
    rw [hx] at hs this
    simp only [Option.map_some, Option.some.injEq, Prod.mk.injEq] at hs
    simp only [Option.map_some, Option.getD_some, wkW, hf, hph, hs.1, hs.2] at this
    exact this

theorem chg_setPhase_sig (r : Id) (s : State) (w : Nat) (ph : WPhase) {i : Id} {n : Nat}
    (hs : wsig s w = some (i, n)) : Chg r s (setPhase s w ph) (wt r i (phW ph)) (wt r i n) :=
  chg_setWorker_sig r s w (fun x => { x with phase := ph }) (fun _ => rfl) hs (fun _ => rfl)

theorem msgW_fin_sig (r : Id) (s : State) (w : Nat) (err : Option WErr) {i : Id} {n : Nat}
    (hs : wsig s w = some (i, n)) : msgW r s.workers (.finishTask w err) = wt r i (budErr err) := by
  unfold wsig at hs
  cases hx : s.workers[w]? with
  | none => rw [hx] at hs; cases hs
  | some x =>
    rw [hx] at hs
    simp only [Option.map_some, Option.some.injEq, Prod.mk.injEq] at hs
    simp only [msgW, hx, Option.all_some, hs.1, wt]

theorem wt_cases (r i : Id) : (∀ n, wt r i n = n) ∨ (∀ n, wt r i n = 0) := by
  unfold wt
  by_cases h : (i == r) = true
  · left; intro n; simp [h]
  · right; intro n; simp [h]

/-- close an arithmetic goal about `wt r i _` terms -/
macro "wt_omega" r:term:max i:term:max : tactic =>
  `(tactic| (rcases wt_cases $r $i with hwt | hwt <;> simp only [hwt] <;> omega))

theorem wt_le (r i : Id) {a b : Nat} (h : a ≤ b) : wt r i a ≤ wt r i b := by
  unfold wt; split <;> omega

theorem wt_add (r i : Id) (a b : Nat) : wt r i (a + b) = wt r i a + wt r i b := by
  unfold wt; split <;> omega

-- ------------------------------------------------------------------ the executor
theorem chg_sendFinishNow (r : Id) (s : State) (w : Nat) (err : Option WErr) {i : Id} {n : Nat}
    (hs : wsig s w = some (i, n)) : Chg r s (sendFinishNow s w err) (wt r i (budErr err)) (wt r i n) := by
  unfold sendFinishNow
  have h1 := chg_sendMsg r s (.finishTask w err)
  rw [msgW_fin_sig r s w err hs] at h1
  have h2 := chg_setPhase_sig r (sendMsg s (.finishTask w err)) w .waitFinish (i := i) (n := n) hs
  refine (h1.trans h2).weaken ?_
  simp only [phW]
  wt_omega r i

theorem chg_sendFinish (r : Id) (s : State) (w : Nat) (err : Option WErr) {i : Id} {n : Nat}
    (hs : wsig s w = some (i, n)) : Chg r s (sendFinish s w err) (wt r i (budErr err)) (wt r i n) := by
  unfold sendFinish
  split
  · exact chg_setWorker_sig r s w (fun x => { x with phase := .preFinish err, parkF := false }) (fun _ => rfl) hs
      (m := budErr err) (fun _ => rfl)
  · exact chg_sendFinishNow r s w err hs

theorem budErr_le (e : Option WErr) : budErr e ≤ 1 := by
  unfold budErr; split <;> omega

theorem termCount_single (c : Nat) : termCount [TxOp.status c] ≤ 1 := by
  simp only [termCount, List.countP_cons, List.countP_nil]; split <;> omega

theorem chg_executeQuery (r : Id) (s : State) (w : Nat) (wk : Worker) (err : Option WErr) {n : Nat}
    (hs : wsig s w = some (wk.id, n)) : Chg r s (executeQuery s w wk err) (wt r wk.id 1) (wt r wk.id n) := by
  have hfin : ∀ e, Chg r s (sendFinish s w e) (wt r wk.id 1) (wt r wk.id n) := fun e =>
    (chg_sendFinish r s w e hs).weaken (by have := budErr_le e; wt_omega r wk.id)
  unfold executeQuery
  split
  · exact hfin _
  · exact hfin _
  · exact hfin _
  · rename_i h1 h2 h3
    simp only
    have hx := chg_execTx' r s (.worker w) wk.peer wk.id [TxOp.status (finalStatus (lookup s wk.id) err)]
    have hsx := wsig_execTx s (.worker w) wk.peer wk.id [TxOp.status (finalStatus (lookup s wk.id) err)] w
    generalize execTx s (.worker w) wk.peer wk.id [TxOp.status (finalStatus (lookup s wk.id) err)] = pr at hx hsx
    obtain ⟨s1, ok⟩ := pr
    simp only at hx hsx ⊢
    rw [hs] at hsx
    have hb : budErr err = 0 := by
      unfold budErr
      split
      · exact absurd rfl h1
      · exact absurd rfl h3
      · rfl
    have htc := termCount_single (finalStatus (lookup s wk.id) err)
    split
    · rename_i hok
      simp only [hok, if_true] at hx
      have hx' : Chg r s s1 (wt r wk.id (termCount [TxOp.status (finalStatus (lookup s wk.id) err)])) 0 := hx
      refine (hx'.trans (chg_sendFinish r s1 w err hsx)).weaken ?_
      rw [hb]
      wt_omega r wk.id
    · rename_i hok
      simp only [hok, Bool.false_eq_true, if_false] at hx
      refine (hx.trans (chg_setPhase_sig r s1 w _ hsx)).weaken ?_
      simp only [phW, hb]
      wt_omega r wk.id

theorem chg_loopTop (r : Id) (s : State) (w : Nat) (wk : Worker) {n : Nat}
    (hs : wsig s w = some (wk.id, n)) : Chg r s (loopTop s w wk) (wt r wk.id 1) (wt r wk.id n) := by
  unfold loopTop
  split
  · exact chg_sendFinish r s w _ hs
  · split
    · exact chg_executeQuery r s w wk _ hs
    · exact chg_setPhase_sig r s w .atLoader hs

theorem chg_afterBlock (r : Id) (s : State) (w : Nat) (wk : Worker) (err : Option WErr) {n : Nat}
    (hs : wsig s w = some (wk.id, n)) : Chg r s (afterBlock s w wk err) (wt r wk.id 1) (wt r wk.id n) := by
  unfold afterBlock
  split
  · exact chg_executeQuery r s w wk _ hs
  · exact chg_loopTop r s w wk hs

/-- what a transaction's continuation may still produce -/
def kW : AfterTx → Nat
  | .afterBlock _ _ => 1
  | .afterFinal e => budErr e

theorem chg_runTx (r : Id) (s : State) (w : Nat) (wk : Worker) (ops : List TxOp) (k : AfterTx) {n : Nat}
    (hs : wsig s w = some (wk.id, n)) :
    Chg r s (runTx s w wk ops k) (wt r wk.id (termCount ops + kW k)) (wt r wk.id n) := by
  unfold runTx
  have hx := chg_execTx' r s (.worker w) wk.peer wk.id ops
  have hsx := wsig_execTx s (.worker w) wk.peer wk.id ops w
  generalize execTx s (.worker w) wk.peer wk.id ops = pr at hx hsx
  obtain ⟨s1, ok⟩ := pr
  simp only at hx hsx ⊢
  rw [hs] at hsx
  split
  · rename_i hok
    simp only [hok, if_true] at hx
    have hx' : Chg r s s1 (wt r wk.id (termCount ops)) 0 := hx
    cases k with
    | afterBlock err pr =>
      simp only
      refine (hx'.trans (chg_afterBlock r s1 w wk err hsx)).weaken ?_
      simp only [kW]; wt_omega r wk.id
    | afterFinal err =>
      simp only
      refine (hx'.trans (chg_sendFinish r s1 w err hsx)).weaken ?_
      simp only [kW]; wt_omega r wk.id
  · rename_i hok
    simp only [hok, Bool.false_eq_true, if_false] at hx
    refine (hx.trans (chg_setPhase_sig r s1 w _ hsx)).weaken ?_
    cases k <;> simp only [phW, kW] <;> wt_omega r wk.id

theorem termCount_append (a b : List TxOp) : termCount (a ++ b) = termCount a + termCount b := by
  simp [termCount, List.countP_append]

theorem termCount_block (size : Nat) (present : Bool) : termCount [TxOp.block size present] = 0 := rfl
theorem termCount_ext : termCount [TxOp.ext] = 0 := rfl
theorem termCount_paused : termCount [TxOp.status stPaused] = 0 := by
  simp [termCount, List.countP_cons, termOp, not_term_paused]

theorem wsig_modAux (s : State) (id : Id) (f : Aux → Aux) (w : Nat) : wsig (modAux s id f) w = wsig s w := rfl

theorem chg_blockPart (r : Id) (s : State) (w : Nat) (wk : Worker) (ops : List TxOp) (cfu : Option WErr)
    (present : Bool) {n : Nat} (hs : wsig s w = some (wk.id, n)) :
    Chg r s (blockPart s w wk ops cfu present) (wt r wk.id (1 + termCount ops)) (wt r wk.id n) := by
  unfold blockPart
  split
  · exact (chg_sendFinish r s w _ hs).weaken (by simp only [budErr]; wt_omega r wk.id)
  · rename_i x hl
    simp only
    have hrun : ∀ (f : Aux → Aux) (ops' : List TxOp) (e : Option WErr) (pr : Bool), termCount ops' = termCount ops →
        Chg r s (runTx (modAux s x.id f) w wk ops' (.afterBlock e pr)) (wt r wk.id (1 + termCount ops))
          (wt r wk.id n) := by
      intro f ops' e pr hc
      refine ((chg_modAux r s x.id f).trans (chg_runTx r (modAux s x.id f) w wk ops' (.afterBlock e pr) hs)).weaken ?_
      rw [hc]; simp only [kW]; wt_omega r wk.id
    split
    · exact hrun _ _ _ _ (by rw [termCount_append, termCount_block]; rfl)
    · split
      · exact hrun _ _ _ _ (by rw [termCount_append, termCount_block]; rfl)
      · exact hrun _ _ _ _ (by rw [termCount_append, termCount_append, termCount_block, termCount_ext]; rfl)
      · exact hrun _ _ _ _ (by rw [termCount_append, termCount_append, termCount_block, termCount_paused]; rfl)
      · exact hrun _ _ _ _ (by rw [termCount_append, termCount_block]; rfl)
      · refine ((chg_modAux r s x.id _).trans (chg_setPhase_sig r (modAux s x.id _) w _ hs)).weaken ?_
        simp only [phW, termCount_append, termCount_block]
        wt_omega r wk.id

theorem chg_checkForUpdates (r : Id) (s : State) (w : Nat) (wk : Worker) (ops : List TxOp) (present : Bool)
    (pick : Nat) {n : Nat} (hs : wsig s w = some (wk.id, n)) :
    Chg r s (checkForUpdates s w wk ops present pick) (wt r wk.id (1 + termCount ops)) (wt r wk.id n) := by
  unfold checkForUpdates
  split
  · exact (chg_sendFinish r s w _ hs).weaken (by simp only [budErr]; wt_omega r wk.id)
  · rename_i x hl
    simp only
    split
    · exact chg_blockPart r s w wk ops none present hs
    · refine ((chg_modAux r s x.id _).trans (chg_blockPart r (modAux s x.id _) w wk _ _ present hs)).weaken ?_
      rw [termCount_append, termCount_paused]
      wt_omega r wk.id
    · refine ((chg_modAux r s x.id _).trans (chg_runTx r (modAux s x.id _) w wk ops _ hs)).weaken ?_
      simp only [kW]; wt_omega r wk.id
    · have h1 := chg_modAux r s x.id fun a => { a with sigUpdate := false }
      have h2 := chg_sendMsg r (modAux s x.id fun a => { a with sigUpdate := false }) (.getUpdates w)
      have h3 := chg_setPhase_sig r (sendMsg (modAux s x.id fun a => { a with sigUpdate := false }) (.getUpdates w)) w
        (.waitUpdates ops present) (i := wk.id) (n := n) hs
      refine ((h1.trans h2).trans h3).weaken ?_
      simp only [phW, msgW]
      wt_omega r wk.id

theorem chg_applyUpdates (r : Id) (s : State) (w : Nat) (wk : Worker) (ups : List UP) (ops : List TxOp)
    (present : Bool) (pick : Nat) {n : Nat} (hs : wsig s w = some (wk.id, n)) :
    Chg r s (applyUpdates s w wk ups ops present pick) (wt r wk.id (1 + termCount ops)) (wt r wk.id n) := by
  induction ups generalizing ops with
  | nil => exact chg_checkForUpdates r s w wk ops present pick hs
  | cons u us ih =>
    unfold applyUpdates
    simp only
    have hc : termCount (if (u == .ext || u == .unpauseExt) = true then ops ++ [TxOp.ext] else ops) = termCount ops := by
      split
      · rw [termCount_append, termCount_ext]; rfl
      · rfl
    split
    · refine (chg_runTx r s w wk _ _ hs).weaken ?_
      rw [hc]; simp only [kW]; wt_omega r wk.id
    · have := ih (if (u == .ext || u == .unpauseExt) = true then ops ++ [TxOp.ext] else ops)
      rw [hc] at this
      exact this

/-- **a worker segment never raises the potential** -/
theorem chg_wstep (r : Id) {s s' : State} {w pick : Nat} (h : wstep s w pick = some s') : Chg r s s' 0 0 := by
  unfold wstep at h
  split at h
  · cases h
  · rename_i wk hw
    have hs : wsig s w = some (wk.id, phW wk.phase) := by
      unfold workerOf at hw
      simp [wsig, hw]
    split at h
    · rename_i hph
      cases h
      rw [hph] at hs
      exact (chg_loopTop r s w wk hs).weaken (by simp only [phW]; wt_omega r wk.id)
    · rename_i hph
      rw [hph] at hs
      split at h
      · cases h
        exact (chg_sendFinish r s w _ hs).weaken (by simp only [phW, budErr]; wt_omega r wk.id)
      · rename_i x hl
        cases h
        refine ((chg_modAux r s x.id _).trans (chg_checkForUpdates r (modAux s x.id _) w wk [] _ pick hs)).weaken ?_
        simp only [phW, termCount, List.countP_nil]; wt_omega r wk.id
    · rename_i ups ops present hph
      cases h
      rw [hph] at hs
      exact (chg_applyUpdates r s w wk ups ops present pick hs).weaken (by simp only [phW]; wt_omega r wk.id)
    · rename_i ops cfu hph
      cases h
      rw [hph] at hs
      exact (chg_runTx r s w wk ops _ hs).weaken (by simp only [phW, kW]; wt_omega r wk.id)
    · rename_i err hph
      cases h
      rw [hph] at hs
      exact (chg_sendFinishNow r s w err hs).weaken (by simp only [phW]; wt_omega r wk.id)
    · rename_i ops k hph
      rw [hph] at hs
      have hb := chg_buildNow r s (.worker w) wk.peer wk.id ops
      have hsb : wsig (buildNow s (.worker w) wk.peer wk.id ops) w = some (wk.id, phW (.blockedTx ops k true)) := by
        rw [wsig_buildNow]; exact hs
      have hb' : Chg r s (buildNow s (.worker w) wk.peer wk.id ops) (wt r wk.id (termCount ops)) 0 := hb
      cases k with
      | afterBlock err pr =>
        simp only at h
        cases h
        refine (hb'.trans (chg_afterBlock r _ w wk err hsb)).weaken ?_
        simp only [phW]; wt_omega r wk.id
      | afterFinal err =>
        simp only at h
        cases h
        refine (hb'.trans (chg_sendFinish r _ w err hsb)).weaken ?_
        simp only [phW]; wt_omega r wk.id
    · cases h

end GS.RespLife
