import GS.Model.Requestor
import GSProofs.Lemmas.RequestorLocal
import GSProofs.Lemmas.LoaderSched
import GSProofs.Lemmas.LoaderComplete
/-!
Bridge between the requestor model's executor loop and the loader-level traversal `Loader.walk`:
the load answers reported in the event stream of `Requestor.drive` are exactly the results of
`walk` over the same loader state and cursor.
-/
namespace GS.Requestor
open GS.Loader

/-- the load answers an event stream reports: (link, path, answered with data?) — a block-hook event
    for a load answered with data, a missing-block error for a skipped link -/
def resultsOf : List Ev → List (Cid × Path × Bool)
  | [] => []
  | .block c p _ _ :: rest => (c, p, true) :: resultsOf rest
  | .err (.load (.missing c p)) :: rest => (c, p, false) :: resultsOf rest
  | _ :: rest => resultsOf rest

def keyOf (x : LNode × Bool) : Cid × Path × Bool := (x.1.cid, x.1.path, x.2)

theorem resultsOf_append (a b : List Ev) : resultsOf (a ++ b) = resultsOf a ++ resultsOf b := by
  induction a with
  | nil => rfl
  | cons e rest ih =>
    cases e with
    | err r =>
      cases r with
      | load le => cases le <;> simp [resultsOf, ih]
      | status c => simp [resultsOf, ih]
      | other => simp [resultsOf, ih]
    | _ => simp [resultsOf, ih]

theorem resultsOf_writeEvs (r : Result) : resultsOf (writeEvs r) = [] := by
  unfold writeEvs; split <;> rfl

theorem resultsOf_finish (s : State) : resultsOf (finish s).2 = [] := by
  unfold finish; dsimp only; split <;> rfl

theorem resultsOf_failWith (s : State) (e : RErr) (he : ∀ c p, e ≠ .load (.missing c p)) :
    resultsOf (failWith s e).2 = [] := by
  unfold failWith
  dsimp only
  have := resultsOf_finish { s with L := Loader.setOnline s.L false }
  cases e with
  | load le =>
    cases le with
    | missing c p => exact absurd rfl (he c p)
    | _ => simp [resultsOf, this]
  | status c => simp [resultsOf, this]
  | other => simp [resultsOf, this]

/-- `walk` does not read the retry bookkeeping / parked marker -/
theorem walk_sim : ∀ (k : Nat) (todo : LT), todo.length ≤ k → ∀ (s t : Loader.State), Sim s t →
    (walk t todo).1 = (walk s todo).1 ∧ (walk t todo).2.store = (walk s todo).2.store := by
  intro k
  induction k with
  | zero =>
    intro todo hl s t h
    cases todo with
    | nil =>
      rw [walk, walk]
      obtain ⟨l, b, pd, rfl⟩ := h
      exact ⟨rfl, rfl⟩
    | cons n rest => simp at hl
  | succ k ih =>
    intro todo hl s t h
    cases todo with
    | nil =>
      rw [walk, walk]
      obtain ⟨l, b, pd, rfl⟩ := h
      exact ⟨rfl, rfl⟩
    | cons n rest =>
      simp only [List.length_cons] at hl
      have hls := load_sim s t n.path n.cid h
      rw [walk, walk]
      generalize Loader.load s n.path n.cid = ls at hls
      generalize Loader.load t n.path n.cid = lt' at hls
      obtain ⟨s1, o1⟩ := ls
      obtain ⟨t1, o2⟩ := lt'
      simp only at hls
      obtain ⟨hs1, ho⟩ := hls
      subst ho
      cases o2 with
      | blocked =>
        obtain ⟨l, b, pd, rfl⟩ := hs1
        exact ⟨rfl, rfl⟩
      | done r =>
        dsimp only
        cases hre : r.err with
        | none =>
          have := ih rest (by omega) s1 t1 hs1
          simp only [this.1, this.2]; exact ⟨trivial, trivial⟩
        | some e =>
          cases e with
          | missing c p =>
            have := ih (skipSub n rest) (by have := skipSub_length n rest; omega) s1 t1 hs1
            simp only [this.1, this.2]; exact ⟨trivial, trivial⟩
          | _ =>
            obtain ⟨l, b, pd, rfl⟩ := hs1
            exact ⟨rfl, rfl⟩


theorem loadNode_sent_eq (s : State) (n : LNode) (h : s.requestSent = true) :
    loadNode s n = match Loader.load s.L n.path n.cid with
      | (l1, .blocked) => ({ s with L := l1 }, [], none)
      | (l1, .done r) => ({ s with L := l1 }, [], some r) := by
  unfold loadNode
  generalize Loader.load s.L n.path n.cid = ld
  obtain ⟨l1, out⟩ := ld
  cases out with
  | blocked => rfl
  | done r => dsimp only; rw [if_neg (by simp [h])]

/-- the answers of one `handle` step, for a node that is not the root and a request that is not
    cancelled: data -> the node is delivered and the cursor moves on; missing -> reported, subtree
    skipped; anything else ends the request without further answers -/
theorem handle_results (s : State) (n : LNode) (rest : LT) (r : Result) (hctx : s.ctxCancelled = false)
    (hd : n.depth ≠ 0) (hm : ∀ c p, r.err = some (.missing c p) → c = n.cid ∧ p = n.path) :
    (r.err = none → (handle s n rest r).2.2 = true ∧ resultsOf (handle s n rest r).2.1 = [(n.cid, n.path, true)] ∧
        (handle s n rest r).1 = { s with todo := rest, nBlocks := s.nBlocks + 1 }) ∧
    ((∃ c p, r.err = some (.missing c p)) → (handle s n rest r).2.2 = true ∧
        resultsOf (handle s n rest r).2.1 = [(n.cid, n.path, false)] ∧
        (handle s n rest r).1 = { s with todo := skipSub n rest }) ∧
    ((∃ e, r.err = some e ∧ ∀ c p, e ≠ .missing c p) → (handle s n rest r).2.2 = false ∧
        resultsOf (handle s n rest r).2.1 = [] ∧ (handle s n rest r).1.L.store = s.L.store) := by
  refine ⟨?_, ?_, ?_⟩
  · intro he
    unfold handle
    simp only [he]
    exact ⟨by first | rfl | trivial, by simp [resultsOf_append, resultsOf_writeEvs, resultsOf], by first | rfl | trivial⟩
  · rintro ⟨c, p, he⟩
    obtain ⟨hc, hp⟩ := hm c p he
    subst hc; subst hp
    unfold handle
    simp only [he, hctx, Bool.false_eq_true, if_false]
    have hd' : (n.depth == 0) = false := by simpa using hd
    simp only [hd', Bool.false_eq_true, if_false]
    exact ⟨by first | rfl | trivial, by simp [resultsOf_append, resultsOf_writeEvs, resultsOf], by first | rfl | trivial⟩
  · rintro ⟨e, he, hne⟩
    unfold handle
    simp only [he, hctx, Bool.false_eq_true, if_false]
    have hstore : ∀ e', (failWith s e').1.L.store = s.L.store := by
      intro e'
      rw [(failWith_spec s e').2.2.1]
      exact (setOnline_frame s.L false).2.2
    cases e with
    | missing c p => exact absurd rfl (hne c p)
    | incorrect a b q =>
      exact ⟨by first | rfl | trivial, by simp [resultsOf_append, resultsOf_writeEvs, resultsOf, resultsOf_failWith], hstore _⟩
    | extraData => exact ⟨by first | rfl | trivial, by simp [resultsOf_append, resultsOf_writeEvs, resultsOf, resultsOf_failWith], hstore _⟩
    | nothingLeft => exact ⟨by first | rfl | trivial, by simp [resultsOf_append, resultsOf_writeEvs, resultsOf, resultsOf_failWith], hstore _⟩
    | retryNone => exact ⟨by first | rfl | trivial, by simp [resultsOf_append, resultsOf_writeEvs, resultsOf, resultsOf_failWith], hstore _⟩

/-- **bridge**: once the request has been sent, the answers reported by the executor loop are the
    results of the loader-level traversal `walk` from the same loader state over the same cursor
    (and the store at the end is the store `walk` ends with). -/
theorem drive_walk : ∀ (fuel : Nat) (s : State), s.phase = .running → s.requestSent = true →
    s.ctxCancelled = false → (∀ m ∈ s.todo, m.depth ≠ 0) → s.todo.length + 1 ≤ fuel →
    resultsOf (drive fuel s).2 = (walk s.L s.todo).1.map keyOf ∧
    (drive fuel s).1.L.store = (walk s.L s.todo).2.store := by
  intro fuel
  induction fuel with
  | zero => intro s _ _ _ _ hf; omega
  | succ k ih =>
    intro s hrun hsent hctx hdep hf
    rw [drive_succ, if_neg (by simp [hrun])]
    cases htodo : s.todo with
    | nil =>
      rw [walk]
      have := finish_spec s
      exact ⟨by simp [resultsOf_finish], by rw [this.2.2.1]; rfl⟩
    | cons n rest =>
      rw [htodo] at hdep hf
      simp only [List.length_cons] at hf
      dsimp only
      rw [loadNode_sent_eq s n hsent, walk]
      have hmiss := load_missing s.L n.path n.cid
      generalize Loader.load s.L n.path n.cid = ld at hmiss
      obtain ⟨l1, out⟩ := ld
      cases out with
      | blocked => exact ⟨rfl, rfl⟩
      | done r =>
        dsimp only
        have hnd : n.depth ≠ 0 := hdep n (List.mem_cons_self ..)
        have hh := handle_results { s with L := l1 } n rest r hctx hnd (hmiss r rfl)
        cases hre : r.err with
        | none =>
          obtain ⟨hgo, hres, hst⟩ := hh.1 hre
          generalize handle { s with L := l1 } n rest r = hd at hgo hres hst
          obtain ⟨s2, evs, go⟩ := hd
          simp only at hgo hres hst
          subst hgo; subst hst
          dsimp only
          have := ih { s with L := l1, todo := rest, nBlocks := s.nBlocks + 1 } hrun hsent hctx
            (fun m hm => hdep m (List.mem_cons_of_mem _ hm)) (by simp only; omega)
          simp only at this
          generalize drive k { s with L := l1, todo := rest, nBlocks := s.nBlocks + 1 } = dr at this
          obtain ⟨s3, evs'⟩ := dr
          simp only at this ⊢
          exact ⟨by simp [resultsOf_append, hres, this.1, keyOf], this.2⟩
        | some e =>
          cases e with
          | missing c p =>
            obtain ⟨hgo, hres, hst⟩ := hh.2.1 ⟨c, p, hre⟩
            generalize handle { s with L := l1 } n rest r = hd at hgo hres hst
            obtain ⟨s2, evs, go⟩ := hd
            simp only at hgo hres hst
            subst hgo; subst hst
            dsimp only
            have := ih { s with L := l1, todo := skipSub n rest } hrun hsent hctx
              (fun m hm => hdep m (List.mem_cons_of_mem _ (mem_dropWhile _ _ _ hm)))
              (by simp only; have := skipSub_length n rest; omega)
            simp only at this
            generalize drive k { s with L := l1, todo := skipSub n rest } = dr at this
            obtain ⟨s3, evs'⟩ := dr
            simp only at this ⊢
            exact ⟨by simp [resultsOf_append, hres, this.1, keyOf], this.2⟩
          | incorrect a b q =>
            obtain ⟨hgo, hres, hst⟩ := hh.2.2 ⟨_, hre, by intro c p h; cases h⟩
            generalize handle { s with L := l1 } n rest r = hd at hgo hres hst
            obtain ⟨s2, evs, go⟩ := hd
            simp only at hgo hres hst
            subst hgo
            exact ⟨by simp [hres], hst⟩
          | extraData =>
            obtain ⟨hgo, hres, hst⟩ := hh.2.2 ⟨_, hre, by intro c p h; cases h⟩
            generalize handle { s with L := l1 } n rest r = hd at hgo hres hst
            obtain ⟨s2, evs, go⟩ := hd
            simp only at hgo hres hst
            subst hgo
            exact ⟨by simp [hres], hst⟩
          | nothingLeft =>
            obtain ⟨hgo, hres, hst⟩ := hh.2.2 ⟨_, hre, by intro c p h; cases h⟩
            generalize handle { s with L := l1 } n rest r = hd at hgo hres hst
            obtain ⟨s2, evs, go⟩ := hd
            simp only at hgo hres hst
            subst hgo
            exact ⟨by simp [hres], hst⟩
          | retryNone =>
            obtain ⟨hgo, hres, hst⟩ := hh.2.2 ⟨_, hre, by intro c p h; cases h⟩
            generalize handle { s with L := l1 } n rest r = hd at hgo hres hst
            obtain ⟨s2, evs, go⟩ := hd
            simp only at hgo hres hst
            subst hgo
            exact ⟨by simp [hres], hst⟩


/-! ### the local phase, with the loader state it ends in -/

theorem holds_has (st : List (Cid × Blk)) (n : LNode) : has st n = holds st n.cid := rfl

theorem resultsOf_localEvs (pre : List LNode) (k : Nat) :
    resultsOf (localEvs pre k) = (pre.map (fun m => (m, true))).map keyOf := by
  induction pre generalizing k with
  | nil => rfl
  | cons n rest ih => simp [localEvs, resultsOf, ih, keyOf]

/-- `drive_local` with the loader state made explicit: it is the state `walk` ends in -/
theorem drive_local_walk (pre : List LNode) (post : LT) (f : Nat) (s : State) (h : LocalSt s)
    (htodo : s.todo = pre ++ post) (hhas : ∀ n ∈ pre, has s.L.store n = true) :
    (walk s.L pre).1 = pre.map (fun m => (m, true)) ∧
    LocalSt { s with L := (walk s.L pre).2, todo := post, nBlocks := s.nBlocks + pre.length } ∧
    (walk s.L pre).2.store = s.L.store ∧
    drive (pre.length + f) s =
      ((drive f { s with L := (walk s.L pre).2, todo := post, nBlocks := s.nBlocks + pre.length }).1,
       localEvs pre s.nBlocks ++
         (drive f { s with L := (walk s.L pre).2, todo := post, nBlocks := s.nBlocks + pre.length }).2) := by
  induction pre generalizing s with
  | nil =>
    rw [walk]
    obtain ⟨L, todo, ph, rs, nb, us, cc, te⟩ := s
    simp only at htodo
    subst htodo
    exact ⟨rfl, h, rfl, by simp [localEvs]⟩
  | cons n pre' ih =>
    obtain ⟨l1, b, hln, hoff1, hst1⟩ := loadNode_local s n h.off (hhas n (List.mem_cons_self ..))
    -- `l1` is the state the load leaves behind
    have hl1 : ∃ r, Loader.load s.L n.path n.cid = (l1, .done r) ∧ r.err = none := by
      unfold loadNode at hln
      generalize Loader.load s.L n.path n.cid = ld at hln
      obtain ⟨l, out⟩ := ld
      cases out with
      | blocked => simp at hln
      | done r =>
        dsimp only at hln
        split at hln
        · generalize Loader.retry (Loader.setOnline l true) = rt at hln
          obtain ⟨l3, o3⟩ := rt
          cases o3 <;> simp at hln
        · simp only [Prod.mk.injEq] at hln
          obtain ⟨h1, _, h3⟩ := hln
          simp only [Option.some.injEq] at h3
          have : l = l1 := by
            have := congrArg State.L h1
            simpa using this
          subst this
          exact ⟨r, rfl, by rw [h3]⟩
    obtain ⟨r, hload, herr⟩ := hl1
    have hwalk : walk s.L (n :: pre') = ((n, true) :: (walk l1 pre').1, (walk l1 pre').2) :=
      walk_data s.L l1 n pre' r hload herr
    let s2 : State := { s with L := l1, todo := pre' ++ post, nBlocks := s.nBlocks + 1 }
    have h2 : LocalSt s2 := ⟨hoff1, h.running, h.notSent, h.noTerm⟩
    obtain ⟨hw', hl', hst', hdr'⟩ := ih s2 h2 rfl
      (fun m hm => by
        have := hhas m (List.mem_cons_of_mem _ hm)
        simpa [s2, hst1] using this)
    have hnb : s.nBlocks + 1 + pre'.length = s.nBlocks + (n :: pre').length := by simp; omega
    refine ⟨?_, ?_, ?_, ?_⟩
    · rw [hwalk]; simp [hw', s2]
    · rw [hwalk]; simp only [s2, hnb] at hl'; exact hl'
    · rw [hwalk]; simp only [s2] at hst'; rw [hst']; exact hst1
    · have hlen : (n :: pre').length + f = (pre'.length + f) + 1 := by simp; omega
      rw [hlen, drive_succ, if_neg (by simp [h.running]), htodo]
      simp only [List.cons_append]
      rw [hln]
      simp only [handle, writeEvs, List.nil_append]
      rw [hwalk]
      simp only [s2, hnb] at hdr'
      rw [hdr']
      simp [localEvs]


/-! ### a parked load is woken: the rest of the request is `walk` from the woken load on -/

theorem resume_walk (s : State) (n : LNode) (rest : LT) (hrun : s.phase = .running)
    (hsent : s.requestSent = true) (hctx : s.ctxCancelled = false)
    (htodo : s.todo = n :: rest) (hpend : s.L.pending = some (n.path, n.cid)) (hmra : s.L.mra = none)
    (hdep : ∀ m ∈ n :: rest, m.depth ≠ 0) :
    resultsOf (resume s).2 = (walk { s.L with pending := none } (n :: rest)).1.map keyOf ∧
    (resume s).1.L.store = (walk { s.L with pending := none } (n :: rest)).2.store := by
  obtain ⟨L, todo, ph, rs, nb, us, cc, te⟩ := s
  simp only at hrun hsent hctx htodo hpend hmra
  subst htodo; subst hrun; subst hsent; subst hctx
  have hsim : Sim ({ L with pending := none } : Loader.State) L :=
    ⟨L.rq.last, L.rq.lastLinked, L.pending, rfl⟩
  have hrs := run_sim _ _ n.path n.cid hsim
  have hload : Loader.load ({ L with pending := none } : Loader.State) n.path n.cid =
      Loader.run ({ L with pending := none } : Loader.State) n.path n.cid := by
    rw [load_eq, prologue]; simp only [hmra]
  have hws := wake_some L n.path n.cid hpend
  have hmiss := run_missing L n.path n.cid
  have hrp := run_pending_eq L n.path n.cid
  unfold resume
  rw [walk, hload]
  generalize Loader.run ({ L with pending := none } : Loader.State) n.path n.cid = ra at hrs
  cases hrb : Loader.run L n.path n.cid with
  | mk l1 out =>
    rw [hrb] at hrs hmiss hrp
    obtain ⟨la, oa⟩ := ra
    simp only at hrs hrp
    obtain ⟨hs1, ho⟩ := hrs
    subst ho
    cases out with
    | blocked =>
      rw [hws.2 l1 hrb]
      have hst : l1.store = la.store := by obtain ⟨l, b, pd, rfl⟩ := hs1; rfl
      exact ⟨rfl, hst⟩
    | done r =>
      rw [hws.1 r l1 hrb]
      dsimp only
      have hnd : n.depth ≠ 0 := hdep n (List.mem_cons_self ..)
      have hh := handle_results (⟨l1, n :: rest, .running, true, nb, us, false, te⟩ : State) n rest r rfl hnd (hmiss r rfl)
      have hp1 : l1.pending = none := hrp
      cases hre : r.err with
      | none =>
        obtain ⟨hgo, hres, hst⟩ := hh.1 hre
        generalize handle (⟨l1, n :: rest, .running, true, nb, us, false, te⟩ : State) n rest r = hd at hgo hres hst
        obtain ⟨s2, evs, go⟩ := hd
        simp only at hgo hres hst
        subst hgo; subst hst
        dsimp only
        have hdw := drive_walk (fuelFor (⟨l1, rest, .running, true, nb + 1, us, false, te⟩ : State))
          (⟨l1, rest, .running, true, nb + 1, us, false, te⟩ : State) rfl rfl rfl
          (fun m hm => hdep m (List.mem_cons_of_mem _ hm)) (by simp [fuelFor])
        have hwsim := walk_sim rest.length rest (Nat.le_refl _) la l1 hs1
        simp only at hdw
        generalize drive _ (⟨l1, rest, .running, true, nb + 1, us, false, te⟩ : State) = dr at hdw
        obtain ⟨s3, evs'⟩ := dr
        simp only at hdw ⊢
        exact ⟨by simp [resultsOf_append, hres, hdw.1, hwsim.1, keyOf], by rw [hdw.2, hwsim.2]⟩
      | some e =>
        cases e with
        | missing c p =>
          obtain ⟨hgo, hres, hst⟩ := hh.2.1 ⟨c, p, hre⟩
          generalize handle (⟨l1, n :: rest, .running, true, nb, us, false, te⟩ : State) n rest r = hd at hgo hres hst
          obtain ⟨s2, evs, go⟩ := hd
          simp only at hgo hres hst
          subst hgo; subst hst
          dsimp only
          have hdw := drive_walk (fuelFor (⟨l1, skipSub n rest, .running, true, nb, us, false, te⟩ : State))
            (⟨l1, skipSub n rest, .running, true, nb, us, false, te⟩ : State) rfl rfl rfl
            (fun m hm => hdep m (List.mem_cons_of_mem _ (mem_dropWhile _ _ _ hm))) (by simp [fuelFor])
          have hwsim := walk_sim (skipSub n rest).length (skipSub n rest) (Nat.le_refl _) la l1 hs1
          simp only at hdw
          generalize drive _ (⟨l1, skipSub n rest, .running, true, nb, us, false, te⟩ : State) = dr at hdw
          obtain ⟨s3, evs'⟩ := dr
          simp only at hdw ⊢
          exact ⟨by simp [resultsOf_append, hres, hdw.1, hwsim.1, keyOf], by rw [hdw.2, hwsim.2]⟩
        | incorrect a b q =>
          obtain ⟨hgo, hres, hst⟩ := hh.2.2 ⟨_, hre, by intro c p h; cases h⟩
          generalize handle (⟨l1, n :: rest, .running, true, nb, us, false, te⟩ : State) n rest r = hd at hgo hres hst
          obtain ⟨s2, evs, go⟩ := hd
          simp only at hgo hres hst
          subst hgo
          have hst2 : l1.store = la.store := by obtain ⟨l, b, pd, rfl⟩ := hs1; rfl
          exact ⟨by simp [hres], by rw [hst]; exact hst2⟩
        | extraData =>
          obtain ⟨hgo, hres, hst⟩ := hh.2.2 ⟨_, hre, by intro c p h; cases h⟩
          generalize handle (⟨l1, n :: rest, .running, true, nb, us, false, te⟩ : State) n rest r = hd at hgo hres hst
          obtain ⟨s2, evs, go⟩ := hd
          simp only at hgo hres hst
          subst hgo
          have hst2 : l1.store = la.store := by obtain ⟨l, b, pd, rfl⟩ := hs1; rfl
          exact ⟨by simp [hres], by rw [hst]; exact hst2⟩
        | nothingLeft =>
          obtain ⟨hgo, hres, hst⟩ := hh.2.2 ⟨_, hre, by intro c p h; cases h⟩
          generalize handle (⟨l1, n :: rest, .running, true, nb, us, false, te⟩ : State) n rest r = hd at hgo hres hst
          obtain ⟨s2, evs, go⟩ := hd
          simp only at hgo hres hst
          subst hgo
          have hst2 : l1.store = la.store := by obtain ⟨l, b, pd, rfl⟩ := hs1; rfl
          exact ⟨by simp [hres], by rw [hst]; exact hst2⟩
        | retryNone =>
          obtain ⟨hgo, hres, hst⟩ := hh.2.2 ⟨_, hre, by intro c p h; cases h⟩
          generalize handle (⟨l1, n :: rest, .running, true, nb, us, false, te⟩ : State) n rest r = hd at hgo hres hst
          obtain ⟨s2, evs, go⟩ := hd
          simp only at hgo hres hst
          subst hgo
          have hst2 : l1.store = la.store := by obtain ⟨l, b, pd, rfl⟩ := hs1; rfl
          exact ⟨by simp [hres], by rw [hst]; exact hst2⟩

end GS.Requestor
