import GS.Generated.StatusCodes
/-
Responder request lifecycle (properties C05, C23, C25).  Core Lean only.

Actor model of the responder side of go-graphsync (at /repo HEAD, including the fixes 369d047,
50602fc, cecee8f and the task-ownership fix made while building this cluster):

  responsemanager/server.go     run / processRequests / newRequest / processUpdate / abortRequest /
                                startTask / finishTask / getUpdates / pause / unpause / update /
                                terminateRequest                      -> `handle` (one mailbox message = one atomic step)
  responsemanager/client.go     the mailbox (`rm.messages`) and the synchronous replies
  responsemanager/subscriber.go OnNext on Sent / Error                -> publisher micro-steps (`PStep`)
  queryexecutor/queryexecutor.go ExecuteTask / runTraversal / checkForUpdates / sendResponse / executeQuery
                                                                      -> worker process (`wstep`)
  responseassembler             Transaction / execute / response stream `closed` flag
                                                                      -> `execTx`, `buildInto`
  messagequeue/messagequeue.go  builders, extraction, publishSent / publishError / scrubResponses
                                                                      -> `extract`, `netResolve`
  message/builder.go            AddResponseCode (terminal status kept), Empty, ScrubResponses
  allocator/allocator.go        per-peer reservation, FIFO grants (total limit not modelled)
  go-peertaskqueue              pending / active topics per peer, merge on push, freeze on Remove
  network.ConnManager           Protect / Unprotect log

Processes and their steps (`Action`): the environment (`recv`, `api`, `net`, `primer`, `thaw`),
the manager goroutine (`mgr`: handle the head of the mailbox; disabled while parked in an
allocation), task workers (`pop`, `wstep`), per-peer message-queue goroutines (`extract`),
per-peer publisher goroutines (`pub`).  A transaction executed INSIDE a manager step reserves
memory synchronously: if the reservation is not granted, the manager parks (`mgrPark`) and no
mailbox message is handled until the grant arrives (C25).

Abstractions (each is an assumption of the theorems, validated by the correspondence run):
  * one request per network message; a DAG is a chain of `n` blocks, block `miss` absent;
  * hooks are scripts: request hook plan, per-block hook plan, per-update hook plan;
  * which pending task a worker pops is chosen by the `pop` action's arguments (any pending task of
    an unfrozen peer): every scheduling policy of go-peertaskqueue is covered;
  * when several executor signals are pending the `wstep` action's `pick` argument chooses
    (Go's `select` picks at random);
  * a message never exceeds `maxBlockSize`, hence at most one accumulating builder per peer;
  * the total memory limit is never reached (only the per-peer limit is modelled).
-/
namespace GS.RespLife

abbrev Id := Nat
abbrev Peer := Nat

-- ------------------------------------------------------------------ status codes
-- regenerated from responsecode.go on every check run (translate/statuscodes)
def stPartial : Nat := GS.Generated.StatusCodes.PartialResponse
def stPaused : Nat := GS.Generated.StatusCodes.RequestPaused
def stFull : Nat := GS.Generated.StatusCodes.RequestCompletedFull
def stCompletedPartial : Nat := GS.Generated.StatusCodes.RequestCompletedPartial
def stRejected : Nat := GS.Generated.StatusCodes.RequestRejected
def stFailedUnknown : Nat := GS.Generated.StatusCodes.RequestFailedUnknown
def stNotFound : Nat := GS.Generated.StatusCodes.RequestFailedContentNotFound
def stCancelled : Nat := GS.Generated.StatusCodes.RequestCancelled

/-- `ResponseStatusCode.IsTerminal` -/
def isTerminal (c : Nat) : Bool := GS.Generated.StatusCodes.isTerminal c

-- ------------------------------------------------------------------ scripts
inductive HookKind | accept | reject | error | pause
deriving DecidableEq, Repr

structure Hook where
  kind : HookKind
  ext : Bool
deriving DecidableEq, Repr

/-- outgoing block hook plan: ok / send extension / pause / terminate with error / park (then ok) -/
inductive BH | ok | ext | pause | err | park
deriving DecidableEq, Repr

/-- update hook plan: nothing / extension / error / unpause / unpause + extension -/
inductive UP | ok | ext | err | unpause | unpauseExt
deriving DecidableEq, Repr

structure ReqCfg where
  pri : Nat
  hook : Hook
  n : Nat
  miss : Option Nat
  bh : List BH
  parkFinish : Bool := false    -- harness: park the executor between its last transaction and FinishTask
deriving DecidableEq, Repr

inductive RState | queued | running | paused | completing
deriving DecidableEq, Repr

/-- what `ErrSignal` can carry -/
inductive Sig | ctxCancel | network | cancelCmd
deriving DecidableEq, Repr

/-- error results of the executor -/
inductive WErr | paused | ctxCancel | network | cancelCmd | firstBlock | other
deriving DecidableEq, Repr

def Sig.toWErr : Sig → WErr
  | .ctxCancel => .ctxCancel
  | .network => .network
  | .cancelCmd => .cancelCmd

/-- the fields of inProgressResponseStatus that only the signal plumbing and the executor touch -/
structure Aux where
  updates : List UP := []
  sigPause : Bool := false
  sigUpdate : Bool := false
  sigErr : Option Sig := none
  netErr : Bool := false        -- response.networkError
  started : Bool := false       -- traverser != nil
  pos : Nat := 0                -- blocks the traverser has been fed so far (Advance or Error)
  ended : Bool := false         -- a load failed (SkipMe): the chain has no further links
  hooked : Nat := 0             -- block hooks run so far
  missing : Bool := false       -- link tracker: a block was missing
  task : Option Nat := none     -- response.task: the worker (task) that executes this response
deriving DecidableEq, Repr

/-- inProgressResponseStatus -/
structure Resp where
  id : Id
  peer : Peer
  cfg : ReqCfg
  state : RState
  aux : Aux := {}
  inc : Nat := 0                -- which response with this id it is (identity of its message subscriber)
deriving DecidableEq, Repr

-- ------------------------------------------------------------------ transactions and builders
inductive TxOp
  | block (size : Nat) (present : Bool)
  | ext
  | status (code : Nat)
deriving DecidableEq, Repr

/-- one request's share of a message builder -/
structure Entry where
  id : Id
  sub : Bool := false           -- subscriber + response stream registered
  inResp : Bool := false        -- key present in outgoingResponses
  code : Option Nat := none     -- completedResponses
  links : Nat := 0
  exts : Nat := 0
  bdata : Nat := 0
  bytes : Nat := 0              -- accounted bytes (blocks + extension data)
  inc : Nat := 0                -- the response (incarnation of the id) whose subscriber watches this data
deriving DecidableEq, Repr

structure Builder where
  entries : List Entry := []
  hasReq : Bool := false        -- carries an outgoing request (requestor side of the node)
deriving DecidableEq, Repr

def Builder.empty (b : Builder) : Bool := !b.hasReq && !(b.entries.any (·.inResp))
def Builder.size (b : Builder) : Nat := (b.entries.map (·.bytes)).sum

def getEntry (es : List Entry) (id : Id) : Entry :=
  match es.find? (·.id == id) with
  | some e => e
  | none => { id }

/-- entries kept sorted by id -/
def putEntry : List Entry → Entry → List Entry
  | [], e => [e]
  | x :: xs, e => if x.id == e.id then e :: xs else if e.id < x.id then e :: x :: xs else x :: putEntry xs e

/-- message.Builder.AddResponseCode: a queued terminal status is only replaced by a terminal one -/
def addCode (cur : Option Nat) (c : Nat) : Option Nat :=
  match cur with
  | some old => if isTerminal old && !isTerminal c then some old else some c
  | none => some c

def applyOp (extLen : Nat) (e : Entry) : TxOp → Entry
  | .block size present =>
    { e with inResp := true, links := e.links + 1, bdata := e.bdata + 1,
             bytes := e.bytes + (if present then size else 0) }
  | .ext => { e with inResp := true, exts := e.exts + 1, bytes := e.bytes + extLen }
  | .status c => { e with inResp := true, code := addCode e.code c }

def opSize (extLen : Nat) : TxOp → Nat
  | .block size present => if present then size else 0
  | .ext => extLen
  | .status _ => 0

def txSize (extLen : Nat) (ops : List TxOp) : Nat := (ops.map (opSize extLen)).sum

/-- the build function of responseStream.execute -/
def buildInto (extLen : Nat) (b : Builder) (id : Id) (inc : Nat) (ops : List TxOp) : Builder :=
  let e := ops.foldl (applyOp extLen) (getEntry b.entries id)
  { b with entries := putEntry b.entries { e with sub := true, inc := inc } }

-- ------------------------------------------------------------------ processes
inductive AfterTx
  | afterBlock (err : Option WErr) (present : Bool)
  | afterFinal (err : Option WErr)
deriving DecidableEq, Repr

inductive WPhase
  | waitStart                                   -- StartTask sent
  | started                                     -- got the task data: top of runTraversal's loop
  | atLoader                                    -- about to load block `pos`
  | waitUpdates (ops : List TxOp) (present : Bool)   -- GetUpdates sent from checkForUpdates
  | gotUpdates (ups : List UP) (ops : List TxOp) (present : Bool)
  | inHook (ops : List TxOp) (cfu : Option WErr)      -- parked inside the block hook
  | blockedTx (ops : List TxOp) (k : AfterTx) (granted : Bool)  -- waiting for the allocator
  | preFinish (err : Option WErr)               -- about to call FinishTask (schedule control point)
  | waitFinish                                  -- FinishTask sent
  | done
deriving DecidableEq, Repr

structure Worker where
  peer : Peer
  id : Id
  phase : WPhase
  parkF : Bool := false         -- park once before FinishTask
  inc : Nat := 0                -- the response this task executes (its stream / subscriber)
deriving DecidableEq, Repr

inductive ReqMsg
  | new (id : Id) (cfg : ReqCfg)
  | cancel (id : Id)
  | update (id : Id) (plan : UP)
deriving DecidableEq, Repr

inductive ApiCall
  | pause (id : Id)
  | unpause (id : Id) (ext : Bool)
  | cancel (id : Id)
  | update (id : Id) (ext : Bool)
deriving DecidableEq, Repr

inductive Msg
  | processRequests (p : Peer) (r : ReqMsg)
  | api (c : ApiCall)
  | startTask (w : Nat)
  | getUpdates (w : Nat)
  | finishTask (w : Nat) (err : Option WErr)
  | closeNetErr (id : Id) (inc : Nat) (pub : Peer)   -- the subscriber of response `inc` of this id
  | terminate (id : Id) (inc : Nat) (pub : Peer)
deriving DecidableEq, Repr

inductive ApiRes | ok | notFound | err
deriving DecidableEq, Repr

/-- publisher micro-steps (subscriber.OnNext unfolded) -/
inductive PStep
  | emitBs (id : Id) (n : Nat)
  | callClose (id : Id) (inc : Nat)
  | callTerminate (id : Id) (inc : Nat)
  | emitDone (id : Id) (code : Nat)
  | emitNerr (id : Id)
deriving DecidableEq, Repr

/-- where a parked manager continues after its reservation is granted -/
inductive MgrCont
  | newReq (p : Peer) (id : Id) (cfg : ReqCfg)
  | procUpdate (id : Id) (plan : UP)
  | unpause (id : Id) (ext : Bool)
  | update (id : Id) (ext : Bool)
deriving DecidableEq, Repr

structure MgrPark where
  cont : MgrCont
  peer : Peer
  id : Id
  ops : List TxOp
  granted : Bool
deriving DecidableEq, Repr

inductive Party | mgr | worker (w : Nat)
deriving DecidableEq, Repr

structure Waiting where
  party : Party
  peer : Peer
  size : Nat
deriving DecidableEq, Repr

inductive Event
  | protect (p : Peer) (id : Id)
  | unprotect (p : Peer) (id : Id)
  | done (id : Id) (code : Nat)
  | canc (id : Id)
  | nerr (id : Id)
  | bs (id : Id)
  | proc (id : Id)
  | apiRes (c : ApiCall) (r : ApiRes)
deriving DecidableEq, Repr

structure PeerQ where
  peer : Peer
  pending : List (Id × Nat) := []     -- topic, priority
  active : List Id := []
  freeze : Nat := 0
deriving DecidableEq, Repr

structure PeerMQ where
  peer : Peer
  inflight : Option Builder := none
  next : Option Builder := none
  pubQ : List PStep := []
  pubWait : Bool := false
  allocated : Nat := 0
deriving DecidableEq, Repr

structure State where
  extLen : Nat := 17                  -- encoded length of the extension payload used by the hooks
  leafLen : Nat := 45                 -- encoded length of the last block of a chain
  innerLen : Nat := 88                -- encoded length of every other block
  limit : Nat := 0                    -- per-peer memory limit, 0 = unlimited
  maxActive : Nat := 0                -- MaxOutstandingWorkPerPeer, 0 = unlimited
  nWorkers : Nat := 0                 -- size of the task-worker pool, 0 = unbounded
  table : List Resp := []
  closed : List Id := []              -- response streams that were closed
  queues : List PeerQ := []
  mqs : List PeerMQ := []
  workers : List Worker := []
  mailbox : List Msg := []
  park : Option MgrPark := none
  waiting : List Waiting := []        -- allocator FIFO (ungranted reservations)
  prot : List (Peer × Id) := []
  events : List Event := []           -- ghost: everything observable, in order
  seenIds : List Id := []             -- ghost: ids of all `new` requests received so far
  handled : Nat := 0                  -- ghost: number of mailbox messages handled so far
  underflow : Bool := false           -- ghost: some `release` gave back more than the peer had allocated
  nextInc : Nat := 0                  -- number of responses registered so far (identity of the next one)
deriving Repr, DecidableEq

-- ------------------------------------------------------------------ small helpers
def lookup (s : State) (id : Id) : Option Resp := s.table.find? (·.id == id)

/-- change the executor-side fields of the entry `id` (no effect if there is none) -/
def modAux (s : State) (id : Id) (f : Aux → Aux) : State :=
  { s with table := s.table.map fun x => if x.id == id then { x with aux := f x.aux } else x }

/-- change the request state of the entry `id` (no effect if there is none) -/
def setState (s : State) (id : Id) (st : RState) : State :=
  { s with table := s.table.map fun x => if x.id == id then { x with state := st } else x }

/-- `rm.inProgressResponses[id] = response`; every registered response gets its own identity (its
    message subscriber, /repo fe9afe8) -/
def insertResp (s : State) (r : Resp) : State :=
  { s with table := s.table.filter (·.id != r.id) ++ [{ r with inc := s.nextInc }], nextInc := s.nextInc + 1 }

def delResp (s : State) (id : Id) : State := { s with table := s.table.filter (·.id != id) }

def emit (s : State) (e : Event) : State := { s with events := s.events ++ [e] }

/-- `rm.send`: append a message to the manager's mailbox -/
def sendMsg (s : State) (m : Msg) : State := { s with mailbox := s.mailbox ++ [m] }

def getQ (s : State) (p : Peer) : PeerQ :=
  match s.queues.find? (·.peer == p) with
  | some q => q
  | none => { peer := p }

def setQ (s : State) (q : PeerQ) : State :=
  { s with queues := if s.queues.any (·.peer == q.peer) then s.queues.map (fun x => if x.peer == q.peer then q else x)
                     else s.queues ++ [q] }

def getMQ (s : State) (p : Peer) : PeerMQ :=
  match s.mqs.find? (·.peer == p) with
  | some q => q
  | none => { peer := p }

def setMQ (s : State) (q : PeerMQ) : State :=
  { s with mqs := if s.mqs.any (·.peer == q.peer) then s.mqs.map (fun x => if x.peer == q.peer then q else x)
                  else s.mqs ++ [q] }

def setWorker (s : State) (w : Nat) (f : Worker → Worker) : State :=
  { s with workers := s.workers.mapIdx fun i x => if i == w then f x else x }

def setPhase (s : State) (w : Nat) (ph : WPhase) : State := setWorker s w fun x => { x with phase := ph }

def isClosed (s : State) (id : Id) : Bool := s.closed.contains id

-- ------------------------------------------------------------------ task queue (go-peertaskqueue)
/-- PushTasks: skipped when the topic is active, merged when it is pending -/
def pushTask (s : State) (p : Peer) (id : Id) (pri : Nat) : State :=
  let q := getQ s p
  if q.active.contains id then s
  else if q.pending.any (·.1 == id) then
    setQ s { q with pending := q.pending.map fun t => if t.1 == id then (t.1, max t.2 pri) else t }
  else setQ s { q with pending := q.pending ++ [(id, pri)] }

/-- TaskQueue.Remove: removes a pending task and freezes the peer -/
def removeTask (s : State) (p : Peer) (id : Id) : State :=
  let q := getQ s p
  if q.pending.any (·.1 == id) then
    setQ s { q with pending := q.pending.filter (·.1 != id), freeze := q.freeze + 1 }
  else s

def taskDone (s : State) (p : Peer) (id : Id) : State :=
  if s.queues.any (·.peer == p) then
    let q := getQ s p
    setQ s { q with active := q.active.filter (· != id) }
  else s

/-- PopTasks on a peer tracker that has neither pending nor active tasks removes the tracker (and
    with it the peer's freeze count) -/
def reap (s : State) (p : Peer) : Option State :=
  match s.queues.find? (·.peer == p) with
  | some q => if q.pending.isEmpty && q.active.isEmpty then some { s with queues := s.queues.filter (·.peer != p) } else none
  | none => none

def thawAll (s : State) : State :=
  { s with queues := s.queues.map fun q => { q with freeze := q.freeze - (q.freeze + 1) / 2 } }

-- ------------------------------------------------------------------ allocator (per-peer limit only)
def fitsPeer (s : State) (p : Peer) (n : Nat) : Bool :=
  s.limit == 0 || decide ((getMQ s p).allocated + n ≤ s.limit)

def addAlloc (s : State) (p : Peer) (n : Nat) : State :=
  let q := getMQ s p
  setMQ s { q with allocated := q.allocated + n }

/-- mark a party's reservation as granted -/
def grantTo (s : State) : Party → State
  | .mgr => { s with park := s.park.map fun pk => { pk with granted := true } }
  | .worker w => setWorker s w fun x =>
      match x.phase with
      | .blockedTx ops k _ => { x with phase := .blockedTx ops k true }
      | _ => x

/-- grant waiting reservations of peer `p` in FIFO order while they fit (fuel = queue length) -/
def grantLoop : Nat → State → Peer → State
  | 0, s, _ => s
  | fuel + 1, s, p =>
    match s.waiting.find? (·.peer == p) with
    | none => s
    | some w =>
      if fitsPeer s p w.size then
        let s1 := addAlloc { s with waiting := s.waiting.erase w } p w.size
        grantLoop fuel (grantTo s1 w.party) p
      else s

/-- ReleaseBlockMemory.  The real allocator clamps at zero (C13.release_clamped) and so does `-` on
    `Nat`; the ghost flag `underflow` records whether the clamp was ever needed, and the correspondence
    driver turns a set flag into a divergence, so every run checks that release amounts fit. -/
def release (s : State) (p : Peer) (n : Nat) : State :=
  let q := getMQ s p
  let s1 := setMQ { s with underflow := s.underflow || decide (q.allocated < n) } { q with allocated := q.allocated - n }
  grantLoop s1.waiting.length s1 p

/-- AllocateBlockMemory: granted at once iff nothing of this peer waits and it fits -/
def tryAlloc (s : State) (party : Party) (p : Peer) (n : Nat) : State × Bool :=
  if !(s.waiting.any (·.peer == p)) && fitsPeer s p n then (addAlloc s p n, true)
  else ({ s with waiting := s.waiting ++ [{ party, peer := p, size := n }] }, false)

-- ------------------------------------------------------------------ response assembler / message queue
/-- whose subscriber watches the data a party queues: a task worker builds for the response it was
    started for, the manager for the response in the table (or the one it is about to register) -/
def incOf (s : State) (party : Party) (id : Id) : Nat :=
  match party with
  | .worker w => ((s.workers[w]?).map (·.inc)).getD 0
  | .mgr => match s.table.find? (·.id == id) with
    | some r => r.inc
    | none => s.nextInc

/-- the part of AllocateAndBuildMessage after the reservation was granted: build unless the stream
    was closed meanwhile (then the unused reservation is returned) -/
def buildNow (s : State) (party : Party) (p : Peer) (id : Id) (ops : List TxOp) : State :=
  let size := txSize s.extLen ops
  if isClosed s id then (if size > 0 then release s p size else s)
  else
    let q := getMQ s p
    let b := q.next.getD {}
    setMQ s { q with next := some (buildInto s.extLen b id (incOf s party id) ops) }

/-- responseStream.Transaction's `execute`; `true` = done, `false` = the caller is now waiting -/
def execTx (s : State) (party : Party) (p : Peer) (id : Id) (ops : List TxOp) : State × Bool :=
  if isClosed s id then (s, true)
  else
    let size := txSize s.extLen ops
    if size == 0 then (buildNow s party p id ops, true)
    else
      let (s1, ok) := tryAlloc s party p size
      if ok then (buildNow s1 party p id ops, true) else (s1, false)

-- ------------------------------------------------------------------ manager handlers
/-- terminateRequest -/
def terminate (s : State) (id : Id) : State :=
  match lookup s id with
  | none => s
  | some r =>
    let s1 := emit s (.unprotect r.peer id)
    delResp { s1 with prot := s1.prot.filter (· != (r.peer, id)) } id

def prepareOps (h : Hook) : List TxOp :=
  (if h.ext then [TxOp.ext] else []) ++
  (match h.kind with
   | .error => [.status stFailedUnknown]
   | .reject => [.status stRejected]
   | .pause => [.status stPaused]
   | .accept => [])

/-- second half of newRequest (after prepareQuery's transaction) -/
def newReqFinish (s : State) (p : Peer) (id : Id) (cfg : ReqCfg) : State :=
  match cfg.hook.kind with
  | .error | .reject => insertResp s { id, peer := p, cfg, state := .completing }
  | .pause => insertResp s { id, peer := p, cfg, state := .paused }
  | .accept => insertResp (pushTask s p id cfg.pri) { id, peer := p, cfg, state := .queued }

def parkMgr (s : State) (cont : MgrCont) (p : Peer) (id : Id) (ops : List TxOp) : State :=
  { s with park := some { cont, peer := p, id, ops, granted := false } }

/-- `connManager.Protect(p, tag)` (a set of tags: protecting twice is idempotent) -/
def protect (s : State) (p : Peer) (id : Id) : State :=
  emit { s with prot := if s.prot.contains (p, id) then s.prot else s.prot ++ [(p, id)] } (.protect p id)

/-- `responseAssembler.NewStream`: a fresh (open) response stream for this id -/
def openStream (s : State) (id : Id) : State := { s with closed := s.closed.filter (· != id) }

def newRequest (s : State) (p : Peer) (id : Id) (cfg : ReqCfg) : State :=
  let s2 := openStream (protect s p id) id
  let ops := prepareOps cfg.hook
  let (s3, ok) := execTx s2 .mgr p id ops
  if ok then newReqFinish s3 p id cfg else parkMgr s3 (.newReq p id cfg) p id ops

def unpauseFinish (s : State) (id : Id) : State :=
  match lookup s id with
  | none => s
  | some r => pushTask s r.peer id 2147483647

/-- unpauseRequest; the result and whether the manager parked -/
def unpauseRequest (s : State) (id : Id) (ext : Bool) : State × ApiRes × Bool :=
  match lookup s id with
  | none => (s, .notFound, false)
  | some r =>
    if r.state != .paused then (s, .err, false)
    else
      -- /repo 27b8f26: a pause signal the executor did not consume before the response paused is dropped
      let s1 := setState (modAux s id fun a => { a with sigPause := false }) id .queued
      if ext then
        let (s2, ok) := execTx s1 .mgr r.peer id [.ext]
        if ok then (unpauseFinish s2 id, .ok, false) else (parkMgr s2 (.unpause id ext) r.peer id [.ext], .ok, true)
      else (unpauseFinish s1 id, .ok, false)

def procUpdateFinish (s : State) (id : Id) (plan : UP) : State :=
  match lookup s id with
  | none => s
  | some r =>
    if plan == .err then setState s r.id .completing
    else if plan == .unpause || plan == .unpauseExt then (unpauseRequest s id false).1
    else s

/-- processUpdate -/
def processUpdate (s : State) (id : Id) (plan : UP) : State :=
  match lookup s id with
  | none => s
  | some r =>
    if r.state == .completing then s
    else if r.state != .paused then modAux s id fun a => { a with updates := a.updates ++ [plan], sigUpdate := true }
    else
      let ops := (if plan == .ext || plan == .unpauseExt then [TxOp.ext] else []) ++
                 (if plan == .err then [TxOp.status stFailedUnknown] else [])
      let (s1, ok) := execTx s .mgr r.peer id ops
      if ok then procUpdateFinish s1 id plan else parkMgr s1 (.procUpdate id plan) r.peer id ops

/-- abortRequest -/
def abortRequest (s : State) (id : Id) (err : Sig) : State × ApiRes :=
  match lookup s id with
  | none => (s, .notFound)
  | some r =>
    let s1 := removeTask s r.peer id
    if r.state == .completing && err != .network then (s1, .notFound)
    else if r.state != .running then
      match err with
      | .ctxCancel => (emit (terminate s1 id) (.canc id), .ok)
      | .network => (terminate s1 id, .ok)
      | .cancelCmd =>
        let s2 := setState s1 id .completing
        ((execTx s2 .mgr r.peer id [.status stCancelled]).1, .ok)
    else
      (modAux s1 id fun a =>
        let a1 := if err == .network then { a with netErr := true } else a
        if a1.sigErr.isNone then { a1 with sigErr := some err } else a1, .ok)

def pauseRequest (s : State) (id : Id) : State × ApiRes :=
  match lookup s id with
  | none => (s, .notFound)
  | some r =>
    if r.state == .completing then (s, .notFound)
    else if r.state == .paused then (s, .err)
    else (modAux s id fun a => { a with sigPause := true }, .ok)

/-- updateRequest; result and whether the manager parked -/
def updateRequest (s : State) (id : Id) (ext : Bool) : State × ApiRes × Bool :=
  match lookup s id with
  | none => (s, .notFound, false)
  | some r =>
    let ops := (if ext then [TxOp.ext] else []) ++ [TxOp.status stPartial]
    let (s1, ok) := execTx s .mgr r.peer id ops
    if ok then (s1, .ok, false) else (parkMgr s1 (.update id ext) r.peer id ops, .ok, true)

def workerOf (s : State) (w : Nat) : Option Worker := s.workers[w]?

/-- startTask -/
def startTask (s : State) (w : Nat) : State :=
  match workerOf s w with
  | none => s
  | some wk =>
    match lookup s wk.id with
    | none => setPhase (taskDone s wk.peer wk.id) w .done
    | some r =>
      if r.state == .completing then setPhase (taskDone s wk.peer wk.id) w .done
      else
        let s1 := if r.aux.started then s else emit s (.proc r.id)
        setWorker (setState (modAux s1 r.id fun a => { a with started := true, task := some w }) r.id .running) w
          fun x => { x with phase := .started, parkF := r.cfg.parkFinish, inc := r.inc }

/-- finishTask -/
def finishTask (s : State) (w : Nat) (err : Option WErr) : State :=
  match workerOf s w with
  | none => s
  | some wk =>
    let s1 := setPhase (taskDone s wk.peer wk.id) w .done
    match lookup s1 wk.id with
    | none => s1
    | some r =>
      if r.aux.task != some w then
        -- the task belongs to an earlier response with the same id (already gone): the response now in
        -- the table is a new request whose own task could not be queued while this one was active
        (if r.state == .queued then pushTask s1 r.peer r.id r.cfg.pri else s1)
      else if r.aux.netErr then terminate s1 r.id
      else if err == some .paused then setState s1 r.id .paused
      else if err == some .ctxCancel then terminate (emit s1 (.canc r.id)) r.id
      else if err == some .network then terminate s1 r.id
      else setState s1 r.id .completing

def getUpdates (s : State) (w : Nat) : State :=
  match workerOf s w with
  | none => s
  | some wk =>
    match wk.phase with
    | .waitUpdates ops present =>
      match lookup s wk.id with
      | none => setPhase s w (.gotUpdates [] ops present)
      | some r => setPhase (modAux s r.id fun a => { a with updates := [] }) w (.gotUpdates r.aux.updates ops present)
    | _ => s

def clearPubWait (s : State) (p : Peer) : State :=
  let q := getMQ s p
  setMQ s { q with pubWait := false }

/-- CloseWithNetworkError reported "no such response": the publisher skips the listener call that
    would have followed -/
def dropNerr (s : State) (p : Peer) (id : Id) : State :=
  let q := getMQ s p
  setMQ s { q with pubQ := q.pubQ.erase (.emitNerr id) }

/-- the response in the table under `id` is the one with identity `inc` -/
def isInc (s : State) (id : Id) (inc : Nat) : Bool :=
  match lookup s id with
  | some r => r.inc == inc
  | none => false

def ReqMsg.id : ReqMsg → Id
  | .new id _ => id
  | .cancel id => id
  | .update id _ => id

/-- processRequests: a peer can only address the responses that are being served to it
    (/repo 7d665e5) -/
def foreign (s : State) (p : Peer) (id : Id) : Bool :=
  match lookup s id with
  | some r => r.peer != p
  | none => false

def processRequest (s : State) (p : Peer) : ReqMsg → State
  | .new id cfg => newRequest s p id cfg
  | .cancel id => (abortRequest s id .ctxCancel).1
  | .update id plan => processUpdate s id plan

/-- one mailbox message -/
def handle (s : State) : Msg → State
  | .processRequests p r => if foreign s p r.id then s else processRequest s p r
  | .api (.pause id) => let (s1, r) := pauseRequest s id; emit s1 (.apiRes (.pause id) r)
  | .api (.unpause id ext) =>
    let (s1, r, parked) := unpauseRequest s id ext
    if parked then s1 else emit s1 (.apiRes (.unpause id ext) r)
  | .api (.cancel id) => let (s1, r) := abortRequest s id .cancelCmd; emit s1 (.apiRes (.cancel id) r)
  | .api (.update id ext) =>
    let (s1, r, parked) := updateRequest s id ext
    if parked then s1 else emit s1 (.apiRes (.update id ext) r)
  | .startTask w => startTask s w
  | .getUpdates w => getUpdates s w
  | .finishTask w err => finishTask s w err
  | .closeNetErr id inc pub =>
    -- /repo fe9afe8: only the response the subscriber was created for is meant;
    -- /repo e842a00: the network-error listeners are only told when that response still existed
    let (s1, r) := if isInc s id inc then abortRequest s id .network else (s, .notFound)
    if r == .ok then clearPubWait s1 pub else dropNerr (clearPubWait s1 pub) pub id
  | .terminate id inc pub => clearPubWait (if isInc s id inc then terminate s id else s) pub

/-- the parked manager continues after its reservation was granted -/
def resumeMgr (s : State) (pk : MgrPark) : State :=
  let s1 := buildNow { s with park := none } .mgr pk.peer pk.id pk.ops
  match pk.cont with
  | .newReq p id cfg => newReqFinish s1 p id cfg
  | .procUpdate id plan => procUpdateFinish s1 id plan
  | .unpause id ext => emit (unpauseFinish s1 id) (.apiRes (.unpause id ext) .ok)
  | .update id ext => emit s1 (.apiRes (.update id ext) .ok)

-- ------------------------------------------------------------------ worker (query executor)
def finalStatus (r : Option Resp) : Option WErr → Nat
  | none => if (r.map (·.aux.missing)).getD false then stCompletedPartial else stFull
  | some .firstBlock => stNotFound
  | some .cancelCmd => stCancelled
  | some _ => stFailedUnknown

/-- manager.FinishTask (the executor's last act) -/
def sendFinishNow (s : State) (w : Nat) (err : Option WErr) : State :=
  setPhase (sendMsg s (.finishTask w err)) w .waitFinish

def sendFinish (s : State) (w : Nat) (err : Option WErr) : State :=
  if ((workerOf s w).map (·.parkF)).getD false then
    setWorker s w fun x => { x with phase := .preFinish err, parkF := false }
  else sendFinishNow s w err

/-- executeQuery after runTraversal returned `err` -/
def executeQuery (s : State) (w : Nat) (wk : Worker) (err : Option WErr) : State :=
  match err with
  | some .paused | some .network | some .ctxCancel => sendFinish s w err
  | _ =>
    let ops := [TxOp.status (finalStatus (lookup s wk.id) err)]
    let (s1, ok) := execTx s (.worker w) wk.peer wk.id ops
    if ok then sendFinish s1 w err else setPhase s1 w (.blockedTx ops (.afterFinal err) false)

/-- top of runTraversal's loop: IsComplete? otherwise the next load -/
def loopTop (s : State) (w : Nat) (wk : Worker) : State :=
  match lookup s wk.id with
  | none => sendFinish s w (some .ctxCancel)
  | some r =>
    if r.aux.ended || r.aux.pos ≥ r.cfg.n then
      executeQuery s w wk (if r.aux.ended && r.aux.pos ≤ 1 then some .firstBlock else none)
    else setPhase s w .atLoader

/-- after the transaction of a block -/
def afterBlock (s : State) (w : Nat) (wk : Worker) (err : Option WErr) : State :=
  match err with
  | some e => executeQuery s w wk (some e)
  | none => loopTop s w wk

def runTx (s : State) (w : Nat) (wk : Worker) (ops : List TxOp) (k : AfterTx) : State :=
  let (s1, ok) := execTx s (.worker w) wk.peer wk.id ops
  if ok then
    match k with
    | .afterBlock err _ => afterBlock s1 w wk err
    | .afterFinal err => sendFinish s1 w err
  else setPhase s1 w (.blockedTx ops k false)

/-- the rest of sendResponse's transaction once checkForUpdates returned `cfu` (nil or paused);
    the block being sent is number `pos - 1` -/
def blockPart (s : State) (w : Nat) (wk : Worker) (ops : List TxOp) (cfu : Option WErr) (present : Bool) : State :=
  match lookup s wk.id with
  | none => sendFinish s w (some .ctxCancel)
  | some r =>
    let size := if r.aux.pos ≥ r.cfg.n then s.leafLen else s.innerLen
    let ops1 := ops ++ [TxOp.block size present]
    if !present then runTx (modAux s r.id fun a => { a with missing := true }) w wk ops1 (.afterBlock cfu present)
    else
      let plan := (r.cfg.bh[r.aux.hooked]?).getD .ok
      let s2 := modAux s r.id fun a => { a with hooked := a.hooked + 1 }
      match plan with
      | .ok => runTx s2 w wk ops1 (.afterBlock cfu present)
      | .ext => runTx s2 w wk (ops1 ++ [.ext]) (.afterBlock cfu present)
      | .pause => runTx s2 w wk (ops1 ++ [.status stPaused]) (.afterBlock (some .paused) present)
      | .err => runTx s2 w wk ops1 (.afterBlock (some .other) present)
      | .park => setPhase s2 w (.inHook ops1 cfu)

/-- checkForUpdates: which pending signal the `select` takes is chosen by `pick` -/
def checkForUpdates (s : State) (w : Nat) (wk : Worker) (ops : List TxOp) (present : Bool) (pick : Nat) : State :=
  match lookup s wk.id with
  | none => sendFinish s w (some .ctxCancel)
  | some r =>
    let cands : List Nat := (if r.aux.sigPause then [0] else []) ++ (if r.aux.sigErr.isSome then [1] else []) ++
                            (if r.aux.sigUpdate then [2] else [])
    match cands[pick % (max cands.length 1)]? with
    | none => blockPart s w wk ops none present
    | some 0 =>
      blockPart (modAux s r.id fun a => { a with sigPause := false }) w wk (ops ++ [.status stPaused]) (some .paused) present
    | some 1 =>
      let e := (r.aux.sigErr.map Sig.toWErr).getD .other
      runTx (modAux s r.id fun a => { a with sigErr := none }) w wk ops (.afterBlock (some e) present)
    | some _ =>
      setPhase (sendMsg (modAux s r.id fun a => { a with sigUpdate := false }) (.getUpdates w)) w
        (.waitUpdates ops present)

/-- process the updates returned by GetUpdates, then loop in checkForUpdates -/
def applyUpdates (s : State) (w : Nat) (wk : Worker) : List UP → List TxOp → Bool → Nat → State
  | [], ops, present, pick => checkForUpdates s w wk ops present pick
  | u :: us, ops, present, pick =>
    let ops1 := if u == .ext || u == .unpauseExt then ops ++ [TxOp.ext] else ops
    if u == .err then runTx s w wk ops1 (.afterBlock (some .other) present)
    else applyUpdates s w wk us ops1 present pick

/-- one worker segment: from its current phase to the next point where it waits for someone else -/
def wstep (s : State) (w : Nat) (pick : Nat) : Option State :=
  match workerOf s w with
  | none => none
  | some wk =>
    match wk.phase with
    | .started => some (loopTop s w wk)
    | .atLoader =>
      -- loadBlock: the traverser is fed (Advance / Error) before the block's transaction
      match lookup s wk.id with
      | none => some (sendFinish s w (some .ctxCancel))
      | some r =>
        let present := r.cfg.miss != some r.aux.pos
        some (checkForUpdates (modAux s r.id fun a => { a with pos := a.pos + 1, ended := !present }) w wk [] present pick)
    | .gotUpdates ups ops present => some (applyUpdates s w wk ups ops present pick)
    | .inHook ops cfu => some (runTx s w wk ops (.afterBlock cfu true))
    | .preFinish err => some (sendFinishNow s w err)
    | .blockedTx ops k true =>
      let s1 := buildNow s (.worker w) wk.peer wk.id ops
      match k with
      | .afterBlock err _ => some (afterBlock s1 w wk err)
      | .afterFinal err => some (sendFinish s1 w err)
    | _ => none

-- ------------------------------------------------------------------ message queue + publisher
def sentSteps (e : Entry) : List PStep :=
  let code := if e.inResp then (e.code.getD stPartial) else 0
  (if e.bdata > 0 then [PStep.emitBs e.id e.bdata] else []) ++
  (if isTerminal code then [.callTerminate e.id e.inc, .emitDone e.id code] else [])

def errSteps (e : Entry) : List PStep :=
  let code := if e.inResp then (e.code.getD stPartial) else 0
  [PStep.callClose e.id e.inc] ++ (if isTerminal code then [.callTerminate e.id e.inc] else []) ++ [.emitNerr e.id]

def scrubBuilder (b : Builder) (ids : List Id) : Builder :=
  { b with entries := b.entries.filter fun e => !ids.contains e.id }

/-- scrubResponses on the queued builder: the scrubbed builder (dropped when empty) and the bytes freed -/
def scrubNext (nb : Option Builder) (ids : List Id) : Option Builder × Nat :=
  match nb with
  | none => (none, 0)
  | some b =>
    let b' := scrubBuilder b ids
    (if b'.empty then none else some b', b.size - b'.size)

/-- scrubResponseStreams: close the response streams of a failed message -/
def closeStreams (s : State) (ids : List Id) : State :=
  { s with closed := s.closed ++ ids.filter (fun i => !s.closed.contains i) }

/-- the message in flight to `p` is resolved: publishSent / publishError -/
def netResolve (s : State) (p : Peer) (ok : Bool) : Option State :=
  let q := getMQ s p
  match q.inflight with
  | none => none
  | some b =>
    let subs := b.entries.filter (·.sub)
    if ok then
      let s1 := setMQ s { q with inflight := none, pubQ := q.pubQ ++ (subs.map sentSteps).flatten }
      some (release s1 p b.size)
    else
      let ids := subs.map (·.id)
      -- scrubResponseStreams: close the streams, scrub the queued builders, release what was freed
      let sc := scrubNext q.next ids
      let s2 := setMQ (closeStreams s ids)
        { q with inflight := none, next := sc.1, pubQ := q.pubQ ++ (subs.map errSteps).flatten }
      let s3 := if sc.2 > 0 then release s2 p sc.2 else s2
      some (release s3 p b.size)

/-- the queue goroutine takes the accumulated builder -/
def extract (s : State) (p : Peer) : Option State :=
  let q := getMQ s p
  match q.inflight, q.next with
  | none, some b => if b.empty then none else some (setMQ s { q with inflight := some b, next := none })
  | _, _ => none

/-- the node's requestor side queues a request for `p` (the harness' primer) -/
def primer (s : State) (p : Peer) : State :=
  let q := getMQ s p
  setMQ s { q with next := some { (q.next.getD {}) with hasReq := true } }

/-- one publisher micro-step -/
def pubStep (s : State) (p : Peer) : Option State :=
  let q := getMQ s p
  if q.pubWait then none
  else
    match q.pubQ with
    | [] => none
    | st :: rest =>
      let s1 := setMQ s { q with pubQ := rest }
      match st with
      | .emitBs id n => some { s1 with events := s1.events ++ List.replicate n (.bs id) }
      | .emitDone id code => some (emit s1 (.done id code))
      | .emitNerr id => some (emit s1 (.nerr id))
      | .callClose id inc =>
        some (sendMsg (setMQ s { q with pubQ := rest, pubWait := true }) (.closeNetErr id inc p))
      | .callTerminate id inc =>
        some (sendMsg (setMQ s { q with pubQ := rest, pubWait := true }) (.terminate id inc p))

-- ------------------------------------------------------------------ the transition system
inductive Action
  | recv (p : Peer) (r : ReqMsg)       -- environment: a request message arrives
  | api (c : ApiCall)                  -- environment: responder API call
  | mgr                                -- manager: handle the head of the mailbox / continue after a grant
  | pop (p : Peer) (id : Id)           -- a worker pops this pending task
  | reap (p : Peer)                    -- a worker's PopTasks finds peer p's tracker idle and removes it
  | wstep (w : Nat) (pick : Nat)       -- worker segment
  | extract (p : Peer)                 -- message queue goroutine
  | net (p : Peer) (ok : Bool)         -- environment: the send completes / fails
  | pub (p : Peer)                     -- publisher goroutine
  | primer (p : Peer)                  -- environment: requestor side queues a request
  | thaw                               -- task queue ticker
deriving DecidableEq, Repr

/-- task workers that are executing a task (the real pool has `nWorkers` goroutines) -/
def liveWorkers (s : State) : Nat := (s.workers.filter (·.phase != .done)).length

def popTask (s : State) (p : Peer) (id : Id) : Option State :=
  let q := getQ s p
  if q.freeze == 0 && q.pending.any (·.1 == id) && (s.maxActive == 0 || q.active.length < s.maxActive) &&
      (s.nWorkers == 0 || liveWorkers s < s.nWorkers) then
    let s1 := setQ s { q with pending := q.pending.filter (·.1 != id), active := q.active ++ [id] }
    let w := s1.workers.length
    some (sendMsg { s1 with workers := s1.workers ++ [{ peer := p, id, phase := .waitStart }] } (.startTask w))
  else none

def mgrStep (s : State) : Option State :=
  match s.park with
  | some pk => if pk.granted then some (resumeMgr s pk) else none
  | none =>
    match s.mailbox with
    | [] => none
    | m :: rest => some (handle { s with mailbox := rest, handled := s.handled + 1 } m)

def step (s : State) : Action → Option State
  | .recv p r =>
    some (sendMsg { s with seenIds := match r with | .new id _ => s.seenIds ++ [id] | _ => s.seenIds }
                  (.processRequests p r))
  | .api c => some (sendMsg s (.api c))
  | .mgr => mgrStep s
  | .pop p id => popTask s p id
  | .reap p => reap s p
  | .wstep w pick => wstep s w pick
  | .extract p => extract s p
  | .net p ok => netResolve s p ok
  | .pub p => pubStep s p
  | .primer p => some (primer s p)
  | .thaw => some (thawAll s)

/-- everything a responder is configured with (the correspondence driver starts from arbitrary values) -/
structure Cfg where
  limit : Nat := 0
  extLen : Nat := 17
  leafLen : Nat := 45
  innerLen : Nat := 88
  maxActive : Nat := 0
  nWorkers : Nat := 0
deriving DecidableEq, Repr

def init (c : Cfg) : State :=
  { limit := c.limit, extLen := c.extLen, leafLen := c.leafLen, innerLen := c.innerLen,
    maxActive := c.maxActive, nWorkers := c.nWorkers }

/-- run a list of actions (disabled actions are skipped) -/
def run (s : State) (as : List Action) : State :=
  as.foldl (fun s a => (step s a).getD s) s

inductive Reachable (c : Cfg) : State → Prop
  | init : Reachable c (init c)
  | step {s s' a} : Reachable c s → step s a = some s' → Reachable c s'

end GS.RespLife
