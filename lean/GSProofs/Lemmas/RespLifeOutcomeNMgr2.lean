import GSProofs.Lemmas.RespLifeOutcomeNMgr
/-!
Outcome accounting, part 2: registration, StartTask / FinishTask / GetUpdates, the parked manager.
-/
namespace GS.RespLife

-- ------------------------------------------------------------------ registration
theorem mstepK_insertResp (r : Id) (s : State) (x : Resp) (hp : s.park = none) (hx : x.aux.netErr = false) :
    MStepK r s (insertResp s x) (if x.id == r then 1 else 0) 0 := by
  refine ⟨rfl, fun _ => ⟨rfl, rfl⟩, fun _ => ⟨rfl, rfl⟩, ?_, ?_⟩
  · intro st hst
    rw [rinfo_insertResp] at hst
    split at hst
    · simp only [Option.some.injEq, Prod.mk.injEq] at hst
      rw [hx] at hst; cases hst.2
    · exact ⟨st, hst⟩
  · have e1 : cancC r (insertResp s x) = cancC r s := rfl
    have e2 : regs r (insertResp s x) = regs r s := rfl
    have e4 : (insertResp s x).park = none := hp
    have e5 : parkErr r none = false := rfl
    simp only [EP, e1, e2, e4, hp, e5, rinfo_insertResp]
    simp only [Bool.false_eq_true, if_false]
    by_cases h : r = x.id
    · subst h
      have := aliveW_le_one (some (x.state, x.aux.netErr))
      simp; omega
    · have h' : (x.id == r) = false := by simpa using fun e => h e.symm
      simp [h, h']

theorem mstepK_newReqFinish (r : Id) (s : State) (p : Peer) (id : Id) (cfg : ReqCfg) (hp : s.park = none) :
    MStepK r s (newReqFinish s p id cfg) (if id == r then 1 else 0) 0 := by
  unfold newReqFinish
  split
  · exact mstepK_insertResp r s _ hp rfl
  · exact mstepK_insertResp r s _ hp rfl
  · exact mstepK_insertResp r s _ hp rfl
  · have hpp : (pushTask s p id cfg.pri).park = none := by rw [park_pushTask]; exact hp
    exact ((mstep_pushTask r s p id cfg.pri).toK.trans (mstepK_insertResp r _ _ hpp rfl)).weaken (by simp)

theorem mstepK_protect (r : Id) (s : State) (p : Peer) (id : Id) :
    MStepK r s (openStream (protect s p id) id) 0 (if id == r then 1 else 0) := by
  refine ⟨?_, fun _ => ⟨rfl, rfl⟩, fun _ => ⟨rfl, rfl⟩, fun st h => ⟨st, h⟩, ?_⟩
  · simp [nerrC, openStream, protect, emit, List.countP_append, nerrEv]
  · have e1 : cancC r (openStream (protect s p id) id) = cancC r s := by
      simp [cancC, openStream, protect, emit, List.countP_append, cancEv]
    have e2 := (pot_protect r s p id).2.1
    have e3 : EP r (openStream (protect s p id) id) = EP r s := rfl
    have e4 : (openStream (protect s p id) id).park = s.park := rfl
    rw [e1, e2, e3, e4]
    omega

theorem mstep_newRequest (r : Id) (s : State) (p : Peer) (id : Id) (cfg : ReqCfg) (hp : s.park = none) :
    MStep r s (newRequest s p id cfg) := by
  have h0 := mstepK_protect r s p id
  have hp2 : (openStream (protect s p id) id).park = none := hp
  have hrest : MStepK r (openStream (protect s p id) id) (newRequest s p id cfg) (if id == r then 1 else 0) 0 := by
    unfold newRequest
    simp only
    have hx := mstep_execTx r (openStream (protect s p id) id) .mgr p id (prepareOps cfg.hook)
    have hpx := park_execTx_none hp2 .mgr p id (prepareOps cfg.hook)
    generalize execTx (openStream (protect s p id) id) .mgr p id (prepareOps cfg.hook) = pr at hx hpx
    obtain ⟨s3, ok⟩ := pr
    simp only at hx hpx ⊢
    split
    · exact (hx.toK.trans (mstepK_newReqFinish r s3 p id cfg hpx)).weaken (by omega)
    · refine (hx.toK.trans (?_ : MStepK r s3 (parkMgr s3 (.newReq p id cfg) p id (prepareOps cfg.hook))
        (if id == r then 1 else 0) 0)).weaken (by omega)
      refine ⟨rfl, fun _ => ⟨rfl, rfl⟩, fun _ => ⟨rfl, rfl⟩, fun st h => ⟨st, h⟩, ?_⟩
      have e1 : cancC r (parkMgr s3 (.newReq p id cfg) p id (prepareOps cfg.hook)) = cancC r s3 := rfl
      have e2 : regs r (parkMgr s3 (.newReq p id cfg) p id (prepareOps cfg.hook)) = regs r s3 := rfl
      have e3 : EP r (parkMgr s3 (.newReq p id cfg) p id (prepareOps cfg.hook)) = aliveW (rinfo r s3) := rfl
      have e4 : EP r s3 = aliveW (rinfo r s3) := by simp only [EP, hpx]; rfl
      have e5 : PN r (parkMgr s3 (.newReq p id cfg) p id (prepareOps cfg.hook)).park = if id == r then 1 else 0 := rfl
      have e6 : PN r s3.park = 0 := by rw [hpx]; rfl
      rw [e1, e2, e3, e4, e5, e6]
      omega
  exact (h0.trans hrest).close (by omega)

-- ------------------------------------------------------------------ StartTask / FinishTask / GetUpdates
theorem mstep_retireWorker (r : Id) (s : State) (w : Nat) (p : Peer) (id : Id) :
    MStep r s (setPhase (taskDone s p id) w .done) :=
  (mstep_taskDone r s p id).trans (mstep_setPhase r _ w _)

theorem mstep_startTask (r : Id) (s : State) (w : Nat) (hp : s.park = none) : MStep r s (startTask s w) := by
  unfold startTask
  split
  · exact MStep.refl r s
  · rename_i wk hw
    split
    · exact mstep_retireWorker r s w _ _
    · rename_i x hl
      split
      · exact mstep_retireWorker r s w _ _
      · simp only
        generalize hs1 : (if x.aux.started = true then s else emit s (.proc x.id)) = s1
        have hc1 : MStep r s s1 := by
          rw [← hs1]; split
          · exact MStep.refl r s
          · exact mstep_emit r s _ rfl rfl rfl
        have hp1 : s1.park = none := by rw [← hs1]; split <;> exact hp
        have h2 := mstep_modAux r s1 x.id (fun a => { a with started := true, task := some w }) (by intro _; rfl)
        have h3 := mstep_setState r (modAux s1 x.id fun a => { a with started := true, task := some w }) x.id .running
          hp1 (by intro _ h; exact absurd rfl h)
        exact ((hc1.trans h2).trans h3).trans (mstep_setWorker r _ w _)

theorem park_retire (s : State) (w : Nat) (p : Peer) (id : Id) :
    (setPhase (taskDone s p id) w .done).park = s.park := by
  show (taskDone s p id).park = s.park
  exact park_taskDone s p id

theorem mstep_finishTask (r : Id) (s : State) (w : Nat) (err : Option WErr) (hp : s.park = none) :
    MStep r s (finishTask s w err) := by
  unfold finishTask
  split
  · exact MStep.refl r s
  · rename_i wk hw
    have h1 := mstep_retireWorker r s w wk.peer wk.id
    have hp1 : (setPhase (taskDone s wk.peer wk.id) w .done).park = none := by rw [park_retire]; exact hp
    simp only
    generalize setPhase (taskDone s wk.peer wk.id) w .done = s1 at h1 hp1
    split
    · exact h1
    · rename_i x hl
      have hxid : x.id = wk.id := (lookup_some hl).2
      rw [← hxid] at hl
      split
      · split
        · exact h1.trans (mstep_pushTask r s1 _ _ _)
        · exact h1
      · split
        · exact h1.trans (mstep_terminate r s1 x.id hp1)
        · rename_i hnet
          have hnet' : x.aux.netErr = false := by simpa using hnet
          have hsafe : x.id = r → rinfo r s1 ≠ some (.running, true) := by
            intro e; subst e
            rw [rinfo_lookup hl, hnet']; simp
          split
          · exact h1.trans (mstep_setState r s1 x.id .paused hp1 (fun e _ => hsafe e))
          · split
            · refine h1.trans ?_
              by_cases hid : x.id = r
              · subst hid
                have ht := mstep_terminate x.id (emit s1 (.canc x.id)) x.id hp1
                have he : ∀ p, (getMQ (emit s1 (.canc x.id)) p) = getMQ s1 p := fun _ => rfl
                refine ⟨?_, fun p => ht.pub p, fun p => ht.mail p, ?_, ?_⟩
                · rw [ht.nerr]; simp [nerrC, emit, List.countP_append, nerrEv]
                · intro st hst
                  rw [rinfo_terminate] at hst; cases hst
                · have e1 : cancC x.id (terminate (emit s1 (.canc x.id)) x.id) = cancC x.id s1 + 1 := by
                    rw [cancC_terminate]; simp [cancC, emit, List.countP_append, cancEv]
                  have e2 : regs x.id (terminate (emit s1 (.canc x.id)) x.id) = regs x.id s1 := by
                    rw [regs_terminate]; simp [regs, emit, List.countP_append, regEv]
                  have e3 : rinfo x.id (terminate (emit s1 (.canc x.id)) x.id) = none := rinfo_terminate _ _
                  have e4 : (terminate (emit s1 (.canc x.id)) x.id).park = none := by
                    rw [park_terminate]; exact hp1
                  have e5 : parkErr x.id none = false := rfl
                  simp only [EP, e1, e2, e3, e4, hp1, e5, rinfo_lookup hl, hnet']
                  have : aliveW (some (x.state, false)) = 1 := by cases x.state <;> rfl
                  rw [this]
                  simp [aliveW]
              · exact (mstep_emit r s1 (.canc x.id) (by simpa [cancEv] using hid) rfl rfl).trans
                  (mstep_terminate r _ x.id hp1)
            · split
              · exact h1.trans (mstep_terminate r s1 x.id hp1)
              · exact h1.trans (mstep_setState r s1 x.id .completing hp1 (fun e _ => hsafe e))

theorem mstep_getUpdates (r : Id) (s : State) (w : Nat) : MStep r s (getUpdates s w) := by
  unfold getUpdates
  split
  · exact MStep.refl r s
  · split
    · split
      · exact mstep_setPhase r s w _
      · rename_i x hl
        exact mstep_after_modAux (mstep_setPhase r _ w _) (by intro _; rfl)
    · exact MStep.refl r s

-- ------------------------------------------------------------------ the parked manager continues
theorem mstepK_unpark (r : Id) (s : State) (pk : MgrPark) (hpk : s.park = some pk) :
    MStepK r s { s with park := none } (if parkErr r (some pk) then aliveW (rinfo r s) else 0)
      (PN r (some pk) + (if parkErr r (some pk) then 1 else 0)) := by
  refine ⟨rfl, fun _ => ⟨rfl, rfl⟩, fun _ => ⟨rfl, rfl⟩, fun st h => ⟨st, h⟩, ?_⟩
  have e1 : cancC r { s with park := none } = cancC r s := rfl
  have e2 : regs r { s with park := none } = regs r s := rfl
  have e3 : EP r { s with park := none } = aliveW (rinfo r s) := rfl
  have e4 : PN r ({ s with park := none } : State).park = 0 := rfl
  rw [e1, e2, e3, e4]
  simp only [EP, hpk]
  split <;> omega

theorem mstep_resumeMgr (r : Id) (s : State) (pk : MgrPark) (hpk : s.park = some pk) :
    MStep r s (resumeMgr s pk) := by
  unfold resumeMgr
  simp only
  have h1 := mstepK_unpark r s pk hpk
  have h2 := (mstep_buildNow r { s with park := none } .mgr pk.peer pk.id pk.ops).toK
  have hp1 : (buildNow { s with park := none } .mgr pk.peer pk.id pk.ops).park = none :=
    pcore_none_of_pi_eq (pi_buildNow _ _ _ _ _) rfl
  have ht1 : (buildNow { s with park := none } .mgr pk.peer pk.id pk.ops).table = s.table := table_buildNow _ _ _ _ _
  generalize buildNow { s with park := none } .mgr pk.peer pk.id pk.ops = s1 at h2 hp1 ht1
  have h12 := h1.trans h2
  obtain ⟨cont, peer, pid, ops, g⟩ := pk
  cases cont with
  | newReq p id cfg =>
    simp only
    refine (h12.trans (mstepK_newReqFinish r s1 p id cfg hp1)).close ?_
    simp only [parkErr, PN, Bool.false_eq_true, if_false]
    omega
  | procUpdate id plan =>
    simp only
    by_cases hc : (id == r && plan == UP.err) = true
    · -- the parked update-hook error of `r`: the response stays counted once
      have hid : id = r := by simp only [Bool.and_eq_true, beq_iff_eq] at hc; exact hc.1
      have hpl : plan = .err := by simp only [Bool.and_eq_true, beq_iff_eq] at hc; exact hc.2
      subst hid; subst hpl
      have h3 : MStepK id s1 (procUpdateFinish s1 id .err) 1 (aliveW (rinfo id s1)) := by
        unfold procUpdateFinish
        split
        · rename_i hl
          refine (MStep.refl id s1).toK.weaken ?_
          rw [rinfo_lookup_none hl]; simp [aliveW]
        · rename_i x hl
          have hxid : x.id = id := (lookup_some hl).2
          simp only [beq_self_eq_true, if_true]
          rw [hxid]
          refine ⟨rfl, fun _ => ⟨rfl, rfl⟩, fun _ => ⟨rfl, rfl⟩, ?_, ?_⟩
          · intro st hst
            rw [rinfo_setState] at hst
            simp only [if_true] at hst
            rw [rinfo_lookup hl] at hst ⊢
            simp only [Option.map_some, Option.some.injEq, Prod.mk.injEq] at hst
            exact ⟨x.state, by rw [hst.2]⟩
          · have e1 : cancC id (setState s1 id .completing) = cancC id s1 := rfl
            have e2 : regs id (setState s1 id .completing) = regs id s1 := rfl
            have e4 : (setState s1 id .completing).park = none := hp1
            have e5 : parkErr id none = false := rfl
            simp only [EP, e1, e2, e4, hp1, e5]
            have := aliveW_le_one (rinfo id (setState s1 id .completing))
            simp only [Bool.false_eq_true, if_false]
            omega
      refine (h12.trans h3).close ?_
      rw [rinfo_of_table ht1]
      simp only [parkErr, PN, beq_self_eq_true, Bool.and_self, if_true]
      omega
    · have hc' : (id == r && plan == UP.err) = false := by simpa using hc
      refine (h12.trans (mstep_procUpdateFinish r s1 id plan hp1 ?_).toK).close ?_
      · intro hid hpl
        subst hid; subst hpl
        simp at hc'
      · simp only [parkErr, PN, hc', Bool.false_eq_true, if_false]; omega
  | unpause id ext =>
    simp only
    refine (h12.trans ((mstep_unpauseFinish r s1 id).trans (mstep_emit r _ _ rfl rfl rfl)).toK).close ?_
    simp only [parkErr, PN, Bool.false_eq_true, if_false]; omega
  | update id ext =>
    simp only
    refine (h12.trans (mstep_emit r s1 _ rfl rfl rfl).toK).close ?_
    simp only [parkErr, PN, Bool.false_eq_true, if_false]; omega

end GS.RespLife
