import GSProofs.Lemmas.MsgQueueNotes5
/-!
# Message queue liveness, part 1: shapes of the builder list and of the work signal after each function
-/
namespace GS.MQ
open GS.Alloc

/-- some queued builder has content -/
def HasWork (bs : List Builder) : Prop := ∃ b ∈ bs, b.empty = false

/-- number of queued builders whose topic is at most `t` -/
def cnt (t : Nat) (bs : List Builder) : Nat := (bs.filter fun b => decide ((b.topic : Nat) ≤ t)).length

theorem cnt_nil (t : Nat) : cnt t [] = 0 := rfl

theorem cnt_cons (t : Nat) (b : Builder) (r : List Builder) :
    cnt t (b :: r) = (if (b.topic : Nat) ≤ t then 1 else 0) + cnt t r := by
  unfold cnt; rw [List.filter_cons]
  by_cases h : (b.topic : Nat) ≤ t <;> simp [h] <;> omega

theorem cnt_append (t : Nat) (a b : List Builder) : cnt t (a ++ b) = cnt t a + cnt t b := by
  unfold cnt; rw [List.filter_append, List.length_append]

/-! ## scrubbing -/

theorem scrub_empty {b : Builder} (reqs : List Req) (h : b.empty = true) : (b.scrub reqs).1.empty = true := by
  unfold Builder.empty at h ⊢
  simp only [Bool.and_eq_true, List.isEmpty_iff] at h ⊢
  obtain ⟨⟨h1, h2⟩, h3⟩ := h
  refine ⟨⟨h1, ?_⟩, ?_⟩
  · show savedBlocks b.blocks _ = []
    rw [h3]; simp [adel, savedBlocks]
  · show adel b.responses reqs = []
    rw [h3]; simp [adel]

theorem scrubAll_mem (reqs : List Req) : ∀ (bs : List Builder) (b' : Builder), b' ∈ (scrubAll reqs bs).1 →
    b'.empty = false ∧ ∃ b ∈ bs, b'.topic = b.topic ∧ b.empty = false
  | [], _, h => by simp [scrubAll] at h
  | b :: r, b', h => by
    simp only [scrubAll] at h
    by_cases he : (b.scrub reqs).1.empty = true
    · simp only [he, if_true] at h
      obtain ⟨h1, b0, hb0, h2⟩ := scrubAll_mem reqs r b' h
      exact ⟨h1, b0, List.mem_cons_of_mem _ hb0, h2⟩
    · simp only [he, Bool.false_eq_true, if_false] at h
      rcases List.mem_cons.mp h with rfl | h
      · refine ⟨by simpa using he, b, by simp, rfl, ?_⟩
        cases hb : b.empty with
        | false => rfl
        | true => exact absurd (scrub_empty reqs hb) he
      · obtain ⟨h1, b0, hb0, h2⟩ := scrubAll_mem reqs r b' h
        exact ⟨h1, b0, List.mem_cons_of_mem _ hb0, h2⟩

theorem cnt_sublist (t : Nat) {a b : List Builder} (h : (topicsOf a).Sublist (topicsOf b)) : cnt t a ≤ cnt t b := by
  have e : ∀ l : List Builder, cnt t l = ((topicsOf l).filter fun x => decide (x ≤ t)).length := by
    intro l
    induction l with
    | nil => rfl
    | cons x r ih =>
      rw [cnt_cons, topicsOf_cons, List.filter_cons, ih]
      by_cases hx : (x.topic : Nat) ≤ t <;> simp [hx] <;> omega
  rw [e, e]
  exact (h.filter _).length_le

end GS.MQ
