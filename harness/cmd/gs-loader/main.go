package main

import (
	_ "verifharness/loader"
	"verifharness/reg"
)

func main() { reg.Main("loader") }
