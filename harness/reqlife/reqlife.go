// Package reqlife drives the real requestmanager.RequestManager (+ real executor, real reconciled
// loader, real WorkerTaskQueue with one worker) through *schedule scripts* (component "reqlife",
// property C04).
//
// Every script op is ONE stimulus applied at a globally quiescent point; afterwards the harness waits
// for the next globally quiescent point (all goroutines blocked -- decided from a stop-the-world
// runtime.Stack snapshot, no sleeps) and prints what became observable.  Control points ("gates"):
//
//	work   the worker, after popping the task, before executor.ExecuteTask           (request still Queued)
//	read   the executor inside LinkSystem.StorageReadOpener                           (running, local load)
//	hook   the executor inside the block hook                                         (running, after a block)
//	send   the executor inside PeerHandler.AllocateAndBuildMessage                    (request / cancel message)
//	rhook  the manager goroutine inside the response hook                             (manager held mid-message)
//	rp,re  the caller not reading the progress / error channel                        (collector held)
//
// Observables: events on the two returned channels (progress count, error kinds, close), the outbox
// (message type > target peer), API results, network-error listener calls, PeerState, ConnManager
// protection.  The independent oracle (property text of C04) is at the bottom of runCase.
package reqlife

import (
	"bufio"
	"bytes"
	"context"
	"errors"
	"fmt"
	"io"
	"math"
	"os"
	"os/exec"
	"regexp"
	"runtime"
	"sort"
	"strconv"
	"strings"
	"sync"
	"time"

	"github.com/ipfs/go-cid"
	"github.com/ipfs/go-peertaskqueue/peertask"
	"github.com/ipld/go-ipld-prime"
	"github.com/ipld/go-ipld-prime/datamodel"
	"github.com/ipld/go-ipld-prime/fluent/qp"
	"github.com/ipld/go-ipld-prime/linking"
	cidlink "github.com/ipld/go-ipld-prime/linking/cid"
	"github.com/ipld/go-ipld-prime/node/basicnode"
	"github.com/ipld/go-ipld-prime/traversal"
	"github.com/ipld/go-ipld-prime/traversal/selector"
	selectorparse "github.com/ipld/go-ipld-prime/traversal/selector/parse"
	"github.com/libp2p/go-libp2p/core/peer"

	blocks "github.com/ipfs/go-block-format"
	"github.com/ipfs/go-graphsync"
	"github.com/ipfs/go-graphsync/listeners"
	gsmsg "github.com/ipfs/go-graphsync/message"
	"github.com/ipfs/go-graphsync/messagequeue"
	"github.com/ipfs/go-graphsync/notifications"
	"github.com/ipfs/go-graphsync/peerstate"
	"github.com/ipfs/go-graphsync/persistenceoptions"
	"github.com/ipfs/go-graphsync/requestmanager"
	"github.com/ipfs/go-graphsync/requestmanager/executor"
	"github.com/ipfs/go-graphsync/requestmanager/hooks"
	"github.com/ipfs/go-graphsync/taskqueue"

	"verifharness/reg"
)

func init() {
	reg.Register(&reg.Component{Name: "reqlife", Gen: Gen, Run: Run})
	reg.Register(&reg.Component{Name: "reqlife-soak", Gen: GenSoak, Run: Run})
}

// ---------------------------------------------------------------- chain DAGs

type chain struct {
	cids []cid.Cid
	data [][]byte
}

var chainCache = map[[2]int]*chain{}

var linkProto = cidlink.LinkPrototype{Prefix: cid.Prefix{Version: 1, Codec: 0x71, MhType: 0x12, MhLength: 32}}

// buildChain: n blocks; block j is a dag-cbor map with v-1 scalar fields ("a".."e", sorted before
// "next" by the canonical map order) and, except for the last block, a link "next" to block j+1.
func buildChain(n, v int) *chain {
	key := [2]int{n, v}
	if c, ok := chainCache[key]; ok {
		return c
	}
	c := &chain{cids: make([]cid.Cid, n), data: make([][]byte, n)}
	store := map[string][]byte{}
	ls := cidlink.DefaultLinkSystem()
	ls.StorageWriteOpener = func(linking.LinkContext) (io.Writer, linking.BlockWriteCommitter, error) {
		var buf bytes.Buffer
		return &buf, func(l datamodel.Link) error { store[l.(cidlink.Link).Cid.KeyString()] = buf.Bytes(); return nil }, nil
	}
	var next datamodel.Link
	for j := n - 1; j >= 0; j-- {
		nd, err := qp.BuildMap(basicnode.Prototype.Any, -1, func(ma datamodel.MapAssembler) {
			for f := 0; f < v-1; f++ {
				qp.MapEntry(ma, string(rune('a'+f)), qp.Int(int64(1000*n+100*j+f)))
			}
			if next != nil {
				qp.MapEntry(ma, "next", qp.Link(next))
			}
		})
		if err != nil {
			panic(err)
		}
		l, err := ls.Store(linking.LinkContext{}, linkProto, nd)
		if err != nil {
			panic(err)
		}
		c.cids[j] = l.(cidlink.Link).Cid
		c.data[j] = store[c.cids[j].KeyString()]
		next = l
	}
	chainCache[key] = c
	return c
}

// referenceVisits: independent check of the harness' own assumption "v visits per block, all of them
// before the next link load" with a plain go-ipld-prime traversal over a complete store.
func referenceVisits(c *chain) (perBlock []int, ok bool) {
	ls := cidlink.DefaultLinkSystem()
	idx := map[string]int{}
	for i, k := range c.cids {
		idx[k.KeyString()] = i
	}
	cur := -1
	ok = true
	perBlock = make([]int, len(c.cids))
	ls.StorageReadOpener = func(_ linking.LinkContext, l datamodel.Link) (io.Reader, error) {
		i := idx[l.(cidlink.Link).Cid.KeyString()]
		if i != cur+1 {
			ok = false
		}
		cur = i
		return bytes.NewReader(c.data[i]), nil
	}
	ls.TrustedStorage = true
	root, err := ls.Load(linking.LinkContext{}, cidlink.Link{Cid: c.cids[0]}, basicnode.Prototype.Any)
	if err != nil {
		return nil, false
	}
	sel, err := selector.ParseSelector(selectorparse.CommonSelector_ExploreAllRecursively)
	if err != nil {
		return nil, false
	}
	err = traversal.Progress{Cfg: &traversal.Config{LinkSystem: ls, LinkTargetNodePrototypeChooser: func(datamodel.Link, linking.LinkContext) (datamodel.NodePrototype, error) {
		return basicnode.Prototype.Any, nil
	}}}.WalkAdv(root, sel, func(traversal.Progress, datamodel.Node, traversal.VisitReason) error {
		perBlock[cur]++
		return nil
	})
	return perBlock, ok && err == nil
}

// ---------------------------------------------------------------- world (one per case)

var errHook = errors.New("verif hook error")

const hookExt = graphsync.ExtensionName("verif/hook-result")

type parked struct{ ch chan string }

type world struct {
	mu       sync.Mutex
	dead     chan struct{}
	gateOn   map[string]bool
	parkedAt map[string][]*parked
	// events since last flush
	pCount   int
	pClosed  bool
	eEvents  []string
	eClosed  bool
	outbox   []string
	api      []string
	neterr   int
	// totals
	pTotal   int
	eAll     []string
	outAll   []string
	pIsClosed, eIsClosed bool
	afterClose           int
	// reader holds
	holdCh map[string]chan struct{}
	// responder bookkeeping
	spos       int      // next item of the current stream
	lastSub    notifications.Subscriber
	lastSubReq gsmsg.GraphSyncRequest
	workerGoid int64
	prot       map[string]bool
	writes     int
	owed       bool // a New request message left after the last own-peer terminal status
	reqCount   int  // New request messages that reached the network
	workerHasOurs bool // the worker is between PopTasks and the manager's answer to GetRequestTask for OUR task
}

func newWorld() *world {
	return &world{
		dead:     make(chan struct{}),
		gateOn:   map[string]bool{"work": true, "read": true, "hook": true, "send": true, "rhook": false, "rp": false, "re": false},
		parkedAt: map[string][]*parked{},
		holdCh:   map[string]chan struct{}{"rp": make(chan struct{}), "re": make(chan struct{})},
		prot:     map[string]bool{},
	}
}

// arrive parks the calling goroutine at gate g if the gate is on; returns the release value.
func (w *world) arrive(g string) string {
	w.mu.Lock()
	if !w.gateOn[g] {
		w.mu.Unlock()
		return "ok"
	}
	p := &parked{ch: make(chan string, 1)}
	w.parkedAt[g] = append(w.parkedAt[g], p)
	w.mu.Unlock()
	select {
	case v := <-p.ch:
		return v
	case <-w.dead:
		return "ok"
	}
}

func (w *world) release(g, val string) bool {
	w.mu.Lock()
	defer w.mu.Unlock()
	ps := w.parkedAt[g]
	if len(ps) == 0 {
		return false
	}
	w.parkedAt[g] = ps[1:]
	ps[0].ch <- val
	return true
}

func (w *world) setGate(g string, on bool) {
	w.mu.Lock()
	w.gateOn[g] = on
	var rel []*parked
	if !on {
		rel = w.parkedAt[g]
		w.parkedAt[g] = nil
	}
	if g == "rp" || g == "re" {
		close(w.holdCh[g])
		w.holdCh[g] = make(chan struct{})
	}
	w.mu.Unlock()
	for _, p := range rel {
		p.ch <- "ok"
	}
}

func (w *world) parkedGates() string {
	w.mu.Lock()
	defer w.mu.Unlock()
	var gs []string
	for _, g := range []string{"work", "read", "hook", "send", "rhook"} {
		if len(w.parkedAt[g]) > 0 {
			gs = append(gs, g)
		}
	}
	return strings.Join(gs, ",")
}

func (w *world) isParked(g string) bool {
	w.mu.Lock()
	defer w.mu.Unlock()
	return len(w.parkedAt[g]) > 0
}

// ---- fakes

type connMgr struct{ w *world }

func (c connMgr) Protect(p peer.ID, tag string) {
	c.w.mu.Lock()
	c.w.prot[string(p)+"/"+tag] = true
	c.w.mu.Unlock()
}
func (c connMgr) Unprotect(p peer.ID, tag string) bool {
	c.w.mu.Lock()
	defer c.w.mu.Unlock()
	k := string(p) + "/" + tag
	had := c.w.prot[k]
	delete(c.w.prot, k)
	return had
}

type reqHooks struct{}

func (reqHooks) ProcessRequestHooks(peer.ID, graphsync.RequestData) hooks.RequestResult {
	return hooks.RequestResult{}
}

type respHooks struct{ w *world }

func (r respHooks) ProcessResponseHooks(p peer.ID, resp graphsync.ResponseData) hooks.UpdateResult {
	r.w.arrive("rhook")
	// the scripted result of this hook invocation travels with the response itself (an extension), so it
	// does not depend on which responses the manager filters out before running the hooks
	if nd, ok := resp.Extension(hookExt); ok {
		if v, err := nd.AsString(); err == nil && v == "err" {
			return hooks.UpdateResult{Err: errHook}
		}
	}
	return hooks.UpdateResult{}
}

type blockHooks struct{ w *world }

func (b blockHooks) ProcessBlockHooks(p peer.ID, resp graphsync.ResponseData, blk graphsync.BlockData) hooks.UpdateResult {
	switch b.w.arrive("hook") {
	case "err":
		return hooks.UpdateResult{Err: errHook}
	case "hp":
		return hooks.UpdateResult{Err: hooks.ErrPaused{}}
	}
	return hooks.UpdateResult{}
}

func goid() int64 {
	var buf [64]byte
	n := runtime.Stack(buf[:], false)
	f := strings.Fields(string(buf[:n]))
	if len(f) < 2 {
		return -1
	}
	id, _ := strconv.ParseInt(f[1], 10, 64)
	return id
}

type peerHandler struct{ w *world }

func (ph peerHandler) AllocateAndBuildMessage(p peer.ID, blkSize uint64, fn func(*messagequeue.Builder)) {
	b := messagequeue.NewBuilder(context.Background(), messagequeue.Topic(0))
	fn(b)
	msg, err := b.Build()
	if err != nil {
		panic(err)
	}
	ph.w.mu.Lock()
	isWorker := goid() == ph.w.workerGoid
	for _, r := range msg.Requests() {
		if r.Type() == graphsync.RequestTypeNew {
			// the executor has just switched its loader online: from now on an honest responder's stream
			// for this (re-)issued request starts over at the first block
			ph.w.spos = 0
		}
	}
	ph.w.mu.Unlock()
	if isWorker {
		ph.w.arrive("send")
	}
	ph.w.mu.Lock()
	for _, r := range msg.Requests() {
		kind := "?"
		switch r.Type() {
		case graphsync.RequestTypeNew:
			kind = "req"
			ph.w.owed = true
			ph.w.reqCount++
		case graphsync.RequestTypeCancel:
			kind = "cancel"
		case graphsync.RequestTypeUpdate:
			kind = "update"
		}
		s := kind + ">" + peerName(p)
		ph.w.outbox = append(ph.w.outbox, s)
		ph.w.outAll = append(ph.w.outAll, s)
		if sub, ok := b.Subscribers()[r.ID()]; ok {
			ph.w.lastSub = sub
			ph.w.lastSubReq = r
		}
	}
	ph.w.mu.Unlock()
}

func peerID(i int) peer.ID { return peer.ID(fmt.Sprintf("peer%d", i)) }
func peerName(p peer.ID) string {
	s := string(p)
	if strings.HasPrefix(s, "peer") {
		return s[4:]
	}
	return "?"
}

type gatedExec struct {
	w     *world
	ex    *executor.Executor
	tq    *taskqueue.WorkerTaskQueue
	dummy graphsync.RequestID
}

func (g gatedExec) ExecuteTask(ctx context.Context, pid peer.ID, task *peertask.Task) bool {
	isDummy := task.Topic == peertask.Topic(g.dummy)
	g.w.mu.Lock()
	g.w.workerGoid = goid()
	g.w.workerHasOurs = !isDummy
	g.w.mu.Unlock()
	g.w.arrive("work")
	g.w.mu.Lock()
	g.w.workerHasOurs = false
	g.w.mu.Unlock()
	if isDummy {
		// the "other request" that keeps the only worker busy: it never reaches the request manager
		g.tq.TaskDone(pid, task)
		return false
	}
	return g.ex.ExecuteTask(ctx, pid, task)
}

func errKind(err error) string {
	var inc graphsync.RemoteIncorrectResponseError
	var mis graphsync.RemoteMissingBlockErr
	switch {
	case err == nil:
		return "nil"
	case errors.As(err, new(graphsync.RequestClientCancelledErr)):
		return "cc"
	case errors.As(err, new(graphsync.RequestFailedBusyErr)):
		return "busy"
	case errors.As(err, new(graphsync.RequestFailedContentNotFoundErr)):
		return "notfound"
	case errors.As(err, new(graphsync.RequestFailedLegalErr)):
		return "legal"
	case errors.As(err, new(graphsync.RequestFailedUnknownErr)):
		return "unknown"
	case errors.As(err, new(graphsync.RequestCancelledErr)):
		return "rcancelled"
	case errors.As(err, &mis):
		return "missing"
	case errors.As(err, &inc):
		return "incorrect"
	case errors.Is(err, errHook):
		return "hook"
	case errors.As(err, new(hooks.ErrPaused)):
		return "paused"
	case errors.As(err, new(graphsync.RequestNotFoundErr)):
		return "notfound-req"
	}
	if m := genericRe.FindStringSubmatch(err.Error()); m != nil {
		return "generic" + m[1]
	}
	return "other"
}

var genericRe = regexp.MustCompile(`unknown response status code: (\d+)`)

// ---------------------------------------------------------------- quiescence

var blockedStates = map[string]bool{
	"chan receive": true, "chan send": true, "select": true, "select (no cases)": true,
	"sync.Cond.Wait": true, "sync.Mutex.Lock": true, "sync.RWMutex.Lock": true, "sync.RWMutex.RLock": true,
	"semacquire": true, "sync.WaitGroup.Wait": true, "IO wait": true, "sleep": true,
	"chan receive (nil chan)": true, "chan send (nil chan)": true, "GC assist wait": false,
	"finalizer wait": true, "syscall": true, "sync.Cond.Wait (synctest)": true,
}

var stackBuf = make([]byte, 4<<20)

// allBlocked: every goroutine except the caller is waiting (consistent: runtime.Stack(all) stops the world).
func allBlocked() (bool, string) {
	n := runtime.Stack(stackBuf, true)
	first := true
	for _, line := range bytes.Split(stackBuf[:n], []byte("\n")) {
		if !bytes.HasPrefix(line, []byte("goroutine ")) || !bytes.HasSuffix(line, []byte("]:")) {
			continue
		}
		if first { // the caller itself
			first = false
			continue
		}
		i := bytes.IndexByte(line, '[')
		st := string(line[i+1 : len(line)-2])
		if j := strings.IndexByte(st, ','); j >= 0 {
			st = st[:j]
		}
		if !blockedStates[st] {
			return false, st
		}
	}
	return true, ""
}

var quiesceLimit = 20 * time.Second

// quiesce waits until the whole process is quiescent: nothing can move without a new stimulus
// (or a timer: the task queue's thaw ticker only makes an idle worker re-poll an empty queue).
func quiesce() bool {
	deadline := time.Now().Add(quiesceLimit)
	ok := 0
	for i := 0; ; i++ {
		runtime.Gosched()
		if b, _ := allBlocked(); b {
			ok++
			if ok >= 2 {
				return true
			}
			continue
		}
		ok = 0
		if i%64 == 63 {
			if time.Now().After(deadline) {
				return false
			}
			time.Sleep(50 * time.Microsecond) // only yields the CPU; the verdict is the snapshot, not the delay
		}
	}
}

// ---------------------------------------------------------------- one case

type caseRun struct {
	w        *world
	out      *reg.Out
	rm       *requestmanager.RequestManager
	tq       *taskqueue.WorkerTaskQueue
	cancel   context.CancelFunc
	reqID    graphsync.RequestID
	reqCtxCancel context.CancelFunc
	ch       *chain
	n, k, v  int
	store    map[string][]byte
	created  bool
	baseline int

	// oracle bookkeeping (from what the harness itself injected / observed; independent of the Lean model)
	ctxCancelled       bool
	ctxCancelWhileOpen bool // error channel not yet closed when the caller context was cancelled
	ctxCancelLive      bool // manager still had the request when the caller context was cancelled
	cancelIssued       bool // the script cancelled (context or API) -- `end` then must not resume a paused request
	apiCancels         int  // CancelRequest calls issued
	apiCancelNoCause   bool // the first CancelRequest was issued before anything else gave the request a terminal error
	apiResults         map[int]string
	terminalCause      bool // something already gave the request a terminal error / cancelled its context
	failStatus         int  // first own-peer failure status injected while live and before any other terminal cause
	failStatusDup      bool
	termSent           bool // own peer sent a terminal status (hook ok)
	lastTermStatus     int
	hookErrInjected    bool
	pauseSeen          bool // the script issued a pause (API or block hook)
	mgrStuck           bool // the manager goroutine did not answer a PeerState query at a quiescent point
	busy               bool // `new ... 1`: a dummy task keeps the single worker busy ahead of the request
	dummyID            graphsync.RequestID
	c23Checks          int
	cancelFam          bool // the script issued a stimulus that cancels the request context (cancel, failure status, response-hook error)
	quiesceFailed      bool
}

func (cr *caseRun) startReaders(pch <-chan graphsync.ResponseProgress, ech <-chan error) {
	w := cr.w
	reader := func(g string) {
		for {
			w.mu.Lock()
			held := w.gateOn[g]
			hc := w.holdCh[g]
			w.mu.Unlock()
			if held {
				select {
				case <-hc:
					continue
				case <-w.dead:
					return
				}
			}
			// receive one value, unless the hold changes first
			s, ok, got := cr.recvOne(g, pch, ech, hc)
			if !got {
				select {
				case <-w.dead:
					return
				default:
				}
				continue
			}
			w.mu.Lock()
			if g == "rp" {
				if w.pIsClosed {
					w.afterClose++
				}
				if ok {
					w.pCount++
					w.pTotal++
				} else {
					w.pClosed = true
					w.pIsClosed = true
				}
			} else {
				if w.eIsClosed {
					w.afterClose++
				}
				if ok {
					w.eEvents = append(w.eEvents, s)
					w.eAll = append(w.eAll, s)
				} else {
					w.eClosed = true
					w.eIsClosed = true
				}
			}
			w.mu.Unlock()
			if !ok {
				// keep watching the closed channel: anything other than "closed" now is an after-close delivery
				for i := 0; i < 2; i++ {
					_, ok2, got2 := cr.recvOne(g, pch, ech, nil)
					if got2 && ok2 {
						w.mu.Lock()
						w.afterClose++
						w.mu.Unlock()
					}
				}
				return
			}
		}
	}
	go reader("rp")
	go reader("re")
}

func (cr *caseRun) recvOne(g string, pch <-chan graphsync.ResponseProgress, ech <-chan error, hc chan struct{}) (string, bool, bool) {
	if g == "rp" {
		select {
		case _, ok := <-pch:
			return "", ok, true
		case <-hc:
			return "", false, false
		case <-cr.w.dead:
			return "", false, false
		}
	}
	select {
	case e, ok := <-ech:
		if !ok {
			return "", false, true
		}
		return errKind(e), true, true
	case <-hc:
		return "", false, false
	case <-cr.w.dead:
		return "", false, false
	}
}

// flush prints the observation line for the stimulus just applied.
func (cr *caseRun) obs(extra string) {
	if !quiesce() {
		cr.quiesceFailed = true
	}
	cr.c23Barrier()
	w := cr.w
	w.mu.Lock()
	p := strconv.Itoa(w.pCount)
	if w.pClosed {
		p += "c"
	}
	evs := w.eEvents
	if cr.cancelFam {
		// once the script has cancelled the request (or made it fail), the executor's final traversal error
		// races with the cancelled request context in ExecuteTask's last `select`: not compared
		evs = nil
		for _, k := range w.eEvents {
			if k != "other" {
				evs = append(evs, k)
			}
		}
	}
	e := strings.Join(evs, ",")
	if w.eClosed {
		e += "c"
	}
	o := strings.Join(w.outbox, ",")
	sort.Strings(w.api)
	a := strings.Join(w.api, ",")
	ne := w.neterr
	w.pCount, w.pClosed, w.eEvents, w.eClosed, w.outbox, w.api, w.neterr = 0, false, nil, false, nil, nil, 0
	w.mu.Unlock()
	line := fmt.Sprintf("P:%s E:%s O:%s A:%s N:%d G:%s", p, e, o, a, ne, w.parkedGates())
	if extra != "" {
		line += " " + extra
	}
	cr.out.Line("%s", line)
}

func (cr *caseRun) apiResult(name string, err error) {
	r := "ok"
	if err != nil {
		switch {
		case errors.As(err, new(graphsync.RequestNotFoundErr)):
			r = "notfound"
		case strings.Contains(err.Error(), "not paused"):
			r = "notpaused"
		case strings.Contains(err.Error(), "already paused"):
			r = "alreadypaused"
		default:
			r = "err"
		}
	}
	cr.w.mu.Lock()
	cr.w.api = append(cr.w.api, name+"="+r)
	cr.w.mu.Unlock()
}

// c23Barrier: property C23, requestor side, at a quiescent barrier, from public APIs only
// (RequestManager.PeerState, PeerState.Diagnostics): a Queued request is pending in the task queue, a
// Running one active, a Paused one in neither, and a queue entry of the request matches its state.
// Not judged: while the manager is held inside a hook, and while the worker sits between PopTasks and the
// manager's answer to GetRequestTask for this request (a transient the harness' `work` gate freezes, not a
// resting state of the node).  Queue entries WITHOUT tracked state (the stale task of a request that ended
// while queued, until a worker pops it; the dummy task) are not a request's reported state: counted only.
func (cr *caseRun) c23Barrier() {
	if !cr.created || cr.mgrStuck || cr.w.isParked("rhook") {
		return
	}
	cr.w.mu.Lock()
	transient := cr.w.workerHasOurs
	cr.w.mu.Unlock()
	if transient {
		cr.out.Cov("c23.skip-transient")
		return
	}
	pch := make(chan peerstate.PeerState, 1)
	go func() { pch <- cr.rm.PeerState(peerID(0)) }()
	quiesce()
	var ps peerstate.PeerState
	select {
	case ps = <-pch:
	default:
		cr.mgrStuck = true
		return
	}
	cr.c23Checks++
	act, pend := 0, 0
	for _, id := range ps.TaskQueueState.Active {
		if id == cr.reqID {
			act++
		}
	}
	for _, id := range ps.TaskQueueState.Pending {
		if id == cr.reqID {
			pend++
		}
	}
	st, tracked := ps.RequestStates[cr.reqID]
	for id, msgs := range ps.Diagnostics() {
		if id == cr.reqID && tracked {
			cr.out.Fail("c23-req-diagnostics", "PeerState.Diagnostics at a quiescent barrier: %s", strings.Join(msgs, "; "))
		} else if id != cr.dummyID {
			cr.out.Cov("c23.stale-entry-untracked")
		}
	}
	if tracked {
		cr.out.Cov("c23.barrier." + st.String())
		ok := true
		switch st {
		case graphsync.Queued:
			ok = pend == 1 && act == 0
		case graphsync.Running:
			ok = act == 1 && pend == 0
		case graphsync.Paused:
			ok = act == 0 && pend == 0
		}
		if !ok {
			cr.out.Fail("c23-req-diagnostics", "request reported %s but its task is %d times active, %d times pending in the queue", st, act, pend)
		}
	} else {
		cr.out.Cov("c23.barrier.untracked")
		// the request has ENDED (both returned channels closed, nothing tracked) and the node rests, yet its
		// task is still pending: the literal property sentence ("once all requests have ended the statistics
		// report no ... pending requests") does not hold in this state (known finding; Lean
		// GS.C23.req_agree_stale_counterexample)
		cr.w.mu.Lock()
		ended := cr.w.pIsClosed && cr.w.eIsClosed
		cr.w.mu.Unlock()
		if ended && pend > 0 {
			cr.out.Cov("c23.stale-pending-after-end")
			cr.out.Fail("stale-pending-after-cancel", "the request has ended (both returned channels closed, no request state reported) and the node is quiescent, but its task is still listed %d time(s) as pending in the request queue (PeerState / Stats) until a worker pops it and drops it", pend)
		}
	}
}

// c23Final: once the request has ended and the node is at rest, the task queue reports no active and no
// pending work (Stats and PeerState).
func (cr *caseRun) c23Final(ended bool) {
	if !ended || cr.mgrStuck || cr.w.parkedGates() != "" {
		return
	}
	quiesce()
	st := cr.tq.Stats()
	ps, _ := cr.peerStateRaw()
	cr.out.Cov("c23.final-checked")
	if st.Active != 0 || st.Pending != 0 || len(ps.TaskQueueState.Active) != 0 || len(ps.TaskQueueState.Pending) != 0 || len(ps.RequestStates) != 0 {
		cr.out.Fail("c23-req-final", "all requests have ended and the node is quiescent, but Stats report active=%d pending=%d, PeerState lists %d active / %d pending tasks and %d request states",
			st.Active, st.Pending, len(ps.TaskQueueState.Active), len(ps.TaskQueueState.Pending), len(ps.RequestStates))
	}
}

func (cr *caseRun) peerStateRaw() (peerstate.PeerState, bool) {
	pch := make(chan peerstate.PeerState, 1)
	go func() { pch <- cr.rm.PeerState(peerID(0)) }()
	quiesce()
	select {
	case ps := <-pch:
		return ps, true
	default:
		cr.mgrStuck = true
		return peerstate.PeerState{}, false
	}
}

// peerStateStr: synchronous query through the manager's mailbox; "-" if the manager is parked.
func (cr *caseRun) peerStateStr() (string, string) {
	if cr.rm == nil {
		return "ps:none a=0 p=0", "none"
	}
	if cr.w.isParked("rhook") {
		return "ps:-", "-"
	}
	if cr.mgrStuck {
		return "ps:stuck", "stuck"
	}
	// PeerState goes through the manager's mailbox: ask asynchronously and wait for quiescence, so that a
	// manager goroutine that is blocked for good (a deadlock of the real code) does not hang the harness
	pch := make(chan peerstate.PeerState, 1)
	go func() { pch <- cr.rm.PeerState(peerID(0)) }()
	if !quiesce() {
		cr.quiesceFailed = true
	}
	var ps peerstate.PeerState
	select {
	case ps = <-pch:
	default:
		cr.mgrStuck = true
		return "ps:stuck", "stuck"
	}
	st := "none"
	if s, ok := ps.RequestStates[cr.reqID]; ok {
		st = s.String()
	}
	a, p := 0, 0
	for _, id := range ps.TaskQueueState.Active {
		if id == cr.reqID {
			a++
		}
	}
	for _, id := range ps.TaskQueueState.Pending {
		if id == cr.reqID {
			p++
		}
	}
	return fmt.Sprintf("ps:%s a=%d p=%d", st, a, p), st
}

func (cr *caseRun) live() (known bool, live bool) {
	_, st := cr.peerStateStr()
	if st == "-" || st == "stuck" {
		return false, false
	}
	return true, st != "none"
}

// covPoint records at which life-cycle point (request state as the manager reports it / gate the executor
// is parked at / manager held) a stimulus is injected.
func (cr *caseRun) covPoint(what string) {
	_, st := cr.peerStateStr()
	g := cr.w.parkedGates()
	if st == "-" {
		st = "mgr-held"
	}
	if g == "" {
		g = "free"
	}
	cr.out.Cov("point." + what + "@" + st + "/" + g)
}

func atoi(s string) int { n, _ := strconv.Atoi(s); return n }

func isFailure(c int) bool  { return c >= 30 && c <= 35 }
func isSuccessC(c int) bool { return c == 20 || c == 21 }

func (cr *caseRun) sendResp(pr, status, items int, hk string, skip int) {
	w := cr.w
	w.mu.Lock()
	// an honest responder sends blocks only for a request it has received; and (to keep the script
	// deterministic) no blocks travel while the manager is held once a pause made a re-request possible:
	// such in-flight blocks would belong to the previous incarnation of the request
	if w.reqCount == 0 || (w.gateOn["rhook"] && cr.pauseSeen) {
		items = 0
	}
	lo := w.spos + skip
	if lo > cr.n {
		lo = cr.n
	}
	hi := lo + items
	if hi > cr.n {
		hi = cr.n
	}
	if pr == 0 {
		w.spos = hi
	}
	w.mu.Unlock()
	var md []gsmsg.GraphSyncLinkMetadatum
	var blks []blocks.Block
	for j := lo; j < hi; j++ {
		md = append(md, gsmsg.GraphSyncLinkMetadatum{Link: cr.ch.cids[j], Action: graphsync.LinkActionPresent})
		b, _ := blocks.NewBlockWithCid(cr.ch.data[j], cr.ch.cids[j])
		blks = append(blks, b)
	}
	var exts []graphsync.ExtensionData
	if hk == "err" {
		exts = append(exts, graphsync.ExtensionData{Name: hookExt, Data: basicnode.NewString("err")})
	}
	cr.rm.ProcessResponses(peerID(pr), []gsmsg.GraphSyncResponse{gsmsg.NewResponse(cr.reqID, graphsync.ResponseStatusCode(status), md, exts...)}, blks)
}

func runCase(c reg.Case, out *reg.Out) {
	cr := &caseRun{w: newWorld(), out: out}
	w := cr.w
	cr.baseline = runtime.NumGoroutine()
	defer cr.teardown()
	for _, op := range c.Ops {
		out.Cov("op." + op[0])
		switch op[0] {
		case "new":
			if cr.created || len(op) < 4 {
				out.Line("bad-op")
				continue
			}
			cr.n, cr.k, cr.v = atoi(op[1]), atoi(op[2]), atoi(op[3])
			if cr.n < 1 || cr.n > 8 || cr.k < 0 || cr.k > cr.n || cr.v < 1 || cr.v > 6 {
				out.Line("bad-op")
				continue
			}
			cr.busy = len(op) > 4 && op[4] == "1"
			if cr.busy {
				out.Cov("new.busy-worker")
			}
			cr.setup()
			out.Cov(fmt.Sprintf("new.local=%s", map[bool]string{true: "all", false: "partial"}[cr.k == cr.n]))
			cr.obs("")
		case "gate":
			if len(op) < 3 {
				out.Line("bad-op")
				continue
			}
			if _, ok := w.gateOn[op[1]]; !ok {
				out.Line("bad-op")
				continue
			}
			w.setGate(op[1], op[2] == "1")
			cr.obs("")
		case "step":
			if len(op) < 2 {
				out.Line("bad-op")
				continue
			}
			val := "ok"
			if len(op) > 2 {
				val = op[2]
			}
			if val == "hp" {
				cr.pauseSeen = true
			}
			if op[1] == "hook" && val == "err" && w.isParked("hook") {
				cr.hookErrInjected = true
			}
			if !w.release(op[1], val) {
				out.Cov("step.none")
				cr.obs("none")
				continue
			}
			out.Cov("step." + op[1] + "." + val)
			cr.obs("")
		case "adv":
			// release the executor from whichever gate it is parked at (at most one)
			val := "ok"
			if len(op) > 1 {
				val = op[1]
			}
			if val == "hp" {
				cr.pauseSeen = true
			}
			done := false
			for _, g := range []string{"work", "read", "hook", "send"} {
				v := "ok"
				if g == "hook" {
					v = val
					if val == "err" && w.isParked("hook") {
						cr.hookErrInjected = true
					}
				}
				if w.release(g, v) {
					out.Cov("adv." + g + "." + v)
					done = true
					break
				}
			}
			if !done {
				out.Cov("adv.none")
				cr.obs("none")
				continue
			}
			cr.obs("")
		case "resp", "respx":
			if !cr.created || len(op) < 5 {
				out.Line("bad-op")
				continue
			}
			pr, status, items, hk := atoi(op[1]), atoi(op[2]), atoi(op[3]), op[4]
			if isFailure(status) || hk == "err" {
				cr.cancelFam = true
			}
			// oracle bookkeeping before the stimulus
			if pr == 0 && hk == "ok" && (isFailure(status) || isSuccessC(status)) {
				cr.termSent, cr.lastTermStatus = true, status
				w.mu.Lock()
				w.owed = false
				w.mu.Unlock()
			}
			if known, live := cr.live(); known && live {
				if pr == 0 && hk == "ok" && isFailure(status) {
					if !cr.terminalCause && cr.failStatus == 0 {
						cr.failStatus = status
					}
					cr.terminalCause = true
				}
				if hk == "err" {
					cr.terminalCause = true
				}
			} else if !known {
				// manager parked: we cannot tell whether the request is still live when this is processed
				if (pr == 0 && isFailure(status)) || hk == "err" {
					cr.terminalCause = true
				}
			}
			out.Cov(fmt.Sprintf("resp.peer%d.%s.%s", pr, statusClass(status), hk))
			if pr == 0 && (isFailure(status) || isSuccessC(status)) {
				cr.covPoint("terminal-" + statusClass(status))
			}
			skip := 0
			if op[0] == "respx" {
				skip = 1 // the stream leaves out one item
			}
			cr.sendResp(pr, status, items, hk, skip)
			cr.obs("")
		case "cancelctx":
			if !cr.created {
				out.Line("bad-op")
				continue
			}
			cr.cancelIssued = true
			cr.cancelFam = true
			cr.covPoint("cancelctx")
			if !cr.ctxCancelled {
				cr.ctxCancelled = true
				// "cancelled while the request is still open": judged by the manager still tracking the request
				// (then inProgressErr cannot be closed yet).  Whether the harness' own reader has already SEEN
				// a close is no criterion: a held reader has not, although the collector finished long ago.
				if known, live := cr.live(); known && live {
					cr.ctxCancelLive = true
					cr.ctxCancelWhileOpen = true
				}
			}
			cr.reqCtxCancel()
			cr.obs("")
		case "cancelapi":
			if !cr.created {
				out.Line("bad-op")
				continue
			}
			cr.cancelIssued = true
			cr.cancelFam = true
			cr.covPoint("cancelapi")
			if cr.apiCancels == 0 {
				cr.apiCancelNoCause = !cr.terminalCause
			}
			idx := cr.apiCancels
			cr.apiCancels++
			cr.terminalCause = true
			go func() {
				err := cr.rm.CancelRequest(context.Background(), cr.reqID)
				cr.apiResult("cancelapi", err)
				w.mu.Lock()
				if cr.apiResults == nil {
					cr.apiResults = map[int]string{}
				}
				if err == nil {
					cr.apiResults[idx] = "ok"
				} else {
					cr.apiResults[idx] = "notfound"
				}
				w.mu.Unlock()
			}()
			cr.obs("")
		case "pause":
			if !cr.created {
				out.Line("bad-op")
				continue
			}
			cr.pauseSeen = true
			go func() { cr.apiResult("pause", cr.rm.PauseRequest(context.Background(), cr.reqID)) }()
			cr.obs("")
		case "unpause":
			if !cr.created {
				out.Line("bad-op")
				continue
			}
			go func() { cr.apiResult("unpause", cr.rm.UnpauseRequest(context.Background(), cr.reqID)) }()
			cr.obs("")
		case "disc":
			if !cr.created {
				out.Line("bad-op")
				continue
			}
			cr.rm.Disconnected(peerID(0))
			cr.obs("")
		case "sendfail":
			if !cr.created {
				out.Line("bad-op")
				continue
			}
			w.mu.Lock()
			sub := w.lastSub
			w.mu.Unlock()
			if sub != nil {
				sub.OnNext(messagequeue.Topic(0), messagequeue.Event{Name: messagequeue.Error, Err: errors.New("send failed")})
			}
			cr.obs("")
		case "ps":
			if !cr.created {
				out.Line("bad-op")
				continue
			}
			s, _ := cr.peerStateStr()
			cr.obs(s)
		case "end":
			if !cr.created {
				out.Line("bad-op")
				continue
			}
			cr.end()
		default:
			out.Line("bad-op")
		}
	}
}

func statusClass(c int) string {
	switch {
	case isSuccessC(c):
		return "success"
	case isFailure(c):
		return "failure"
	}
	return "partial"
}

func (cr *caseRun) setup() {
	w := cr.w
	cr.ch = buildChain(cr.n, cr.v)
	if pb, ok := referenceVisits(cr.ch); !ok {
		cr.out.Fail("harness-bug", "reference traversal of the chain failed")
	} else {
		for _, x := range pb {
			if x != cr.v {
				cr.out.Fail("harness-bug", "chain block yields %d visits, script says %d", x, cr.v)
			}
		}
	}
	cr.store = map[string][]byte{}
	for j := 0; j < cr.k; j++ {
		cr.store[cr.ch.cids[j].KeyString()] = cr.ch.data[j]
	}
	var storeMu sync.Mutex
	ls := cidlink.DefaultLinkSystem()
	ls.TrustedStorage = true
	ls.StorageReadOpener = func(_ linking.LinkContext, l datamodel.Link) (io.Reader, error) {
		w.arrive("read")
		storeMu.Lock()
		defer storeMu.Unlock()
		d, ok := cr.store[l.(cidlink.Link).Cid.KeyString()]
		if !ok {
			return nil, errors.New("not found")
		}
		return bytes.NewBuffer(d), nil
	}
	ls.StorageWriteOpener = func(linking.LinkContext) (io.Writer, linking.BlockWriteCommitter, error) {
		var buf bytes.Buffer
		return &buf, func(l datamodel.Link) error {
			storeMu.Lock()
			cr.store[l.(cidlink.Link).Cid.KeyString()] = buf.Bytes()
			storeMu.Unlock()
			w.mu.Lock()
			w.writes++
			w.mu.Unlock()
			return nil
		}, nil
	}
	ctx, cancel := context.WithCancel(context.Background())
	cr.cancel = cancel
	cr.tq = taskqueue.NewTaskQueue(ctx)
	nel := listeners.NewNetworkErrorListeners()
	nel.Register(func(p peer.ID, r graphsync.RequestData, err error) {
		w.mu.Lock()
		w.neterr++
		w.mu.Unlock()
	})
	cr.rm = requestmanager.New(ctx, persistenceoptions.New(), ls, reqHooks{}, respHooks{w}, nel,
		listeners.NewRequestProcessingListeners(), cr.tq, connMgr{w}, 0, nil)
	ex := executor.NewExecutor(cr.rm, blockHooks{w})
	cr.rm.SetDelegate(peerHandler{w})
	cr.rm.Startup()
	cr.dummyID = graphsync.NewRequestID()
	cr.tq.Startup(1, gatedExec{w, ex, cr.tq, cr.dummyID})
	if cr.busy {
		// another task of the same peer is ahead in the queue and occupies the only worker
		cr.tq.PushTask(peerID(0), peertask.Task{Topic: cr.dummyID, Priority: math.MaxInt32, Work: 1})
		quiesce()
	}
	cr.reqID = graphsync.NewRequestID()
	rctx, rcancel := context.WithCancel(context.WithValue(ctx, graphsync.RequestIDContextKey{}, cr.reqID))
	cr.reqCtxCancel = rcancel
	pch, ech := cr.rm.NewRequest(rctx, peerID(0), cidlink.Link{Cid: cr.ch.cids[0]}, selectorparse.CommonSelector_ExploreAllRecursively)
	cr.created = true
	cr.startReaders(pch, ech)
}

// end: the caller reads both channels; every parked goroutine is released one at a time (each release
// is its own stimulus followed by quiescence); the environment obligations of the liveness clause are
// honoured (a paused request is resumed; a responder that sent a terminal status answers a re-issued
// request with a terminal status again).  Then the verdict.
func (cr *caseRun) end() {
	w := cr.w
	steps := 0
	w.setGate("rp", false)
	quiesce()
	w.setGate("re", false)
	quiesce()
	for iter := 0; iter < 200; iter++ {
		if !quiesce() {
			cr.quiesceFailed = true
			break
		}
		w.mu.Lock()
		closed := w.pIsClosed && w.eIsClosed
		w.mu.Unlock()
		progressed := false
		for _, g := range []string{"rhook", "work", "read", "hook", "send"} {
			if w.release(g, "ok") {
				steps++
				progressed = true
				break
			}
		}
		if progressed {
			continue
		}
		if closed {
			break
		}
		_, st := cr.peerStateStr()
		if st == "stuck" {
			break
		}
		if st == "paused" && !cr.cancelIssued {
			go func() { cr.apiResult("unpause", cr.rm.UnpauseRequest(context.Background(), cr.reqID)) }()
			cr.out.Cov("end.unpause")
			continue
		}
		if cr.termSent && cr.owesAnswer() {
			cr.out.Cov("end.answer")
			cr.sendResp(0, cr.lastTermStatus, 0, "ok", 0)
			cr.markAnswered()
			continue
		}
		break
	}
	psStr, _ := cr.peerStateStr()
	w.mu.Lock()
	pc, ec := w.pIsClosed, w.eIsClosed
	nprot := len(w.prot)
	w.mu.Unlock()
	b := func(x bool) string {
		if x {
			return "1"
		}
		return "0"
	}
	cr.obs(fmt.Sprintf("closed=%s%s %s prot=%d", b(pc), b(ec), psStr, nprot))
	cr.oracle(pc, ec)
	cr.c23Final(pc && ec)
}

// owesAnswer: a New request message left after the last own-peer terminal status.
func (cr *caseRun) owesAnswer() bool {
	cr.w.mu.Lock()
	defer cr.w.mu.Unlock()
	return cr.w.owed
}
func (cr *caseRun) markAnswered() {
	cr.w.mu.Lock()
	cr.w.owed = false
	cr.w.mu.Unlock()
}

// oracle: C04 as stated, judged on what the real code did in this case.
func (cr *caseRun) oracle(pc, ec bool) {
	w := cr.w
	out := cr.out
	w.mu.Lock()
	eAll := append([]string{}, w.eAll...)
	outAll := append([]string{}, w.outAll...)
	after := w.afterClose
	w.mu.Unlock()
	count := func(k string) int {
		n := 0
		for _, e := range eAll {
			if e == k {
				n++
			}
		}
		return n
	}
	cancelToOwn, cancelToOther := 0, 0
	for _, o := range outAll {
		if o == "cancel>0" {
			cancelToOwn++
		} else if strings.HasPrefix(o, "cancel>") {
			cancelToOther++
		}
	}
	if cr.quiesceFailed {
		out.Fail("hang", "the process did not become quiescent within %v", quiesceLimit)
	}
	if cr.mgrStuck {
		out.Fail("hang", "the manager goroutine is blocked for good (PeerState unanswered while every goroutine is blocked)")
	}
	// a CancelRequest found the request live unless it answered RequestNotFound (no answer = still waiting)
	apiCancelLive, apiFirstLive := false, false
	w.mu.Lock()
	for i := 0; i < cr.apiCancels; i++ {
		if cr.apiResults[i] != "notfound" {
			apiCancelLive = true
			if i == 0 {
				apiFirstLive = true
			}
		}
	}
	w.mu.Unlock()
	// (1) termination
	must := cr.termSent || cr.ctxCancelled || apiCancelLive
	if must {
		out.Cov("oracle.must-close")
	}
	if must && !(pc && ec) {
		out.Fail("hang", "terminal status sent or request cancelled, caller reading, everything quiescent, but channels closed = %v/%v", pc, ec)
	}
	// (2) nothing after close
	if after > 0 {
		out.Fail("after-close", "%d deliveries after a channel was closed", after)
	}
	// (3) caller cancellation
	if cr.ctxCancelWhileOpen {
		out.Cov("oracle.ctxcancel-open")
		if count("cc") < 1 {
			out.Fail("cancel-outcome", "caller context cancelled while the error channel was open, but no RequestClientCancelledErr delivered (errors %v)", eAll)
		}
	}
	if cr.ctxCancelLive || apiCancelLive {
		out.Cov("oracle.cancel-live")
		if cancelToOwn < 1 {
			out.Fail("cancel-outcome", "request cancelled while the manager still tracked it, but no cancel message to its peer (outbox %v)", outAll)
		}
	}
	if cancelToOther > 0 {
		out.Fail("cancel-outcome", "cancel message sent to a peer other than the request's (outbox %v)", outAll)
	}
	if apiFirstLive && cr.apiCancelNoCause && !cr.ctxCancelled {
		out.Cov("oracle.apicancel-first")
		if count("cc") != 1 && pc && ec {
			out.Fail(map[bool]string{true: "dup-error", false: "cancel-outcome"}[count("cc") > 1],
				"CancelRequest on a live request without earlier terminal cause: %d RequestClientCancelledErr delivered (errors %v)", count("cc"), eAll)
		}
	}
	if !cr.ctxCancelled && cr.apiCancels == 0 && count("cc") > 0 {
		out.Fail("cancel-outcome", "RequestClientCancelledErr delivered although the caller never cancelled")
	}
	// (4) failure status
	if cr.failStatus != 0 {
		want := map[int]string{30: "generic30", 31: "busy", 32: "unknown", 33: "legal", 34: "notfound", 35: "rcancelled"}[cr.failStatus]
		got := count(want)
		out.Cov("oracle.failure-status")
		if cr.ctxCancelled {
			if got > 1 {
				out.Fail("dup-error", "failure status %d: terminal error %s delivered %d times", cr.failStatus, want, got)
			}
		} else if got != 1 && (got > 1 || (pc && ec)) {
			cls := "failure-outcome"
			if got > 1 {
				cls = "dup-error"
			}
			out.Fail(cls, "responder failure status %d: expected exactly one %s on the error channel, got %d (errors %v)", cr.failStatus, want, got, eAll)
		}
	}
	// (5) duplicates of any status-derived error
	for _, k := range []string{"busy", "unknown", "legal", "notfound", "rcancelled", "generic30"} {
		if count(k) > 1 {
			out.Fail("dup-error", "terminal error %s delivered %d times", k, count(k))
		}
	}
}

func (cr *caseRun) teardown() {
	w := cr.w
	if cr.created {
		// help the real code wind down before shutdown (the executor's cond wait has no context)
		for _, g := range []string{"rhook", "work", "read", "hook", "send", "rp", "re"} {
			w.setGate(g, false)
		}
		if cr.reqCtxCancel != nil {
			cr.reqCtxCancel()
		}
		go func() { _ = cr.rm.CancelRequest(context.Background(), cr.reqID) }()
		quiesce()
		cr.cancel()
	}
	close(w.dead)
	deadline := time.Now().Add(2 * time.Second)
	for runtime.NumGoroutine() > cr.baseline && time.Now().Before(deadline) {
		runtime.Gosched()
	}
	if runtime.NumGoroutine() > cr.baseline {
		cr.out.Cov("teardown.leaked-goroutines")
	}
}

// ---------------------------------------------------------------- Run (supervisor + child)

// Run: the parent process re-executes itself per chunk of cases so that a panic of the real code
// (send on a closed channel, double close, nil dereference ...) is attributed to the case that caused
// it instead of killing the whole run.
func Run(cases []reg.Case, out *reg.Out) {
	if os.Getenv("GS_REQLIFE_CHILD") == "1" {
		for _, c := range cases {
			out.BeginCase(c)
			runCase(c, out)
			out.W.Flush()
		}
		return
	}
	self, err := os.Executable()
	if err != nil {
		fmt.Fprintln(os.Stderr, "reqlife: cannot find own executable:", err)
		os.Exit(2)
	}
	const chunk = 40
	i := 0
	for i < len(cases) {
		j := i + chunk
		if j > len(cases) {
			j = len(cases)
		}
		done, crashMsg := runChild(self, cases[i:j], out)
		if done == j-i {
			i = j
			continue
		}
		// child died while running case i+done
		bad := cases[i+done]
		cls := "crash"
		if strings.Contains(crashMsg, "closed channel") {
			cls = "after-close"
		} else if strings.Contains(crashMsg, "watchdog") {
			cls = "hang"
		}
		fmt.Fprintf(out.W, "#oracle case=%s FAIL class=%s real code crashed: %s\n", bad.ID, cls, crashMsg)
		out.W.Flush()
		i = i + done + 1
	}
}

func runChild(self string, cases []reg.Case, out *reg.Out) (completed int, crashMsg string) {
	cmd := exec.Command(self, "run")
	cmd.Env = append(os.Environ(), "GS_REQLIFE_CHILD=1")
	var in bytes.Buffer
	for _, c := range cases {
		in.WriteString(c.Header + "\n")
		for _, op := range c.Ops {
			in.WriteString(strings.Join(op, " ") + "\n")
		}
	}
	cmd.Stdin = &in
	var stderr bytes.Buffer
	cmd.Stderr = &stderr
	stdout, _ := cmd.StdoutPipe()
	if err := cmd.Start(); err != nil {
		return 0, "cannot start child: " + err.Error()
	}
	started := 0
	lastLine := time.Now()
	var mu sync.Mutex
	doneCh := make(chan struct{})
	go func() { // watchdog: a child that prints nothing for a long time is stuck outside quiesce()
		for {
			select {
			case <-doneCh:
				return
			case <-time.After(2 * time.Second):
				mu.Lock()
				idle := time.Since(lastLine)
				mu.Unlock()
				if idle > 3*quiesceLimit {
					stderr.WriteString("panic: watchdog: no output\n")
					_ = cmd.Process.Kill()
					return
				}
			}
		}
	}()
	sc := bufio.NewScanner(stdout)
	sc.Buffer(make([]byte, 1<<20), 1<<26)
	for sc.Scan() {
		line := sc.Text()
		mu.Lock()
		lastLine = time.Now()
		mu.Unlock()
		if strings.HasPrefix(line, "case ") || line == "case" {
			started++
		}
		fmt.Fprintln(out.W, line)
	}
	err := cmd.Wait()
	close(doneCh)
	if err == nil {
		return len(cases), ""
	}
	msg := "exit: " + err.Error()
	for _, l := range strings.Split(stderr.String(), "\n") {
		if strings.HasPrefix(l, "panic:") || strings.HasPrefix(l, "fatal error:") {
			msg = l
			break
		}
	}
	if started == 0 {
		return 0, msg
	}
	return started - 1, msg
}

var _ = ipld.LinkSystem{}
