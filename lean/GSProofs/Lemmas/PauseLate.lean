import GS.Model.PauseResume
import GSProofs.Lemmas.PauseConservative
import GSProofs.Lemmas.PauseRequestor
import GSProofs.Lemmas.PauseEarly
import GSProofs.Lemmas.LoaderKahn
/-!
A requestor-side hook pause at block `k`, anywhere in an exchange.

`Split`: the executor with the hook configured either never reaches block `k` with data — then it is the
plain executor —, or it runs exactly like the plain executor up to the state `r'` right after block `k`
and stops there, while the plain executor goes on from `r'` (`driveP_split`, `resumeP_split`,
`deliver_split`, `run_split`).
-/
namespace GS.C06
open GS.Loader GS.Requestor GS.PauseResume

/-- outcome `X` of an executor run with a hook pause at block `k` against the outcome `Y` of the plain
    run from the same state; `P` is what is known about the state in which the hook fires -/
def Split (k : Nat) (P : Requestor.State → Prop) (X : PState × List Ev) (Y : Requestor.State × List Ev) : Prop :=
  X = (hooked [k] Y.1, Y.2) ∨
  ∃ (r' : Requestor.State) (e1 : List Ev) (f' : Nat),
    r'.nBlocks = k ∧ r'.todo.length + 1 ≤ f' ∧ P r' ∧
    X = ((stopForPause (hooked [k] r')).1, e1 ++ [Ev.sentCancel]) ∧
    Y = ((drive f' r').1, e1 ++ (drive f' r').2)

theorem Split.prefix {k : Nat} {P : Requestor.State → Prop} {X : PState × List Ev} {Y : Requestor.State × List Ev}
    (pre : List Ev) (h : Split k P X Y) : Split k P (X.1, pre ++ X.2) (Y.1, pre ++ Y.2) := by
  rcases h with h | ⟨r', e1, f', h1, h2, h3, h4, h5⟩
  · left; rw [h]
  · right
    refine ⟨r', pre ++ e1, f', h1, h2, h3, ?_, ?_⟩
    · rw [h4]; simp
    · rw [h5]; simp

/-- a load that is not answered with data leaves the block count alone -/
theorem handle_nBlocks_err (r : Requestor.State) (n : LNode) (rest : LT) (res : Result) (e : LoadErr)
    (herr : res.err = some e) : (handle r n rest res).1.nBlocks = r.nBlocks := by
  unfold handle
  rw [herr]
  simp only
  split
  · rw [finish_nBlocks]
  · cases e with
    | missing c p =>
      simp only
      split
      · rw [failWith_nBlocks]
      · rfl
    | incorrect a b p => simp only; rw [failWith_nBlocks]
    | extraData => simp only; rw [failWith_nBlocks]
    | nothingLeft => simp only; rw [failWith_nBlocks]
    | retryNone => simp only; rw [failWith_nBlocks]

/-- when the traversal goes on, the cursor got shorter -/
theorem handle_todo (r : Requestor.State) (n : LNode) (rest : LT) (res : Result) (r2 : Requestor.State)
    (evs : List Ev) (h : handle r n rest res = (r2, evs, true)) : r2.todo.length ≤ rest.length := by
  unfold handle at h
  cases herr : res.err with
  | none =>
    rw [herr] at h
    simp only [Prod.mk.injEq] at h
    rw [← h.1]
    exact Nat.le_refl _
  | some e =>
    rw [herr] at h
    simp only at h
    split at h
    · simp only [finish, Prod.mk.injEq, Bool.false_eq_true, and_false] at h
    · cases e with
      | missing c p =>
        simp only at h
        split at h
        · simp only [failWith, finish, Prod.mk.injEq, Bool.false_eq_true, and_false] at h
        · simp only [Prod.mk.injEq] at h
          rw [← h.1]
          exact (List.dropWhile_sublist _).length_le
      | incorrect a b p => simp only [failWith, finish, Prod.mk.injEq, Bool.false_eq_true, and_false] at h
      | extraData => simp only [failWith, finish, Prod.mk.injEq, Bool.false_eq_true, and_false] at h
      | nothingLeft => simp only [failWith, finish, Prod.mk.injEq, Bool.false_eq_true, and_false] at h
      | retryNone => simp only [failWith, finish, Prod.mk.injEq, Bool.false_eq_true, and_false] at h

/-- the outcome of the plain executor after the load result `res` of node `n`, continuing with fuel `g` -/
def plainAfter (r1 : Requestor.State) (n : LNode) (rest : LT) (res : Result) (ev1 : List Ev)
    (g : Requestor.State → Nat) : Requestor.State × List Ev :=
  match handle r1 n rest res with
  | (r2, evs, true) => ((drive (g r2) r2).1, ev1 ++ evs ++ (drive (g r2) r2).2)
  | (r2, evs, false) => (r2, ev1 ++ evs)

theorem afterResult_split (k : Nat) (P : Requestor.State → Prop) (r1 : Requestor.State) (n : LNode) (rest : LT)
    (res : Result) (ev1 : List Ev) (g : Requestor.State → Nat) (hlt : r1.nBlocks < k)
    (hg : ∀ r2 evs, handle r1 n rest res = (r2, evs, true) → r2.todo.length + 1 ≤ g r2)
    (hP : ∀ r2 evs, handle r1 n rest res = (r2, evs, true) → P r2)
    (ih : ∀ r2 evs, handle r1 n rest res = (r2, evs, true) → r2.nBlocks < k →
      Split k P (driveP (g r2) (hooked [k] r2)) (drive (g r2) r2)) :
    Split k P (afterResult (hooked [k] r1) n rest res ev1 (fun s => driveP (g s.R) s))
      (plainAfter r1 n rest res ev1 g) := by
  unfold afterResult plainAfter
  cases hew : endsWith (hooked [k] r1) n res with
  | some ee =>
    obtain ⟨e', e⟩ := ee
    simp only
    rw [pauseCheck_dead [k] r1 false (fun h => by cases h)]
    simp only
    unfold endsWith at hew
    by_cases hc : r1.ctxCancelled = true
    · simp [hooked, hc] at hew
    · have hc' : r1.ctxCancelled = false := by simpa using hc
      simp only [hooked, hc', Bool.false_eq_true, if_false] at hew
      cases herr : res.err with
      | none => simp [herr] at hew
      | some e0 =>
        simp only [herr] at hew
        cases het : endsTraversal n res with
        | none => simp [het] at hew
        | some e1 =>
          simp only [het, Option.some.injEq, Prod.mk.injEq] at hew
          obtain ⟨h1, h2⟩ := hew
          subst h1; subst h2
          rw [handle_ends r1 n rest res e1 e0 hc' herr het]
          left
          simp only [List.append_assoc, hooked]
  | none =>
    simp only
    show Split k P (match handle r1 n rest res with
      | (r2, evs, true) => ((afterLoad (hooked [k] r2) res.err.isNone (fun s => driveP (g s.R) s)).1,
          ev1 ++ evs ++ (afterLoad (hooked [k] r2) res.err.isNone (fun s => driveP (g s.R) s)).2)
      | (r2, evs, false) => (hooked [k] r2, ev1 ++ evs)) _
    have hnb := handle_nBlocks r1 n rest res
    cases hh : handle r1 n rest res with
    | mk r2 rest2 =>
      obtain ⟨evs, go⟩ := rest2
      rw [hh] at hnb
      cases go with
      | false => left; rfl
      | true =>
        simp only
        cases herr : res.err with
        | some e0 =>
          have hn2 : r2.nBlocks = r1.nBlocks := by
            have := handle_nBlocks_err r1 n rest res e0 herr
            rw [hh] at this; exact this
          rw [afterLoad_dead [k] r2 _ (fun hb => by simp at hb)]
          have := (ih r2 evs hh (by rw [hn2]; exact hlt)).prefix (ev1 ++ evs)
          exact this
        | none =>
          have hn2 : r2.nBlocks = r1.nBlocks + 1 := hnb.2 herr
          by_cases hk : r2.nBlocks = k
          · right
            refine ⟨r2, ev1 ++ evs, g r2, hk, hg r2 evs hh, hP r2 evs hh, ?_, rfl⟩
            unfold afterLoad pauseCheck
            have : (hooked [k] r2).hookAt.contains (hooked [k] r2).R.nBlocks = true := by
              simp [hooked, hk]
            simp only [this, Option.isNone_none, Bool.true_and, Bool.true_or]
            simp [hooked, stopForPause]
          · have hne : r2.nBlocks ∉ [k] := by simpa using hk
            rw [afterLoad_dead [k] r2 _ (fun _ => hne)]
            exact (ih r2 evs hh (by omega)).prefix (ev1 ++ evs)

/-- `P` survives one executor iteration that goes on -/
def Pres (P : Requestor.State → Prop) : Prop :=
  ∀ (r : Requestor.State) (n : LNode) (rest : LT) (r1 : Requestor.State) (ev1 : List Ev) (res : Result)
    (r2 : Requestor.State) (evs : List Ev),
    P r → loadNode r n = (r1, ev1, some res) → handle r1 n rest res = (r2, evs, true) → P r2

theorem driveP_split (k : Nat) (P : Requestor.State → Prop) (hPres : Pres P) :
    ∀ (fuel : Nat) (r : Requestor.State), r.nBlocks < k → r.todo.length + 1 ≤ fuel → P r →
      Split k P (driveP fuel (hooked [k] r)) (drive fuel r) := by
  intro fuel
  induction fuel with
  | zero => intro r _ hf _; omega
  | succ fuel ih =>
    intro r hlt hf hp
    rw [driveP, drive_succ]
    by_cases hg : (r.phase != Phase.running) = true
    · have : ((hooked [k] r).R.phase != Phase.running || (hooked [k] r).paused) = true := by simp [hooked, hg]
      rw [if_pos this, if_pos hg]
      left; rfl
    · have : ((hooked [k] r).R.phase != Phase.running || (hooked [k] r).paused) = false := by
        simp only [hooked, Bool.or_false]; simpa using hg
      rw [if_neg (by simp [this]), if_neg hg]
      show Split k P (match r.todo with
        | [] => (hooked [k] (finish r).1, (finish r).2)
        | n :: rest =>
          match loadNode r n with
          | (r1, ev1, none) => (hooked [k] r1, ev1)
          | (r1, ev1, some res) => afterResult (hooked [k] r1) n rest res ev1 (driveP fuel)) _
      cases htodo : r.todo with
      | nil => left; rfl
      | cons n rest =>
        simp only
        have hl := loadNode_nBlocks r n
        cases hln : loadNode r n with
        | mk r1 rest1 =>
          obtain ⟨ev1, ores⟩ := rest1
          rw [hln] at hl
          simp only at hl
          cases ores with
          | none => left; rfl
          | some res =>
            simp only
            have hlen : rest.length + 1 ≤ fuel := by
              rw [htodo] at hf; simp only [List.length_cons] at hf; omega
            have hs := afterResult_split k P r1 n rest res ev1 (fun _ => fuel) (by rw [hl]; exact hlt)
              (fun r2 evs hh => by have := handle_todo r1 n rest res r2 evs hh; omega)
              (fun r2 evs hh => hPres r n rest r1 ev1 res r2 evs hp hln hh)
              (fun r2 evs hh hlt2 => ih r2 hlt2
                (by have := handle_todo r1 n rest res r2 evs hh; omega)
                (hPres r n rest r1 ev1 res r2 evs hp hln hh))
            unfold plainAfter at hs
            cases hh : handle r1 n rest res with
            | mk r2 rest2 =>
              obtain ⟨evs, go⟩ := rest2
              rw [hh] at hs
              cases go with
              | true => exact hs
              | false => exact hs

/-- `P` survives the wake-up of a parked load whose traversal goes on -/
def PresWake (P : Requestor.State → Prop) : Prop :=
  ∀ (r : Requestor.State) (l1 : Loader.State) (res : Result) (n : LNode) (rest : LT)
    (r2 : Requestor.State) (evs : List Ev),
    P r → Loader.wake r.L = (l1, some res) → handle { r with L := l1 } n rest res = (r2, evs, true) → P r2

theorem resumeP_split (k : Nat) (P : Requestor.State → Prop) (hPres : Pres P) (hW : PresWake P)
    (r : Requestor.State) (hlt : r.nBlocks < k) (hp : P r) :
    Split k P (resumeP (hooked [k] r)) (Requestor.resume r) := by
  have hW' := hW r
  obtain ⟨L, todo, phase, rs, nb, us, cc, te⟩ := r
  unfold resumeP Requestor.resume
  simp only [hooked]
  simp only at hW'
  cases hw : Loader.wake L with
  | mk l1 ores =>
    cases ores with
    | none => left; rfl
    | some res =>
      simp only
      cases todo with
      | nil => left; rfl
      | cons n rest =>
        simp only
        have hs := afterResult_split k P ⟨l1, n :: rest, phase, rs, nb, us, cc, te⟩ n rest res [] fuelFor hlt
          (fun r2 evs hh => by unfold fuelFor; omega)
          (fun r2 evs hh => hW' l1 res n rest r2 evs hp hw hh)
          (fun r2 evs hh hlt2 => driveP_split k P hPres (fuelFor r2) r2 hlt2 (by unfold fuelFor; omega)
            (hW' l1 res n rest r2 evs hp hw hh))
        unfold plainAfter at hs
        have hfun : (fun s' : PState => driveP (fuelFor s'.R) s') = (fun s => driveP (fuelFor s.R) s) := rfl
        show Split k P (afterResult (hooked [k] ⟨l1, n :: rest, phase, rs, nb, us, cc, te⟩) n rest res []
          (fun s' => driveP (fuelFor s'.R) s')) _
        generalize handle ⟨l1, n :: rest, phase, rs, nb, us, cc, te⟩ n rest res = hdl at hs
        obtain ⟨r2, evs, go⟩ := hdl
        cases go with
        | true =>
          simp only [List.nil_append] at hs ⊢
          exact hs
        | false =>
          simp only [List.nil_append] at hs ⊢
          exact hs

/-- the request has been sent, the response is complete (terminal status seen: loader offline), the
    request context is alive -/
def Late (r : Requestor.State) : Prop :=
  r.L.isOpen = false ∧ r.requestSent = true ∧ r.ctxCancelled = false ∧ r.phase = .running

theorem load_isOpen (l : Loader.State) (p : Path) (c : Cid) : (Loader.load l p c).1.isOpen = l.isOpen := by
  unfold Loader.load
  split
  · rw [(run_tail_open _ p c).2]
  · rw [(run_tail_open _ p c).2]

theorem handle_true_frame (r : Requestor.State) (n : LNode) (rest : LT) (res : Result) (r2 : Requestor.State)
    (evs : List Ev) (h : handle r n rest res = (r2, evs, true)) :
    r2.L = r.L ∧ r2.requestSent = r.requestSent ∧ r2.ctxCancelled = r.ctxCancelled ∧ r2.phase = r.phase := by
  unfold handle at h
  cases herr : res.err with
  | none =>
    rw [herr] at h
    simp only [Prod.mk.injEq] at h
    rw [← h.1]
    exact ⟨rfl, rfl, rfl, rfl⟩
  | some e =>
    rw [herr] at h
    simp only at h
    split at h
    · simp only [finish, Prod.mk.injEq, Bool.false_eq_true, and_false] at h
    · cases e with
      | missing c p =>
        simp only at h
        split at h
        · simp only [failWith, finish, Prod.mk.injEq, Bool.false_eq_true, and_false] at h
        · simp only [Prod.mk.injEq] at h
          rw [← h.1]
          exact ⟨rfl, rfl, rfl, rfl⟩
      | incorrect a b p => simp only [failWith, finish, Prod.mk.injEq, Bool.false_eq_true, and_false] at h
      | extraData => simp only [failWith, finish, Prod.mk.injEq, Bool.false_eq_true, and_false] at h
      | nothingLeft => simp only [failWith, finish, Prod.mk.injEq, Bool.false_eq_true, and_false] at h
      | retryNone => simp only [failWith, finish, Prod.mk.injEq, Bool.false_eq_true, and_false] at h

theorem loadNode_sent (r : Requestor.State) (n : LNode) (hs : r.requestSent = true) :
    loadNode r n = match Loader.load r.L n.path n.cid with
      | (l1, .blocked) => ({ r with L := l1 }, [], none)
      | (l1, .done res) => ({ r with L := l1 }, [], some res) := by
  unfold loadNode
  cases hl : Loader.load r.L n.path n.cid with
  | mk l1 out =>
    cases out with
    | blocked => rfl
    | done res => simp [hs]

theorem Late_pres : Pres Late := by
  intro r n rest r1 ev1 res r2 evs hp hln hh
  obtain ⟨h1, h2, h3, h4⟩ := hp
  rw [loadNode_sent r n h2] at hln
  have hio := load_isOpen r.L n.path n.cid
  cases hl : Loader.load r.L n.path n.cid with
  | mk l1 out =>
    rw [hl] at hln hio
    simp only at hio
    cases out with
    | blocked => simp at hln
    | done res' =>
      simp only [Prod.mk.injEq, Option.some.injEq] at hln
      obtain ⟨e1, _, _⟩ := hln
      obtain ⟨f1, f2, f3, f4⟩ := handle_true_frame r1 n rest res r2 evs hh
      rw [← e1] at f1 f2 f3 f4
      exact ⟨by rw [f1]; simp only; rw [hio]; exact h1, by rw [f2]; exact h2, by rw [f3]; exact h3, by rw [f4]; exact h4⟩

theorem wake_isOpen (l l1 : Loader.State) (o : Option Result) (h : Loader.wake l = (l1, o)) : l1.isOpen = l.isOpen := by
  unfold Loader.wake at h
  split at h
  · simp only [Prod.mk.injEq] at h; rw [← h.1]
  · rename_i p c _
    have := (run_tail_open l p c).2
    split at h
    · rename_i s' r heq
      simp only [Prod.mk.injEq] at h
      rw [heq] at this
      rw [← h.1]; exact this
    · rename_i s' heq
      simp only [Prod.mk.injEq] at h
      rw [heq] at this
      rw [← h.1]; exact this

theorem Late_wake : PresWake Late := by
  intro r l1 res n rest r2 evs hp hw hh
  obtain ⟨h1, h2, h3, h4⟩ := hp
  obtain ⟨f1, f2, f3, f4⟩ := handle_true_frame _ n rest res r2 evs hh
  have := wake_isOpen r.L l1 _ hw
  exact ⟨by rw [f1]; simp only; rw [this]; exact h1, by rw [f2]; exact h2, by rw [f3]; exact h3, by rw [f4]; exact h4⟩

/-! ### the plain executor: spare fuel is not used, and `requestSent` is read only at a miss -/

theorem drive_fuel_succ : ∀ (f : Nat) (r : Requestor.State), r.todo.length + 1 ≤ f → drive (f + 1) r = drive f r := by
  intro f
  induction f with
  | zero => intro r h; omega
  | succ f ih =>
    intro r h
    rw [drive_succ (f + 1), drive_succ f]
    by_cases hg : (r.phase != Phase.running) = true
    · rw [if_pos hg, if_pos hg]
    · rw [if_neg hg, if_neg hg]
      cases htodo : r.todo with
      | nil => rfl
      | cons n rest =>
        simp only
        cases hln : loadNode r n with
        | mk r1 rest1 =>
          obtain ⟨ev1, ores⟩ := rest1
          cases ores with
          | none => rfl
          | some res =>
            simp only
            cases hh : handle r1 n rest res with
            | mk r2 rest2 =>
              obtain ⟨evs, go⟩ := rest2
              cases go with
              | false => rfl
              | true =>
                simp only
                have hlen := handle_todo r1 n rest res r2 evs hh
                rw [htodo] at h
                simp only [List.length_cons] at h
                rw [ih r2 (by omega)]

theorem drive_fuel (f f' : Nat) (r : Requestor.State) (h : r.todo.length + 1 ≤ f) (h' : r.todo.length + 1 ≤ f') :
    drive f r = drive f' r := by
  have up : ∀ d g, r.todo.length + 1 ≤ g → drive (g + d) r = drive g r := by
    intro d
    induction d with
    | zero => intro g _; rfl
    | succ d ih =>
      intro g hg
      rw [← Nat.add_assoc, drive_fuel_succ (g + d) r (by omega)]
      exact ih g hg
  rcases Nat.le_total f f' with hle | hle
  · obtain ⟨d, rfl⟩ := Nat.exists_eq_add_of_le hle
    exact (up d f h).symm
  · obtain ⟨d, rfl⟩ := Nat.exists_eq_add_of_le hle
    exact up d f' h'

/-- the requestor state with the `requestSent` flag of the executor run reset (what `Unpause` does) -/
def unsent (r : Requestor.State) : Requestor.State := { r with requestSent := false }

theorem handle_unsent (r : Requestor.State) (n : LNode) (rest : LT) (res : Result) :
    handle (unsent r) n rest res = (unsent (handle r n rest res).1, (handle r n rest res).2) := by
  obtain ⟨L, todo, phase, rs, nb, us, cc, te⟩ := r
  unfold handle unsent
  cases res.err with
  | none => rfl
  | some e =>
    simp only
    split
    · rfl
    · cases e with
      | missing c p =>
        simp only
        split <;> rfl
      | incorrect a b p => rfl
      | extraData => rfl
      | nothingLeft => rfl
      | retryNone => rfl

/-- a miss that reaches `handle` with a live request context is reported -/
theorem handle_miss_event (r : Requestor.State) (n : LNode) (rest : LT) (res : Result)
    (hm : isMiss res = true) (hc : r.ctxCancelled = false) : missingOf (handle r n rest res).2.1 ≠ [] := by
  unfold isMiss at hm
  unfold handle
  cases herr : res.err with
  | none => rw [herr] at hm; cases hm
  | some e =>
    rw [herr] at hm
    cases e with
    | missing c p =>
      simp only [hc, Bool.false_eq_true, if_false]
      split
      · simp [missingOf]
      · simp [missingOf]
    | incorrect a b p => cases hm
    | extraData => cases hm
    | nothingLeft => cases hm
    | retryNone => cases hm

theorem drive_unsent : ∀ (fuel : Nat) (r : Requestor.State), r.ctxCancelled = false → r.requestSent = true →
    missingOf (drive fuel r).2 = [] →
    drive fuel (unsent r) = (unsent (drive fuel r).1, (drive fuel r).2) := by
  intro fuel
  induction fuel with
  | zero => intro r _ _ _; rfl
  | succ fuel ih =>
    intro r hc hs hnm
    rw [drive_succ] at hnm ⊢
    rw [drive_succ]
    have hph : (unsent r).phase = r.phase := rfl
    have htd : (unsent r).todo = r.todo := rfl
    rw [hph, htd]
    by_cases hg : (r.phase != Phase.running) = true
    · simp only [if_pos hg]
    · simp only [if_neg hg] at hnm ⊢
      cases htodo : r.todo with
      | nil =>
        simp only
        obtain ⟨L, todo, phase, rs, nb, us, cc, te⟩ := r
        rfl
      | cons n rest =>
        rw [htodo] at hnm
        simp only at hnm ⊢
        rw [loadNode_sent r n hs] at hnm ⊢
        -- the same load on both sides
        have hU : loadNode (unsent r) n = match Loader.load r.L n.path n.cid with
            | (l1, .blocked) => ({ unsent r with L := l1 }, [], none)
            | (l1, .done res) =>
              if isMiss res then
                (match Loader.retry (Loader.setOnline l1 true) with
                  | (l3, .blocked) => ({ unsent r with L := l3, requestSent := true }, [Ev.sentNew (max r.userSkip r.nBlocks)], none)
                  | (l3, .done r2) => ({ unsent r with L := l3, requestSent := true }, [Ev.sentNew (max r.userSkip r.nBlocks)], some r2))
              else ({ unsent r with L := l1 }, [], some res) := by
          unfold loadNode
          cases hl : Loader.load r.L n.path n.cid with
          | mk l1 out =>
            have : Loader.load (unsent r).L n.path n.cid = (l1, out) := hl
            rw [this]
            cases out with
            | blocked => rfl
            | done res =>
              simp only [unsent, Bool.not_false, Bool.and_true]
              rfl
        rw [hU]
        cases hl : Loader.load r.L n.path n.cid with
        | mk l1 out =>
          rw [hl] at hnm
          cases out with
          | blocked =>
            obtain ⟨L, todo, phase, rs, nb, us, cc, te⟩ := r
            rfl
          | done res =>
            simp only at hnm ⊢
            by_cases hm : isMiss res = true
            · exfalso
              have hev := handle_miss_event { r with L := l1 } n rest res hm hc
              cases hh : handle { r with L := l1 } n rest res with
              | mk r2 rest2 =>
                obtain ⟨evs, go⟩ := rest2
                rw [hh] at hnm hev
                simp only at hev
                cases go with
                | true =>
                  simp only at hnm
                  generalize drive fuel r2 = d at hnm
                  obtain ⟨s3, evs'⟩ := d
                  simp only [List.nil_append, missingOf_append] at hnm
                  exact hev (List.append_eq_nil_iff.mp hnm).1
                | false =>
                  simp only [List.nil_append] at hnm
                  exact hev hnm
            · rw [if_neg hm]
              simp only
              have hhu := handle_unsent { r with L := l1 } n rest res
              have hfr : ({ unsent r with L := l1 } : Requestor.State) = unsent { r with L := l1 } := rfl
              rw [hfr, hhu]
              cases hh : handle { r with L := l1 } n rest res with
              | mk r2 rest2 =>
                obtain ⟨evs, go⟩ := rest2
                rw [hh] at hnm
                cases go with
                | false => rfl
                | true =>
                  simp only at hnm ⊢
                  obtain ⟨_, f2, f3, _⟩ := handle_true_frame _ n rest res r2 evs hh
                  have hnm2 : missingOf (drive fuel r2).2 = [] := by
                    generalize drive fuel r2 = d at hnm
                    obtain ⟨s3, evs'⟩ := d
                    simp only [List.nil_append, missingOf_append] at hnm
                    exact (List.append_eq_nil_iff.mp hnm).2
                  rw [ih r2 (by rw [f3]; exact hc) (by rw [f2]; exact hs) hnm2]

/-! ### messages -/

theorem Split.notyet {k : Nat} {P : Requestor.State → Prop} {X : PState × List Ev} {Y : Requestor.State × List Ev}
    (h : Split k P X Y) (hlt : Y.1.nBlocks < k) : X = (hooked [k] Y.1, Y.2) := by
  rcases h with h | ⟨r', e1, f', h1, _, _, _, h5⟩
  · exact h
  · exfalso
    have := drive_nBlocks f' r'
    rw [h5] at hlt
    simp only at hlt
    omega

theorem applyStatus_nBlocks (r : Requestor.State) (st : Nat) : (applyStatus r st).nBlocks = r.nBlocks := by
  unfold applyStatus
  split
  · split <;> rfl
  · rfl

theorem deliver_split (k : Nat) (P : Requestor.State → Prop) (hPres : Pres P) (hW : PresWake P)
    (r : Requestor.State) (f kn : Bool) (st : Nat) (md : List (Cid × Action)) (bl : List (Cid × Blk))
    (hlt : r.nBlocks < k) (hp : P (applyStatus { r with L := Loader.ingest r.L md bl } st)) :
    Split k P (deliver (hooked [k] r) f kn st md bl) (message r f kn st md bl) := by
  unfold deliver message
  by_cases hg : (r.phase != Phase.running || !f || !kn) = true
  · have : ((hooked [k] r).R.phase != Phase.running || !f || !kn) = true := hg
    rw [if_pos this, if_pos hg]
    left; rfl
  · have : ¬ ((hooked [k] r).R.phase != Phase.running || !f || !kn) = true := hg
    rw [if_neg this, if_neg hg]
    exact resumeP_split k P hPres hW _ (by rw [applyStatus_nBlocks]; exact hlt) hp

theorem Pres_true : Pres (fun _ => True) := fun _ _ _ _ _ _ _ _ _ _ _ => trivial
theorem PresWake_true : PresWake (fun _ => True) := fun _ _ _ _ _ _ _ _ _ _ => trivial

theorem feed_nBlocks : ∀ (msgs : List Requestor.Msg) (r : Requestor.State), r.nBlocks ≤ (feed r msgs).1.nBlocks := by
  intro msgs
  induction msgs with
  | nil => intro r; exact Nat.le_refl _
  | cons m rest ih =>
    intro r
    simp only [feed]
    have h1 := message_nBlocks r m.fromPeer0 m.known m.status m.md m.blocks
    have h2 := ih (message r m.fromPeer0 m.known m.status m.md m.blocks).1
    omega

/-- as long as block `k` has not been loaded, the hooked run over a list of messages is the plain run -/
theorem run_notyet (k : Nat) : ∀ (msgs : List Requestor.Msg) (r : Requestor.State), (feed r msgs).1.nBlocks < k →
    PauseResume.run (hooked [k] r) (msgs.map toOp) = (hooked [k] (feed r msgs).1, (feed r msgs).2) := by
  intro msgs
  induction msgs with
  | nil => intro r _; rfl
  | cons m rest ih =>
    intro r hlt
    simp only [List.map_cons, PauseResume.run, toOp, PauseResume.step, feed] at hlt ⊢
    have hmid := feed_nBlocks rest (message r m.fromPeer0 m.known m.status m.md m.blocks).1
    have hr := message_nBlocks r m.fromPeer0 m.known m.status m.md m.blocks
    have hs := deliver_split k (fun _ => True) Pres_true PresWake_true r m.fromPeer0 m.known m.status m.md m.blocks
      (by omega) trivial
    rw [hs.notyet (by omega)]
    simp only
    rw [ih _ hlt]

/-- the request phase, as long as block `k` is not loaded in it -/
theorem request_notyet (k : Nat) (st : List (Cid × Blk)) (lt : LT) (u : Nat)
    (hlt : (Requestor.request { L := { store := st } } lt u).1.nBlocks < k) :
    PauseResume.request { R := { L := { store := st } }, hookAt := [k] } lt u =
      (hooked [k] (Requestor.request { L := { store := st } } lt u).1, (Requestor.request { L := { store := st } } lt u).2) := by
  unfold PauseResume.request Requestor.request at *
  have hs := driveP_split k (fun _ => True) Pres_true
    (fuelFor { ({ L := { store := st } } : Requestor.State) with todo := lt, phase := .running, userSkip := u })
    { ({ L := { store := st } } : Requestor.State) with todo := lt, phase := .running, userSkip := u }
    (by simp only; omega) (by unfold fuelFor; simp only; omega) trivial
  exact hs.notyet hlt

/-! ### the late pause -/

/-- `Unpause` after a pause that fired when the response was complete: the executor goes on from the
    same traverser and loader, with `requestSent` reset -/
theorem unpause_late (k : Nat) (r' : Requestor.State) (hL : Late r') (hk : r'.nBlocks = k) :
    PauseResume.unpause (stopForPause (hooked [k] r')).1 =
      (hooked [k] (drive (fuelFor r') (unsent r')).1, (drive (fuelFor r') (unsent r')).2) := by
  obtain ⟨ho, _, _, hrun⟩ := hL
  have hoff := setOnline_false_offline r'.L ho
  have hd : DeadAt [k] (unsent r') := by
    intro j hj
    simp only [List.mem_singleton] at hj
    show j ≤ r'.nBlocks
    omega
  rw [← driveP_dead [k] (fuelFor r') (unsent r') hd]
  obtain ⟨L, todo, phase, rs, nb, us, cc, te⟩ := r'
  simp only at hrun hoff
  subst hrun
  unfold PauseResume.unpause stopForPause
  simp only [hooked, bne_self_eq_false, Bool.not_true, Bool.or_self, Bool.false_eq_true, if_false, hoff]
  rfl

theorem applyStatus_success (r : Requestor.State) (st : Nat) (h : isSuccess st = true) :
    applyStatus r st = { r with L := Loader.setOnline r.L false } := by
  unfold applyStatus isTerminal
  have hf : isFailure st = false := by
    unfold isSuccess at h
    unfold isFailure
    rcases Bool.or_eq_true _ _ |>.mp h with h | h <;> (have := eq_of_beq h; subst this; rfl)
  simp [h, hf]

/-- **late pause, one message.**  The message with the final (success) status of the response reaches
    a request that has been sent and whose context is alive; the block hook pauses the request at block
    `k` (not yet loaded).  If the uninterrupted processing of the message reports no missing block, then
    pausing at `k` and resuming gives the same final requestor state (up to the executor's
    `requestSent` flag) and the same reports, plus the cancel message of the pause. -/
theorem late_pause_msg (k : Nat) (s1 : Requestor.State) (hs : s1.requestSent = true) (hc : s1.ctxCancelled = false)
    (hlt : s1.nBlocks < k) (f kn : Bool) (st : Nat) (md : List (Cid × Action)) (bl : List (Cid × Blk))
    (hsucc : isSuccess st = true) (hnm : missingOf (message s1 f kn st md bl).2 = []) :
    ∃ (e1 e2 : List Ev) (c : List Ev) (R : Requestor.State),
      (c = [] ∨ c = [Ev.sentCancel]) ∧
      (R = (message s1 f kn st md bl).1 ∨ R = unsent (message s1 f kn st md bl).1) ∧
      (message s1 f kn st md bl).2 = e1 ++ e2 ∧
      (deliver (hooked [k] s1) f kn st md bl).2 ++ (PauseResume.unpause (deliver (hooked [k] s1) f kn st md bl).1).2
        = e1 ++ c ++ e2 ∧
      (PauseResume.unpause (deliver (hooked [k] s1) f kn st md bl).1).1 = hooked [k] R := by
  by_cases hg : (s1.phase != Phase.running || !f || !kn) = true
  · -- the message is not for a running request: ignored on both sides
    have h1 : deliver (hooked [k] s1) f kn st md bl = (hooked [k] s1, []) := by
      unfold deliver
      have : ((hooked [k] s1).R.phase != Phase.running || !f || !kn) = true := hg
      rw [if_pos this]
    have h2 : message s1 f kn st md bl = (s1, []) := by unfold message; rw [if_pos hg]
    refine ⟨[], [], [], s1, Or.inl rfl, Or.inl (by rw [h2]), by rw [h2]; rfl, ?_, ?_⟩
    · rw [h1]; simp [PauseResume.unpause, hooked]
    · rw [h1]; simp [PauseResume.unpause, hooked]
  · have hrun : s1.phase = .running := by
      have : (s1.phase != Phase.running) = false := by
        cases h : (s1.phase != Phase.running) with
        | false => rfl
        | true => simp [h] at hg
      simpa using this
    have hL : Late (applyStatus { s1 with L := Loader.ingest s1.L md bl } st) := by
      rw [applyStatus_success _ _ hsucc]
      exact ⟨by simp [Loader.setOnline], hs, hc, hrun⟩
    have hsplit := deliver_split k Late Late_pres Late_wake s1 f kn st md bl hlt hL
    rcases hsplit with h | ⟨r', e1, f', hk, hf', hL', hX, hY⟩
    · refine ⟨(message s1 f kn st md bl).2, [], [], (message s1 f kn st md bl).1, Or.inl rfl, Or.inl rfl, by simp, ?_, ?_⟩
      · rw [h]; simp [PauseResume.unpause, hooked]
      · rw [h]; simp [PauseResume.unpause, hooked]
    · have hfuel : drive (fuelFor r') r' = drive f' r' := drive_fuel _ _ r' (by unfold fuelFor; omega) hf'
      have hnm' : missingOf (drive (fuelFor r') r').2 = [] := by
        rw [hY] at hnm
        simp only [missingOf_append] at hnm
        rw [hfuel]
        exact (List.append_eq_nil_iff.mp hnm).2
      have hun := drive_unsent (fuelFor r') r' hL'.2.2.1 hL'.2.1 hnm'
      refine ⟨e1, (drive f' r').2, [Ev.sentCancel], unsent (drive f' r').1, Or.inr rfl, Or.inr (by rw [hY]), by rw [hY], ?_, ?_⟩
      · rw [hX]
        simp only
        rw [unpause_late k r' hL' hk, hun, hfuel]
      · rw [hX]
        simp only
        rw [unpause_late k r' hL' hk, hun, hfuel]

/-! ### whole exchanges -/

theorem feed_snoc (r : Requestor.State) (msgs : List Requestor.Msg) (m : Requestor.Msg) :
    feed r (msgs ++ [m]) =
      ((message (feed r msgs).1 m.fromPeer0 m.known m.status m.md m.blocks).1,
        (feed r msgs).2 ++ (message (feed r msgs).1 m.fromPeer0 m.known m.status m.md m.blocks).2) := by
  induction msgs generalizing r with
  | nil => simp [feed]
  | cons x rest ih =>
    simp only [List.cons_append, feed]
    rw [ih]
    simp

theorem prun_append (s : PState) (a b : List PauseResume.Op) :
    PauseResume.run s (a ++ b) =
      ((PauseResume.run (PauseResume.run s a).1 b).1, (PauseResume.run s a).2 ++ (PauseResume.run (PauseResume.run s a).1 b).2) := by
  induction a generalizing s with
  | nil => simp [PauseResume.run]
  | cons x rest ih =>
    simp only [List.cons_append, PauseResume.run]
    rw [ih]
    simp

/-- **late pause.**  Exchange with any messages `m1` during which block `k` is not loaded, then the
    message `M` with the final success status; the hook pauses at block `k` and the request is
    resumed at once.  See `GS.C06.requestor_pause_resume_complete_response`. -/
theorem late_pause (st : List (Cid × Blk)) (lt : LT) (u : Nat) (k : Nat) (m1 : List Requestor.Msg) (M : Requestor.Msg)
    (hsucc : isSuccess M.status = true)
    (hpre : (Requestor.exchange st lt u m1).1.nBlocks < k)
    (hsent : (Requestor.exchange st lt u m1).1.requestSent = true)
    (hctx : (Requestor.exchange st lt u m1).1.ctxCancelled = false)
    (hnm : missingOf (Requestor.exchange st lt u (m1 ++ [M])).2 = []) :
    ∃ (e1 e2 c : List Ev) (R : Requestor.State),
      (c = [] ∨ c = [Ev.sentCancel]) ∧
      (R = (Requestor.exchange st lt u (m1 ++ [M])).1 ∨ R = unsent (Requestor.exchange st lt u (m1 ++ [M])).1) ∧
      (Requestor.exchange st lt u (m1 ++ [M])).2 = e1 ++ e2 ∧
      PauseResume.exchange st lt u [k] (m1.map toOp ++ [toOp M, .unpause]) = (hooked [k] R, e1 ++ c ++ e2) := by
  have hex : ∀ ms, Requestor.exchange st lt u ms =
      ((feed (Requestor.request { L := { store := st } } lt u).1 ms).1,
        (Requestor.request { L := { store := st } } lt u).2 ++ (feed (Requestor.request { L := { store := st } } lt u).1 ms).2) := by
    intro ms; rfl
  rw [hex] at hpre hsent hctx hnm
  simp only at hpre hsent hctx
  generalize hq : Requestor.request { L := { store := st } } lt u = q at hpre hsent hctx hnm hex
  obtain ⟨s0, ev0⟩ := q
  simp only at hpre hsent hctx hnm
  have h0 : s0.nBlocks < k := Nat.lt_of_le_of_lt (feed_nBlocks m1 s0) hpre
  have hreq := request_notyet k st lt u (by rw [hq]; exact h0)
  rw [hq] at hreq
  simp only at hreq
  have hrun := run_notyet k m1 s0 hpre
  rw [feed_snoc] at hnm
  simp only [missingOf_append] at hnm
  have hnmM := (List.append_eq_nil_iff.mp (List.append_eq_nil_iff.mp hnm).2).2
  obtain ⟨e1, e2, c, R, hcc, hR, hbase, hev, hst⟩ :=
    late_pause_msg k (feed s0 m1).1 hsent hctx hpre M.fromPeer0 M.known M.status M.md M.blocks hsucc hnmM
  refine ⟨ev0 ++ (feed s0 m1).2 ++ e1, e2, c, R, hcc, ?_, ?_, ?_⟩
  · rw [hex, feed_snoc]; exact hR
  · rw [hex, feed_snoc]; simp only; rw [hbase]; simp
  · unfold PauseResume.exchange
    rw [hreq]
    simp only
    rw [prun_append, hrun]
    simp only [PauseResume.run, PauseResume.step, toOp]
    generalize deliver (hooked [k] (feed s0 m1).1) M.fromPeer0 M.known M.status M.md M.blocks = d at hev hst
    obtain ⟨d1, d2⟩ := d
    simp only at hev hst ⊢
    generalize PauseResume.unpause d1 = w at hev hst
    obtain ⟨w1, w2⟩ := w
    simp only at hev hst ⊢
    rw [hst]
    simp only [List.append_nil, Prod.mk.injEq, true_and]
    rw [hev]
    simp

end GS.C06
