import GSProofs.Lemmas.MsgQueueReach
import GSProofs.Lemmas.MsgQueueLog2
import GSProofs.Lemmas.MsgQueueNotes
import GSProofs.C13
/-!
# C15 — Memory accounted to a peer matches its unsent response data

Property text: "Every byte reserved when response data is queued for a peer is returned exactly once:
when the message carrying it is sent, when it fails, or when it is discarded because another message
of the same request failed.  Data is never queued without a successful reservation, so once a peer's
queue is idle its accounted memory is zero and a long-lived connection never accumulates phantom
usage that would stall later responses."

Model: `GS.MQ` (lean/GS/Model/MsgQueue.lean) = one peer's `messagequeue.MessageQueue` with the real
allocator model `GS.Alloc` as a component, as the code is after the fixes 37d55fe (extension bytes),
fe721b0 (scrub sums), fe3292b (unused reservation returned), 83fb1b7 (refused reservation), 940c3c0.
Every theorem quantifies over
* every schedule `acts : List Act` — transactions of any operations for any requests
  (`Act.build`), the continuation of callers that waited for memory at any later time (`Act.wake`),
  every result of every ConnectTo / SendMsg / Reset (`Act.ack ok|fail`), the choice of the `select`
  (`Act.run`), `Shutdown` at any point, and arbitrary use of the shared allocator by other peers
  (`Act.env`);
* every configuration (`maxRetries`, limits `< 2^64`) and every admissible `Peek` of the priority queue.

**Ledger** (`held s`): bytes in queued builders + bytes of the message in flight + reservations
granted to callers that have not reached `buildMessage` yet.

Full statement (S): in every reachable state `AllocatedForPeer(p) = held`, and a queue that has
exited holds nothing.  Since the fix `fix: messagequeue: fail messages built on a closed queue`
(a transaction that reaches `buildMessage` after the queue goroutine took the `done` branch is
rejected: subscribers told `Error`, reservation returned) (S) holds before AND after the goroutine's
exit (`exactly_once_partial`, `exactly_once_sums`, `idle_zero`, `exit_zero`; the old behaviour is kept
as the regression witness `dead_queue_regression`).  (S) remains FALSE of the code in two regions, each
with a counterexample theorem and excluded by a recorded assumption on the schedule:
(a) `cleanFrom`: the goroutine's deferred `ReleasePeerMemory` runs while a caller whose reservation has
been GRANTED has not yet reached `buildMessage` (`wiped_waiter_counterexample`; that caller's bytes are
wiped, its later release is a no-op unless the peer has a new entry — known finding
`dead-queue-over-release`, narrowed to this window);
(b) `soloFrom`: another queue of the same peer is alive (`successor_wiped_counterexample`, known finding
`overlap-release-wipes-successor`, a consequence of the C17 finding `overlap-shutting-down`).
`reserved_first` and `log_is_allocator_history` hold for ALL schedules (`Reachable`).
-/
namespace GS.C15
open GS.MQ GS.Alloc

/-- states reachable by some schedule from `messagequeue.New` with a fresh allocator — including
    schedules in which ANOTHER queue of the same peer uses the allocator (`Act.env op` with
    `opPeer op = peer`), which happens while a stopping queue and its successor overlap (C17) -/
def Reachable (pick : Pick) (peer mr mt mp : Nat) (s : MQ.State) : Prop :=
  ∃ acts : List Act, s = runActs pick (init peer mr mt mp) acts

/-- … by a schedule in which this queue is the only queue of its peer that touches the allocator
    (`soloFrom`: the recorded assumption "one live queue per peer"; other peers are unrestricted) and
    whose exit step, if any, finds no granted reservation on its way to `buildMessage` (`cleanFrom`) -/
def SoloReachable (pick : Pick) (peer mr mt mp : Nat) (s : MQ.State) : Prop :=
  ∃ acts : List Act, soloFrom pick (init peer mr mt mp) acts = true ∧ cleanFrom pick (init peer mr mt mp) acts = true ∧
    s = runActs pick (init peer mr mt mp) acts

theorem SoloReachable.reachable {pick : Pick} {peer mr mt mp : Nat} {s : MQ.State}
    (h : SoloReachable pick peer mr mt mp s) : Reachable pick peer mr mt mp s := by
  obtain ⟨acts, _, _, rfl⟩ := h; exact ⟨acts, rfl⟩

section
variable {pick : Pick} (hp : Admissible pick) {peer mr mt mp : Nat} (ht : mt < W) (hm : mp < W)
include hp ht hm

theorem SoloReachable.inv {s : MQ.State} (h : SoloReachable pick peer mr mt mp s) : I s := by
  obtain ⟨acts, hs, hc, rfl⟩ := h
  exact runActs_I hp (init_I ht hm) acts hs hc

/-- **Exactly once (the ledger)** — partial only in the two schedule assumptions of `SoloReachable`;
    it holds before and after the queue goroutine's exit.  In every state the bytes the allocator
    accounts to the peer are exactly the bytes held by queued builders, by the message in flight and by
    granted-but-not-yet-built reservations: every reserved byte that has left these three places has
    been released, and none twice (`AllocatedForPeer = granted − released` is C13's `ledger`). -/
theorem exactly_once_partial {s : MQ.State} (h : SoloReachable pick peer mr mt mp s) :
    allocatedFor s.alloc s.peer = heldBuilders s + heldInFlight s + heldGranted s :=
  (h.inv hp ht hm).1.ledger

/-- a queue whose goroutine took the `done` branch never holds a queued builder again -/
theorem closed_queue_empty {s : MQ.State} (h : SoloReachable pick peer mr mt mp s) (hc : s.closed = true) :
    s.builders = [] := (h.inv hp ht hm).2 hc

/-- **Idle ⇒ zero.**  When nothing is queued, nothing is in flight and no caller holds a granted
    reservation, the peer's accounted memory is 0 — whatever happened before (failures, scrubbing,
    retries, extension data, shared blocks). -/
theorem idle_zero {s : MQ.State} (h : SoloReachable pick peer mr mt mp s) (hpc : s.pc = .idle)
    (hb0 : ∀ b ∈ s.builders, b.empty = true) (hw : ∀ w ∈ s.waiters, w.answer = none) :
    allocatedFor s.alloc s.peer = 0 := by
  have h' := (h.inv hp ht hm).1
  · have hl := h'.ledger
    have h1 : heldBuilders s = 0 := by
      rw [heldBuilders_eq]
      have : ∀ (bs : List Builder), (∀ b ∈ bs, BInv b) → (∀ b ∈ bs, b.empty = true) → hb bs = 0 := by
        intro bs
        induction bs with
        | nil => intros; rfl
        | cons b r ih =>
          intro hi he
          rw [hb_cons, empty_accounted (hi b (by simp)) (he b (by simp)),
            ih (fun x hx => hi x (List.mem_cons_of_mem _ hx)) (fun x hx => he x (List.mem_cons_of_mem _ hx))]
      exact this _ h'.binv hb0
    have h2 : heldInFlight s = 0 := heldInFlight_idle hpc
    have h3 : heldGranted s = 0 := by
      unfold heldGranted
      have : s.waiters.filter (·.answer == some true) = [] := by
        apply List.filter_eq_nil_iff.mpr
        intro w hw'; rw [hw w hw']; simp
      rw [this]; rfl
    show allocatedFor s.alloc s.peer = 0
    unfold held at hl; unfold tot at hl; omega

/-- **Exit ⇒ zero.**  The step in which the queue goroutine exits (`ReleasePeerMemory` in the
    deferred function of `runQueue`) leaves nothing accounted to the peer. -/
theorem exit_zero {s : MQ.State} (h : SoloReachable pick peer mr mt mp s) (hpc : s.pc = .exiting) (ok : Bool) :
    allocatedFor (s.ack pick ok).alloc s.peer = 0 ∧ (s.ack pick ok).pc = .exited := by
  have hinv : Alloc.Inv s.alloc := (h.inv hp ht hm).1.led.1.ainv
  unfold State.ack
  rw [hpc]
  simp only
  refine ⟨?_, trivial⟩
  show allocatedFor ((s.allocStep pick (.releasePeer s.peer)).1.emit [Event.exitCallback]).alloc s.peer = 0
  rw [(emit_frame _ _).alloc]
  exact (releasePeer_own hp hinv s.peer).2.2.2

end

/-- The allocator events recorded in the log of a reachable state are exactly the events of an
    allocator history from `NewAllocator`, and the allocator is in the state after that history. -/
theorem log_is_allocator_history {pick : Pick} {peer mr mt mp : Nat} {s : MQ.State}
    (h : Reachable pick peer mr mt mp s) :
    ∃ ops : List Alloc.Op, s.alloc = (Alloc.run pick (Alloc.init mt mp) ops).1 ∧
      memOf s.log = (Alloc.run pick (Alloc.init mt mp) ops).2 := by
  obtain ⟨acts, rfl⟩ := h
  obtain ⟨ops, h1, h2⟩ := (runActs_ext pick (init peer mr mt mp) acts).ops
  have e : memOf (MQ.init peer mr mt mp).log = [] := rfl
  rw [e, List.nil_append] at h2
  exact ⟨ops, h1, h2⟩

section
variable {pick : Pick} (hp : Admissible pick) {peer mr mt mp : Nat} (ht : mt < W) (hm : mp < W)
include hp ht hm

/-- **Exactly once, as sums over the whole history** (partial = under the assumptions of `SoloReachable`):
    the bytes ever granted to the peer = the bytes ever released by it + the bytes still held by
    queued builders, the message in flight and granted-but-not-yet-built reservations.  Together
    with C13 `release_clamped` (a release never exceeds what is accounted) no byte is released twice
    and none is forgotten. -/
theorem exactly_once_sums {s : MQ.State} (h : SoloReachable pick peer mr mt mp s) :
    grantedSum s.peer (memOf s.log) =
      releasedSum s.peer (memOf s.log) + (heldBuilders s + heldInFlight s + heldGranted s) := by
  obtain ⟨ops, h1, h2⟩ := log_is_allocator_history h.reachable
  have hl := GS.C13.ledger_sums hp ht hm ops s.peer
  rw [← h1, ← h2] at hl
  have := exactly_once_partial hp ht hm h
  omega

end

/-- **Reserved first.**  On every schedule: whenever a build function ran for a transaction that
    carries bytes (`built ticket … size …` with `size > 0`), the allocator had granted that
    transaction's reservation (`granted peer ticket …` is in the history) — data never enters a
    builder on the strength of a refused or missing reservation. -/
theorem reserved_first {pick : Pick} {peer mr mt mp : Nat} {s : MQ.State} (h : Reachable pick peer mr mt mp s)
    (t topic size used : Nat) (hb : MQ.Event.built t topic size used ∈ s.log) (hs : size > 0) :
    ∃ a, MQ.Event.mem (.granted s.peer t a) ∈ s.log := by
  obtain ⟨acts, rfl⟩ := h
  exact ((runActs_ext pick (init peer mr mt mp) acts).rfw (init_RFW peer mr mt mp)).built t topic size used hb hs

/-- **Regression witness of the repaired defect `dead-queue-leak`** (fixed by `fix: messagequeue: fail
    messages built on a closed queue`).  Shutdown, the loop takes the done branch, the goroutine exits;
    then a transaction with a 1000-byte block is built through a stale handle.  With the OLD
    `buildMessage` 1000 bytes stay accounted to the peer of a queue that will never send or release
    them (every later `run`/`ack` is a no-op) and the subscriber is told nothing; with the repaired one
    nothing stays accounted, nothing is queued, and the subscriber has `[Error, close]`. -/
theorem dead_queue_regression :
    (∃ s, s = MQ.buildOld pickMin (runActs pickMin (init 0 1 (2^30) (2^30)) [.shutdown, .run true, .ack true])
        { who := .response, req := 0, sub := 7, items := [.block 1 1000 true] } ∧
      s.pc = .exited ∧ allocatedFor s.alloc s.peer = 1000 ∧ seqOf 7 0 s.log = [] ∧
      (∀ ok, s.ack pickMin ok = s) ∧ (∀ pw, s.run pickMin pw = s)) ∧
    (∃ s, SoloReachable pickMin 0 1 (2^30) (2^30) s ∧
      s = runActs pickMin (init 0 1 (2^30) (2^30)) [.shutdown, .run true, .ack true,
        .build { who := .response, req := 0, sub := 7, items := [.block 1 1000 true] }] ∧
      s.pc = .exited ∧ allocatedFor s.alloc s.peer = 0 ∧ s.builders = [] ∧
      seqOf 7 0 s.log = [.error, .close] ∧ 0 ∈ s.closedStreams) :=
  ⟨⟨_, rfl, by decide, by decide, by decide, fun ok => ack_exited _ _ _ (by decide), fun pw => run_exited _ _ _ (by decide)⟩,
   ⟨_, ⟨_, by decide, by decide, rfl⟩, rfl, by decide, by decide, by decide, by decide, by decide⟩⟩

/-- **(S) is false when the goroutine exits while a granted reservation is on its way to
    `buildMessage`** (the assumption dropped is `cleanFrom`; known finding `dead-queue-over-release`,
    narrowed to this window).  Peer limit 1500: message 0 (1000 bytes) is in flight, the caller of
    message 1 (1000 bytes) waits; message 0 is sent, its release grants the waiter's reservation; before
    the waiter continues the queue is shut down and its goroutine exits: `ReleasePeerMemory` wipes the
    granted 1000 bytes — 0 accounted, 1000 held by the caller.  When the caller continues its message
    is rejected and `ReleaseBlockMemory(1000)` finds no entry (a no-op here; with a successor queue's
    entry present it would take 1000 of the successor's bytes). -/
theorem wiped_waiter_counterexample :
    ∃ s, Reachable pickMin 0 1 (2^30) 1500 s ∧ soloFrom pickMin (init 0 1 (2^30) 1500)
        [.build { who := .response, req := 0, sub := 0, items := [.block 1 1000 true] }, .run true, .ack true,
         .build { who := .response, req := 1, sub := 1, items := [.block 2 1000 true] }, .ack true,
         .shutdown, .run false, .ack true] = true ∧
      s.pc = .exited ∧ heldGranted s = 1000 ∧ allocatedFor s.alloc s.peer = 0 ∧
      MQ.Event.mem .errNoPeer ∈ (MQ.step pickMin s (.wake 1)).log ∧ MQ.Event.mem .errNoPeer ∉ s.log :=
  ⟨runActs pickMin (init 0 1 (2^30) 1500)
      [.build { who := .response, req := 0, sub := 0, items := [.block 1 1000 true] }, .run true, .ack true,
       .build { who := .response, req := 1, sub := 1, items := [.block 2 1000 true] }, .ack true,
       .shutdown, .run false, .ack true],
    ⟨_, rfl⟩, by decide, by decide, by decide, by decide, by decide, by decide⟩

/-- **(S) is false while two queues of one peer overlap** (known finding
    `overlap-release-wipes-successor`; the assumption dropped is `SoloReachable`): this queue (the
    successor) has a 2000-byte message in flight; the old queue of the same peer, which held 1000
    bytes, finishes its message and exits — its deferred `ReleasePeerMemory(peer)` removes the peer's
    whole allocator entry: 0 bytes are accounted while 2000 reserved bytes are unsent, and the later
    release of those bytes finds no entry.  Replayed on the real peermanager + messagequeue +
    allocator (corpus/C15/known-overlap.cases drives the same allocator calls against a real queue). -/
theorem successor_wiped_counterexample :
    ∃ s, Reachable pickMin 0 1 (2^30) (2^30) s ∧ s.pc ≠ .exited ∧ heldInFlight s = 2000 ∧
      allocatedFor s.alloc s.peer = 0 :=
  ⟨runActs pickMin (init 0 1 (2^30) (2^30))
      [.env (.alloc 0 1000 900),            -- the old queue's reservation
       .build { who := .response, req := 0, sub := 0, items := [.block 1 2000 true] }, .run true, .ack true,
       .env (.release 0 1000),              -- the old queue's message is sent …
       .env (.releasePeer 0)],              -- … and the old queue exits
    ⟨_, rfl⟩, by decide, by decide, by decide⟩

/-- non-vacuity of `exactly_once_partial`: a reachable state with a builder queued (600000 bytes),
    a message in flight (1000 bytes + 503 extension bytes) and a caller waiting for memory -/
example : ∃ s, SoloReachable pickMin 0 1 (2^30) 700000 s ∧ s.pc ≠ .exited ∧ heldBuilders s = 600000 ∧
    heldInFlight s = 1503 ∧ s.waiters.length = 1 ∧ allocatedFor s.alloc s.peer = 601503 :=
  ⟨runActs pickMin (init 0 1 (2^30) 700000)
      [.build { who := .response, req := 0, sub := 0, items := [.block 1 1000 true, .ext 503] },
       .run true, .ack true,
       .build { who := .response, req := 1, sub := 1, items := [.block 2 600000 true] },
       .build { who := .response, req := 0, sub := 0, items := [.block 3 300000 true] }],
    ⟨_, by decide, by decide, rfl⟩, by decide, by decide, by decide, by decide, by decide⟩

end GS.C15
