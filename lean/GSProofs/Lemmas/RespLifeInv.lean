import GSProofs.Lemmas.RespLifeAb
/-!
The lifecycle invariant `LInv` of the responder model, on the abstraction `Acc` (entries by id, pending /
active topics by peer, worker kinds, StartTask / FinishTask messages in the mailbox, pending `new`
messages, parked `newRequest` / `unpauseRequest`), and its preservation under each kind of transition,
stated purely on `Acc`.
-/
namespace GS.RespLife

structure Acc where
  ent : Id → Option (Peer × RState × Option Nat)
  pend : Peer → List Id
  act : Peer → List Id
  wk : List (Peer × Id × WKind)
  starts : List Nat
  fins : List Nat
  news : List (Peer × Id)
  pnew : Option (Peer × Id)
  punp : Option Id

def fupd {α : Type} (f : Nat → α) (k : Nat) (v : α) : Nat → α := fun j => if j = k then v else f j

@[simp] theorem fupd_same {α : Type} (f : Nat → α) (k : Nat) (v : α) : fupd f k v k = v := by simp [fupd]
theorem fupd_other {α : Type} (f : Nat → α) (k : Nat) (v : α) {j : Nat} (h : j ≠ k) : fupd f k v j = f j := by
  simp [fupd, h]

def setK (wk : List (Peer × Id × WKind)) (w : Nat) (k : WKind) : List (Peer × Id × WKind) :=
  wk.mapIdx fun i t => if i == w then (t.1, t.2.1, k) else t

theorem setK_get (wk : List (Peer × Id × WKind)) (w : Nat) (k : WKind) (i : Nat) :
    (setK wk w k)[i]? = if i = w then (wk[i]?).map (fun t => (t.1, t.2.1, k)) else wk[i]? := by
  simp only [setK, List.getElem?_mapIdx]
  by_cases h : i = w
  · subst h; cases wk[i]? <;> simp
  · have : (i == w) = false := by simpa using h
    cases wk[i]? <;> simp [this, h]

namespace Acc

def liveW (x : Acc) (i : Nat) (p : Peer) (id : Id) : Prop := ∃ k, x.wk[i]? = some (p, id, k) ∧ k ≠ .done
def kindAt (x : Acc) (i : Nat) : Option WKind := (x.wk[i]?).map (·.2.2)

def Clean (x : Acc) (id : Id) : Prop :=
  x.ent id = none ∧ (∀ p, id ∉ x.pend p ∧ id ∉ x.act p) ∧ (∀ i p, ¬ x.liveW i p id)

def EntryOK (x : Acc) (id : Id) (p : Peer) (st : RState) (t : Option Nat) : Prop :=
  match st with
  | .queued => (id ∈ x.pend p ∧ ∀ i, ¬ x.liveW i p id) ∨
               (id ∉ x.pend p ∧ ∃ i, x.liveW i p id ∧ x.kindAt i = some .waitStart) ∨
               (x.punp = some id ∧ id ∉ x.pend p ∧ ∀ i, ¬ x.liveW i p id)
  | .running => id ∉ x.pend p ∧ ∃ i, x.liveW i p id ∧ t = some i ∧ x.kindAt i ≠ some .waitStart
  | .paused => id ∉ x.pend p ∧ ∀ i, ¬ x.liveW i p id
  | .completing => id ∉ x.pend p ∧ ∀ i, x.liveW i p id → x.kindAt i = some .waitStart

end Acc

open Acc in
structure LInv (x : Acc) : Prop where
  disj : ∀ p id, id ∈ x.pend p → id ∉ x.act p
  actLive : ∀ p id, id ∈ x.act p ↔ ∃ i, x.liveW i p id
  liveUniq : ∀ i j p id, x.liveW i p id → x.liveW j p id → i = j
  startsIff : ∀ i, i ∈ x.starts ↔ x.kindAt i = some .waitStart
  startsNodup : x.starts.Nodup
  finsIff : ∀ i, i ∈ x.fins ↔ x.kindAt i = some .waitFinish
  finsNodup : x.fins.Nodup
  own : ∀ i p id, x.liveW i p id → ∀ e, x.ent id = some e → e.1 = p
  ownP : ∀ p id, id ∈ x.pend p → ∀ e, x.ent id = some e → e.1 = p
  entry : ∀ id p st t, x.ent id = some (p, st, t) → x.EntryOK id p st t
  newsClean : ∀ k ∈ x.news, x.Clean k.2
  newsIds : (x.news.map Prod.snd).Nodup
  pnewClean : ∀ k, x.pnew = some k → x.Clean k.2 ∧ k.2 ∉ x.news.map Prod.snd
  punpOK : ∀ id, x.punp = some id →
    (∃ p t, x.ent id = some (p, .queued, t) ∧ id ∉ x.pend p ∧ ∀ i, ¬ x.liveW i p id) ∧ x.pnew = none

namespace Acc
/-- `EntryOK` only looks at `pend`, `wk`, `punp` -/
theorem EntryOK.congr {x y : Acc} (hp : y.pend = x.pend) (hw : y.wk = x.wk) (hu : y.punp = x.punp)
    {id : Id} {p : Peer} {st : RState} {t : Option Nat} (h : x.EntryOK id p st t) : y.EntryOK id p st t := by
  have hl : ∀ i p id, y.liveW i p id ↔ x.liveW i p id := by intro i p id; simp [liveW, hw]
  have hk : ∀ i, y.kindAt i = x.kindAt i := by intro i; simp [kindAt, hw]
  cases st <;> simp only [EntryOK, hp, hu, hl, hk] at h ⊢ <;> exact h

/-- `EntryOK` for `(id, p)` only looks at whether `id` is pending for `p`, at `wk` and at `punp` -/
theorem EntryOK.congr' {x y : Acc} {id : Id} {p : Peer} (hp : id ∈ y.pend p ↔ id ∈ x.pend p) (hw : y.wk = x.wk)
    (hu : y.punp = some id ↔ x.punp = some id)
    {st : RState} {t : Option Nat} (h : x.EntryOK id p st t) : y.EntryOK id p st t := by
  have hl : ∀ i p id, y.liveW i p id ↔ x.liveW i p id := by intro i p id; simp [liveW, hw]
  have hk : ∀ i, y.kindAt i = x.kindAt i := by intro i; simp [kindAt, hw]
  cases st <;> simp only [EntryOK, hp, hu, hl, hk] at h ⊢ <;> exact h

theorem Clean.congr {x y : Acc} (he : y.ent = x.ent) (hp : y.pend = x.pend) (ha : y.act = x.act) (hw : y.wk = x.wk)
    {id : Id} (h : x.Clean id) : y.Clean id := by
  have hl : ∀ i p id, y.liveW i p id ↔ x.liveW i p id := by intro i p id; simp [liveW, hw]
  simp only [Clean, he, hp, ha, hl]
  exact h
end Acc

open Acc

-- ------------------------------------------------------------------ `new` messages
theorem LInv.recvNew {x : Acc} (h : LInv x) (p : Peer) (id : Id) (hc : x.Clean id)
    (hn : id ∉ x.news.map Prod.snd) (hp : ∀ k, x.pnew = some k → k.2 ≠ id) :
    LInv { x with news := x.news ++ [(p, id)] } := by
  refine ⟨h.disj, h.actLive, h.liveUniq, h.startsIff, h.startsNodup, h.finsIff, h.finsNodup, h.own, h.ownP,
    h.entry, ?_, ?_, ?_, h.punpOK⟩
  · intro k hk
    rcases List.mem_append.1 hk with hk | hk
    · exact h.newsClean k hk
    · simp only [List.mem_singleton] at hk; subst hk; exact hc
  · show ((x.news ++ [(p, id)]).map Prod.snd).Nodup
    rw [List.map_append, List.nodup_append]
    refine ⟨h.newsIds, by simp, ?_⟩
    intro a ha b hb
    simp only [List.map_cons, List.map_nil, List.mem_singleton] at hb
    subst hb
    intro e; subst e; exact hn ha
  · intro k hk
    obtain ⟨h1, h2⟩ := h.pnewClean k hk
    refine ⟨h1, ?_⟩
    show k.2 ∉ (x.news ++ [(p, id)]).map Prod.snd
    rw [List.map_append, List.mem_append]
    rintro (hm | hm)
    · exact h2 hm
    · simp only [List.map_cons, List.map_nil, List.mem_singleton] at hm
      exact hp k hk hm

theorem LInv.dropNews {x : Acc} (h : LInv x) (k : Peer × Id) (rest : List (Peer × Id)) (hn : x.news = k :: rest) :
    LInv { x with news := rest } := by
  have hsub : ∀ a ∈ rest, a ∈ x.news := by intro a ha; rw [hn]; exact List.mem_cons_of_mem _ ha
  refine ⟨h.disj, h.actLive, h.liveUniq, h.startsIff, h.startsNodup, h.finsIff, h.finsNodup, h.own, h.ownP,
    h.entry, fun a ha => h.newsClean a (hsub a ha), ?_, ?_, h.punpOK⟩
  · have := h.newsIds
    rw [hn, List.map_cons, List.nodup_cons] at this
    exact this.2
  · intro a ha
    obtain ⟨h1, h2⟩ := h.pnewClean a ha
    refine ⟨h1, ?_⟩
    intro hm
    apply h2
    rw [hn, List.map_cons]
    exact List.mem_cons_of_mem _ hm

/-- the id at the head of the pending `new` messages is clean and differs from the other pending ids -/
theorem LInv.headNews {x : Acc} (h : LInv x) {p : Peer} {id : Id} {rest : List (Peer × Id)}
    (hn : x.news = (p, id) :: rest) : x.Clean id ∧ id ∉ rest.map Prod.snd := by
  refine ⟨h.newsClean (p, id) (by rw [hn]; exact List.mem_cons_self), ?_⟩
  have := h.newsIds
  rw [hn, List.map_cons, List.nodup_cons] at this
  exact this.1

theorem clean_other {x : Acc} {id id' : Id} {v : Option (Peer × RState × Option Nat)} (hne : id' ≠ id)
    (h : x.Clean id') : ({ x with ent := fupd x.ent id v } : Acc).Clean id' := by
  refine ⟨?_, h.2.1, h.2.2⟩
  show fupd x.ent id v id' = none
  rw [fupd_other _ _ _ hne]; exact h.1

/-- registering a request that is not queued (rejected / hook error: CompletingSend; paused by its hook) -/
theorem LInv.register {x : Acc} (h : LInv x) (p : Peer) (id : Id) (st : RState) (hst : st = .completing ∨ st = .paused)
    (hc : x.Clean id) (hnews : id ∉ x.news.map Prod.snd) (hpn : ∀ k, x.pnew = some k → k.2 ≠ id)
    (hun : x.punp = none) :
    LInv { x with ent := fupd x.ent id (some (p, st, none)) } := by
  obtain ⟨hc1, hc2, hc3⟩ := hc
  refine ⟨h.disj, h.actLive, h.liveUniq, h.startsIff, h.startsNodup, h.finsIff, h.finsNodup, ?_, ?_, ?_, ?_,
    h.newsIds, ?_, ?_⟩
  · intro i p' id' hl e he
    by_cases hid : id' = id
    · subst hid; exact absurd hl (hc3 i p')
    · exact h.own i p' id' hl e (by simpa [fupd, hid] using he)
  · intro p' id' hm e he
    by_cases hid : id' = id
    · subst hid; exact absurd hm (hc2 p').1
    · exact h.ownP p' id' hm e (by simpa [fupd, hid] using he)
  · intro id' p' st' t' he
    by_cases hid : id' = id
    · subst hid
      simp only [fupd_same, Option.some.injEq, Prod.mk.injEq] at he
      obtain ⟨rfl, rfl, rfl⟩ := he
      rcases hst with rfl | rfl
      · exact ⟨(hc2 p).1, fun i hl => absurd hl (hc3 i p)⟩
      · exact ⟨(hc2 p).1, fun i => hc3 i p⟩
    · have he' : x.ent id' = some (p', st', t') := by simpa [fupd, hid] using he
      exact EntryOK.congr rfl rfl rfl (h.entry id' p' st' t' he')
  · intro k hk
    have hne : k.2 ≠ id := by
      intro e; apply hnews; rw [← e]; exact List.mem_map.2 ⟨k, hk, rfl⟩
    exact clean_other hne (h.newsClean k hk)
  · intro k hk
    obtain ⟨h1, h2⟩ := h.pnewClean k hk
    exact ⟨clean_other (hpn k hk) h1, h2⟩
  · intro id' hu
    have : x.punp = some id' := hu
    rw [hun] at this; cases this

theorem mem_filter_ne {l : List Id} {a id : Id} : a ∈ l.filter (· != id) ↔ a ∈ l ∧ a ≠ id := by
  simp [List.mem_filter]

/-- registering an accepted request: state Queued and its task pushed -/
theorem LInv.registerQueued {x : Acc} (h : LInv x) (p : Peer) (id : Id)
    (hc : x.Clean id) (hnews : id ∉ x.news.map Prod.snd) (hpn : ∀ k, x.pnew = some k → k.2 ≠ id)
    (hun : x.punp = none) :
    LInv { x with ent := fupd x.ent id (some (p, .queued, none)), pend := fupd x.pend p (x.pend p ++ [id]) } := by
  obtain ⟨hc1, hc2, hc3⟩ := hc
  have hpend : ∀ q a, a ∈ fupd x.pend p (x.pend p ++ [id]) q ↔ (a ∈ x.pend q ∨ (q = p ∧ a = id)) := by
    intro q a
    by_cases hq : q = p
    · subst hq; simp [fupd_same, List.mem_append]
    · rw [fupd_other _ _ _ hq]; simp [hq]
  refine ⟨?_, h.actLive, h.liveUniq, h.startsIff, h.startsNodup, h.finsIff, h.finsNodup, ?_, ?_, ?_, ?_,
    h.newsIds, ?_, ?_⟩
  · intro q a ha
    rcases (hpend q a).1 ha with h1 | ⟨rfl, rfl⟩
    · exact h.disj q a h1
    · exact (hc2 _).2
  · intro i p' id' hl e he
    by_cases hid : id' = id
    · subst hid; exact absurd hl (hc3 i p')
    · exact h.own i p' id' hl e (by simpa [fupd, hid] using he)
  · intro q a ha e he
    rcases (hpend q a).1 ha with h1 | ⟨rfl, rfl⟩
    · by_cases hid : a = id
      · subst hid; exact absurd h1 (hc2 q).1
      · exact h.ownP q a h1 e (by simpa [fupd, hid] using he)
    · simp only [fupd_same, Option.some.injEq] at he
      rw [← he]
  · intro id' p' st' t' he
    by_cases hid : id' = id
    · subst hid
      simp only [fupd_same, Option.some.injEq, Prod.mk.injEq] at he
      obtain ⟨rfl, rfl, rfl⟩ := he
      left
      exact ⟨(hpend _ _).2 (Or.inr ⟨rfl, rfl⟩), fun i => hc3 i _⟩
    · have he' : x.ent id' = some (p', st', t') := by simpa [fupd, hid] using he
      refine EntryOK.congr' (x := x) ?_ (by rfl) (by exact Iff.rfl) (h.entry id' p' st' t' he')
      show id' ∈ fupd x.pend p (x.pend p ++ [id]) p' ↔ _
      rw [hpend]
      exact ⟨fun h => h.elim (fun h' => h') (fun h' => absurd h'.2 hid), Or.inl⟩
  · intro k hk
    have hne : k.2 ≠ id := by
      intro e; apply hnews; rw [← e]; exact List.mem_map.2 ⟨k, hk, rfl⟩
    obtain ⟨g1, g2, g3⟩ := h.newsClean k hk
    refine ⟨by show fupd x.ent id _ k.2 = none; rw [fupd_other _ _ _ hne]; exact g1, ?_, g3⟩
    intro q
    refine ⟨?_, (g2 q).2⟩
    rw [hpend]
    rintro (h1 | ⟨_, h1⟩)
    · exact (g2 q).1 h1
    · exact hne h1
  · intro k hk
    obtain ⟨⟨g1, g2, g3⟩, h2⟩ := h.pnewClean k hk
    have hne := hpn k hk
    refine ⟨⟨by show fupd x.ent id _ k.2 = none; rw [fupd_other _ _ _ hne]; exact g1, ?_, g3⟩, h2⟩
    intro q
    refine ⟨?_, (g2 q).2⟩
    rw [hpend]
    rintro (h1 | ⟨_, h1⟩)
    · exact (g2 q).1 h1
    · exact hne h1
  · intro id' hu
    have : x.punp = some id' := hu
    rw [hun] at this; cases this

/-- retiring an entry (terminateRequest), optionally after TaskQueue.Remove took its task out of `pend` -/
theorem LInv.retire {x : Acc} (h : LInv x) (p : Peer) (id : Id) (hun : x.punp = none)
    (pend' : Peer → List Id) (hsub : ∀ q a, a ∈ pend' q → a ∈ x.pend q)
    (hsame : ∀ q a, a ≠ id → a ∈ x.pend q → a ∈ pend' q) :
    LInv { x with ent := fupd x.ent id none, pend := pend' } := by
  refine ⟨fun q a ha => h.disj q a (hsub q a ha), h.actLive, h.liveUniq, h.startsIff, h.startsNodup, h.finsIff,
    h.finsNodup, ?_, ?_, ?_, ?_, h.newsIds, ?_, ?_⟩
  · intro i p' id' hl e he
    by_cases hid : id' = id
    · subst hid; simp [fupd] at he
    · exact h.own i p' id' hl e (by simpa [fupd, hid] using he)
  · intro q a ha e he
    by_cases hid : a = id
    · subst hid; simp [fupd] at he
    · exact h.ownP q a (hsub q a ha) e (by simpa [fupd, hid] using he)
  · intro id' p' st' t' he
    by_cases hid : id' = id
    · subst hid; simp [fupd] at he
    · have he' : x.ent id' = some (p', st', t') := by simpa [fupd, hid] using he
      refine EntryOK.congr' (x := x) ?_ (by rfl) (by exact Iff.rfl) (h.entry id' p' st' t' he')
      exact ⟨hsub p' id', hsame p' id' hid⟩
  · intro k hk
    obtain ⟨g1, g2, g3⟩ := h.newsClean k hk
    refine ⟨?_, fun q => ⟨fun hm => (g2 q).1 (hsub q _ hm), (g2 q).2⟩, g3⟩
    show fupd x.ent id none k.2 = none
    by_cases hid : k.2 = id
    · rw [hid]; simp [fupd]
    · rw [fupd_other _ _ _ hid]; exact g1
  · intro k hk
    obtain ⟨⟨g1, g2, g3⟩, h2⟩ := h.pnewClean k hk
    refine ⟨⟨?_, fun q => ⟨fun hm => (g2 q).1 (hsub q _ hm), (g2 q).2⟩, g3⟩, h2⟩
    show fupd x.ent id none k.2 = none
    by_cases hid : k.2 = id
    · rw [hid]; simp [fupd]
    · rw [fupd_other _ _ _ hid]; exact g1
  · intro id' hu
    have : x.punp = some id' := hu
    rw [hun] at this; cases this

-- ------------------------------------------------------------------ worker kinds
theorem liveW_setK {x : Acc} {w : Nat} {k : WKind} {wk' : List (Peer × Id × WKind)} (hw : wk' = setK x.wk w k)
    (i : Nat) (p : Peer) (id : Id) :
    ({ x with wk := wk' } : Acc).liveW i p id ↔
      if i = w then (∃ k0, x.wk[w]? = some (p, id, k0)) ∧ k ≠ .done else x.liveW i p id := by
  subst hw
  simp only [liveW, setK_get]
  by_cases hi : i = w
  · subst hi
    simp only [if_true]
    cases hx : x.wk[i]? with
    | none => simp
    | some t =>
      obtain ⟨a, b, c⟩ := t
      simp only [Option.map_some, Option.some.injEq, Prod.mk.injEq]
      constructor
      · rintro ⟨k1, ⟨rfl, rfl, rfl⟩, hk⟩; exact ⟨⟨c, rfl, rfl, rfl⟩, hk⟩
      · rintro ⟨⟨k0, rfl, rfl, rfl⟩, hk⟩; exact ⟨k, ⟨rfl, rfl, rfl⟩, hk⟩
  · simp [hi]

theorem kindAt_setK {x : Acc} {w : Nat} {k : WKind} {wk' : List (Peer × Id × WKind)} (hw : wk' = setK x.wk w k)
    (i : Nat) :
    ({ x with wk := wk' } : Acc).kindAt i = if i = w then (x.wk[w]?).map (fun _ => k) else x.kindAt i := by
  subst hw
  simp only [kindAt, setK_get]
  by_cases hi : i = w
  · subst hi; cases x.wk[i]? <;> simp
  · simp [hi]

/-- a worker segment (`wstep`): worker `w` (kind mid or fin) ends in kind mid / fin -/
theorem LInv.wkind {x : Acc} (h : LInv x) (w : Nat) (k : WKind) (hk : k = .mid ∨ k = .fin)
    (hold : x.kindAt w = some .mid ∨ x.kindAt w = some .fin) :
    LInv { x with wk := setK x.wk w k } := by
  have hkd : k ≠ .done := by rcases hk with rfl | rfl <;> simp
  have hkws : k ≠ .waitStart := by rcases hk with rfl | rfl <;> simp
  have hkwf : k ≠ .waitFinish := by rcases hk with rfl | rfl <;> simp
  obtain ⟨t0, ht0⟩ : ∃ t, x.wk[w]? = some t := by
    cases hx : x.wk[w]? with
    | none => simp [kindAt, hx] at hold
    | some t => exact ⟨t, rfl⟩
  obtain ⟨p0, id0, k0⟩ := t0
  have hk0 : k0 = .mid ∨ k0 = .fin := by simpa [kindAt, ht0] using hold
  have hk0d : k0 ≠ .done := by rcases hk0 with rfl | rfl <;> simp
  -- liveness is unchanged
  have hl : ∀ i p id, ({ x with wk := setK x.wk w k } : Acc).liveW i p id ↔ x.liveW i p id := by
    intro i p id
    rw [liveW_setK rfl]
    by_cases hi : i = w
    · subst hi
      simp only [if_true, liveW, ht0, Option.some.injEq, Prod.mk.injEq]
      constructor
      · rintro ⟨⟨k1, rfl, rfl, rfl⟩, _⟩; exact ⟨k0, ⟨rfl, rfl, rfl⟩, hk0d⟩
      · rintro ⟨k1, ⟨rfl, rfl, rfl⟩, _⟩; exact ⟨⟨k0, rfl, rfl, rfl⟩, hkd⟩
    · simp [hi]
  have hkind : ∀ i, ({ x with wk := setK x.wk w k } : Acc).kindAt i = if i = w then some k else x.kindAt i := by
    intro i; rw [kindAt_setK rfl]
    by_cases hi : i = w
    · subst hi; simp [ht0]
    · simp [hi]
  have hws : ∀ i, ({ x with wk := setK x.wk w k } : Acc).kindAt i = some .waitStart ↔ x.kindAt i = some .waitStart := by
    intro i; rw [hkind]
    by_cases hi : i = w
    · subst hi
      simp only [if_true, Option.some.injEq]
      constructor
      · intro e; exact absurd e hkws
      · intro e; rcases hold with h1 | h1 <;> rw [h1] at e <;> cases e
    · simp [hi]
  have hwf : ∀ i, ({ x with wk := setK x.wk w k } : Acc).kindAt i = some .waitFinish ↔ x.kindAt i = some .waitFinish := by
    intro i; rw [hkind]
    by_cases hi : i = w
    · subst hi
      simp only [if_true, Option.some.injEq]
      constructor
      · intro e; exact absurd e hkwf
      · intro e; rcases hold with h1 | h1 <;> rw [h1] at e <;> cases e
    · simp [hi]
  refine ⟨h.disj, ?_, ?_, ?_, h.startsNodup, ?_, h.finsNodup, ?_, h.ownP, ?_, ?_, h.newsIds, ?_, ?_⟩
  · intro p id; rw [h.actLive]; simp only [hl]
  · intro i j p id h1 h2; exact h.liveUniq i j p id ((hl _ _ _).1 h1) ((hl _ _ _).1 h2)
  · intro i; rw [hws]; exact h.startsIff i
  · intro i; rw [hwf]; exact h.finsIff i
  · intro i p id h1; exact h.own i p id ((hl _ _ _).1 h1)
  · intro id p st t he
    have := h.entry id p st t he
    cases st <;> simp only [EntryOK, hl, hws] at this ⊢ <;> try exact this
    -- running
    obtain ⟨h1, i, h2, h3, h4⟩ := this
    refine ⟨h1, i, h2, h3, ?_⟩
    intro e; exact h4 ((hws i).1 e)
  · intro a ha
    obtain ⟨g1, g2, g3⟩ := h.newsClean a ha
    exact ⟨g1, g2, fun i p hli => g3 i p ((hl _ _ _).1 hli)⟩
  · intro a ha
    obtain ⟨⟨g1, g2, g3⟩, h2⟩ := h.pnewClean a ha
    exact ⟨⟨g1, g2, fun i p hli => g3 i p ((hl _ _ _).1 hli)⟩, h2⟩
  · intro id hu
    obtain ⟨⟨p, t, g1, g2, g3⟩, g4⟩ := h.punpOK id hu
    exact ⟨⟨p, t, g1, g2, fun i hli => g3 i ((hl _ _ _).1 hli)⟩, g4⟩

/-- changing the kind of a live worker to another live kind keeps liveness; kinds change only at `w` -/
theorem setK_live {x : Acc} {w : Nat} {k k0 : WKind} {p0 : Peer} {id0 : Id} (ht0 : x.wk[w]? = some (p0, id0, k0))
    (hk0d : k0 ≠ .done) (hkd : k ≠ .done) :
    (∀ i p id, ({ x with wk := setK x.wk w k } : Acc).liveW i p id ↔ x.liveW i p id) ∧
    (∀ i, ({ x with wk := setK x.wk w k } : Acc).kindAt i = if i = w then some k else x.kindAt i) := by
  constructor
  · intro i p id
    rw [liveW_setK rfl]
    by_cases hi : i = w
    · subst hi
      simp only [if_true, liveW, ht0, Option.some.injEq, Prod.mk.injEq]
      constructor
      · rintro ⟨⟨k1, rfl, rfl, rfl⟩, _⟩; exact ⟨k0, ⟨rfl, rfl, rfl⟩, hk0d⟩
      · rintro ⟨k1, ⟨rfl, rfl, rfl⟩, _⟩; exact ⟨⟨k0, rfl, rfl, rfl⟩, hkd⟩
    · simp [hi]
  · intro i; rw [kindAt_setK rfl]
    by_cases hi : i = w
    · subst hi; simp [ht0]
    · simp [hi]

/-- a worker segment that ends with FinishTask: kind waitFinish, message appended -/
theorem LInv.wfinish {x : Acc} (h : LInv x) (w : Nat)
    (hold : x.kindAt w = some .mid ∨ x.kindAt w = some .fin) :
    LInv { x with wk := setK x.wk w .waitFinish, fins := x.fins ++ [w] } := by
  obtain ⟨t0, ht0⟩ : ∃ t, x.wk[w]? = some t := by
    cases hx : x.wk[w]? with
    | none => simp [kindAt, hx] at hold
    | some t => exact ⟨t, rfl⟩
  obtain ⟨p0, id0, k0⟩ := t0
  have hk0 : k0 = .mid ∨ k0 = .fin := by simpa [kindAt, ht0] using hold
  have hk0d : k0 ≠ .done := by rcases hk0 with rfl | rfl <;> simp
  obtain ⟨hl0, hkind0⟩ := setK_live (k := .waitFinish) ht0 hk0d (by simp)
  have hl : ∀ i p id, ({ x with wk := setK x.wk w .waitFinish, fins := x.fins ++ [w] } : Acc).liveW i p id ↔ x.liveW i p id :=
    hl0
  have hkind : ∀ i, ({ x with wk := setK x.wk w .waitFinish, fins := x.fins ++ [w] } : Acc).kindAt i =
      if i = w then some .waitFinish else x.kindAt i := hkind0
  have hws : ∀ i, ({ x with wk := setK x.wk w .waitFinish, fins := x.fins ++ [w] } : Acc).kindAt i = some .waitStart ↔
      x.kindAt i = some .waitStart := by
    intro i; rw [hkind]
    by_cases hi : i = w
    · subst hi
      simp only [if_true, Option.some.injEq]
      constructor
      · intro e; cases e
      · intro e; rcases hold with h1 | h1 <;> rw [h1] at e <;> cases e
    · simp [hi]
  have hwnot : w ∉ x.fins := by
    intro hm
    have := (h.finsIff w).1 hm
    rcases hold with h1 | h1 <;> rw [h1] at this <;> cases this
  refine ⟨h.disj, ?_, ?_, ?_, h.startsNodup, ?_, ?_, ?_, h.ownP, ?_, ?_, h.newsIds, ?_, ?_⟩
  · intro p id; rw [h.actLive]; simp only [hl]
  · intro i j p id h1 h2; exact h.liveUniq i j p id ((hl _ _ _).1 h1) ((hl _ _ _).1 h2)
  · intro i; rw [hws]; exact h.startsIff i
  · intro i
    rw [hkind]
    show i ∈ x.fins ++ [w] ↔ _
    by_cases hi : i = w
    · subst hi; simp
    · simp only [List.mem_append, List.mem_singleton, hi, or_false, if_false]; exact h.finsIff i
  · show (x.fins ++ [w]).Nodup
    rw [List.nodup_append]
    refine ⟨h.finsNodup, by simp, ?_⟩
    intro a ha b hb
    simp only [List.mem_singleton] at hb
    subst hb
    intro e; subst e; exact hwnot ha
  · intro i p id h1; exact h.own i p id ((hl _ _ _).1 h1)
  · intro id p st t he
    have := h.entry id p st t he
    cases st <;> simp only [EntryOK, hl, hws] at this ⊢ <;> try exact this
    obtain ⟨h1, i, h2, h3, h4⟩ := this
    refine ⟨h1, i, h2, h3, ?_⟩
    intro e; exact h4 ((hws i).1 e)
  · intro a ha
    obtain ⟨g1, g2, g3⟩ := h.newsClean a ha
    exact ⟨g1, g2, fun i p hli => g3 i p ((hl _ _ _).1 hli)⟩
  · intro a ha
    obtain ⟨⟨g1, g2, g3⟩, h2⟩ := h.pnewClean a ha
    exact ⟨⟨g1, g2, fun i p hli => g3 i p ((hl _ _ _).1 hli)⟩, h2⟩
  · intro id hu
    obtain ⟨⟨p, t, g1, g2, g3⟩, g4⟩ := h.punpOK id hu
    exact ⟨⟨p, t, g1, g2, fun i hli => g3 i ((hl _ _ _).1 hli)⟩, g4⟩

theorem append_get {α : Type} (l : List α) (t : α) (i : Nat) :
    (l ++ [t])[i]? = if i = l.length then some t else l[i]? := by
  by_cases h : i < l.length
  · rw [List.getElem?_append_left h]
    have : i ≠ l.length := Nat.ne_of_lt h
    simp [this]
  · have h' : l.length ≤ i := Nat.le_of_not_lt h
    rw [List.getElem?_append_right h']
    by_cases he : i = l.length
    · subst he; simp
    · have : i - l.length ≠ 0 := by omega
      have hn : l[i]? = none := List.getElem?_eq_none h'
      rw [hn]
      cases hd : i - l.length with
      | zero => exact absurd hd this
      | succ n => simp [he]

/-- PopTasks: a worker takes the pending task `(p, id)` and sends StartTask -/
def Acc.pop (x : Acc) (p : Peer) (id : Id) : Acc :=
  { x with pend := fupd x.pend p ((x.pend p).filter (· != id)),
           act := fupd x.act p (x.act p ++ [id]),
           wk := x.wk ++ [(p, id, .waitStart)],
           starts := x.starts ++ [x.wk.length] }

theorem LInv.pop {x : Acc} (h : LInv x) (p : Peer) (id : Id) (hin : id ∈ x.pend p) : LInv (x.pop p id) := by
  let n := x.wk.length
  have hnoact : id ∉ x.act p := h.disj p id hin
  have hnolive : ∀ i, ¬ x.liveW i p id := fun i hl => hnoact ((h.actLive p id).2 ⟨i, hl⟩)
  have hold : ∀ i t, x.wk[i]? = some t → i < n := by
    intro i t ht
    exact (List.getElem?_eq_some_iff.1 ht).1
  have hl : ∀ i q a, (x.pop p id).liveW i q a ↔
      (x.liveW i q a ∨ (i = n ∧ q = p ∧ a = id)) := by
    intro i q a
    simp only [liveW, Acc.pop, append_get]
    by_cases hi : i = x.wk.length
    · subst hi
      have : x.wk[x.wk.length]? = none := List.getElem?_eq_none (Nat.le_refl _)
      simp only [if_true, this, Option.some.injEq, Prod.mk.injEq]
      constructor
      · rintro ⟨k, ⟨rfl, rfl, rfl⟩, _⟩; exact Or.inr ⟨rfl, rfl, rfl⟩
      · rintro (⟨k, hk, _⟩ | ⟨_, rfl, rfl⟩)
        · cases hk
        · exact ⟨.waitStart, ⟨rfl, rfl, rfl⟩, by simp⟩
    · simp only [hi, if_false]
      constructor
      · exact Or.inl
      · rintro (h1 | ⟨h1, _⟩)
        · exact h1
        · exact absurd h1 hi
  have hkind : ∀ i, (x.pop p id).kindAt i =
      if i = n then some .waitStart else x.kindAt i := by
    intro i
    simp only [kindAt, Acc.pop, append_get]
    by_cases hi : i = x.wk.length
    · simp [hi, n]
    · simp [hi, n]
  have hkn : x.kindAt n = none := by
    simp [kindAt, n]
  have hpend : ∀ q a, a ∈ (x.pop p id).pend q ↔ (a ∈ x.pend q ∧ ¬ (q = p ∧ a = id)) := by
    intro q a
    show a ∈ fupd x.pend p ((x.pend p).filter (· != id)) q ↔ _
    by_cases hq : q = p
    · subst hq; simp [fupd_same, mem_filter_ne]
    · rw [fupd_other _ _ _ hq]; simp [hq]
  have hact : ∀ q a, a ∈ (x.pop p id).act q ↔ (a ∈ x.act q ∨ (q = p ∧ a = id)) := by
    intro q a
    show a ∈ fupd x.act p (x.act p ++ [id]) q ↔ _
    by_cases hq : q = p
    · subst hq; simp [fupd_same, List.mem_append]
    · rw [fupd_other _ _ _ hq]; simp [hq]
  refine ⟨?_, ?_, ?_, ?_, ?_, ?_, h.finsNodup, ?_, ?_, ?_, ?_, h.newsIds, ?_, ?_⟩
  · -- disj
    intro q a ha hb
    rcases (hpend q a).1 ha with ⟨h1, h2⟩
    rcases (hact q a).1 hb with h3 | h3
    · exact h.disj q a h1 h3
    · exact h2 h3
  · -- actLive
    intro q a
    rw [hact]
    simp only [hl]
    rw [h.actLive]
    constructor
    · rintro (⟨i, hi⟩ | ⟨rfl, rfl⟩)
      · exact ⟨i, Or.inl hi⟩
      · exact ⟨n, Or.inr ⟨rfl, rfl, rfl⟩⟩
    · rintro ⟨i, hi | ⟨_, rfl, rfl⟩⟩
      · exact Or.inl ⟨i, hi⟩
      · exact Or.inr ⟨rfl, rfl⟩
  · -- liveUniq
    intro i j q a h1 h2
    rcases (hl i q a).1 h1 with h1 | ⟨e1, e2, e3⟩ <;> rcases (hl j q a).1 h2 with h2 | ⟨f1, f2, f3⟩
    · exact h.liveUniq i j q a h1 h2
    · rw [f2, f3] at h1; exact absurd h1 (hnolive i)
    · rw [e2, e3] at h2; exact absurd h2 (hnolive j)
    · rw [e1, f1]
  · -- startsIff
    intro i
    rw [hkind]
    show i ∈ x.starts ++ [x.wk.length] ↔ _
    by_cases hi : i = n
    · simp [hi, n]
    · have : i ≠ x.wk.length := hi
      simp only [List.mem_append, List.mem_singleton, this, or_false, hi, if_false]
      exact h.startsIff i
  · show (x.starts ++ [x.wk.length]).Nodup
    rw [List.nodup_append]
    refine ⟨h.startsNodup, by simp, ?_⟩
    intro a ha b hb
    simp only [List.mem_singleton] at hb
    subst hb
    intro e; subst e
    have := (h.startsIff _).1 ha
    rw [hkn] at this; cases this
  · -- finsIff
    intro i
    rw [hkind]
    by_cases hi : i = n
    · subst hi
      simp only [if_true]
      constructor
      · intro hm
        have := (h.finsIff _).1 hm
        rw [hkn] at this; cases this
      · intro e; cases e
    · simp only [hi, if_false]; exact h.finsIff i
  · -- own
    intro i q a h1 e he
    rcases (hl i q a).1 h1 with h1 | ⟨_, rfl, rfl⟩
    · exact h.own i q a h1 e he
    · exact h.ownP _ _ hin e he
  · -- ownP
    intro q a ha e he
    exact h.ownP q a ((hpend q a).1 ha).1 e he
  · -- entry
    intro a q st t he
    have hE := h.entry a q st t he
    have hws : ∀ i, i ≠ n → ((x.pop p id).kindAt i = some .waitStart ↔
        x.kindAt i = some .waitStart) := by
      intro i hi; rw [hkind]; simp [hi]
    by_cases hpa : q = p ∧ a = id
    · obtain ⟨rfl, rfl⟩ := hpa
      -- the entry of the popped task: it was pending, hence Queued with no worker
      cases st with
      | queued =>
        right; left
        refine ⟨fun hm => ((hpend _ _).1 hm).2 ⟨rfl, rfl⟩, n, (hl _ _ _).2 (Or.inr ⟨rfl, rfl, rfl⟩), ?_⟩
        rw [hkind]; simp
      | running => exact absurd hin hE.1
      | paused => exact absurd hin hE.1
      | completing => exact absurd hin hE.1
    · have hpm : a ∈ (x.pop p id).pend q ↔ a ∈ x.pend q :=
        (hpend q a).trans ⟨fun h => h.1, fun h => ⟨h, hpa⟩⟩
      have hlq : ∀ i, (x.pop p id).liveW i q a ↔ x.liveW i q a := by
        intro i; rw [hl]
        constructor
        · rintro (h1 | ⟨_, h2, h3⟩)
          · exact h1
          · exact absurd ⟨h2, h3⟩ hpa
        · exact Or.inl
      have hkl : ∀ i, x.liveW i q a → i ≠ n := by
        intro i ⟨k, hk, _⟩ e
        have := hold i _ hk
        omega
      cases st with
      | queued =>
        rcases hE with ⟨h1, h2⟩ | ⟨h1, i, h2, h3⟩ | ⟨h1, h2, h3⟩
        · left; exact ⟨hpm.2 h1, fun i hli => h2 i ((hlq i).1 hli)⟩
        · right; left
          exact ⟨fun hm => h1 (hpm.1 hm), i, (hlq i).2 h2, (hws i (hkl i h2)).2 h3⟩
        · right; right
          exact ⟨h1, fun hm => h2 (hpm.1 hm), fun i hli => h3 i ((hlq i).1 hli)⟩
      | running =>
        obtain ⟨h1, i, h2, h3, h4⟩ := hE
        exact ⟨fun hm => h1 (hpm.1 hm), i, (hlq i).2 h2, h3, fun e => h4 ((hws i (hkl i h2)).1 e)⟩
      | paused =>
        exact ⟨fun hm => hE.1 (hpm.1 hm), fun i hli => hE.2 i ((hlq i).1 hli)⟩
      | completing =>
        refine ⟨fun hm => hE.1 (hpm.1 hm), fun i hli => ?_⟩
        have h2 := (hlq i).1 hli
        exact (hws i (hkl i h2)).2 (hE.2 i h2)
  · -- newsClean
    intro k hk
    obtain ⟨g1, g2, g3⟩ := h.newsClean k hk
    have hne : k.2 ≠ id := fun e => (g2 p).1 (e ▸ hin)
    refine ⟨g1, fun q => ⟨fun hm => (g2 q).1 ((hpend q _).1 hm).1, ?_⟩, ?_⟩
    · rw [hact]; rintro (h1 | ⟨_, h1⟩)
      · exact (g2 q).2 h1
      · exact hne h1
    · intro i q hli
      rcases (hl i q _).1 hli with h1 | ⟨_, _, h1⟩
      · exact g3 i q h1
      · exact hne h1
  · intro k hk
    obtain ⟨⟨g1, g2, g3⟩, h2⟩ := h.pnewClean k hk
    have hne : k.2 ≠ id := fun e => (g2 p).1 (e ▸ hin)
    refine ⟨⟨g1, fun q => ⟨fun hm => (g2 q).1 ((hpend q _).1 hm).1, ?_⟩, ?_⟩, h2⟩
    · rw [hact]; rintro (h1 | ⟨_, h1⟩)
      · exact (g2 q).2 h1
      · exact hne h1
    · intro i q hli
      rcases (hl i q _).1 hli with h1 | ⟨_, _, h1⟩
      · exact g3 i q h1
      · exact hne h1
  · intro a hu
    obtain ⟨⟨q, t, g1, g2, g3⟩, g4⟩ := h.punpOK a hu
    have hne : ¬ (q = p ∧ a = id) := by
      rintro ⟨rfl, rfl⟩; exact g2 hin
    refine ⟨⟨q, t, g1, fun hm => g2 ((hpend q a).1 hm).1, ?_⟩, g4⟩
    intro i hli
    rcases (hl i q a).1 hli with h1 | ⟨_, h2, h3⟩
    · exact g3 i h1
    · exact hne ⟨h2, h3⟩

/-- worker `w` hands its task back (StartTask answered "empty", or FinishTask): it becomes `done`, the
    topic leaves the active set, its message leaves the mailbox, and the entry of the id (if any) is
    deleted, or ends Paused / CompletingSend -/
def Acc.workerDone (x : Acc) (w : Nat) (p : Peer) (id : Id) (v : Option (Peer × RState × Option Nat))
    (starts' fins' : List Nat) : Acc :=
  { x with ent := fupd x.ent id v, act := fupd x.act p ((x.act p).filter (· != id)),
           wk := setK x.wk w .done, starts := starts', fins := fins' }

theorem LInv.workerDone {x : Acc} (h : LInv x) (w : Nat) (p : Peer) (id : Id) (k0 : WKind)
    (hw : x.wk[w]? = some (p, id, k0))
    (starts' fins' : List Nat)
    (hs : (k0 = .waitStart ∧ x.starts = w :: starts' ∧ fins' = x.fins) ∨
          (k0 = .waitFinish ∧ x.fins = w :: fins' ∧ starts' = x.starts))
    (v : Option (Peer × RState × Option Nat))
    (hv : v = none ∨ ∃ st' t, v = some (p, st', t) ∧ (st' = .paused ∨ st' = .completing) ∧ x.ent id ≠ none)
    (hun : x.punp = none) :
    LInv (x.workerDone w p id v starts' fins') := by
  have hk0d : k0 ≠ .done := by rcases hs with ⟨rfl, _⟩ | ⟨rfl, _⟩ <;> simp
  have hlw : x.liveW w p id := ⟨k0, hw, hk0d⟩
  have huniq : ∀ i, x.liveW i p id → i = w := fun i hi => h.liveUniq i w p id hi hlw
  have hl : ∀ i q a, (x.workerDone w p id v starts' fins').liveW i q a ↔ (x.liveW i q a ∧ i ≠ w) := by
    intro i q a
    show ({ x with wk := setK x.wk w .done } : Acc).liveW i q a ↔ _
    rw [liveW_setK rfl]
    by_cases hi : i = w
    · subst hi; simp
    · simp [hi]
  have hkind : ∀ i, (x.workerDone w p id v starts' fins').kindAt i = if i = w then some .done else x.kindAt i := by
    intro i
    show ({ x with wk := setK x.wk w .done } : Acc).kindAt i = _
    rw [kindAt_setK rfl]
    by_cases hi : i = w
    · subst hi; simp [hw]
    · simp [hi]
  have hkw : x.kindAt w = some k0 := by simp [kindAt, hw]
  have hact : ∀ q a, a ∈ (x.workerDone w p id v starts' fins').act q ↔ (a ∈ x.act q ∧ ¬ (q = p ∧ a = id)) := by
    intro q a
    show a ∈ fupd x.act p ((x.act p).filter (· != id)) q ↔ _
    by_cases hq : q = p
    · subst hq; simp [fupd_same, mem_filter_ne]
    · rw [fupd_other _ _ _ hq]; simp [hq]
  -- liveness of workers for another (peer, id) is untouched
  have hlo : ∀ i q a, ¬ (q = p ∧ a = id) → ((x.workerDone w p id v starts' fins').liveW i q a ↔ x.liveW i q a) := by
    intro i q a hne
    rw [hl]
    constructor
    · exact fun h => h.1
    · intro hli
      refine ⟨hli, ?_⟩
      rintro rfl
      obtain ⟨k, hk, _⟩ := hli
      rw [hw] at hk
      simp only [Option.some.injEq, Prod.mk.injEq] at hk
      exact hne ⟨hk.1.symm, hk.2.1.symm⟩
  have hko : ∀ i, i ≠ w → (x.workerDone w p id v starts' fins').kindAt i = x.kindAt i := by
    intro i hi; rw [hkind]; simp [hi]
  refine ⟨?_, ?_, ?_, ?_, ?_, ?_, ?_, ?_, ?_, ?_, ?_, h.newsIds, ?_, ?_⟩
  · intro q a ha hb; exact h.disj q a ha ((hact q a).1 hb).1
  · -- actLive
    intro q a
    rw [hact, h.actLive]
    constructor
    · rintro ⟨⟨i, hi⟩, hne⟩; exact ⟨i, (hlo i q a hne).2 hi⟩
    · rintro ⟨i, hi⟩
      obtain ⟨h1, h2⟩ := (hl i q a).1 hi
      refine ⟨⟨i, h1⟩, ?_⟩
      rintro ⟨rfl, rfl⟩
      exact h2 (huniq i h1)
  · intro i j q a h1 h2
    exact h.liveUniq i j q a ((hl _ _ _).1 h1).1 ((hl _ _ _).1 h2).1
  · -- startsIff
    intro i
    rw [hkind]
    show i ∈ starts' ↔ _
    rcases hs with ⟨rfl, hst, _⟩ | ⟨rfl, _, hst⟩
    · have hnd := h.startsNodup
      rw [hst, List.nodup_cons] at hnd
      by_cases hi : i = w
      · subst hi; simp [hnd.1]
      · simp only [hi, if_false]
        rw [← h.startsIff, hst]
        simp [hi]
    · rw [hst]
      by_cases hi : i = w
      · subst hi
        simp only [if_true]
        constructor
        · intro hm
          have := (h.startsIff _).1 hm
          rw [hkw] at this; cases this
        · intro e; cases e
      · simp only [hi, if_false]; exact h.startsIff i
  · show starts'.Nodup
    rcases hs with ⟨_, hst, _⟩ | ⟨_, _, hst⟩
    · have := h.startsNodup; rw [hst, List.nodup_cons] at this; exact this.2
    · rw [hst]; exact h.startsNodup
  · -- finsIff
    intro i
    rw [hkind]
    show i ∈ fins' ↔ _
    rcases hs with ⟨rfl, _, hst⟩ | ⟨rfl, hst, _⟩
    · rw [hst]
      by_cases hi : i = w
      · subst hi
        simp only [if_true]
        constructor
        · intro hm
          have := (h.finsIff _).1 hm
          rw [hkw] at this; cases this
        · intro e; cases e
      · simp only [hi, if_false]; exact h.finsIff i
    · have hnd := h.finsNodup
      rw [hst, List.nodup_cons] at hnd
      by_cases hi : i = w
      · subst hi; simp [hnd.1]
      · simp only [hi, if_false]
        rw [← h.finsIff, hst]
        simp [hi]
  · show fins'.Nodup
    rcases hs with ⟨_, _, hst⟩ | ⟨_, hst, _⟩
    · rw [hst]; exact h.finsNodup
    · have := h.finsNodup; rw [hst, List.nodup_cons] at this; exact this.2
  · -- own
    intro i q a hli e he
    have hli' := ((hl i q a).1 hli).1
    by_cases hid : a = id
    · subst hid
      have he' : v = some e := by simpa [Acc.workerDone, fupd] using he
      rcases hv with rfl | ⟨st', t, rfl, _, hne⟩
      · cases he'
      · cases he'
        -- some old entry with this id exists, and worker i is live for it
        cases hx : x.ent a with
        | none => exact absurd hx hne
        | some e0 =>
          have h1 := h.own i q a hli' e0 hx
          have h2 := h.own w p a hlw e0 hx
          exact h2.symm.trans h1 |>.symm ▸ rfl
    · exact h.own i q a hli' e (by simpa [Acc.workerDone, fupd, hid] using he)
  · -- ownP
    intro q a ha e he
    by_cases hid : a = id
    · subst hid
      have he' : v = some e := by simpa [Acc.workerDone, fupd] using he
      rcases hv with rfl | ⟨st', t, rfl, _, hne⟩
      · cases he'
      · cases he'
        cases hx : x.ent a with
        | none => exact absurd hx hne
        | some e0 =>
          have h1 := h.ownP q a ha e0 hx
          have h2 := h.own w p a hlw e0 hx
          exact h2.symm.trans h1 |>.symm ▸ rfl
    · exact h.ownP q a ha e (by simpa [Acc.workerDone, fupd, hid] using he)
  · -- entry
    intro a q st t he
    by_cases hid : a = id
    · subst hid
      have he' : v = some (q, st, t) := by simpa [Acc.workerDone, fupd] using he
      rcases hv with rfl | ⟨st', t', rfl, hst', _⟩
      · cases he'
      · cases he'
        -- no live worker for (p, a) is left
        have hnl : ∀ i, ¬ (x.workerDone w p a (some (p, st, t)) starts' fins').liveW i p a := by
          intro i hi
          obtain ⟨h1, h2⟩ := (hl i p a).1 hi
          exact h2 (huniq i h1)
        have hnp : a ∉ x.pend p := by
          intro hm
          exact h.disj p a hm ((h.actLive p a).2 ⟨w, hlw⟩)
        rcases hst' with rfl | rfl
        · exact ⟨hnp, hnl⟩
        · exact ⟨hnp, fun i hi => absurd hi (hnl i)⟩
    · have he' : x.ent a = some (q, st, t) := by simpa [Acc.workerDone, fupd, hid] using he
      have hE := h.entry a q st t he'
      have hne : ¬ (q = p ∧ a = id) := fun hh => hid hh.2
      have hlq := fun i => hlo i q a hne
      have hkl : ∀ i, x.liveW i q a → i ≠ w := by
        rintro i hli rfl
        obtain ⟨k, hk, _⟩ := hli
        rw [hw] at hk
        simp only [Option.some.injEq, Prod.mk.injEq] at hk
        exact hne ⟨hk.1.symm, hk.2.1.symm⟩
      cases st with
      | queued =>
        rcases hE with ⟨h1, h2⟩ | ⟨h1, i, h2, h3⟩ | ⟨h1, h2, h3⟩
        · left; exact ⟨h1, fun i hli => h2 i ((hlq i).1 hli)⟩
        · right; left
          exact ⟨h1, i, (hlq i).2 h2, by rw [hko i (hkl i h2)]; exact h3⟩
        · rw [hun] at h1; cases h1
      | running =>
        obtain ⟨h1, i, h2, h3, h4⟩ := hE
        exact ⟨h1, i, (hlq i).2 h2, h3, by rw [hko i (hkl i h2)]; exact h4⟩
      | paused => exact ⟨hE.1, fun i hli => hE.2 i ((hlq i).1 hli)⟩
      | completing =>
        refine ⟨hE.1, fun i hli => ?_⟩
        have h2 := (hlq i).1 hli
        rw [hko i (hkl i h2)]; exact hE.2 i h2
  · -- newsClean
    intro k hk
    obtain ⟨g1, g2, g3⟩ := h.newsClean k hk
    have hne : k.2 ≠ id := fun e => g3 w p (e ▸ hlw)
    refine ⟨?_, fun q => ⟨(g2 q).1, fun hm => (g2 q).2 ((hact q _).1 hm).1⟩, fun i q hli => g3 i q ((hl _ _ _).1 hli).1⟩
    show fupd x.ent id v k.2 = none
    rw [fupd_other _ _ _ hne]; exact g1
  · intro k hk
    obtain ⟨⟨g1, g2, g3⟩, h2⟩ := h.pnewClean k hk
    have hne : k.2 ≠ id := fun e => g3 w p (e ▸ hlw)
    refine ⟨⟨?_, fun q => ⟨(g2 q).1, fun hm => (g2 q).2 ((hact q _).1 hm).1⟩,
      fun i q hli => g3 i q ((hl _ _ _).1 hli).1⟩, h2⟩
    show fupd x.ent id v k.2 = none
    rw [fupd_other _ _ _ hne]; exact g1
  · intro a hu
    have : x.punp = some a := hu
    rw [hun] at this; cases this

-- ------------------------------------------------------------------ parked newRequest
theorem LInv.parkNew {x : Acc} (h : LInv x) (k : Peer × Id) (rest : List (Peer × Id)) (hn : x.news = k :: rest)
    (hun : x.punp = none) : LInv { x with news := rest, pnew := some k } := by
  have h1 := h.dropNews k rest hn
  refine ⟨h1.disj, h1.actLive, h1.liveUniq, h1.startsIff, h1.startsNodup, h1.finsIff, h1.finsNodup, h1.own, h1.ownP,
    h1.entry, h1.newsClean, h1.newsIds, ?_, ?_⟩
  · intro k' hk'
    have : k = k' := by simpa using hk'
    subst this
    obtain ⟨hc, hnm⟩ := h.headNews (p := k.1) (id := k.2) (rest := rest) hn
    exact ⟨hc, hnm⟩
  · intro a hu
    have : x.punp = some a := hu
    rw [hun] at this; cases this

theorem LInv.clearPnew {x : Acc} (h : LInv x) : LInv { x with pnew := none } := by
  refine ⟨h.disj, h.actLive, h.liveUniq, h.startsIff, h.startsNodup, h.finsIff, h.finsNodup, h.own, h.ownP,
    h.entry, h.newsClean, h.newsIds, ?_, ?_⟩
  · intro k hk; cases hk
  · intro a hu; exact ⟨(h.punpOK a hu).1, rfl⟩

-- ------------------------------------------------------------------ an entry changes its state
/-- the entry of `id` gets another state, and `id` may enter / leave the pending topics of its peer or
    become the parked unpause; no worker changes -/
theorem LInv.setEntry {x : Acc} (h : LInv x) (p : Peer) (id : Id) (st : RState) (t : Option Nat)
    (st' : RState) (t' : Option Nat) (he : x.ent id = some (p, st, t))
    (pend' : Peer → List Id) (inP : Prop)
    (hpend : ∀ q a, a ∈ pend' q ↔ ((a ∈ x.pend q ∧ ¬ (q = p ∧ a = id)) ∨ (q = p ∧ a = id ∧ inP)))
    (hact : inP → id ∉ x.act p)
    (punp' : Option Id) (hu0 : x.punp = none ∨ x.punp = some id)
    (hu1 : punp' = none ∨ (punp' = some id ∧ st' = .queued ∧ ¬ inP ∧ (∀ i, ¬ x.liveW i p id) ∧ x.pnew = none))
    (hE : ({ x with ent := fupd x.ent id (some (p, st', t')), pend := pend', punp := punp' } : Acc).EntryOK id p st' t') :
    LInv { x with ent := fupd x.ent id (some (p, st', t')), pend := pend', punp := punp' } := by
  have hpo : ∀ q a, a ≠ id → (a ∈ pend' q ↔ a ∈ x.pend q) := by
    intro q a hne
    rw [hpend]
    constructor
    · rintro (⟨h1, _⟩ | ⟨_, h2, _⟩)
      · exact h1
      · exact absurd h2 hne
    · intro h1; exact Or.inl ⟨h1, fun hh => hne hh.2⟩
  have hcl : ∀ a, x.Clean a →
      ({ x with ent := fupd x.ent id (some (p, st', t')), pend := pend', punp := punp' } : Acc).Clean a := by
    intro a ⟨g1, g2, g3⟩
    have hne : a ≠ id := by rintro rfl; rw [he] at g1; cases g1
    refine ⟨?_, fun q => ⟨fun hm => (g2 q).1 ((hpo q a hne).1 hm), (g2 q).2⟩, g3⟩
    show fupd x.ent id _ a = none
    rw [fupd_other _ _ _ hne]; exact g1
  refine ⟨?_, h.actLive, h.liveUniq, h.startsIff, h.startsNodup, h.finsIff, h.finsNodup, ?_, ?_, ?_, ?_,
    h.newsIds, ?_, ?_⟩
  · intro q a ha
    rcases (hpend q a).1 ha with ⟨h1, _⟩ | ⟨rfl, rfl, h3⟩
    · exact h.disj q a h1
    · exact hact h3
  · intro i q a hl e hee
    by_cases hid : a = id
    · subst hid
      have : e = (p, st', t') := by simpa [fupd] using hee.symm
      subst this
      exact h.own i q a hl (p, st, t) he
    · exact h.own i q a hl e (by simpa [fupd, hid] using hee)
  · intro q a ha e hee
    by_cases hid : a = id
    · subst hid
      have : e = (p, st', t') := by simpa [fupd] using hee.symm
      subst this
      rcases (hpend q a).1 ha with ⟨h1, _⟩ | ⟨rfl, _, _⟩
      · exact h.ownP q a h1 (p, st, t) he
      · rfl
    · exact h.ownP q a ((hpo q a hid).1 ha) e (by simpa [fupd, hid] using hee)
  · intro a q s0 t0 hee
    by_cases hid : a = id
    · subst hid
      have : (q, s0, t0) = (p, st', t') := by simpa [fupd] using hee.symm
      cases this
      exact hE
    · have hee' : x.ent a = some (q, s0, t0) := by simpa [fupd, hid] using hee
      refine EntryOK.congr' (x := x)
        (y := { x with ent := fupd x.ent id (some (p, st', t')), pend := pend', punp := punp' })
        (hpo q a hid) rfl ?_ (h.entry a q s0 t0 hee')
      show punp' = some a ↔ x.punp = some a
      constructor
      · intro e1
        rcases hu1 with e2 | ⟨e2, _⟩
        · rw [e2] at e1; cases e1
        · rw [e2] at e1; exact absurd (Option.some.inj e1).symm hid
      · intro e1
        rcases hu0 with e2 | e2
        · rw [e2] at e1; cases e1
        · rw [e2] at e1; exact absurd (Option.some.inj e1).symm hid
  · intro k hk; exact hcl _ (h.newsClean k hk)
  · intro k hk
    obtain ⟨g1, g2⟩ := h.pnewClean k hk
    exact ⟨hcl _ g1, g2⟩
  · intro a hu
    have hu' : punp' = some a := hu
    rcases hu1 with e2 | ⟨e2, hq, hnp, hnl, hpn⟩
    · rw [e2] at hu'; cases hu'
    · rw [e2] at hu'
      have : id = a := Option.some.inj hu'
      subst this
      refine ⟨⟨p, t', ?_, ?_, hnl⟩, hpn⟩
      · show fupd x.ent id _ id = _
        rw [fupd_same, hq]
      · intro hm
        rcases (hpend p id).1 hm with ⟨_, h2⟩ | ⟨_, _, h3⟩
        · exact h2 ⟨rfl, rfl⟩
        · exact hnp h3

-- ------------------------------------------------------------------ StartTask answered with a response
/-- StartTask handled for a Queued response: Running, task := this worker, worker `mid` -/
def Acc.startRun (x : Acc) (w : Nat) (p : Peer) (id : Id) (rest : List Nat) : Acc :=
  { x with ent := fupd x.ent id (some (p, .running, some w)), wk := setK x.wk w .mid, starts := rest }

theorem LInv.startRun {x : Acc} (h : LInv x) (w : Nat) (p : Peer) (id : Id) (rest : List Nat)
    (hw : x.wk[w]? = some (p, id, .waitStart)) (hs : x.starts = w :: rest)
    (q : Peer) (st : RState) (t : Option Nat) (he : x.ent id = some (q, st, t)) (hst : st ≠ .completing)
    (hun : x.punp = none) :
    LInv (x.startRun w p id rest) := by
  have hlw : x.liveW w p id := ⟨.waitStart, hw, by simp⟩
  have hkw : x.kindAt w = some .waitStart := by simp [kindAt, hw]
  have hqp : q = p := h.own w p id hlw _ he
  subst hqp
  have huniq : ∀ i, x.liveW i q id → i = w := fun i hi => h.liveUniq i w q id hi hlw
  -- the response is Queued and its task is the popped one
  have hE := h.entry id q st t he
  have hnp : id ∉ x.pend q := fun hm => h.disj q id hm ((h.actLive q id).2 ⟨w, hlw⟩)
  obtain ⟨hl, hk⟩ := setK_live (x := x) (k := .mid) hw (by simp) (by simp)
  have hl' : ∀ i q a, (x.startRun w q id rest).liveW i q a ↔ x.liveW i q a := fun i q a => hl i q a
  have hk' : ∀ i, (x.startRun w q id rest).kindAt i = if i = w then some .mid else x.kindAt i := hk
  have hnd := h.startsNodup
  rw [hs, List.nodup_cons] at hnd
  -- workers of other (peer, id) are not `w`
  have hkl : ∀ i q' a, x.liveW i q' a → ¬ (q' = q ∧ a = id) → i ≠ w := by
    rintro i q' a hli hne rfl
    obtain ⟨k, hk1, _⟩ := hli
    rw [hw] at hk1
    simp only [Option.some.injEq, Prod.mk.injEq] at hk1
    exact hne ⟨hk1.1.symm, hk1.2.1.symm⟩
  refine ⟨h.disj, ?_, ?_, ?_, hnd.2, ?_, h.finsNodup, ?_, ?_, ?_, ?_, h.newsIds, ?_, ?_⟩
  · intro q' a
    show a ∈ x.act q' ↔ _
    rw [h.actLive]; exact exists_congr fun i => (hl' i q' a).symm
  · intro i j q' a h1 h2; exact h.liveUniq i j q' a ((hl' _ _ _).1 h1) ((hl' _ _ _).1 h2)
  · intro i
    rw [hk']
    show i ∈ rest ↔ _
    by_cases hi : i = w
    · subst hi; simp [hnd.1]
    · simp only [hi, if_false]; rw [← h.startsIff, hs]; simp [hi]
  · intro i
    rw [hk']
    by_cases hi : i = w
    · subst hi
      simp only [if_true]
      constructor
      · intro hm
        have := (h.finsIff _).1 hm
        rw [hkw] at this; cases this
      · intro e; cases e
    · simp only [hi, if_false]; exact h.finsIff i
  · intro i q' a hli e hee
    have hli' := (hl' i q' a).1 hli
    by_cases hid : a = id
    · subst hid
      have : e = (q, .running, some w) := by simpa [Acc.startRun, fupd] using hee.symm
      subst this
      exact h.own i q' a hli' (q, st, t) he
    · exact h.own i q' a hli' e (by simpa [Acc.startRun, fupd, hid] using hee)
  · intro q' a ha e hee
    by_cases hid : a = id
    · subst hid
      have : e = (q, .running, some w) := by simpa [Acc.startRun, fupd] using hee.symm
      subst this
      exact h.ownP q' a ha (q, st, t) he
    · exact h.ownP q' a ha e (by simpa [Acc.startRun, fupd, hid] using hee)
  · intro a q' s0 t0 hee
    by_cases hid : a = id
    · subst hid
      have : (q', s0, t0) = (q, .running, some w) := by simpa [Acc.startRun, fupd] using hee.symm
      cases this
      refine ⟨hnp, w, (hl' w q a).2 hlw, rfl, ?_⟩
      rw [hk']; simp
    · have hee' : x.ent a = some (q', s0, t0) := by simpa [Acc.startRun, fupd, hid] using hee
      have hE' := h.entry a q' s0 t0 hee'
      have hne : ¬ (q' = q ∧ a = id) := fun hh => hid hh.2
      have hko : ∀ i, x.liveW i q' a → (x.startRun w q id rest).kindAt i = x.kindAt i := by
        intro i hli; rw [hk']; simp [hkl i q' a hli hne]
      cases s0 with
      | queued =>
        rcases hE' with ⟨h1, h2⟩ | ⟨h1, i, h2, h3⟩ | ⟨h1, h2, h3⟩
        · left; exact ⟨h1, fun i hli => h2 i ((hl' i q' a).1 hli)⟩
        · right; left; exact ⟨h1, i, (hl' i q' a).2 h2, by rw [hko i h2]; exact h3⟩
        · rw [hun] at h1; cases h1
      | running =>
        obtain ⟨h1, i, h2, h3, h4⟩ := hE'
        exact ⟨h1, i, (hl' i q' a).2 h2, h3, by rw [hko i h2]; exact h4⟩
      | paused => exact ⟨hE'.1, fun i hli => hE'.2 i ((hl' i q' a).1 hli)⟩
      | completing =>
        refine ⟨hE'.1, fun i hli => ?_⟩
        have h2 := (hl' i q' a).1 hli
        rw [hko i h2]; exact hE'.2 i h2
  · intro k hk0
    obtain ⟨g1, g2, g3⟩ := h.newsClean k hk0
    have hne : k.2 ≠ id := by intro e; rw [e, he] at g1; cases g1
    refine ⟨?_, g2, fun i q' hli => g3 i q' ((hl' _ _ _).1 hli)⟩
    show fupd x.ent id _ k.2 = none
    rw [fupd_other _ _ _ hne]; exact g1
  · intro k hk0
    obtain ⟨⟨g1, g2, g3⟩, g4⟩ := h.pnewClean k hk0
    have hne : k.2 ≠ id := by intro e; rw [e, he] at g1; cases g1
    refine ⟨⟨?_, g2, fun i q' hli => g3 i q' ((hl' _ _ _).1 hli)⟩, g4⟩
    show fupd x.ent id _ k.2 = none
    rw [fupd_other _ _ _ hne]; exact g1
  · intro a hu
    have : x.punp = some a := hu
    rw [hun] at this; cases this

-- ------------------------------------------------------------------ corollaries used by the manager handlers
theorem fupd_self {α : Type} (f : Nat → α) (k : Nat) (v : α) (h : f k = v) : fupd f k v = f := by
  funext j; unfold fupd; split
  · rename_i e; rw [e, h]
  · rfl

theorem filter_ne_self {l : List Id} {id : Id} (h : id ∉ l) : l.filter (· != id) = l := by
  apply List.filter_eq_self.2
  intro a ha
  simp only [bne_iff_ne, ne_eq]
  rintro rfl; exact h ha

theorem mem_fupd_filter {f : Peer → List Id} {p q : Peer} {a id : Id} :
    a ∈ fupd f p ((f p).filter (· != id)) q ↔ (a ∈ f q ∧ ¬ (q = p ∧ a = id)) := by
  by_cases hq : q = p
  · subst hq; simp [fupd_same, mem_filter_ne]
  · rw [fupd_other _ _ _ hq]; simp [hq]

theorem mem_fupd_append {f : Peer → List Id} {p q : Peer} {a id : Id} :
    a ∈ fupd f p (f p ++ [id]) q ↔ (a ∈ f q ∨ (q = p ∧ a = id)) := by
  by_cases hq : q = p
  · subst hq; simp [fupd_same]
  · rw [fupd_other _ _ _ hq]; simp [hq]

/-- for a Running / Paused / CompletingSend response `TaskQueue.Remove` finds nothing -/
theorem LInv.notPending {x : Acc} (h : LInv x) {p : Peer} {id : Id} {st : RState} {t : Option Nat}
    (he : x.ent id = some (p, st, t)) (hst : st ≠ .queued) : id ∉ x.pend p := by
  have := h.entry id p st t he
  cases st with
  | queued => exact absurd rfl hst
  | running => exact this.1
  | paused => exact this.1
  | completing => exact this.1

/-- cancel of a response that is not Running: CompletingSend, its pending task removed -/
theorem LInv.cancelEntry {x : Acc} (h : LInv x) (p : Peer) (id : Id) (st : RState) (t : Option Nat)
    (he : x.ent id = some (p, st, t)) (hst : st ≠ .running) (hun : x.punp = none) :
    LInv { x with ent := fupd x.ent id (some (p, .completing, t)),
                  pend := fupd x.pend p ((x.pend p).filter (· != id)) } := by
  have hE := h.entry id p st t he
  have := h.setEntry p id st t .completing t he (fupd x.pend p ((x.pend p).filter (· != id))) False
    (by intro q a; rw [mem_fupd_filter]; simp) (fun f => f.elim) none (Or.inl hun) (Or.inl rfl)
    (by
      refine ⟨?_, ?_⟩
      · show id ∉ fupd x.pend p _ p
        rw [mem_fupd_filter]; simp
      · intro i hli
        have hli' : x.liveW i p id := hli
        show x.kindAt i = _
        cases st with
        | running => exact absurd rfl hst
        | queued =>
          rcases hE with ⟨_, h2⟩ | ⟨_, j, h2, h3⟩ | ⟨h1, _⟩
          · exact absurd hli' (h2 i)
          · rw [h.liveUniq i j p id hli' h2]; exact h3
          · rw [hun] at h1; cases h1
        | paused => exact absurd hli' (hE.2 i)
        | completing => exact hE.2 i hli')
  have e : ({ x with ent := fupd x.ent id (some (p, .completing, t)),
                     pend := fupd x.pend p ((x.pend p).filter (· != id)), punp := none } : Acc) =
      { x with ent := fupd x.ent id (some (p, .completing, t)),
               pend := fupd x.pend p ((x.pend p).filter (· != id)) } := by
    cases x; simp only at hun; subst hun; rfl
  rw [← e]; exact this

theorem LInv.retireFilter {x : Acc} (h : LInv x) (p : Peer) (id : Id) (hun : x.punp = none) :
    LInv { x with ent := fupd x.ent id none, pend := fupd x.pend p ((x.pend p).filter (· != id)) } :=
  h.retire p id hun _ (fun q a ha => (mem_fupd_filter.1 ha).1)
    (fun q a hne ha => mem_fupd_filter.2 ⟨ha, fun hh => hne hh.2⟩)

/-- a Paused response whose update hook failed: CompletingSend -/
theorem LInv.pausedToCompleting {x : Acc} (h : LInv x) (p : Peer) (id : Id) (t : Option Nat)
    (he : x.ent id = some (p, .paused, t)) (hun : x.punp = none) :
    LInv { x with ent := fupd x.ent id (some (p, .completing, t)) } := by
  have := h.cancelEntry p id .paused t he (by simp) hun
  rwa [fupd_self x.pend p _ (filter_ne_self (h.notPending he (by simp))).symm] at this

/-- unpause: Queued, task pushed -/
theorem LInv.unpausePush {x : Acc} (h : LInv x) (p : Peer) (id : Id) (t : Option Nat)
    (he : x.ent id = some (p, .paused, t)) (hun : x.punp = none) :
    LInv { x with ent := fupd x.ent id (some (p, .queued, t)), pend := fupd x.pend p (x.pend p ++ [id]) } := by
  have hE := h.entry id p .paused t he
  have hna : id ∉ x.act p := fun hm => by
    obtain ⟨i, hi⟩ := (h.actLive p id).1 hm
    exact hE.2 i hi
  have := h.setEntry p id .paused t .queued t he (fupd x.pend p (x.pend p ++ [id])) True
    (by
      intro q a; rw [mem_fupd_append]
      constructor
      · rintro (h1 | ⟨h1, h2⟩)
        · by_cases hh : q = p ∧ a = id
          · exact Or.inr ⟨hh.1, hh.2, trivial⟩
          · exact Or.inl ⟨h1, hh⟩
        · exact Or.inr ⟨h1, h2, trivial⟩
      · rintro (⟨h1, _⟩ | ⟨h1, h2, _⟩)
        · exact Or.inl h1
        · exact Or.inr ⟨h1, h2⟩)
    (fun _ => hna) none (Or.inl hun) (Or.inl rfl)
    (by
      left
      refine ⟨?_, fun i hli => hE.2 i hli⟩
      show id ∈ fupd x.pend p _ p
      rw [mem_fupd_append]; exact Or.inr ⟨rfl, rfl⟩)
  have e : ({ x with ent := fupd x.ent id (some (p, .queued, t)), pend := fupd x.pend p (x.pend p ++ [id]),
                     punp := none } : Acc) =
      { x with ent := fupd x.ent id (some (p, .queued, t)), pend := fupd x.pend p (x.pend p ++ [id]) } := by
    cases x; simp only at hun; subst hun; rfl
  rw [← e]; exact this

/-- unpause with an extension whose transaction parks: Queued, the task not pushed yet -/
theorem LInv.unpausePark {x : Acc} (h : LInv x) (p : Peer) (id : Id) (t : Option Nat)
    (he : x.ent id = some (p, .paused, t)) (hun : x.punp = none) (hpn : x.pnew = none) :
    LInv { x with ent := fupd x.ent id (some (p, .queued, t)), punp := some id } := by
  have hE := h.entry id p .paused t he
  have := h.setEntry p id .paused t .queued t he x.pend False
    (by
      intro q a
      constructor
      · intro h1
        refine Or.inl ⟨h1, ?_⟩
        rintro ⟨rfl, rfl⟩; exact hE.1 h1
      · rintro (⟨h1, _⟩ | ⟨_, _, f⟩)
        · exact h1
        · exact f.elim)
    (fun f => f.elim) (some id) (Or.inl hun) (Or.inr ⟨rfl, rfl, fun f => f, hE.2, hpn⟩)
    (by right; right; exact ⟨rfl, hE.1, hE.2⟩)
  exact this

/-- the parked unpause continues: the task is pushed -/
theorem LInv.unparkPush {x : Acc} (h : LInv x) (id : Id) (hu : x.punp = some id) :
    ∃ p t, x.ent id = some (p, .queued, t) ∧
      LInv { x with pend := fupd x.pend p (x.pend p ++ [id]), punp := none } := by
  obtain ⟨⟨p, t, he, hnp, hnl⟩, hpn⟩ := h.punpOK id hu
  refine ⟨p, t, he, ?_⟩
  have hna : id ∉ x.act p := fun hm => by
    obtain ⟨i, hi⟩ := (h.actLive p id).1 hm
    exact hnl i hi
  have := h.setEntry p id .queued t .queued t he (fupd x.pend p (x.pend p ++ [id])) True
    (by
      intro q a; rw [mem_fupd_append]
      constructor
      · rintro (h1 | ⟨h1, h2⟩)
        · by_cases hh : q = p ∧ a = id
          · exact Or.inr ⟨hh.1, hh.2, trivial⟩
          · exact Or.inl ⟨h1, hh⟩
        · exact Or.inr ⟨h1, h2, trivial⟩
      · rintro (⟨h1, _⟩ | ⟨h1, h2, _⟩)
        · exact Or.inl h1
        · exact Or.inr ⟨h1, h2⟩)
    (fun _ => hna) none (Or.inr hu) (Or.inl rfl)
    (by
      left
      refine ⟨?_, fun i hli => hnl i hli⟩
      show id ∈ fupd x.pend p _ p
      rw [mem_fupd_append]; exact Or.inr ⟨rfl, rfl⟩)
  rwa [fupd_self x.ent id _ he] at this

/-- when FinishTask of worker `w` is handled, the response with its id (if any) is the Running one that
    owns this task -/
theorem LInv.finishEntry {x : Acc} (h : LInv x) {w : Nat} {p q : Peer} {id : Id} {st : RState} {t : Option Nat}
    (hw : x.wk[w]? = some (p, id, .waitFinish)) (he : x.ent id = some (q, st, t)) :
    q = p ∧ st = .running ∧ t = some w := by
  have hlw : x.liveW w p id := ⟨.waitFinish, hw, by simp⟩
  have hkw : x.kindAt w = some .waitFinish := by simp [kindAt, hw]
  have hqp : q = p := h.own w p id hlw _ he
  subst hqp
  have hE := h.entry id q st t he
  refine ⟨rfl, ?_⟩
  cases st with
  | queued =>
    rcases hE with ⟨_, h2⟩ | ⟨_, j, h2, h3⟩ | ⟨_, _, h2⟩
    · exact absurd hlw (h2 w)
    · rw [← h.liveUniq w j q id hlw h2, hkw] at h3; cases h3
    · exact absurd hlw (h2 w)
  | running =>
    obtain ⟨_, i, h2, h3, _⟩ := hE
    rw [← h.liveUniq w i q id hlw h2] at h3
    exact ⟨rfl, h3⟩
  | paused => exact absurd hlw (hE.2 w)
  | completing =>
    have := hE.2 w hlw
    rw [hkw] at this; cases this

end GS.RespLife
