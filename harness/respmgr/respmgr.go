// Package respmgr drives the real responsemanager.ResponseManager together with the real
// queryexecutor.QueryExecutor (component "respmgr", property C10).
//
// The harness is the task queue (it decides when a queued task is handed to ExecuteTask), the block
// store (every store read blocks until the history releases it: that is how an executor is held
// "running" at a chosen point without sleeping), the response assembler (records the transactions of
// every (peer, request) stream and keeps the stream's real message subscriber, through which the
// history delivers "message sent" / "network error" notifications) and the connection manager.
// Hooks and listeners are the real registries with scripted, recording functions.
//
// Oracle (C10, from the property text): for a response the responder serves to peer P, requests
// (new / cancel / update) from any other peer carrying its request ID, at any point of its life,
// must (a) in that step leave P's response state and P-related outputs untouched, and (b) be
// deletable from the history without changing anything P can observe: the stream output to P, the
// completed / cancelled / network-error notifications, hook calls, connection protection, task
// queue entries and PeerState of P.
package respmgr

import (
	"bufio"
	"bytes"
	"context"
	"errors"
	"fmt"
	"io"
	"math/rand"
	"sort"
	"strconv"
	"strings"
	"sync"
	"time"

	"github.com/ipfs/go-cid"
	logging "github.com/ipfs/go-log/v2"
	"github.com/ipfs/go-peertaskqueue/peertask"
	"github.com/ipfs/go-peertaskqueue/peertracker"
	"github.com/ipld/go-ipld-prime"
	"github.com/ipld/go-ipld-prime/datamodel"
	"github.com/ipld/go-ipld-prime/fluent/qp"
	"github.com/ipld/go-ipld-prime/linking"
	cidlink "github.com/ipld/go-ipld-prime/linking/cid"
	"github.com/ipld/go-ipld-prime/node/basicnode"
	"github.com/ipld/go-ipld-prime/storage/memstore"
	"github.com/ipld/go-ipld-prime/traversal/selector"
	"github.com/ipld/go-ipld-prime/traversal/selector/builder"
	"github.com/libp2p/go-libp2p/core/peer"

	"github.com/ipfs/go-graphsync"
	"github.com/ipfs/go-graphsync/listeners"
	gsmsg "github.com/ipfs/go-graphsync/message"
	"github.com/ipfs/go-graphsync/messagequeue"
	"github.com/ipfs/go-graphsync/notifications"
	"github.com/ipfs/go-graphsync/persistenceoptions"
	"github.com/ipfs/go-graphsync/responsemanager"
	"github.com/ipfs/go-graphsync/responsemanager/hooks"
	"github.com/ipfs/go-graphsync/responsemanager/queryexecutor"
	"github.com/ipfs/go-graphsync/responsemanager/responseassembler"

	"verifharness/reg"
)

func init() {
	reg.Register(&reg.Component{Name: "respmgr", Gen: Gen, Run: Run})
}

const nPeers = 3
const maxChain = 6
const waitLimit = 5 * time.Second

var errHook = errors.New("hook says no")
var errNet = errors.New("network down")

const extScript = graphsync.ExtensionName("verif/script")
const extUpd = graphsync.ExtensionName("verif/upd")

var extOut = graphsync.ExtensionData{Name: "verif/out", Data: basicnode.NewString("o")}

func pid(i int) peer.ID { return peer.ID(fmt.Sprintf("peer%d", i)) }
func peerNum(p peer.ID) int {
	s := string(p)
	if strings.HasPrefix(s, "peer") {
		if n, err := strconv.Atoi(s[4:]); err == nil {
			return n
		}
	}
	return 99
}
func reqID(r int) graphsync.RequestID {
	b := make([]byte, 16)
	b[14] = byte(r >> 8)
	b[15] = byte(r)
	id, err := graphsync.ParseRequestID(b)
	if err != nil {
		panic(err)
	}
	return id
}
func reqNum(id graphsync.RequestID) int {
	b := id.Bytes()
	if len(b) != 16 {
		return -1
	}
	return int(b[14])<<8 | int(b[15])
}

// ---------------------------------------------------------------- fixtures: chains of 1..maxChain blocks

var (
	fixOnce  sync.Once
	store    = &memstore.Store{}
	roots    [maxChain + 1]cid.Cid
	blockIdx = map[string]int{} // cid key -> index of the block in its chain
	selAll   datamodel.Node
)

func fixtures() {
	fixOnce.Do(func() {
		logging.SetAllLoggers(logging.LevelFatal)
		lsys := cidlink.DefaultLinkSystem()
		lsys.SetWriteStorage(store)
		lsys.SetReadStorage(store)
		lp := cidlink.LinkPrototype{Prefix: cid.Prefix{Version: 1, Codec: 0x71, MhType: 0x12, MhLength: 32}}
		for l := 1; l <= maxChain; l++ {
			var next ipld.Link
			for i := l - 1; i >= 0; i-- {
				n, err := qp.BuildMap(basicnode.Prototype.Map, -1, func(ma datamodel.MapAssembler) {
					qp.MapEntry(ma, "v", qp.Int(int64(l*100+i)))
					if next != nil {
						qp.MapEntry(ma, "next", qp.Link(next))
					}
				})
				if err != nil {
					panic(err)
				}
				lnk, err := lsys.Store(linking.LinkContext{}, lp, n)
				if err != nil {
					panic(err)
				}
				blockIdx[lnk.(cidlink.Link).Cid.KeyString()] = i
				next = lnk
			}
			roots[l] = next.(cidlink.Link).Cid
		}
		ssb := builder.NewSelectorSpecBuilder(basicnode.Prototype.Any)
		selAll = ssb.ExploreRecursive(selector.RecursionLimitNone(), ssb.ExploreAll(ssb.ExploreRecursiveEdge())).Node()
	})
}

// ---------------------------------------------------------------- event log

type ev struct {
	cat  string // tx cm hk ls q
	peer int
	text string // without stream naming for tx (filled at render time)
	k    int    // tx: stream serial
}

type elog struct {
	mu  sync.Mutex
	evs []ev
}

func (l *elog) add(e ev) {
	l.mu.Lock()
	l.evs = append(l.evs, e)
	l.mu.Unlock()
}
func (l *elog) take() []ev {
	l.mu.Lock()
	defer l.mu.Unlock()
	e := l.evs
	l.evs = nil
	return e
}

// ---------------------------------------------------------------- fake task queue

type qtask struct {
	p    int
	task peertask.Task
}
type fakeQueue struct {
	mu      sync.Mutex
	pending []qtask
	active  []qtask
	log     *elog
}

func topicNum(t peertask.Topic) int { return reqNum(t.(graphsync.RequestID)) }

func (q *fakeQueue) PushTask(p peer.ID, task peertask.Task) {
	q.mu.Lock()
	q.pending = append(q.pending, qtask{peerNum(p), task})
	q.mu.Unlock()
	q.log.add(ev{cat: "q", peer: peerNum(p), text: fmt.Sprintf("+%d.%d", peerNum(p), topicNum(task.Topic))})
}
func (q *fakeQueue) TaskDone(p peer.ID, task *peertask.Task) {
	q.mu.Lock()
	for i, t := range q.active {
		if t.p == peerNum(p) && t.task.Topic == task.Topic {
			q.active = append(append([]qtask{}, q.active[:i]...), q.active[i+1:]...)
			break
		}
	}
	q.mu.Unlock()
	q.log.add(ev{cat: "q", peer: peerNum(p), text: fmt.Sprintf("-%d.%d", peerNum(p), topicNum(task.Topic))})
}
func (q *fakeQueue) Remove(t peertask.Topic, p peer.ID) {
	q.mu.Lock()
	for i, x := range q.pending {
		if x.p == peerNum(p) && x.task.Topic == t {
			q.pending = append(append([]qtask{}, q.pending[:i]...), q.pending[i+1:]...)
			break
		}
	}
	q.mu.Unlock()
	q.log.add(ev{cat: "q", peer: peerNum(p), text: fmt.Sprintf("x%d.%d", peerNum(p), topicNum(t))})
}
func (q *fakeQueue) Stats() graphsync.RequestStats { return graphsync.RequestStats{} }
func (q *fakeQueue) WithPeerTopics(p peer.ID, f func(*peertracker.PeerTrackerTopics)) {
	q.mu.Lock()
	defer q.mu.Unlock()
	pt := &peertracker.PeerTrackerTopics{}
	for _, t := range q.pending {
		if t.p == peerNum(p) {
			pt.Pending = append(pt.Pending, t.task.Topic)
		}
	}
	for _, t := range q.active {
		if t.p == peerNum(p) {
			pt.Active = append(pt.Active, t.task.Topic)
		}
	}
	f(pt)
}
func (q *fakeQueue) pop(p, id int) (qtask, bool) {
	q.mu.Lock()
	defer q.mu.Unlock()
	for i, t := range q.pending {
		if t.p == p && topicNum(t.task.Topic) == id {
			q.pending = append(append([]qtask{}, q.pending[:i]...), q.pending[i+1:]...)
			q.active = append(q.active, t)
			return t, true
		}
	}
	return qtask{}, false
}
func (q *fakeQueue) lists() (pend, act []string) {
	q.mu.Lock()
	defer q.mu.Unlock()
	for _, t := range q.pending {
		pend = append(pend, fmt.Sprintf("%d.%d", t.p, topicNum(t.task.Topic)))
	}
	for _, t := range q.active {
		act = append(act, fmt.Sprintf("%d.%d", t.p, topicNum(t.task.Topic)))
	}
	return
}

// ---------------------------------------------------------------- fake response assembler

type stream struct {
	asm     *assembler
	k       int
	p, id   int
	sub     notifications.Subscriber
	finCode graphsync.ResponseStatusCode // terminal status not yet covered by a notification (0 = none)
}

type assembler struct {
	mu      sync.Mutex
	streams []*stream
	log     *elog
	onClear func() // one-shot: called from the next ClearRequest (manager goroutine)
}

func (a *assembler) NewStream(ctx context.Context, p peer.ID, id graphsync.RequestID, sub notifications.Subscriber) responseassembler.ResponseStream {
	a.mu.Lock()
	defer a.mu.Unlock()
	s := &stream{asm: a, k: len(a.streams), p: peerNum(p), id: reqNum(id), sub: sub}
	a.streams = append(a.streams, s)
	return s
}
func (a *assembler) count() int {
	a.mu.Lock()
	defer a.mu.Unlock()
	return len(a.streams)
}

// nth stream created for peer p
func (a *assembler) streamOf(p, j int) *stream {
	a.mu.Lock()
	defer a.mu.Unlock()
	for _, s := range a.streams {
		if s.p == p {
			if j == 0 {
				return s
			}
			j--
		}
	}
	return nil
}
func (a *assembler) ordinal(k int) int {
	a.mu.Lock()
	defer a.mu.Unlock()
	n := 0
	for _, s := range a.streams[:k] {
		if s.p == a.streams[k].p {
			n++
		}
	}
	return n
}

func (s *stream) tx(op string) { s.asm.log.add(ev{cat: "tx", peer: s.p, text: op, k: s.k}) }

func (s *stream) Transaction(t responseassembler.Transaction) error {
	return t(&rbuilder{s})
}
func (s *stream) DedupKey(string)          {}
func (s *stream) IgnoreBlocks([]ipld.Link) {}
func (s *stream) SkipFirstBlocks(int64)    {}
func (s *stream) ClearRequest() {
	s.tx("clr")
	s.asm.mu.Lock()
	f := s.asm.onClear
	s.asm.onClear = nil
	s.asm.mu.Unlock()
	if f != nil {
		f() // runs on the manager's goroutine: what it puts into the mailbox is handled right after this message
	}
}

type rbuilder struct{ s *stream }

type blkData struct {
	link  ipld.Link
	size  uint64
	index int64
}

func (b blkData) Link() ipld.Link         { return b.link }
func (b blkData) BlockSize() uint64       { return b.size }
func (b blkData) BlockSizeOnWire() uint64 { return b.size }
func (b blkData) Index() int64            { return b.index }

func (rb *rbuilder) SendResponse(link ipld.Link, data []byte) graphsync.BlockData {
	i, ok := blockIdx[link.(cidlink.Link).Cid.KeyString()]
	if !ok {
		i = 99
	}
	rb.s.tx(fmt.Sprintf("b%d", i))
	return blkData{link, uint64(len(data)), int64(i)}
}
func (rb *rbuilder) SendExtensionData(graphsync.ExtensionData) { rb.s.tx("x") }
func (rb *rbuilder) SendUpdates([]graphsync.ExtensionData)     { rb.s.tx("u") }
func (rb *rbuilder) FinishRequest() graphsync.ResponseStatusCode {
	rb.s.tx("f20")
	rb.s.asm.mu.Lock()
	rb.s.finCode = graphsync.RequestCompletedFull
	rb.s.asm.mu.Unlock()
	return graphsync.RequestCompletedFull
}
func (rb *rbuilder) FinishWithError(status graphsync.ResponseStatusCode) {
	rb.s.tx(fmt.Sprintf("f%d", int(status)))
	rb.s.asm.mu.Lock()
	rb.s.finCode = status
	rb.s.asm.mu.Unlock()
}
func (rb *rbuilder) PauseRequest()            { rb.s.tx("p") }
func (rb *rbuilder) Context() context.Context { return context.Background() }

type connMgr struct{ log *elog }

func tagNum(tag string) int {
	// RequestID.Tag() = "graphsync-request-" + id.String(); the uuid text ends with the two bytes we set
	if len(tag) >= 4 {
		if v, err := strconv.ParseInt(tag[len(tag)-4:], 16, 32); err == nil {
			return int(v)
		}
	}
	return -1
}
func (c *connMgr) Protect(p peer.ID, tag string) {
	c.log.add(ev{cat: "cm", peer: peerNum(p), text: fmt.Sprintf("+%d.%d", peerNum(p), tagNum(tag))})
}
func (c *connMgr) Unprotect(p peer.ID, tag string) bool {
	c.log.add(ev{cat: "cm", peer: peerNum(p), text: fmt.Sprintf("-%d.%d", peerNum(p), tagNum(tag))})
	return false
}

// ---------------------------------------------------------------- the world of one run

type serialKey struct{}

type gateEvt struct {
	serial int
	done   bool
	key    [2]int
}

type exec struct {
	key    [2]int
	serial int // serial of the response object (stream) this executor works on; -1 until its first read
	atGate bool
}

type world struct {
	ctx    context.Context
	stop   context.CancelFunc
	rm     *responsemanager.ResponseManager
	qe     *queryexecutor.QueryExecutor
	q      *fakeQueue
	asm    *assembler
	log    *elog
	evc    chan gateEvt
	gmu    sync.Mutex
	gates  map[int]chan struct{} // serial -> release channel of the reader currently parked for it
	execs  map[[2]int]*exec
	empty  map[[2]int]bool // last StartTask of (peer, id): did the manager return an empty task?
	stuck  bool
	owner  map[int]int    // id -> peer, as of the last snapshot
	states map[int]string // id -> state letter
}

func scriptOf(r graphsync.RequestData, name graphsync.ExtensionName) string {
	n, ok := r.Extension(name)
	if !ok {
		return ""
	}
	s, _ := n.AsString()
	return s
}

func newWorld() *world {
	fixtures()
	w := &world{log: &elog{}, evc: make(chan gateEvt, 64), gates: map[int]chan struct{}{}, execs: map[[2]int]*exec{}, empty: map[[2]int]bool{},
		owner: map[int]int{}, states: map[int]string{}}
	w.q = &fakeQueue{log: w.log}
	w.asm = &assembler{log: w.log}
	w.ctx, w.stop = context.WithCancel(context.Background())
	lsys := cidlink.DefaultLinkSystem()
	lsys.TrustedStorage = true
	lsys.StorageReadOpener = func(lc linking.LinkContext, l datamodel.Link) (io.Reader, error) {
		data, err := store.Get(context.Background(), l.(cidlink.Link).Cid.KeyString())
		if err != nil {
			return nil, err
		}
		if lc.Ctx != nil {
			if serial, ok := lc.Ctx.Value(serialKey{}).(int); ok {
				rel := make(chan struct{})
				w.gmu.Lock()
				w.gates[serial] = rel
				w.gmu.Unlock()
				w.evc <- gateEvt{serial: serial}
				select {
				case <-rel:
				case <-w.ctx.Done():
				}
			}
		}
		return bytes.NewBuffer(data), nil
	}
	rqh := hooks.NewRequestHooks(persistenceoptions.New())
	rqh.Register(func(p peer.ID, r graphsync.RequestData, ha graphsync.IncomingRequestHookActions) {
		w.log.add(ev{cat: "hk", peer: peerNum(p), text: fmt.Sprintf("rq.%d.%d", peerNum(p), reqNum(r.ID()))})
		serial := w.asm.count() // the stream of this response is created right after the hooks
		ha.AugmentContext(func(c context.Context) context.Context { return context.WithValue(c, serialKey{}, serial) })
		f := strings.Split(scriptOf(r, extScript), ":")
		switch f[0] {
		case "ok":
			ha.ValidateRequest()
		case "pa":
			ha.ValidateRequest()
			ha.PauseResponse()
		case "er":
			ha.ValidateRequest()
			ha.TerminateWithError(errHook)
		}
	})
	bh := hooks.NewBlockHooks()
	bh.Register(func(p peer.ID, r graphsync.RequestData, b graphsync.BlockData, ha graphsync.OutgoingBlockHookActions) {
		i := int(b.Index())
		w.log.add(ev{cat: "hk", peer: peerNum(p), text: fmt.Sprintf("bk.%d.%d.%d", peerNum(p), reqNum(r.ID()), i)})
		f := strings.Split(scriptOf(r, extScript), ":")
		if len(f) == 2 && len(f[1]) >= 2 {
			if at, err := strconv.Atoi(f[1][1:]); err == nil && at == i {
				switch f[1][0] {
				case 'x':
					ha.SendExtensionData(extOut)
				case 'p':
					ha.PauseResponse()
				case 'e':
					ha.TerminateWithError(errHook)
				}
			}
		}
	})
	uh := hooks.NewUpdateHooks()
	uh.Register(func(p peer.ID, r graphsync.RequestData, u graphsync.RequestData, ha graphsync.RequestUpdatedHookActions) {
		w.log.add(ev{cat: "hk", peer: peerNum(p), text: fmt.Sprintf("up.%d.%d", peerNum(p), reqNum(r.ID()))})
		switch scriptOf(u, extUpd) {
		case "x":
			ha.SendExtensionData(extOut)
		case "e":
			ha.TerminateWithError(errHook)
		case "u":
			ha.UnpauseResponse()
		}
	})
	completed := listeners.NewCompletedResponseListeners()
	completed.Register(func(p peer.ID, r graphsync.RequestData, st graphsync.ResponseStatusCode) {
		w.log.add(ev{cat: "ls", peer: peerNum(p), text: fmt.Sprintf("co.%d.%d.%d", peerNum(p), reqNum(r.ID()), int(st))})
	})
	cancelled := listeners.NewRequestorCancelledListeners()
	cancelled.Register(func(p peer.ID, r graphsync.RequestData) {
		w.log.add(ev{cat: "ls", peer: peerNum(p), text: fmt.Sprintf("ca.%d.%d", peerNum(p), reqNum(r.ID()))})
	})
	neterr := listeners.NewNetworkErrorListeners()
	neterr.Register(func(p peer.ID, r graphsync.RequestData, err error) {
		w.log.add(ev{cat: "ls", peer: peerNum(p), text: fmt.Sprintf("ne.%d.%d", peerNum(p), reqNum(r.ID()))})
	})
	processing := listeners.NewRequestProcessingListeners()
	processing.Register(func(p peer.ID, r graphsync.RequestData, n int) {
		w.log.add(ev{cat: "ls", peer: peerNum(p), text: fmt.Sprintf("pr.%d.%d", peerNum(p), reqNum(r.ID()))})
	})
	w.rm = responsemanager.New(w.ctx, lsys, w.asm, processing, rqh, uh, completed, cancelled,
		listeners.NewBlockSentListeners(), neterr, &connMgr{w.log}, 0, nil, w.q)
	w.qe = queryexecutor.New(w.ctx, &mgrProxy{w}, bh, uh)
	w.rm.Startup()
	return w
}

// mgrProxy is the queryexecutor.Manager given to the executor: the real manager, observed (was the
// task empty?)
type mgrProxy struct{ w *world }

func (m *mgrProxy) StartTask(task *peertask.Task, p peer.ID, out chan<- queryexecutor.ResponseTask) {
	ch := make(chan queryexecutor.ResponseTask, 1)
	m.w.rm.StartTask(task, p, ch)
	go func() { // (the executor starts receiving only after StartTask has returned)
		select {
		case rt := <-ch:
			m.w.gmu.Lock()
			m.w.empty[[2]int{peerNum(p), topicNum(task.Topic)}] = rt.Empty
			m.w.gmu.Unlock()
			select {
			case out <- rt:
			case <-m.w.ctx.Done():
			}
		case <-m.w.ctx.Done():
		}
	}()
}
func (m *mgrProxy) GetUpdates(id graphsync.RequestID, out chan<- []gsmsg.GraphSyncRequest) {
	m.w.rm.GetUpdates(id, out)
}
func (m *mgrProxy) FinishTask(task *peertask.Task, p peer.ID, err error) {
	m.w.rm.FinishTask(task, p, err)
}

func (w *world) close() {
	w.rm.Shutdown()
	w.stop()
}

// waitExec waits until the executor `key` parks at a store read or ExecuteTask returns
func (w *world) waitExec(key [2]int) string {
	for {
		select {
		case e := <-w.evc:
			if e.done {
				delete(w.execs, e.key)
				if e.key == key {
					return "done"
				}
				continue // an executor we were not waiting for ended (only happens when responses interfere)
			}
			x := w.execs[key]
			if x == nil {
				continue
			}
			if x.serial < 0 {
				x.serial = e.serial // first read of this executor: now we know which response object it serves
			}
			if e.serial != x.serial {
				continue
			}
			x.atGate = true
			return "gate"
		case <-time.After(waitLimit):
			w.stuck = true
			return "stuck"
		}
	}
}

func (w *world) drain() {
	for {
		select {
		case e := <-w.evc:
			if e.done {
				delete(w.execs, e.key)
			}
			continue
		default:
		}
		return
	}
}

func parseBh(t string) bool {
	if t == "n" {
		return true
	}
	if len(t) < 2 || !strings.Contains("xpe", t[:1]) {
		return false
	}
	v, err := strconv.Atoi(t[1:])
	return err == nil && v >= 0
}

type reqTok struct {
	typ       string
	id, total int
	rh, bh    string
	uh        string
}

func parseTok(t string) (reqTok, bool) {
	f := strings.Split(t, ":")
	num := func(s string) (int, bool) { v, err := strconv.Atoi(s); return v, err == nil && v >= 0 }
	switch {
	case len(f) == 5 && f[0] == "n":
		id, ok1 := num(f[1])
		total, ok2 := num(f[2])
		if !ok1 || !ok2 || total < 1 || total > maxChain || !parseBh(f[4]) || !strings.Contains(" ok pa rj er ", " "+f[3]+" ") {
			return reqTok{}, false
		}
		return reqTok{typ: "n", id: id, total: total, rh: f[3], bh: f[4]}, true
	case len(f) == 2 && f[0] == "c":
		id, ok := num(f[1])
		return reqTok{typ: "c", id: id}, ok
	case len(f) == 3 && f[0] == "u":
		id, ok := num(f[1])
		if !ok || !strings.Contains(" n x e u ", " "+f[2]+" ") {
			return reqTok{}, false
		}
		return reqTok{typ: "u", id: id, uh: f[2]}, true
	}
	return reqTok{}, false
}

// buildReqs turns request tokens into wire requests
func buildReqs(toks []string) ([]gsmsg.GraphSyncRequest, bool) {
	var reqs []gsmsg.GraphSyncRequest
	for _, t := range toks {
		rt, ok := parseTok(t)
		if !ok {
			return nil, false
		}
		switch rt.typ {
		case "n":
			script := graphsync.ExtensionData{Name: extScript, Data: basicnode.NewString(rt.rh + ":" + rt.bh)}
			reqs = append(reqs, gsmsg.NewRequest(reqID(rt.id), roots[rt.total], selAll, graphsync.Priority(0), script))
		case "c":
			reqs = append(reqs, gsmsg.NewCancelRequest(reqID(rt.id)))
		case "u":
			reqs = append(reqs, gsmsg.NewUpdateRequest(reqID(rt.id), graphsync.ExtensionData{Name: extUpd, Data: basicnode.NewString(rt.uh)}))
		}
	}
	return reqs, true
}

func (w *world) do(op []string) string {
	num := func(i int) (int, bool) {
		if i >= len(op) {
			return 0, false
		}
		v, err := strconv.Atoi(op[i])
		return v, err == nil && v >= 0
	}
	apiRes := func(err error) string {
		var nf graphsync.RequestNotFoundErr
		switch {
		case err == nil:
			return "ok"
		case errors.As(err, &nf):
			return "notfound"
		case err.Error() == "request is not paused":
			return "notpaused"
		case err.Error() == "request is already paused":
			return "alreadypaused"
		}
		return "err(" + err.Error() + ")"
	}
	w.drain()
	switch op[0] {
	case "msg":
		q, ok := num(1)
		if !ok || q >= nPeers {
			return "bad-op"
		}
		reqs, ok := buildReqs(op[2:])
		if !ok {
			return "bad-op"
		}
		w.rm.ProcessRequests(w.ctx, pid(q), reqs)
		return "ok"
	case "start", "step":
		p, ok1 := num(1)
		id, ok2 := num(2)
		if !ok1 || !ok2 || len(op) != 3 {
			return "bad-op"
		}
		key := [2]int{p, id}
		if op[0] == "start" {
			t, ok := w.q.pop(p, id)
			if !ok {
				return "notask"
			}
			x := &exec{key: key, serial: -1}
			w.execs[key] = x
			go func() {
				w.qe.ExecuteTask(w.ctx, pid(p), &t.task)
				w.evc <- gateEvt{done: true, key: key}
			}()
			switch w.waitExec(key) {
			case "gate":
				return "run"
			case "done":
				w.gmu.Lock()
				e := w.empty[key]
				w.gmu.Unlock()
				if e {
					return "empty"
				}
				return "fin"
			}
			return "stuck"
		}
		x := w.execs[key]
		if x == nil || !x.atGate {
			return "noexec"
		}
		x.atGate = false
		w.gmu.Lock()
		if rel, ok := w.gates[x.serial]; ok {
			close(rel)
			delete(w.gates, x.serial)
		}
		w.gmu.Unlock()
		switch w.waitExec(key) {
		case "gate":
			return "gate"
		case "done":
			return "fin"
		}
		return "stuck"
	case "pause", "unpause", "cancelresp", "updateresp":
		id, ok := num(1)
		if !ok || len(op) != 2 {
			return "bad-op"
		}
		switch op[0] {
		case "pause":
			return apiRes(w.rm.PauseResponse(w.ctx, reqID(id)))
		case "unpause":
			return apiRes(w.rm.UnpauseResponse(w.ctx, reqID(id)))
		case "cancelresp":
			return apiRes(w.rm.CancelResponse(w.ctx, reqID(id)))
		}
		return apiRes(w.rm.UpdateResponse(w.ctx, reqID(id), extOut))
	case "sent", "neterr", "neterrw":
		p, ok1 := num(1)
		j, ok2 := num(2)
		if !ok1 || !ok2 || (op[0] != "neterrw" && len(op) != 3) {
			return "bad-op"
		}
		var inject func()
		if op[0] == "neterrw" {
			q, ok := num(3)
			if !ok || q >= nPeers {
				return "bad-op"
			}
			reqs, ok := buildReqs(op[4:])
			if !ok {
				return "bad-op"
			}
			inject = func() { w.rm.ProcessRequests(w.ctx, pid(q), reqs) }
		}
		s := w.asm.streamOf(p, j)
		if s == nil {
			return "notfound"
		}
		w.asm.mu.Lock()
		code := s.finCode
		s.finCode = 0
		w.asm.onClear = inject
		w.asm.mu.Unlock()
		md := messagequeue.Metadata{ResponseCodes: map[graphsync.RequestID]graphsync.ResponseStatusCode{}}
		if code != 0 {
			md.ResponseCodes[reqID(s.id)] = code
		}
		e := messagequeue.Event{Name: messagequeue.Sent, Metadata: md}
		if op[0] != "sent" {
			e = messagequeue.Event{Name: messagequeue.Error, Err: errNet, Metadata: md}
		}
		s.sub.OnNext(notifications.Topic(0), e)
		// the message of the other connection did not get in between (no ClearRequest): it arrives now
		w.asm.mu.Lock()
		late := w.asm.onClear
		w.asm.onClear = nil
		w.asm.mu.Unlock()
		if late != nil {
			late()
		}
		return "ok"
	}
	return "bad-op"
}

var stLetter = map[graphsync.RequestState]string{graphsync.Queued: "q", graphsync.Running: "r", graphsync.Paused: "p", graphsync.CompletingSend: "c"}

type obs struct {
	res   string
	evs   []ev
	ord   map[int]int // stream serial -> ordinal among its peer's streams
	state [nPeers]map[int]string
	pend  []string
	act   []string
}

func (w *world) snapshot(res string) *obs {
	o := &obs{res: res, ord: map[int]int{}}
	w.owner, w.states = map[int]int{}, map[int]string{}
	for p := 0; p < nPeers; p++ {
		o.state[p] = map[int]string{}
		ps := w.rm.PeerState(pid(p)) // also the barrier: the mailbox is drained up to here
		for id, st := range ps.RequestStates {
			o.state[p][reqNum(id)] = stLetter[st]
			w.owner[reqNum(id)] = p
			w.states[reqNum(id)] = stLetter[st]
		}
	}
	o.evs = w.log.take()
	for _, e := range o.evs {
		if e.cat == "tx" {
			o.ord[e.k] = w.asm.ordinal(e.k)
		}
	}
	o.pend, o.act = w.q.lists()
	return o
}

func (o *obs) evText(e ev) string {
	if e.cat == "tx" {
		return fmt.Sprintf("%d#%d:%s", e.peer, o.ord[e.k], e.text)
	}
	return e.text
}

func (o *obs) line() string {
	cat := func(c string) string {
		var xs []string
		for _, e := range o.evs {
			if e.cat == c {
				xs = append(xs, o.evText(e))
			}
		}
		return strings.Join(xs, ",")
	}
	peers := make([]string, nPeers)
	for p := 0; p < nPeers; p++ {
		ids := make([]int, 0)
		for id := range o.state[p] {
			ids = append(ids, id)
		}
		sort.Ints(ids)
		var rs []string
		for _, id := range ids {
			rs = append(rs, fmt.Sprintf("%d=%s", id, o.state[p][id]))
		}
		peers[p] = fmt.Sprintf("%d{%s}", p, strings.Join(rs, ","))
	}
	return fmt.Sprintf("%s tx=[%s] cm=[%s] hk=[%s] ls=[%s] q=[%s] st=[%s pend=[%s] act=[%s]]", o.res, cat("tx"), cat("cm"), cat("hk"),
		cat("ls"), cat("q"), strings.Join(peers, " "), strings.Join(o.pend, ","), strings.Join(o.act, ","))
}

// view: what concerns peer p in this step (mine = the op itself belongs to p)
func (o *obs) view(p int, mine bool) string {
	var parts []string
	if mine {
		parts = append(parts, "res="+o.res)
	}
	for _, e := range o.evs {
		if e.peer == p {
			parts = append(parts, e.cat+":"+o.evText(e))
		}
	}
	ids := make([]int, 0)
	for id := range o.state[p] {
		ids = append(ids, id)
	}
	sort.Ints(ids)
	for _, id := range ids {
		parts = append(parts, fmt.Sprintf("st:%d=%s", id, o.state[p][id]))
	}
	prefix := strconv.Itoa(p) + "."
	for _, s := range o.pend {
		if strings.HasPrefix(s, prefix) {
			parts = append(parts, "pend:"+s)
		}
	}
	for _, s := range o.act {
		if strings.HasPrefix(s, prefix) {
			parts = append(parts, "act:"+s)
		}
	}
	return strings.Join(parts, " ")
}

type stepInfo struct {
	o     *obs
	owner map[int]int // id -> owning peer BEFORE the op
}

func runHistory(ops [][]string) ([]stepInfo, bool) {
	w := newWorld()
	defer w.close()
	var out []stepInfo
	for _, op := range ops {
		before := map[int]int{}
		for k, v := range w.owner {
			before[k] = v
		}
		if w.stuck {
			out = append(out, stepInfo{&obs{res: "stuck", ord: map[int]int{}}, before})
			continue
		}
		res := w.do(op)
		if res == "bad-op" {
			out = append(out, stepInfo{&obs{res: "bad-op"}, before})
			continue
		}
		out = append(out, stepInfo{w.snapshot(res), before})
	}
	return out, w.stuck
}

// ---------------------------------------------------------------- run + oracle

func Run(cases []reg.Case, out *reg.Out) {
	for _, c := range cases {
		out.BeginCase(c)
		runCase(c, out)
	}
}

// opPeer: the peer an op belongs to (for msg: the sender; local API ops: owner of the id before the op)
func opPeer(op []string, owner map[int]int) int {
	switch op[0] {
	case "msg", "start", "step", "sent", "neterr", "neterrw":
		if len(op) > 1 {
			if v, err := strconv.Atoi(op[1]); err == nil {
				return v
			}
		}
	case "pause", "unpause", "cancelresp", "updateresp":
		if len(op) > 1 {
			if id, err := strconv.Atoi(op[1]); err == nil {
				if p, ok := owner[id]; ok {
					return p
				}
			}
		}
	}
	return -1
}

var className = map[string]string{"n": "c10-new", "c": "c10-cancel", "u": "c10-update"}

func runCase(c reg.Case, out *reg.Out) {
	full, stuck := runHistory(c.Ops)
	for i, si := range full {
		out.Cov("op." + c.Ops[i][0])
		if si.o.res == "bad-op" {
			out.Line("bad-op")
			continue
		}
		out.Cov("res." + si.o.res)
		out.Line("%s", si.o.line())
	}
	if stuck {
		out.Fail("stuck", "an executor or the manager did not reach the expected point within %v", waitLimit)
	}
	// ---- foreign requests: from q, carrying an ID that is in the table for another peer
	type foreignTok struct {
		op, idx int
		victim  int
		typ     string
	}
	var ftoks []foreignTok
	victims := map[int]bool{}
	for i, op := range c.Ops {
		if op[0] != "msg" || full[i].o.res == "bad-op" {
			continue
		}
		q, _ := strconv.Atoi(op[1])
		owner := map[int]int{}
		for k, v := range full[i].owner {
			owner[k] = v
		}
		for j, t := range op[2:] {
			rt, _ := parseTok(t)
			if p, live := owner[rt.id]; live && p != q {
				ftoks = append(ftoks, foreignTok{i, j, p, rt.typ})
				victims[p] = true
				out.Cov("foreign." + rt.typ + ".victim-state." + stateBefore(full, i, p, rt.id))
			}
			// within one message an earlier request may create/remove the entry; keep it simple and
			// sound: only IDs live before the message count as "in use by another peer"
		}
		// (a) single step: a message made only of foreign requests must not touch the victims
	}
	for _, ft := range ftoks {
		i := ft.op
		allForeign := true
		q, _ := strconv.Atoi(c.Ops[i][1])
		for _, t := range c.Ops[i][2:] {
			rt, _ := parseTok(t)
			if p, live := full[i].owner[rt.id]; !live || p == q {
				allForeign = false
			}
		}
		if !allForeign || i == 0 {
			continue
		}
		a, b := full[i].o.view(ft.victim, false), stateOnly(full[i-1].o.view(ft.victim, false))
		if a != b {
			out.Fail(className[ft.typ], "op %d `%s` from peer %d changes what peer %d sees: [%s] (before: [%s])", i, strings.Join(c.Ops[i], " "), q, ft.victim, a, b)
			break
		}
	}
	lateCloseOracle(c, full, out)
	// (b) differential: delete the foreign requests aimed at peer P's responses
	ps := make([]int, 0)
	for p := range victims {
		ps = append(ps, p)
	}
	sort.Ints(ps)
	for _, p := range ps {
		drop := map[[2]int]bool{}
		lastTyp := map[int]string{} // op index -> type of the latest foreign request at or before it
		for _, ft := range ftoks {
			if ft.victim == p {
				drop[[2]int{ft.op, ft.idx}] = true
			}
		}
		var ops2 [][]string
		cur := ""
		for i, op := range c.Ops {
			if op[0] == "msg" && full[i].o.res != "bad-op" {
				op2 := []string{op[0], op[1]}
				for j, t := range op[2:] {
					if drop[[2]int{i, j}] {
						rt, _ := parseTok(t)
						cur = rt.typ
						continue
					}
					op2 = append(op2, t)
				}
				ops2 = append(ops2, op2)
			} else {
				ops2 = append(ops2, op)
			}
			lastTyp[i] = cur
		}
		ref, _ := runHistory(ops2)
		out.Cov("oracle.differential-runs")
		for i := range c.Ops {
			if full[i].o.res == "bad-op" {
				continue
			}
			mine := opPeer(c.Ops[i], full[i].owner) == p
			a, b := full[i].o.view(p, mine), ref[i].o.view(p, mine)
			if a != b {
				cls := className[lastTyp[i]]
				if cls == "" {
					cls = "c10-other"
				}
				out.Fail(cls, "peer %d: op %d `%s` observes [%s] but [%s] when the other peers' requests for its IDs are deleted", p, i, strings.Join(c.Ops[i], " "), a, b)
				break
			}
		}
	}
}

// lateCloseOracle: a network-error notification for peer p's response is two separate calls into the
// manager; whether another peer's message is handled between the two or after both must make no
// difference to that peer (and to everybody else): compare with the history in which it comes after.
func lateCloseOracle(c reg.Case, full []stepInfo, out *reg.Out) {
	for i, op := range c.Ops {
		if op[0] != "neterrw" || full[i].o.res == "bad-op" || len(op) < 5 {
			continue
		}
		out.Cov("oracle.late-close-runs")
		var ops2 [][]string
		ops2 = append(ops2, c.Ops[:i]...)
		ops2 = append(ops2, []string{"neterr", op[1], op[2]}, append([]string{"msg", op[3]}, op[4:]...))
		ops2 = append(ops2, c.Ops[i+1:]...)
		ref, _ := runHistory(ops2)
		for p := 0; p < nPeers; p++ {
			collect := func(steps []stepInfo) string {
				var parts []string
				for _, si := range steps {
					if si.o.res == "bad-op" {
						continue
					}
					for _, e := range si.o.evs {
						if e.peer == p {
							parts = append(parts, e.cat+":"+si.o.evText(e))
						}
					}
				}
				if n := len(steps); n > 0 && steps[n-1].o.res != "bad-op" {
					parts = append(parts, "final:"+stateOnly(steps[n-1].o.view(p, false)))
				}
				return strings.Join(parts, " ")
			}
			a, b := collect(full), collect(ref)
			if a != b {
				out.Fail("c10-late-close", "op %d `%s`: peer %d observes [%s]; had the message arrived after the notification: [%s]", i, strings.Join(op, " "), p, a, b)
				return
			}
		}
	}
}

func stateBefore(full []stepInfo, i, p, id int) string {
	if i == 0 {
		return "?"
	}
	if s, ok := full[i-1].o.state[p][id]; ok {
		return s
	}
	return "?"
}

// stateOnly keeps the st:/pend:/act: parts of a view (what persists when nothing happens)
func stateOnly(v string) string {
	var ps []string
	for _, f := range strings.Fields(v) {
		if strings.HasPrefix(f, "st:") || strings.HasPrefix(f, "pend:") || strings.HasPrefix(f, "act:") {
			ps = append(ps, f)
		}
	}
	return strings.Join(ps, " ")
}

// ---------------------------------------------------------------- generator

// genState mirrors just enough of the responder to produce histories that make sense and that keep
// the executor deterministic (at most one kind of signal pending for a running response).
type gresp struct {
	id, p, total, sent int
	state              string // q r p c
	sig                string // "", "pause", "err", "upd"
	streamOrd          int
	exec               bool
}

type genState struct {
	r       *rand.Rand
	w       *bufio.Writer
	live    map[int]*gresp
	nstream [nPeers]int
	nextID  int
}

func (g *genState) emit(format string, a ...interface{}) { fmt.Fprintf(g.w, format+"\n", a...) }

func (g *genState) pick() *gresp {
	if len(g.live) == 0 {
		return nil
	}
	ids := make([]int, 0, len(g.live))
	for id := range g.live {
		ids = append(ids, id)
	}
	sort.Ints(ids)
	return g.live[ids[g.r.Intn(len(ids))]]
}

func (g *genState) bhTok(total int) string {
	switch g.r.Intn(8) {
	case 0:
		return fmt.Sprintf("x%d", g.r.Intn(total))
	case 1:
		return fmt.Sprintf("p%d", g.r.Intn(total))
	case 2:
		return fmt.Sprintf("e%d", g.r.Intn(total))
	}
	return "n"
}

// a request from peer q that replays another peer's live ID
func (g *genState) foreignTok(v *gresp) string {
	switch g.r.Intn(3) {
	case 0:
		total := 1 + g.r.Intn(maxChain)
		return fmt.Sprintf("n:%d:%d:%s:%s", v.id, total, []string{"ok", "ok", "pa", "rj", "er"}[g.r.Intn(5)], g.bhTok(total))
	case 1:
		return fmt.Sprintf("c:%d", v.id)
	}
	return fmt.Sprintf("u:%d:%s", v.id, []string{"n", "x", "e", "u"}[g.r.Intn(4)])
}

func (g *genState) newResp(p int) string {
	id := g.nextID
	g.nextID++
	total := 1 + g.r.Intn(maxChain)
	rh := []string{"ok", "ok", "ok", "ok", "pa", "pa", "rj", "er"}[g.r.Intn(8)]
	v := &gresp{id: id, p: p, total: total, streamOrd: g.nstream[p]}
	g.nstream[p]++
	switch rh {
	case "ok":
		v.state = "q"
	case "pa":
		v.state = "p"
	default:
		v.state = "c"
	}
	g.live[id] = v
	return fmt.Sprintf("n:%d:%d:%s:%s", id, total, rh, g.bhTok(total))
}

func genCase(r *rand.Rand, w *bufio.Writer, name string, foreignRate int) {
	fmt.Fprintf(w, "case %s\n", name)
	g := &genState{r: r, w: w, live: map[int]*gresp{}, nextID: 1}
	nops := 5 + r.Intn(25)
	for i := 0; i < nops; i++ {
		v := g.pick()
		k := r.Intn(100)
		if v == nil || (k < 10 && len(g.live) < 3) {
			p := r.Intn(nPeers)
			g.emit("msg %d %s", p, g.newResp(p))
			continue
		}
		// foreign message: another peer replays v's ID (no effect expected => generator state unchanged)
		if r.Intn(100) < foreignRate {
			q := (v.p + 1 + r.Intn(nPeers-1)) % nPeers
			toks := []string{g.foreignTok(v)}
			if r.Intn(4) == 0 {
				toks = append(toks, g.foreignTok(v))
			}
			if r.Intn(5) == 0 { // plus an own new request in the same message
				toks = append(toks, g.newResp(q))
			}
			g.emit("msg %d %s", q, strings.Join(toks, " "))
			continue
		}
		switch v.state {
		case "q":
			switch {
			case k < 55:
				g.emit("start %d %d", v.p, v.id)
				v.state, v.exec = "r", true
			case k < 65:
				g.emit("msg %d c:%d", v.p, v.id)
				delete(g.live, v.id)
			case k < 75:
				g.emit("msg %d u:%d:%s", v.p, v.id, []string{"n", "x", "e"}[r.Intn(3)])
				if v.sig == "" {
					v.sig = "upd"
				} else if v.sig != "upd" {
					v.sig = "mixed"
				}
			case k < 82:
				if v.sig == "" || v.sig == "pause" {
					g.emit("pause %d", v.id)
					v.sig = "pause"
				}
			case k < 90:
				g.emit("cancelresp %d", v.id)
				v.state = "c"
				if g.r.Intn(2) == 0 {
					g.emit("start %d %d", v.p, v.id) // the task is still queued: the worker gets an empty task
				}
			default:
				g.emit("updateresp %d", v.id)
			}
		case "r":
			switch {
			case k < 55:
				if v.sig == "mixed" {
					// more than one kind of signal is pending: Go's select would pick at random; resolve by cancelling
					g.emit("msg %d c:%d", v.p, v.id)
					continue
				}
				g.emit("step %d %d", v.p, v.id)
				g.afterStep(v)
			case k < 65:
				if v.sig == "" || v.sig == "upd" {
					g.emit("msg %d u:%d:%s", v.p, v.id, []string{"n", "x", "e"}[r.Intn(3)])
					v.sig = "upd"
				}
			case k < 73:
				if v.sig == "" || v.sig == "err" {
					g.emit("msg %d c:%d", v.p, v.id)
					v.sig = "err"
					v.errKind("cancel")
				}
			case k < 80:
				if v.sig == "" || v.sig == "pause" {
					g.emit("pause %d", v.id)
					v.sig = "pause"
				}
			case k < 86:
				if v.sig == "" {
					g.emit("cancelresp %d", v.id)
					v.sig = "err"
					v.errKind("command")
				}
			case k < 92:
				if v.sig == "" {
					g.emit("neterr %d %d", v.p, v.streamOrd)
					v.sig = "err"
					v.errKind("net")
				}
			default:
				g.emit("updateresp %d", v.id)
			}
		case "p":
			switch {
			case k < 35:
				g.emit("unpause %d", v.id)
				v.state = "q"
			case k < 60:
				u := []string{"n", "x", "e", "u"}[r.Intn(4)]
				g.emit("msg %d u:%d:%s", v.p, v.id, u)
				if u == "e" {
					v.state = "c"
				} else if u == "u" {
					v.state = "q"
				}
			case k < 72:
				g.emit("msg %d c:%d", v.p, v.id)
				delete(g.live, v.id)
			case k < 80:
				g.emit("cancelresp %d", v.id)
				v.state = "c"
			case k < 88:
				g.emit("neterr %d %d", v.p, v.streamOrd)
				delete(g.live, v.id)
			case k < 94:
				g.emit("pause %d", v.id)
			default:
				g.emit("updateresp %d", v.id)
			}
		case "c":
			switch {
			case k < 55:
				g.emit("sent %d %d", v.p, v.streamOrd)
				delete(g.live, v.id)
			case k < 67:
				g.emit("neterr %d %d", v.p, v.streamOrd)
				delete(g.live, v.id)
			case k < 75:
				// the send failure is reported while another peer's request re-using the ID arrives
				q := (v.p + 1 + r.Intn(nPeers-1)) % nPeers
				total := 1 + r.Intn(maxChain)
				rh := []string{"ok", "ok", "pa", "rj"}[r.Intn(4)]
				g.emit("neterrw %d %d %d n:%d:%d:%s:%s", v.p, v.streamOrd, q, v.id, total, rh, g.bhTok(total))
				delete(g.live, v.id)
				nv := &gresp{id: v.id, p: q, total: total, streamOrd: g.nstream[q]}
				g.nstream[q]++
				nv.state = map[string]string{"ok": "q", "pa": "p", "rj": "c"}[rh]
				g.live[v.id] = nv
			case k < 85:
				g.emit("msg %d c:%d", v.p, v.id)
			case k < 92:
				g.emit("msg %d u:%d:x", v.p, v.id)
			default:
				g.emit("pause %d", v.id)
			}
		}
	}
}

func (v *gresp) errKind(string) {}

// afterStep: what one released block does to a running response, as far as the generator must know
// (it only needs the next state and whether the executor is still running; exactness is the model's job)
func (g *genState) afterStep(v *gresp) {
	// conservative: after a step with a pending signal or a block hook the state is not predicted
	// exactly; mark the response as "unknown" by re-deriving from simple rules
	switch v.sig {
	case "err":
		// cancelled by requestor / network => gone; by command => completing.  Treat as completing:
		// ops on a response that is already gone are harmless (notfound).
		v.state, v.exec, v.sig = "c", false, ""
		return
	case "pause":
		v.sent++
		v.state, v.exec, v.sig = "p", false, ""
		return
	case "upd", "mixed":
		v.sig = "" // (an update hook error ends the response; the generator may still try ops on it)
	}
	v.sent++
	if v.sent >= v.total {
		v.state, v.exec = "c", false
	}
}

// Gen: random lifecycle-aware histories (about a third of the operations are requests from another
// peer replaying a live ID); plus, in both tiers, a systematic family: one victim response in every
// lifecycle state x every kind of foreign request, followed by the victim's normal completion.
func Gen(seed int64, n int, tier string, w *bufio.Writer) {
	r := rand.New(rand.NewSource(seed))
	for i := 0; i < n; i++ {
		genCase(r, w, fmt.Sprintf("r%d", i), 35)
	}
	for i := 0; i < n/10; i++ {
		genCase(r, w, fmt.Sprintf("h%d", i), 0) // honest only: exercises the model on long lifecycles
	}
	prefixes := []struct {
		name string
		ops  []string
	}{
		{"queued", []string{"msg 0 n:1:3:ok:n"}},
		{"running0", []string{"msg 0 n:1:3:ok:n", "start 0 1"}},
		{"running1", []string{"msg 0 n:1:3:ok:n", "start 0 1", "step 0 1"}},
		{"pausedhook", []string{"msg 0 n:1:3:pa:n"}},
		{"pausedblk", []string{"msg 0 n:1:3:ok:p0", "start 0 1", "step 0 1"}},
		{"completing", []string{"msg 0 n:1:1:ok:n", "start 0 1", "step 0 1"}},
		{"rejected", []string{"msg 0 n:1:3:rj:n"}},
	}
	suffix := map[string][]string{
		"queued":     {"start 0 1", "step 0 1", "step 0 1", "step 0 1", "sent 0 0"},
		"running0":   {"step 0 1", "step 0 1", "step 0 1", "sent 0 0"},
		"running1":   {"step 0 1", "step 0 1", "sent 0 0"},
		"pausedhook": {"unpause 1", "start 0 1", "step 0 1", "step 0 1", "step 0 1", "sent 0 0"},
		"pausedblk":  {"msg 0 u:1:u", "start 0 1", "step 0 1", "step 0 1", "sent 0 0"},
		"completing": {"sent 0 0"},
		"rejected":   {"sent 0 0"},
	}
	foreign := []string{"c:1", "u:1:n", "u:1:x", "u:1:e", "u:1:u", "n:1:2:ok:n", "n:1:2:pa:n", "n:1:1:rj:n", "n:1:4:er:n", "c:1 n:1:2:ok:n", "n:1:2:ok:n c:1"}
	k := 0
	for _, pf := range prefixes {
		for _, f := range foreign {
			for _, q := range []int{1, 2} {
				if tier != "thorough" && q == 2 && k%2 == 0 {
					k++
					continue
				}
				fmt.Fprintf(w, "case x%d-%s\n%s\nmsg %d %s\n%s\n", k, pf.name, strings.Join(pf.ops, "\n"), q, f, strings.Join(suffix[pf.name], "\n"))
				k++
			}
		}
	}
}
