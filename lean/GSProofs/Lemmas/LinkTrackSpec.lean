import GSProofs.Lemmas.LinkTrackSim
/-!
Naive specification of the per-peer link tracking, written from the text of property C19; the model
of `peerLinkTracker` refines it on every history (`LinkTrackRefine/Finish.lean`).

The specification keeps, for one peer:
  * `scope r`  – the dedup key of request `r` (none = default scope); assigning a key moves the
                 request and everything it recorded so far into that scope,
  * `cnt r`, `skp r` – number of links reported so far / do-not-send-first-blocks value,
  * `wb` – one entry `(scope, request, link)` for every link a request that is still in progress
           traversed with its block (reported with data, or listed in its ignore list),
  * `ms` – the same for links reported without data (missing),
  * `live r` – `r` has issued an operation since it last finished / was cleared.
There are no reference counts and no per-scope trackers: the send decision looks the link up in `wb`.
-/
set_option linter.unusedSimpArgs false
namespace GS.LinkTrack

abbrev PEntry := Option Key × Req × Link

def upd {α : Type} (f : Req → α) (r : Req) (v : α) : Req → α := fun x => if x = r then v else f x

@[simp] theorem upd_same {α : Type} (f : Req → α) (r : Req) (v : α) : upd f r v r = v := by simp [upd]
theorem upd_other {α : Type} (f : Req → α) {r x : Req} (v : α) (h : x ≠ r) : upd f r v x = f x := by
  simp [upd, h]

structure Spec where
  scope : Req → Option Key := fun _ => none
  cnt : Req → Option Nat := fun _ => none
  skp : Req → Option Int := fun _ => none
  wb : List PEntry := []
  ms : List PEntry := []
  live : Req → Bool := fun _ => false

namespace Spec

/-- some in-progress request has traversed `l` with its block in scope `s`. -/
def inUse (σ : Spec) (s : Option Key) (l : Link) : Bool := σ.wb.any (fun e => e.1 == s && e.2.2 == l)

/-- request `r` met a missing block since it began. -/
def sawMissing (σ : Spec) (r : Req) : Bool := σ.ms.any (fun e => e.2.1 == r)

/-- `r` finished / was cleared: forget everything about it. -/
def endReq (σ : Spec) (r : Req) : Spec :=
  { scope := upd σ.scope r none
    cnt := upd σ.cnt r none
    skp := upd σ.skp r none
    wb := σ.wb.filter (fun e => e.2.1 != r)
    ms := σ.ms.filter (fun e => e.2.1 != r)
    live := upd σ.live r false }

/-- request `r` moves to scope `s`: its entries are re-labelled (and listed last). -/
def moveReq (L : List PEntry) (r : Req) (s : Option Key) : List PEntry :=
  L.filter (fun e => e.2.1 != r) ++ (L.filter (fun e => e.2.1 == r)).map (fun e => (s, e.2.1, e.2.2))

def step (σ : Spec) : Op → Spec × Out
  | .dedup r k =>
    (if σ.scope r = some k then { σ with live := upd σ.live r true }
     else { σ with scope := upd σ.scope r (some k), wb := moveReq σ.wb r (some k),
                   ms := moveReq σ.ms r (some k), live := upd σ.live r true }, .ok)
  | .ignore r ls =>
    ({ σ with wb := σ.wb ++ ls.map (fun l => (σ.scope r, r, l)), live := upd σ.live r true }, .ok)
  | .skip r n => ({ σ with skp := upd σ.skp r (some n), live := upd σ.live r true }, .ok)
  | .trav r l b =>
    let c := (σ.cnt r).getD 0 + 1
    let send := b && decide ((σ.skp r).getD 0 < (c : Int)) && !σ.inUse (σ.scope r) l
    let σ' := { σ with cnt := upd σ.cnt r (some c), live := upd σ.live r true }
    (if b then { σ' with wb := σ.wb ++ [(σ.scope r, r, l)] }
     else { σ' with ms := σ.ms ++ [(σ.scope r, r, l)] }, .sent send c)
  | .finish r => (σ.endReq r, .done (!σ.sawMissing r))
  | .finishErr r => (σ.endReq r, .done (!σ.sawMissing r))
  | .clear r => (σ.endReq r, .done (!σ.sawMissing r))

def runFrom (σ : Spec) : List Op → Spec × List Out
  | [] => (σ, [])
  | o :: os =>
    let (σ1, out) := σ.step o
    let (σ2, outs) := runFrom σ1 os
    (σ2, out :: outs)

end Spec

/-- the part of a peer-level ledger that belongs to scope `s`. -/
def proj (L : List PEntry) (s : Option Key) : Ledger := (L.filter (fun e => e.1 == s)).map (·.2)

theorem proj_append (L M : List PEntry) (s : Option Key) : proj (L ++ M) s = proj L s ++ proj M s := by
  simp [proj, List.filter_append]

theorem proj_single (s' : Option Key) (r : Req) (l : Link) (s : Option Key) :
    proj [(s', r, l)] s = if s' = s then [(r, l)] else [] := by
  by_cases h : s' = s <;> simp [proj, List.filter_cons, h]

theorem proj_map (s' : Option Key) (r : Req) (ls : List Link) (s : Option Key) :
    proj (ls.map (fun l => (s', r, l))) s = if s' = s then ls.map (fun l => (r, l)) else [] := by
  induction ls with
  | nil => simp [proj]
  | cons a t ih =>
    rw [List.map_cons, ← List.singleton_append, proj_append, ih, proj_single]
    by_cases h : s' = s <;> simp [h]

theorem mem_proj {L : List PEntry} {s : Option Key} {x : Req × Link} : x ∈ proj L s ↔ (s, x.1, x.2) ∈ L := by
  unfold proj
  simp only [List.mem_map, List.mem_filter]
  constructor
  · rintro ⟨e, ⟨he, hs⟩, rfl⟩
    have : e.1 = s := by simpa using hs
    obtain ⟨a, b, c⟩ := e
    simp at this; subst this; exact he
  · intro h
    exact ⟨(s, x.1, x.2), ⟨h, by simp⟩, rfl⟩

theorem proj_filter_req (L : List PEntry) (r : Req) (s : Option Key) :
    proj (L.filter (fun e => e.2.1 != r)) s = dropReq (proj L s) r := by
  unfold proj dropReq
  induction L with
  | nil => simp
  | cons e t ih =>
    obtain ⟨a, b, c⟩ := e
    by_cases h1 : b = r <;> by_cases h2 : a = s <;> simp [List.filter_cons, h1, h2] at ih ⊢ <;> exact ih

theorem cntOf_proj_eq_zero_iff (L : List PEntry) (s : Option Key) (l : Link) :
    cntOf (proj L s) l = 0 ↔ L.any (fun e => e.1 == s && e.2.2 == l) = false := by
  unfold cntOf proj
  induction L with
  | nil => simp
  | cons e t ih =>
    obtain ⟨a, b, c⟩ := e
    by_cases h1 : a = s <;> by_cases h2 : c = l <;>
      simp [List.filter_cons, List.countP_cons, h1, h2] at ih ⊢ <;> exact ih

theorem any_proj_req (L : List PEntry) (s : Option Key) (r : Req)
    (hj : ∀ e ∈ L, e.2.1 = r → e.1 = s) :
    (proj L s).any (fun e => e.1 == r) = L.any (fun e => e.2.1 == r) := by
  rw [Bool.eq_iff_iff]
  simp only [List.any_eq_true]
  constructor
  · rintro ⟨x, hx, hr⟩
    exact ⟨(s, x.1, x.2), mem_proj.1 hx, hr⟩
  · rintro ⟨e, he, hr⟩
    have h1 : e.2.1 = r := by simpa using hr
    have h2 := hj e he h1
    refine ⟨e.2, mem_proj.2 ?_, hr⟩
    obtain ⟨a, b, c⟩ := e
    simp at h2; subst h2; exact he


/-! ### a request changes scope -/

/-- the `(request, link)` pairs of request `r`, all scopes, in recording order -/
def reqPairs (L : List PEntry) (r : Req) : Ledger := (L.filter (fun e => e.2.1 == r)).map (·.2)

/-- the links of request `r` in a peer-level ledger, all scopes, in recording order -/
def reqLinks (L : List PEntry) (r : Req) : List Link := (L.filter (fun e => e.2.1 == r)).map (·.2.2)

theorem proj_moveReq (L : List PEntry) (r : Req) (s s' : Option Key) :
    proj (Spec.moveReq L r s) s' = dropReq (proj L s') r ++ (if s = s' then reqPairs L r else []) := by
  unfold Spec.moveReq
  rw [proj_append, proj_filter_req]
  congr 1
  unfold proj reqPairs
  by_cases h : s = s'
  · subst h; simp [List.filter_map, Function.comp_def]
  · simp [h, List.filter_map, Function.comp_def]

theorem mem_moveReq {L : List PEntry} {r : Req} {s : Option Key} {e : PEntry} :
    e ∈ Spec.moveReq L r s ↔ (e ∈ L ∧ e.2.1 ≠ r) ∨ (e.1 = s ∧ e.2.1 = r ∧ ∃ s0, (s0, r, e.2.2) ∈ L) := by
  unfold Spec.moveReq
  simp only [List.mem_append, List.mem_filter, List.mem_map]
  constructor
  · rintro (⟨he, hne⟩ | ⟨x, ⟨hx, hxr⟩, rfl⟩)
    · exact Or.inl ⟨he, by simpa using hne⟩
    · have hxr' : x.2.1 = r := by simpa using hxr
      refine Or.inr ⟨rfl, hxr', x.1, ?_⟩
      obtain ⟨a, b, c⟩ := x
      simp only at hxr'; subst hxr'; exact hx
  · rintro (⟨he, hne⟩ | ⟨h1, h2, s0, h3⟩)
    · exact Or.inl ⟨he, by simpa using hne⟩
    · refine Or.inr ⟨(s0, r, e.2.2), ⟨h3, by simp⟩, ?_⟩
      obtain ⟨a, b, c⟩ := e
      simp only at h1 h2; subst h1; subst h2; rfl

theorem linksOf_reqPairs (L : List PEntry) (r r' : Req) :
    linksOf (reqPairs L r) r' = if r = r' then reqLinks L r else [] := by
  unfold linksOf reqPairs reqLinks
  by_cases h : r = r'
  · subst h
    simp only [if_true, List.filter_map, List.map_map]
    congr 1
    rw [List.filter_filter]
    apply List.filter_congr
    intro e _; simp [Function.comp_def]
  · simp only [h, if_false, List.map_eq_nil_iff, List.filter_eq_nil_iff, List.mem_map, List.mem_filter]
    rintro x ⟨e, ⟨_, he⟩, rfl⟩
    have : e.2.1 = r := by simpa using he
    simp [this, h]

theorem reqPairs_eq_map (L : List PEntry) (r : Req) : reqPairs L r = (reqLinks L r).map (fun l => (r, l)) := by
  unfold reqPairs reqLinks
  rw [List.map_map]
  apply List.map_congr_left
  intro e he
  have : e.2.1 = r := by simpa using (List.mem_filter.1 he).2
  obtain ⟨a, b, c⟩ := e
  simp only at this; subst this; rfl

theorem mem_reqPairs {L : List PEntry} {r : Req} {x : Req × Link} :
    x ∈ reqPairs L r ↔ x.1 = r ∧ ∃ s, (s, r, x.2) ∈ L := by
  unfold reqPairs
  simp only [List.mem_map, List.mem_filter]
  constructor
  · rintro ⟨e, ⟨he, her⟩, rfl⟩
    have : e.2.1 = r := by simpa using her
    refine ⟨this, e.1, ?_⟩
    obtain ⟨a, b, c⟩ := e
    simp only at this; subst this; exact he
  · rintro ⟨h1, s, h2⟩
    refine ⟨(s, r, x.2), ⟨h2, by simp⟩, ?_⟩
    obtain ⟨a, b⟩ := x
    simp only at h1; subst h1; rfl

/-- when every entry of `r` carries `r`'s current scope, the scope-`s` part of the ledger holds all
    of `r`'s links or none of them -/
theorem linksOf_proj (L : List PEntry) (sc : Req → Option Key) (hj : ∀ e ∈ L, e.1 = sc e.2.1)
    (s : Option Key) (r : Req) :
    linksOf (proj L s) r = if sc r = s then reqLinks L r else [] := by
  unfold linksOf proj reqLinks
  induction L with
  | nil => simp
  | cons e t ih =>
    have ih' := ih (fun e he => hj e (List.mem_cons_of_mem _ he))
    have he := hj e (List.mem_cons_self)
    obtain ⟨a, b, c⟩ := e
    simp only at he
    by_cases h1 : b = r
    · subst h1
      by_cases h2 : sc b = s
      · simp [List.filter_cons, he, h2] at ih' ⊢; exact ih'
      · simp [List.filter_cons, he, h2] at ih' ⊢; exact ih'
    · by_cases h2 : a = s
      · simp [List.filter_cons, h1, h2] at ih' ⊢; exact ih'
      · simp [List.filter_cons, h1, h2] at ih' ⊢; exact ih'

theorem proj_eq_nil {L : List PEntry} {s : Option Key} (h : ∀ e ∈ L, e.1 ≠ s) : proj L s = [] := by
  unfold proj
  simp only [List.map_eq_nil_iff, List.filter_eq_nil_iff]
  intro e he; simp [h e he]

end GS.LinkTrack
