import GSProofs.C23Stale
/-!
# C23, requestor side — stale task, part 2: closing the open items of C23Stale
-/
namespace GS.ReqLife
open GS.Generated

/-! ## (3) which step can delete the request -/

/-- every action other than `mgr`, `ceRecv`, `cpDrainE` leaves `reg` alone -/
theorem step_reg {s s' : State} {a : Action} (hs : step s a = some s') :
    a = .mgr ∨ a = .ceRecv ∨ a = .cpDrainE ∨ s'.reg = s.reg := by
  cases a
  case mgr => left; rfl
  case ceRecv => right; left; rfl
  case cpDrainE => right; right; left; rfl
  all_goals
    right; right; right
    simp only [step, env, pushMsg, sendRelease, pauseCheck, dataLoaded, loadFailed, afterVisit,
      Option.map_eq_some_iff] at hs
    (repeat' split at hs) <;> (first | (cases hs; done) | (obtain ⟨_, hs1, hs2⟩ := hs; simp at hs1; subst hs2; grind) | (cases hs; grind))

/-! ## (1) a tracked request that is not Running has no terminal error while the manager is idle -/

/-- the terminal error is recorded only together with cancelling the request context (Running request)
    or entering `terminateRequest` (otherwise) -/
def TGood (r : State) : Prop :=
  (r.reg = .none → r.termErr = none) ∧
  (r.reg = .live → r.termErr ≠ none → r.ctxDone = true ∨ r.mphase ≠ .idle)

theorem tgood_frame {s r : State} (h : TGood s) (h1 : r.reg = s.reg) (h2 : r.termErr = s.termErr)
    (h3 : r.ctxDone = s.ctxDone) (h4 : r.mphase = s.mphase) : TGood r := by
  unfold TGood at *; rw [h1, h2, h3, h4]; exact h

theorem terminate_tgood (x : State) (b : Bool) (hl : x.reg = .live) : TGood (terminate x b) := by
  unfold terminate
  split
  · exact ⟨fun h => by simp [hl] at h, fun _ _ => Or.inr (by simp)⟩
  · exact ⟨fun h => by simp [finishTerminate] at h, fun h => by simp [finishTerminate] at h⟩

theorem cancelOnError_tgood (x : State) (e : Option Err) (hl : x.reg = .live) : TGood (cancelOnError x e) := by
  unfold cancelOnError
  simp only
  split <;> split
  · exact terminate_tgood _ _ hl
  · exact ⟨fun h => by simp [hl] at h, fun _ _ => Or.inl rfl⟩
  · exact terminate_tgood _ _ hl
  · exact ⟨fun h => by simp [hl] at h, fun _ _ => Or.inl rfl⟩

theorem handle_tgood (s : State) (m : Msg) (h : TGood s) : TGood (handle s m) := by
  cases m
  case newReq =>
    unfold handle; simp only; split
    · exact h
    · rename_i hn
      have hn' : s.reg = .none := by simpa using hn
      exact ⟨fun x => by simp at x, fun _ hne => absurd (h.1 hn') hne⟩
  case cancel api =>
    unfold handle; simp only; split
    · split
      · exact tgood_frame h rfl rfl rfl rfl
      · exact h
    · rename_i hl
      have hl' : s.reg = .live := by simpa using hl
      unfold cancelLive
      exact cancelOnError_tgood _ _ (by split <;> exact hl')
  case responses p st items hk =>
    unfold handle; simp only; split
    · split
      · exact h
      · rename_i hl
        have hl' : s.reg = .live := by simpa using hl
        exact cancelOnError_tgood _ _ hl'
    · split
      · exact h
      · rename_i hpf
        have hl' : s.reg = .live := by
          simp at hpf; exact hpf.1
        have hi : TGood (ingest s items) ∧ (ingest s items).reg = .live := by
          unfold ingest; split
          · exact ⟨tgood_frame h rfl rfl rfl rfl, hl'⟩
          · exact ⟨h, hl'⟩
        unfold procTerminations
        simp only
        split
        · split
          · have := fun e => cancelOnError_tgood (ingest s items) e hi.2
            split
            · exact tgood_frame (this _) rfl rfl rfl rfl
            · exact this _
          · split
            · exact tgood_frame hi.1 rfl rfl rfl rfl
            · exact hi.1
        · exact hi.1
  case pause =>
    unfold handle; simp only; split
    · exact tgood_frame h rfl rfl rfl rfl
    · split <;> exact tgood_frame h rfl rfl rfl rfl
  case unpause =>
    unfold handle; simp only; split
    · exact tgood_frame h rfl rfl rfl rfl
    · split <;> exact tgood_frame h rfl rfl rfl rfl
  case getTask =>
    unfold handle; simp only; split
    · exact tgood_frame h rfl rfl rfl rfl
    · split <;> exact tgood_frame h rfl rfl rfl rfl
  case release e =>
    unfold handle; simp only; split
    · exact tgood_frame h rfl rfl rfl rfl
    · rename_i hl
      have hl' : s.reg = .live := by simpa using hl
      split
      · exact tgood_frame h rfl rfl rfl rfl
      · exact terminate_tgood _ _ hl'

theorem errSender_tgood {s s1 : State} {e : Err} (h : TGood s) (hs : errSender s = some (e, s1)) : TGood s1 := by
  simp only [errSender] at hs
  (repeat' split at hs) <;> (cases hs) <;>
    first
    | exact tgood_frame h rfl rfl rfl rfl
    | exact ⟨fun x => by simp [finishTerminate] at x, fun x => by simp [finishTerminate] at x⟩

theorem step_tgood {s s' : State} {a : Action} (h : TGood s) (hs : step s a = some s') : TGood s' := by
  cases a
  case mgr =>
    simp only [step] at hs
    split at hs
    next m rest hm hb =>
      cases hs
      exact handle_tgood _ m (tgood_frame h rfl rfl rfl rfl)
    next => cases hs
  case ceRecv =>
    simp only [step] at hs
    split at hs
    next buf e s1 hce hsnd => cases hs; exact tgood_frame (errSender_tgood h hsnd) rfl rfl rfl rfl
    next => cases hs
  case cpDrainE =>
    simp only [step] at hs
    split at hs
    next sent pO e s1 hcp hsnd => cases hs; exact tgood_frame (errSender_tgood h hsnd) rfl rfl rfl rfl
    next => cases hs
  all_goals
    obtain ⟨g1, g2⟩ := h
    simp only [step, env, pushMsg, sendRelease, pauseCheck, dataLoaded, loadFailed, afterVisit,
      Option.map_eq_some_iff] at hs
    (repeat' split at hs) <;> (first | (cases hs; done) | (obtain ⟨_, hs1, hs2⟩ := hs; simp at hs1; subst hs2; constructor <;> grind) | (cases hs; constructor <;> grind))

theorem tgood_reachable {s : State} (h : Reachable s) : TGood s := by
  induction h with
  | init p e t => exact ⟨fun _ => rfl, fun x => by simp [init] at x⟩
  | step _ hs ih => exact step_tgood ih hs

end GS.ReqLife

namespace GS.C23
open GS.ReqLife

/-- **(1) queued_no_termErr** — in every reachable state a tracked request that is not Running has no
    terminal error recorded while the manager is idle (so in particular in every quiescent Queued state) -/
theorem queued_no_termErr {s : GS.ReqLife.State} (h : GS.ReqLife.Reachable s) (hl : s.reg = .live)
    (hr : s.rstate ≠ .running) (hm : s.mphase = .idle) : s.termErr = none := by
  apply Classical.byContradiction
  intro hne
  rcases (tgood_reachable h).2 hl hne with hc | hc
  · exact hr ((req_reachable_inv h).1.pz hl hc hm)
  · exact hc hm

/-- `cancel_while_queued_stale` without the `termErr` hypothesis -/
theorem cancel_while_queued_stale' {s : GS.ReqLife.State} (h : GS.ReqLife.Reachable s) (hq : Quiescent s)
    (hr : reportedState s = some .queued) :
    ∃ s', step (pushMsg s (.cancel false)) .mgr = some s' ∧ s' = handle s (.cancel false) ∧
      EndedWhileQueued s s' ∧ staleTask s' ∧ s'.tqPending = s.tqPending := by
  have hl : s.reg = .live := by
    simp only [reportedState] at hr; split at hr
    · assumption
    · cases hr
  have hrs : s.rstate = .queued := by
    simp only [reportedState, hl, if_true, Option.some.injEq] at hr; exact hr
  exact cancel_while_queued_stale h hq hr (queued_no_termErr h hl (by simp [hrs]) hq.2.1)

/-- **(3) ending_action_spec** — the step that realises `EndedWhileQueued` (indeed any step that deletes a
    tracked request) is the manager handling a message (`mgr`) or the completion of `terminateRequest`'s
    terminal-error hand-over to the error collector (`ceRecv`) or to the cancelling progress collector
    (`cpDrainE`). -/
theorem ending_action_spec {s0 s1 : GS.ReqLife.State} {a : GS.ReqLife.Action} (hs : step s0 a = some s1)
    (he : EndedWhileQueued s0 s1) : a = .mgr ∨ a = .ceRecv ∨ a = .cpDrainE := by
  rcases step_reg hs with h | h | h | h
  · exact Or.inl h
  · exact Or.inr (Or.inl h)
  · exact Or.inr (Or.inr h)
  · rw [he.1, he.2.2.2.2] at h; cases h

/-- all three occur: `mgr` (non-API cancel, `cancel_while_queued_stale'`), `ceRecv` (`staleTrace`) -/
example : ∃ s0 s1, run (init 0 10 10) (staleTrace.take 4) = some s0 ∧ step s0 .ceRecv = some s1 ∧
    EndedWhileQueued s0 s1 := ⟨_, _, rfl, rfl, by decide⟩

/-- a tracked request whose caller context is not cancelled has both collectors running with open inputs -/
theorem live_collectors {s : GS.ReqLife.State} (h : GS.ReqLife.Reachable s) (hl : s.reg = .live)
    (hc : s.callerCtx = false) : (∃ b, s.cp = .run b true) ∧ (∃ l, s.ce = .run l true) ∧ s.newSent = true := by
  have hi := (req_reachable_inv h).1
  have n1 := hi.n1 (by simp [hl])
  have n2 := hi.n2
  have n2e := hi.n2e
  have n3 := hi.n3
  have n3c := hi.n3c
  have n3d := hi.n3d
  have f1 := hi.f1
  refine ⟨?_, ?_, ?_⟩
  · cases hcp : s.cp with
    | none => exact absurd hcp n1.1
    | run b io => cases io
                  · rw [hcp] at n2; simp [cpNeedsGone, hl] at n2
                  · exact ⟨b, rfl⟩
    | cancelling a b c => rw [hcp] at n3c; simp [cpNeedsCtx, hc] at n3c
    | done => rw [hcp] at n2; simp [cpNeedsGone, hl] at n2
  · cases hce : s.ce with
    | none => exact absurd hce n1.2
    | run b io => cases io
                  · rw [hce] at n2e; simp [ceNeedsGone, hl] at n2e
                  · exact ⟨b, rfl⟩
    | sendCC a b => rw [hce] at n3; simp [ceNeedsCtx, hc] at n3
    | done => have := n3d hce; simp [hl, hc] at this
  · cases hn : s.newSent
    · have := (f1 hn).2; rw [hl] at this; cases this
    · rfl

/-- **(2a)** from an env action: in any reachable quiescent state reported Queued, with the caller context
    not yet cancelled and env budget left, the caller cancelling its context (`envCtxCancel`), the
    progress collector noticing it (`cpSeeCtx`), sending `cancelRequestAndClose` (`cpSendCancel`) and the
    manager handling it (`mgr`) are all enabled and reach a stale state. -/
theorem ctx_cancel_while_queued_stale {s : GS.ReqLife.State} (h : GS.ReqLife.Reachable s) (hq : Quiescent s)
    (hr : reportedState s = some .queued) (hc : s.callerCtx = false) (hf : 1 ≤ s.efuel) :
    ∃ s', run s [.envCtxCancel, .cpSeeCtx, .cpSendCancel, .mgr] = some s' ∧ staleTask s' := by
  have hl : s.reg = .live := by
    simp only [reportedState] at hr; split at hr
    · assumption
    · cases hr
  have hrs : s.rstate = .queued := by
    simp only [reportedState, hl, if_true, Option.some.injEq] at hr; exact hr
  obtain ⟨⟨b, hcp⟩, ⟨l, hce⟩, hns⟩ := live_collectors h hl hc
  have ht := queued_no_termErr h hl (by simp [hrs]) hq.2.1
  obtain ⟨_, _, _, hstale, hp⟩ := cancel_while_queued_stale' h hq hr
  obtain ⟨hmb, hm, _⟩ := hq
  have hpos : 0 < s.tqPending := by
    have := hstale.2; omega
  simp [run, step, env, hns, hf, hcp, hce, pushMsg, hmb, hm, handle, hl, cancelLive, cancelOnError, hrs, terminate,
    ht, finishTerminate, staleTask, hpos]

/-- **(2b)** the API form: `CancelRequest` (`envCancelApi`), the manager's `cancelRequest` (`mgr`: records
    ClientCancelled, enters `terminateRequest`, blocked on the error hand-over) and the error collector
    taking the error (`ceRecv`, enabled) reach a stale state. -/
theorem api_cancel_while_queued_stale {s : GS.ReqLife.State} (h : GS.ReqLife.Reachable s) (hq : Quiescent s)
    (hr : reportedState s = some .queued) (hc : s.callerCtx = false) (hf : 1 ≤ s.efuel) :
    ∃ s', run s [.envCancelApi, .mgr, .ceRecv] = some s' ∧ staleTask s' := by
  have hl : s.reg = .live := by
    simp only [reportedState] at hr; split at hr
    · assumption
    · cases hr
  have hrs : s.rstate = .queued := by
    simp only [reportedState, hl, if_true, Option.some.injEq] at hr; exact hr
  obtain ⟨⟨b, hcp⟩, ⟨l, hce⟩, hns⟩ := live_collectors h hl hc
  have ht := queued_no_termErr h hl (by simp [hrs]) hq.2.1
  obtain ⟨_, _, _, hstale, hp⟩ := cancel_while_queued_stale' h hq hr
  obtain ⟨hmb, hm, _⟩ := hq
  have hpos : 0 < s.tqPending := by
    have := hstale.2; omega
  simp [run, step, env, hns, hf, hcp, hce, pushMsg, hmb, hm, handle, hl, cancelLive, cancelOnError, hrs, terminate,
    ht, errSender, finishTerminate, staleTask, hpos]

/-- non-vacuity: the hypotheses of (2a)/(2b) hold after `[envNew, mgr]` -/
example : ((run (init 0 10 10) [.envNew, .mgr]).map fun s =>
    (decide (Quiescent s), reportedState s, s.callerCtx, decide (1 ≤ s.efuel))) =
    some (true, some .queued, false, true) := by decide

end GS.C23
