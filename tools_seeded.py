#!/usr/bin/env python3
"""Run the registered checks against the seeded breaking changes in seeded/<id>/ (patch.diff + meta.json).

  ./tools_seeded.py [id ...]        # default: all; uses a scratch worktree + VERIF_REPO (never touches /repo)

For each seeded change: create a worktree of /repo HEAD under /tmp, apply patch.diff, run
`VERIF_REPO=<wt> ./check <property>` (and any extra properties listed in meta.json "also"),
record exit code + VIOLATION line, remove the worktree.  Results -> seeded/RESULTS.json + a table.
"""
import json, os, subprocess, sys, time
ROOT = os.path.dirname(os.path.abspath(__file__))
SD = os.path.join(ROOT, "seeded")
ids = sys.argv[1:] or sorted(d for d in os.listdir(SD) if os.path.isdir(os.path.join(SD, d)))
# one result file per seeded change (seeded/<id>/result.json): concurrent runs cannot clobber each other;
# seeded/RESULTS.json is only an aggregate, rebuilt at the end of every run from those files
results = {}
rp = os.path.join(SD, "RESULTS.json")
def save_one(sid, res):
    json.dump(res, open(os.path.join(SD, sid, "result.json"), "w"), indent=1, sort_keys=True)
def aggregate():
    agg = {}
    for d in sorted(os.listdir(SD)):
        f = os.path.join(SD, d, "result.json")
        if os.path.exists(f): agg[d] = json.load(open(f))
    json.dump(agg, open(rp, "w"), indent=1, sort_keys=True)
    return agg
for sid in ids:
    d = os.path.join(SD, sid)
    meta = json.load(open(os.path.join(d, "meta.json")))
    wt = f"/tmp/seedrun-{sid}"
    subprocess.run(["git", "-C", "/repo", "worktree", "remove", "--force", wt], capture_output=True)
    subprocess.run(["git", "-C", "/repo", "worktree", "add", "-q", wt, "HEAD"], check=True)
    try:
        # patch.diff as written by the seeding agent; if /repo has moved under it, a hand-rebased copy
        # patch.rebased-<commit>.diff (same change, re-made against the newer tree) is tried next
        cands = [os.path.join(d, "patch.diff")] + sorted(os.path.join(d, f) for f in os.listdir(d) if f.startswith("patch.rebased-"))
        for cand in cands:
            ap = subprocess.run(["git", "-C", wt, "apply", "--3way", cand], capture_output=True, text=True)
            if ap.returncode != 0:
                subprocess.run(["git", "-C", wt, "reset", "--hard", "-q"], capture_output=True)
                ap = subprocess.run(["git", "-C", wt, "apply", cand], capture_output=True, text=True)
            if ap.returncode == 0: break
            subprocess.run(["git", "-C", wt, "reset", "--hard", "-q"], capture_output=True)
        if ap.returncode != 0:
            results[sid] = {"property": meta["property"], "applied": False, "detail": ap.stderr[-300:]}
            save_one(sid, results[sid])
            print(f"{sid}: patch does not apply: {ap.stderr[-200:]}"); continue
        res = {"property": meta["property"], "applied": True, "checks": {}}
        for pid in [meta["property"]] + meta.get("also", []):
            t0 = time.time()
            env = dict(os.environ, VERIF_REPO=wt)
            p = subprocess.run([os.path.join(ROOT, "check"), pid], cwd=ROOT, env=env, capture_output=True, text=True)
            vio = [l for l in p.stdout.split("\n") if l.startswith("VIOLATION")]
            if p.returncode != 0 and not vio: print("  check crashed? stderr tail:", p.stderr[-400:], p.stdout[-400:])
            res["checks"][pid] = {"exit": p.returncode, "violation": vio[0] if vio else None, "wall_s": round(time.time() - t0, 1)}
            print(f"{sid} [{pid}]: exit={p.returncode} {vio[0] if vio else 'no violation reported'}", flush=True)
        results[sid] = res
        save_one(sid, res)
    finally:
        subprocess.run(["git", "-C", "/repo", "worktree", "remove", "--force", wt], capture_output=True)
        subprocess.run(["rm", "-rf", os.path.join(ROOT, "work", "alt", "tmp_seedrun_" + sid.replace("-", "_"))])
results = aggregate()
caught = sum(1 for r in results.values() if r.get("applied") and any(c["exit"] == 1 and c["violation"] for c in r["checks"].values()))
print(f"caught {caught}/{len(results)}")
