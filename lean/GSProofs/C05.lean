import GS.Model.RespLifecycle
/-! C05 property theorems (being filled in). -/
namespace GS.C05
open GS.RespLife

/-- placeholder while the invariants are being proved: the initial state has an empty table -/
theorem init_table (limit : Nat) : (init limit).table = [] := rfl

end GS.C05
