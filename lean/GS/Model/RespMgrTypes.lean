/-
Vocabulary shared by the hand-written response-manager model (GS/Model/RespMgr.lean) and the file
GS/Generated/RespDispatch.lean that translate/respdispatch regenerates from responsemanager/*.go.
Core Lean only.
-/
namespace GS.RespMgr

/-- how the response table is keyed -/
inductive KeyKind where
  | requestId | peerAndId
deriving DecidableEq, Repr

/-- type of an incoming request -/
inductive ReqType where
  | new | cancel | update
deriving DecidableEq, Repr

/-- the three handlers `processRequests` dispatches to (recognised by what they do, not by name):
    `new` creates a response and stores it in the table, `abort` cancels one, `update` runs the
    update hooks / queues the update for the executor -/
inductive Handler where
  | new | abort | update
deriving DecidableEq, Repr

structure DispatchCase where
  typ : ReqType
  handler : Handler
  /-- a request whose ID is in the table for *another* peer is skipped before this handler runs -/
  peerGuard : Bool
deriving Repr

end GS.RespMgr
