import GSProofs.Lemmas.RespLifeOutcomeRMgr
/-!
Outcome accounting, part 3: `Inv3` holds in every state reachable with drained ids in which `r` was registered
at most once; hence such an `r` is never reported both completed and failed on the network.
-/
namespace GS.RespLife

theorem reach_of_drained {c : Cfg} {s : State} (h : ReachableDrained c s) : Reachable c s := by
  induction h with
  | init => exact Reachable.init
  | step _ _ hs ih => exact Reachable.step ih hs

theorem noRunStart_of_linv' {s : State} (hi : LInv (acc s)) : NoRunStart s := by
  intro w wk x hw hk hl hrun
  have hwk : (acc s).wk[w]? = some (wk.peer, wk.id, wkind wk.phase) := by
    unfold workerOf at hw
    simp [acc, wcore, List.getElem?_map, hw]
  have hkind : wkind wk.phase = .waitStart := by
    simpa [Acc.kindAt, hwk] using hk
  have hlive : (acc s).liveW w wk.peer wk.id := ⟨_, hwk, by rw [hkind]; simp⟩
  have hent := entOf_lookup hl
  have hpeer : x.peer = wk.peer := hi.own w wk.peer wk.id hlive _ hent
  rw [hrun, hpeer] at hent
  obtain ⟨_, i, hli, _, hki⟩ := hi.entry wk.id wk.peer .running x.aux.task hent
  have := hi.liveUniq i w wk.peer wk.id hli hlive
  subst this
  exact hki hk

theorem pot_reachable {c : Cfg} {s : State} (h : ReachableDrained c s) : MQN s ∧ ∀ r, Pot r s ≤ regs r s := by
  induction h with
  | init => exact ⟨⟨List.nodup_nil, fun _ h => by cases h⟩, fun r => Nat.zero_le _⟩
  | step hr _ hs ih =>
    have hi := (linv_reachable hr).1
    have hall := fun r => chgR_step r (noRunStart_of_linv' hi) hi.startsIff hs ih.1
    refine ⟨(hall 0).2, fun r => ?_⟩
    have := (hall r).1
    have := ih.2 r
    omega

theorem regs_newRequest (r : Id) (s : State) (p : Peer) (id : Id) (cfg : ReqCfg) :
    regs r (newRequest s p id cfg) = regs r s + (if id == r then 1 else 0) := by
  rw [regs_pi, regs_pi]
  rcases pi_newRequest s p id cfg with h | ⟨c, h⟩
  · rw [h]; simp [Pi.insert, Pi.protect, List.countP_append, regEv]
  · rw [h]; simp [Pi.protect, List.countP_append, regEv]

theorem pend_true_mem {r : Id} {p : Peer} {mb : List Msg} (h : pend r p mb = true) :
    ∃ i, Msg.closeNetErr r i p ∈ mb := by
  unfold pend at h
  rw [List.any_eq_true] at h
  obtain ⟨m, hm, hc⟩ := h
  cases m with
  | closeNetErr id inc pub =>
    simp only [closeFrom, Bool.and_eq_true, beq_iff_eq] at hc
    obtain ⟨rfl, rfl⟩ := hc
    exact ⟨inc, hm⟩
  | _ => simp [closeFrom] at hc

theorem hasClose_true_mem {r : Id} {q : List PStep} (h : hasClose r q = true) : ∃ st ∈ q, stepId st = r := by
  unfold hasClose at h
  rw [List.any_eq_true] at h
  obtain ⟨st, hst, hc⟩ := h
  exact ⟨st, hst, stepId_of_isClose hc⟩

/-- the registration of `r` (the manager handles its `new` request) -/
theorem inv3_register {r : Id} {s : State} {p : Peer} {cfg : ReqCfg} {rest : List Msg} (hi : Inv3 r s) (h2 : Inv2 r s)
    (hp : s.park = none) (hm : s.mailbox = .processRequests p (.new r cfg) :: rest) (hregs : regs r s = 0)
    (hdone : doneC r s = 0) :
    Inv3 r (newRequest { s with mailbox := rest, handled := s.handled + 1 } p r cfg) := by
  have hu := hi.u hregs
  generalize hs0 : ({ s with mailbox := rest, handled := s.handled + 1 } : State) = s0
  have hp0 : s0.park = none := by rw [← hs0]; exact hp
  have hu0 : Places r (fun _ => False) (fun _ => False) s0 := by rw [← hs0]; exact hu.popMsg _ rest hm _
  have hl0 : lookup s0 r = none := by
    cases hl : lookup s0 r with
    | none => rfl
    | some x => exact (hu0.tbl x hl).1.elim
  have hpop : MStep r s s0 := by rw [← hs0]; exact mstep_pop r s _ rest hm rfl
  have hms : MStep r s (newRequest s0 p r cfg) := hpop.trans (mstep_newRequest r s0 p r cfg hp0)
  have hnoStep : ∀ q st, st ∈ (getMQ s q).pubQ → stepId st ≠ r := fun q st hst hid => (hu.pub q st hst hid).1
  have hregs' : regs r (newRequest s0 p r cfg) = 1 := by
    rw [regs_newRequest]
    have : regs r s0 = regs r s := by rw [← hs0]; rfl
    rw [this, hregs]; simp
  have hmail' : (newRequest s0 p r cfg).mailbox = rest := by
    have := congrArg Prod.fst (mbk_newRequest s0 p r cfg)
    rw [← hs0] at this ⊢
    exact this
  refine ⟨?_, ?_, ?_⟩
  · intro h0
    rw [hregs'] at h0
    cases h0
  · refine ⟨p, s0.nextInc, ?_⟩
    apply pl_newRequest (hu0.mono (fun _ h => h.elim) (fun _ h => h.elim)) p r cfg hp0
    intro _
    exact ⟨rfl, rfl, hl0⟩
  · have hpubq : ∀ q, (getMQ (newRequest s0 p r cfg) q).pubQ = (getMQ s q).pubQ := fun q => (hms.pub q).1
    have hpend : ∀ q, pend r q (newRequest s0 p r cfg).mailbox = pend r q s.mailbox := fun q => (hms.mail q).1
    have hclosed : isClosed (newRequest s0 p r cfg) r = false := by
      rw [(qs0_newRequest_rest r s0 p r cfg).cls]
      simp [isClosed, openStream, protect, emit]
    refine ⟨?_, ?_, ?_, ?_, ?_, ?_⟩
    · intro q hq
      rw [hpend, hpubq] at hq
      rcases hq with hq | hq
      · obtain ⟨i, hmem⟩ := pend_true_mem hq
        exact ((hu.mail _ hmem).1 i q rfl).1.elim
      · obtain ⟨st, hst, hid⟩ := hasClose_true_mem hq
        exact absurd hid (hnoStep q st hst)
    · intro hc; rw [hclosed] at hc; cases hc
    · intro q; rw [hpend, hpubq]; exact hi.core.j3 q
    · intro q
      rw [hpubq]
      apply kOK_noDone
      intro st hst
      cases hd : isDone r st with
      | false => rfl
      | true => exact absurd (stepId_of_isDone hd) (hnoStep q st hst)
    · intro hd
      have e1 : doneC r (newRequest s0 p r cfg) = doneC r s := by
        rw [(qs0_newRequest_rest r s0 p r cfg).done, doneC_protect, ← hs0]; rfl
      rw [e1, hdone] at hd
      omega
    · intro hn
      have hn' := (NF_of_mstep hms).1 hn
      have := h2.potF hn'
      omega

-- ------------------------------------------------------------------ every step
theorem mailbox_handle (s : State) (m : Msg) : (handle s m).mailbox = s.mailbox := congrArg Prod.fst (mbk_handle s m)

theorem pendT_of_mbg {r : Id} {s s' : State} (hg : MbGrow s s') (hm : MStep r s s') (p : Peer) :
    pendT r p s'.mailbox = pendT r p s.mailbox := by
  obtain ⟨_, ex, he, _⟩ := hg
  exact pendT_of_grow he (fun q => (hm.mail q).2) p

theorem inv3_mgrStep {r : Id} {s s' : State} (hi : Inv3 r s) (h2 : Inv2 r s) (hpot : Pot r s ≤ regs r s)
    (hmono : regs r s ≤ regs r s') (hg : regs r s' ≤ 1) (h : mgrStep s = some s') : Inv3 r s' := by
  unfold mgrStep at h
  split at h
  · rename_i pk hpk
    split at h
    · cases h
      exact hi.quiet (mstep_resumeMgr r s pk hpk) (qs0_resumeMgr r s pk) (fun _ _ hpl => pl_resumeMgr hpl pk hpk)
        hmono (fun p => by rw [mailbox_resumeMgr]) (live_resumeMgr s pk hpk)
    · cases h
  · rename_i hpk
    split at h
    · cases h
    · rename_i m rest hm
      cases h
      obtain ⟨p0, i0, hpi⟩ := hi.pi
      cases m with
      | closeNetErr id inc pub =>
        refine ⟨?_, ?_, core3_handle_closeNetErr hi.core h2 hpi hpk hm⟩
        · intro h0
          exact pl_handle ((hi.u (by omega)).popMsg _ rest hm _) _ hpk (fun _ _ _ e => by cases e)
        · exact ⟨p0, i0, pl_handle (hpi.popMsg _ rest hm _) _ hpk (fun _ _ _ e => by cases e)⟩
      | terminate id inc pub =>
        refine ⟨?_, ?_, core3_handle_terminate hi.core h2 hpi hpk hm⟩
        · intro h0
          exact pl_handle ((hi.u (by omega)).popMsg _ rest hm _) _ hpk (fun _ _ _ e => by cases e)
        · exact ⟨p0, i0, pl_handle (hpi.popMsg _ rest hm _) _ hpk (fun _ _ _ e => by cases e)⟩
      | processRequests p q =>
        by_cases hreg : ∃ cfg, q = .new r cfg ∧
            foreign ({ s with mailbox := rest, handled := s.handled + 1 } : State) p r = false
        · -- the registration of `r`
          obtain ⟨cfg, hq, hfor⟩ := hreg
          subst hq
          have hs' : handle { s with mailbox := rest, handled := s.handled + 1 } (.processRequests p (.new r cfg)) =
              newRequest { s with mailbox := rest, handled := s.handled + 1 } p r cfg := by
            show (if foreign _ p r = true then _ else _) = _
            rw [hfor]; rfl
          rw [hs'] at hg hmono ⊢
          have hr0 : regs r s = 0 := by
            rw [regs_newRequest] at hg
            have : regs r ({ s with mailbox := rest, handled := s.handled + 1 } : State) = regs r s := rfl
            rw [this] at hg
            simp at hg
            omega
          have hd0 : doneC r s = 0 := by
            have := doneC_le_evW r s
            unfold Pot at hpot
            omega
          exact inv3_register hi h2 hpk hm hr0 hd0
        · have hnew : ∀ p' cfg, Msg.processRequests p q = .processRequests p' (.new r cfg) →
              foreign ({ s with mailbox := rest, handled := s.handled + 1 } : State) p' r = true := by
            intro p' cfg e
            simp only [Msg.processRequests.injEq] at e
            obtain ⟨rfl, rfl⟩ := e
            cases hf : foreign ({ s with mailbox := rest, handled := s.handled + 1 } : State) p r with
            | true => rfl
            | false => exact absurd ⟨cfg, rfl, hf⟩ hreg
          have hpop : Inv3 r { s with mailbox := rest, handled := s.handled + 1 } :=
            hi.quiet (mstep_pop r s _ rest hm rfl) (qs0_field rfl rfl rfl) (fun _ _ hpl => hpl.popMsg _ rest hm _)
              (Nat.le_refl _) (fun p' => by rw [hm, pendT_cons]; rfl) (fun hl => hl)
          refine hpop.quiet (mstep_handle r _ _ hpk rfl) (qs0_handle r _ _ hnew) ?_ hmono ?_ (live_handle _ _ hpk hnew)
          · intro okP okI hpl
            apply pl_handle hpl _ hpk
            intro p' id cfg e hf hid
            subst hid
            rw [hnew p' cfg e] at hf
            cases hf
          · intro p'
            rw [mailbox_handle]
      | api c =>
        have hpop : Inv3 r { s with mailbox := rest, handled := s.handled + 1 } :=
          hi.quiet (mstep_pop r s _ rest hm rfl) (qs0_field rfl rfl rfl) (fun _ _ hpl => hpl.popMsg _ rest hm _)
            (Nat.le_refl _) (fun p' => by rw [hm, pendT_cons]; rfl) (fun hl => hl)
        refine hpop.quiet (mstep_handle r _ _ hpk rfl) (qs0_handle r _ _ (fun _ _ e => by cases e)) ?_ hmono ?_
          (live_handle _ _ hpk (fun _ _ e => by cases e))
        · intro okP okI hpl
          exact pl_handle hpl _ hpk (fun _ _ _ e => by cases e)
        · intro p'
          rw [mailbox_handle]
      | startTask w =>
        have hpop : Inv3 r { s with mailbox := rest, handled := s.handled + 1 } :=
          hi.quiet (mstep_pop r s _ rest hm rfl) (qs0_field rfl rfl rfl) (fun _ _ hpl => hpl.popMsg _ rest hm _)
            (Nat.le_refl _) (fun p' => by rw [hm, pendT_cons]; rfl) (fun hl => hl)
        refine hpop.quiet (mstep_handle r _ _ hpk rfl) (qs0_handle r _ _ (fun _ _ e => by cases e)) ?_ hmono ?_
          (live_handle _ _ hpk (fun _ _ e => by cases e))
        · intro okP okI hpl
          exact pl_handle hpl _ hpk (fun _ _ _ e => by cases e)
        · intro p'
          rw [mailbox_handle]
      | getUpdates w =>
        have hpop : Inv3 r { s with mailbox := rest, handled := s.handled + 1 } :=
          hi.quiet (mstep_pop r s _ rest hm rfl) (qs0_field rfl rfl rfl) (fun _ _ hpl => hpl.popMsg _ rest hm _)
            (Nat.le_refl _) (fun p' => by rw [hm, pendT_cons]; rfl) (fun hl => hl)
        refine hpop.quiet (mstep_handle r _ _ hpk rfl) (qs0_handle r _ _ (fun _ _ e => by cases e)) ?_ hmono ?_
          (live_handle _ _ hpk (fun _ _ e => by cases e))
        · intro okP okI hpl
          exact pl_handle hpl _ hpk (fun _ _ _ e => by cases e)
        · intro p'
          rw [mailbox_handle]
      | finishTask w err =>
        have hpop : Inv3 r { s with mailbox := rest, handled := s.handled + 1 } :=
          hi.quiet (mstep_pop r s _ rest hm rfl) (qs0_field rfl rfl rfl) (fun _ _ hpl => hpl.popMsg _ rest hm _)
            (Nat.le_refl _) (fun p' => by rw [hm, pendT_cons]; rfl) (fun hl => hl)
        refine hpop.quiet (mstep_handle r _ _ hpk rfl) (qs0_handle r _ _ (fun _ _ e => by cases e)) ?_ hmono ?_
          (live_handle _ _ hpk (fun _ _ e => by cases e))
        · intro okP okI hpl
          exact pl_handle hpl _ hpk (fun _ _ _ e => by cases e)
        · intro p'
          rw [mailbox_handle]

theorem inv3_step {r : Id} {c : Cfg} {s s' : State} {a : Action} (hr : ReachableDrained c s) (hd : DrainStep s a)
    (hs : step s a = some s') (hg : regs r s' ≤ 1) (hi : Inv3 r s) : Inv3 r s' := by
  have h2 := inv2_reachable (reach_of_drained hr) r
  have hmono : regs r s ≤ regs r s' := regs_mono_step (fresh_of_drained hd) hs
  have hpot := (pot_reachable hr).2 r
  cases a with
  | recv p q =>
    simp only [step, Option.some.injEq] at hs
    subst hs
    exact hi.quiet (mstep_recv r s p q _) (qs0_recv r s p q _)
      (fun okP okI hpl => by
        refine Places.onSendMsg ?_ (.processRequests p q) (msgPlace_other r okP okI (.processRequests p q) rfl)
        exact hpl.of_same rfl rfl rfl rfl rfl rfl rfl)
      hmono (fun p' => by
        show pendT r p' (s.mailbox ++ [_]) = _
        rw [pendT_append]; simp [pendT, termFrom]) (fun hl => hl)
  | api c =>
    simp only [step, Option.some.injEq] at hs
    subst hs
    exact hi.quiet (mstep_api r s c) (qs0_api r s c)
      (fun okP okI hpl => Places.onSendMsg hpl (.api c) (msgPlace_other r okP okI (.api c) rfl)) hmono
      (fun p' => by
        show pendT r p' (s.mailbox ++ [_]) = _
        rw [pendT_append]; simp [pendT, termFrom]) (fun hl => hl)
  | mgr => exact inv3_mgrStep hi h2 hpot hmono hg hs
  | pop p id =>
    exact hi.quiet (mstep_popTask r hs) (qs0_popTask r hs) (fun _ _ hpl => pl_popTask hpl hs) hmono
      (pendT_of_mbg (mbg_popTask hs) (mstep_popTask r hs)) (fun hl => by rw [live_of_pi (pi_popTask hs)] at hl; exact hl)
  | reap p =>
    exact hi.quiet (mstep_reap r hs) (qs0_reap r hs) (fun _ _ hpl => pl_reap hpl hs) hmono
      (pendT_of_mbg (mbg_reap hs) (mstep_reap r hs)) (fun hl => by rw [live_of_pi (pi_reap hs)] at hl; exact hl)
  | wstep w pick =>
    exact hi.quiet (mstep_wstep r hs) (qs0_wstep r hs) (fun _ _ hpl => pl_wstep hpl hs) hmono
      (pendT_of_mbg (mbg_wstep hs) (mstep_wstep r hs)) (fun hl => by rw [live_of_pi (pi_wstep hs)] at hl; exact hl)
  | extract p =>
    exact hi.quiet (mstep_extract r hs) (qs0_extract r hs) (fun _ _ hpl => pl_extract hpl hs) hmono
      (pendT_of_mbg (mbg_extract hs) (mstep_extract r hs))
      (fun hl => by rw [live_of_pi (pi_extract hs)] at hl; exact hl)
  | net p ok =>
    obtain ⟨p0, i0, hpi⟩ := hi.pi
    exact ⟨fun h0 => pl_netResolve (hi.u (by omega)) hs, ⟨p0, i0, pl_netResolve hpi hs⟩,
      core3_netResolve hi.core h2 hpi hs⟩
  | pub p =>
    obtain ⟨p0, i0, hpi⟩ := hi.pi
    exact ⟨fun h0 => pl_pubStep (hi.u (by omega)) hs, ⟨p0, i0, pl_pubStep hpi hs⟩, core3_pubStep hi.core h2 hs⟩
  | primer p =>
    simp only [step, Option.some.injEq] at hs
    subst hs
    exact hi.quiet (mstep_primer r s p) (qs0_primer r s p) (fun _ _ hpl => pl_primer hpl p) hmono
      (fun _ => rfl) (fun hl => by rw [live_of_pi (pi_primer s p)] at hl; exact hl)
  | thaw =>
    simp only [step, Option.some.injEq] at hs
    subst hs
    exact hi.quiet (mstep_thawAll r s) (qs0_thawAll r s) (fun _ _ hpl => pl_thawAll hpl) hmono
      (fun _ => rfl) (fun hl => hl)

theorem inv3_init (c : Cfg) (r : Id) : Inv3 r (init c) := by
  have hpl : ∀ okP okI, Places r okP okI (init c) := by
    intro okP okI
    refine ⟨?_, ?_, ?_, ?_, ?_, ?_, ?_⟩
    · intro x hx; cases hx
    · intro w x hx; simp [init] at hx
    · intro p hp
      rcases hp with hp | hp <;> simp [pendOf, actOf, getQ, init] at hp
    · intro p e he
      rcases he with he | he <;> simp [bents, getMQ, init] at he
    · intro p st hst; simp [getMQ, init] at hst
    · intro m hm; simp [init] at hm
    · intro pk hpk; simp [init] at hpk
  refine ⟨fun _ => hpl _ _, ⟨0, 0, hpl _ _⟩, ?_⟩
  refine ⟨?_, ?_, fun p => rfl, fun p => rfl, ?_, ?_⟩
  · intro p hp
    rcases hp with hp | hp <;> simp [pend, hasClose, getMQ, init] at hp
  · intro hc; simp [isClosed, init] at hc
  · intro hd
    have : doneC r (init c) = 0 := rfl
    omega
  · rintro (h | ⟨p, h⟩)
    · have : nerrC r (init c) = 0 := rfl
      omega
    · have : cnfQ r (pend r p (init c).mailbox) (getMQ (init c) p).pubQ = 0 := rfl
      omega

/-- **`Inv3` in every reachable state in which `r` was registered at most once** (drained ids) -/
theorem inv3_reachable {c : Cfg} {s : State} (h : ReachableDrained c s) (r : Id) (hg : regs r s ≤ 1) : Inv3 r s := by
  induction h with
  | init => exact inv3_init c r
  | step hr hd hs ih =>
    have hmono := regs_mono_step (r := r) (fresh_of_drained hd) hs
    exact inv3_step hr hd hs hg (ih (by omega))

/-- **completed and network error exclude each other** -/
theorem done_excludes_nerr {c : Cfg} {s : State} (h : ReachableDrained c s) (r : Id) (hg : regs r s ≤ 1) :
    ¬ (1 ≤ doneC r s ∧ 1 ≤ nerrC r s) := by
  intro ⟨h1, h2⟩
  have := ((inv3_reachable h r hg).core.d2 (Or.inl h2)).1
  omega

end GS.RespLife
