import GSProofs.Lemmas.ConcurrentSharedLoader
/-!
The requestor's executor (`GS.Requestor`) over a block store that other requests write to: the two
chains of `ConcurrentSharedLoader.lean` lifted to `handle` / `loadNode` / `drive` / `resume` / `message`.
-/
namespace GS.C20
open GS.Loader GS.Requestor

/-- the executor state over another block store -/
def rws (r : Requestor.State) (st : List (Cid × Blk)) : Requestor.State := { r with L := withStore r.L st }

/-- executor `r1` is executor `r2` over a larger store -/
def RFol (r1 r2 : Requestor.State) : Prop := r1 = rws r2 r1.L.store ∧ Sub r2.L.store r1.L.store

/-- a missing-block report for a block the responder holds -/
def DirtyE (rem : List Cid) (evs : List Ev) : Prop := ∃ c p, Ev.err (.load (.missing c p)) ∈ evs ∧ c ∈ rem

theorem DirtyE_append_left {rem : List Cid} {a : List Ev} (b : List Ev) (h : DirtyE rem a) : DirtyE rem (a ++ b) := by
  obtain ⟨c, p, hm, hc⟩ := h
  exact ⟨c, p, List.mem_append_left _ hm, hc⟩

theorem DirtyE_append_right {rem : List Cid} (a : List Ev) {b : List Ev} (h : DirtyE rem b) : DirtyE rem (a ++ b) := by
  obtain ⟨c, p, hm, hc⟩ := h
  exact ⟨c, p, List.mem_append_right _ hm, hc⟩

theorem finish_ws (s : Requestor.State) (S1 : List (Cid × Blk)) :
    finish (rws s S1) = (rws (finish s).1 S1, (finish s).2) := by
  unfold finish
  rfl

theorem failWith_ws (s : Requestor.State) (S1 : List (Cid × Blk)) (e : RErr) :
    failWith (rws s S1) e = (rws (failWith s e).1 S1, (failWith s e).2) := by
  unfold failWith
  have e1 : ({ (rws s S1) with L := Loader.setOnline (rws s S1).L false } : Requestor.State)
      = rws { s with L := Loader.setOnline s.L false } S1 := by
    show ({ (rws s S1) with L := Loader.setOnline (withStore s.L S1) false } : Requestor.State) = _
    rw [setOnline_ws]; rfl
  rw [e1]
  simp only [finish_ws]

theorem handle_ws (s : Requestor.State) (S1 : List (Cid × Blk)) (n : LNode) (rest : LT) (r1 r2 : Result) (h : REq r1 r2) :
    handle (rws s S1) n rest r1 = (rws (handle s n rest r2).1 S1, (handle s n rest r2).2) := by
  obtain ⟨h1, h2, h3⟩ := h
  have hw : writeEvs r1 = writeEvs r2 := by unfold writeEvs; rw [h3]
  unfold handle
  rw [h1, hw, h2]
  cases r2.err with
  | none => rfl
  | some e =>
    simp only
    have ec : (rws s S1).ctxCancelled = s.ctxCancelled := rfl
    rw [ec]
    split
    · simp only [finish_ws]
    · cases e with
      | missing c p =>
        simp only
        split
        · simp only [failWith_ws]
        · rfl
      | incorrect a b c => simp only [failWith_ws]
      | extraData => simp only [failWith_ws]
      | nothingLeft => simp only [failWith_ws]
      | retryNone => simp only [failWith_ws]

theorem handle_dirty (rem : List Cid) (s : Requestor.State) (n : LNode) (rest : LT) (r : Result)
    (hd : DirtyR rem r) (hc : s.ctxCancelled = false) : DirtyE rem (handle s n rest r).2.1 := by
  obtain ⟨c, p, he, hm⟩ := hd
  unfold handle
  rw [he]
  simp only [hc, Bool.false_eq_true, if_false]
  split
  · exact ⟨c, p, by simp, hm⟩
  · exact ⟨c, p, by simp, hm⟩

/-- `handle` that goes on leaves the loader, the sent flag and the cancel flag alone -/
theorem handle_true (s : Requestor.State) (n : LNode) (rest : LT) (r : Result) (h : (handle s n rest r).2.2 = true) :
    (handle s n rest r).1.L = s.L ∧ (handle s n rest r).1.requestSent = s.requestSent ∧
    (handle s n rest r).1.ctxCancelled = s.ctxCancelled ∧ (handle s n rest r).1.phase = s.phase := by
  unfold handle at h ⊢
  cases hr : r.err with
  | none => exact ⟨rfl, rfl, rfl, rfl⟩
  | some e =>
    rw [hr] at h
    simp only at h ⊢
    split at h
    · cases h
    · rename_i hcc
      simp only [hcc]
      cases e with
      | missing c p =>
        simp only at h ⊢
        split at h
        · cases h
        · rename_i hd
          simp only [hd]
          exact ⟨rfl, rfl, rfl, rfl⟩
      | incorrect a b c => cases h
      | extraData => cases h
      | nothingLeft => cases h
      | retryNone => cases h

theorem finish_store (s : Requestor.State) : (finish s).1.L.store = s.L.store := by
  unfold finish; rfl

theorem failWith_store (s : Requestor.State) (e : RErr) : (failWith s e).1.L.store = s.L.store := by
  unfold failWith
  simp only [finish_store]
  exact setOnline_store _ _

theorem handle_store (s : Requestor.State) (n : LNode) (rest : LT) (r : Result) :
    (handle s n rest r).1.L.store = s.L.store := by
  unfold handle
  cases r.err with
  | none => rfl
  | some e =>
    simp only
    split
    · simp only [finish_store]
    · cases e with
      | missing c p =>
        simp only
        split
        · simp only [failWith_store]
        · rfl
      | incorrect a b c => simp only [failWith_store]
      | extraData => simp only [failWith_store]
      | nothingLeft => simp only [failWith_store]
      | retryNone => simp only [failWith_store]

theorem loadNode_sent (s : Requestor.State) (n : LNode) (h : s.requestSent = true) :
    loadNode s n = match Loader.load s.L n.path n.cid with
      | (l1, .blocked) => ({ s with L := l1 }, [], none)
      | (l1, .done r) => ({ s with L := l1 }, [], some r) := by
  unfold loadNode
  generalize Loader.load s.L n.path n.cid = o
  obtain ⟨l1, o⟩ := o
  cases o <;> simp [h]

/-- what the simulation lemmas of the executor conclude: same reports, same state up to the store —
    or the run over the smaller store reported a block missing that the responder holds -/
def SimR (rem : List Cid) (o1 o2 : Requestor.State × List Ev) : Prop :=
  (o1.2 = o2.2 ∧ RFol o1.1 o2.1) ∨ DirtyE rem o2.2

theorem drive_sim (rem : List Cid) : ∀ (f : Nat) (s : Requestor.State) (S1 : List (Cid × Blk)),
    s.requestSent = true → s.ctxCancelled = false → Sub s.L.store S1 → LOK rem (withStore s.L S1) →
    SimR rem (drive f (rws s S1)) (drive f s)
  | 0, s, S1, _, _, hsub, _ => Or.inl ⟨rfl, rfl, hsub⟩
  | f + 1, s, S1, hsent, hctx, hsub, hok => by
    unfold drive
    have ep : (rws s S1).phase = s.phase := rfl
    have et : (rws s S1).todo = s.todo := rfl
    rw [ep, et]
    split
    · exact Or.inl ⟨rfl, rfl, hsub⟩
    · cases htodo : s.todo with
      | nil =>
        simp only [finish_ws]
        left
        refine ⟨rfl, rfl, ?_⟩
        have : (finish s).1.L.store = s.L.store := by unfold finish; rfl
        show Sub (finish s).1.L.store S1
        rw [this]; exact hsub
      | cons n rest =>
        simp only
        rw [loadNode_sent s n hsent, loadNode_sent (rws s S1) n hsent]
        have hl := load_sim rem s.L S1 n.path n.cid hsub hok.1
        have hok1 := LOK_load rem (withStore s.L S1) n.path n.cid hok
        show SimR rem (match (match Loader.load (withStore s.L S1) n.path n.cid with
              | (l1, .blocked) => ({ (rws s S1) with L := l1 }, [], none)
              | (l1, .done r) => ({ (rws s S1) with L := l1 }, [], some r)) with
            | (s1, ev1, none) => (s1, ev1)
            | (s1, ev1, some r) =>
              match handle s1 n rest r with
              | (s2, evs, true) => let (s3, evs') := drive f s2; (s3, ev1 ++ evs ++ evs')
              | (s2, evs, false) => (s2, ev1 ++ evs)) _
        generalize Loader.load (withStore s.L S1) n.path n.cid = o1 at hl hok1
        generalize Loader.load s.L n.path n.cid = o2 at hl
        obtain ⟨a1, b1⟩ := o1
        obtain ⟨a2, b2⟩ := o2
        rcases hl with ⟨ho, hf⟩ | ⟨r, hr, hd⟩
        · simp only at ho hf hok1
          obtain ⟨hfe, hfs⟩ := hf
          cases ho with
          | blocked =>
            left
            refine ⟨rfl, ?_, hfs⟩
            show ({ (rws s S1) with L := a1 } : Requestor.State) = rws { s with L := a2 } a1.store
            rw [hfe]; rfl
          | done hre =>
            rename_i r1 r2
            simp only
            have es : ({ (rws s S1) with L := a1 } : Requestor.State) = rws { s with L := a2 } a1.store := by
              rw [hfe]; rfl
            rw [es, handle_ws _ _ n rest r1 r2 hre]
            have ht := handle_true { s with L := a2 } n rest r2
            have hst := handle_store { s with L := a2 } n rest r2
            generalize handle { s with L := a2 } n rest r2 = hh at ht hst
            obtain ⟨s2, evs, go⟩ := hh
            cases go with
            | false =>
              left
              have : s2.L.store = a2.store := hst
              exact ⟨rfl, rfl, by show Sub s2.L.store a1.store; rw [this]; exact hfs⟩
            | true =>
              obtain ⟨t1, t2, t3, t4⟩ := ht rfl
              simp only at t1 t2 t3 t4
              simp only
              have ih := drive_sim rem f s2 a1.store (by rw [t2]; exact hsent) (by rw [t3]; exact hctx)
                (by rw [t1]; exact hfs) (by rw [t1, ← hfe]; exact hok1)
              generalize drive f (rws s2 a1.store) = d1 at ih
              generalize drive f s2 = d2 at ih
              obtain ⟨x1, y1⟩ := d1
              obtain ⟨x2, y2⟩ := d2
              rcases ih with ⟨ie, iff⟩ | id
              · left
                simp only at ie iff
                simp only
                exact ⟨by rw [ie], iff⟩
              · right
                simp only at id ⊢
                exact DirtyE_append_right _ id
        · simp only at hr
          subst hr
          right
          simp only
          have hd' := handle_dirty rem { s with L := a2 } n rest r hd hctx
          generalize handle { s with L := a2 } n rest r = hh at hd'
          obtain ⟨s2, evs, go⟩ := hh
          simp only at hd'
          cases go with
          | false => simp only; exact DirtyE_append_right _ hd'
          | true =>
            simp only
            generalize drive f s2 = d2
            exact DirtyE_append_left _ (DirtyE_append_right _ hd')

theorem applyStatus_ws (s : Requestor.State) (S1 : List (Cid × Blk)) (status : Nat) (h : isFailure status = false) :
    applyStatus (rws s S1) status = rws (applyStatus s status) S1 := by
  unfold applyStatus
  simp only [h, Bool.false_eq_true, if_false]
  split
  · show ({ (rws s S1) with L := Loader.setOnline (withStore s.L S1) false } : Requestor.State) = _
    rw [setOnline_ws]; rfl
  · rfl

theorem applyStatus_fields (s : Requestor.State) (status : Nat) (h : isFailure status = false) :
    (applyStatus s status).requestSent = s.requestSent ∧ (applyStatus s status).ctxCancelled = s.ctxCancelled ∧
    (applyStatus s status).L.store = s.L.store ∧ (applyStatus s status).todo = s.todo := by
  unfold applyStatus
  simp only [h, Bool.false_eq_true, if_false]
  split
  · exact ⟨rfl, rfl, setOnline_store _ _, rfl⟩
  · exact ⟨rfl, rfl, rfl, rfl⟩

theorem resume_sim (rem : List Cid) (s : Requestor.State) (S1 : List (Cid × Blk))
    (hsent : s.requestSent = true) (hctx : s.ctxCancelled = false) (hsub : Sub s.L.store S1)
    (hok : LOK rem (withStore s.L S1)) (hne : s.todo ≠ []) :
    SimR rem (resume (rws s S1)) (resume s) := by
  obtain ⟨L, todo, ph, sent, nb, us, cc, te⟩ := s
  simp only at hsent hctx hsub hok hne
  subst hsent hctx
  cases todo with
  | nil => exact absurd rfl hne
  | cons n rest =>
  unfold resume
  have hw := wake_sim rem L S1 hsub hok.1
  have hok1 := LOK_wake rem (withStore L S1) hok
  show SimR rem (match Loader.wake (withStore L S1) with
      | (l1, some r) =>
          match handle ⟨l1, n :: rest, ph, true, nb, us, false, te⟩ n rest r with
          | (s2, evs, true) => let (s3, evs') := drive (fuelFor s2) s2; (s3, evs ++ evs')
          | (s2, evs, false) => (s2, evs)
      | (l1, none) => (⟨l1, n :: rest, ph, true, nb, us, false, te⟩, []))
    (match Loader.wake L with
      | (l1, some r) =>
          match handle ⟨l1, n :: rest, ph, true, nb, us, false, te⟩ n rest r with
          | (s2, evs, true) => let (s3, evs') := drive (fuelFor s2) s2; (s3, evs ++ evs')
          | (s2, evs, false) => (s2, evs)
      | (l1, none) => (⟨l1, n :: rest, ph, true, nb, us, false, te⟩, []))
  generalize Loader.wake (withStore L S1) = o1 at hw hok1
  generalize Loader.wake L = o2 at hw
  obtain ⟨a1, b1⟩ := o1
  obtain ⟨a2, b2⟩ := o2
  rcases hw with ⟨⟨hfe, hfs⟩, hres⟩ | ⟨r, hr, hd⟩
  · simp only at hfe hfs hres hok1
    have es : (⟨a1, n :: rest, ph, true, nb, us, false, te⟩ : Requestor.State)
        = rws ⟨a2, n :: rest, ph, true, nb, us, false, te⟩ a1.store := by
      rw [hfe]; rfl
    rcases hres with ⟨rfl, rfl⟩ | ⟨r1, r2, rfl, rfl, hre⟩
    · left
      exact ⟨rfl, es, hfs⟩
    · simp only
      rw [es, handle_ws _ _ n rest r1 r2 hre]
      have ht := handle_true ⟨a2, n :: rest, ph, true, nb, us, false, te⟩ n rest r2
      have hst := handle_store ⟨a2, n :: rest, ph, true, nb, us, false, te⟩ n rest r2
      generalize handle ⟨a2, n :: rest, ph, true, nb, us, false, te⟩ n rest r2 = hh at ht hst
      obtain ⟨s2, evs, go⟩ := hh
      cases go with
      | false =>
        left
        have : s2.L.store = a2.store := hst
        exact ⟨rfl, rfl, by show Sub s2.L.store a1.store; rw [this]; exact hfs⟩
      | true =>
        obtain ⟨t1, t2, t3, t4⟩ := ht rfl
        simp only at t1 t2 t3 t4
        simp only
        have ef : fuelFor (rws s2 a1.store) = fuelFor s2 := rfl
        rw [ef]
        have ih := drive_sim rem (fuelFor s2) s2 a1.store t2 t3
          (by rw [t1]; exact hfs) (by rw [t1, ← hfe]; exact hok1)
        generalize drive (fuelFor s2) (rws s2 a1.store) = d1 at ih
        generalize drive (fuelFor s2) s2 = d2 at ih
        obtain ⟨x1, y1⟩ := d1
        obtain ⟨x2, y2⟩ := d2
        rcases ih with ⟨ie, iff⟩ | id
        · left
          simp only at ie iff
          exact ⟨by show evs ++ y1 = evs ++ y2; rw [ie], iff⟩
        · right
          simp only at id ⊢
          exact DirtyE_append_right _ id
  · simp only at hr
    subst hr
    right
    simp only
    have hd' := handle_dirty rem ⟨a2, n :: rest, ph, true, nb, us, false, te⟩ n rest r hd rfl
    generalize handle ⟨a2, n :: rest, ph, true, nb, us, false, te⟩ n rest r = hh at hd'
    obtain ⟨s2, evs, go⟩ := hh
    simp only at hd'
    cases go with
    | false => exact hd'
    | true =>
      simp only
      generalize drive (fuelFor s2) s2 = d2
      exact DirtyE_append_left _ hd'

theorem applyStatus_LOK' (rem : List Cid) (s : Requestor.State) (S1 : List (Cid × Blk)) (status : Nat)
    (h : LOK rem (withStore s.L S1)) : LOK rem (withStore (applyStatus s status).L S1) := by
  unfold applyStatus
  split
  · split
    · show LOK rem (withStore (Loader.setOnline s.L false) S1)
      rw [← setOnline_ws]; exact LOK_setOnline rem _ _ h
    · show LOK rem (withStore (Loader.setOnline s.L false) S1)
      rw [← setOnline_ws]; exact LOK_setOnline rem _ _ h
  · exact h

theorem message_sim (rem : List Cid) (s : Requestor.State) (S1 : List (Cid × Blk)) (status : Nat)
    (md : List (Cid × Action)) (bl : List (Cid × Blk))
    (hrun : s.phase = .running → s.requestSent = true ∧ s.todo ≠ []) (hctx : s.ctxCancelled = false)
    (hfail : s.phase = .running → isFailure status = false)
    (hsub : Sub s.L.store S1) (hok : LOK rem (withStore s.L S1)) (hbl : RemOK rem bl) :
    SimR rem (message (rws s S1) true true status md bl) (message s true true status md bl) := by
  unfold message
  have ep : (rws s S1).phase = s.phase := rfl
  rw [ep]
  by_cases hp : s.phase = .running
  · have hc : (s.phase != Phase.running || !true || !true) = false := by simp [hp]
    simp only [hc, Bool.false_eq_true, if_false]
    have hf := hfail hp
    have e1 : ({ (rws s S1) with L := Loader.ingest (rws s S1).L md bl } : Requestor.State)
        = rws { s with L := Loader.ingest s.L md bl } S1 := by
      show ({ (rws s S1) with L := Loader.ingest (withStore s.L S1) md bl } : Requestor.State) = _
      rw [ingest_ws]; rfl
    show SimR rem (resume (applyStatus ({ (rws s S1) with L := Loader.ingest (rws s S1).L md bl }) status)) _
    rw [e1, applyStatus_ws _ _ _ hf]
    obtain ⟨f1, f2, f3, f4⟩ := applyStatus_fields { s with L := Loader.ingest s.L md bl } status hf
    apply resume_sim
    · rw [f1]; exact (hrun hp).1
    · rw [f2]; exact hctx
    · rw [f3]; show Sub (Loader.ingest s.L md bl).store S1; rw [ingest_store]; exact hsub
    · apply applyStatus_LOK'
      show LOK rem (withStore (Loader.ingest s.L md bl) S1)
      rw [← ingest_ws]
      exact LOK_ingest rem _ md bl hok hbl
    · rw [f4]; exact (hrun hp).2
  · have hc : (s.phase != Phase.running || !true || !true) = true := by simp [hp]
    simp only [hc, if_true]
    exact Or.inl ⟨rfl, rfl, hsub⟩

/-! ## (P) for the executor -/

theorem finish_LOK (rem : List Cid) (s : Requestor.State) (h : LOK rem s.L) : LOK rem (finish s).1.L := by
  unfold finish; exact LOK_cleanup rem _ h

theorem failWith_LOK (rem : List Cid) (s : Requestor.State) (e : RErr) (h : LOK rem s.L) : LOK rem (failWith s e).1.L := by
  unfold failWith
  exact finish_LOK rem _ (LOK_setOnline rem _ _ h)

theorem handle_LOK (rem : List Cid) (s : Requestor.State) (n : LNode) (rest : LT) (r : Result) (h : LOK rem s.L) :
    LOK rem (handle s n rest r).1.L := by
  unfold handle
  cases r.err with
  | none => exact h
  | some e =>
    simp only
    split
    · exact finish_LOK rem _ h
    · cases e with
      | missing c p =>
        simp only
        split
        · exact failWith_LOK rem s .other h
        · exact h
      | incorrect a b c => exact failWith_LOK rem s (.load (.incorrect a b c)) h
      | extraData => exact failWith_LOK rem s (.load .extraData) h
      | nothingLeft => exact failWith_LOK rem s (.load .nothingLeft) h
      | retryNone => exact failWith_LOK rem s (.load .retryNone) h

theorem loadNode_LOK (rem : List Cid) (s : Requestor.State) (n : LNode) (h : LOK rem s.L) : LOK rem (loadNode s n).1.L := by
  unfold loadNode
  have h1 := LOK_load rem s.L n.path n.cid h
  generalize Loader.load s.L n.path n.cid = o at h1
  obtain ⟨l1, o⟩ := o
  cases o with
  | blocked => exact h1
  | done r =>
    simp only
    split
    · have h2 := LOK_retry rem _ (LOK_setOnline rem l1 true h1)
      generalize Loader.retry (Loader.setOnline l1 true) = o2 at h2
      obtain ⟨l3, o2⟩ := o2
      cases o2 <;> exact h2
    · exact h1

theorem drive_LOK (rem : List Cid) : ∀ (f : Nat) (s : Requestor.State), LOK rem s.L → LOK rem (drive f s).1.L
  | 0, s, h => h
  | f + 1, s, h => by
    unfold drive
    split
    · exact h
    · split
      · exact finish_LOK rem _ h
      · rename_i _ n rest _
        have h1 := loadNode_LOK rem s n h
        generalize loadNode s n = ln at h1
        obtain ⟨s1, ev1, ro⟩ := ln
        cases ro with
        | none => exact h1
        | some r =>
          simp only
          have h2 := handle_LOK rem s1 n rest r h1
          generalize handle s1 n rest r = hh at h2
          obtain ⟨s2, evs, go⟩ := hh
          cases go with
          | false => exact h2
          | true => exact drive_LOK rem f s2 h2

theorem resume_LOK (rem : List Cid) (s : Requestor.State) (h : LOK rem s.L) : LOK rem (resume s).1.L := by
  unfold resume
  have h1 := LOK_wake rem s.L h
  generalize Loader.wake s.L = o at h1
  obtain ⟨l1, ro⟩ := o
  cases ro with
  | none => exact h1
  | some r =>
    simp only
    split
    · rename_i n rest _
      have h2 := handle_LOK rem { s with L := l1 } n rest r h1
      generalize handle { s with L := l1 } n rest r = hh at h2
      obtain ⟨s2, evs, go⟩ := hh
      cases go with
      | false => exact h2
      | true => exact drive_LOK rem _ s2 h2
    · exact h1

theorem applyStatus_LOK (rem : List Cid) (s : Requestor.State) (status : Nat) (h : LOK rem s.L) :
    LOK rem (applyStatus s status).L := by
  unfold applyStatus
  split
  · split <;> exact LOK_setOnline rem _ _ h
  · exact h

theorem message_LOK (rem : List Cid) (s : Requestor.State) (status : Nat) (md : List (Cid × Action)) (bl : List (Cid × Blk))
    (h : LOK rem s.L) (hbl : RemOK rem bl) : LOK rem (message s true true status md bl).1.L := by
  unfold message
  split
  · exact h
  · exact resume_LOK rem _ (applyStatus_LOK rem _ _ (LOK_ingest rem _ md bl h hbl))

theorem request_LOK (rem : List Cid) (s : Requestor.State) (lt : LT) (u : Nat) (h : LOK rem s.L) :
    LOK rem (request s lt u).1.L := by
  unfold request
  exact drive_LOK rem _ _ h

/-! ## (M) the store only grows -/

theorem Sub.trans {a b c : List (Cid × Blk)} (h1 : Sub a b) (h2 : Sub b c) : Sub a c := fun x h => h2 x (h1 x h)

theorem Sub_of_eq {a b : List (Cid × Blk)} (h : b = a) : Sub a b := by rw [h]; exact Sub.refl a

theorem Sub_cons_self (S : List (Cid × Blk)) (c : Cid) (b : Blk) : Sub S ((c, b) :: S) := by
  intro x h; rw [Has_cons]; exact Or.inr h

theorem run_mono (s : Loader.State) (p : Path) (c : Cid) : Sub s.store (run s p c).1.store := by
  have hw := waitRemote_store (s.rq.q.length + 1) s
  unfold run
  generalize waitRemote (s.rq.q.length + 1) s = wr at hw
  obtain ⟨s1, w⟩ := wr
  simp only at hw
  cases w with
  | blocked => exact Sub_of_eq hw
  | err e => exact Sub_of_eq hw
  | offline => exact Sub_of_eq hw
  | remote =>
    simp only
    obtain ⟨e1, _⟩ := stillOnUnfollowed_fields s1 p
    generalize stillOnUnfollowed s1 p = su at e1
    obtain ⟨s2, still⟩ := su
    simp only at e1
    have h2 : s2.store = s.store := e1.trans hw
    simp only
    split
    · exact Sub_of_eq h2
    · cases hq : s2.rq.q with
      | nil => exact Sub_of_eq h2
      | cons head rest =>
        simp only
        split
        · exact Sub_of_eq h2
        · obtain ⟨f1, _⟩ := recordRemoteAttempt_fields { s2 with rq := s2.rq.consume } p head.action
          cases hb : head.block with
          | none => exact Sub_of_eq (f1.trans h2)
          | some b =>
            simp only
            have : (recordRemoteAttempt { s2 with rq := s2.rq.consume } p head.action).store = s.store := f1.trans h2
            show Sub s.store ((c, b) :: (recordRemoteAttempt { s2 with rq := s2.rq.consume } p head.action).store)
            rw [this]
            exact Sub_cons_self _ _ _

theorem load_mono (s : Loader.State) (p : Path) (c : Cid) : Sub s.store (Loader.load s p c).1.store := by
  unfold Loader.load
  cases hm : s.mra with
  | none => exact run_mono s p c
  | some a => exact run_mono { s with record := s.record.record a.path a.link a.successful, mra := none } p c

theorem retry_mono (s : Loader.State) : Sub s.store (Loader.retry s).1.store := by
  unfold Loader.retry
  cases hm : s.mra with
  | none => exact Sub.refl _
  | some a =>
    simp only
    cases a.usedRemote with
    | true => exact load_mono { s with mra := none, rq := s.rq.retryLast } a.path a.link
    | false => exact load_mono { s with mra := none } a.path a.link

theorem wake_mono (s : Loader.State) : Sub s.store (Loader.wake s).1.store := by
  unfold Loader.wake
  split
  · exact Sub.refl _
  · rename_i p c _
    have := run_mono s p c
    split <;> simp_all

theorem loadNode_mono (s : Requestor.State) (n : LNode) : Sub s.L.store (loadNode s n).1.L.store := by
  unfold loadNode
  have h1 := load_mono s.L n.path n.cid
  generalize Loader.load s.L n.path n.cid = o at h1
  obtain ⟨l1, o⟩ := o
  cases o with
  | blocked => exact h1
  | done r =>
    simp only
    split
    · have h2 := retry_mono (Loader.setOnline l1 true)
      rw [setOnline_store] at h2
      generalize Loader.retry (Loader.setOnline l1 true) = o2 at h2
      obtain ⟨l3, o2⟩ := o2
      cases o2 <;> exact Sub.trans h1 h2
    · exact h1

theorem drive_mono : ∀ (f : Nat) (s : Requestor.State), Sub s.L.store (drive f s).1.L.store
  | 0, s => Sub.refl _
  | f + 1, s => by
    unfold drive
    split
    · exact Sub.refl _
    · split
      · rw [finish_store]; exact Sub.refl _
      · rename_i _ n rest _
        have h1 := loadNode_mono s n
        generalize loadNode s n = ln at h1
        obtain ⟨s1, ev1, ro⟩ := ln
        cases ro with
        | none => exact h1
        | some r =>
          simp only
          have h2 := handle_store s1 n rest r
          generalize handle s1 n rest r = hh at h2
          obtain ⟨s2, evs, go⟩ := hh
          simp only at h2
          cases go with
          | false => simp only; rw [h2]; exact h1
          | true =>
            have h3 := drive_mono f s2
            rw [h2] at h3
            exact Sub.trans h1 h3

theorem resume_mono (s : Requestor.State) : Sub s.L.store (resume s).1.L.store := by
  unfold resume
  have h1 := wake_mono s.L
  generalize Loader.wake s.L = o at h1
  obtain ⟨l1, ro⟩ := o
  cases ro with
  | none => exact h1
  | some r =>
    simp only
    split
    · rename_i n rest _
      have h2 := handle_store { s with L := l1 } n rest r
      generalize handle { s with L := l1 } n rest r = hh at h2
      obtain ⟨s2, evs, go⟩ := hh
      simp only at h2
      cases go with
      | false => simp only; rw [h2]; exact h1
      | true =>
        have h3 := drive_mono (fuelFor s2) s2
        rw [h2] at h3
        exact Sub.trans h1 h3
    · exact h1

theorem applyStatus_store (s : Requestor.State) (status : Nat) : (applyStatus s status).L.store = s.L.store := by
  unfold applyStatus
  split
  · split <;> exact setOnline_store _ _
  · rfl

theorem message_mono (s : Requestor.State) (status : Nat) (md : List (Cid × Action)) (bl : List (Cid × Blk)) :
    Sub s.L.store (message s true true status md bl).1.L.store := by
  unfold message
  split
  · exact Sub.refl _
  · have := resume_mono (applyStatus { s with L := Loader.ingest s.L md bl } status)
    rw [applyStatus_store] at this
    have e : ({ s with L := Loader.ingest s.L md bl } : Requestor.State).L.store = s.L.store := ingest_store _ _ _
    rw [e] at this
    exact this

theorem request_mono (s : Requestor.State) (lt : LT) (u : Nat) : Sub s.L.store (request s lt u).1.L.store := by
  unfold request
  exact drive_mono _ { s with todo := lt, phase := .running, userSkip := u }
end GS.C20
