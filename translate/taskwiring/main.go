// Command taskwiring regenerates lean/GS/Generated/TaskWiring.lean (property C21) from
//
//	impl/graphsync.go New            which task queue is created with which peertaskqueue options,
//	                                 the guard and argument of MaxOutstandingWorkPerPeer, which
//	                                 config field is the worker count of which queue (Startup)
//	impl/graphsync.go options        which exported option sets which config field, the defaults
//	taskqueue/taskqueue.go           thawSpeed, the PopTasks target of the worker, the capacity of
//	                                 the wake-up channel, the loop bound of Startup
//	requestmanager/server.go,        every peertask.Task literal pushed onto a queue: its Work value
//	responsemanager/server.go
//
// usage: go run ./taskwiring <repo>   (prints the Lean file; exits non-zero on syntax it does not know)
package main

import (
	"fmt"
	"go/ast"
	"go/parser"
	"go/token"
	"os"
	"path/filepath"
	"sort"
	"strconv"
	"strings"
)

var fset = token.NewFileSet()

func die(pos token.Pos, format string, a ...interface{}) {
	where := ""
	if pos.IsValid() {
		where = fset.Position(pos).String() + ": "
	}
	fmt.Fprintf(os.Stderr, "taskwiring: %s%s\n", where, fmt.Sprintf(format, a...))
	os.Exit(1)
}

func parseFile(path string) *ast.File {
	f, err := parser.ParseFile(fset, path, nil, parser.SkipObjectResolution)
	if err != nil {
		die(token.NoPos, "parse %s: %v", path, err)
	}
	return f
}

func src(n ast.Node) string {
	b, _ := os.ReadFile(fset.Position(n.Pos()).Filename)
	return string(b[fset.Position(n.Pos()).Offset:fset.Position(n.End()).Offset])
}

func findFunc(f *ast.File, name string) *ast.FuncDecl {
	for _, d := range f.Decls {
		if fd, ok := d.(*ast.FuncDecl); ok && fd.Name.Name == name && fd.Body != nil {
			return fd
		}
	}
	die(f.Pos(), "function %s not found", name)
	return nil
}

// sel returns "x.y" for a selector expression x.y with identifier x, else ""
func sel(e ast.Expr) string {
	if s, ok := e.(*ast.SelectorExpr); ok {
		if x, ok := s.X.(*ast.Ident); ok {
			return x.Name + "." + s.Sel.Name
		}
	}
	return ""
}

// cfgField: gsConfig.f (possibly wrapped in a conversion int(...)) -> f
func cfgField(e ast.Expr, cfg string) string {
	if c, ok := e.(*ast.CallExpr); ok && len(c.Args) == 1 {
		if id, ok := c.Fun.(*ast.Ident); ok && (id.Name == "int" || id.Name == "uint64" || id.Name == "int64") {
			e = c.Args[0]
		}
	}
	s := sel(e)
	if strings.HasPrefix(s, cfg+".") {
		return strings.TrimPrefix(s, cfg+".")
	}
	return ""
}

func q(s string) string { return strconv.Quote(s) }

func main() {
	if len(os.Args) != 2 {
		fmt.Fprintln(os.Stderr, "usage: taskwiring <repo>")
		os.Exit(2)
	}
	repo := os.Args[1]

	// ---------------------------------------------------------------- impl/graphsync.go
	gf := parseFile(filepath.Join(repo, "impl", "graphsync.go"))
	newFn := findFunc(gf, "New")
	type queue struct{ name, opts string }
	var queues []queue
	type startup struct{ queue, field, executor string }
	var startups []startup
	capGuard, capArg, capVar := "", "", ""
	ast.Inspect(newFn.Body, func(n ast.Node) bool {
		switch x := n.(type) {
		case *ast.AssignStmt:
			// q := taskqueue.NewTaskQueue(ctx, <opts>...)
			if len(x.Lhs) == 1 && len(x.Rhs) == 1 {
				if c, ok := x.Rhs[0].(*ast.CallExpr); ok && sel(c.Fun) == "taskqueue.NewTaskQueue" {
					name := x.Lhs[0].(*ast.Ident).Name
					switch {
					case len(c.Args) == 1:
						queues = append(queues, queue{name, ""})
					case len(c.Args) == 2 && c.Ellipsis.IsValid():
						id, ok := c.Args[1].(*ast.Ident)
						if !ok {
							die(c.Pos(), "NewTaskQueue options are not a variable: %s", src(c))
						}
						queues = append(queues, queue{name, id.Name})
					default:
						die(c.Pos(), "unknown shape of NewTaskQueue call: %s", src(c))
					}
				}
			}
		case *ast.IfStmt:
			// if gsConfig.f > 0 { v = append(v, peertaskqueue.MaxOutstandingWorkPerPeer(int(gsConfig.g))) }
			if !strings.Contains(src(x), "MaxOutstandingWorkPerPeer") {
				return true
			}
			be, ok := x.Cond.(*ast.BinaryExpr)
			if !ok || be.Op != token.GTR || src(be.Y) != "0" || cfgField(be.X, "gsConfig") == "" || x.Else != nil || x.Init != nil || len(x.Body.List) != 1 {
				die(x.Pos(), "unknown guard around MaxOutstandingWorkPerPeer: %s", src(x))
			}
			as, ok := x.Body.List[0].(*ast.AssignStmt)
			if !ok || len(as.Lhs) != 1 || len(as.Rhs) != 1 {
				die(x.Pos(), "unknown body around MaxOutstandingWorkPerPeer: %s", src(x))
			}
			ap, ok := as.Rhs[0].(*ast.CallExpr)
			if !ok || src(ap.Fun) != "append" || len(ap.Args) != 2 || src(ap.Args[0]) != src(as.Lhs[0]) {
				die(x.Pos(), "unknown body around MaxOutstandingWorkPerPeer: %s", src(x))
			}
			mc, ok := ap.Args[1].(*ast.CallExpr)
			if !ok || sel(mc.Fun) != "peertaskqueue.MaxOutstandingWorkPerPeer" || len(mc.Args) != 1 || cfgField(mc.Args[0], "gsConfig") == "" {
				die(x.Pos(), "unknown argument of MaxOutstandingWorkPerPeer: %s", src(x))
			}
			if capGuard != "" {
				die(x.Pos(), "second MaxOutstandingWorkPerPeer")
			}
			capGuard, capArg, capVar = cfgField(be.X, "gsConfig"), cfgField(mc.Args[0], "gsConfig"), src(as.Lhs[0])
			return false
		case *ast.CallExpr:
			// q.Startup(gsConfig.f, executor)
			if s, ok := x.Fun.(*ast.SelectorExpr); ok && s.Sel.Name == "Startup" && len(x.Args) == 2 {
				qn, ok := s.X.(*ast.Ident)
				f := cfgField(x.Args[0], "gsConfig")
				ex, ok2 := x.Args[1].(*ast.Ident)
				if !ok || !ok2 || f == "" || sel(x.Args[0]) == "" {
					die(x.Pos(), "unknown shape of Startup call: %s", src(x))
				}
				startups = append(startups, startup{qn.Name, f, ex.Name})
			}
		}
		return true
	})
	// the constructor each executor variable was built with
	ctor := map[string]string{}
	ast.Inspect(newFn.Body, func(n ast.Node) bool {
		if as, ok := n.(*ast.AssignStmt); ok && len(as.Lhs) == 1 && len(as.Rhs) == 1 {
			if id, ok := as.Lhs[0].(*ast.Ident); ok {
				if c, ok := as.Rhs[0].(*ast.CallExpr); ok && sel(c.Fun) != "" {
					ctor[id.Name] = sel(c.Fun)
				}
			}
		}
		return true
	})
	for i := range startups {
		c, ok := ctor[startups[i].executor]
		if !ok {
			die(newFn.Pos(), "executor %s is not built by a package-level constructor in New", startups[i].executor)
		}
		startups[i].executor = c
	}
	if strings.Count(src(newFn.Body), "MaxOutstandingWorkPerPeer") != 1 || capGuard == "" {
		die(newFn.Pos(), "expected exactly one guarded use of MaxOutstandingWorkPerPeer in New")
	}
	if strings.Count(src(newFn.Body), "NewTaskQueue(") != len(queues) || len(queues) == 0 {
		die(newFn.Pos(), "a NewTaskQueue call in New was not understood")
	}
	// options: func X(v T) Option { return func(gs *graphsyncConfigOptions) { gs.f = v } }
	type option struct{ name, field string }
	var options []option
	wanted := map[string]bool{}
	for _, s := range startups {
		wanted[s.field] = true
	}
	wanted[capGuard], wanted[capArg] = true, true
	for _, d := range gf.Decls {
		fd, ok := d.(*ast.FuncDecl)
		if !ok || fd.Body == nil || fd.Recv != nil || fd.Type.Params == nil {
			continue
		}
		ast.Inspect(fd.Body, func(n ast.Node) bool {
			as, ok := n.(*ast.AssignStmt)
			if !ok || len(as.Lhs) != 1 {
				return true
			}
			s, ok := as.Lhs[0].(*ast.SelectorExpr)
			if !ok || !wanted[s.Sel.Name] {
				return true
			}
			if fd.Name.Name == "New" {
				die(as.Pos(), "New assigns a worker-limit field: %s", src(as))
			}
			if len(fd.Type.Params.List) != 1 || len(fd.Type.Params.List[0].Names) != 1 || src(as.Rhs[0]) != fd.Type.Params.List[0].Names[0].Name {
				die(as.Pos(), "option %s does not store its parameter: %s", fd.Name.Name, src(as))
			}
			options = append(options, option{fd.Name.Name, s.Sel.Name})
			return true
		})
	}
	sort.Slice(options, func(i, j int) bool { return options[i].name < options[j].name })
	// defaults in New: the composite literal &graphsyncConfigOptions{ f: v, ... }
	consts := map[string]string{}
	for _, d := range gf.Decls {
		if gd, ok := d.(*ast.GenDecl); ok && gd.Tok == token.CONST {
			for _, sp := range gd.Specs {
				vs := sp.(*ast.ValueSpec)
				for i, n := range vs.Names {
					if i < len(vs.Values) {
						consts[n.Name] = src(vs.Values[i])
					}
				}
			}
		}
	}
	evalNat := func(e ast.Expr) (string, bool) {
		s := src(e)
		if v, ok := consts[s]; ok {
			s = v
		}
		s = strings.TrimSuffix(strings.TrimPrefix(s, "uint64("), ")")
		if _, err := strconv.ParseUint(s, 10, 64); err == nil {
			return s, true
		}
		return "", false
	}
	defaults := map[string]string{}
	ast.Inspect(newFn.Body, func(n ast.Node) bool {
		cl, ok := n.(*ast.CompositeLit)
		if !ok || src(cl.Type) != "graphsyncConfigOptions" {
			return true
		}
		for _, el := range cl.Elts {
			kv, ok := el.(*ast.KeyValueExpr)
			if !ok {
				die(el.Pos(), "unkeyed config literal")
			}
			k := src(kv.Key)
			if wanted[k] {
				v, ok := evalNat(kv.Value)
				if !ok {
					die(kv.Pos(), "default of %s is not a constant: %s", k, src(kv.Value))
				}
				defaults[k] = v
			}
		}
		return false
	})
	var fields []string
	for f := range wanted {
		fields = append(fields, f)
	}
	sort.Strings(fields)

	// ---------------------------------------------------------------- taskqueue/taskqueue.go
	tf := parseFile(filepath.Join(repo, "taskqueue", "taskqueue.go"))
	thawMs := ""
	for _, d := range tf.Decls {
		if gd, ok := d.(*ast.GenDecl); ok && gd.Tok == token.CONST {
			for _, sp := range gd.Specs {
				vs := sp.(*ast.ValueSpec)
				if vs.Names[0].Name == "thawSpeed" {
					s := strings.ReplaceAll(src(vs.Values[0]), " ", "")
					for _, pat := range []string{"time.Millisecond*", "*time.Millisecond"} {
						if strings.Contains(s, pat) {
							thawMs = strings.ReplaceAll(s, pat, "")
						}
					}
					if _, err := strconv.Atoi(thawMs); err != nil {
						die(vs.Pos(), "thawSpeed is not <n> milliseconds: %s", src(vs.Values[0]))
					}
				}
			}
		}
	}
	if thawMs == "" {
		die(tf.Pos(), "thawSpeed not found")
	}
	worker := findFunc(tf, "worker")
	target := ""
	ast.Inspect(worker.Body, func(n ast.Node) bool {
		if as, ok := n.(*ast.AssignStmt); ok && len(as.Lhs) == 1 && src(as.Lhs[0]) == "targetWork" && as.Tok == token.DEFINE {
			target = src(as.Rhs[0])
		}
		return true
	})
	npop := 0
	ast.Inspect(worker.Body, func(n ast.Node) bool {
		if c, ok := n.(*ast.CallExpr); ok {
			if s, ok := c.Fun.(*ast.SelectorExpr); ok && s.Sel.Name == "PopTasks" {
				npop++
				if len(c.Args) != 1 || src(c.Args[0]) != "targetWork" {
					die(c.Pos(), "PopTasks not called with targetWork: %s", src(c))
				}
			}
		}
		return true
	})
	if _, err := strconv.Atoi(target); err != nil || npop == 0 {
		// the worker may have been refactored; the differential stream `workers` still covers it
		target = "0"
	}
	sigCap := ""
	ast.Inspect(findFunc(tf, "NewTaskQueue").Body, func(n ast.Node) bool {
		if kv, ok := n.(*ast.KeyValueExpr); ok && src(kv.Key) == "workSignal" {
			if c, ok := kv.Value.(*ast.CallExpr); ok && src(c.Fun) == "make" && len(c.Args) == 2 {
				sigCap = src(c.Args[1])
			}
		}
		return true
	})
	if _, err := strconv.Atoi(sigCap); err != nil {
		sigCap = "0"
	}
	su := findFunc(tf, "Startup")
	loop := ""
	ast.Inspect(su.Body, func(n ast.Node) bool {
		switch x := n.(type) {
		case *ast.RangeStmt:
			loop = "range " + src(x.X)
		case *ast.ForStmt:
			if x.Cond != nil {
				loop = "for " + src(x.Cond)
			}
		}
		return true
	})
	if len(su.Type.Params.List) == 0 || len(su.Type.Params.List[0].Names) == 0 {
		die(su.Pos(), "Startup has no parameters")
	}
	countParam := su.Type.Params.List[0].Names[0].Name
	exact := loop == "range "+countParam || loop == "for i < "+countParam || loop == "for i < int("+countParam+")"

	// ---------------------------------------------------------------- pushed tasks
	type push struct {
		where string
		work  string
	}
	var pushes []push
	for _, rel := range []string{"requestmanager/server.go", "responsemanager/server.go"} {
		f := parseFile(filepath.Join(repo, filepath.FromSlash(rel)))
		encl := ""
		ast.Inspect(f, func(n ast.Node) bool {
			if fd, ok := n.(*ast.FuncDecl); ok {
				encl = fd.Name.Name
			}
			cl, ok := n.(*ast.CompositeLit)
			if !ok || sel(cl.Type) != "peertask.Task" {
				return true
			}
			work := "0" // field absent = zero value
			for _, el := range cl.Elts {
				kv, ok := el.(*ast.KeyValueExpr)
				if !ok {
					die(el.Pos(), "unkeyed peertask.Task literal")
				}
				if src(kv.Key) == "Work" {
					work = src(kv.Value)
				}
			}
			if _, err := strconv.ParseUint(work, 10, 32); err != nil {
				die(cl.Pos(), "Work of a pushed task is not a constant: %s", src(cl))
			}
			pushes = append(pushes, push{fmt.Sprintf("%s %s", rel, encl), work})
			return true
		})
	}
	if len(pushes) == 0 {
		die(token.NoPos, "no peertask.Task literal found in the managers")
	}

	// ---------------------------------------------------------------- output
	var b strings.Builder
	b.WriteString("/-\nGENERATED by /verif/translate/taskwiring from the go-graphsync sources — do not edit.\n")
	b.WriteString("  impl/graphsync.go New / options : queues, startups, capGuard, capArg, options, defaults\n")
	b.WriteString("  taskqueue/taskqueue.go          : thawMs, popTarget, signalCap, startupExact\n")
	b.WriteString("  */server.go                     : pushWorks (every peertask.Task literal)\n-/\n")
	b.WriteString("namespace GS.Generated.TaskWiring\n\n")
	b.WriteString("/-- `x := taskqueue.NewTaskQueue(ctx, opts...)` in New: (queue variable, options variable or \"\") -/\n")
	var qs []string
	for _, x := range queues {
		qs = append(qs, fmt.Sprintf("(%s, %s)", q(x.name), q(x.opts)))
	}
	fmt.Fprintf(&b, "def queues : List (String × String) := [%s]\n\n", strings.Join(qs, ", "))
	b.WriteString("/-- `x.Startup(gsConfig.f, e)` in New: (queue variable, config field, constructor that built e) -/\n")
	var ss []string
	for _, x := range startups {
		ss = append(ss, fmt.Sprintf("(%s, %s, %s)", q(x.queue), q(x.field), q(x.executor)))
	}
	fmt.Fprintf(&b, "def startups : List (String × String × String) := [%s]\n\n", strings.Join(ss, ", "))
	b.WriteString("/-- `if gsConfig.<capGuard> > 0 { <capVar> = append(<capVar>, MaxOutstandingWorkPerPeer(int(gsConfig.<capArg>))) }` -/\n")
	fmt.Fprintf(&b, "def capGuard : String := %s\ndef capArg : String := %s\ndef capVar : String := %s\n\n", q(capGuard), q(capArg), q(capVar))
	b.WriteString("/-- exported option → the config field it stores its argument in -/\n")
	var os_ []string
	for _, x := range options {
		os_ = append(os_, fmt.Sprintf("(%s, %s)", q(x.name), q(x.field)))
	}
	fmt.Fprintf(&b, "def options : List (String × String) := [%s]\n\n", strings.Join(os_, ", "))
	b.WriteString("/-- defaults of those fields in New (absent = zero value) -/\n")
	var ds []string
	for _, f := range fields {
		v := defaults[f]
		if v == "" {
			v = "0"
		}
		ds = append(ds, fmt.Sprintf("(%s, %s)", q(f), v))
	}
	fmt.Fprintf(&b, "def defaults : List (String × Nat) := [%s]\n\n", strings.Join(ds, ", "))
	fmt.Fprintf(&b, "/-- taskqueue.go: thawSpeed in ms; `targetWork` passed to every PopTasks of the worker (0 = not recognised);\n    capacity of workSignal (0 = not recognised); Startup loops exactly `workerCount` times -/\n")
	fmt.Fprintf(&b, "def thawMs : Nat := %s\ndef popTarget : Nat := %s\ndef signalCap : Nat := %s\ndef startupExact : Bool := %v\n\n", thawMs, target, sigCap, exact)
	b.WriteString("/-- every `peertask.Task{…}` literal in the two managers: (file function, Work) -/\n")
	var ps []string
	for _, x := range pushes {
		ps = append(ps, fmt.Sprintf("(%s, %s)", q(x.where), x.work))
	}
	fmt.Fprintf(&b, "def pushWorks : List (String × Nat) := [%s]\n\n", strings.Join(ps, ", "))
	b.WriteString("end GS.Generated.TaskWiring\n")
	fmt.Print(b.String())
}
