/-
Model of link budgets (property C07), core Lean only.

  /repo/ipldutil/traverser.go  `start`           -> `run`     (root charge = generated step list)
  go-ipld-prime traversal.Progress.checkLinkBudget / loadLink / explore
                                                -> `travB`   (per-link charge = generated step list)
  requestmanager/server.go requestTask,
  responsemanager/server.go taskDataForKey       -> the generated `requestorPick` / `responderPick`
                                                    / guards / int64 conversion, wrapped by
                                                    `effectiveBudget` in GS/Model/BudgetSel.lean

A selector traversal over a DAG is abstracted to its *link tree* `LT` (DESIGN §3): one node per link
load the traversal performs when every block is available, children in traversal order.  A load
whose block is not available is answered `traversal.SkipMe` by both graphsync peers: the budget is
charged, the subtree is skipped.  A budget is go-ipld-prime's `Budget.LinkBudget`, an int64 counter
shared by graphsync's root check and go-ipld-prime's per-link check.

The shapes of the two checks are `List Step` values written by the translator
(GS/Generated/Budget.lean); this file only defines the vocabulary and the generic traversal.
-/
namespace GS.Budget

abbrev Cid := Nat

/-- link tree: a load of block `cid` and, if the block is there, the loads below it in order -/
inductive LT where
  | node (cid : Cid) (kids : List LT)
deriving Repr, Inhabited

inductive Cmp where
  | le | lt | eq | ge | gt | ne
deriving Repr, DecidableEq, Inhabited

def Cmp.eval : Cmp → Int → Int → Bool
  | .le, a, b => a ≤ b
  | .lt, a, b => a < b
  | .eq, a, b => a == b
  | .ge, a, b => a ≥ b
  | .gt, a, b => a > b
  | .ne, a, b => a != b

/-- one statement of a budget check: `LinkBudget -= n`, or
    `if LinkBudget CMP k { return ErrBudgetExceeded }` -/
inductive Step where
  | dec (n : Int)
  | failIf (c : Cmp) (k : Int)
deriving Repr, DecidableEq, Inhabited

/-- run a check on the counter: `none` = ErrBudgetExceeded, `some b'` = proceed with counter `b'` -/
def runSteps : List Step → Int → Option Int
  | [], b => some b
  | .dec n :: rest, b => runSteps rest (b - n)
  | .failIf c k :: rest, b => if c.eval b k then none else runSteps rest b

inductive Outcome where
  | ok                 -- traversal completed (nil error)
  | budgetExceeded     -- *traversal.ErrBudgetExceeded
  | rootMissing        -- the root load itself failed (SkipMe / not found): the load error is returned
deriving Repr, DecidableEq, Inhabited

/-! ## the traversal without a budget -/
mutual
/-- loads (in order) of the traversal below and including one link -/
def trav (avail : Cid → Bool) : LT → List Cid
  | .node c kids => c :: (if avail c then travL avail kids else [])
def travL (avail : Cid → Bool) : List LT → List Cid
  | [] => []
  | t :: ts => trav avail t ++ travL avail ts
end

/-- number of link loads the traversal needs (root included, loads answered "missing" included) -/
def need (avail : Cid → Bool) (t : LT) : Nat := (trav avail t).length

/-! ## the traversal with a budget -/

/-- state threaded through the DFS: loads so far (in order), counter, budget error raised -/
structure St where
  loads : List Cid
  left : Int
  exceeded : Bool
deriving Repr, Inhabited

mutual
/-- one non-root link: go-ipld-prime's `loadLink` runs `linkCheck` first, then loads, then walks
    the block -/
def travB (linkCheck : List Step) (avail : Cid → Bool) : LT → Int → St
  | .node c kids, b =>
    match runSteps linkCheck b with
    | none => ⟨[], b, true⟩
    | some b' =>
      if avail c then
        let r := travBL linkCheck avail kids b'
        ⟨c :: r.loads, r.left, r.exceeded⟩
      else ⟨[c], b', false⟩
/-- the links of one block, in order; an error aborts the whole walk -/
def travBL (linkCheck : List Step) (avail : Cid → Bool) : List LT → Int → St
  | [], b => ⟨[], b, false⟩
  | t :: ts, b =>
    let r1 := travB linkCheck avail t b
    if r1.exceeded then r1
    else
      let r2 := travBL linkCheck avail ts r1.left
      ⟨r1.loads ++ r2.loads, r2.left, r2.exceeded⟩
end

structure Result where
  loads : List Cid
  outcome : Outcome
deriving Repr, DecidableEq, Inhabited

/-- the walk below the root: on the traverser's own counter (`Progress{…, Budget: t.budget}`,
    `shared = true`) or without any budget (no `Budget` field in the Progress literal) -/
def walkKids (linkCheck : List Step) (avail : Cid → Bool) (shared : Bool) (kids : List LT) (b : Int) :
    List Cid × Bool :=
  if shared then
    let r := travBL linkCheck avail kids b
    (r.loads, r.exceeded)
  else (travL avail kids, false)

/-- `traverser.start` + `WalkAdv`: `budget = none` is a nil `*traversal.Budget`.
    `rootCheckBeforeLoad`: the `if t.budget != nil {…}` block stands before
    `t.linkSystem.Load(…, t.root, …)` (otherwise the root is loaded first and then checked);
    `shared`: see `walkKids`.  Both are facts the translator extracts from traverser.go. -/
def run (rootCheck linkCheck : List Step) (rootCheckBeforeLoad shared : Bool) (avail : Cid → Bool)
    (budget : Option Int) : LT → Result
  | .node c kids =>
    match budget with
    | none =>
      if avail c then ⟨c :: travL avail kids, .ok⟩ else ⟨[c], .rootMissing⟩
    | some b =>
      if rootCheckBeforeLoad then
        match runSteps rootCheck b with
        | none => ⟨[], .budgetExceeded⟩
        | some b' =>
          if avail c then
            let r := walkKids linkCheck avail shared kids b'
            ⟨c :: r.1, if r.2 then .budgetExceeded else .ok⟩
          else ⟨[c], .rootMissing⟩
      else
        if avail c then
          match runSteps rootCheck b with
          | none => ⟨[c], .budgetExceeded⟩
          | some b' =>
            let r := walkKids linkCheck avail shared kids b'
            ⟨c :: r.1, if r.2 then .budgetExceeded else .ok⟩
        else ⟨[c], .rootMissing⟩

/-! ## budget selection vocabulary (values are uint64 in Go) -/

def maxInt64 : Int := 9223372036854775807

/-- Go's `int64(x)` for a uint64 `x` -/
def castInt64 (x : Nat) : Int :=
  let y := x % 18446744073709551616
  if y < 9223372036854775808 then (y : Int) else (y : Int) - 18446744073709551616

end GS.Budget
