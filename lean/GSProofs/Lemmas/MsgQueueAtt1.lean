import GSProofs.Lemmas.MsgQueueLive6
import GSProofs.Lemmas.MsgQueueLog2
/-!
# Message queue: who is attached to a queued message — builder-level facts
(under the assumption that every request id has one subscriber, `tx.sub = f tx.req`)
-/
namespace GS.MQ
open GS.Alloc

/-- request `r` has something in the message -/
def content (b : Builder) (r : Req) : Prop := ahas b.responses r = true ∨ r ∈ b.requests

/-- subscriber `u` is attached to builder `b` (topic `t`) through request `r`, which has content in it -/
def AttB (u : Sub) (t : Nat) (r : Req) (b : Builder) : Prop := (b.topic : Nat) = t ∧ (r, u) ∈ b.subs ∧ content b r

/-- every attachment of the builder is the request's own subscriber, and every response stream of
    the builder has its subscriber attached -/
structure BFun (f : Req → Sub) (b : Builder) : Prop where
  subs : ∀ e ∈ b.subs, e.2 = f e.1
  streams : ∀ e ∈ b.streams, (e.1, f e.1) ∈ b.subs

theorem BFun.new (f : Req → Sub) (t : Topic) : BFun f { topic := t } := ⟨by simp, by simp⟩

theorem mem_aset_self {α : Type} (m : List (Nat × α)) (k : Nat) (v : α) : (k, v) ∈ aset m k v := by
  induction m with
  | nil => simp [aset]
  | cons e r ih =>
    obtain ⟨ke, ve⟩ := e
    simp only [aset]
    split
    · simp
    · exact List.mem_cons_of_mem _ ih

theorem mem_aset_other {α : Type} (m : List (Nat × α)) (k : Nat) (v : α) {e : Nat × α} (h : e ∈ m) (hk : e.1 ≠ k) :
    e ∈ aset m k v := by
  induction m with
  | nil => cases h
  | cons x r ih =>
    obtain ⟨kx, vx⟩ := x
    simp only [aset]
    rcases List.mem_cons.mp h with rfl | h
    · have : ¬ (kx == k) = true := by simpa using hk
      rw [if_neg this]; simp
    · split
      · next hkx =>
        have : kx = k := by simpa using hkx
        -- e is in the tail, which is kept
        exact List.mem_cons_of_mem _ h
      · exact List.mem_cons_of_mem _ (ih h)

theorem ahas_of_mem {α : Type} {m : List (Nat × α)} {e : Nat × α} (h : e ∈ m) : ahas m e.1 = true := by
  unfold ahas; exact List.any_eq_true.mpr ⟨e, h, by simp⟩

theorem mem_of_ahas {α : Type} {m : List (Nat × α)} {k : Nat} (h : ahas m k = true) : ∃ v, (k, v) ∈ m := by
  unfold ahas at h
  obtain ⟨e, he, hk⟩ := List.any_eq_true.mp h
  have : e.1 = k := by simpa using hk
  exact ⟨e.2, by rw [← this]; exact he⟩

/-- `op.build`: the response keys only grow, nothing else relevant changes -/
theorem apply_keeps (b : Builder) (r : Req) (it : Item) :
    (b.apply r it).subs = b.subs ∧ (b.apply r it).streams = b.streams ∧ (b.apply r it).requests = b.requests ∧
    (∀ k, ahas b.responses k = true → ahas (b.apply r it).responses k = true) := by
  cases it with
  | block c sz send =>
    cases send <;> exact ⟨rfl, rfl, rfl, fun k hk => by
      show ahas (aset b.responses r _) k = true
      rw [ahas_aset, hk]; rfl⟩
  | missing c => exact ⟨rfl, rfl, rfl, fun k hk => by
      show ahas (aset b.responses r _) k = true
      rw [ahas_aset, hk]; rfl⟩
  | ext sz => exact ⟨rfl, rfl, rfl, fun k hk => ahas_touch _ _ _ hk⟩
  | status code => exact ⟨rfl, rfl, rfl, fun k hk => ahas_touch _ _ _ hk⟩

theorem applyAll_keeps (b : Builder) (r : Req) (items : List Item) :
    (b.applyAll r items).subs = b.subs ∧ (b.applyAll r items).streams = b.streams ∧
    (b.applyAll r items).requests = b.requests ∧
    (∀ k, ahas b.responses k = true → ahas (b.applyAll r items).responses k = true) := by
  unfold Builder.applyAll
  induction items generalizing b with
  | nil => exact ⟨rfl, rfl, rfl, fun _ h => h⟩
  | cons it rest ih =>
    obtain ⟨h1, h2, h3, h4⟩ := apply_keeps b r it
    obtain ⟨i1, i2, i3, i4⟩ := ih (b.apply r it)
    exact ⟨i1.trans h1, i2.trans h2, i3.trans h3, fun k hk => i4 k (h4 k hk)⟩

/-- the build function of a transaction whose subscriber is its request's -/
theorem runFn_att (f : Req → Sub) (closed : List Req) (b : Builder) (tx : Tx) (hf : tx.sub = f tx.req) (hb : BFun f b) :
    BFun f (runFn closed b tx) ∧
    (∀ u t r, AttB u t r b → AttB u t r (runFn closed b tx)) := by
  unfold runFn
  cases hw : tx.who with
  | response =>
    simp only
    split
    · exact ⟨hb, fun _ _ _ h => h⟩
    · obtain ⟨k1, k2, k3, k4⟩ := applyAll_keeps b tx.req tx.items
      have htop := applyAll_topic b tx.req tx.items
      constructor
      · constructor
        · intro e he
          rcases mem_aset _ _ _ he with h | h
          · rw [h]; exact hf
          · rw [k1] at h; exact hb.subs e h
        · intro e he
          rcases mem_aset _ _ _ he with h | h
          · rw [h]; show (tx.req, f tx.req) ∈ aset _ tx.req tx.sub
            rw [← hf]; exact mem_aset_self _ _ _
          · rw [k2] at h
            have h1 := hb.streams e h
            by_cases hk : e.1 = tx.req
            · show (e.1, f e.1) ∈ aset _ tx.req tx.sub
              rw [hk, ← hf]; exact mem_aset_self _ _ _
            · show (e.1, f e.1) ∈ aset _ tx.req tx.sub
              apply mem_aset_other
              · rw [k1]; exact h1
              · exact hk
      · intro u t r ⟨ht, hr, hc⟩
        refine ⟨by show ((b.applyAll tx.req tx.items).topic : Nat) = t; rw [htop]; exact ht, ?_, ?_⟩
        · show (r, u) ∈ aset (b.applyAll tx.req tx.items).subs tx.req tx.sub
          rw [k1]
          by_cases hk : r = tx.req
          · have : u = tx.sub := by rw [hf, ← hk]; exact hb.subs (r, u) hr
            rw [hk, this]; exact mem_aset_self _ _ _
          · exact mem_aset_other _ _ _ hr hk
        · rcases hc with hc | hc
          · exact Or.inl (k4 r hc)
          · exact Or.inr (by show r ∈ (b.applyAll tx.req tx.items).requests; rw [k3]; exact hc)
  | request =>
    simp only
    constructor
    · constructor
      · intro e he
        rcases mem_aset _ _ _ he with h | h
        · rw [h]; exact hf
        · exact hb.subs e h
      · intro e he
        have h1 := hb.streams e he
        by_cases hk : e.1 = tx.req
        · show (e.1, f e.1) ∈ aset b.subs tx.req tx.sub
          rw [hk, ← hf]; exact mem_aset_self _ _ _
        · exact mem_aset_other _ _ _ h1 hk
    · intro u t r ⟨ht, hr, hc⟩
      refine ⟨ht, ?_, ?_⟩
      · show (r, u) ∈ aset b.subs tx.req tx.sub
        by_cases hk : r = tx.req
        · have : u = tx.sub := by rw [hf, ← hk]; exact hb.subs (r, u) hr
          rw [hk, this]; exact mem_aset_self _ _ _
        · exact mem_aset_other _ _ _ hr hk
      · rcases hc with hc | hc
        · exact Or.inl hc
        · right
          show r ∈ (if b.requests.contains tx.req then b.requests else b.requests ++ [tx.req])
          split
          · exact hc
          · exact List.mem_append_left _ hc

/-- scrubbing requests `reqs`: attachments through other requests stay -/
theorem scrub_att (f : Req → Sub) (b : Builder) (reqs : List Req) (hb : BFun f b) :
    BFun f (b.scrub reqs).1 ∧
    (∀ u t r, (b.topic : Nat) = t → (r, u) ∈ b.subs → content b r → reqs.contains r = false →
      AttB u t r (b.scrub reqs).1) := by
  constructor
  · constructor
    · intro e he
      have : e ∈ adel b.subs reqs := he
      exact hb.subs e (List.mem_filter.mp this).1
    · intro e he
      have h1 : e ∈ adel b.streams reqs := he
      obtain ⟨h2, h3⟩ := List.mem_filter.mp h1
      show (e.1, f e.1) ∈ adel b.subs reqs
      exact List.mem_filter.mpr ⟨hb.streams e h2, h3⟩
  · intro u t r ht hr hc hn
    have hnm : ¬ r ∈ reqs := by intro h; have := List.contains_iff_mem.mpr h; rw [hn] at this; cases this
    refine ⟨ht, ?_, ?_⟩
    · show (r, u) ∈ adel b.subs reqs
      exact List.mem_filter.mpr ⟨hr, by simp [hnm]⟩
    · rcases hc with hc | hc
      · left
        show ahas (adel b.responses reqs) r = true
        obtain ⟨v, hv⟩ := mem_of_ahas hc
        have : (r, v) ∈ adel b.responses reqs := List.mem_filter.mpr ⟨hv, by simp [hnm]⟩
        exact ahas_of_mem this
      · exact Or.inr hc

/-- an attached builder has content -/
theorem AttB.nonempty {u : Sub} {t : Nat} {r : Req} {b : Builder} (h : AttB u t r b) : b.empty = false := by
  obtain ⟨_, _, hc⟩ := h
  unfold Builder.empty
  rcases hc with hc | hc
  · obtain ⟨v, hv⟩ := mem_of_ahas hc
    cases hr : b.responses with
    | nil => rw [hr] at hv; cases hv
    | cons _ _ => simp
  · cases hr : b.requests with
    | nil => rw [hr] at hc; cases hc
    | cons _ _ => simp

end GS.MQ
