import GS.Model.PeerManager
/-!
# Peer manager: the table/queue invariant and its preservation by every step
-/
namespace GS.PM

/-! ## list helpers -/

theorem lookup_some {t : List Entry} {p : Nat} {e : Entry} (h : lookup t p = some e) :
    e ∈ t ∧ e.peer = p := by
  unfold lookup at h
  have h1 := List.mem_of_find?_eq_some h
  have h2 := List.find?_some h
  exact ⟨h1, by simpa using h2⟩

theorem lookup_none {t : List Entry} {p : Nat} (h : lookup t p = none) : ∀ e ∈ t, e.peer ≠ p := by
  unfold lookup at h
  intro e he hp
  have := List.find?_eq_none.mp h e he
  simp [hp] at this

theorem mem_setQueue {qs : List Queue} {id : Nat} {f : Queue → Queue} {q : Queue}
    (h : q ∈ setQueue qs id f) : ∃ q0 ∈ qs, q = (if q0.id == id then f q0 else q0) := by
  unfold setQueue at h
  obtain ⟨q0, h0, rfl⟩ := List.mem_map.mp h
  exact ⟨q0, h0, rfl⟩

theorem mem_setQueue_of {qs : List Queue} {id : Nat} {f : Queue → Queue} {q0 : Queue}
    (h : q0 ∈ qs) : (if q0.id == id then f q0 else q0) ∈ setQueue qs id f := by
  unfold setQueue
  exact List.mem_map.mpr ⟨q0, h, rfl⟩

theorem setQueue_ids (qs : List Queue) (id : Nat) (f : Queue → Queue) (hf : ∀ q, (f q).id = q.id) :
    (setQueue qs id f).map (·.id) = qs.map (·.id) := by
  unfold setQueue
  rw [List.map_map]
  apply List.map_congr_left
  intro q _
  simp only [Function.comp]
  split <;> simp [hf]

/-- at most one element when all elements of a list with distinct keys share one key -/
theorem length_le_one_of_same_key {α : Type} (key : α → Nat) :
    ∀ (l : List α), (l.map key).Nodup → (∀ a ∈ l, ∀ b ∈ l, key a = key b) → l.length ≤ 1
  | [], _, _ => by simp
  | [_], _, _ => by simp
  | a :: b :: r, hn, hs => by
    exfalso
    have hab : key a = key b := hs a (by simp) b (by simp)
    simp only [List.map_cons, List.nodup_cons, List.mem_cons, List.mem_map] at hn
    exact hn.1 (Or.inl hab)

theorem nodup_filter_map {α : Type} (key : α → Nat) (l : List α) (f : α → Bool)
    (h : (l.map key).Nodup) : ((l.filter f).map key).Nodup := by
  have : ((l.filter f).map key).Sublist (l.map key) := (List.filter_sublist).map key
  exact this.nodup h

/-! ## the invariant -/

structure Inv (s : State) : Prop where
  ids : ∀ q ∈ s.queues, q.id < s.nextId
  nodupQ : (s.queues.map (·.id)).Nodup
  nodupT : (s.table.map (·.peer)).Nodup
  /-- every table entry points to a live queue of that peer whose Shutdown() the manager has not begun -/
  entry : ∀ e ∈ s.table, ∃ q ∈ s.queues, q.id = e.qid ∧ q.peer = e.peer ∧ q.exited = false ∧ q.pending = false
  /-- every live queue is in the table, or has been (is being) told to shut down -/
  orphan : ∀ q ∈ s.queues, q.exited = false →
    (∃ e ∈ s.table, e.qid = q.id ∧ e.peer = q.peer) ∨ q.pending = true ∨ q.shutdown = true

theorem Inv.init : Inv {} := by
  constructor <;> simp

theorem eq_of_nodup_key {α : Type} (key : α → Nat) :
    ∀ (l : List α), (l.map key).Nodup → ∀ {a b : α}, a ∈ l → b ∈ l → key a = key b → a = b
  | [], _, _, _, ha, _, _ => by cases ha
  | x :: r, hn, a, b, ha, hb, hk => by
    simp only [List.map_cons, List.nodup_cons, List.mem_map, not_exists, not_and] at hn
    rcases List.mem_cons.mp ha with rfl | ha' <;> rcases List.mem_cons.mp hb with rfl | hb'
    · rfl
    · exact absurd hk.symm (hn.1 b hb')
    · exact absurd hk (hn.1 a ha')
    · exact eq_of_nodup_key key r hn.2 ha' hb' hk

/-- a queue is determined by its id -/
theorem Inv.queue_unique {s : State} (h : Inv s) {a b : Queue} (ha : a ∈ s.queues) (hb : b ∈ s.queues)
    (hid : a.id = b.id) : a = b := eq_of_nodup_key (·.id) _ h.nodupQ ha hb hid

theorem Inv.entry_unique {s : State} (h : Inv s) {a b : Entry} (ha : a ∈ s.table) (hb : b ∈ s.table)
    (hp : a.peer = b.peer) : a = b := eq_of_nodup_key (·.peer) _ h.nodupT ha hb hp

/-! ## preservation -/

/-- changing only reference counts -/
theorem Inv.mapTable {s : State} (h : Inv s) (f : Entry → Entry)
    (hp : ∀ e, (f e).peer = e.peer) (hq : ∀ e, (f e).qid = e.qid) :
    Inv { s with table := s.table.map f } := by
  refine ⟨h.ids, h.nodupQ, ?_, ?_, ?_⟩
  · show ((s.table.map f).map (·.peer)).Nodup
    rw [List.map_map]
    have : ((fun x : Entry => x.peer) ∘ f) = (·.peer) := by funext e; simp [hp]
    rw [this]; exact h.nodupT
  · intro e he
    obtain ⟨e0, he0, rfl⟩ := List.mem_map.mp he
    obtain ⟨q, hq1, hq2, hq3, hq4⟩ := h.entry e0 he0
    exact ⟨q, hq1, by rw [hq]; exact hq2, by rw [hp]; exact hq3, hq4⟩
  · intro q hq1 hq2
    rcases h.orphan q hq1 hq2 with ⟨e, he, h1, h2⟩ | h' | h'
    · exact Or.inl ⟨f e, List.mem_map.mpr ⟨e, he, rfl⟩, by rw [hq]; exact h1, by rw [hp]; exact h2⟩
    · exact Or.inr (Or.inl h')
    · exact Or.inr (Or.inr h')

theorem getOrCreate_cases (s : State) (p : Nat) :
    (∃ e, lookup s.table p = some e ∧ getOrCreate s p = (s, e)) ∨
    (lookup s.table p = none ∧ getOrCreate s p =
      ({ table := s.table ++ [{ peer := p, refcnt := 0, qid := s.nextId }],
         queues := s.queues ++ [{ id := s.nextId, peer := p }], nextId := s.nextId + 1 },
       { peer := p, refcnt := 0, qid := s.nextId })) := by
  unfold getOrCreate
  cases h : lookup s.table p with
  | some e => exact Or.inl ⟨e, rfl, rfl⟩
  | none => exact Or.inr ⟨rfl, rfl⟩

theorem Inv.getOrCreate {s : State} (h : Inv s) (p : Nat) : Inv (getOrCreate s p).1 := by
  rcases getOrCreate_cases s p with ⟨e, _, hg⟩ | ⟨hl, hg⟩
  · rw [hg]; exact h
  · rw [hg]
    have hnew : ∀ q ∈ s.queues, q.id ≠ s.nextId := fun q hq => Nat.ne_of_lt (h.ids q hq)
    refine ⟨?_, ?_, ?_, ?_, ?_⟩
    · intro q hq
      rcases List.mem_append.mp hq with hq | hq
      · exact Nat.lt_succ_of_lt (h.ids q hq)
      · simp at hq; subst hq; exact Nat.lt_succ_self _
    · show ((s.queues ++ [_]).map (fun q : Queue => q.id)).Nodup
      rw [List.map_append, List.nodup_append]
      refine ⟨h.nodupQ, by simp, ?_⟩
      intro a ha b hb
      simp at hb; subst hb
      obtain ⟨q, hq, rfl⟩ := List.mem_map.mp ha
      exact hnew q hq
    · show ((s.table ++ [_]).map (fun e : Entry => e.peer)).Nodup
      rw [List.map_append, List.nodup_append]
      refine ⟨h.nodupT, by simp, ?_⟩
      intro a ha b hb
      simp at hb; subst hb
      obtain ⟨e, he, rfl⟩ := List.mem_map.mp ha
      exact lookup_none hl e he
    · intro e he
      rcases List.mem_append.mp he with he | he
      · obtain ⟨q, hq1, hq2⟩ := h.entry e he
        exact ⟨q, List.mem_append_left _ hq1, hq2⟩
      · simp at he; subst he
        exact ⟨{ id := s.nextId, peer := p }, by simp, rfl, rfl, rfl, rfl⟩
    · intro q hq hex
      rcases List.mem_append.mp hq with hq | hq
      · rcases h.orphan q hq hex with ⟨e, he, h1⟩ | h' | h'
        · exact Or.inl ⟨e, List.mem_append_left _ he, h1⟩
        · exact Or.inr (Or.inl h')
        · exact Or.inr (Or.inr h')
      · simp at hq; subst hq
        exact Or.inl ⟨{ peer := p, refcnt := 0, qid := s.nextId }, by simp, rfl, rfl⟩

theorem Inv.connected {s : State} (h : Inv s) (p : Nat) : Inv (connected s p) := by
  unfold GS.PM.connected
  exact (h.getOrCreate p).mapTable _ (fun e => by split <;> rfl) (fun e => by split <;> rfl)

theorem Inv.getProcess {s : State} (h : Inv s) (p : Nat) : Inv (getProcess s p).1 := by
  unfold GS.PM.getProcess
  exact h.getOrCreate p

/-- changing flags of queues (ids and peers fixed), given what happens to table witnesses and to
    the right-hand side of `orphan` -/
theorem Inv.setQueue {s : State} (h : Inv s) (id : Nat) (f : Queue → Queue) (t' : List Entry)
    (hid : ∀ q, (f q).id = q.id) (hpeer : ∀ q, (f q).peer = q.peer)
    (hsub : (t'.map (·.peer)).Nodup) (hmem : ∀ e ∈ t', e ∈ s.table)
    (hentry : ∀ e ∈ t', ∀ q ∈ s.queues, q.id = e.qid → q.id = id → (f q).exited = false ∧ (f q).pending = false)
    (horph : ∀ q ∈ s.queues, (let q' := if q.id == id then f q else q;
        q'.exited = false → (∃ e ∈ t', e.qid = q.id ∧ e.peer = q.peer) ∨ q'.pending = true ∨ q'.shutdown = true)) :
    Inv { s with table := t', queues := GS.PM.setQueue s.queues id f } := by
  refine ⟨?_, ?_, hsub, ?_, ?_⟩
  · intro q hq
    obtain ⟨q0, h0, rfl⟩ := mem_setQueue hq
    have := h.ids q0 h0
    split <;> simp [hid, this]
  · show ((GS.PM.setQueue s.queues id f).map (·.id)).Nodup
    rw [setQueue_ids _ _ _ hid]; exact h.nodupQ
  · intro e he
    obtain ⟨q, hq1, hq2, hq3, hq4, hq5⟩ := h.entry e (hmem e he)
    refine ⟨_, mem_setQueue_of (id := id) (f := f) hq1, ?_⟩
    by_cases hc : q.id = id
    · have := hentry e he q hq1 hq2 hc
      have hb : (q.id == id) = true := by simp [hc]
      rw [if_pos hb]
      exact ⟨by rw [hid]; exact hq2, by rw [hpeer]; exact hq3, this.1, this.2⟩
    · have hb : ¬ (q.id == id) = true := by simp [hc]
      rw [if_neg hb]
      exact ⟨hq2, hq3, hq4, hq5⟩
  · intro q hq hex
    obtain ⟨q0, h0, rfl⟩ := mem_setQueue hq
    have := horph q0 h0
    simp only at this
    have h2 := this hex
    have e1 : (if q0.id == id then f q0 else q0).id = q0.id := by split <;> simp [hid]
    have e2 : (if q0.id == id then f q0 else q0).peer = q0.peer := by split <;> simp [hpeer]
    rw [e1, e2]; exact h2

theorem nodup_filter_peer (t : List Entry) (f : Entry → Bool) (h : (t.map (·.peer)).Nodup) :
    ((t.filter f).map (·.peer)).Nodup := nodup_filter_map (·.peer) t f h

theorem Inv.disconnected {s : State} (h : Inv s) (p : Nat) : Inv (disconnected s p) := by
  unfold GS.PM.disconnected
  cases hl : lookup s.table p with
  | none => exact h
  | some e =>
    obtain ⟨hemem, hep⟩ := lookup_some hl
    simp only
    split
    · exact h.mapTable _ (fun e => by split <;> rfl) (fun e => by split <;> rfl)
    · refine h.setQueue e.qid _ _ (fun _ => rfl) (fun _ => rfl) (nodup_filter_peer _ _ h.nodupT)
        (fun x hx => (List.mem_filter.mp hx).1) ?_ ?_
      · intro e' he' q hq hq1 hq2
        exfalso
        obtain ⟨he'm, he'p⟩ := List.mem_filter.mp he'
        obtain ⟨qe, hqe1, hqe2, hqe3, _⟩ := h.entry e hemem
        obtain ⟨qe', hqe'1, hqe'2, hqe'3, _⟩ := h.entry e' he'm
        have : qe = qe' := h.queue_unique hqe1 hqe'1 (by rw [hqe2, hqe'2, ← hq1, hq2])
        subst this
        have : e'.peer = p := by rw [← hqe'3, hqe3, hep]
        simp [this] at he'p
      · intro q hq
        simp only
        by_cases hc : q.id = e.qid
        · simp [hc]
        · have hb : ¬ (q.id == e.qid) = true := by simp [hc]
          rw [if_neg hb]
          intro hex
          rcases h.orphan q hq hex with ⟨e0, he0, h1, h2⟩ | h' | h'
          · left
            refine ⟨e0, List.mem_filter.mpr ⟨he0, ?_⟩, h1, h2⟩
            by_cases hp0 : e0.peer = p
            · exfalso
              have : e0 = e := h.entry_unique he0 hemem (by rw [hp0, hep])
              subst this
              exact hc h1.symm
            · simp [hp0]
          · exact Or.inr (Or.inl h')
          · exact Or.inr (Or.inr h')

theorem Inv.shutdownCall {s : State} (h : Inv s) (q : Nat) : Inv (shutdownCall s q) := by
  unfold GS.PM.shutdownCall
  have := h.setQueue q (fun x => if x.pending then { x with pending := false, shutdown := true } else x) s.table
    (fun x => by split <;> rfl) (fun x => by split <;> rfl) h.nodupT (fun _ he => he) ?_ ?_
  · exact this
  · intro e he x hx hx1 _
    obtain ⟨qe, hqe1, hqe2, _, hqe4, hqe5⟩ := h.entry e he
    have : qe = x := h.queue_unique hqe1 hx (by rw [hqe2, hx1])
    subst this
    simp [hqe4, hqe5]
  · intro x hx
    simp only
    intro hex
    by_cases hc : (x.id == q) = true
    · rw [if_pos hc] at hex ⊢
      by_cases hp : x.pending = true
      · simp [hp]
      · simp only [hp] at hex ⊢
        simp only [Bool.false_eq_true, if_false] at hex ⊢
        rcases h.orphan x hx hex with h1 | h' | h'
        · exact Or.inl h1
        · exact absurd h' hp
        · exact Or.inr (Or.inr h')
    · rw [if_neg hc] at hex ⊢
      exact h.orphan x hx hex

theorem Inv.selfShutdown {s : State} (h : Inv s) (q : Nat) : Inv (selfShutdown s q) := by
  unfold GS.PM.selfShutdown
  have := h.setQueue q (fun x => if x.exited then x else { x with shutdown := true }) s.table
    (fun x => by split <;> rfl) (fun x => by split <;> rfl) h.nodupT (fun _ he => he) ?_ ?_
  · exact this
  · intro e he x hx hx1 _
    obtain ⟨qe, hqe1, hqe2, _, hqe4, hqe5⟩ := h.entry e he
    have : qe = x := h.queue_unique hqe1 hx (by rw [hqe2, hx1])
    subst this
    simp [hqe4, hqe5]
  · intro x hx
    simp only
    intro hex
    by_cases hc : (x.id == q) = true
    · rw [if_pos hc] at hex ⊢
      by_cases hp : x.exited = true
      · simp [hp] at hex
      · simp [hp]
    · rw [if_neg hc] at hex ⊢
      exact h.orphan x hx hex

theorem Inv.queueExit {s : State} (h : Inv s) (q : Nat) : Inv (queueExit s q) := by
  unfold GS.PM.queueExit
  cases hf : s.queues.find? (·.id == q) with
  | none => exact h
  | some x =>
    have hxm : x ∈ s.queues := List.mem_of_find?_eq_some hf
    have hxid : x.id = q := by simpa using List.find?_some hf
    simp only
    split
    · exact h
    · refine h.setQueue q _ _ (fun _ => rfl) (fun _ => rfl) (nodup_filter_peer _ _ h.nodupT)
        (fun e he => (List.mem_filter.mp he).1) ?_ ?_
      · intro e he y hy hy1 hy2
        exfalso
        obtain ⟨hem, hef⟩ := List.mem_filter.mp he
        obtain ⟨qe, hqe1, hqe2, hqe3, _⟩ := h.entry e hem
        have : qe = x := h.queue_unique hqe1 hxm (by rw [hqe2, ← hy1, hy2, hxid])
        subst this
        have h1 : e.peer = qe.peer := hqe3.symm
        have h2 : e.qid = q := by rw [← hqe2, hxid]
        simp [h1, h2] at hef
      · intro y hy
        simp only
        by_cases hc : (y.id == q) = true
        · rw [if_pos hc]; simp
        · rw [if_neg hc]
          intro hex
          rcases h.orphan y hy hex with ⟨e0, he0, h1, h2⟩ | h' | h'
          · left
            refine ⟨e0, List.mem_filter.mpr ⟨he0, ?_⟩, h1, h2⟩
            have : e0.qid ≠ q := by
              intro hq; apply hc; simp [← h1, hq]
            simp [this]
          · exact Or.inr (Or.inl h')
          · exact Or.inr (Or.inr h')

theorem Inv.step {s : State} (h : Inv s) (a : Act) : Inv (step s a) := by
  cases a with
  | connected p => exact h.connected p
  | disconnected p => exact h.disconnected p
  | shutdownCall q => exact h.shutdownCall q
  | getProcess p => exact h.getProcess p
  | selfShutdown q => exact h.selfShutdown q
  | queueExit q => exact h.queueExit q

theorem Inv.run {s : State} (h : Inv s) (acts : List Act) : Inv (run s acts) := by
  induction acts generalizing s with
  | nil => exact h
  | cons a r ih => exact ih (h.step a)

end GS.PM
