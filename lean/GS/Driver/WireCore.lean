import GS.Model.Wire
import GS.Driver.Proto
import GS.Driver.Sha256
/-!
Line-protocol handler shared by the drivers of components `wire`, `wiremut` and `netstream`.

Token syntax (input and output):  hex strings are written `x<hex digits>` (`x` = empty).
  value  ::= u <dec> | i <dec>            unsigned / negative integer (argument of the CBOR head)
           | b <hex> | t <hex> | l <hex>  bytes / text / link (binary CID)
           | a <n> value*n | m <n> (<hex> value)*n
           | T | F | z | f <hex bits>
  msg    ::= item*
  item   ::= req <id> n|c|u <pri> <root|-> (N | S value) <k> (<name> (N | S value))*k
           | rsp <id> <status> <k> (<cid> <action>)*k <k> (<name> (N | S value))*k
           | blk <cid> <data>
-/
namespace GS.Driver.WireCore
open GS.Proto GS.Cbor GS.Wire

/-! ### hex -/

def hexDigit (n : Nat) : Char := "0123456789abcdef".toList.getD n '?'

def hexOf (bs : Bytes) : String :=
  String.ofList ('x' :: bs.flatMap fun b => [hexDigit (b.toNat / 16), hexDigit (b.toNat % 16)])

def hexVal (c : Char) : Option Nat :=
  if '0' ≤ c ∧ c ≤ '9' then some (c.toNat - '0'.toNat)
  else if 'a' ≤ c ∧ c ≤ 'f' then some (c.toNat - 'a'.toNat + 10)
  else none

def parseHexChars : List Char → List UInt8 → Option Bytes
  | [], acc => some acc.reverse
  | [_], _ => none
  | a :: b :: rest, acc =>
    match hexVal a, hexVal b with
    | some x, some y => parseHexChars rest (UInt8.ofNat (x * 16 + y) :: acc)
    | _, _ => none

def parseHex (s : String) : Option Bytes :=
  match s.toList with
  | 'x' :: rest => parseHexChars rest []
  | _ => none

def parseInt (s : String) : Option Int :=
  if s.startsWith "-" then (s.drop 1).toNat?.map fun n => - Int.ofNat n
  else s.toNat?.map Int.ofNat

/-! ### values -/

mutual
def showVal : Val → List String
  | .uint n => ["u", toString n]
  | .nint n => ["i", toString n]
  | .bytes b => ["b", hexOf b]
  | .text b => ["t", hexOf b]
  | .link c => ["l", hexOf c]
  | .array xs => ["a", toString xs.length] ++ showVals xs
  | .map kvs => ["m", toString kvs.length] ++ showKVs kvs
  | .bool true => ["T"]
  | .bool false => ["F"]
  | .null => ["z"]
  | .float bits => ["f", hexOf (beBytes 8 bits)]
def showVals : List Val → List String
  | [] => []
  | v :: vs => showVal v ++ showVals vs
def showKVs : List (Bytes × Val) → List String
  | [] => []
  | (k, v) :: kvs => hexOf k :: (showVal v ++ showKVs kvs)
end

def valStr (v : Val) : String := joinWith "," (showVal v)

mutual
def parseVal : Nat → List String → Option (Val × List String)
  | 0, _ => none
  | _ + 1, [] => none
  | fuel + 1, t :: ts =>
    match t, ts with
    | "u", n :: r => n.toNat?.map fun n => (.uint n, r)
    | "i", n :: r => n.toNat?.map fun n => (.nint n, r)
    | "b", h :: r => (parseHex h).map fun b => (.bytes b, r)
    | "t", h :: r => (parseHex h).map fun b => (.text b, r)
    | "l", h :: r => (parseHex h).map fun b => (.link b, r)
    | "f", h :: r => (parseHex h).map fun b => (.float (beNat b), r)
    | "T", r => some (.bool true, r)
    | "F", r => some (.bool false, r)
    | "z", r => some (.null, r)
    | "a", n :: r =>
      match n.toNat? with
      | some n => (parseVals fuel n r).map fun (xs, r') => (.array xs, r')
      | none => none
    | "m", n :: r =>
      match n.toNat? with
      | some n => (parseKVs fuel n r).map fun (xs, r') => (.map xs, r')
      | none => none
    | _, _ => none
def parseVals : Nat → Nat → List String → Option (List Val × List String)
  | _, 0, ts => some ([], ts)
  | 0, _ + 1, _ => none
  | fuel + 1, n + 1, ts =>
    match parseVal fuel ts with
    | some (v, r) => (parseVals fuel n r).map fun (vs, r') => (v :: vs, r')
    | none => none
def parseKVs : Nat → Nat → List String → Option (List (Bytes × Val) × List String)
  | _, 0, ts => some ([], ts)
  | 0, _ + 1, _ => none
  | fuel + 1, n + 1, ts =>
    match ts with
    | k :: r =>
      match parseHex k, parseVal fuel r with
      | some k, some (v, r') => (parseKVs fuel n r').map fun (kvs, r'') => ((k, v) :: kvs, r'')
      | _, _ => none
    | [] => none
end

def parseValAll (ts : List String) : Option (Val × List String) := parseVal (ts.length + 1) ts

def parseOptVal (ts : List String) : Option (Option Val × List String) :=
  match ts with
  | "N" :: r => some (none, r)
  | "S" :: r => (parseValAll r).map fun (v, r') => (some v, r')
  | _ => none

def parseExts : Nat → List String → Option (List Ext × List String)
  | 0, ts => some ([], ts)
  | n + 1, name :: r =>
    match parseHex name, parseOptVal r with
    | some nm, some (ov, r') => (parseExts n r').map fun (es, r'') => ((nm, ov) :: es, r'')
    | _, _ => none
  | _ + 1, [] => none

def parseMds : Nat → List String → Option (List (Bytes × Bytes) × List String)
  | 0, ts => some ([], ts)
  | n + 1, c :: a :: r =>
    match parseHex c, parseHex a with
    | some c, some a => (parseMds n r).map fun (ms, r') => ((c, a) :: ms, r')
    | _, _ => none
  | _ + 1, _ => none

def parseMsg : Nat → List String → Msg → Option Msg
  | 0, _, _ => none
  | _ + 1, [], m => some { requests := m.requests.reverse, responses := m.responses.reverse, blocks := m.blocks.reverse }
  | fuel + 1, "req" :: id :: ty :: pri :: root :: r, m =>
    let ty? : Option ReqType := match ty with | "n" => some .new | "c" => some .cancel | "u" => some .update | _ => none
    let root? : Option (Option Bytes) := if root == "-" then some none else (parseHex root).map some
    match parseHex id, ty?, parseInt pri, root?, parseOptVal r with
    | some id, some ty, some pri, some root, some (sel, k :: r') =>
      match k.toNat? with
      | some k =>
        match parseExts k r' with
        | some (es, r'') => parseMsg fuel r'' { m with requests := ⟨id, ty, pri, root, sel, mkExts es⟩ :: m.requests }
        | none => none
      | none => none
    | _, _, _, _, _ => none
  | fuel + 1, "rsp" :: id :: st :: k :: r, m =>
    match parseHex id, parseInt st, k.toNat? with
    | some id, some st, some k =>
      match parseMds k r with
      | some (mds, k2 :: r') =>
        match k2.toNat? with
        | some k2 =>
          match parseExts k2 r' with
          | some (es, r'') => parseMsg fuel r'' { m with responses := ⟨id, st, mds, mkExts es⟩ :: m.responses }
          | none => none
        | none => none
      | _ => none
    | _, _, _ => none
  | fuel + 1, "blk" :: c :: d :: r, m =>
    match parseHex c, parseHex d with
    | some c, some d => parseMsg fuel r { m with blocks := ⟨c, d⟩ :: m.blocks }
    | _, _ => none
  | _ + 1, _, _ => none

/-! ### normal form of a decoded message -/

def insertStr (s : String) : List String → List String
  | [] => [s]
  | x :: xs => if s < x then s :: x :: xs else x :: insertStr s xs

def sortStrs (xs : List String) : List String := xs.foldr insertStr []

def optValStr : Option Val → String
  | none => "N"
  | some v => "S," ++ valStr v

def extsStr (es : List Ext) : String :=
  "{" ++ joinWith ";" (sortStrs (es.map fun e => hexOf e.1 ++ "=" ++ optValStr e.2)) ++ "}"

def reqStr (r : Request) : String :=
  let ty := match r.type with | .new => "n" | .cancel => "c" | .update => "u"
  let root := match r.root with | none => "-" | some c => hexOf c
  joinWith ":" [hexOf r.id, ty, toString r.priority, root, optValStr r.selector, extsStr r.exts]

def rspStr (r : Response) : String :=
  joinWith ":" [hexOf r.id, toString r.status,
    "[" ++ joinWith ";" (r.metadata.map fun m => hexOf m.1 ++ "/" ++ hexOf m.2) ++ "]", extsStr r.exts]

def blkStr (b : Block) : String := hexOf b.cid ++ ":" ++ hexOf b.data

def nf (m : Msg) : String :=
  "req[" ++ joinWith " " (sortStrs (m.requests.map reqStr)) ++ "] rsp[" ++
  joinWith " " (sortStrs (m.responses.map rspStr)) ++ "] blk[" ++
  joinWith " " (sortStrs (m.blocks.map blkStr)) ++ "]"

/-! ### hash instance: identity and sha2-256 built in, everything else from `hash` hint lines -/

structure HashHint where
  code : Nat
  hint : Option Nat
  data : Bytes
  out  : Option Bytes

def hashWith (hints : List HashHint) : Hash := fun code hint data =>
  if code = 0 then some data
  else if code = 0x12 then
    match hint with
    | some h => if h > 32 then none else some (GS.Sha256.sha256 data)
    | none => some (GS.Sha256.sha256 data)
  else
    match hints.find? (fun h => h.code == code && h.hint == hint && h.data == data) with
    | some h => h.out
    | none => none

/-! ### ops -/

def partsStr (v : Option Val) : String :=
  match v with
  | some (.array xs) => "[" ++ joinWith "," (sortStrs (xs.map fun x => hexOf (encodeRaw x))) ++ "]"
  | _ => "[]"

/-- the `enc` output line, computed from the (sorted) value that is encoded -/
def encLine (v : Val) : String :=
  let sv := sortVal v
  let bytes := frame (encodeRaw sv)
  match sv with
  | .map [(_, .map kvs)] =>
    let rq := lookupKV Generated.Schema.msg_requests kvs
    let rs := lookupKV Generated.Schema.msg_responses kvs
    let bl := lookupKV Generated.Schema.msg_blocks kvs
    let len (o : Option Val) : Nat := match o with | some (.array xs) => xs.length | _ => 0
    let full := if len rq ≤ 1 ∧ len rs ≤ 1 ∧ len bl ≤ 1 then hexOf bytes else "-"
    s!"n={bytes.length} full={full} req={partsStr rq} rsp={partsStr rs} blk={partsStr bl}"
  | _ => "bad-shape"

def streamLine (hash : Hash) (bs : Bytes) : String :=
  let (ms, e) := decodeStream hash bs
  joinWith " | " (s!"{ms.length} {if e then "eof" else "err"}" :: ms.map nf)

def cidListStr (cs : List Bytes) : String := "[" ++ joinWith "," (sortStrs (cs.map hexOf)) ++ "]"

def parseCids : Nat → List String → Option (List Bytes)
  | 0, [] => some []
  | n + 1, c :: r => match parseHex c, parseCids n r with
    | some c, some cs => some (c :: cs)
    | _, _ => none
  | _, _ => none

def splitOn (ts : List String) : List (List String) :=
  let (cur, acc) := ts.foldl (fun (st : List String × List (List String)) t =>
    if t == ";" then ([], st.1.reverse :: st.2) else (t :: st.1, st.2)) ([], [])
  (cur.reverse :: acc).reverse

def rtLine (hints : List HashHint) (rest : List String) : List HashHint × String :=
  let hash := hashWith hints
  match parseMsg (rest.length + 1) rest {} with
  | some m =>
    -- a well-formed message must round-trip to `norm m` (the statement of C11.roundtrip);
    -- anything else: whatever decode . encode gives
    -- (the `#` line is a comment for humans: how often the theorem's hypothesis held)
    if wf hash m then (hints, "#wf 1\nok " ++ nf (norm m))
    else match encodeMsg m with
      | some bs => (match decodeMsg hash bs with
        | some m' => (hints, "#wf 0\nok " ++ nf m')
        | none => (hints, "#wf 0\nerr"))
      | none => (hints, "#wf 0\nerr")
  | none => (hints, "bad-op")

def stepLine (hints : List HashHint) (t : Toks) : List HashHint × String :=
  let hash := hashWith hints
  match t with
  | ["hash", code, hint, data, out] =>
    let hint? : Option (Option Nat) := if hint == "-1" then some none else hint.toNat?.map some
    let out? : Option (Option Bytes) := if out == "none" then some none else (parseHex out).map some
    match code.toNat?, hint?, parseHex data, out? with
    | some c, some h, some d, some o => (⟨c, h, d, o⟩ :: hints, "ok")
    | _, _, _, _ => (hints, "bad-op")
  | "enc" :: rest =>
    match parseMsg (rest.length + 1) rest {} with
    | some m =>
      match toIPLD m with
      | some b => match bmsgToVal b with
        | some v => (hints, encLine v)
        | none => (hints, "err")
      | none => (hints, "err")
    | none => (hints, "bad-op")
  | "streamrt" :: rest =>
    let descs := splitOn rest
    let bs := descs.map fun d => match parseMsg (d.length + 1) d {} with
      | some m => encodeMsg m
      | none => none
    match allSome bs with
    | some frames => (hints, streamLine hash frames.flatten)
    | none => (hints, "err")
  | "rtx" :: rest => rtLine hints rest
  | "rt" :: rest => rtLine hints rest
  | "rt0" :: rest =>
    match parseMsg (rest.length + 1) rest {} with
    | some m =>
      -- a well-formed message must round-trip to `norm m` (the statement of C11.roundtrip);
      -- anything else: whatever decode . encode gives
      if wf hash m then (hints, "ok " ++ nf (norm m))
      else match encodeMsg m with
        | some bs => (match decodeMsg hash bs with
          | some m' => (hints, "ok " ++ nf m')
          | none => (hints, "err"))
        | none => (hints, "err")
    | none => (hints, "bad-op")
  | ["dec", h] =>
    match parseHex h with
    | some bs => match decodeMsg hash bs with
      | some m => (hints, "ok " ++ nf m)
      | none => (hints, "err")
    | none => (hints, "bad-op")
  | ["decbad", h] =>
    match parseHex h with
    | some bs => match decodeMsg hash bs with
      | some m => (hints, "ok " ++ nf m)
      | none => (hints, "err")
    | none => (hints, "bad-op")
  | ["stall", _] => (hints, "served")
  | ["stream", h] =>
    match parseHex h with
    | some bs => (hints, streamLine hash bs)
    | none => (hints, "bad-op")
  | ["net", h] =>
    match parseHex h with
    | some bs => (hints, streamLine hash bs)
    | none => (hints, "bad-op")
  | ["cbor", h] =>
    match parseHex h with
    | some bs => match decodeBlock bs with
      | some v => (hints, "ok " ++ valStr v)
      | none => (hints, "err")
    | none => (hints, "bad-op")
  | "cborenc" :: rest =>
    match parseValAll rest with
    | some (v, []) => (hints, hexOf (encodeVal v))
    | _ => (hints, "bad-op")
  | "cidset" :: k :: rest =>
    match k.toNat? with
    | some k => match parseCids k rest with
      | some cs =>
        let v := encodeCidSet (dedup cs)   -- cid.Set.Add keeps one copy
        let enc := match v with | .array xs => cidListStr (xs.filterMap fun (x : Val) => match x with | Val.link c => some c | _ => none) | _ => "?"
        let dec := match decodeCidSet v with | some ds => cidListStr ds | none => "err"
        (hints, s!"enc={enc} dec={dec}")
      | none => (hints, "bad-op")
    | none => (hints, "bad-op")
  | "cidsetdec" :: rest =>
    match parseValAll rest with
    | some (v, []) => (hints, match decodeCidSet v with | some ds => "ok " ++ cidListStr ds | none => "err")
    | _ => (hints, "bad-op")
  | ["dedup", h] =>
    match parseHex h with
    | some k =>
      let v := encodeDedupKey k
      (hints, s!"enc={valStr v} dec={match decodeDedupKey v with | some s => hexOf s | none => "err"}")
    | none => (hints, "bad-op")
  | "dedupdec" :: rest =>
    match parseValAll rest with
    | some (v, []) => (hints, match decodeDedupKey v with | some s => "ok " ++ hexOf s | none => "err")
    | _ => (hints, "bad-op")
  | ["fb", n] =>
    match parseInt n with
    | some n =>
      let v := encodeFirstBlocks n
      (hints, s!"enc={valStr v} dec={match decodeFirstBlocks v with | some s => toString s | none => "err"}")
    | none => (hints, "bad-op")
  | "fbdec" :: rest =>
    match parseValAll rest with
    | some (v, []) => (hints, match decodeFirstBlocks v with | some s => "ok " ++ toString s | none => "err")
    | _ => (hints, "bad-op")
  | _ => (hints, "bad-op")

def handler (ops : List Toks) : List String :=
  let (_, outs) := ops.foldl (fun (acc : List HashHint × List String) t =>
    let (h', o) := stepLine acc.1 t
    (h', o :: acc.2)) ([], [])
  outs.reverse

end GS.Driver.WireCore
