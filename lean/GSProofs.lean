import GSProofs.C13
import GSProofs.C14
import GSProofs.C18
