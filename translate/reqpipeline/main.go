// Command reqpipeline regenerates lean/GS/Generated/ReqPipeline.lean (properties C09, C04) from
// requestmanager/*.go:
//
//   - the ordered list of stages that the handler of the "process responses" mailbox message runs
//     (found through the message type's handle method, not through its name), with the data flow
//     checked to be linear: every stage consumes the list produced by the previous list-producing
//     stage (initially the raw responses of the message);
//   - for the stage that runs the response hooks: whom the update / cancel messages are sent to;
//   - the decision structure of cancelOnError and of processTerminations;
//   - the field of the request table entry that holds the peer a request was sent to, and the fact
//     that the peer filter compares exactly that field with the sender of the message.
//
// Stages are recognised by the shape of the called method (templates below, see package gocanon),
// never by its name.  Anything not understood => exit 1.
//
// usage: go run ./reqpipeline <repo>
package main

import (
	"fmt"
	"go/ast"
	"go/token"
	"os"
	"path/filepath"
	"strings"

	"veriftranslate/gocanon"
)

const mgrType = "RequestManager"
const table = "inProgressRequestStatuses"

var p *gocanon.Pkg

// ---------------------------------------------------------------- templates (canonical bodies)

var tFilter = gocanon.Template(`{ l0 := make([]gsmsg.GraphSyncResponse, 0, len(a0))
	for _, l1 := range a0 { l2, l3 := rm.` + table + `[l1.RequestID()]
	if !l3 || «lhs» != «rhs» { continue }
	l0 = append(l0, l1) } return l0 }`)

var tDropForeign = gocanon.Template(`{ l0 := make([]gsmsg.GraphSyncResponse, 0, len(a0))
	for _, l1 := range a0 { l2, l3 := rm.` + table + `[l1.RequestID()]
	if l3 && «lhs» != «rhs» { continue }
	l0 = append(l0, l1) } return l0 }`)

var tExtLoop = gocanon.Template(`{ l0 := make([]gsmsg.GraphSyncResponse, 0, len(a0))
	for _, l1 := range a0 { l2 := rm.«per»(a1, l1) if l2 { l0 = append(l0, l1) } } return l0 }`)

var tExtOne = gocanon.Template(`{ l0 := rm.responseHooks.ProcessResponseHooks(«hookpeer», a1)
	if len(l0.Extensions) > 0 { l1 := gsmsg.NewUpdateRequest(a1.RequestID(), l0.Extensions...) rm.SendRequest(«updateto», l1) }
	if l0.Err != nil { l2, l3 := rm.` + table + `[a1.RequestID()] if !l3 { return false }
	rm.SendRequest(«cancelto», gsmsg.NewCancelRequest(a1.RequestID()))
	rm.«cancel»(a1.RequestID(), l2, l0.Err) return false } return true }`)

var tUpdateLast = gocanon.Template(`{ for _, l0 := range a0 { rm.` + table + `[l0.RequestID()].lastResponse.Store(l0) } }`)

var tTerminations = gocanon.Template(`{ for _, l0 := range a0 { if l0.Status().«isterminal»() {
	if l0.Status().«isfailure»() { rm.«cancel»(l0.RequestID(), rm.` + table + `[l0.RequestID()], l0.Status().AsError()) }
	l1, l2 := rm.` + table + `[l0.RequestID()]
	if l2 && l1.reconciledLoader != nil { l1.reconciledLoader.SetRemoteOnline(false) } } } }`)

var tCancelOnError = gocanon.Template(`{ if a1.terminalError == nil { a1.terminalError = a2 }
	if a1.state != graphsync.«state» { rm.«terminate»(a0, a1) } else { a1.cancelFn() a1.reconciledLoader.SetRemoteOnline(false) } }`)

// the inline ingest loop of the entry function, printed from the original (un-renamed) AST:
// matched structurally in ingestLoop below.

// ---------------------------------------------------------------- helpers

func method(name string, at token.Pos) *ast.FuncDecl {
	fd := p.Method(mgrType, name)
	if fd == nil {
		p.Die(at, "method %s.%s not found", mgrType, name)
	}
	return fd
}

// ownerField: the field of the table entry struct that newRequest-like code initialises from a
// parameter of type peer.ID, in the composite literal that is then stored into the table.
func ownerField() (structName, field string) {
	var tableElem string
	st := p.Struct(mgrType)
	if st == nil {
		p.Die(token.NoPos, "struct %s not found", mgrType)
	}
	for _, f := range st.Fields.List {
		for _, n := range f.Names {
			if n.Name == table {
				mt, ok := f.Type.(*ast.MapType)
				if !ok {
					p.Die(f.Pos(), "%s is not a map", table)
				}
				if k := p.Src(mt.Key); k != "graphsync.RequestID" {
					p.Die(f.Pos(), "request table is keyed by %s, the model assumes graphsync.RequestID", k)
				}
				tableElem = strings.TrimPrefix(p.Src(mt.Value), "*")
			}
		}
	}
	if tableElem == "" {
		p.Die(st.Pos(), "field %s not found in %s", table, mgrType)
	}
	var fields []string
	for _, file := range p.Files {
		for _, d := range file.Decls {
			fd, ok := d.(*ast.FuncDecl)
			if !ok || fd.Body == nil {
				continue
			}
			_, peerParam := p.ParamOfType(fd, "peer.ID")
			if peerParam == nil {
				continue
			}
			ast.Inspect(fd.Body, func(n ast.Node) bool {
				cl, ok := n.(*ast.CompositeLit)
				if !ok || cl.Type == nil || p.Src(cl.Type) != tableElem {
					return true
				}
				for _, e := range cl.Elts {
					kv, ok := e.(*ast.KeyValueExpr)
					if !ok {
						continue
					}
					if id, ok := kv.Value.(*ast.Ident); ok && id.Obj == peerParam.Obj {
						fields = append(fields, p.Src(kv.Key))
					}
				}
				return true
			})
		}
	}
	if len(fields) != 1 {
		p.Die(token.NoPos, "cannot determine which field of %s holds the peer a request is sent to (candidates %v)", tableElem, fields)
	}
	// that field must be a peer.ID
	est := p.Struct(tableElem)
	ok := false
	if est != nil {
		for _, f := range est.Fields.List {
			for _, n := range f.Names {
				if n.Name == fields[0] && p.Src(f.Type) == "peer.ID" {
					ok = true
				}
			}
		}
	}
	if !ok {
		p.Die(token.NoPos, "field %s.%s is not a peer.ID", tableElem, fields[0])
	}
	return tableElem, fields[0]
}

// entryMethod: the method called by the handle() of the mailbox message type that carries a
// []GraphSyncResponse.
func entryMethod() *ast.FuncDecl {
	var msgType string
	p.Structs(func(name string, st *ast.StructType) {
		for _, f := range st.Fields.List {
			if strings.HasSuffix(p.Src(f.Type), ".GraphSyncResponse") && strings.HasPrefix(p.Src(f.Type), "[]") {
				if msgType != "" && msgType != name {
					p.Die(st.Pos(), "two message types carry responses: %s, %s", msgType, name)
				}
				msgType = name
			}
		}
	})
	if msgType == "" {
		p.Die(token.NoPos, "no mailbox message type with a []GraphSyncResponse field")
	}
	h := p.Method(msgType, "handle")
	if h == nil || len(h.Body.List) != 1 {
		p.Die(token.NoPos, "%s.handle: expected a single call", msgType)
	}
	es, ok := h.Body.List[0].(*ast.ExprStmt)
	if !ok {
		p.Die(h.Pos(), "%s.handle: expected a single call", msgType)
	}
	call, ok := es.X.(*ast.CallExpr)
	if !ok {
		p.Die(h.Pos(), "%s.handle: expected a single call", msgType)
	}
	sel, ok := call.Fun.(*ast.SelectorExpr)
	if !ok || len(call.Args) != 3 {
		p.Die(h.Pos(), "%s.handle: expected rm.<method>(peer, responses, blocks)", msgType)
	}
	return method(sel.Sel.Name, h.Pos())
}

type desc struct {
	stages                                  []string
	hookPeer, updateTo, cancelTo            string
	cancelState                             string
	isTerminal, isFailure                   string
	ownerStruct, owner                      string
	entry                                   string
	cancelName, terminateName               string
	filterLhs, filterRhs                    string
	dropLhs, dropRhs                        string
	names                                   map[string]string // stage -> Go method name (documentation only)
}

func target(expr, peerArg, field string, at token.Pos) string {
	switch {
	case expr == peerArg:
		return ".sender"
	case strings.HasSuffix(expr, "."+field) && strings.Count(expr, ".") == 1:
		return ".owner"
	}
	p.Die(at, "message target %q is neither the sender nor the table entry's peer field", expr)
	return ""
}

func classifyCancel(name string, d *desc, at token.Pos) {
	fd := method(name, at)
	m := gocanon.Match(tCancelOnError, p.Canon(fd))
	if m == nil {
		p.Die(fd.Pos(), "%s: body does not have the known shape of cancelOnError:\n  %s", name, p.Canon(fd))
	}
	if d.cancelName != "" && d.cancelName != name {
		p.Die(fd.Pos(), "two different cancel-on-error functions: %s, %s", d.cancelName, name)
	}
	d.cancelName = name
	d.cancelState = m["state"]
	t := method(m["terminate"], fd.Pos())
	tc := p.Canon(t)
	if !strings.Contains(tc, "delete(rm."+table+", a0)") || !strings.Contains(tc, "close(a1.inProgressErr)") {
		p.Die(t.Pos(), "%s: does not look like terminateRequest (no delete from the table / close of the error channel)", t.Name.Name)
	}
	d.terminateName = t.Name.Name
}

func main() {
	if len(os.Args) != 2 {
		fmt.Fprintln(os.Stderr, "usage: reqpipeline <repo>")
		os.Exit(2)
	}
	p = gocanon.Load("reqpipeline", filepath.Join(os.Args[1], "requestmanager"))
	d := &desc{names: map[string]string{}}
	d.ownerStruct, d.owner = ownerField()
	entry := entryMethod()
	d.entry = entry.Name.Name
	recv := gocanon.RecvObj(entry)
	_, peerParam := p.ParamOfType(entry, "peer.ID")
	_, respParam := p.ParamOfType(entry, "[]gsmsg.GraphSyncResponse")
	if peerParam == nil || respParam == nil {
		p.Die(entry.Pos(), "%s: expected parameters (peer.ID, []gsmsg.GraphSyncResponse, …)", d.entry)
	}
	cur := respParam.Obj // the list every next stage must consume
	isCur := func(e ast.Expr) bool { id, ok := e.(*ast.Ident); return ok && id.Obj == cur }
	isPeer := func(e ast.Expr) bool { id, ok := e.(*ast.Ident); return ok && id.Obj == peerParam.Obj }

	for _, st := range entry.Body.List {
		if gocanon.IsLogStmt(st) || !gocanon.MentionsRecv(st, recv, map[string]bool{"ctx": true}) {
			continue // touches neither the manager's state nor its collaborators
		}
		switch s := st.(type) {
		case *ast.AssignStmt: // v := rm.M(cur, p)
			if len(s.Lhs) != 1 || len(s.Rhs) != 1 {
				p.Die(s.Pos(), "unrecognised statement: %s", p.Src(s))
			}
			call, ok := s.Rhs[0].(*ast.CallExpr)
			if !ok {
				p.Die(s.Pos(), "unrecognised statement: %s", p.Src(s))
			}
			sel, ok := call.Fun.(*ast.SelectorExpr)
			if !ok || len(call.Args) != 2 {
				p.Die(s.Pos(), "unrecognised statement: %s", p.Src(s))
			}
			if x, ok := sel.X.(*ast.Ident); !ok || x.Obj != recv {
				p.Die(s.Pos(), "unrecognised statement: %s", p.Src(s))
			}
			if !isCur(call.Args[0]) {
				p.Die(s.Pos(), "non-linear data flow: %s does not consume the most recently produced response list", p.Src(s))
			}
			if !isPeer(call.Args[1]) {
				p.Die(s.Pos(), "%s: second argument is not the sender of the message", p.Src(s))
			}
			fd := method(sel.Sel.Name, s.Pos())
			c := p.Canon(fd)
			term := func(e string) string {
				switch e {
				case "l2." + d.owner:
					return ".entryPeer"
				case "a1":
					return ".sender"
				}
				p.Die(fd.Pos(), "%s compares %q: neither the entry's peer field %q nor the function's peer parameter", fd.Name.Name, e, d.owner)
				return ""
			}
			if m := gocanon.Match(tDropForeign, c); m != nil {
				if d.dropLhs != "" {
					p.Die(fd.Pos(), "two stages of the drop-foreign shape")
				}
				d.dropLhs, d.dropRhs = term(m["lhs"]), term(m["rhs"])
				d.stages = append(d.stages, ".dropForeignLive")
				d.names["dropForeignLive"] = fd.Name.Name
			} else if m := gocanon.Match(tFilter, c); m != nil {
				// operands of the comparison: the entry's peer field (l2.<owner>) or the filter's peer
				// parameter (a1); the terms go into the generated file, the model's filter is defined from them
				term := func(e string) string {
					switch e {
					case "l2." + d.owner:
						return ".entryPeer"
					case "a1":
						return ".sender"
					}
					p.Die(fd.Pos(), "%s compares %q: neither the entry's peer field %q nor the filter's peer parameter", fd.Name.Name, e, d.owner)
					return ""
				}
				d.filterLhs, d.filterRhs = term(m["lhs"]), term(m["rhs"])
				d.stages = append(d.stages, ".filterForPeer")
				d.names["filterForPeer"] = fd.Name.Name
			} else if m := gocanon.Match(tExtLoop, c); m != nil {
				one := method(m["per"], fd.Pos())
				m1 := gocanon.Match(tExtOne, p.Canon(one))
				if m1 == nil {
					p.Die(one.Pos(), "%s: body does not have the known shape of processExtensionsForResponse:\n  %s", one.Name.Name, p.Canon(one))
				}
				if m1["hookpeer"] != "a0" {
					p.Die(one.Pos(), "%s: response hooks are not called with the sender", one.Name.Name)
				}
				d.hookPeer = ".sender"
				d.updateTo = target(m1["updateto"], "a0", d.owner, one.Pos())
				d.cancelTo = target(m1["cancelto"], "a0", d.owner, one.Pos())
				classifyCancel(m1["cancel"], d, one.Pos())
				d.stages = append(d.stages, ".extensions")
				d.names["extensions"] = fd.Name.Name + " / " + one.Name.Name
			} else {
				p.Die(fd.Pos(), "%s: list-producing stage of unknown shape:\n  %s", fd.Name.Name, c)
			}
			lhs, ok := s.Lhs[0].(*ast.Ident)
			if !ok || lhs.Obj == nil {
				p.Die(s.Pos(), "unrecognised statement: %s", p.Src(s))
			}
			cur = lhs.Obj
		case *ast.ExprStmt: // rm.M(cur)
			call, ok := s.X.(*ast.CallExpr)
			if !ok {
				p.Die(s.Pos(), "unrecognised statement: %s", p.Src(s))
			}
			sel, ok := call.Fun.(*ast.SelectorExpr)
			if !ok || len(call.Args) != 1 {
				p.Die(s.Pos(), "unrecognised statement: %s", p.Src(s))
			}
			if x, ok := sel.X.(*ast.Ident); !ok || x.Obj != recv {
				p.Die(s.Pos(), "unrecognised statement: %s", p.Src(s))
			}
			if !isCur(call.Args[0]) {
				p.Die(s.Pos(), "non-linear data flow: %s does not consume the most recently produced response list", p.Src(s))
			}
			fd := method(sel.Sel.Name, s.Pos())
			c := p.Canon(fd)
			if gocanon.Match(tUpdateLast, c) != nil {
				d.stages = append(d.stages, ".updateLast")
				d.names["updateLast"] = fd.Name.Name
			} else if m := gocanon.Match(tTerminations, c); m != nil {
				d.isTerminal, d.isFailure = m["isterminal"], m["isfailure"]
				if d.isTerminal != "IsTerminal" || d.isFailure != "IsFailure" {
					p.Die(fd.Pos(), "%s: status predicates %s/%s instead of IsTerminal/IsFailure", fd.Name.Name, d.isTerminal, d.isFailure)
				}
				classifyCancel(m["cancel"], d, fd.Pos())
				d.stages = append(d.stages, ".terminations")
				d.names["terminations"] = fd.Name.Name
			} else {
				p.Die(fd.Pos(), "%s: stage of unknown shape:\n  %s", fd.Name.Name, c)
			}
		case *ast.RangeStmt: // the inline ingest loop
			if !isCur(s.X) {
				p.Die(s.Pos(), "non-linear data flow: loop does not range over the most recently produced response list")
			}
			ingestLoop(s, recv)
			d.stages = append(d.stages, ".ingest")
		default:
			p.Die(st.Pos(), "unrecognised statement using the manager: %s", p.Src(st))
		}
	}
	if d.cancelName == "" {
		p.Die(entry.Pos(), "no stage calls a cancel-on-error function")
	}
	if d.hookPeer == "" { // no response-hook stage at all: the descriptor is unused
		d.hookPeer, d.updateTo, d.cancelTo = ".sender", ".sender", ".owner"
	}
	if d.filterLhs == "" { // no filter stage at all: the term is unused
		d.filterLhs, d.filterRhs = ".entryPeer", ".sender"
	}
	if d.dropLhs == "" { // no drop-foreign stage: the term is unused
		d.dropLhs, d.dropRhs = ".entryPeer", ".sender"
	}
	if d.cancelState != "Running" {
		p.Die(entry.Pos(), "%s tests state %s, the model knows `!= graphsync.Running`", d.cancelName, d.cancelState)
	}
	emit(d)
}

// for _, r := range cur { l := rm.table[r.RequestID()].reconciledLoader; if l != nil { l.IngestResponse(r.Metadata(), <link>, <blkMap>) } }
func ingestLoop(s *ast.RangeStmt, recv *ast.Object) {
	v, ok := s.Value.(*ast.Ident)
	if !ok || len(s.Body.List) != 2 {
		p.Die(s.Pos(), "loop over the responses has an unknown shape: %s", p.Src(s))
	}
	as, ok := s.Body.List[0].(*ast.AssignStmt)
	if !ok || len(as.Lhs) != 1 || p.Src(as.Rhs[0]) != recv.Name+"."+table+"["+v.Name+".RequestID()].reconciledLoader" {
		p.Die(s.Pos(), "loop over the responses has an unknown shape: %s", p.Src(s))
	}
	l := p.Src(as.Lhs[0])
	ifs, ok := s.Body.List[1].(*ast.IfStmt)
	if !ok || ifs.Else != nil || ifs.Init != nil || p.Src(ifs.Cond) != l+" != nil" || len(ifs.Body.List) != 1 {
		p.Die(s.Pos(), "loop over the responses has an unknown shape: %s", p.Src(s))
	}
	body := p.Src(ifs.Body.List[0])
	if !strings.HasPrefix(body, l+".IngestResponse("+v.Name+".Metadata(), ") {
		p.Die(s.Pos(), "loop over the responses has an unknown shape: %s", p.Src(s))
	}
}

func emit(d *desc) {
	fmt.Printf(`/-
GENERATED by translate/reqpipeline from requestmanager/*.go -- do not edit; regenerated by every check.

entry point (called by the handle() of the message type carrying the responses): %s
stage functions: %s
cancel-on-error: %s   terminate: %s
table entry type %s, field holding the peer a request was sent to: %s
-/
import GS.Model.ReqMgrTypes
namespace GS.Generated.ReqPipeline
open GS.ReqMgr

/-- the calls of the response-processing entry point, in source order; every stage consumes the list
    produced by the previous list-producing stage (linear data flow, checked by the translator). -/
def stages : List StageOp := [%s]

/-- the comparison inside the peer filter, as written in the source: a response is dropped if its
    request is not in the table or lhs != rhs (sender = the peer argument the entry point passes on,
    entryPeer = field '%s' of the entry found under the response's request ID) -/
def filterCond : FilterCond := { lhs := %s, rhs := %s }

/-- the comparison inside the drop-foreign stage (if there is one): a response is dropped if its
    request IS in the table and lhs != rhs; a response whose request is not in the table passes -/
def dropCond : FilterCond := { lhs := %s, rhs := %s }

/-- who receives the messages sent by the response-hook stage -/
def extDesc : ExtDesc := { hookPeer := %s, updateTo := %s, cancelTo := %s }

/-- cancelOnError: keep the first terminal error; if the request is not Running terminate it now,
    otherwise cancel its context and take the loader offline. -/
def cancelDesc : CancelDesc := { keepFirstError := true, terminateUnlessRunning := true, runningCancelsCtx := true, runningSetsOffline := true }

/-- processTerminations: a terminal failure status cancels with the status' error; any terminal
    status takes the loader offline. -/
def termDesc : TermDesc := { failureCancels := true, terminalSetsOffline := true }

end GS.Generated.ReqPipeline
`, d.entry, fmtNames(d), d.cancelName, d.terminateName, d.ownerStruct, d.owner, strings.Join(d.stages, ", "), d.owner, d.filterLhs, d.filterRhs, d.dropLhs, d.dropRhs, d.hookPeer, d.updateTo, d.cancelTo)
}

func fmtNames(d *desc) string {
	var parts []string
	for _, k := range []string{"dropForeignLive", "filterForPeer", "extensions", "updateLast", "terminations"} {
		if v, ok := d.names[k]; ok {
			parts = append(parts, k+"="+v)
		}
	}
	return strings.Join(parts, "; ")
}
