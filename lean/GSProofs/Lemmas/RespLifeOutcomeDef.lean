import GSProofs.Lemmas.RespLifeAccMgr
/-!
Outcome accounting for the responder model (C05 "exactly one outcome").

For a request id `r` the potential `Pot r s` counts
  * the outcome events already logged (`done r _`, `canc r`),
  * every place of the state from which one more outcome event for `r` can still come:
    a terminal status on its way to the completed listeners (in a parked / blocked transaction, in a
    message builder, in a publisher queue), a response that is Queued or Paused, a newRequest parked
    before registration, a task worker that has not yet sent its final status, a FinishTask message
    that will pause or cancel the response.
`regs r s` counts the registrations (`Protect` calls with tag `r`).  The invariant is
`Pot r s ≤ regs r s`: every step that adds an outcome (or a source of one) takes it from another
source or from a new registration.
-/
namespace GS.RespLife

-- ------------------------------------------------------------------ events
def outEv (r : Id) : Event → Bool
  | .done id _ => id == r
  | .canc id => id == r
  | _ => false

def regEv (r : Id) : Event → Bool
  | .protect _ id => id == r
  | _ => false

def evW (r : Id) (l : List Event) : Nat := l.countP (outEv r)
def regs (r : Id) (s : State) : Nat := s.events.countP (regEv r)

-- ------------------------------------------------------------------ terminal statuses in transit
def termOp : TxOp → Bool
  | .status c => isTerminal c
  | _ => false

def termCount (ops : List TxOp) : Nat := ops.countP termOp

/-- the queued status of the entry is terminal (implied by the test `sentSteps` makes before it queues
    `emitDone`, see `entTerm_of_sent`) -/
def entTerm (e : Entry) : Bool := isTerminal (e.code.getD stPartial)

theorem entTerm_of_sent (e : Entry) (h : isTerminal (if e.inResp then e.code.getD stPartial else 0) = true) :
    entTerm e = true := by
  unfold entTerm
  split at h
  · exact h
  · exact absurd h (by decide)

def tokE (r : Id) (e : Entry) : Bool := e.id == r && entTerm e

def tokB (r : Id) : Option Builder → Nat
  | none => 0
  | some b => b.entries.countP (tokE r)

def doneStep (r : Id) : PStep → Bool
  | .emitDone id _ => id == r
  | _ => false

def tokQ (r : Id) (q : List PStep) : Nat := q.countP (doneStep r)

def mqW (r : Id) (q : PeerMQ) : Nat := tokB r q.inflight + tokB r q.next + tokQ r q.pubQ

def mqSum (r : Id) (l : List PeerMQ) : Nat := (l.map (mqW r)).sum

/-- the entries of a builder are kept sorted by id (`putEntry`) -/
def SortedB : Option Builder → Prop
  | none => True
  | some b => b.entries.Pairwise fun x y => x.id < y.id

def WFQ (q : PeerMQ) : Prop := SortedB q.inflight ∧ SortedB q.next

/-- message-queue records are keyed by peer, their builders are sorted -/
def MQN (s : State) : Prop := (s.mqs.map (·.peer)).Nodup ∧ ∀ q ∈ s.mqs, WFQ q

-- ------------------------------------------------------------------ workers
/-- an executor result after which FinishTask changes the response without a terminal status -/
def budErr : Option WErr → Nat
  | some .paused => 1
  | some .ctxCancel => 1
  | _ => 0

def phW : WPhase → Nat
  | .waitStart => 0
  | .started => 1
  | .atLoader => 1
  | .waitUpdates ops _ => 1 + termCount ops
  | .gotUpdates _ ops _ => 1 + termCount ops
  | .inHook ops _ => 1 + termCount ops
  | .blockedTx ops (.afterBlock _ _) _ => 1 + termCount ops
  | .blockedTx ops (.afterFinal e) _ => budErr e + termCount ops
  | .preFinish e => budErr e
  | .waitFinish => 0
  | .done => 0

def wkW (r : Id) (w : Worker) : Nat := if w.id == r then phW w.phase else 0

def wkSum (r : Id) (l : List Worker) : Nat := (l.map (wkW r)).sum

-- ------------------------------------------------------------------ mailbox
def msgW (r : Id) (ws : List Worker) : Msg → Nat
  | .finishTask w e => if (ws[w]?).all (·.id == r) then budErr e else 0
  | _ => 0

def mbSum (r : Id) (ws : List Worker) (mb : List Msg) : Nat := (mb.map (msgW r ws)).sum

-- ------------------------------------------------------------------ table and parked manager
def stW : RState → Nat
  | .queued => 1
  | .paused => 1
  | _ => 0

/-- the manager is parked inside processUpdate with the terminal status of an update-hook error:
    the status is counted in the park, the (still Paused) response is not -/
def parkErr (r : Id) : Option MgrPark → Bool
  | some pk => (match pk.cont with
    | .procUpdate id plan => id == r && plan == .err
    | _ => false)
  | none => false

def stOf (r : Id) (s : State) : Nat := ((entOf s r).map fun e => stW e.2.1).getD 0

def entW (r : Id) (s : State) : Nat := if parkErr r s.park then 0 else stOf r s

def contW (r : Id) : MgrCont → Nat
  | .newReq _ id cfg => if id == r && (cfg.hook.kind == .accept || cfg.hook.kind == .pause) then 1 else 0
  | _ => 0

def parkW (r : Id) : Option MgrPark → Nat
  | none => 0
  | some pk => (if pk.id == r then termCount pk.ops else 0) + contW r pk.cont

-- ------------------------------------------------------------------ the potential
def Pot (r : Id) (s : State) : Nat :=
  evW r s.events + entW r s + parkW r s.park + wkSum r s.workers + mbSum r s.workers s.mailbox + mqSum r s.mqs

/-- `Chg r s s' up down`: going from `s` to `s'` the potential of `r` rises by at most `up - down`
    and no registration is logged -/
def Chg (r : Id) (s s' : State) (up down : Nat) : Prop :=
  MQN s → (Pot r s' + down ≤ Pot r s + up ∧ regs r s' = regs r s ∧ MQN s')

theorem Chg.refl (r : Id) (s : State) : Chg r s s 0 0 := fun h => ⟨Nat.le_refl _, rfl, h⟩

theorem Chg.trans {r : Id} {a b c : State} {u1 d1 u2 d2 : Nat} (h1 : Chg r a b u1 d1) (h2 : Chg r b c u2 d2) :
    Chg r a c (u1 + u2) (d1 + d2) := by
  intro h
  obtain ⟨x1, y1, z1⟩ := h1 h
  obtain ⟨x2, y2, z2⟩ := h2 z1
  exact ⟨by omega, by omega, z2⟩

theorem Chg.weaken {r : Id} {a b : State} {u d u' d' : Nat} (h : Chg r a b u d) (hu : u + d' ≤ u' + d) :
    Chg r a b u' d' := by
  intro h0
  obtain ⟨x, y, z⟩ := h h0
  exact ⟨by omega, y, z⟩

/-- states that agree on everything the potential looks at -/
theorem Chg.of_eq {r : Id} {s s' : State} (he : s'.events = s.events) (ht : s'.table = s.table)
    (hp : s'.park = s.park) (hw : s'.workers = s.workers) (hm : s'.mailbox = s.mailbox) (hq : s'.mqs = s.mqs) :
    Chg r s s' 0 0 := by
  intro h0
  refine ⟨?_, ?_, ?_⟩
  · simp only [Pot, entW, stOf, entOf, lookup, he, ht, hp, hw, hm, hq]; omega
  · simp only [regs, he]
  · simpa only [MQN, hq] using h0

-- ------------------------------------------------------------------ status codes used by the model
theorem not_term_paused : isTerminal stPaused = false := by decide
theorem not_term_partial : isTerminal stPartial = false := by decide

end GS.RespLife
