import GSProofs.Lemmas.ReqLifeErr
import GSProofs.Lemmas.ReqLifeLive
import GS.Temporal
/-!
# C04 — Every request's result channels terminate with the right outcome

Property sentence (properties.jsonl): *Once the responder sends a terminal status for a request, or the
caller cancels it through its context or the cancel API, both channels returned for it are eventually
closed provided the caller keeps reading them, and nothing is delivered after they close.  Caller
cancellation yields a client-cancelled error and sends a cancel to the responder, and a responder failure
status yields a terminal error identifying that status.*

All theorems are about the transition system `GS.ReqLife.step` (lean/GS/Model/ReqLifecycle.lean) and hold
for EVERY reachable state, i.e. for all histories of environment inputs and all schedules of the
manager, worker, traverser and collector goroutines (`Reachable` = any finite sequence of actions from
`init`, with arbitrary traversal / loader outcomes as action parameters).

The two guards `releasePauseGuardChecksCtx` and `goOnlineChecksCtx` are GENERATED from the Go source;
the invariant (and with it every theorem below) is proved for the source in which both are present
(`repairs_present`, by `rfl` on the generated definitions).
-/
namespace GS.C04
open GS.ReqLife GS.Generated GS.Generated.StatusCodes

/-- the stage order of `terminateRequest` in the source satisfies the ordering constraints the model's
    `terminate` relies on (see `stagesOk`). -/
theorem terminate_stages_ok : stagesOk ReqLifecycleSpec.terminateStages = true := by decide

/-- both repairs of the pause/cancel defects are present in the source the model was generated from. -/
theorem repairs_present :
    ReqLifecycleSpec.releasePauseGuardChecksCtx = true ∧ ReqLifecycleSpec.goOnlineChecksCtx = true := ⟨rfl, rfl⟩

theorem reachable_inv {s : State} (h : Reachable s) : Inv s ∧ InvRet s ∧ InvErr s :=
  all_reachable repairs_present.1 repairs_present.2 h

/-! ## Safety 1: `close_once` -/

/-- **close_once.** *"nothing is delivered after they close"*: in every reachable state each of the two
    returned channels carries `close` at most once and, if it does, as its last event (so nothing is sent
    on it afterwards); and no goroutine ever sent on / closed an already closed internal channel
    (`inProgressChan`, `inProgressErr`), which in Go would be a panic. -/
theorem close_once {s : State} (h : Reachable s) :
    ClosedOnce s.retP ∧ ClosedOnce s.retE ∧ s.panicked = false := by
  obtain ⟨hi, hr, _⟩ := reachable_inv h
  refine ⟨?_, ?_, hi.p0⟩
  · by_cases hc : s.cp = .done
    · obtain ⟨pre, e, hp⟩ := hr.pDone hc; exact closedOnce_of_done e hp
    · exact closedOnce_of_open (hr.pOpen hc)
  · by_cases hc : s.ce = .done
    · obtain ⟨pre, e, hp⟩ := hr.eDone hc; exact closedOnce_of_done e hp
    · exact closedOnce_of_open (hr.eOpen hc)

/-- reading of `ClosedOnce`: whatever follows a `close` is empty. -/
theorem nothing_after_close {α : Type} {l pre post : List (ChanEv α)} (h : ClosedOnce l)
    (e : l = pre ++ [ChanEv.close] ++ post) : post = [] := by
  obtain ⟨h1, h2⟩ := h
  have hc : closes l = closes pre + 1 + closes post := by
    subst e; simp [closes, isCloseEv, List.countP_append, List.countP_cons]; omega
  have hpost : closes post = 0 := by omega
  obtain ⟨pre', e', _⟩ := h2 (by omega)
  cases hpo : post.getLast? with
  | none => exact List.getLast?_eq_none_iff.mp hpo
  | some x =>
    exfalso
    have hne : post ≠ [] := by intro hh; simp [hh] at hpo
    have h1' : l.getLast? = some x := by
      subst e; rw [List.getLast?_append, hpo]; rfl
    have h2' : l.getLast? = some ChanEv.close := by rw [e']; simp
    have hx : x = ChanEv.close := by rw [h1'] at h2'; exact Option.some.inj h2'
    have hmem : ChanEv.close ∈ post := by rw [← hx]; exact List.mem_of_getLast? hpo
    have : 0 < closes post := List.countP_pos_iff.mpr ⟨_, hmem, rfl⟩
    omega

/-- the collector closes a returned channel exactly when its goroutine ends. -/
theorem closed_iff_done {s : State} (h : Reachable s) :
    (s.cp = .done ↔ closes s.retP = 1) ∧ (s.ce = .done ↔ closes s.retE = 1) := by
  obtain ⟨_, hr, _⟩ := reachable_inv h
  constructor
  · constructor
    · intro hc; obtain ⟨pre, e, hp⟩ := hr.pDone hc
      rw [e]; simp [closes, isCloseEv, List.countP_append] at *; omega
    · intro hc; apply Classical.byContradiction; intro hn; have := hr.pOpen hn; omega
  · constructor
    · intro hc; obtain ⟨pre, e, hp⟩ := hr.eDone hc
      rw [e]; simp [closes, isCloseEv, List.countP_append] at *; omega
    · intro hc; apply Classical.byContradiction; intro hn; have := hr.eOpen hn; omega

/-! ## Safety 2: `cancel_outcome` -/

/-- **cancel_outcome (message), exact condition.**  *"sends a cancel to the responder"*: handling a cancel
    message (from `CancelRequest`: `api = true`, or from the collector's `cancelRequestAndClose` after the
    caller's context was cancelled: `api = false`) puts a cancel request for the request's own peer in the
    outbox **iff the manager still tracks the request** -- in every live state: queued (even if the
    request was never sent to the network), running, paused -- and never otherwise. -/
theorem cancel_message_iff_live (s : State) (api : Bool) :
    (handle s (.cancel api)).outbox =
      if s.reg = .live then s.outbox ++ [{ kind := .cancel, peer := s.peer }] else s.outbox := by
  simp only [handle, cancelLive, hookCancel, ingest, procTerminations, cancelOnError, terminate, finishTerminate]
  (repeat' split) <;> simp_all

/-- every message the requestor ever sends for this request goes to the request's own peer. -/
theorem outbox_own_peer {s : State} (h : Reachable s) : ∀ o ∈ s.outbox, o.peer = s.peer :=
  invOut_reachable h

/-- `CancelRequest` handled while the request is tracked and has no terminal error yet records
    `RequestClientCancelledErr` as its terminal error (first cause wins: `cancelOnError` keeps an earlier one). -/
theorem cancel_api_records_cc (s : State) (hl : s.reg = .live) :
    (handle s (.cancel true)).termErr = (if s.termErr.isNone then some Err.cc else s.termErr) := by
  simp only [handle, cancelLive, hookCancel, ingest, procTerminations, cancelOnError, terminate, finishTerminate]
  (repeat' split) <;> simp_all

/-- **cancel_outcome (API).**  *"Caller cancellation yields a client-cancelled error"*: if the request's
    terminal error is `RequestClientCancelledErr` (i.e. `CancelRequest` was the first cause, see
    `cancel_api_records_cc`), then once the error channel is closed a `RequestClientCancelledErr` has been
    delivered on it -- whatever the schedule, also if the caller's context was cancelled as well. -/
theorem cancel_outcome_api {s : State} (h : Reachable s) (ht : s.termErr = some Err.cc) (hc : s.ce = .done) :
    Err.cc ∈ sends s.retE := by
  obtain ⟨hi, _, he⟩ := reachable_inv h
  rcases hi.n3d hc with hg | hctx
  · have := he.gApi ht hg
    simp [ceBuf, ccPromise, hc] at this
    exact this
  · by_cases hg : s.reg = .gone
    · have := he.gApi ht hg
      simp [ceBuf, ccPromise, hc] at this
      exact this
    · exact he.d1 hc hg

/-- **cancel_outcome (context).**  If the caller's context is cancelled before the error collector has
    seen `inProgressErr` closed (`ctxWhileOpen`), a `RequestClientCancelledErr` has been delivered by the
    time the error channel is closed. -/
theorem cancel_outcome_ctx {s : State} (h : Reachable s) (ht : s.ctxWhileOpen = true) (hc : s.ce = .done) :
    Err.cc ∈ sends s.retE := by
  obtain ⟨_, _, he⟩ := reachable_inv h
  have := he.gCtx ht
  simp [ccPromise, hc] at this
  exact this

/-- any state produced by running a list of actions from a reachable state is reachable -/
theorem reachable_run {s s' : State} {acts : List Action} (h : Reachable s) (hr : run s acts = some s') :
    Reachable s' := by
  induction acts generalizing s with
  | nil => simp [run] at hr; subst hr; exact h
  | cons a as ih =>
    simp only [run] at hr
    cases hs : step s a with
    | none => simp [hs] at hr
    | some s1 => simp [hs] at hr; exact ih (Reachable.step h hs) hr

theorem reachable_of_trace {p e t : Nat} {acts : List Action} (h : (run (init p e t) acts).isSome = true) :
    Reachable ((run (init p e t) acts).get h) :=
  reachable_run (Reachable.init p e t) (Option.some_get h).symm

/-- the stronger sentence "cancellation ⇒ EXACTLY one client-cancelled error" is false of the code: when
    the error collector sees `inProgressErr` closed while it still buffers an error and the caller's
    context is done, it reports the cancellation, loops, and may report it a second time
    (responsecollector.go, the `!ok` branch followed by the `requestCtx.Done()` branch). -/
def ccTwiceTrace : List Action :=
  [.envNew, .mgr, .envResp 0 14 0 true, .mgr, .ceRecv, .envCtxCancel, .ceSeeClose, .ceDeliverCC, .ceSeeCtx,
   .ceDeliverCC]

theorem cancel_outcome_cc_twice_counterexample :
    ∃ s, Reachable s ∧ s.ce = .done ∧ (sends s.retE).count Err.cc = 2 :=
  ⟨_, reachable_of_trace (p := 0) (e := 10) (t := 10) (acts := ccTwiceTrace) (by decide), by decide, by decide⟩

/-- non-vacuity of `cancel_outcome_api` and `cancel_message_iff_live`: `CancelRequest` on a request that is
    still queued and was never sent to the network: the cancel message goes out nevertheless, the
    client-cancelled error is delivered, both channels close. -/
def cancelQueuedTrace : List Action :=
  [.envNew, .mgr, .wPop, .envCancelApi, .mgr, .ceRecv, .ceSeeClose, .ceDeliver, .ceExit, .cpSeeClose, .cpExit]

example : ((run (init 7 10 10) cancelQueuedTrace).map fun s =>
    (s.termErr, sends s.retE, s.outbox, bothClosed s, s.apiLog)) =
    some (some Err.cc, [Err.cc], [{ kind := .cancel, peer := 7 }], true, [ApiRes.cancelOk]) := by decide

/-- non-vacuity of `cancel_outcome_ctx`: context cancelled while the executor waits for the remote. -/
def cancelCtxTrace : List Action :=
  [.envNew, .mgr, .wPop, .wGet, .mgr, .xTop, .xWaitLocal, .xRead false 0 false, .xSendReq,
   .envCtxCancel, .ceSeeCtx, .ceDeliverCC, .cpSeeCtx, .cpSendCancel, .mgr, .xWaitLocal, .xRead false 0 false,
   .mgr, .cpSeeCloseP, .cpSeeCloseE, .cpCancelExit]

example : ((run (init 3 10 10) cancelCtxTrace).map fun s =>
    (s.ctxWhileOpen, sends s.retE, s.outbox, bothClosed s)) =
    some (true, [Err.cc], [{ kind := .req, peer := 3 }, { kind := .cancel, peer := 3 }], true) := by decide

/-! ## Safety 3: `failure_outcome` -/

/-- every failure status has an error (`AsError` never returns nil for it) -- over the generated tables. -/
theorem asError_of_failure : ∀ c ∈ failureCodes, (asError c).isSome = true := by decide

/-- *"identifying that status"*: distinct failure statuses have distinct errors. -/
theorem asError_identifies : ∀ a ∈ failureCodes, ∀ b ∈ failureCodes, asError a = asError b → a = b := by decide

theorem isFailure_mem {c : Nat} (h : isFailure c = true) : c ∈ failureCodes := by
  simpa [isFailure] using h

/-- a failure status is terminal and not a success (table facts used by `processTerminations`). -/
theorem failure_is_terminal : ∀ c ∈ failureCodes, isTerminal c = true ∧ isSuccess c = false := by decide

/-- **failure_outcome (recording).**  A failure status `c` from the request's own peer (response hook ok),
    processed while the request is tracked and has no terminal error yet, makes `asError c` -- the value of
    the generated `AsError` table -- the request's terminal error. -/
theorem cancelOnError_termErr (s : State) (e : Option Err) :
    (cancelOnError s e).termErr = if s.termErr.isNone then e else s.termErr := by
  simp only [cancelOnError, terminate, finishTerminate]
  (repeat' split) <;> simp_all

theorem failure_records_asError (s : State) (c items : Nat) (hl : s.reg = .live) (hf : isFailure c = true)
    (hn : s.termErr = none) :
    ∃ k, asError c = some k ∧ (handle s (.responses s.peer c items false)).termErr = some (Err.status k) := by
  have hs := asError_of_failure c (isFailure_mem hf)
  have ht := (failure_is_terminal c (isFailure_mem hf)).1
  obtain ⟨k, hk⟩ := Option.isSome_iff_exists.mp hs
  refine ⟨k, hk, ?_⟩
  have hl1 : (s.reg == .live) = true := by simpa using hl
  simp only [handle, cancelLive, hookCancel, ingest, procTerminations, hl1, beq_self_eq_true, Bool.and_self, Bool.and_false, Bool.false_eq_true, if_false, ite_self,
    Bool.not_true, ht, hf, if_true, hk, Option.map_some]
  (repeat' split) <;> simp [cancelOnError_termErr, hn]

/-- **failure_outcome (delivery, exactly once).**  In every reachable state in which the request's terminal
    error is the error of a failure status, that error has been delivered on the error channel AT MOST once;
    and once the error channel is closed it has been delivered EXACTLY once -- unless the caller also
    cancelled its context (then the collector may drop it in favour of the client-cancelled error). -/
theorem failure_outcome {s : State} (h : Reachable s) {k : ErrKind} (ht : s.termErr = some (Err.status k)) :
    (sends s.retE).count (Err.status k) ≤ 1 ∧
    (s.ce = .done → s.callerCtx = false → (sends s.retE).count (Err.status k) = 1) := by
  obtain ⟨hi, _, he⟩ := reachable_inv h
  have hle : (sends s.retE).count (Err.status k) ≤ (sends s.retE).countP isStatus := by
    rw [List.count_eq_countP]
    apply List.countP_mono_left
    intro x _ hx
    have : x = Err.status k := by simpa using hx
    subst this; rfl
  have hc1 : (sends s.retE).countP isStatus ≤ 1 := by
    by_cases hg : s.reg = .gone
    · have := he.e2 hg; omega
    · have := (he.e1 hg).2; omega
  refine ⟨by omega, ?_⟩
  intro hc hctx
  have hg : s.reg = .gone := by
    rcases hi.n3d hc with hg | hx
    · exact hg
    · simp [hctx] at hx
  have hm := he.e3 hg hctx _ ht
  simp [ceBuf, hc] at hm
  have : 0 < (sends s.retE).count (Err.status k) := List.count_pos_iff.mpr hm
  omega

/-- non-vacuity of `failure_outcome`: RequestFailedBusy (31) arrives while the executor waits for the
    remote; exactly one `RequestFailedBusyErr` is delivered, both channels close, no cancel message. -/
def failureTrace : List Action :=
  [.envNew, .mgr, .wPop, .wGet, .mgr, .xTop, .xWaitLocal, .xRead false 0 false, .xSendReq,
   .envResp 0 31 0 false, .mgr, .xWaitLocal, .xRead false 0 false, .mgr, .ceRecv,
   .ceSeeClose, .ceDeliver, .ceExit, .cpSeeClose, .cpExit]

example : ((run (init 0 10 10) failureTrace).map fun s => (s.termErr, sends s.retE, s.outbox, bothClosed s)) =
    some (some (Err.status .RequestFailedBusyErr), [Err.status .RequestFailedBusyErr],
      [{ kind := .req, peer := 0 }], true) := by decide

/-- when the caller's context is cancelled as well, the failure error can be lost (the hypothesis
    `callerCtx = false` of `failure_outcome` cannot be dropped). -/
def failureLostTrace : List Action :=
  [.envNew, .mgr, .envResp 0 31 0 false, .mgr, .ceRecv, .envCtxCancel, .ceSeeCtx, .ceDeliverCC]

theorem failure_outcome_ctx_counterexample :
    ∃ s, Reachable s ∧ s.termErr = some (Err.status .RequestFailedBusyErr) ∧ s.ce = .done ∧
      (sends s.retE).count (Err.status .RequestFailedBusyErr) = 0 :=
  ⟨_, reachable_of_trace (p := 0) (e := 10) (t := 10) (acts := failureLostTrace) (by decide), by decide, by decide,
    by decide⟩

/-! ## Liveness: `terminates`

*"Once the responder sends a terminal status for a request, or the caller cancels it through its context
or the cancel API, both channels returned for it are eventually closed provided the caller keeps reading
them."*

Executions are infinite sequences of states, each position a stutter or one action of `step`
(`GS.Temporal.Exec`).  Fairness (`GroupFair`): each PROCESS GROUP that stays enabled eventually takes a
step -- the manager loop, the worker/executor, the progress collector and the error collector (their
deliver actions are the caller reading the returned channels: "the caller keeps reading"), and two
explicit obligations of the environment without which the sentence is not meant:
`oblUnpause` (a request that is paused -- and not cancelled -- is eventually resumed by its user) and
`oblAnswer` (a responder that has sent a terminal status answers a request that is re-issued after a
pause with a terminal status again).  Environment inputs are never forced; there are finitely many of
them (`efuel`), and the traversal is finite (`tfuel`).

PARTIAL BY NATURE (stated in the manifest): this is a theorem about the model's interleaving semantics.
Fairness of the Go scheduler / of `select`, pre-emption inside a step the model treats as atomic, real
timers and a full mailbox are not modelled; on the real code the clause is checked by the harness'
quiescence watchdog on sampled schedules only. -/

/-- the variant used by the proof (executor phase, remaining traversal, queued remote items, buffered
    progress items and errors, mailbox, pending obligations, remaining inputs) strictly decreases with
    EVERY step, internal or environmental. -/
theorem variant_decreases {s s' : State} {a : Action} (h : step s a = some s') : V s' < V s :=
  var_step_lt h

/-- no deadlock: while the trigger holds and not both channels are closed, some internal action can move. -/
theorem no_deadlock {s : State} (h : Reachable s) (ht : Triggered s) (hq : bothClosed s = false) :
    ∃ a, a.fair = true ∧ (step s a).isSome = true :=
  progress (reachable_inv h).1 ht hq

/-- **terminates.**  On every execution from an initial state that is weakly fair for every process
    group: (terminal status sent by the request's own peer ∨ `CancelRequest` called ∨ caller context
    cancelled) leads to both returned channels closed. -/
theorem terminates (σ : Nat → State) (h0 : ∃ p e t, σ 0 = init p e t) (hex : GS.Temporal.Exec sys σ)
    (hfair : GroupFair σ) :
    GS.Temporal.LeadsTo σ Triggered (fun s => bothClosed s = true) := by
  intro i ht
  have hinv : Inv (σ i) := (reachable_inv (exec_reachable h0 hex i)).1
  exact GS.Temporal.leadsTo_of_variant (variantRule repairs_present.1 repairs_present.2) hex
    (wfAll_of_groupFair hex hfair) i ⟨hinv, ht⟩

/-- the liveness clause is FALSE without the first repair (fdbd2df): with the guard of releaseRequestTask
    being just `ok`, a request cancelled while its executor is stopping for a pause ends up Paused with its
    context cancelled -- a state in which (with the caller's obligations exhausted: cancelled requests are
    not resumed) nothing can move and the channels stay open.  The invariant conjunct `pz` excludes exactly
    that state; it is provable only for the repaired guard. -/
theorem paused_and_cancelled_unreachable {s : State} (h : Reachable s) (hl : s.reg = .live)
    (hc : s.ctxDone = true) (hm : s.mphase = .idle) : s.rstate = .running :=
  (reachable_inv h).1.pz hl hc hm

/-- likewise for the second repair (2477c67): a cancelled request never has its loader online, so its
    executor is never left waiting for the remote. -/
theorem cancelled_never_online {s : State} (h : Reachable s) (hl : s.reg = .live) (hc : s.ctxDone = true) :
    s.online = false :=
  (reachable_inv h).1.o1 hl hc

/-- non-vacuity of `terminates`: a concrete fair-looking prefix in which the trigger (terminal success
    status) holds from the 10th step on and both channels get closed. -/
def successTrace : List Action :=
  [.envNew, .mgr, .wPop, .wGet, .mgr, .xTop, .xWaitLocal, .xRead false 0 false, .xSendReq,
   .envResp 0 20 1 false, .mgr, .xWaitRemote true 2 false, .cpRecv, .cpRecv, .cpDeliver, .cpDeliver, .xHook .ok,
   .xTop, .mgr, .cpSeeClose, .cpExit, .ceSeeClose, .ceExit]

example : ((run (init 0 10 10) successTrace).map fun s => (s.termSent, bothClosed s, s.retP.length, sends s.retE)) =
    some (true, true, 3, []) := by decide

end GS.C04
