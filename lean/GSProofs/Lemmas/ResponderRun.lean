import GSProofs.Lemmas.ResponderTracker
/-!
Lemmas for C03, part 2: the `runTraversal` loop of an uninterrupted request over an uncorrupted
store performs exactly one `RecordLinkTraversal` + block operation per link of the DFS
`visitAll has todo`, in order (`thread`).
-/
namespace GS.C03L
open GS.LinkTrack GS.Responder

/-- one `sendResponse` transaction per visited link, threading the peer's link tracker. -/
def thread (r : Req) : PeerTracker → List (Cid × Bool) → PeerTracker × List Txn
  | p, [] => (p, [])
  | p, (c, b) :: es =>
    let res := p.traverse r c b
    let rest := thread r res.1 es
    (rest.1, [.block c b res.2.1 res.2.2] :: rest.2)

theorem visitAll_append (has : Cid → Bool) (a b : List LT) :
    visitAll has (a ++ b) = visitAll has a ++ visitAll has b := by
  induction a with
  | nil => simp [visitAll]
  | cons t ts ih => simp [visitAll, ih, List.append_assoc]

theorem sizeAll_append (a b : List LT) : sizeAll (a ++ b) = sizeAll a + sizeAll b := by
  induction a with
  | nil => simp [sizeAll]
  | cons t ts ih => simp [sizeAll, ih, Nat.add_assoc]

theorem thread_append (r : Req) (p : PeerTracker) (a b : List (Cid × Bool)) :
    thread r p (a ++ b) =
      ((thread r (thread r p a).1 b).1, (thread r p a).2 ++ (thread r (thread r p a).1 b).2) := by
  induction a generalizing p with
  | nil => simp [thread]
  | cons e es ih =>
    obtain ⟨c, bb⟩ := e
    simp only [List.cons_append, thread, ih, List.cons_append]

/-- the loop after the root has been answered. -/
theorem runTraversal_started (s : Store) (hs : s.corrupt = []) (r : Req) :
    ∀ (fuel : Nat) (p : PeerTracker) (todo : List LT) (nb loads hooks : Nat),
      sizeAll todo < fuel →
      (runTraversal s .never r fuel p
          { trav := { todo := todo, nBlocks := nb, started := true, err := none }, loads := loads, hooks := hooks }).1
        = (thread r p (visitAll s.has todo)).1 ∧
      (runTraversal s .never r fuel p
          { trav := { todo := todo, nBlocks := nb, started := true, err := none }, loads := loads, hooks := hooks }).2.2
        = ((thread r p (visitAll s.has todo)).2, .complete) := by
  intro fuel
  induction fuel with
  | zero => intro p todo nb loads hooks h; omega
  | succ fuel ih =>
    intro p todo nb loads hooks hsz
    cases todo with
    | nil => simp [runTraversal, visitAll, thread]
    | cons t rest =>
      obtain ⟨c, kids⟩ := t
      have hcor : s.isCorrupt c = false := by simp [Store.isCorrupt, hs]
      simp only [sizeAll, LT.size] at hsz
      by_cases hc : s.has c = true
      · simp only [runTraversal, Trav.answer, hc, hcor, visitAll, LT.visit, if_true, List.cons_append,
          thread]
        generalize (if (true && !s.isEmpty c) = true then hooks + 1 else hooks) = hk
        obtain ⟨h1, h2⟩ := ih (p.traverse r c true).1 (kids ++ rest) (nb + 1) (loads + 1) hk
          (by rw [sizeAll_append]; omega)
        simp [h1, h2, visitAll_append]
      · have hc' : s.has c = false := by simpa using hc
        obtain ⟨h1, h2⟩ := ih (p.traverse r c false).1 rest nb (loads + 1) hooks (by omega)
        simp only [runTraversal, Trav.answer, hc', visitAll, LT.visit]
        simp [h1, h2, thread]

/-- the whole loop of a fresh request: the root load first. -/
theorem runTraversal_root (s : Store) (hs : s.corrupt = []) (r : Req) (p : PeerTracker) (lt : LT) :
    (runTraversal s .never r (sizeAll [lt] + 1) p { trav := { todo := [lt] } }).1
      = (thread r p (lt.visit s.has)).1 ∧
    (runTraversal s .never r (sizeAll [lt] + 1) p { trav := { todo := [lt] } }).2.2
      = ((thread r p (lt.visit s.has)).2,
          match lt with | .node c _ => if s.has c then Exit.complete else Exit.firstBlock) := by
  obtain ⟨c, kids⟩ := lt
  have hcor : s.isCorrupt c = false := by simp [Store.isCorrupt, hs]
  have hf : sizeAll [LT.node c kids] + 1 = (sizeAll kids + 1) + 1 := by
    simp only [sizeAll, LT.size]; omega
  rw [hf]
  generalize hfu : sizeAll kids + 1 = f
  by_cases hc : s.has c = true
  · simp only [runTraversal, Trav.answer, hc, hcor, LT.visit, if_true, thread]
    generalize (if (true && !s.isEmpty c) = true then 0 + 1 else 0) = hk
    obtain ⟨h1, h2⟩ := runTraversal_started s hs r f (p.traverse r c true).1 (kids ++ []) (0 + 1) (0 + 1) hk
      (by rw [sizeAll_append]; simp [sizeAll]; omega)
    simp only [List.append_nil] at h1 h2
    simp [h1, h2]
  · have hc' : s.has c = false := by simpa using hc
    subst hfu
    simp [runTraversal, Trav.answer, hc', LT.visit, thread]

/-! ### the send decisions along a thread: `attach` -/

/-- the transactions of the links of a traversal, given their items; `i` = links sent before. -/
def mkTxns : Nat → List Item → List Txn
  | _, [] => []
  | i, it :: its => [.block it.cid it.present it.block (i + 1)] :: mkTxns (i + 1) its

theorem attach_congr (skip : Int) (ex ex' : Cid → Bool) (es : List (Cid × Bool)) :
    ∀ (i : Nat) (seen seen' : List Cid),
      (∀ c, (ex c || seen.contains c) = (ex' c || seen'.contains c)) →
      attach skip ex i seen es = attach skip ex' i seen' es := by
  induction es with
  | nil => intros; simp [attach]
  | cons e es ih =>
    intro i seen seen' h
    obtain ⟨c, pres⟩ := e
    simp only [attach]
    have hc := h c
    congr 1
    · congr 1
      have : (!ex c && !seen.contains c) = (!ex' c && !seen'.contains c) := by
        rw [← Bool.not_or, ← Bool.not_or, hc]
      simp only [Bool.and_assoc]
      rw [this]
    · apply ih
      intro c'
      cases pres with
      | false => simpa using h c'
      | true =>
        have := h c'
        simp only [if_true, List.contains_cons]
        by_cases hcc : c' = c
        · subst hcc; simp
        · have hne : (c' == c) = false := by simp [hcc]
          simp only [hne, Bool.false_or]
          exact h c'

theorem thread_txns (r : Req) (es : List (Cid × Bool)) :
    ∀ p : PeerTracker,
      (thread r p es).2
        = mkTxns (cnt p r) (attach (skipOf p r) (fun c => rcOf p r c != 0) (cnt p r) [] es) := by
  induction es with
  | nil => intro p; simp [thread, attach, mkTxns]
  | cons e es ih =>
    intro p
    obtain ⟨c, b⟩ := e
    simp only [thread, attach, mkTxns]
    rw [ih, traverse_cnt, traverse_skip, traverse_send, traverse_idx]
    congr 1
    · cases h : rcOf p r c == 0 <;> simp [bne, h]
    · congr 1
      apply attach_congr
      intro c'
      rw [traverse_rc]
      cases b with
      | false => simp
      | true =>
        by_cases hcc : c' = c
        · subst hcc; simp
        · have hne : (c' == c) = false := by simp [hcc]
          simp [hne, hcc]

theorem thread_miss (r : Req) (es : List (Cid × Bool)) :
    ∀ p : PeerTracker, missOf (thread r p es).1 r = (missOf p r || es.any (fun e => !e.2)) := by
  induction es with
  | nil => intro p; simp [thread]
  | cons e es ih =>
    intro p
    obtain ⟨c, b⟩ := e
    simp only [thread, ih, traverse_miss, List.any_cons, Bool.or_assoc]

end GS.C03L
