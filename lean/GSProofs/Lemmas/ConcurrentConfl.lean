import GS.Model.Concurrent
import GSProofs.Lemmas.ConcurrentNonint
/-!
Schedule independence for ONE request of the composed model: the responder's steps and the message
deliveries of a request commute whenever both can happen, so every schedule that is complete for the
request (responder finished, nothing in flight) ends in the same state.
-/
set_option linter.unusedSimpArgs false
namespace GS.C20
open GS.Loader GS.Requestor GS.LinkTrack GS.Concurrent GS.C03L

theorem set_set_same {α : Type} (l : List α) (i : Nat) (a b : α) : (l.set i a).set i b = l.set i b := by
  induction l generalizing i with
  | nil => rfl
  | cons x t ih =>
    cases i with
    | zero => rfl
    | succ n => simp [ih n]

theorem getD_set_self {α : Type} (l : List α) (i : Nat) (a d x : α) (h : l[i]? = some x) :
    (l.set i a).getD i d = a := by
  rw [List.getD_eq_getElem?_getD, getElem?_set_self, h]
  rfl

theorem step_rem (s : Sys) (a : Act) : (Concurrent.step s a).rem = s.rem := by
  cases a with
  | start j =>
    simp only [Concurrent.step]
    split
    · split
      · rfl
      · generalize reqStart _ _ _ = rq
        obtain ⟨r', ev⟩ := rq
        simp only
        split <;> simp
    · rfl
  | resp j =>
    simp only [Concurrent.step]
    split
    · split <;> rfl
    · rfl
  | deliver j =>
    simp only [Concurrent.step]
    split
    · generalize reqMsg _ _ _ = rq
      obtain ⟨r', ev⟩ := rq
      simp
    · rfl

def respOut (s : Sys) (i : Nat) (rr : RespRun) : Sys :=
  { s with tracker := (respStep s.tracker s.rem i rr).1, resp := setAt s.resp i (respStep s.tracker s.rem i rr).2.1,
           chan := setAt s.chan i ((s.chan.getD i []) ++ [(respStep s.tracker s.rem i rr).2.2]) }

theorem resp_eq (s : Sys) (i : Nat) (rr : RespRun) (h : s.resp[i]? = some rr) (ha : rr.active = true) :
    Concurrent.step s (.resp i) = respOut s i rr := by
  simp only [Concurrent.step, h, ha, Bool.not_true, Bool.false_eq_true, if_false]
  rfl

theorem resp_noop (s : Sys) (i : Nat) (h : ∀ rr, s.resp[i]? = some rr → rr.active = false) :
    Concurrent.step s (.resp i) = s := by
  simp only [Concurrent.step]
  cases hr : s.resp[i]? with
  | none => rfl
  | some rr => simp only [h rr hr, Bool.not_false, if_true]

def delivOut (s : Sys) (i : Nat) (r : Requestor.State) (w : Wire) (ws : List Wire) : Sys :=
  { putStore s i (reqMsg r (storeOf s i) w).1.L.store with
      reqs := setAt s.reqs i (reqMsg r (storeOf s i) w).1, chan := setAt s.chan i ws,
      evs := setAt s.evs i ((s.evs.getD i []) ++ (reqMsg r (storeOf s i) w).2) }

theorem deliver_eq (s : Sys) (i : Nat) (r : Requestor.State) (w : Wire) (ws : List Wire)
    (hr : s.reqs[i]? = some r) (hc : s.chan[i]? = some (w :: ws)) :
    Concurrent.step s (.deliver i) = delivOut s i r w ws := by
  simp only [Concurrent.step, hr, hc]
  rfl

theorem deliver_noop_req (s : Sys) (i : Nat) (hr : s.reqs[i]? = none) : Concurrent.step s (.deliver i) = s := by
  simp only [Concurrent.step, hr]

theorem deliver_noop_chan (s : Sys) (i : Nat) (hc : s.chan.getD i [] = []) : Concurrent.step s (.deliver i) = s := by
  simp only [Concurrent.step]
  rw [List.getD_eq_getElem?_getD] at hc
  cases hr : s.reqs[i]? with
  | none => rfl
  | some r =>
    cases hcc : s.chan[i]? with
    | none => rfl
    | some c =>
      rw [hcc] at hc
      simp only [Option.getD_some] at hc
      subst hc
      rfl

theorem resp_deliver_comm (s : Sys) (i : Nat) (w : Wire) (ws : List Wire) (hc : s.chan[i]? = some (w :: ws)) :
    Concurrent.step (Concurrent.step s (.resp i)) (.deliver i)
      = Concurrent.step (Concurrent.step s (.deliver i)) (.resp i) := by
  have hD : ∀ x : Sys, (Concurrent.step x (.deliver i)).resp = x.resp ∧
      (Concurrent.step x (.deliver i)).tracker = x.tracker ∧ (Concurrent.step x (.deliver i)).rem = x.rem := by
    intro x
    obtain ⟨_, _, h⟩ := step_shape x (.deliver i)
    have hrem := step_rem x (.deliver i)
    rcases h with ⟨h1, h2⟩ | ⟨j, n, lt, hj, _⟩ | ⟨j, rr, hj, _⟩
    · exact ⟨h2, h1, hrem⟩
    · cases hj
    · cases hj
  by_cases hact : ∀ rr, s.resp[i]? = some rr → rr.active = false
  · rw [resp_noop s i hact]
    rw [resp_noop _ i (by rw [(hD s).1]; exact hact)]
  · have : ∃ rr, s.resp[i]? = some rr ∧ rr.active = true := by
      apply Classical.byContradiction
      intro hn
      apply hact
      intro rr hrr
      cases ha : rr.active with
      | false => rfl
      | true => exact absurd ⟨rr, hrr, ha⟩ hn
    obtain ⟨rr, hrr, ha⟩ := this
    rw [resp_eq s i rr hrr ha]
    rw [resp_eq _ i rr (by rw [(hD s).1]; exact hrr) ha]
    cases hr : s.reqs[i]? with
    | none =>
      rw [deliver_noop_req s i hr, deliver_noop_req _ i (by exact hr)]
    | some r =>
      have hc' : (respOut s i rr).chan[i]? = some (w :: (ws ++ [(respStep s.tracker s.rem i rr).2.2])) := by
        simp only [respOut, setAt, getElem?_set_self, hc, Option.map_some, List.getD_eq_getElem?_getD,
          Option.getD_some, List.cons_append]
      rw [deliver_eq s i r w ws hr hc, deliver_eq (respOut s i rr) i r w _ (by exact hr) hc']
      have hg : (s.chan.set i ws)[i]?.getD [] = ws := by
        have := getD_set_self s.chan i ws [] _ hc
        rwa [List.getD_eq_getElem?_getD] at this
      unfold delivOut respOut
      simp only [putStore, storeOf]
      cases ho : s.own.getD i none with
      | none => simp [ho, setAt, set_set_same, hg]
      | some x => simp [ho, setAt, set_set_same, hg]

/-! ### normal form of a one-request schedule -/

def Rn (i : Nat) : Nat → Sys → Sys
  | 0, x => x
  | a + 1, x => Concurrent.step (Rn i a x) (.resp i)

def Dn (i : Nat) : Nat → Sys → Sys
  | 0, x => x
  | b + 1, x => Concurrent.step (Dn i b x) (.deliver i)

/-- a message of request `i` is in flight -/
def NE (i : Nat) (y : Sys) : Prop := ∃ w ws, y.chan[i]? = some (w :: ws)

/-- the first `b` deliveries from `z` all find a message -/
def Den (i : Nat) (b : Nat) (z : Sys) : Prop := ∀ b', b' < b → NE i (Dn i b' z)

theorem ne_or_empty (i : Nat) (y : Sys) : NE i y ∨ y.chan.getD i [] = [] := by
  rw [List.getD_eq_getElem?_getD]
  cases h : y.chan[i]? with
  | none => right; rfl
  | some c =>
    cases c with
    | nil => right; rfl
    | cons w ws => left; exact ⟨w, ws, h⟩

theorem resp_keeps_NE (i : Nat) (y : Sys) (h : NE i y) : NE i (Concurrent.step y (.resp i)) := by
  obtain ⟨w, ws, hc⟩ := h
  by_cases hact : ∀ rr, y.resp[i]? = some rr → rr.active = false
  · rw [resp_noop y i hact]; exact ⟨w, ws, hc⟩
  · have : ∃ rr, y.resp[i]? = some rr ∧ rr.active = true := by
      apply Classical.byContradiction
      intro hn
      apply hact
      intro rr hrr
      cases ha : rr.active with
      | false => rfl
      | true => exact absurd ⟨rr, hrr, ha⟩ hn
    obtain ⟨rr, hrr, ha⟩ := this
    rw [resp_eq y i rr hrr ha]
    refine ⟨w, ws ++ [(respStep y.tracker y.rem i rr).2.2], ?_⟩
    simp only [respOut, setAt, getElem?_set_self, hc, Option.map_some, List.getD_eq_getElem?_getD,
      Option.getD_some, List.cons_append]

theorem Den_mono (i b b' : Nat) (z : Sys) (h : Den i b z) (hb : b' ≤ b) : Den i b' z :=
  fun c hc => h c (Nat.lt_of_lt_of_le hc hb)

theorem Dn_resp (i : Nat) (b : Nat) (z : Sys) (h : Den i b z) :
    Dn i b (Concurrent.step z (.resp i)) = Concurrent.step (Dn i b z) (.resp i) := by
  induction b with
  | zero => rfl
  | succ b ih =>
    have hb := ih (Den_mono i (b + 1) b z h (Nat.le_succ b))
    obtain ⟨w, ws, hc⟩ := h b (Nat.lt_succ_self b)
    show Concurrent.step (Dn i b (Concurrent.step z (.resp i))) (.deliver i) = _
    rw [hb]
    exact resp_deliver_comm (Dn i b z) i w ws hc

theorem Den_resp (i : Nat) (b : Nat) (z : Sys) (h : Den i b z) : Den i b (Concurrent.step z (.resp i)) := by
  intro b' hb'
  rw [Dn_resp i b' z (Den_mono i b b' z h (Nat.le_of_lt hb'))]
  exact resp_keeps_NE i _ (h b' hb')

/-- the state is reached by `a` responder steps followed by `b` deliveries that each find a message -/
def NF (i : Nat) (x y : Sys) : Prop := ∃ a b, Den i b (Rn i a x) ∧ y = Dn i b (Rn i a x)

theorem NF_step (i : Nat) (x y : Sys) (act : Act) (hact : act = .resp i ∨ act = .deliver i) (h : NF i x y) :
    NF i x (Concurrent.step y act) := by
  obtain ⟨a, b, hden, hy⟩ := h
  rcases hact with rfl | rfl
  · refine ⟨a + 1, b, Den_resp i b _ hden, ?_⟩
    rw [hy]
    exact (Dn_resp i b _ hden).symm
  · rcases ne_or_empty i y with hne | hem
    · refine ⟨a, b + 1, ?_, by rw [hy]; rfl⟩
      intro b' hb'
      by_cases hbb : b' < b
      · exact hden b' hbb
      · have : b' = b := by omega
        subst this
        rw [← hy]; exact hne
    · rw [deliver_noop_chan y i hem]
      exact ⟨a, b, hden, hy⟩

theorem NF_run (i : Nat) (x : Sys) (σ : List Act) (hσ : ∀ act ∈ σ, act = .resp i ∨ act = .deliver i) (y : Sys)
    (h : NF i x y) : NF i x (Concurrent.run y σ) := by
  induction σ generalizing y with
  | nil => exact h
  | cons act rest ih =>
    exact ih (fun a ha => hσ a (List.mem_cons_of_mem _ ha)) _
      (NF_step i x y act (hσ act List.mem_cons_self) h)

/-- nothing is left to do for request `i`: the responder has finished it and no message is in flight -/
def Complete (i : Nat) (y : Sys) : Prop :=
  (∀ rr, y.resp[i]? = some rr → rr.active = false) ∧ y.chan.getD i [] = []

theorem Dn_resp_field (i b : Nat) (z : Sys) : (Dn i b z).resp = z.resp := by
  induction b with
  | zero => rfl
  | succ b ih =>
    show (Concurrent.step (Dn i b z) (.deliver i)).resp = _
    obtain ⟨_, _, h⟩ := step_shape (Dn i b z) (.deliver i)
    rcases h with ⟨_, h2⟩ | ⟨j, n, lt, hj, _⟩ | ⟨j, rr, hj, _⟩
    · rw [h2, ih]
    · cases hj
    · cases hj

theorem Rn_done (i a c : Nat) (x : Sys) (h : ∀ rr, (Rn i a x).resp[i]? = some rr → rr.active = false) :
    Rn i (a + c) x = Rn i a x := by
  induction c with
  | zero => rfl
  | succ c ih =>
    show Concurrent.step (Rn i (a + c) x) (.resp i) = _
    rw [ih]
    exact resp_noop _ i h

theorem Dn_done (i b c : Nat) (z : Sys) (h : (Dn i b z).chan.getD i [] = []) : Dn i (b + c) z = Dn i b z := by
  induction c with
  | zero => rfl
  | succ c ih =>
    show Concurrent.step (Dn i (b + c) z) (.deliver i) = _
    rw [ih]
    exact deliver_noop_chan _ i h

/-- **two complete schedules of one request end in the same state** -/
theorem complete_unique (i : Nat) (x y y' : Sys) (h : NF i x y) (h' : NF i x y')
    (c : Complete i y) (c' : Complete i y') : y = y' := by
  obtain ⟨a, b, _, hy⟩ := h
  obtain ⟨a', b', _, hy'⟩ := h'
  have hz : Rn i a x = Rn i a' x := by
    have d : ∀ rr, (Rn i a x).resp[i]? = some rr → rr.active = false := by
      have := c.1; rw [hy, Dn_resp_field] at this; exact this
    have d' : ∀ rr, (Rn i a' x).resp[i]? = some rr → rr.active = false := by
      have := c'.1; rw [hy', Dn_resp_field] at this; exact this
    rcases Nat.le_total a a' with hle | hle
    · obtain ⟨e, rfl⟩ := Nat.exists_eq_add_of_le hle
      exact (Rn_done i a e x d).symm
    · obtain ⟨e, rfl⟩ := Nat.exists_eq_add_of_le hle
      exact Rn_done i a' e x d'
  rw [← hz] at hy'
  have e : (Dn i b (Rn i a x)).chan.getD i [] = [] := by rw [← hy]; exact c.2
  have e' : (Dn i b' (Rn i a x)).chan.getD i [] = [] := by rw [← hy']; exact c'.2
  rw [hy, hy']
  rcases Nat.le_total b b' with hle | hle
  · obtain ⟨f, rfl⟩ := Nat.exists_eq_add_of_le hle
    exact (Dn_done i b f _ e).symm
  · obtain ⟨f, rfl⟩ := Nat.exists_eq_add_of_le hle
    exact Dn_done i b' f _ e'

/-- from any state, two schedules of responder steps and deliveries of request `i` that are both
    complete end in the same state -/
theorem run_confluent (i : Nat) (x : Sys) (σ τ : List Act)
    (hσ : ∀ act ∈ σ, act = .resp i ∨ act = .deliver i) (hτ : ∀ act ∈ τ, act = .resp i ∨ act = .deliver i)
    (c : Complete i (Concurrent.run x σ)) (c' : Complete i (Concurrent.run x τ)) :
    Concurrent.run x σ = Concurrent.run x τ :=
  complete_unique i x _ _ (NF_run i x σ hσ x ⟨0, 0, fun _ h => absurd h (Nat.not_lt_zero _), rfl⟩)
    (NF_run i x τ hτ x ⟨0, 0, fun _ h => absurd h (Nat.not_lt_zero _), rfl⟩) c c'

end GS.C20
