// Package ptq drives the real github.com/ipfs/go-peertaskqueue (component "ptq", property C21):
// differential test of the Lean model GS.TQ.PTQ against the library graphsync builds its work
// queues on, plus an independent oracle for the per-peer outstanding-work cap.
package ptq

import (
	"bufio"
	"fmt"
	"math/rand"
	"sort"
	"strconv"
	"strings"

	"github.com/ipfs/go-peertaskqueue"
	"github.com/ipfs/go-peertaskqueue/peertask"
	"github.com/libp2p/go-libp2p/core/peer"

	"verifharness/reg"
)

func init() {
	reg.Register(&reg.Component{Name: "ptq", Gen: Gen, Run: Run})
}

// ---------------------------------------------------------------- generator

// genCase writes one op script.  ThawRound ranges over a Go map: when two or more peers are
// frozen the order of the heap fixes (and with it the tie-break of later pops) is not
// determined, so the generator keeps an upper bound of every peer's freeze value and
//   - freezes (remove) a second peer only in "terminal multi-freeze mode", after which no thaw
//     is emitted any more.
func genCase(r *rand.Rand, w *bufio.Writer, id string) {
	caps := []int{0, 0, 1, 1, 2, 3}
	cp := caps[r.Intn(len(caps))]
	ign := 0
	if r.Intn(8) == 0 {
		ign = 1
	}
	fmt.Fprintf(w, "case %s\ncfg %d %d\n", id, cp, ign)
	npeers := 1 + r.Intn(4)
	ntopics := 1 + r.Intn(5)
	nops := 3 + r.Intn(45)
	fz := make([]int, npeers)
	multiOK := r.Intn(4) == 0
	noThaw := false
	npop := 0
	for i := 0; i < nops; i++ {
		p := r.Intn(npeers)
		k := r.Intn(100)
		switch {
		case k < 38:
			prio := []int{0, 0, 1, 1, 2, 5, -1, 2147483647}[r.Intn(8)]
			work := []int{1, 1, 1, 1, 2, 3, 0}[r.Intn(7)]
			fmt.Fprintf(w, "push %d %d %d %d\n", p, r.Intn(ntopics), prio, work)
		case k < 66:
			t := 1
			if r.Intn(5) == 0 {
				t = r.Intn(4)
			}
			fmt.Fprintf(w, "pop %d\n", t)
			npop++
		case k < 84:
			q := p
			if r.Intn(6) == 0 {
				q = r.Intn(npeers) // sometimes the wrong peer for that task
			}
			fmt.Fprintf(w, "done %d %d\n", q, r.Intn(npop+1))
		case k < 91:
			others := false
			for j, f := range fz {
				if j != p && f > 0 {
					others = true
				}
			}
			if ign == 0 && others {
				if !multiOK {
					fmt.Fprintf(w, "topics %d\n", p)
					continue
				}
				noThaw = true
			}
			fmt.Fprintf(w, "remove %d %d\n", p, r.Intn(ntopics))
			if ign == 0 {
				fz[p]++
			}
		case k < 96:
			if noThaw {
				fmt.Fprintf(w, "topics %d\n", p)
				continue
			}
			fmt.Fprintf(w, "thaw\n")
			for j := range fz {
				fz[j] /= 2
			}
		default:
			fmt.Fprintf(w, "topics %d\n", p)
		}
	}
}

func Gen(seed int64, n int, tier string, w *bufio.Writer) {
	r := rand.New(rand.NewSource(seed))
	for i := 0; i < n; i++ {
		genCase(r, w, fmt.Sprintf("r%d", i))
	}
	if tier == "thorough" {
		// every script of length <= 5 over a small alphabet, two configurations
		alphabet := []string{
			"push 0 0 0 1", "push 0 1 1 1", "push 1 0 0 1", "push 1 1 0 2", "push 2 0 5 1",
			"pop 1", "pop 2", "done 0 0", "done 1 1", "done 2 2", "remove 0 1", "thaw",
		}
		k := 0
		var rec func(prefix []string, depth int)
		rec = func(prefix []string, depth int) {
			if len(prefix) > 0 {
				for _, c := range []string{"cfg 0 0", "cfg 1 0"} {
					fmt.Fprintf(w, "case x%d\n%s\n%s\n", k, c, strings.Join(prefix, "\n"))
					k++
				}
			}
			if depth == 0 {
				return
			}
			for _, a := range alphabet {
				rec(append(append([]string{}, prefix...), a), depth-1)
			}
		}
		rec(nil, 4)
	}
}

// ---------------------------------------------------------------- run + oracle

func pid(i int) peer.ID { return peer.ID(fmt.Sprintf("peer%d", i)) }

func pnum(p peer.ID) string {
	s := string(p)
	if strings.HasPrefix(s, "peer") {
		return s[4:]
	}
	return "?"
}

type popped struct {
	peer int
	task *peertask.Task
	done bool
}

func Run(cases []reg.Case, out *reg.Out) {
	for _, c := range cases {
		out.BeginCase(c)
		runCase(c, out)
	}
}

func topicList(ts []peertask.Topic) string {
	xs := make([]int, 0, len(ts))
	for _, t := range ts {
		xs = append(xs, t.(int))
	}
	sort.Ints(xs)
	ss := make([]string, len(xs))
	for i, x := range xs {
		ss[i] = strconv.Itoa(x)
	}
	return strings.Join(ss, ",")
}

func runCase(c reg.Case, out *reg.Out) {
	var q *peertaskqueue.PeerTaskQueue
	cp := 0
	nextUID := 0
	var pops []*popped
	sawRemove := false
	// oracle ledger (independent of the model): outstanding work per peer = work of tasks handed
	// out by PopTasks and not yet reported done for that peer; queued topics per peer.
	outstanding := map[int]int{}
	queued := map[int]map[int]bool{}
	suffix := func() string {
		st := q.Stats()
		return fmt.Sprintf(" st=%d/%d/%d", st.NumPeers, st.NumActive, st.NumPending)
	}
	for _, op := range c.Ops {
		out.Cov("op." + op[0])
		if op[0] == "cfg" && len(op) == 3 {
			cp, _ = strconv.Atoi(op[1])
			ign, _ := strconv.Atoi(op[2])
			var opts []peertaskqueue.Option
			if cp > 0 {
				opts = append(opts, peertaskqueue.MaxOutstandingWorkPerPeer(cp))
			}
			if ign != 0 {
				opts = append(opts, peertaskqueue.IgnoreFreezing(true))
			}
			q = peertaskqueue.New(opts...)
			nextUID, pops, sawRemove = 0, nil, false
			outstanding, queued = map[int]int{}, map[int]map[int]bool{}
			out.Line("ok" + suffix())
			continue
		}
		if q == nil {
			q = peertaskqueue.New()
		}
		atoi := func(i int) int {
			if i >= len(op) {
				return 0
			}
			v, _ := strconv.Atoi(op[i])
			return v
		}
		switch op[0] {
		case "push":
			if len(op) != 5 {
				out.Line("bad-op")
				continue
			}
			p, topic, prio, work := atoi(1), atoi(2), atoi(3), atoi(4)
			q.PushTasks(pid(p), peertask.Task{Topic: topic, Priority: prio, Work: work, Data: nextUID})
			nextUID++
			if queued[p] == nil {
				queued[p] = map[int]bool{}
			}
			queued[p][topic] = true // (may be dropped when the topic is active; only used as an upper bound)
			out.Line("ok" + suffix())
		case "pop":
			if len(op) != 2 {
				out.Line("bad-op")
				continue
			}
			target := atoi(1)
			st0 := q.Stats()
			who, tasks, pw := q.PopTasks(target)
			ps := "-"
			if who != "" {
				ps = pnum(who)
			}
			var ts []string
			pi, _ := strconv.Atoi(ps)
			for _, t := range tasks {
				ts = append(ts, fmt.Sprintf("%d:%d:%d:%d", t.Data.(int), t.Topic.(int), t.Priority, t.Work))
				// ---- oracle: the per-peer cap is checked before each task is started
				if cp > 0 && outstanding[pi] >= cp {
					out.Fail("cap-exceeded", "peer %d already has %d outstanding work (cap %d) and PopTasks started another task", pi, outstanding[pi], cp)
				}
				outstanding[pi] += t.Work
				pops = append(pops, &popped{peer: pi, task: t})
				delete(queued[pi], t.Topic.(int))
			}
			if len(tasks) > 0 {
				out.Cov("pop.tasks")
				if len(tasks) > 1 {
					out.Cov("pop.multi")
				}
			} else {
				out.Cov("pop.empty")
				// ---- oracle: an empty pop while a never-frozen peer below its cap has queued work
				if target > 0 && st0.NumPending > 0 && !sawRemove {
					blocked := true
					for p := range queued {
						tp := q.PeerTopics(pid(p))
						if tp != nil && len(tp.Pending) > 0 && (cp == 0 || outstanding[p] < cp) {
							blocked = false
						}
					}
					if !blocked {
						out.Fail("pop-empty-with-eligible", "PopTasks(%d) returned nothing although an unfrozen peer below its cap has pending tasks", target)
					} else {
						out.Cov("pop.empty.capped")
					}
				}
			}
			out.Line("pop p=%s t=%s pw=%d%s", ps, strings.Join(ts, ";"), pw, suffix())
		case "done":
			if len(op) != 3 {
				out.Line("bad-op")
				continue
			}
			p, k := atoi(1), atoi(2)
			if len(pops) > 0 {
				x := pops[k%len(pops)]
				q.TasksDone(pid(p), x.task)
				if x.peer == p && !x.done {
					x.done = true
					outstanding[p] -= x.task.Work
					out.Cov("done.effective")
				} else {
					out.Cov("done.noop")
				}
			}
			out.Line("ok" + suffix())
		case "remove":
			if len(op) != 3 {
				out.Line("bad-op")
				continue
			}
			sawRemove = true
			q.Remove(atoi(2), pid(atoi(1)))
			out.Line("ok" + suffix())
		case "thaw":
			q.ThawRound()
			out.Line("ok" + suffix())
		case "topics":
			if len(op) != 2 {
				out.Line("bad-op")
				continue
			}
			tp := q.PeerTopics(pid(atoi(1)))
			if tp == nil {
				out.Line("topics nil" + suffix())
			} else {
				out.Line("topics pend=%s act=%s%s", topicList(tp.Pending), topicList(tp.Active), suffix())
			}
		default:
			out.Line("bad-op")
		}
	}
}
