import GS.Model.ReqLifecycle
/-!
Inductive invariant of the request life-cycle transition system (`GS.ReqLife.step`), used by every
C04 theorem.  Two conjuncts (`o1`, `pz`) hold only for the repaired code; they are proved under the
hypotheses `releasePauseGuardChecksCtx = true` and `goOnlineChecksCtx = true` about the GENERATED
definitions (discharged by `rfl` in `GSProofs/C04.lean`, so a regression of either repair breaks the proof).
-/
namespace GS.ReqLife
open GS.Generated

inductive Reachable : State → Prop
  | init (peer efuel tfuel : Nat) : Reachable (init peer efuel tfuel)
  | step {s s' : State} {a : Action} : Reachable s → step s a = some s' → Reachable s'

/-- the executor holds the request (between the manager's reply to GetRequestTask and ReleaseRequestTask) -/
def execActive : WPhase → Bool
  | .top | .wait | .read | .hook | .errSend _ | .errSent _ | .sendReq | .fin1 _ | .finErr _ => true
  | _ => false

/-- the executor is between `CurrentRequest` and the answer to the traverser -/
def needsLoad : WPhase → Bool
  | .wait | .read | .errSend _ | .errSent _ | .sendReq => true
  | _ => false

theorem needsLoad_exec {w : WPhase} (h : needsLoad w = true) : execActive w = true := by
  cases w <;> simp_all [needsLoad, execActive]

theorem reg_cases (s : State) : s.reg = .none ∨ s.reg = .live ∨ s.reg = .gone := by
  cases h : s.reg <;> simp
theorem rstate_cases (s : State) : s.rstate = .queued ∨ s.rstate = .running ∨ s.rstate = .paused := by
  cases h : s.rstate <;> simp

def isGet : Msg → Bool | .getTask => true | _ => false
def isRel : Msg → Bool | .release _ => true | _ => false
def replyPending : MPhase → Bool | .termSend _ rw => rw | .idle => false
def tQuiet : TPhase → Bool | .none => true | .done _ => true | _ => false
def tVisitOk : TPhase → Bool | .visiting n _ => decide (0 < n) | _ => true

/-- collector phases that can only be reached after the internal channels were closed -/
def cpNeedsGone : CPPhase → Bool
  | .run _ io => !io
  | .cancelling _ pO eO => !pO || !eO
  | .done => true
  | .none => false
def ceNeedsGone : CEPhase → Bool
  | .run _ io => !io
  | .sendCC exit _ => !exit
  | _ => false
def cpNeedsCtx : CPPhase → Bool | .cancelling .. => true | _ => false
def ceNeedsCtx : CEPhase → Bool | .sendCC .. => true | _ => false
def cpCancelSent : CPPhase → Bool | .cancelling sent _ _ => sent | _ => false

/-- an own-peer terminal status (response hook ok) is waiting in the mailbox -/
def pendingTerm (peer : Nat) (l : List Msg) : Bool :=
  l.any fun m => match m with
    | .responses p st _ false => p == peer && StatusCodes.isTerminal st
    | _ => false

structure Inv (s : State) : Prop where
  a1 : s.chanPClosed = (s.reg == .gone)
  a2 : s.chanEClosed = (s.reg == .gone)
  p0 : s.panicked = false
  b : s.mphase ≠ .idle → s.reg = .live
  k3 : replyPending s.mphase = true → s.w = .waitDone
  k4 : s.mphase ≠ .idle → execActive s.w = false
  c : s.reg = .gone → tQuiet s.t = true
  c1 : s.hasLoader = false → s.t = .none
  c2 : s.hasLoader = true → s.t ≠ .none
  tv : tVisitOk s.t = true
  tw : needsLoad s.w = true → s.t = .waitLoad
  j : execActive s.w = true → s.reg = .live ∧ s.rstate = .running ∧ s.hasLoader = true
  j2 : s.reg = .live → s.rstate = .running → s.mphase = .idle → (execActive s.w = true ∨ s.w = .waitDone)
  k1 : s.mbox.countP isGet = if s.w = .waitTask then 1 else 0
  k2 : s.mbox.countP isRel = if s.w = .waitDone ∧ replyPending s.mphase = false then 1 else 0
  t1 : s.reg = .live → s.rstate = .queued → s.mphase = .idle → (1 ≤ s.tqPending ∨ s.w = .popped ∨ s.w = .waitTask)
  l : s.reg = .none → s.w = .idle ∧ s.tqPending = 0 ∧ s.mphase = .idle ∧ s.hasLoader = false ∧
        s.cp = .none ∧ s.ce = .none ∧ s.ctxDone = false ∧ s.online = false
  f0 : s.reg = .none → s.newSent = true → s.mbox.head? = some .newReq
  f1 : s.newSent = false → s.mbox = [] ∧ s.reg = .none
  n1 : s.reg ≠ .none → s.cp ≠ .none ∧ s.ce ≠ .none
  n2 : cpNeedsGone s.cp = true → s.reg = .gone
  n2e : ceNeedsGone s.ce = true → s.reg = .gone
  n3 : ceNeedsCtx s.ce = true → s.callerCtx = true
  n3d : s.ce = .done → s.reg = .gone ∨ s.callerCtx = true
  n3c : cpNeedsCtx s.cp = true → s.callerCtx = true
  o1 : s.reg = .live → s.ctxDone = true → s.online = false
  o2 : s.online = true → s.hasLoader = true
  o3 : s.reg = .live → s.rstate ≠ .running → s.online = false
  o4 : Msg.release .paused ∈ s.mbox → s.online = false
  pz : s.reg = .live → s.ctxDone = true → s.mphase = .idle → s.rstate = .running
  zApi : s.apiCancelled = true →
    (Msg.cancel true ∈ s.mbox ∨ s.reg = .gone ∨ (s.reg = .live ∧ (s.ctxDone = true ∨ s.mphase ≠ .idle)))
  zCtx : cpCancelSent s.cp = true →
    (Msg.cancel false ∈ s.mbox ∨ s.reg = .gone ∨ (s.reg = .live ∧ (s.ctxDone = true ∨ s.mphase ≠ .idle)))
  zTerm : s.termSent = true →
    (s.owed = true ∨ pendingTerm s.peer s.mbox = true ∨ s.reg ≠ .live ∨ s.rstate ≠ .running ∨
      s.online = false ∨ s.w = .sendReq)
  ts : s.termSent = true → s.newSent = true ∧ StatusCodes.isTerminal s.lastTerm = true
  ac : s.apiCancelled = true → s.newSent = true
  cx : s.callerCtx = true → s.newSent = true

theorem inv_init (p e t : Nat) : Inv (init p e t) := by
  constructor <;> simp [init, execActive, needsLoad, replyPending, tQuiet, tVisitOk, cpNeedsGone, ceNeedsGone,
    cpNeedsCtx, ceNeedsCtx, cpCancelSent]

end GS.ReqLife
