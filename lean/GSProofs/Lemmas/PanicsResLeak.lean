import GS.Model.PanicsRes
/-!
Helper lemmas for C22 (resource layer), part 3: what a clean-up path WITHOUT TaskDone does.  If no
error class's clean-up gives the slot back (`NoRelease`), busy workers never become free again, so
once all workers are taken every queued request stays queued under every schedule (`leak_starves`).
Used for the counterexample that shows the resource theorems are not true by construction.
-/
namespace GS.Panics.Res
open GS.Generated.PanicSites GS.Generated.PanicCleanup GS.Panics

def NoRelease (cfg : Cfg) : Prop := ∀ c : ErrClass, (cleanupActs cfg.levels c).countP isSlotRelease = 0

def todoFree (r : RReq) : Prop :=
  match r.phase with
  | .cleaning todo => todo.countP isSlotRelease = 0
  | _ => True

structure Stuck (cfg : Cfg) (s : RSys) : Prop where
  free : ∀ (j : Nat) (r : RReq), s.reqs[j]? = some r → todoFree r
  full : cfg.workers ≤ s.busy

theorem applyAct_frame (s : RSys) (i : Nat) (r : RReq) (a : Act) :
    (applyAct s i r a).1.reqs = s.reqs ∧ (isSlotRelease a = false → (applyAct s i r a).1.busy = s.busy) := by
  cases a <;> simp [applyAct, isSlotRelease]

theorem set_other {l : List RReq} {i j : Nat} {r' : RReq} (h : i ≠ j) : (l.set i r')[j]? = l[j]? :=
  List.getElem?_set_ne h

theorem step_stuck {cfg : Cfg} (nr : NoRelease cfg) {s : RSys} (h : Stuck cfg s) (i : Nat) :
    Stuck cfg (step cfg s i) ∧
    ∀ (j : Nat) (q : RReq), s.reqs[j]? = some q → q.phase = .queued →
      ∃ q', (step cfg s i).reqs[j]? = some q' ∧ q'.phase = .queued := by
  unfold step
  by_cases hc : s.crashed = true
  · simp only [hc, if_true]; exact ⟨h, fun j q hq hp => ⟨q, hq, hp⟩⟩
  · simp only [hc, Bool.false_eq_true, if_false]
    cases hri : s.reqs[i]? with
    | none => exact ⟨h, fun j q hq hp => ⟨q, hq, hp⟩⟩
    | some r =>
      -- replacing reqs[i] (not queued) by a request with a slot-free todo list
      have key : ∀ (s' : RSys) (r' : RReq), s'.reqs = s.reqs.set i r' → s'.busy = s.busy → todoFree r' →
          r.phase ≠ .queued →
          Stuck cfg s' ∧ ∀ (j : Nat) (q : RReq), s.reqs[j]? = some q → q.phase = .queued →
            ∃ q', s'.reqs[j]? = some q' ∧ q'.phase = .queued := by
        intro s' r' hs' hb hr' hnq
        refine ⟨⟨?_, by rw [hb]; exact h.full⟩, ?_⟩
        · intro j q hq
          rw [hs', List.getElem?_set] at hq
          by_cases hij : i = j
          · subst hij
            by_cases hlt : i < s.reqs.length
            · simp [hlt] at hq; rw [← hq]; exact hr'
            · simp [hlt] at hq
          · simp [hij] at hq; exact h.free j q hq
        · intro j q hq hp
          by_cases hij : i = j
          · subst hij
            rw [hri] at hq
            exact absurd ((Option.some.inj hq) ▸ hp) hnq
          · exact ⟨q, by rw [hs', set_other hij]; exact hq, hp⟩
      simp only
      cases hph : r.phase with
      | queued =>
        have : canPop cfg s r = false := by
          have := h.full
          simp [canPop]; intro hlt; omega
        simp only [this, Bool.false_eq_true, if_false]
        exact ⟨h, fun j q hq hp => ⟨q, hq, hp⟩⟩
      | running =>
        have hfree : todoFree (stepRunning cfg r).1 := by
          rcases r with ⟨peer, script, phase, out, cls, delivered, lock, released⟩
          simp only at hph; subst hph
          cases script with
          | nil => simp [stepRunning, failWith, todoFree, nr .none]
          | cons c rest =>
            rcases c with ⟨sd, kd, res⟩
            cases res with
            | ok => simp [stepRunning, todoFree]
            | err => simp [stepRunning, failWith, todoFree, nr .ordinary]
            | panic =>
              by_cases hf : cfg.fr sd kd = true
              · simp [stepRunning, failWith, todoFree, hf, nr .panicked]
              · simp [stepRunning, todoFree, hf]
        rcases hst : stepRunning cfg r with ⟨r', e⟩
        rw [hst] at hfree
        cases e with
        | crash => exact ⟨⟨h.free, h.full⟩, fun j q hq hp => ⟨q, hq, hp⟩⟩
        | none => exact key _ r' rfl rfl hfree (by simp [hph])
        | cb sd k => exact key _ r' rfl rfl hfree (by simp [hph])
      | cleaning todo =>
        cases todo with
        | nil => exact key _ _ rfl rfl (by simp [todoFree]) (by simp [hph])
        | cons a rest =>
          by_cases hl : r.lock = true
          · simp only [hl, if_true]; exact ⟨h, fun j q hq hp => ⟨q, hq, hp⟩⟩
          · simp only [hl, Bool.false_eq_true, if_false]
            have hz : (a :: rest).countP isSlotRelease = 0 := by simpa [todoFree, hph] using h.free i r hri
            rw [List.countP_cons] at hz
            have ha : isSlotRelease a = false := by
              by_cases ha : isSlotRelease a = true
              · simp [ha] at hz
              · simpa using ha
            have hrest : rest.countP isSlotRelease = 0 := by omega
            obtain ⟨f1, f2⟩ := applyAct_frame s i r a
            exact key _ { (applyAct s i r a).2 with phase := .cleaning rest } (by simp [f1]) (by simp [f2 ha])
              (by simp [todoFree, hrest]) (by simp [hph])
      | done => exact ⟨h, fun j q hq hp => ⟨q, hq, hp⟩⟩

/-- once all workers are taken and nothing gives a slot back, a queued request stays queued forever -/
theorem leak_starves {cfg : Cfg} (nr : NoRelease cfg) (sched : List Nat) :
    ∀ {s : RSys}, Stuck cfg s → ∀ (j : Nat) (q : RReq), s.reqs[j]? = some q → q.phase = .queued →
      ∃ q', (run cfg s sched).reqs[j]? = some q' ∧ q'.phase = .queued := by
  induction sched with
  | nil => intro s _ j q hq hp; exact ⟨q, hq, hp⟩
  | cons i rest ih =>
    intro s h j q hq hp
    obtain ⟨h', hstay⟩ := step_stuck nr h i
    obtain ⟨q', hq', hp'⟩ := hstay j q hq hp
    simpa [run] using ih h' j q' hq' hp'

end GS.Panics.Res
