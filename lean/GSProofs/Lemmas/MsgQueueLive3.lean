import GSProofs.Lemmas.MsgQueueLive2
import GS.Temporal
/-!
# Message queue liveness, part 3: the variant, the fair system, callers' steps
-/
namespace GS.MQ
open GS.Alloc

/-- steps the queue goroutine still needs for the message it is working on (`R` = maxRetries) -/
def rem (R : Nat) : Pc → Nat
  | .idle => 0
  | .opening _ none => 3 * R + 1
  | .sending _ i => 3 * (R - i)
  | .resetting _ i => 3 * (R - i) - 1
  | .opening _ (some i) => 3 * (R - i) - 2
  | .exiting => 0
  | .exited => 0

/-- the variant for message `t` -/
def V (t : Nat) (s : State) : Nat := cnt t s.builders * (3 * s.maxRetries + 3) + rem s.maxRetries s.pc

/-- retry indexes stay below `maxRetries` -/
def PcOK (s : State) : Prop :=
  match s.pc with
  | .sending _ i => i < s.maxRetries
  | .resetting _ i => i < s.maxRetries
  | .opening _ (some i) => i < s.maxRetries
  | _ => True

def Running (s : State) : Prop := s.pc ≠ .exiting ∧ s.pc ≠ .exited

/-- message `t` is queued with content, or in flight -/
def Pend (t : Nat) (s : State) : Prop :=
  (∃ b ∈ s.builders, (b.topic : Nat) = t ∧ b.empty = false) ∨ (∃ m, s.pc.inflight = some m ∧ (m.topic : Nat) = t)

def LiveP (t : Nat) (s : State) : Prop := NInv s ∧ TI s ∧ PcOK s ∧ Running s ∧ Pend t s

def LiveQ (t : Nat) (s : State) : Prop := ¬ Pend t s

/-- the system with the queue goroutine's and the network's steps enabled only when they do something -/
def runEnabled (s : State) : Bool := s.pc == .idle && (s.token || s.done)

def ackEnabled (s : State) : Bool :=
  match s.pc with
  | .opening _ _ => true
  | .sending _ _ => true
  | .resetting _ _ => true
  | .exiting => true
  | _ => false

def LSys (pick : Pick) : GS.Temporal.Sys State Act where
  step s a :=
    match a with
    | .run pw => if runEnabled s then some (s.run pick pw) else none
    | .ack ok => if ackEnabled s then some (s.ack pick ok) else none
    | a => some (step pick s a)

/-- the queue goroutine (`run`) and the network answering (`ack`) are the fair processes -/
def fairAct : Act → Prop
  | .run _ => True
  | .ack _ => True
  | _ => False

theorem cnt_eq (t : Nat) (l : List Builder) : cnt t l = ((topicsOf l).filter fun x => decide (x ≤ t)).length := by
  induction l with
  | nil => rfl
  | cons x r ih =>
    rw [cnt_cons, topicsOf_cons, List.filter_cons, ih]
    by_cases hx : (x.topic : Nat) ≤ t <;> simp [hx] <;> omega

/-- builder topics and next topic of a state satisfying `NInv` -/
theorem NInv.base {s : State} (h : NInv s) (hr : s.pc ≠ .exited) : Base s := by
  unfold NInv at h
  cases hp : s.pc with
  | idle => rw [hp] at h; exact h.toBase
  | exiting => rw [hp] at h; exact h.toBase
  | exited => exact absurd hp hr
  | opening m r =>
    rw [hp] at h
    cases r with
    | none => obtain ⟨U, hm⟩ := h; exact hm.toBase
    | some i => obtain ⟨U, hm⟩ := h; exact hm.toBase
  | sending m i => rw [hp] at h; obtain ⟨U, hm⟩ := h; exact hm.toBase
  | resetting m i => rw [hp] at h; obtain ⟨U, hm⟩ := h; exact hm.toBase

/-- the in-flight topic is below every queued topic and below `nextTopic` -/
theorem NInv.inflight {s : State} (h : NInv s) {m : InFlight} (hm : s.pc.inflight = some m) :
    @LT.lt Nat _ m.topic s.nextTopic ∧ ∀ t ∈ topicsOf s.builders, @LT.lt Nat _ m.topic t := by
  unfold NInv at h
  cases hp : s.pc with
  | idle => rw [hp] at hm; cases hm
  | exiting => rw [hp] at hm; cases hm
  | exited => rw [hp] at hm; cases hm
  | opening m' r =>
    rw [hp] at h hm
    have : m' = m := by simpa [Pc.inflight] using hm
    subst this
    cases r with
    | none => obtain ⟨U, h'⟩ := h; exact h'.mBelow
    | some i => obtain ⟨U, h'⟩ := h; exact h'.mBelow
  | sending m' i =>
    rw [hp] at h hm
    have : m' = m := by simpa [Pc.inflight] using hm
    subst this
    obtain ⟨U, h'⟩ := h; exact h'.mBelow
  | resetting m' i =>
    rw [hp] at h hm
    have : m' = m := by simpa [Pc.inflight] using hm
    subst this
    obtain ⟨U, h'⟩ := h; exact h'.mBelow

/-- a pending topic is below `nextTopic` -/
theorem pend_below {t : Nat} {s : State} (h : NInv s) (hr : s.pc ≠ .exited) (hp : Pend t s) : t < s.nextTopic := by
  rcases hp with ⟨b, hb, ht, _⟩ | ⟨m, hm, ht⟩
  · have := (h.base hr).below t (by rw [← ht]; exact List.mem_map.mpr ⟨b, hb, rfl⟩)
    exact this
  · have h1 := (h.inflight hm).1
    have h2 : @Eq Nat m.topic t := ht
    omega

/-- appending fresh topics does not change the count below a pending topic -/
theorem cnt_quiet {t : Nat} {s s' : State} (q : Quiet s s') (ht : t < s.nextTopic) : cnt t s'.builders = cnt t s.builders := by
  obtain ⟨k, q1, _⟩ := q.builders
  rw [cnt_eq, cnt_eq, q1, List.filter_append, List.length_append]
  have : (List.range' s.nextTopic k).filter (fun x => decide (x ≤ t)) = [] := by
    apply List.filter_eq_nil_iff.mpr
    intro x hx
    have := (mem_range'_1 hx).1
    simp; omega
  rw [this]; simp

/-- what the callers' and other peers' steps keep -/
structure Keeps (s s' : State) : Prop where
  work : ∀ b ∈ s.builders, b.empty = false → ∃ b' ∈ s'.builders, b'.topic = b.topic ∧ b'.empty = false
  ti : TI s → TI s'
  maxRetries : s'.maxRetries = s.maxRetries
  pc : s'.pc = s.pc

theorem Keeps.refl (s : State) : Keeps s s := ⟨fun b hb he => ⟨b, hb, rfl, he⟩, id, rfl, rfl⟩

theorem Keeps.trans {a b c : State} (h1 : Keeps a b) (h2 : Keeps b c) : Keeps a c := by
  refine ⟨?_, fun t => h2.ti (h1.ti t), h2.maxRetries.trans h1.maxRetries, h2.pc.trans h1.pc⟩
  intro x hx he
  obtain ⟨x', hx', e1, e2⟩ := h1.work x hx he
  obtain ⟨x'', hx'', e3, e4⟩ := h2.work x' hx' e2
  exact ⟨x'', hx'', e3.trans e1, e4⟩

/-- updates that leave builders, token, maxRetries and pc alone -/
theorem Keeps.fields {s s' : State} (hb : s'.builders = s.builders) (ht : s'.token = s.token)
    (hm : s'.maxRetries = s.maxRetries) (hp : s'.pc = s.pc) : Keeps s s' :=
  ⟨fun b hb' he => ⟨b, by rw [hb]; exact hb', rfl, he⟩, fun ti hw => by rw [ht]; exact ti (by rw [← hb]; exact hw), hm, hp⟩

theorem buildMessage_keeps (pick : Pick) (s : State) (ticket : Nat) (tx : Tx) (size : Nat) :
    Keeps s (s.buildMessage pick ticket tx size) := by
  obtain ⟨h1, h2, _, h4⟩ := buildMessage_live pick s ticket tx size
  exact ⟨h1, h2, h4, buildMessage_pc pick s ticket tx size⟩

theorem allocStep_keeps (pick : Pick) (s : State) (op : Alloc.Op) : Keeps s (s.allocStep pick op).1 :=
  Keeps.fields rfl rfl rfl rfl

theorem buildWith_keeps (pick : Pick) (s : State) (tx : Tx) (size : Nat) (hc : s.closed = false) :
    Keeps s (buildWith pick s tx size) := by
  unfold buildWith
  simp only
  have k0 : Keeps s ({ s with nextTicket := s.nextTicket + 1 } : State) := Keeps.fields rfl rfl rfl rfl
  split
  · rw [buildMsg_open pick (by exact hc)]
    exact k0.trans (buildMessage_keeps _ _ _ _ _)
  · have k1 := k0.trans (allocStep_keeps pick ({ s with nextTicket := s.nextTicket + 1 } : State) (.alloc s.peer size s.nextTicket))
    split
    · rw [buildMsg_open pick (by exact hc)]
      exact k1.trans (buildMessage_keeps _ _ _ _ _)
    · exact k1.trans (Keeps.fields rfl rfl rfl rfl)

theorem build_keeps (pick : Pick) (s : State) (tx : Tx) (hc : s.closed = false) : Keeps s (s.build pick tx) := by
  rw [build_eq]; split
  · exact Keeps.refl s
  · exact buildWith_keeps _ _ _ _ hc

theorem wake_keeps (pick : Pick) (s : State) (t : Nat) (hc : s.closed = false) : Keeps s (s.wake pick t) := by
  unfold State.wake
  split
  · exact Keeps.refl s
  · next w _ =>
    simp only
    have k0 : Keeps s ({ s with waiters := s.waiters.filter (·.ticket != w.ticket) } : State) := Keeps.fields rfl rfl rfl rfl
    split
    · rw [buildMsg_open pick (by exact hc)]
      exact k0.trans (buildMessage_keeps _ _ _ _ _)
    · exact k0.trans (Keeps.fields rfl rfl rfl rfl)

theorem Running.open_ {s : State} (h : Running s) : s.closed = false := by
  obtain ⟨peer, maxRetries, builders, nextTopic, token, done, sender, pc, closedStreams, waiters,
    nextTicket, topics, pubClosed, alloc, log⟩ := s
  cases pc <;> first | rfl | exact absurd rfl h.1 | exact absurd rfl h.2

/-- the steps that are not the queue goroutine's -/
theorem caller_keeps (pick : Pick) (s : State) (a : Act) (hq : ∀ pw, a ≠ .run pw) (ha : ∀ ok, a ≠ .ack ok)
    (hc : s.closed = false) : Keeps s (step pick s a) ∧ Quiet s (step pick s a) := by
  cases a with
  | build tx => exact ⟨build_keeps pick s tx hc, build_quiet pick s tx hc⟩
  | wake t => exact ⟨wake_keeps pick s t hc, wake_quiet pick s t hc⟩
  | run pw => exact absurd rfl (hq pw)
  | ack ok => exact absurd rfl (ha ok)
  | shutdown => exact ⟨Keeps.fields rfl rfl rfl rfl, Quiet.ofLog [] (by simp [step]) (by simp) (by simp) rfl rfl rfl rfl⟩
  | env op =>
    exact ⟨allocStep_keeps pick s op, allocStep_quiet pick s op⟩

/-- a caller's step keeps `LiveP` and the variant -/
theorem caller_live (pick : Pick) {t : Nat} {s : State} (h : LiveP t s) (a : Act) (hq : ∀ pw, a ≠ .run pw) (ha : ∀ ok, a ≠ .ack ok) :
    LiveP t (step pick s a) ∧ V t (step pick s a) = V t s := by
  obtain ⟨hn, hti, hok, hrun, hp⟩ := h
  obtain ⟨k, q⟩ := caller_keeps pick s a hq ha hrun.open_
  have hpc := k.pc
  have hn' : NInv (step pick s a) := step_J pick hn a
  refine ⟨⟨hn', k.ti hti, ?_, ?_, ?_⟩, ?_⟩
  · unfold PcOK at hok ⊢; rw [hpc, k.maxRetries]; exact hok
  · unfold Running; rw [hpc]; exact hrun
  · rcases hp with ⟨b, hb, ht, he⟩ | ⟨m, hm, ht⟩
    · obtain ⟨b', hb', e1, e2⟩ := k.work b hb he
      exact Or.inl ⟨b', hb', by rw [e1]; exact ht, e2⟩
    · exact Or.inr ⟨m, by rw [hpc]; exact hm, ht⟩
  · unfold V
    rw [cnt_quiet q (pend_below hn hrun.2 hp), k.maxRetries, hpc]

end GS.MQ
