import GS.Model.ReqMgr
/-!
Helper lemmas about the request-manager model (GS/Model/ReqMgr.lean) used by GSProofs/C09.lean.
-/
namespace GS.ReqMgr

/-! ### the table -/

theorem Table.del_cons (k' : ReqId) (e : Entry) (rest : Table) (k : ReqId) :
    Table.del ((k', e) :: rest) k = if k' = k then Table.del rest k else (k', e) :: Table.del rest k := by
  by_cases h : k' = k <;> simp [Table.del, List.filter_cons, h]

theorem Table.get_cons (k' : ReqId) (e : Entry) (rest : Table) (r : ReqId) :
    Table.get ((k', e) :: rest) r = if k' = r then some e else Table.get rest r := rfl

theorem Table.get_del_ne (t : Table) {r k : ReqId} (h : k ≠ r) : (t.del k).get r = t.get r := by
  induction t with
  | nil => rfl
  | cons a rest ih =>
    obtain ⟨k', e⟩ := a
    rw [Table.del_cons, Table.get_cons]
    by_cases hk : k' = k
    · have hr : k' ≠ r := by rw [hk]; exact h
      simp [hk, h, ih]
    · by_cases hr : k' = r
      · subst hr
        simp [hk, Table.get_cons]
      · simp [hk, hr, Table.get_cons, ih]

theorem Table.get_set_ne (t : Table) {r k : ReqId} (e : Entry) (h : k ≠ r) : (t.set k e).get r = t.get r := by
  unfold Table.set
  rw [Table.get_cons]
  simp [h, Table.get_del_ne t h]

theorem Table.get_set_self (t : Table) (k : ReqId) (e : Entry) : (t.set k e).get k = some e := by
  unfold Table.set
  rw [Table.get_cons]
  simp

theorem Table.get_del_self (t : Table) (k : ReqId) : (t.del k).get k = none := by
  induction t with
  | nil => rfl
  | cons a rest ih =>
    obtain ⟨k', e⟩ := a
    rw [Table.del_cons]
    by_cases hk : k' = k
    · simp [hk, ih]
    · simp [hk, Table.get_cons, ih]

/-- `applyAt` on another key leaves the entry of `r` alone -/
theorem applyAt_get_ne {α : Type} (t : Table) {r k : ReqId} (f : Option Entry → Option Entry × α) (h : k ≠ r) :
    (applyAt t k f).1.get r = t.get r := by
  unfold applyAt
  simp only
  split
  · rfl
  · split
    · exact Table.get_set_ne t _ h
    · exact Table.get_del_ne t h

theorem applyAt_snd {α : Type} (t : Table) (k : ReqId) (f : Option Entry → Option Entry × α) :
    (applyAt t k f).2 = (f (t.get k)).2 := rfl

/-- `applyAt` with a function that hands the entry back does not touch the table at all -/
theorem applyAt_same {α : Type} (t : Table) (k : ReqId) (f : Option Entry → Option Entry × α)
    (h : (f (t.get k)).1 = t.get k) : (applyAt t k f).1 = t := by
  unfold applyAt
  simp [h]

/-! ### events of one stage step are about the response's request -/

theorem terminateEvs_req (r : ReqId) (e : Entry) : ∀ ev ∈ terminateEvs r e, ev.req = r := by
  intro ev hev
  unfold terminateEvs at hev
  simp only [List.mem_append, List.mem_cons, List.mem_singleton, replicateEv, List.mem_replicate] at hev
  rcases hev with (h | h) | h
  · split at h
    · simp at h; subst h; rfl
    · simp at h
  · rcases h with h | h | h
    · subst h; rfl
    · subst h; rfl
    · cases h
  · obtain ⟨_, h⟩ := h
    subst h; rfl

theorem cancelOnErrorE_req (cd : CancelDesc) (r : ReqId) (e : Entry) (err : Err) :
    ∀ ev ∈ (cancelOnErrorE cd r e err).2, ev.req = r := by
  intro ev hev
  unfold cancelOnErrorE at hev
  split at hev
  · exact terminateEvs_req _ _ ev hev
  · simp at hev

theorem outTo_req (t : Target) (q : Peer) (e : Option Entry) (k : MsgKind) (r : ReqId) :
    ∀ ev ∈ outTo t q e k r, ev.req = r := by
  intro ev hev
  unfold outTo at hev
  split at hev
  · simp at hev; subst hev; rfl
  · simp at hev

theorem stageOne_req (op : StageOp) (q : Peer) (x : Resp) (e? : Option Entry) :
    ∀ ev ∈ (stageOne op q x e?).2.1, ev.req = x.id := by
  intro ev hev
  cases op with
  | dropForeignLive =>
    unfold stageOne at hev
    cases e? <;> simp at hev
  | filterForPeer =>
    unfold stageOne at hev
    cases e? <;> simp at hev
  | extensions =>
    unfold stageOne at hev
    simp only at hev
    have hupd : ∀ ev ∈ (if x.hookExt then outTo Generated.ReqPipeline.extDesc.updateTo q e? .update x.id else []), ev.req = x.id := by
      intro ev h
      split at h
      · exact outTo_req _ _ _ _ _ ev h
      · simp at h
    split at hev
    · cases e? with
      | none =>
        simp only [List.mem_append, List.mem_singleton] at hev
        rcases hev with h | h
        · subst h; rfl
        · exact hupd ev h
      | some e =>
        simp only [List.mem_append, List.mem_singleton] at hev
        rcases hev with ((h | h) | h) | h
        · subst h; rfl
        · exact hupd ev h
        · exact outTo_req _ _ _ _ _ ev h
        · exact cancelOnErrorE_req _ _ _ _ ev h
    · simp only [List.mem_append, List.mem_singleton] at hev
      rcases hev with h | h
      · subst h; rfl
      · exact hupd ev h
  | updateLast =>
    unfold stageOne at hev
    cases e? <;> simp at hev
  | ingest =>
    unfold stageOne at hev
    cases e? <;> simp at hev
  | terminations =>
    unfold stageOne at hev
    simp only at hev
    split at hev
    · cases e? with
      | none => simp at hev
      | some e =>
        simp only at hev
        split at hev
        · exact cancelOnErrorE_req _ _ _ _ ev hev
        · simp at hev
    · simp at hev

/-! ### one stage over a list -/

/-- the responses kept by a stage are among its inputs -/
theorem runStage_kept_subset (op : StageOp) (q : Peer) (t : Table) (l : List Resp) :
    ∀ x ∈ (runStage op q t l).2.1, x ∈ l := by
  induction l generalizing t with
  | nil => intro x hx; simp [runStage] at hx
  | cons y ys ih =>
    intro x hx
    simp only [runStage] at hx
    split at hx
    · rcases List.mem_cons.mp hx with h | h
      · subst h; exact List.mem_cons_self
      · exact List.mem_cons_of_mem _ (ih _ x h)
    · exact List.mem_cons_of_mem _ (ih _ x hx)

/-- frame: a stage run over responses none of which is for `r` keeps `r`'s entry and says nothing about `r` -/
theorem runStage_frame (op : StageOp) (q : Peer) (r : ReqId) (t : Table) (l : List Resp)
    (hl : ∀ x ∈ l, x.id ≠ r) :
    (runStage op q t l).1.get r = t.get r ∧ ∀ ev ∈ (runStage op q t l).2.2, ev.req ≠ r := by
  induction l generalizing t with
  | nil => simp [runStage]
  | cons y ys ih =>
    have hy : y.id ≠ r := hl y List.mem_cons_self
    have hys : ∀ x ∈ ys, x.id ≠ r := fun x hx => hl x (List.mem_cons_of_mem _ hx)
    obtain ⟨ih1, ih2⟩ := ih (applyAt t y.id (stageOne op q y)).1 hys
    simp only [runStage]
    refine ⟨?_, ?_⟩
    · rw [ih1]; exact applyAt_get_ne t _ hy
    · intro ev hev
      rcases List.mem_append.mp hev with h | h
      · rw [applyAt_snd] at h
        have := stageOne_req op q y (t.get y.id) ev h
        rw [this]; exact hy
      · exact ih2 ev h

/-- frame for the whole pipeline (any order of stages) -/
theorem runStages_frame (stages : List StageOp) (q : Peer) (r : ReqId) (t : Table) (l : List Resp)
    (hl : ∀ x ∈ l, x.id ≠ r) :
    (runStages stages q t l).1.get r = t.get r ∧ ∀ ev ∈ (runStages stages q t l).2, ev.req ≠ r := by
  induction stages generalizing t l with
  | nil => simp [runStages]
  | cons op rest ih =>
    obtain ⟨f1, f2⟩ := runStage_frame op q r t l hl
    have hkept : ∀ x ∈ (runStage op q t l).2.1, x.id ≠ r :=
      fun x hx => hl x (runStage_kept_subset op q t l x hx)
    obtain ⟨g1, g2⟩ := ih (runStage op q t l).1 (runStage op q t l).2.1 hkept
    simp only [runStages]
    refine ⟨?_, ?_⟩
    · rw [g1, f1]
    · intro ev hev
      rcases List.mem_append.mp hev with h | h
      · exact f2 ev h
      · exact g2 ev h

/-! ### the peer filter -/

/-- does the peer filter keep response `x` of a message from `q`?  (the comparison is the one
    extracted from the source: `Generated.ReqPipeline.filterCond`) -/
def keeps (t : Table) (q : Peer) (x : Resp) : Bool :=
  match t.get x.id with
  | some e => filterKeeps Generated.ReqPipeline.filterCond q e
  | none => false

/-- the comparison compares the entry's peer with the sender (in either order) -/
def GoodFilter (c : FilterCond) : Bool :=
  (c.lhs == .entryPeer && c.rhs == .sender) || (c.lhs == .sender && c.rhs == .entryPeer)

theorem filterKeeps_good (c : FilterCond) (hc : GoodFilter c = true) (q : Peer) (e : Entry) :
    filterKeeps c q e = (e.peer == q) := by
  obtain ⟨l, r⟩ := c
  cases l <;> cases r <;> simp [GoodFilter] at hc <;> simp [filterKeeps, evalPeer, Bool.beq_comm]

/-- does the drop-foreign stage let response `x` of a message from `q` pass?  (comparison term:
    `Generated.ReqPipeline.dropCond`; a response whose request is not in the table passes) -/
def passes (t : Table) (q : Peer) (x : Resp) : Bool :=
  match t.get x.id with
  | some e => filterKeeps Generated.ReqPipeline.dropCond q e
  | none => true

/-- the drop-foreign stage reads the table only -/
theorem runStage_drop (q : Peer) (t : Table) (l : List Resp) :
    runStage .dropForeignLive q t l = (t, l.filter (passes t q), []) := by
  induction l with
  | nil => simp [runStage]
  | cons y ys ih =>
    have hsame : (applyAt t y.id (stageOne .dropForeignLive q y)).1 = t := by
      apply applyAt_same
      unfold stageOne
      cases t.get y.id <;> rfl
    have hkeep : (applyAt t y.id (stageOne .dropForeignLive q y)).2 = ([], passes t q y) := by
      rw [applyAt_snd]
      unfold stageOne passes
      cases t.get y.id <;> rfl
    simp only [runStage, hsame, ih, hkeep, List.filter]
    cases passes t q y <;> simp

/-- the filter stage reads the table only -/
theorem runStage_filter (q : Peer) (t : Table) (l : List Resp) :
    runStage .filterForPeer q t l = (t, l.filter (keeps t q), []) := by
  induction l with
  | nil => simp [runStage]
  | cons y ys ih =>
    have hsame : (applyAt t y.id (stageOne .filterForPeer q y)).1 = t := by
      apply applyAt_same
      unfold stageOne
      cases t.get y.id <;> rfl
    have hkeep : (applyAt t y.id (stageOne .filterForPeer q y)).2 = ([], keeps t q y) := by
      rw [applyAt_snd]
      unfold stageOne keeps
      cases t.get y.id <;> rfl
    simp only [runStage, hsame, ih, hkeep, List.filter]
    cases keeps t q y <;> simp

end GS.ReqMgr
