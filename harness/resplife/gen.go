package resplife

import (
	"bufio"
	"fmt"
	"io"
	"math/rand"
	"sort"
	"strings"
	"sync"

	"github.com/ipfs/go-graphsync"

	"verifharness/reg"
)

func init() {
	for _, comp := range []string{"resplife", "peerstate", "stall"} {
		comp := comp
		reg.Register(&reg.Component{Name: comp,
			Gen: func(seed int64, n int, tier string, w *bufio.Writer) { Gen(comp, seed, n, tier, w) },
			Run: func(c []reg.Case, o *reg.Out) { RunCases(comp, c, o) }})
	}
}

// encoded block lengths for blockPayload (checked by the `new` op) and of the extension payload
const (
	leafLen  = 45
	innerLen = 88
	extLen   = 17
)

// Gen: schedule scripts.  The generator is *guided by the real implementation*: it executes the ops it
// emits on a private instance of the real stack and looks at public observables (PeerState, which
// workers are parked, what is in flight) to choose mostly meaningful next ops; some ops are invalid
// on purpose.  Everything derives from the seed (one PRNG per case).
func Gen(comp string, seed int64, n int, tier string, w *bufio.Writer) {
	type res struct{ lines []string }
	out := make([]res, n)
	var wg sync.WaitGroup
	sem := make(chan struct{}, 8)
	for i := 0; i < n; i++ {
		i := i
		wg.Add(1)
		sem <- struct{}{}
		go func() {
			defer wg.Done()
			defer func() { <-sem }()
			r := rand.New(rand.NewSource(seed*1000003 + int64(i)*7919 + int64(len(comp))))
			if comp == "stall" {
				out[i].lines = genStall(r, i)
			} else {
				out[i].lines = genLife(r, comp, i, tier)
			}
		}()
	}
	wg.Wait()
	for i, o := range out {
		fmt.Fprintf(w, "case %s%d\n%s\n", comp[:1], i, strings.Join(o.lines, "\n"))
	}
}

type guide struct {
	r     *runner
	rnd   *rand.Rand
	lines []string
	nreq  int
	last  string
}

func newGuide(rnd *rand.Rand, comp string) *guide {
	return &guide{r: newRunner(comp, reg.NewOut(bufio.NewWriter(io.Discard))), rnd: rnd}
}

func (g *guide) do(line string) string {
	g.lines = append(g.lines, line)
	op := strings.Fields(line)
	if op[0] == "cfg" {
		maxPer := 0
		if len(op) > 6 {
			maxPer = atoi(op[6])
		}
		nw := 0
		if len(op) > 7 {
			nw = atoi(op[7])
		}
		g.r.e = newEngine(atoi(op[1]), uint64(atoi(op[2])), maxPer, nw)
		g.r.leafLen, g.r.innLen, g.r.extLen = atoi(op[3]), atoi(op[4]), atoi(op[5])
		for p := 0; p < g.r.e.npeers; p++ {
			g.r.prime(p)
		}
		return "ok"
	}
	if g.r.hung {
		return "hung"
	}
	res := g.r.exec(op)
	if op[0] != "end" {
		g.r.snapshot()
	}
	g.last = res
	return res
}

type weighted struct {
	w    int
	line string
}

var hookPlans = []string{"a", "a", "a", "a", "A", "r", "R", "e", "E", "p", "P"}
var updPlans = []string{"o", "x", "e", "u", "U"}

func (g *guide) newLine(npeers int) string {
	n := 1 + g.rnd.Intn(4)
	miss := -1
	if g.rnd.Intn(5) == 0 {
		miss = g.rnd.Intn(n)
	}
	var bh strings.Builder
	for i := 0; i < n; i++ {
		x := g.rnd.Intn(20)
		switch {
		case x < 12:
			bh.WriteByte('o')
		case x < 14:
			bh.WriteByte('x')
		case x < 16:
			bh.WriteByte('p')
		case x < 17:
			bh.WriteByte('e')
		default:
			bh.WriteByte('k')
		}
	}
	if g.rnd.Intn(4) == 0 {
		bh.WriteByte('F') // park the executor before FinishTask
	}
	k := g.nreq
	g.nreq++
	return fmt.Sprintf("new %d %d %d %d %s %d %d %s", g.rnd.Intn(npeers), k, k, 1+g.rnd.Intn(3), hookPlans[g.rnd.Intn(len(hookPlans))], n, miss, bh.String())
}

// candidates: next ops worth trying in the current (real) state
func (g *guide) candidates(maxReq int) []weighted {
	e := g.r.e
	var c []weighted
	if g.nreq < maxReq {
		c = append(c, weighted{6, "NEW"})
	}
	if g.r.mgrBlocked {
		return c
	}
	for _, w := range e.workers {
		switch w.state {
		case "L", "H", "F", "P":
			c = append(c, weighted{8, fmt.Sprintf("step %d", w.id)})
		case "D":
			if g.rnd.Intn(40) == 0 {
				c = append(c, weighted{1, fmt.Sprintf("step %d", w.id)})
			}
		}
	}
	if e.tq.Stats().Pending > 0 {
		c = append(c, weighted{7, "pop"}, weighted{2, "popq"})
		if g.last == "none" {
			c = append(c, weighted{10, "thaw"})
		}
	} else {
		c = append(c, weighted{1, "pop"})
	}
	c = append(c, weighted{1, "thaw"})
	for p := 0; p < e.npeers; p++ {
		e.mu.Lock()
		w := e.infltW[p]
		e.mu.Unlock()
		if w != nil && len(w.msg.Responses()) > 0 {
			c = append(c, weighted{6, fmt.Sprintf("net %d ok", p)}, weighted{2, fmt.Sprintf("net %d fail", p)})
		} else {
			c = append(c, weighted{1, fmt.Sprintf("net %d ok", p)})
		}
	}
	pss := g.r.peerStates()
	for p, ps := range pss {
		var ids []int
		st := map[int]graphsync.RequestState{}
		for id, s := range ps.RequestStates {
			i := e.idIndex(id)
			ids = append(ids, i)
			st[i] = s
		}
		sort.Ints(ids)
		for _, id := range ids {
			switch st[id] {
			case graphsync.Queued:
				if g.r.sig[id] == 2 {
					// a further update before the executor has looked at the first one
					c = append(c, weighted{3, fmt.Sprintf("upd %d %d %s", p, id, updPlans[g.rnd.Intn(len(updPlans))])})
				}
				c = append(c, weighted{1, fmt.Sprintf("cancel %d %d", p, id)}, weighted{1, fmt.Sprintf("rcancel %d", id)},
					weighted{1, fmt.Sprintf("pause %d", id)}, weighted{1, fmt.Sprintf("upd %d %d %s", p, id, updPlans[g.rnd.Intn(len(updPlans))])},
					weighted{1, fmt.Sprintf("rupdate %d %d", id, g.rnd.Intn(2))})
			case graphsync.Running:
				if g.r.sig[id] == 2 {
					c = append(c, weighted{4, fmt.Sprintf("upd %d %d %s", p, id, updPlans[g.rnd.Intn(len(updPlans))])})
				}
				if g.r.sig[id] == 3 {
					// a further abort before the executor has looked at the first one
					c = append(c, weighted{3, fmt.Sprintf("cancel %d %d", p, id)}, weighted{3, fmt.Sprintf("rcancel %d", id)})
				}
				c = append(c, weighted{2, fmt.Sprintf("cancel %d %d", p, id)}, weighted{2, fmt.Sprintf("rcancel %d", id)},
					weighted{2, fmt.Sprintf("pause %d", id)}, weighted{2, fmt.Sprintf("upd %d %d %s", p, id, updPlans[g.rnd.Intn(len(updPlans))])},
					weighted{2, fmt.Sprintf("rupdate %d %d", id, g.rnd.Intn(2))}, weighted{1, fmt.Sprintf("unpause %d 0", id)})
			case graphsync.Paused:
				c = append(c, weighted{4, fmt.Sprintf("unpause %d %d", id, g.rnd.Intn(2))}, weighted{1, fmt.Sprintf("cancel %d %d", p, id)},
					weighted{1, fmt.Sprintf("rcancel %d", id)}, weighted{2, fmt.Sprintf("upd %d %d %s", p, id, updPlans[g.rnd.Intn(len(updPlans))])},
					weighted{1, fmt.Sprintf("rupdate %d %d", id, g.rnd.Intn(2))}, weighted{1, fmt.Sprintf("pause %d", id)})
			case graphsync.CompletingSend:
				c = append(c, weighted{1, fmt.Sprintf("rupdate %d %d", id, g.rnd.Intn(2))}, weighted{1, fmt.Sprintf("cancel %d %d", p, id)},
					weighted{1, fmt.Sprintf("rcancel %d", id)}, weighted{1, fmt.Sprintf("upd %d %d o", p, id)})
			}
		}
	}
	if g.nreq > 0 && g.rnd.Intn(15) == 0 {
		// an op on a request that may be long gone / on the wrong peer
		id := g.rnd.Intn(g.nreq)
		alt := []string{fmt.Sprintf("cancel %d %d", g.rnd.Intn(e.npeers), id), fmt.Sprintf("pause %d", id), fmt.Sprintf("unpause %d 1", id),
			fmt.Sprintf("rcancel %d", id), fmt.Sprintf("rupdate %d 1", id), fmt.Sprintf("upd %d %d u", g.rnd.Intn(e.npeers), id)}
		c = append(c, weighted{2, alt[g.rnd.Intn(len(alt))]})
	}
	return c
}

func (g *guide) pick(c []weighted) string {
	tot := 0
	for _, x := range c {
		tot += x.w
	}
	k := g.rnd.Intn(tot)
	for _, x := range c {
		if k < x.w {
			return x.line
		}
		k -= x.w
	}
	return c[len(c)-1].line
}

// drain: finish everything that can be finished (unpause, pop, step, ack), boundedly
func (g *guide) drain(budget int) {
	e := g.r.e
	for i := 0; i < budget && !g.r.hung && !g.r.mgrBlocked; i++ {
		var line string
		pss := g.r.peerStates()
		for _, ps := range pss {
			var ids []int
			for id, s := range ps.RequestStates {
				if s == graphsync.Paused {
					ids = append(ids, e.idIndex(id))
				}
			}
			sort.Ints(ids)
			if len(ids) > 0 && line == "" {
				line = fmt.Sprintf("unpause %d 0", ids[0])
			}
		}
		if line == "" && e.tq.Stats().Pending > 0 && g.last != "busy" {
			if g.last == "none" {
				line = "thaw"
				g.lines = append(g.lines, line)
				g.r.exec([]string{"thaw"})
			}
			line = "pop"
		}
		if line == "" {
			for _, w := range e.workers {
				if w.state == "L" || w.state == "H" || w.state == "F" || w.state == "P" {
					line = fmt.Sprintf("step %d", w.id)
					break
				}
			}
		}
		if line == "" {
			for p := 0; p < e.npeers; p++ {
				e.mu.Lock()
				w := e.infltW[p]
				nb := e.next[p]
				e.mu.Unlock()
				if (w != nil && len(w.msg.Responses()) > 0) || (nb != nil && !nb.Empty()) {
					line = fmt.Sprintf("net %d ok", p)
					break
				}
			}
		}
		if line == "" {
			return
		}
		g.do(line)
	}
}

func genLife(rnd *rand.Rand, comp string, i int, tier string) []string {
	g := newGuide(rnd, comp)
	defer func() {
		if g.r.e != nil {
			g.r.e.shutdown()
		}
	}()
	npeers := 1 + rnd.Intn(3)
	maxPer := 0
	if rnd.Intn(3) == 0 {
		maxPer = 1 + rnd.Intn(2) // MaxInProgressIncomingRequestsPerPeer
	}
	g.do(fmt.Sprintf("cfg %d 0 %d %d %d %d", npeers, leafLen, innerLen, extLen, maxPer))
	maxReq := 1 + rnd.Intn(4)
	nops := 5 + rnd.Intn(40)
	if tier == "thorough" {
		nops = 5 + rnd.Intn(90)
		maxReq = 1 + rnd.Intn(6)
	}
	for j := 0; j < nops && !g.r.hung; j++ {
		c := g.candidates(maxReq)
		if len(c) == 0 {
			break
		}
		line := g.pick(c)
		if line == "NEW" {
			line = g.newLine(npeers)
		}
		g.do(line)
	}
	if rnd.Intn(8) != 0 {
		g.drain(120)
	}
	g.do("end")
	return g.lines
}

// stall scripts (C25): peer 0 ("A") stops acknowledging, its allowance fills up, then something is
// transacted for A; peer 1 ("B") sends an ordinary request afterwards.
func genStall(rnd *rand.Rand, i int) []string {
	g := newGuide(rnd, "stall")
	defer func() {
		if g.r.e != nil {
			g.r.e.shutdown()
		}
	}()
	limit := []int{100, 120, 180}[rnd.Intn(3)]
	variant := rnd.Intn(18)
	if variant == 8 || variant == 9 {
		return genPoolStall(g, rnd, limit, variant == 8, false)
	}
	if variant == 14 {
		return genPoolStall(g, rnd, limit, true, true)
	}
	g.do(fmt.Sprintf("cfg 2 %d %d %d %d", limit, leafLen, innerLen, extLen))
	// A's first request: 3 blocks; optionally a second one that is paused by its request hook
	g.do(g.fixedNew(0, "a", 3, "ooo"))
	paused := -1
	if variant == 1 || variant == 2 || variant == 5 || variant == 6 {
		paused = g.nreq
		g.do(g.fixedNew(0, "p", 2, "oo"))
	}
	g.do("pop")
	g.do("net 0 ok") // the primer; what follows is never acknowledged
	g.do("step 0")   // block 0 (88 bytes) reserved and in flight
	if limit >= 180 {
		g.do("step 0") // second block fits too
	}
	g.do("step 0") // next block: over the allowance for limit 100/120 -> worker-side wait
	switch variant {
	case 0: // request hook attaches extension data
		g.do(g.fixedNew(0, "A", 1, "o"))
	case 1: // update to a paused response, update hook attaches extension data
		g.do(fmt.Sprintf("upd 0 %d x", paused))
	case 2: // unpause with extension data
		g.do(fmt.Sprintf("unpause %d 1", paused))
	case 3: // responder update with extension data
		g.do("rupdate 0 1")
	case 4: // control: request hook without data
		g.do(g.fixedNew(0, "a", 1, "o"))
	case 5: // control: unpause without data
		g.do(fmt.Sprintf("unpause %d 0", paused))
	case 6: // control: update whose hook sends nothing
		g.do(fmt.Sprintf("upd 0 %d o", paused))
	case 7: // control: responder update without data
		g.do("rupdate 0 0")
	case 10: // the stalled peer sends several updates for its running response, whose executor waits for memory
		for j := 0; j < 2+rnd.Intn(2); j++ {
			g.do(fmt.Sprintf("upd 0 0 %s", []string{"o", "x"}[rnd.Intn(2)]))
		}
	case 11: // ... and for a response that is still queued
		q := g.nreq
		g.do(g.fixedNew(0, "a", 2, "oo"))
		for j := 0; j < 2+rnd.Intn(2); j++ {
			g.do(fmt.Sprintf("upd 0 %d %s", q, []string{"o", "x"}[rnd.Intn(2)]))
		}
	case 15: // the stalled peer cancels twice while its executor waits for memory
		g.do("cancel 0 0")
		g.do("cancel 0 0")
	case 16: // CancelResponse twice
		g.do("rcancel 0")
		g.do("rcancel 0")
	case 17: // requestor cancel, then the responder cancels too
		g.do("cancel 0 0")
		g.do("rcancel 0")
	case 12, 13: // the blocked send to the stalled peer fails: its streams are closed, its memory is released
		// and the executor that waited for memory comes back
		if variant == 13 {
			g.do(g.fixedNew(0, "a", 2, "oo")) // a second response of A, still queued
		}
		g.do("net 0 fail")
		g.drain(40)
		g.do(g.fixedNew(0, "a", 2, "oo")) // A is served again afterwards
	}
	// B: an ordinary request, served with B's own sends acknowledged promptly
	g.do(g.fixedNew(1, "a", 2+rnd.Intn(2), "ooo"))
	for i := 0; i < 24 && !g.r.hung; i++ {
		if g.r.mgrBlocked {
			// what would serve B if the manager were running (refused / timed out here; the
			// baseline run of the oracle, where peer 0 is healthy, executes it)
			k := len(g.r.e.workers)
			for round := 0; round < 4; round++ {
				g.do("pop")
				for w := k; w < k+3; w++ {
					g.do(fmt.Sprintf("step %d", w))
					g.do("net 1 ok")
				}
				g.do("net 1 ok")
			}
			break
		}
		e := g.r.e
		if len(e.rm.PeerState(e.peers[1]).RequestStates) == 0 {
			break
		}
		line := ""
		for _, w := range e.workers {
			if w.peer == 1 && (w.state == "L" || w.state == "H" || w.state == "F") {
				line = fmt.Sprintf("step %d", w.id)
			}
		}
		if line == "" && e.tq.Stats().Pending > 0 && len(e.rm.PeerState(e.peers[1]).Pending) > 0 {
			line = "pop"
		}
		if line == "" {
			line = "net 1 ok"
		}
		g.do(line)
	}
	if variant == 12 || variant == 13 {
		g.drain(80)
	} else if rnd.Intn(3) == 0 {
		// A recovers
		g.do("net 0 ok")
		g.do("net 0 ok")
		g.drain(60)
	}
	g.do("end")
	return g.lines
}

func (g *guide) fixedNew(p int, hook string, n int, bh string) string {
	k := g.nreq
	g.nreq++
	return fmt.Sprintf("new %d %d %d 1 %s %d -1 %s", p, k, k, hook, n, bh)
}

// bounded worker pool (taskqueue.Startup(n, ...)): peer 0 stalls with as many (exhaust) or fewer
// (control) running requests than there are workers; then peer 1 sends a request
func genPoolStall(g *guide, rnd *rand.Rand, limit int, exhaust bool, failA bool) []string {
	nw := 2
	if limit >= 180 {
		limit = 120
	}
	g.do(fmt.Sprintf("cfg 2 %d %d %d %d 0 %d", limit, leafLen, innerLen, extLen, nw))
	na := nw
	if !exhaust {
		na = nw - 1
	}
	for i := 0; i < na; i++ {
		g.do(g.fixedNew(0, "a", 3, "ooo"))
	}
	g.do("net 0 ok") // the primer; nothing of peer 0 is acknowledged afterwards
	for i := 0; i < na; i++ {
		g.do("pop")
	}
	// every executor of peer 0 runs until it waits for memory
	for round := 0; round < 4; round++ {
		for _, w := range g.r.e.workers {
			if w.state == "L" {
				g.do(fmt.Sprintf("step %d", w.id))
			}
		}
	}
	g.do(g.fixedNew(1, "a", 2, "oo"))
	if failA {
		// the blocked send to peer 0 fails: every executor parked on peer 0 must come back and free the pool
		g.do("net 0 fail")
		g.drain(60)
		g.do("end")
		return g.lines
	}
	k := len(g.r.e.workers)
	// when peer 0 is healthy (baseline run of the oracle) its executors finish here and free the pool;
	// when it is stalled these steps are refused (the executors wait for memory)
	for round := 0; round < 4; round++ {
		for w := 0; w < k; w++ {
			g.do(fmt.Sprintf("step %d", w))
		}
	}
	for round := 0; round < 3; round++ {
		g.do("pop")
		g.do(fmt.Sprintf("step %d", k))
		g.do("net 1 ok")
		g.do("net 1 ok")
	}
	g.do("end")
	return g.lines
}
