import GSProofs.Lemmas.ResponderConcurrent
/-!
# C03 — Responder output mirrors its own selector traversal

Property sentence: *For every request a responder accepts, the link metadata it sends lists, in
traversal order, each link its selector traversal visits over the responder's store, marked present
or missing, and block data accompanies exactly the present links not excluded by the request's
do-not-send-cids or do-not-send-first-blocks extensions and not already sent in the same
deduplication scope.  The final status is complete-full when no visited link was missing,
complete-partial otherwise, and content-not-found when the root block itself is missing.*

Objects (all in `GS/Model/Responder.lean`, tied to the Go code by the correspondence stream
`responder`):

* `startRequest s lt p r hook ext stop` — the operational model: `prepareQuery`, the `runTraversal`
  loop with one `sendResponse` transaction per link load, `FinishRequest` / `FinishWithError`; its
  second component is the list of transactions (`Txn` = the response operations of one
  `ResponseStream.Transaction`) in the order they reach the peer's message queue.
* `buildMsg g` — the message a `messagequeue.Builder` / `message.Builder` builds from the group `g` of
  transactions batched into it; `Msg.annotate` reads a message back as the requestor sees it: per
  metadata entry the cid, present/missing, and whether the block travels in that same message.
* `respondSpec lt has want inUse` — the declarative specification.

The theorems quantify over every link tree `lt` (at least as general as every DAG × selector, see
DESIGN §3), every store without corrupted blocks, every well-formed combination of the three
extensions, every state `p` of the peer's link tracker in which the request id is fresh (so:
arbitrary other requests in progress, in this or other dedup scopes), and every batching of the
transactions into wire messages (`groups`, any list of groups of transactions whose operations
concatenate to the request's operations).

Interpretation (DESIGN §4 C03, checks/C03.json `assumptions`):
* "excluded by do-not-send-first-blocks N" = the block is among the first N blocks of the
  responder's traversal — the requestor declared it already has them — at EVERY later link to it, not
  only at the first N links.  Sending such a block again would be a block the responder was told to
  skip (C24).  This is what the code does (`RecordLinkTraversal` records a skipped traversal as
  traversed-with-block) and what `respondSpec` says (`attach`: `seen` grows inside the window).
* "already sent in the same deduplication scope" = the cid has been traversed with its block by a
  request still in progress in the scope (`inUse` for the others, `seen` for the request itself).
* `refines` is therefore the full-strength theorem for the property as read.  `literal_reading_agrees`
  / `literal_reading_differs` only document the other, per-link reading of the sentence
  (`respondSpecLiteral`), which the code rightly does not implement; it is not a finding.
* `refines` is the uninterrupted case; `refines_paused` / `paused_concurrent` cover requests paused at
  any blocks and resumed, with other requests of the peer acting on the link tracker in between.
-/
namespace GS.C03
open GS.LinkTrack GS.Responder GS.C03L

/-- the transactions of an accepted (validated, not paused by a hook) and uninterrupted request. -/
def respondTxns (s : Store) (lt : LT) (p : PeerTracker) (r : Req) (e : Ext) : List Txn :=
  (startRequest s lt p r {} e .never).2.1

/-- `groups` is a batching of the request's transactions into wire messages. -/
def Batching (groups : List (List Txn)) (txns : List Txn) : Prop :=
  groups.flatten.flatten = txns.flatten

/-! ### the operational model emits exactly the specified operations -/

theorem specStatus_present (c : Cid) (es : List (Cid × Bool)) :
    specStatus ((c, true) :: es) = if es.all (fun e => e.2) then .completedFull else .completedPartial := by
  simp only [specStatus, List.all_cons, Bool.true_and]

theorem any_not_eq_not_all (l : List (Cid × Bool)) :
    l.any (fun e => !e.2) = !l.all (fun e => e.2) := by
  induction l with
  | nil => rfl
  | cons e es ih => simp [ih, Bool.not_and]

/-- core lemma: the operations of the request are one block operation per specified item, in
order, with index 1, 2, …, followed by the status operation of the specified final status. -/
theorem respond_ops (s : Store) (hs : s.corrupt = []) (lt : LT) (p : PeerTracker) (r : Req)
    (e : Ext) (w : Want) (hw : e.want? = some w) (hf : Fresh p r) :
    (respondTxns s lt p r e).flatten
      = (mkTxns 0 (respondSpec lt s.has w (inUse p w.key)).1).flatten
          ++ [.status (respondSpec lt s.has w (inUse p w.key)).2] := by
  obtain ⟨p1, hprep, hcnt, hskip, hmiss, hrc⟩ := prepare_ok p r e w hw hf
  obtain ⟨hr1, hr2⟩ := runTraversal_root s hs r p1 lt
  have hex : (fun c => rcOf p1 r c != 0) = (fun c => w.ignore.contains c || inUse p w.key c) :=
    funext hrc
  have htx : (thread r p1 (lt.visit s.has)).2
      = mkTxns 0 (attach w.skip (fun c => w.ignore.contains c || inUse p w.key c) 0 [] (lt.visit s.has)) := by
    rw [thread_txns, hcnt, hskip, hex]
  have hm : missOf (thread r p1 (lt.visit s.has)).1 r = (lt.visit s.has).any (fun e => !e.2) := by
    rw [thread_miss, hmiss, Bool.false_or]
  unfold respondTxns startRequest executeQuery
  simp only [hprep]
  -- split the result of the loop into its components
  generalize hres : runTraversal s Stop.never r (sizeAll [lt] + 1) p1 { trav := { todo := [lt] } } = res at hr1 hr2
  obtain ⟨pA, runA, txA, exA⟩ := res
  simp only at hr1 hr2
  obtain ⟨htxA, hexA⟩ := Prod.mk.inj hr2
  subst hr1 htxA
  obtain ⟨c, kids⟩ := lt
  simp only [respondSpec]
  by_cases hc : s.has c = true
  · simp only [hc, if_true] at hexA
    subst hexA
    simp only [finishQuery, finishTracking_all, hm, htx, List.nil_append, List.flatten_append,
      List.flatten_cons, List.flatten_nil, List.append_nil, List.cons_append]
    congr 2
    simp only [LT.visit, hc, if_true, List.any_cons, Bool.not_true, Bool.false_or, specStatus_present,
      any_not_eq_not_all, Bool.not_not]
  · have hc' : s.has c = false := by simpa using hc
    simp only [hc', Bool.false_eq_true, if_false] at hexA
    subst hexA
    simp only [LT.visit, hc', Bool.false_eq_true, if_false] at htx
    simp only [finishQuery, finishWithError, LT.visit, hc', Bool.false_eq_true, if_false, htx, specStatus,
      List.nil_append, List.flatten_append, List.flatten_cons, List.flatten_nil, List.append_nil]
    -- the status table generated from executeQuery: ErrFirstBlockLoad => RequestFailedContentNotFound
    rfl

/-! ### `refines` -/

/-- **C03, metadata and block attachment.**  For every batching of the request's transactions into
wire messages, the metadata entries read off the messages in order — cid, present/missing, "the
block travels in this message" — are exactly `respondSpec`: the links of the traversal over the
responder's store in traversal order, `present` iff the responder holds the block, block attached
iff present ∧ index > skip ∧ cid ∉ do-not-send-cids ∧ not in use by another request in progress in
the dedup scope ∧ not traversed earlier by this request. -/
theorem refines (s : Store) (hs : s.corrupt = []) (lt : LT) (p : PeerTracker) (r : Req)
    (e : Ext) (w : Want) (hw : e.want? = some w) (hf : Fresh p r)
    (groups : List (List Txn)) (hg : Batching groups (respondTxns s lt p r e)) :
    (groups.map buildMsg).flatMap Msg.annotate = (respondSpec lt s.has w (inUse p w.key)).1 := by
  have hgood : Good groups.flatten.flatten := by
    rw [hg, respond_ops s hs lt p r e w hw hf]
    exact Good_snoc_status _ _ (Good_attach _ _ _ _ _ _)
  rw [annotate_groups groups hgood, hg, respond_ops s hs lt p r e w hw hf, itemsOf_append, itemsOf_mkTxns]
  simp [itemsOf]

/-- **C03, block and metadata travel together.**  In every message of every batching, each block
has a `present` metadata entry for its cid in that same message (no block before or after its
metadata). -/
theorem block_with_metadata (s : Store) (hs : s.corrupt = []) (lt : LT) (p : PeerTracker) (r : Req)
    (e : Ext) (w : Want) (hw : e.want? = some w) (hf : Fresh p r)
    (groups : List (List Txn)) (hg : Batching groups (respondTxns s lt p r e)) :
    ∀ g ∈ groups, (buildMsg g).stray = [] := by
  intro g hgm
  have hgood : Good (groups.map List.flatten).flatten := by
    rw [← List.flatten_flatten, hg, respond_ops s hs lt p r e w hw hf]
    exact Good_snoc_status _ _ (Good_attach _ _ _ _ _ _)
  exact stray_buildMsg g (Good_of_mem_flatten hgood _ (List.mem_map_of_mem hgm))

/-- **C03, final status on the wire.**  For every batching, the last status code the messages
carry for the request is the specified one. -/
theorem final_status (s : Store) (hs : s.corrupt = []) (lt : LT) (p : PeerTracker) (r : Req)
    (e : Ext) (w : Want) (hw : e.want? = some w) (hf : Fresh p r)
    (groups : List (List Txn)) (hg : Batching groups (respondTxns s lt p r e)) :
    finalStatus (groups.map buildMsg) = some (respondSpec lt s.has w (inUse p w.key)).2 := by
  rw [finalStatus_groups, hg, respond_ops s hs lt p r e w hw hf, lastStatusOp_append]
  simp [lastStatusOp]

/-! ### `status` -/

theorem attach_present (skip : Int) (ex : Cid → Bool) (es : List (Cid × Bool)) :
    ∀ (i : Nat) (seen : List Cid),
      (attach skip ex i seen es).map (fun it => (it.cid, it.present)) = es := by
  induction es with
  | nil => intros; rfl
  | cons e es ih => intro i seen; obtain ⟨c, b⟩ := e; simp [attach, ih]

/-- the specified metadata is the traversal: cids and present flags of `lt.visit`, in order. -/
theorem spec_metadata (lt : LT) (has : Cid → Bool) (w : Want) (inUse : Cid → Bool) :
    (respondSpec lt has w inUse).1.map (fun it => (it.cid, it.present)) = lt.visit has := by
  simp [respondSpec, attach_present]

/-- **C03, status.**  complete-full ↔ no listed link is missing. -/
theorem status_full_iff (lt : LT) (has : Cid → Bool) (w : Want) (inUse : Cid → Bool) :
    (respondSpec lt has w inUse).2 = .completedFull ↔
      ∀ it ∈ (respondSpec lt has w inUse).1, it.present = true := by
  have hmd := spec_metadata lt has w inUse
  have hall : (∀ it ∈ (respondSpec lt has w inUse).1, it.present = true) ↔ ∀ e ∈ lt.visit has, e.2 = true := by
    rw [← hmd]
    simp
  rw [hall]
  simp only [respondSpec]
  obtain ⟨c, kids⟩ := lt
  by_cases hc : has c = true
  · simp only [LT.visit, hc, if_true, specStatus_present]
    cases h : (visitAll has kids).all (fun e => e.2) with
    | true => simpa using List.all_eq_true.mp h
    | false =>
      simp only [Bool.false_eq_true, if_false, reduceCtorEq, false_iff]
      intro hall
      rw [List.all_eq_true.mpr (fun x hx => hall x (List.mem_cons_of_mem _ hx))] at h
      cases h
  · have hc' : has c = false := by simpa using hc
    simp [LT.visit, hc', specStatus]

/-- **C03, status.**  root missing ⇒ content-not-found, and the metadata is the single missing root
entry (without block). -/
theorem status_root_missing (c : Cid) (kids : List LT) (has : Cid → Bool) (w : Want) (inUse : Cid → Bool)
    (h : has c = false) :
    respondSpec (.node c kids) has w inUse = ([⟨c, false, false⟩], .contentNotFound) := by
  simp [respondSpec, LT.visit, h, attach, specStatus]

/-- **C03, status.**  root present and some listed link missing ⇒ complete-partial; so the status is
always one of the three. -/
theorem status_partial_iff (c : Cid) (kids : List LT) (has : Cid → Bool) (w : Want) (inUse : Cid → Bool)
    (h : has c = true) :
    (respondSpec (.node c kids) has w inUse).2 = .completedPartial ↔
      ∃ it ∈ (respondSpec (.node c kids) has w inUse).1, it.present = false := by
  have hfull := status_full_iff (.node c kids) has w inUse
  have h3 : (respondSpec (.node c kids) has w inUse).2 = .completedFull ∨
      (respondSpec (.node c kids) has w inUse).2 = .completedPartial := by
    simp only [respondSpec, LT.visit, h, if_true, specStatus_present]
    cases (visitAll has kids).all (fun e => e.2) <;> simp
  constructor
  · intro hp
    cases hall : (respondSpec (.node c kids) has w inUse).1.all (fun it => it.present) with
    | true =>
      have : ∀ it ∈ (respondSpec (.node c kids) has w inUse).1, it.present = true :=
        fun it hit => List.all_eq_true.mp hall it hit
      rw [hfull.mpr this] at hp
      cases hp
    | false =>
      obtain ⟨it, hit, hpr⟩ := List.all_eq_false.mp hall
      exact ⟨it, hit, by simpa using hpr⟩
  · intro ⟨it, hit, hpr⟩
    rcases h3 with h3 | h3
    · have := hfull.mp h3 it hit
      rw [hpr] at this; cases this
    · exact h3

/-- **C03, status, on the wire.**  For every batching of an accepted request's transactions: the last
status code on the wire is complete-full iff no metadata entry on the wire is marked missing; if
the responder lacks the root, the wire carries content-not-found and the single missing root entry;
if it holds the root, the status is complete-partial iff some entry on the wire is marked missing;
and the wire metadata (cid, present) is the traversal over the responder's store, in order.
(`spec_metadata`, `status_full_iff`, `status_partial_iff`, `status_root_missing` above are lemmas about
the specification function used here; they are not obligations of their own.) -/
theorem status_wire (s : Store) (hs : s.corrupt = []) (lt : LT) (p : PeerTracker) (r : Req)
    (e : Ext) (w : Want) (hw : e.want? = some w) (hf : Fresh p r)
    (groups : List (List Txn)) (hg : Batching groups (respondTxns s lt p r e)) :
    (finalStatus (groups.map buildMsg) = some .completedFull ↔
      ∀ it ∈ (groups.map buildMsg).flatMap Msg.annotate, it.present = true) ∧
    (∀ c kids, lt = .node c kids → s.has c = false →
      finalStatus (groups.map buildMsg) = some .contentNotFound ∧
      (groups.map buildMsg).flatMap Msg.annotate = [⟨c, false, false⟩]) ∧
    (∀ c kids, lt = .node c kids → s.has c = true →
      (finalStatus (groups.map buildMsg) = some .completedPartial ↔
        ∃ it ∈ (groups.map buildMsg).flatMap Msg.annotate, it.present = false)) ∧
    ((groups.map buildMsg).flatMap Msg.annotate).map (fun it => (it.cid, it.present)) = lt.visit s.has := by
  rw [final_status s hs lt p r e w hw hf groups hg, refines s hs lt p r e w hw hf groups hg]
  refine ⟨?_, ?_, ?_, spec_metadata lt s.has w (inUse p w.key)⟩
  · simp only [Option.some.injEq]
    exact status_full_iff lt s.has w (inUse p w.key)
  · intro c kids hlt hc
    subst hlt
    rw [status_root_missing c kids s.has w (inUse p w.key) hc]
    exact ⟨rfl, rfl⟩
  · intro c kids hlt hc
    subst hlt
    simp only [Option.some.injEq]
    exact status_partial_iff c kids s.has w (inUse p w.key) hc

/-! ### the scripted batching of the harness is a batching -/

theorem batchFrom_flatten (script : List Nat) : ∀ (fuel pos : Nat) (ts : List Txn),
    ts.length ≤ fuel → (batchFrom script fuel pos ts).flatten = ts := by
  intro fuel
  induction fuel with
  | zero =>
    intro pos ts h
    have : ts = [] := List.eq_nil_of_length_eq_zero (by omega)
    subst this; simp [batchFrom]
  | succ fuel ih =>
    intro pos ts h
    cases ts with
    | nil => simp [batchFrom]
    | cons t ts =>
      simp only [batchFrom, List.flatten_cons]
      rw [ih]
      · exact List.take_append_drop _ _
      · simp only [List.length_drop, List.length_cons] at h ⊢
        have : 1 ≤ max 1 (script.getD (pos % max 1 script.length) 1) := Nat.le_max_left _ _
        omega

theorem batch_is_batching (script : List Nat) (pos : Nat) (txns : List Txn) :
    Batching (batch script pos txns) txns := by
  unfold Batching batch
  rw [batchFrom_flatten _ _ _ _ (Nat.le_refl _)]
  induction txns with
  | nil => rfl
  | cons t ts ih =>
    cases t with
    | nil => simpa [List.filter] using ih
    | cons o os => simp [List.filter, ih]

/-! ### paused / resumed requests, and the other requests of the same peer

`runRequest s lt p r hp e stop0 env0 sched` (GSProofs/Lemmas/ResponderConcurrent.lean) is the life of
an accepted request built from the model's `startRequest` / `resumeRequest`: the request hook may
pause it at once (`hp`); every phase has its own stop condition (pause by the k-th block hook call
or by a `PauseResponse` command during the k-th block load — so a pause can fall on any block, and
there can be any number of pauses); during each pause the rest of the responder performs an
arbitrary list of link tracker operations of OTHER requests of the same peer (`env0`, then the
lists in `sched`).  The result is the final tracker, all transactions, and a flag "finished". -/

theorem finalOp_spec (c : Cid) (kids : List LT) (has : Cid → Bool) :
    finalOp (!has c) (false || ((LT.node c kids).visit has).any (fun e => !e.2))
      = [.status (specStatus ((LT.node c kids).visit has))] := by
  by_cases hc : has c = true
  · simp only [finalOp, LT.visit, hc, if_true, Bool.not_true, Bool.false_eq_true, if_false, Bool.false_or,
      List.any_cons, specStatus_present, any_not_eq_not_all]
    cases (visitAll has kids).all (fun e => e.2) <;> simp
  · have hc' : has c = false := by simpa using hc
    simp only [finalOp, LT.visit, hc', Bool.not_false, if_true, Bool.false_eq_true, if_false, specStatus]
    rfl

/-- **C03 for paused requests with concurrent requests in ANY scope (also the same one).**
A finished request's transactions are `pre` followed by the transaction of the specified final
status; without the `RequestPaused` statuses, `pre` is exactly one block operation per link of the
traversal over the responder's store, in traversal order, marked present/missing, numbered
1, 2, …, interleaved (`sch`) with the environment's operations that happened before each link; and
(`SendRule`) the block of a link is attached iff it is present, its number exceeds
do-not-send-first-blocks, and at the moment of that load no request in progress in the dedup scope
(this one included, its do-not-send-cids list included) has traversed the cid with its block.
Metadata order, present flags and final status do not depend on the environment at all. -/
theorem paused_concurrent (s : Store) (hs : s.corrupt = []) (lt : LT) (p : PeerTracker) (r : Req)
    (e : Ext) (w : Want) (hw : e.want? = some w) (hf : Fresh p r)
    (hp : Bool) (stop0 : Stop) (env0 : List Op) (sched : List (Stop × List Op))
    (hstop0 : isCancel stop0 = false) (hstops : ∀ x ∈ sched, isCancel x.1 = false)
    (hn : NotMine r (env0 ++ sched.flatMap (·.2)))
    (hd : (runRequest s lt p r hp e stop0 env0 sched).2.2 = true) :
    ∃ sch rest pre,
      sch.map (·.2) = lt.visit s.has ∧
      sch.flatMap (·.1) ++ rest = env0 ++ sched.flatMap (·.2) ∧
      (runRequest s lt p r hp e stop0 env0 sched).2.1
        = pre ++ [[.status (respondSpec lt s.has w (inUse p w.key)).2]] ∧
      strip pre = (threadEnv r (prepareQuery p r { paused := hp } e).1 sch).2 ∧
      SendRule r w.skip (prepareQuery p r { paused := hp } e).1 0 sch (strip pre) := by
  obtain ⟨p1, hprep, _, _, hcnt, hskip, hmiss, _⟩ := prepare_ok' p r e w hw hf hp
  obtain ⟨c, kids⟩ := lt
  have hn0 : NotMine r env0 := fun o ho => hn o (List.mem_append_left _ ho)
  have hn1 : NotMine r (sched.flatMap (·.2)) := fun o ho => hn o (List.mem_append_right _ ho)
  have hst : St s { trav := { todo := [LT.node c kids] } } ((LT.node c kids).visit s.has) (!s.has c) :=
    St.fresh c kids 0 0
  have key : ∀ (tl : PeerTracker × List Txn × Bool) (t0 : Txn) (sch : List (List Op × (Cid × Bool))) (rest : List Op)
      (pre : List Txn), t0.filter notPaused = [] →
      sch.map (·.2) = (LT.node c kids).visit s.has → sch.flatMap (·.1) ++ rest = env0 ++ sched.flatMap (·.2) →
      tl.2.1 = pre ++ [finalOp (!s.has c) (missOf p1 r || ((LT.node c kids).visit s.has).any (fun e => !e.2))] →
      strip pre = (threadEnv r p1 sch).2 →
      ∃ sch rest pre',
        sch.map (·.2) = (LT.node c kids).visit s.has ∧ sch.flatMap (·.1) ++ rest = env0 ++ sched.flatMap (·.2) ∧
        [t0] ++ tl.2.1 = pre' ++ [[.status (respondSpec (LT.node c kids) s.has w (inUse p w.key)).2]] ∧
        strip pre' = (threadEnv r p1 sch).2 ∧ SendRule r w.skip p1 0 sch (strip pre') := by
    intro tl t0 sch rest pre ht0 h1 h2 h3 h4
    have hstrip : strip ([t0] ++ pre) = (threadEnv r p1 sch).2 := by
      rw [strip_append, h4]; simp [strip, ht0]
    refine ⟨sch, rest, [t0] ++ pre, h1, h2, ?_, hstrip, ?_⟩
    · rw [h3, hmiss, finalOp_spec, List.append_assoc]; rfl
    · rw [hstrip]
      have hnm : NotMine r (sch.flatMap (·.1)) := fun o ho => hn o (by rw [← h2]; exact List.mem_append_left _ ho)
      have := threadEnv_sendRule r sch p1 hnm
      rwa [hskip, hcnt] at this
  cases hp with
  | false =>
    simp only [Bool.false_eq_true, if_false] at hprep
    rw [runRequest_queued s _ p p1 r e stop0 env0 sched hprep] at hd ⊢
    simp only [hprep]
    have hstops' : ∀ x ∈ (stop0, env0) :: sched, isCancel x.1 = false := by
      intro x hx; rcases List.mem_cons.mp hx with rfl | hx
      · exact hstop0
      · exact hstops x hx
    have hn' : NotMine r (((stop0, env0) :: sched).flatMap (·.2)) := by simpa [List.flatMap_cons] using hn
    obtain ⟨sch, rest, pre, h1, h2, h3, h4⟩ := phases_ops s hs r ((stop0, env0) :: sched) p1 [] _ _ _ hst hstops'
      (fun _ h => by cases h) hn' (by simpa [runFrom] using hd)
    simp only [runFrom, List.nil_append, List.flatMap_cons] at h2 h3
    exact key _ [] sch rest pre rfl h1 h2 h3 h4
  | true =>
    simp only [if_true] at hprep
    rw [runRequest_hookPaused s _ p p1 r e stop0 env0 sched hprep] at hd ⊢
    simp only [hprep]
    obtain ⟨sch, rest, pre, h1, h2, h3, h4⟩ := phases_ops s hs r sched p1 env0 _ _ _ hst hstops hn0 hn1 hd
    exact key _ [.status .paused] sch rest pre rfl h1 h2 h3 h4

/-- **C03 for paused and resumed requests (`refines_paused`).**  If what the other requests of the
peer do during the pauses stays out of this request's dedup scope (`EnvScopes`: every
tracker-touching operation is by a request whose dedup key differs; their keys are followed through
their own dedup-by-key / finish operations starting from the peer's key map at arrival), then a
response paused at any blocks and resumed any number of times puts on the wire — for every batching
into messages — exactly the metadata, block attachments and final status of the uninterrupted
response (`respondSpec`); every block travels with its metadata entry. -/
theorem refines_paused (s : Store) (hs : s.corrupt = []) (lt : LT) (p : PeerTracker) (r : Req)
    (e : Ext) (w : Want) (hw : e.want? = some w) (hf : Fresh p r)
    (hp : Bool) (stop0 : Stop) (env0 : List Op) (sched : List (Stop × List Op))
    (hstop0 : isCancel stop0 = false) (hstops : ∀ x ∈ sched, isCancel x.1 = false)
    (hsc : EnvScopes r w.key p.dedupKeys (env0 ++ sched.flatMap (·.2)))
    (hd : (runRequest s lt p r hp e stop0 env0 sched).2.2 = true)
    (groups : List (List Txn)) (hg : Batching groups (runRequest s lt p r hp e stop0 env0 sched).2.1) :
    (groups.map buildMsg).flatMap Msg.annotate = (respondSpec lt s.has w (inUse p w.key)).1 ∧
    finalStatus (groups.map buildMsg) = some (respondSpec lt s.has w (inUse p w.key)).2 ∧
    ∀ g ∈ groups, (buildMsg g).stray = [] := by
  obtain ⟨sch, rest, pre, h1, h2, h3, h4, _⟩ :=
    paused_concurrent s hs lt p r e w hw hf hp stop0 env0 sched hstop0 hstops (EnvScopes_notMine hsc) hd
  obtain ⟨p1, hprep, hk, hag, hcnt, hskip, _, hrc⟩ := prepare_ok' p r e w hw hf hp
  simp only [hprep] at h4
  have hex : (fun c => rcOf p1 r c != 0) = (fun c => w.ignore.contains c || inUse p w.key c) := funext hrc
  have hsc' : EnvScopes r w.key p.dedupKeys (sch.flatMap (·.1)) := EnvScopes_append (by rw [h2]; exact hsc)
  have hops : pre.flatten.filter notPaused = (mkTxns 0 (respondSpec lt s.has w (inUse p w.key)).1).flatten := by
    have := threadEnv_other r w.key sch p1 p.dedupKeys hk hag hsc'
    rw [hcnt, hskip, hex, h1] at this
    simp only [respondSpec]
    rw [← this, ← h4]; rfl
  have hall : groups.flatten.flatten = pre.flatten ++ [.status (respondSpec lt s.has w (inUse p w.key)).2] := by
    rw [hg, h3]; simp
  have hgoodpre : Good pre.flatten := Good_of_filter _ (by rw [hops]; exact Good_attach _ _ _ _ _ _)
  have hgood : Good groups.flatten.flatten := by rw [hall]; exact Good_snoc_status _ _ hgoodpre
  refine ⟨?_, ?_, ?_⟩
  · rw [annotate_groups groups hgood, hall, itemsOf_append, ← itemsOf_filter pre.flatten, hops, itemsOf_mkTxns]
    simp [itemsOf]
  · rw [finalStatus_groups, hall, lastStatusOp_append]
    simp [lastStatusOp]
  · intro g hgm
    have hgood' : Good (groups.map List.flatten).flatten := by rw [← List.flatten_flatten]; exact hgood
    exact stray_buildMsg g (Good_of_mem_flatten hgood' _ (List.mem_map_of_mem hgm))

/-! ### literal reading of "not already sent" -/

/-- cids of present links among the first `skip` links / cids of links after them. -/
def windowCids (skip : Int) : Nat → List (Cid × Bool) → List Cid
  | _, [] => []
  | i, (c, pres) :: es =>
    (if pres && decide (((i + 1 : Nat) : Int) ≤ skip) then [c] else []) ++ windowCids skip (i + 1) es

def lateCids (skip : Int) : Nat → List (Cid × Bool) → List Cid
  | _, [] => []
  | i, (c, _) :: es =>
    (if decide (skip < ((i + 1 : Nat) : Int)) then [c] else []) ++ lateCids skip (i + 1) es

theorem attach_eq_literal (skip : Int) (ex : Cid → Bool) (es : List (Cid × Bool)) :
    ∀ (i : Nat) (seen sent : List Cid),
      (∀ c ∈ lateCids skip i es, ex c = false → seen.contains c = sent.contains c) →
      (∀ c ∈ windowCids skip i es, c ∉ lateCids skip i es) →
      attach skip ex i seen es = attachLiteral skip ex i sent es := by
  induction es with
  | nil => intros; rfl
  | cons e es ih =>
    intro i seen sent H W
    obtain ⟨c, pres⟩ := e
    simp only [attach, attachLiteral]
    by_cases hlate : skip < ((i + 1 : Nat) : Int)
    · -- a link after the window
      have hd : decide (skip < ((i + 1 : Nat) : Int)) = true := decide_eq_true hlate
      have hcl : c ∈ lateCids skip i ((c, pres) :: es) := by
        simp only [lateCids, hd, if_true]; exact List.mem_append_left _ List.mem_cons_self
      have hb : (pres && decide (skip < ((i + 1 : Nat) : Int)) && !ex c && !seen.contains c)
          = (pres && decide (skip < ((i + 1 : Nat) : Int)) && !ex c && !sent.contains c) := by
        cases hex : ex c with
        | true => simp
        | false => rw [H c hcl hex]
      rw [hb]
      congr 1
      apply ih
      · intro c' hc' hex'
        have hc'l : c' ∈ lateCids skip i ((c, pres) :: es) := by
          simp only [lateCids]; exact List.mem_append_right _ hc'
        have hH := H c' hc'l hex'
        by_cases hcc : c' = c
        · subst hcc
          cases pres with
          | false => simpa using hH
          | true =>
            rw [if_pos rfl, hd, hex']
            simp only [Bool.true_and, Bool.not_false, List.contains_cons, beq_self_eq_true, Bool.true_or]
            cases hs : sent.contains c' with
            | true => simp only [Bool.not_true, Bool.false_eq_true, if_false, hs]
            | false => simp only [Bool.not_false, if_true, List.contains_cons, beq_self_eq_true, Bool.true_or]
        · have hne : (c' == c) = false := by simp [hcc]
          have e1 : (if pres = true then c :: seen else seen).contains c' = seen.contains c' := by
            cases pres
            · rfl
            · simp only [if_true, List.contains_cons, hne, Bool.false_or]
          have e2 : ∀ b : Bool, (if b = true then c :: sent else sent).contains c' = sent.contains c' := by
            intro b; cases b
            · rfl
            · simp only [if_true, List.contains_cons, hne, Bool.false_or]
          rw [e1, e2, hH]
      · intro c' hc' hl
        apply W c'
        · simp only [windowCids]; exact List.mem_append_right _ hc'
        · simp only [lateCids]; exact List.mem_append_right _ hl
    · -- a link inside the window: no block either way
      have hd : decide (skip < ((i + 1 : Nat) : Int)) = false := by simpa using hlate
      simp only [hd, Bool.and_false, Bool.false_and, Bool.false_eq_true, if_false]
      congr 1
      apply ih
      · intro c' hc' hex'
        have hc'l : c' ∈ lateCids skip i ((c, pres) :: es) := by
          simp only [lateCids]; exact List.mem_append_right _ hc'
        have hH := H c' hc'l hex'
        cases pres with
        | false => simpa using hH
        | true =>
          have hcw : c ∈ windowCids skip i ((c, true) :: es) := by
            have hle : ((i + 1 : Nat) : Int) ≤ skip := by omega
            have hd2 : decide (((i + 1 : Nat) : Int) ≤ skip) = true := decide_eq_true hle
            simp only [windowCids, hd2, Bool.true_and, if_true]
            exact List.mem_append_left _ List.mem_cons_self
          have hcc : c' ≠ c := by
            intro h; subst h; exact W c' hcw hc'l
          have hne : (c' == c) = false := by simp [hcc]
          simp only [if_true, List.contains_cons, hne, Bool.false_or]
          exact hH
      · intro c' hc' hl
        apply W c'
        · simp only [windowCids]; exact List.mem_append_right _ hc'
        · simp only [lateCids]; exact List.mem_append_right _ hl

/-
The other reading, for the record: "do-not-send-first-blocks excludes only the first N LINKS, and a
block is withheld as a duplicate only if an earlier link of the request actually carried it"
(`respondSpecLiteral`).  It is not the property as read (see the header) and the code does not follow
it: a block whose first link falls inside the window is not sent with a later link either.  The two
readings coincide whenever no present block of the window is linked again after the window.
-/

/-- the per-link reading coincides with `respondSpec` when no present block among the first `skip`
links is linked again later (e.g. `skip ≤ 0`, or no block visited twice).  `hnw` is a sufficient
condition, not the exact boundary: it also counts re-links of cids that are excluded anyway
(do-not-send-cids, in use by another request), on which the two readings agree as well. -/
theorem literal_reading_agrees (s : Store) (hs : s.corrupt = []) (lt : LT) (p : PeerTracker) (r : Req)
    (e : Ext) (w : Want) (hw : e.want? = some w) (hf : Fresh p r)
    (groups : List (List Txn)) (hg : Batching groups (respondTxns s lt p r e))
    (hnw : ∀ c ∈ windowCids w.skip 0 (lt.visit s.has), c ∉ lateCids w.skip 0 (lt.visit s.has)) :
    (groups.map buildMsg).flatMap Msg.annotate = (respondSpecLiteral lt s.has w (inUse p w.key)).1 := by
  rw [refines s hs lt p r e w hw hf groups hg]
  simp only [respondSpec, respondSpecLiteral]
  exact attach_eq_literal _ _ _ 0 [] [] (fun _ _ _ => rfl) hnw

/-- a root linking twice to the same child; the requestor says it has the first two blocks. -/
def cexLT : LT := .node 0 [.node 1 [], .node 1 []]
def cexStore : Store := { held := [0, 1] }
def cexExt : Ext := { skip := .ok 2 }
def cexWant : Want := { skip := 2 }

/-- where the readings differ: the third link (block 1 again, index 3 > skip = 2) carries no block in
the model — as in the code, and as the property is read: block 1 is one of the first two blocks —
while the per-link reading would attach it. -/
theorem literal_reading_differs :
    cexExt.want? = some cexWant ∧
    ((batch [1] 0 (respondTxns cexStore cexLT {} 7 cexExt)).map buildMsg).flatMap Msg.annotate
      = [⟨0, true, false⟩, ⟨1, true, false⟩, ⟨1, true, false⟩] ∧
    (respondSpec cexLT cexStore.has cexWant (fun _ => false)).1
      = [⟨0, true, false⟩, ⟨1, true, false⟩, ⟨1, true, false⟩] ∧
    (respondSpecLiteral cexLT cexStore.has cexWant (fun _ => false)).1
      = [⟨0, true, false⟩, ⟨1, true, false⟩, ⟨1, true, true⟩] := by
  refine ⟨rfl, ?_, ?_, ?_⟩ <;> decide

/-! ### non-vacuity: the hypotheses are met by non-trivial states -/

/-- a tracker in which request 1 (scope: key 5) is in progress and has traversed block 2, and
request 7 is fresh. -/
def exTracker : PeerTracker := (({} : PeerTracker).dedupKey 1 5).traverse 1 2 true |>.1

theorem exFresh : Fresh exTracker 7 := by
  refine ⟨rfl, rfl, rfl, rfl, ?_, rfl⟩
  intro k t h
  simp only [exTracker, PeerTracker.dedupKey, PeerTracker.traverse, PeerTracker.setTracker,
    PeerTracker.setScopeTracker, PeerTracker.trackerOf, PeerTracker.scopeTracker] at h
  by_cases hk : k = 5
  · subst hk
    simp [aget, aset, aerase, LinkTracker.record] at h
    subst h; rfl
  · have : (5 == k) = false := by simp [Ne.symm hk]
    simp [aget, aset, aerase, Ne.symm hk] at h

/-- a DAG with a shared child (2 linked twice) and a missing block (3); key 5, ignore {4}, skip 1. -/
def exLT : LT := .node 0 [.node 2 [], .node 3 [.node 9 []], .node 4 [], .node 2 [], .node 6 []]
def exStore : Store := { held := [0, 2, 4, 6] }
def exExt : Ext := { key := .ok 5, ignore := .ok [4], skip := .ok 1 }
def exWant : Want := { key := some 5, ignore := [4], skip := 1 }

/-- the hypotheses of `refines` / `block_with_metadata` / `final_status` are jointly satisfiable by
this non-trivial state (another request in progress in the same scope, all three extensions, a
missing block, a shared block, a batching that splits and merges transactions). -/
example :=
  refines exStore rfl exLT exTracker 7 exExt exWant rfl exFresh _ (batch_is_batching [2, 1] 0 _)

/-- a request of another dedup scope (request 9, key 6) working during the pauses: joins its scope,
traverses blocks 2 and 6, finishes. -/
def exEnvOther : List Op := [.dedup 9 6, .trav 9 2 true, .trav 9 6 true, .finish 9]

/-- the hypotheses of `refines_paused` / `paused_concurrent` are jointly satisfiable: the request
hook pauses the request at once, the first running phase pauses at the 2nd block hook call, the next at
the 5th block load (a `PauseResponse` command), the last runs to the end; another request works in
another scope during the second pause; the request finishes. -/
example :=
  refines_paused exStore rfl exLT exTracker 7 exExt exWant rfl exFresh true (.hookPause 2) []
    [(.sigPause 5, exEnvOther), (.never, []), (.never, [])] (by decide) (by decide) (by decide) (by decide)
    _ (batch_is_batching [2, 1] 0 _)

/-- a request of the SAME dedup scope (request 8 joins key 5) traversing block 6 during a pause. -/
def exEnvSame : List Op := [.dedup 8 5, .trav 8 6 true]

/-- the other-scope hypothesis of `refines_paused` is needed, and `paused_concurrent` says what happens
instead: with request 8 traversing block 6 in the same scope while request 7 is paused (after its 2nd
block hook call), block 6 is no longer attached to request 7's last link — the send rule reads the
reference count of the moment; metadata and status are unchanged. -/
theorem refines_paused_same_scope_counterexample :
    ¬ EnvScopes 7 (some 5) exTracker.dedupKeys exEnvSame ∧
    (runRequest exStore exLT exTracker 7 false exExt (.hookPause 2) exEnvSame [(.never, [])]).2.2 = true ∧
    ((batch [1] 0 (runRequest exStore exLT exTracker 7 false exExt (.hookPause 2) exEnvSame [(.never, [])]).2.1).map
        buildMsg).flatMap Msg.annotate
      = [⟨0, true, false⟩, ⟨2, true, false⟩, ⟨3, false, false⟩, ⟨4, true, false⟩, ⟨2, true, false⟩, ⟨6, true, false⟩] ∧
    (respondSpec exLT exStore.has exWant (inUse exTracker (some 5))).1
      = [⟨0, true, false⟩, ⟨2, true, false⟩, ⟨3, false, false⟩, ⟨4, true, false⟩, ⟨2, true, false⟩, ⟨6, true, true⟩] := by
  refine ⟨?_, ?_, ?_, ?_⟩ <;> decide

/-- test (one concrete run): root skipped, block 2 in use by request 1, 3 missing (its subtree is not
visited), 4 ignored, 2 again, 6 sent; status partial — through the batching [2,1]. -/
example :
    exExt.want? = some exWant ∧
    ((batch [2, 1] 0 (respondTxns exStore exLT exTracker 7 exExt)).map buildMsg).flatMap Msg.annotate
      = [⟨0, true, false⟩, ⟨2, true, false⟩, ⟨3, false, false⟩, ⟨4, true, false⟩, ⟨2, true, false⟩, ⟨6, true, true⟩] ∧
    respondSpec exLT exStore.has exWant (inUse exTracker (some 5))
      = ([⟨0, true, false⟩, ⟨2, true, false⟩, ⟨3, false, false⟩, ⟨4, true, false⟩, ⟨2, true, false⟩, ⟨6, true, true⟩],
         .completedPartial) := by
  refine ⟨rfl, ?_, ?_⟩ <;> decide

end GS.C03
